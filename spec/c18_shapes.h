/* C18 -- the two catalogue entries whose decoding is proved by CBMC (harness/c18_print.c).
 * The text must equal the real model_evlist[] entries: native/c18_catalogue.c compares it with
 * the real src/emu/ovni/setup.c and src/emu/nosv/setup.c on every run (obligation print_shapes_current). */
#ifndef C18_SHAPES_H
#define C18_SHAPES_H
#define C18_OAR_SIG  "OAr(i32 cpu, i32 tid)"
#define C18_OAR_DESC "changes the affinity of thread %{tid} to CPU %{cpu}"
#define C18_VYC_SIG  "VYc+(u32 typeid, str label)"
#define C18_VYC_DESC "creates task type %{typeid} with label \"%{label}\""
#endif
