/* C14 native replay of version_parse on the REAL src/include/version.h (glibc strtok_r / strtol).
 * Witness: the version string, bytes W_C0..W_C15 (W_NULL: NULL pointer), see c14_replay_common.h.
 * Specification (statement: "malformed version strings are refused"): accepted (0) exactly when the
 * string is D+.D+.D+[-suffix] with numbers that fit an int, and then tuple[] holds the three decimal
 * values; refused (-1) with a diagnostic otherwise, NULL and strings of 64 characters or more
 * included.  The strings of the known finding F-C14-1 are judged by the documented lenient language.
 * After the witness, the corpus of c14_replay_common.h is tried. */
#include "c14_replay_common.h"
#include "version.h"
static const char *r_origin = "witness";
static int one(const char *s)
{
	long want[3] = { -1, -1, -1 }; int finding;
	int expect = r_expect_parse(s, want, &finding);
	int t[3] = { -7, -7, -7 };
	int e0 = n_err;
	int r = version_parse(s, t);
	const char *why = NULL;
	if (r != 0 && r != -1) why = "return value is neither 0 nor -1";
	else if ((r == 0) != (expect != 0)) why = expect ? "a well-formed version string was refused" : "a malformed version string was accepted";
	else if (r == 0 && (t[0] != want[0] || t[1] != want[1] || t[2] != want[2])) why = "accepted with wrong numbers";
	else if (r != 0 && n_err == e0) why = "refused without a diagnostic";
	if (why) {
		printf("REPRODUCED version_parse(%s): %s: returned %d, tuple %d.%d.%d; specified %s", r_show(s), why, r, t[0], t[1], t[2], expect ? "accepted" : "refused");
		if (expect) printf(" as %ld.%ld.%ld", want[0], want[1], want[2]);
		printf("%s [%s]\n", finding ? " (lenient reading of known finding F-C14-1)" : "", r_origin);
		return 1;
	}
	return 0;
}
int main(void)
{
	const char *s = r_witness_string();
	if (one(s)) return 1;
	r_origin = "corpus, tried after the witness";
	if (one(NULL) || r_corpus(one)) return 1;
	printf("not reproduced: version_parse behaves as specified on the witness %s and on the corpus\n", r_show(s));
	return 0;
}
