/* C20 native replay of the two-step HISTORY lemma (harness/c20_history.c, groups hist_ss_change_*) on the REAL
 * mux.c (mux_init, mux_set_input, mux_set_default, cb_select, cb_input), chan.c, bay.c (the real propagation) and
 * the real select_tr of src/emu/{nosv,nanos6}/breakdown.c.  Define REPLAY_NANOS6 for the nanos6 copy.
 * Witnesses: W_S_NULL / W_S, W_T_NULL / W_T (step A: subsystem and task type written in one step) and W_B_NULL / W_B
 * (step B: the new subsystem).  mux0 of one CPU is built exactly as connect_cpu does; after each step the row
 * source tr must show what the statement says: the task type while in a task body (subsystem == ST_TASK_BODY and a
 * task type is set), otherwise the subsystem, otherwise "unknown subsystem".  Step B changes ONLY the subsystem
 * (the task-type-only change is known finding F-C20-1 and is not replayed here).  A finite neighbourhood of
 * (S, T, S2) is tried after the witness.
 * Linked with -Wl,--unresolved-symbols=ignore-all.  exit 0: as specified; exit 1: REPRODUCED. */
#include "c12_replay_common.h"
#include "value.c"
#include "chan.c"
#include "bay.c"
#include "mux.c"
#include "sort.c"
#include "extend.c"
#ifdef REPLAY_NANOS6
#include "nanos6/breakdown.c"
#define MODEL "nanos6"
#else
#include "nosv/breakdown.c"
#define MODEL "nosv"
#endif
#ifndef W_S_NULL
#define W_S_NULL 0
#endif
#ifndef W_S
#define W_S 20
#endif
#ifndef W_T_NULL
#define W_T_NULL 0
#endif
#ifndef W_T
#define W_T 777
#endif
#ifndef W_B_NULL
#define W_B_NULL 0
#endif
#ifndef W_B
#define W_B ST_TASK_BODY
#endif
static char why[500];
static struct value mk(int isnull, long long i) { return isnull ? value_null() : value_int64(i); }
static int same(struct value a, struct value b) { return a.type == b.type && (a.type == VALUE_NULL || a.i == b.i); }
static struct value spec(struct value s, struct value t)
{
	if (s.type == VALUE_INT64 && s.i == ST_TASK_BODY && t.type != VALUE_NULL) return t;
	if (s.type != VALUE_NULL) return s;
	return value_int64(ST_UNKNOWN_SS);
}
static const char *vs(struct value v, char *buf) { if (v.type == VALUE_NULL) strcpy(buf, "null"); else snprintf(buf, 32, "%lld", (long long) v.i); return buf; }
static int hist_case(struct value S, struct value T, struct value S2)
{
	static struct bay bay; static struct chan ss, tt, tr; static struct mux mux0;
	char b1[32], b2[32], b3[32], b4[32], b5[32];
	memset(&mux0, 0, sizeof(mux0)); bay_init(&bay);
	chan_init(&ss, CHAN_SINGLE, "h.ss"); chan_init(&tt, CHAN_SINGLE, "h.tt"); chan_init(&tr, CHAN_SINGLE, "h.tr");
	if (bay_register(&bay, &ss) != 0 || bay_register(&bay, &tt) != 0 || bay_register(&bay, &tr) != 0) { snprintf(why, sizeof(why), "setup: bay_register failed"); return 1; }
	if (mux_init(&mux0, &bay, &ss, &tr, select_tr, 2) != 0 || mux_set_input(&mux0, 0, &ss) != 0 || mux_set_input(&mux0, 1, &tt) != 0) { snprintf(why, sizeof(why), "mux_init / mux_set_input refused the wiring of connect_cpu"); return 1; }
	mux_set_default(&mux0, value_int64(ST_UNKNOWN_SS));
	if (S.type == VALUE_NULL && T.type == VALUE_NULL) return 0;     /* step A writes nothing: no propagation, nothing to show yet */
	/* step A */
	if (S.type != VALUE_NULL && chan_set(&ss, S) != 0) { snprintf(why, sizeof(why), "step A: chan_set(subsystem) refused"); return 1; }
	if (T.type != VALUE_NULL && chan_set(&tt, T) != 0) { snprintf(why, sizeof(why), "step A: chan_set(task type) refused"); return 1; }
	if (bay_propagate(&bay) != 0) { snprintf(why, sizeof(why), "step A (subsystem := %s, task type := %s): the propagation failed", vs(S, b1), vs(T, b2)); return 1; }
	struct value out; if (chan_read(&tr, &out) != 0) return 1;
	if (S.type != VALUE_NULL && !same(out, spec(S, T))) { snprintf(why, sizeof(why), "step A (subsystem := %s, task type := %s): the row source shows %s, specified %s (the task type in a body, else the subsystem)", vs(S, b1), vs(T, b2), vs(out, b3), vs(spec(S, T), b4)); return 1; }
	/* step B: only the subsystem changes */
	if (same(S, S2)) return 0;
	if (chan_set(&ss, S2) != 0) { snprintf(why, sizeof(why), "step B: chan_set(subsystem) refused"); return 1; }
	if (bay_propagate(&bay) != 0) { snprintf(why, sizeof(why), "step B (subsystem %s -> %s, task type %s unchanged): the propagation failed", vs(S, b1), vs(S2, b2), vs(T, b3)); return 1; }
	if (chan_read(&tr, &out) != 0) return 1;
	if (!same(out, spec(S2, T))) { snprintf(why, sizeof(why), "step B (subsystem %s -> %s, task type %s unchanged): the row source shows %s, specified %s (the row source follows the subsystem: task type when entering a body, subsystem when leaving it)", vs(S, b1), vs(S2, b2), vs(T, b3), vs(out, b5), vs(spec(S2, T), b4)); return 1; }
	return 0;
}
int main(void)
{
	setvbuf(stdout, NULL, _IONBF, 0);
	struct value S = mk((W_S_NULL) != 0, (W_S)), T = mk((W_T_NULL) != 0, (W_T)), S2 = mk((W_B_NULL) != 0, (W_B));
	if (hist_case(S, T, S2)) { printf("REPRODUCED " MODEL ": %s\n", why); return 1; }
	static const long long vals[] = {0, 1, 2, ST_TASK_BODY, ST_TASK_BODY + 1, 20, -5, 4000000000LL};
	int n = (int) (sizeof(vals) / sizeof(vals[0])), cnt = 0;
	for (int a = -1; a < n; a++) for (int b = -1; b < n; b++) for (int c = -1; c < n; c++) {
		cnt++;
		if (hist_case(mk(a < 0, a < 0 ? 0 : vals[a]), mk(b < 0, b < 0 ? 0 : vals[b]), mk(c < 0, c < 0 ? 0 : vals[c]))) { printf("REPRODUCED " MODEL ": %s (found next to the witness)\n", why); return 1; }
	}
	printf("not reproduced: " MODEL " row source follows subsystem changes as specified on the witness and %d neighbouring histories\n", cnt);
	return 0;
}
