#define REPLAY_OP 1
#include "c05_affinity_replay.h"
