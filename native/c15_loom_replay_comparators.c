#define REPLAY_OP 0
#include "c15_loom_replay.h"
