/* Native replay of a failed C05 obligation of the affinity groups (pre_affinity_set_s0..s5,
 * pre_affinity_remote_s0..s6) on the REAL src/emu/ovni/event.c.
 * REPLAY_OP: 0 pre_affinity_set (OAs), 1 pre_affinity_remote (OAr).
 * Witness ghosts (harness/c05_affinity.c): W_IDX, W_TID (payload words), W_PSIZE (payload size),
 * W_NCPUS, W_HASCPU (the migrating thread has a CPU), W_ON_VCPU (it is the loom's virtual CPU),
 * W_ACTIVE (OAs: is_active), W_STATE (OAr: state of the target thread, -1 not found), W_FOUND_PROC /
 * W_FOUND_LOOM (OAr: which lookup finds the target), W_CELL_NULL / W_CELL_SAME (the CPU table entry
 * the index names is empty / is the thread's current CPU; otherwise another CPU).
 * Other units, as in the harness but deterministic: loom_get_cpu names the virtual CPU for -1, the
 * table entry for an index in [0, ncpus), nothing otherwise; cpu_migrate_thread and
 * thread_migrate_cpu succeed and are logged (thread_migrate_cpu stores th->cpu and the CPU
 * channel value); proc_find_thread / loom_find_thread find what the witnesses say.
 * Specification (statement): an affinity event is refused, with a diagnostic and nothing touched,
 * unless OAs: the thread has a CPU, is active, the payload is 4 bytes and names a CPU of the loom;
 * OAr: the payload is 8 bytes, the target thread exists, is neither dead nor unknown, has a CPU, and
 * the index names a CPU of the loom.  If the thread is already on the named CPU the event is accepted
 * and nothing changes; otherwise the thread is migrated exactly once from its CPU to the named one
 * and afterwards points to it.
 * Inputs the witnesses leave open are enumerated: for OAr the CPU of the thread that EMITS the event
 * (another CPU, the virtual CPU, the target's CPU, none).
 * exit 0: behaves as specified (not reproduced); exit 1: mismatch (reproduced). */
#include "c04c05_replay_stubs.h"
#include "chan.h"
#include "cpu.h"
#include "thread.h"
#include "loom.h"
#include "proc.h"

#ifndef W_IDX
#define W_IDX 0
#endif
#ifndef W_TID
#define W_TID 7
#endif
#ifndef W_PSIZE
#define W_PSIZE ((REPLAY_OP) == 0 ? 4 : 8)
#endif
#ifndef W_NCPUS
#define W_NCPUS 2
#endif
#ifndef W_HASCPU
#define W_HASCPU 1
#endif
#ifndef W_ON_VCPU
#define W_ON_VCPU 0
#endif
#ifndef W_ACTIVE
#define W_ACTIVE 1
#endif
#ifndef W_STATE
#define W_STATE TH_ST_PAUSED
#endif
#ifndef W_FOUND_PROC
#define W_FOUND_PROC 1
#endif
#ifndef W_FOUND_LOOM
#define W_FOUND_LOOM 0
#endif
#ifndef W_CELL_NULL
#define W_CELL_NULL 0
#endif
#ifndef W_CELL_SAME
#define W_CELL_SAME 0
#endif

/* ---- stand-ins for the other units ---- */
static struct cpu *r_cell;              /* the table entry the index names (index in range) */
struct cpu *loom_get_cpu(struct loom *loom, int index)
{
	if (index == -1) return &loom->vcpu;
	if (index < 0 || (size_t) index >= loom->ncpus) return NULL;
	return r_cell;
}
static int r_mig_n, r_tmig_n, r_mig_order_ok = 1;
static struct cpu *r_mig_cpu, *r_mig_new, *r_tmig_cpu;
static struct thread *r_mig_th, *r_tmig_th;
int cpu_migrate_thread(struct cpu *cpu, struct thread *th, struct cpu *newcpu)
{
	if (r_tmig_n != 0) r_mig_order_ok = 0;
	r_mig_n++; r_mig_cpu = cpu; r_mig_th = th; r_mig_new = newcpu;
	return 0;
}
int thread_migrate_cpu(struct thread *th, struct cpu *cpu)
{
	r_tmig_n++; r_tmig_th = th; r_tmig_cpu = cpu;
	th->cpu = cpu;
	th->chan[TH_CHAN_CPU].data.value = value_int64(cpu->gindex);
	return 0;
}
static struct thread *r_pf, *r_lf;
static int r_lookup_bad_tid;
struct thread *proc_find_thread(struct proc *proc, int tid) { (void) proc; if (tid != (int) (W_TID)) r_lookup_bad_tid = 1; return r_pf; }
struct thread *loom_find_thread(struct loom *loom, int tid) { (void) loom; if (tid != (int) (W_TID)) r_lookup_bad_tid = 1; return r_lf; }
NSTUB(thread_set_state) NSTUB(thread_set_cpu) NSTUB(thread_unset_cpu) NSTUB(cpu_update)
NSTUB(cpu_add_thread) NSTUB(cpu_remove_thread) NSTUB(chan_set) NSTUB(extend_get) NSTUB(mark_event)

#include "ovni/event.c"

static void run(int variant)
{
	r_nerr = 0; r_mig_n = r_tmig_n = 0; r_mig_order_ok = 1; r_lookup_bad_tid = 0;
	r_mig_cpu = r_mig_new = r_tmig_cpu = NULL; r_mig_th = r_tmig_th = NULL; r_pf = r_lf = NULL;
	struct emu *emu = calloc(1, sizeof(*emu));
	struct emu_ev *ev = calloc(1, sizeof(*ev));
	struct loom *loom = calloc(1, sizeof(*loom));
	struct proc *proc = calloc(1, sizeof(*proc));
	struct thread *self = calloc(1, sizeof(*self)), *T = calloc(1, sizeof(*T));
	struct cpu *phys = calloc(1, sizeof(*phys)), *other = calloc(1, sizeof(*other));
	loom->ncpus = (size_t) (W_NCPUS); loom->id = "loom.replay";
	loom->vcpu.is_virtual = 1; loom->vcpu.gindex = 1; strcpy(loom->vcpu.name, "vcpu");
	phys->gindex = 5; strcpy(phys->name, "cpu.P"); other->gindex = 9; strcpy(other->name, "cpu.Q");
	self->tid = 1; strcpy(self->id, "thread.self"); self->state = TH_ST_RUNNING; self->is_running = self->is_active = 1;
	self->cpu = variant == 0 ? other : variant == 1 ? &loom->vcpu : variant == 2 ? phys : NULL;
	/* the thread that may migrate: the event's thread (OAs) or the looked-up one (OAr) */
	struct thread *th = (REPLAY_OP) == 0 ? self : T;
	th->cpu = !(W_HASCPU) ? NULL : (W_ON_VCPU) ? &loom->vcpu : phys;
	if ((REPLAY_OP) == 0) {
		th->is_active = (W_ACTIVE);
		th->state = (W_ACTIVE) ? TH_ST_RUNNING : TH_ST_PAUSED; th->is_running = (W_ACTIVE) != 0;
	} else {
		T->tid = (int) (W_TID); strcpy(T->id, "thread.target");
		T->state = (enum thread_state) (W_STATE);
		r_pf = (W_FOUND_PROC) ? T : NULL;
		r_lf = (W_FOUND_LOOM) ? T : NULL;
	}
	struct thread *rt = (REPLAY_OP) == 0 ? self : (r_pf != NULL ? r_pf : r_lf);
	r_cell = (W_CELL_NULL) ? NULL : ((W_CELL_SAME) && rt != NULL && rt->cpu != NULL) ? rt->cpu : other;

	size_t psize = (size_t) (W_PSIZE);
	ev->m = 'O'; ev->c = 'A'; ev->v = (REPLAY_OP) == 0 ? 's' : 'r';
	ev->payload_size = psize; ev->has_payload = psize > 0;
	if (psize > 0) {
		size_t room = psize < sizeof(union ovni_ev_payload) ? sizeof(union ovni_ev_payload) : (psize > (1u << 20) ? (1u << 20) : psize);
		union ovni_ev_payload *p = calloc(1, room);
		p->i32[0] = (int32_t) (W_IDX); p->i32[1] = (int32_t) (W_TID);
		ev->payload = p;
	}
	emu->ev = ev; emu->loom = loom; emu->proc = proc; emu->thread = self;

	int idx = (int) (W_IDX);
	struct cpu *newcpu = idx == -1 ? &loom->vcpu : (idx >= 0 && (size_t) idx < loom->ncpus) ? r_cell : NULL;
	int guards;
	const char *what;
	if ((REPLAY_OP) == 0) {
		what = "pre_affinity_set";
		guards = rt->cpu != NULL && rt->is_active && psize == 4 && newcpu != NULL;
	} else {
		what = "pre_affinity_remote";
		guards = psize == 8 && rt != NULL && rt->state != TH_ST_DEAD && rt->state != TH_ST_UNKNOWN && rt->cpu != NULL && newcpu != NULL;
	}
	struct cpu *oldcpu = rt != NULL ? rt->cpu : NULL;
	int same = guards && oldcpu == newcpu;
	struct thread *before = malloc(sizeof(*before));
	if (rt != NULL) memcpy(before, rt, sizeof(*rt));

	int r = (REPLAY_OP) == 0 ? pre_affinity_set(emu) : pre_affinity_remote(emu);

	char ctx[240];
	snprintf(ctx, sizeof(ctx), "(payload %zu bytes, index %d, ncpus %zu, thread %s, cpu %s, state %d, active %d, entry %s, variant %d)", psize, idx,
		loom->ncpus, rt ? "found" : "not found", oldcpu == NULL ? "none" : oldcpu == &loom->vcpu ? "virtual" : "physical",
		rt ? (int) rt->state : -1, rt ? before->is_active : 0, r_cell == NULL ? "empty" : r_cell == oldcpu ? "same" : "other", variant);
	if (r != 0 && r != -1) R_FAIL("%s returned %d %s", what, r, ctx);
	if (!guards) {
		if (r != -1) R_FAIL("%s accepted an event that must be refused %s", what, ctx);
		if (r_mig_n != 0 || r_tmig_n != 0 || (rt != NULL && memcmp(before, rt, sizeof(*rt)) != 0))
			R_FAIL("%s: a refused event migrated or modified the thread %s", what, ctx);
	} else if (same) {
		if (r != 0) R_FAIL("%s refused a thread that is already on the named CPU %s", what, ctx);
		if (r_mig_n != 0 || r_tmig_n != 0 || memcmp(before, rt, sizeof(*rt)) != 0)
			R_FAIL("%s: a thread already on the named CPU was migrated or modified %s", what, ctx);
	} else {
		if (r != 0) R_FAIL("%s refused a legal migration (every lower layer succeeded) %s", what, ctx);
		if (r_mig_n != 1 || r_mig_cpu != oldcpu || r_mig_th != rt || r_mig_new != newcpu)
			R_FAIL("%s: cpu_migrate_thread called %d time(s)%s; specified once, from the thread's CPU to the named CPU %s", what, r_mig_n,
				r_mig_n == 1 ? " with other arguments" : "", ctx);
		if (r_tmig_n != 1 || r_tmig_th != rt || r_tmig_cpu != newcpu || !r_mig_order_ok)
			R_FAIL("%s: thread_migrate_cpu called %d time(s)%s; specified once, after the CPU migration, with the named CPU %s", what, r_tmig_n,
				r_tmig_n == 1 ? " with other arguments or too early" : "", ctx);
		if (rt->cpu != newcpu) R_FAIL("%s: the thread does not point to the named CPU afterwards %s", what, ctx);
	}
	if ((REPLAY_OP) == 1 && r_lookup_bad_tid) R_FAIL("%s looked up a tid other than the payload's %s", what, ctx);
	if (r == 0 && r_nerr != 0) R_FAIL("%s accepted with %u error diagnostics %s", what, r_nerr, ctx);
	if (r != 0 && r_nerr == 0) R_FAIL("%s refused without a diagnostic %s", what, ctx);
	if (!r_bad) printf("not reproduced: %s returned %d as specified %s\n", what, r, ctx);
}

int main(void)
{
	int nvariants = (REPLAY_OP) == 0 ? 1 : 4;
	for (int v = 0; v < nvariants && !r_bad; v++)
		run(v);
	return r_bad ? 1 : 0;
}
