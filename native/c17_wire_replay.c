/* C17 native replay of the mark channel wiring (create_thread_chan, init_cpu) on the REAL src/emu/ovni/mark.c with
 * the REAL chan.c, bay.c, track.c, mux.c.  No input witness is needed: for 1..3 mark types (single / stack, any
 * definition order) the real functions are run and the statement of the property is evaluated:
 *   - every thread gets ONE channel per mark type, of the type's channel kind, at the type's index, accepting
 *     duplicate values, registered in the bay under thread<gindex>.mark<type>;
 *   - the thread timeline of a mark follows the ACTIVE thread, the CPU timeline the RUNNING thread.
 * Linked with -Wl,--unresolved-symbols=ignore-all.  exit 0: as specified; exit 1: REPRODUCED. */
#include "c12_replay_common.h"
#include "parson.c"
#include "value.c"
#include "chan.c"
#include "bay.c"
#include "mux.c"
#include "track.c"
#include "extend.c"
#include "ovni/mark.c"
static char why[400];
static int wire_case(int nt, int order, int stackmask)
{
	static struct ovni_mark_emu m; static struct bay bay; static struct ovni_thread oth; static struct ovni_cpu ocpu;
	static struct thread *th; static struct cpu *cpu;
	if (!th) { th = calloc(1, sizeof(*th)); cpu = calloc(1, sizeof(*cpu)); }
	memset(&m, 0, sizeof(m)); memset(&oth, 0, sizeof(oth)); memset(&ocpu, 0, sizeof(ocpu)); memset(th, 0, sizeof(*th)); memset(cpu, 0, sizeof(*cpu));
	bay_init(&bay);
	th->gindex = 7; th->ext.ctx['O'] = &oth; cpu->gindex = 3; cpu->ext.ctx['O'] = &ocpu;
	static const long types[3] = {5, 42, 99};
	long ty[3]; for (int i = 0; i < nt; i++) ty[i] = types[(i + order) % 3];
	for (int i = 0; i < nt; i++) if (!create_mark_type(&m, ty[i], (stackmask >> i) & 1 ? CHAN_STACK : CHAN_SINGLE, "t")) { snprintf(why, sizeof(why), "setup: create_mark_type refused"); return 1; }
	n_err = 0;
	if (create_thread_chan(&m, &bay, th) != 0) { snprintf(why, sizeof(why), "create_thread_chan failed on %d mark types", nt); return 1; }
	if (init_cpu(&m, &bay, cpu) != 0) { snprintf(why, sizeof(why), "init_cpu failed on %d mark types", nt); return 1; }
	if (oth.mark.nchannels != nt || !oth.mark.channels || !oth.mark.track || !ocpu.mark.track) { snprintf(why, sizeof(why), "a thread does not get one channel per mark type (%ld channels for %d types)", oth.mark.nchannels, nt); return 1; }
	for (int i = 0; i < nt; i++) {
		struct mark_type *t = find_mark_type(&m, ty[i]);
		struct chan *ch = &oth.mark.channels[t->index];
		char nm[128]; snprintf(nm, sizeof(nm), "thread7.mark%ld", ty[i]);
		if (chan_get_type(ch) != t->ctype) { snprintf(why, sizeof(why), "the channel of mark type %ld is a %s channel but the type was defined %s", ty[i], chan_get_type(ch) == CHAN_STACK ? "stack" : "single", t->ctype == CHAN_STACK ? "stack" : "single"); return 1; }
		if (strcmp(ch->name, nm) != 0 || bay_find(&bay, nm) != ch) { snprintf(why, sizeof(why), "the channel of mark type %ld is not registered as %s (found \"%s\")", ty[i], nm, ch->name); return 1; }
		if (!chan_prop_get(ch, CHAN_ALLOW_DUP)) { snprintf(why, sizeof(why), "the channel of mark type %ld refuses duplicate values", ty[i]); return 1; }
		struct track *tt = &oth.mark.track[t->index], *ct = &ocpu.mark.track[t->index];
		if (tt->type != TRACK_TYPE_TH || tt->mode != TRACK_TH_ACT) { snprintf(why, sizeof(why), "the THREAD timeline of mark type %ld tracks mode %d, specified %d (the ACTIVE thread: a mark stays visible while its thread is paused or cooling)", ty[i], tt->mode, (int) TRACK_TH_ACT); return 1; }
		if (ct->type != TRACK_TYPE_TH || ct->mode != TRACK_TH_RUN) { snprintf(why, sizeof(why), "the CPU timeline of mark type %ld tracks mode %d, specified %d (the RUNNING thread of the CPU)", ty[i], ct->mode, (int) TRACK_TH_RUN); return 1; }
		snprintf(nm, sizeof(nm), "thread7.mark%ld", ty[i]);
		if (strcmp(tt->name, nm) != 0) { snprintf(why, sizeof(why), "the thread track of mark type %ld is named \"%s\"", ty[i], tt->name); return 1; }
		snprintf(nm, sizeof(nm), "cpu3.mark%ld", ty[i]);
		if (strcmp(ct->name, nm) != 0) { snprintf(why, sizeof(why), "the cpu track of mark type %ld is named \"%s\"", ty[i], ct->name); return 1; }
	}
	return 0;
}
int main(void)
{
	setvbuf(stdout, NULL, _IONBF, 0);
	for (int nt = 1; nt <= 3; nt++) for (int order = 0; order < 3; order++) for (int sm = 0; sm < (1 << nt); sm++)
		if (wire_case(nt, order, sm)) { printf("REPRODUCED %s [%d mark types, definition order %d, stack mask %d]\n", why, nt, order, sm); return 1; }
	printf("not reproduced: create_thread_chan / init_cpu wire the mark channels as specified\n");
	return 0;
}
