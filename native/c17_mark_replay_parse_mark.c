#define REPLAY_OP 3
#include "c17_mark_replay.h"
