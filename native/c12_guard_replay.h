/* C12 native replay of the payload-size guards of the ovni model on the REAL src/emu/ovni/event.c.
 * REPLAY_OP: 0 pre_thread_execute (OHx: at least 4 bytes), 1 pre_affinity_set (OAs: exactly 4),
 * 2 pre_affinity_remote (OAr: exactly 8).
 * Witnesses: W_PSIZE (payload size of the current event), W_STATE (thread state, OHx only).
 * Everything else is set up so that nothing BUT the payload size can refuse the event: the thread
 * is active and has a CPU, every function of another module (loom/proc/thread/cpu) succeeds and
 * counts the call.  Specification: "wrong payload size => the event is refused (-1, with a
 * diagnostic) and nothing of another module is called"; OHx of a running thread is refused too.
 * The payload object has exactly W_PSIZE bytes (ASan sees reads past it). */
#include "c12_replay_common.h"
#include "ovni/event.c"     /* the real src/emu/ovni/event.c */
#ifndef W_PSIZE
#define W_PSIZE ((REPLAY_OP) == 2 ? 8 : 4)
#endif
#ifndef W_STATE
#define W_STATE TH_ST_UNKNOWN
#endif
static int n_calls;
static struct cpu cpu0, cpu1;
static struct thread th, remote;
struct cpu *loom_get_cpu(struct loom *loom, int index) { (void) loom; (void) index; n_calls++; return &cpu1; }
struct thread *loom_find_thread(struct loom *loom, int tid) { (void) loom; (void) tid; n_calls++; return &remote; }
struct thread *proc_find_thread(struct proc *proc, int tid) { (void) proc; (void) tid; n_calls++; return &remote; }
int thread_set_state(struct thread *t, enum thread_state st) { n_calls++; t->state = st; return 0; }
int thread_set_cpu(struct thread *t, struct cpu *c) { n_calls++; t->cpu = c; return 0; }
int thread_migrate_cpu(struct thread *t, struct cpu *c) { n_calls++; t->cpu = c; return 0; }
int cpu_add_thread(struct cpu *c, struct thread *t) { (void) c; (void) t; n_calls++; return 0; }
int cpu_migrate_thread(struct cpu *c, struct thread *t, struct cpu *n) { (void) c; (void) t; (void) n; n_calls++; return 0; }
int main(void)
{
	static struct emu emu; static struct emu_ev ev; static struct loom loom; static struct proc proc;
	static const char *name[] = { "pre_thread_execute", "pre_affinity_set", "pre_affinity_remote" };
	size_t psize = (size_t) (W_PSIZE);
	if (psize > (1UL << 20)) psize = (1UL << 20);      /* same side of every guard */
	uint8_t *payload = psize ? malloc(psize) : NULL;
	if (psize) memset(payload, 0, psize);
	ev.m = 'O'; ev.c = (REPLAY_OP) == 0 ? 'H' : 'A'; ev.v = (REPLAY_OP) == 0 ? 'x' : ((REPLAY_OP) == 1 ? 's' : 'r');
	ev.mcv[0] = (char) ev.m; ev.mcv[1] = (char) ev.c; ev.mcv[2] = (char) ev.v;
	ev.payload_size = psize; ev.has_payload = psize > 0; ev.payload = (const union ovni_ev_payload *) payload;
	emu.ev = &ev; emu.thread = &th; emu.loom = &loom; emu.proc = &proc;
	th.tid = 1; th.cpu = &cpu0; th.is_active = 1; th.is_running = 1; th.state = TH_ST_RUNNING;
	remote.tid = 2; remote.cpu = &cpu0; remote.state = TH_ST_RUNNING;
	int ok_size, r;
	switch (REPLAY_OP) {
	case 0:
		th.state = (enum thread_state) (W_STATE); th.cpu = NULL; th.is_active = 0; th.is_running = 0;
		ok_size = psize >= 4 && th.state != TH_ST_RUNNING;
		r = pre_thread_execute(&emu, &th);
		break;
	case 1:
		ok_size = psize == 4;
		r = pre_affinity_set(&emu);
		break;
	default:
		ok_size = psize == 8;
		r = pre_affinity_remote(&emu);
		break;
	}
	if (!ok_size && (r != -1 || n_calls != 0 || n_err == 0)) {
		printf("REPRODUCED %s: payload of %zu bytes%s must be refused before anything is called, but returned %d, "
			"%d calls into other modules, %d diagnostics\n", name[REPLAY_OP], psize,
			(REPLAY_OP) == 0 && (int) (W_STATE) == TH_ST_RUNNING ? " (thread already running)" : "", r, n_calls, n_err);
		return 1;
	}
	if (ok_size && r != 0) {
		printf("REPRODUCED %s: payload of %zu bytes is the documented size and every other module succeeds, but returned %d\n",
			name[REPLAY_OP], psize, r);
		return 1;
	}
	printf("not reproduced: %s returned %d with %d calls for a payload of %zu bytes, as specified\n", name[REPLAY_OP], r, n_calls, psize);
	return 0;
}
