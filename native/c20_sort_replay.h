/* C20 native replay of a failed sort-module obligation on the REAL src/emu/sort.c with the REAL channel layer
 * (chan.c) and bay (bay.c).
 * REPLAY_OP: 0 sort_replace  1 sort_replace dies on old == new  2 cmp_int64 (+ laws)  3 sort_cb_input  4 sort_init
 * Witnesses: sort_replace W_N W_OLD W_NEW W_A0..W_A7;  sort_cb_input W_N W_INDEX W_COPIED W_NEW W_V0..W_V5.
 * Specification (property statement): the breakdown rows are the values of the inputs in non-decreasing
 * order: after every input change sorted[] is sorted and is a permutation of values[] (exactly the changed
 * value replaced), every output row shows sorted[k], and a row whose value did not change is not written.
 * sort_replace(arr, n, old, new): arr sorted and containing old -> arr sorted, same multiset with one old
 * replaced by new; it never returns when old == new.
 * When the witness behaves as specified, every sorted array over a small value set is tried as well.
 * Linked with -Wl,--unresolved-symbols=ignore-all.  exit 0: as specified; exit 1: REPRODUCED. */
#include "c12_replay_common.h"
#include "value.c"
#include "chan.c"
#include "bay.c"
#include "sort.c"

#ifndef W_N
#define W_N 4
#endif
#ifndef W_OLD
#define W_OLD 3
#endif
#ifndef W_NEW
#define W_NEW 10
#endif
#ifndef W_A0
#define W_A0 1
#endif
#ifndef W_A1
#define W_A1 3
#endif
#ifndef W_A2
#define W_A2 5
#endif
#ifndef W_A3
#define W_A3 7
#endif
#ifndef W_A4
#define W_A4 9
#endif
#ifndef W_A5
#define W_A5 11
#endif
#ifndef W_A6
#define W_A6 13
#endif
#ifndef W_A7
#define W_A7 15
#endif
#ifndef W_INDEX
#define W_INDEX 1
#endif
#ifndef W_COPIED
#define W_COPIED 1
#endif
#ifndef W_V0
#define W_V0 100000
#endif
#ifndef W_V1
#define W_V1 3
#endif
#ifndef W_V2
#define W_V2 70000
#endif
#ifndef W_V3
#define W_V3 5
#endif
#ifndef W_V4
#define W_V4 0
#endif
#ifndef W_V5
#define W_V5 0
#endif

#define NMAX 12
static char why[400];
#define FAIL(...) do { snprintf(why, sizeof(why), __VA_ARGS__); return 1; } while (0)
static int cmp64(const void *a, const void *b) { int64_t x = *(const int64_t *) a, y = *(const int64_t *) b; return x < y ? -1 : x > y; }
static void show_arr(const char *tag, const int64_t *a, int n) { printf(" %s=[", tag); for (int i = 0; i < n; i++) printf("%s%ld", i ? "," : "", (long) a[i]); printf("]"); }

/* ---- 0: sort_replace ---- */
static int sr_case(int n, const int64_t *a, int64_t old, int64_t new)
{
	int64_t *arr = malloc(sizeof(int64_t) * (size_t) n), exp[NMAX];     /* exact-size heap object: ASan sees an overrun */
	memcpy(arr, a, sizeof(int64_t) * (size_t) n); memcpy(exp, a, sizeof(int64_t) * (size_t) n);
	for (int i = 0; i < n; i++) if (exp[i] == old) { exp[i] = new; break; }
	qsort(exp, (size_t) n, sizeof(int64_t), cmp64);
	sort_replace(arr, n, old, new);
	int bad = memcmp(arr, exp, sizeof(int64_t) * (size_t) n) != 0;
	if (bad) {
		int sorted = 1; for (int i = 0; i + 1 < n; i++) if (arr[i] > arr[i + 1]) sorted = 0;
		snprintf(why, sizeof(why), "sort_replace(old=%ld, new=%ld) left an array that is %s", (long) old, (long) new, sorted ? "sorted but NOT the input with one old replaced by new" : "NOT sorted");
		printf("REPRODUCED %s;", why); show_arr("input", a, n); show_arr("result", arr, n); show_arr("specified", exp, n); printf("\n");
	}
	free(arr);
	return bad;
}
static int op_sort_replace(void)
{
	int64_t a[NMAX] = {(W_A0), (W_A1), (W_A2), (W_A3), (W_A4), (W_A5), (W_A6), (W_A7)};
	int n = (int) (W_N); if (n < 1) n = 1; if (n > 8) n = 8;
	int wf = (W_OLD) != (W_NEW), has = 0;
	for (int i = 0; i + 1 < n; i++) if (a[i] > a[i + 1]) wf = 0;
	for (int i = 0; i < n; i++) if (a[i] == (W_OLD)) has = 1;
	if (wf && has && sr_case(n, a, (W_OLD), (W_NEW))) return 1;
	/* every sorted array of this size over {0,2,4,6} (<= 6 cells; larger: over {0,2,4}), every old in it, every new in -1..7 */
	int base = n <= 6 ? 4 : 3; long total = 1; for (int i = 0; i < n; i++) total *= base;
	for (long c = 0; c < total; c++) {
		int64_t b[NMAX]; long x = c; int ok = 1;
		for (int i = 0; i < n; i++) { b[i] = 2 * (x % base); x /= base; if (i && b[i - 1] > b[i]) ok = 0; }
		if (!ok) continue;
		for (int i = 0; i < n; i++) { if (i && b[i] == b[i - 1]) continue; for (int64_t nw = -1; nw <= 7; nw++) if (nw != b[i] && sr_case(n, b, b[i], nw)) return 1; }
	}
	printf("not reproduced: sort_replace behaves as specified on the witness and on every small sorted array of %d cells\n", n);
	return 0;
}
static int op_sort_replace_dies(void)
{
	int64_t a[2] = {4, 9}; jmp_buf jb; replay_die_jmp = &jb;
	for (int k = 0; k < 2; k++) {
		if (setjmp(jb) == 0) {
			sort_replace(a, 2, a[k], a[k]);
			printf("REPRODUCED sort_replace(old == new == %ld) returned; specified: it never returns (the caller filters unchanged values)\n", (long) a[k]);
			return 1;
		}
	}
	replay_die_jmp = NULL;
	printf("not reproduced: sort_replace dies on old == new\n");
	return 0;
}
static int op_cmp(void)
{
	static const int64_t v[] = {0, 1, -1, 5, 0x7fffffffLL, 0x80000000LL, 0x100000000LL, -0x100000000LL, 0x7fffffffffffffffLL, -0x7fffffffffffffffLL - 1, 0x4000000000000000LL};
	for (int i = 0; i < 11; i++) for (int j = 0; j < 11; j++) {
		int r = cmp_int64(&v[i], &v[j]), e = v[i] < v[j] ? -1 : v[i] > v[j];
		if (r != e) { printf("REPRODUCED cmp_int64(%ld, %ld) returned %d, specified %d\n", (long) v[i], (long) v[j], r, e); return 1; }
	}
	printf("not reproduced: cmp_int64 is the three-way comparison of int64 on the probe set\n");
	return 0;
}

/* ---- 3: sort_cb_input on a real sort module ---- */
static int cb_case(int n, const int64_t *values, int index, int copied, int64_t new, int new_is_null)
{
	static struct bay bay; static struct sort sort; static struct chan in;
	bay_init(&bay);
	if (sort_init(&sort, &bay, n, "replay") != 0) FAIL("setup: sort_init failed");
	int64_t exp_sorted[NMAX], pre_sorted[NMAX];
	memcpy(sort.values, values, sizeof(int64_t) * (size_t) n);
	memcpy(pre_sorted, values, sizeof(int64_t) * (size_t) n); qsort(pre_sorted, (size_t) n, sizeof(int64_t), cmp64);
	int shows[NMAX];          /* row k shows int64 pre_sorted[k] before the call */
	if (copied) {
		memcpy(sort.sorted, pre_sorted, sizeof(int64_t) * (size_t) n); sort.copied = 1;
		for (int k = 0; k < n; k++) { if (chan_set(&sort.outputs[k], value_int64(pre_sorted[k])) != 0 || chan_flush(&sort.outputs[k]) != 0) FAIL("setup: chan_set on an output row failed"); shows[k] = 1; }
	} else for (int k = 0; k < n; k++) shows[k] = 0;
	chan_init(&in, CHAN_SINGLE, "replay.in");
	if (!new_is_null && chan_set(&in, value_int64(new)) != 0) FAIL("setup: chan_set on the input failed");
	if (new_is_null) new = 0;
	sort.inputs[index].index = index; sort.inputs[index].chan = &in; sort.inputs[index].sort = &sort;
	int64_t old = values[index];
	memcpy(exp_sorted, values, sizeof(int64_t) * (size_t) n); exp_sorted[index] = new; qsort(exp_sorted, (size_t) n, sizeof(int64_t), cmp64);
	n_err = 0;
	int r = sort_cb_input(&in, &sort.inputs[index]);
	int bad = 0;
	if (r != 0) { snprintf(why, sizeof(why), "sort_cb_input returned %d", r); bad = 1; }
	for (int k = 0; !bad && k < n; k++) if (sort.values[k] != (k == index ? new : values[k])) { snprintf(why, sizeof(why), "values[%d] is %ld, specified %ld (exactly the changed input is recorded)", k, (long) sort.values[k], (long) (k == index ? new : values[k])); bad = 1; }
	if (!bad && new == old) {
		for (int k = 0; k < n; k++) if (sort.outputs[k].is_dirty) { snprintf(why, sizeof(why), "unchanged input value but output row %d was written", k); bad = 1; }
		if (!bad && sort.copied != copied) { snprintf(why, sizeof(why), "unchanged input value but the sorted copy was (re)built"); bad = 1; }
	} else if (!bad) {
		if (!sort.copied) { snprintf(why, sizeof(why), "after a change the sorted copy does not exist"); bad = 1; }
		for (int k = 0; !bad && k < n; k++) if (sort.sorted[k] != exp_sorted[k]) { snprintf(why, sizeof(why), "sorted[%d] is %ld, specified %ld: sorted[] is not the inputs in non-decreasing order", k, (long) sort.sorted[k], (long) exp_sorted[k]); bad = 1; }
		for (int k = 0; !bad && k < n; k++) {
			struct value v; if (chan_read(&sort.outputs[k], &v) != 0) { snprintf(why, sizeof(why), "chan_read failed"); bad = 1; break; }
			if (v.type != VALUE_INT64 || v.i != exp_sorted[k]) { snprintf(why, sizeof(why), "output row %d shows %ld (value type %d), specified %ld: the k-th smallest input", k, (long) v.i, (int) v.type, (long) exp_sorted[k]); bad = 1; }
			else if (shows[k] && pre_sorted[k] == exp_sorted[k] && sort.outputs[k].is_dirty) { snprintf(why, sizeof(why), "output row %d did not change (%ld) but was written", k, (long) exp_sorted[k]); bad = 1; }
		}
	}
	free(sort.inputs); free(sort.outputs); free(sort.values); free(sort.sorted);
	struct bay_chan *bc, *tmp; HASH_ITER(hh, bay.channels, bc, tmp) { HASH_DEL(bay.channels, bc); free(bc); }
	return bad;
}
static void cb_show(int n, const int64_t *values, int index, int copied, int64_t new, int isnull)
{
	show_arr("input values", values, n); printf(" changed input=%d new value=%s%ld sorted copy exists=%d\n", index, isnull ? "null/" : "", (long) new, copied);
}
static int op_cb_input(void)
{
	int64_t v[NMAX] = {(W_V0), (W_V1), (W_V2), (W_V3), (W_V4), (W_V5)};
	int n = (int) (W_N); if (n < 1) n = 1; if (n > 6) n = 6;
	int idx = (int) (W_INDEX); if (idx < 0) idx = 0; if (idx >= n) idx = n - 1;
	if (cb_case(n, v, idx, (W_COPIED) != 0, (W_NEW), 0)) { printf("REPRODUCED %s;", why); cb_show(n, v, idx, (W_COPIED) != 0, (W_NEW), 0); return 1; }
	static const int64_t pool[] = {0, 5, 70000, 5, 0x100000007LL, -3};
	for (int nn = 1; nn <= 4; nn++) for (int rot = 0; rot < 6; rot++) for (int i = 0; i < nn; i++) for (int cp = 0; cp < 2; cp++) for (int k = 0; k < 7; k++) {
		int64_t b[NMAX]; for (int j = 0; j < nn; j++) b[j] = pool[(rot + j * (1 + rot % 2)) % 6];
		int64_t nw = k < 6 ? pool[k] : 12345678901LL; int isnull = (k == 0 && rot % 2);
		if (cb_case(nn, b, i, cp, nw, isnull)) { printf("REPRODUCED %s (found next to the witness);", why); cb_show(nn, b, i, cp, nw, isnull); return 1; }
	}
	printf("not reproduced: sort_cb_input behaves as specified on the witness and its neighbourhood;"); cb_show(n, v, idx, (W_COPIED) != 0, (W_NEW), 0);
	return 0;
}

/* ---- 4: sort_init: n single output rows that accept repeated and duplicate writes, registered in the bay ---- */
static int op_sort_init(void)
{
	for (int n = 1; n <= 5; n++) {
		static struct bay bay; static struct sort sort; bay_init(&bay);
		if (sort_init(&sort, &bay, n, "replay") != 0) { printf("REPRODUCED sort_init(n=%d) failed\n", n); return 1; }
		if (sort.n != n || sort.copied != 0 || sort.bay != &bay) { printf("REPRODUCED sort_init(n=%d): n / copied / bay not initialised\n", n); return 1; }
		for (int k = 0; k < n; k++) {
			struct chan *o = &sort.outputs[k]; char nm[64]; snprintf(nm, sizeof(nm), "replay.out%d", k);
			if (chan_get_type(o) != CHAN_SINGLE || bay_find(&bay, nm) != o || sort.values[k] != 0 || sort.sorted[k] != 0) { printf("REPRODUCED sort_init(n=%d): output row %d is not a registered single channel %s / arrays not zeroed\n", n, k, nm); return 1; }
			/* a row must take: a write, the same value again in the same propagation, and - after a flush - the
			 * value it showed before (rows swap values back and forth) */
			if (chan_set(o, value_int64(7)) != 0 || chan_set(o, value_int64(9)) != 0 || chan_set(o, value_int64(9)) != 0) { printf("REPRODUCED sort_init(n=%d): output row %d refuses repeated writes in one propagation\n", n, k); return 1; }
			if (chan_flush(o) != 0 || chan_set(o, value_int64(9)) != 0) { printf("REPRODUCED sort_init(n=%d): output row %d refuses a duplicate value\n", n, k); return 1; }
			struct value v; if (chan_set(o, value_int64(7)) != 0 || chan_set(o, value_int64(9)) != 0 || chan_read(o, &v) != 0 || v.i != 9 || !o->is_dirty || chan_flush(o) != 0) {
				printf("REPRODUCED sort_init(n=%d): output row %d drops a write that restores the value it had before the current propagation\n", n, k); return 1; }
		}
	}
	printf("not reproduced: sort_init builds n registered single rows accepting repeated / duplicate writes\n");
	return 0;
}

int main(void)
{
	setvbuf(stdout, NULL, _IONBF, 0);
	switch (REPLAY_OP) {
	case 0: return op_sort_replace();
	case 1: return op_sort_replace_dies();
	case 2: return op_cmp();
	case 3: return op_cb_input();
	default: return op_sort_init();
	}
}
