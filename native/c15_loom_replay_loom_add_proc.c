#define REPLAY_OP 4
#include "c15_loom_replay.h"
