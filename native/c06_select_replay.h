/* C06 native replay of the mux selectors on the REAL code: thread_select_running /
 * thread_select_active (src/emu/thread.c) and default_select (src/emu/mux.c).
 * REPLAY_OP: 0 thread_select_running, 1 thread_select_active, 2 default_select.
 * Witnesses: selectors (W_VT,W_VI) key = value of the thread state channel, W_NIN inputs of the mux;
 * default_select (W_KT,W_KI) key, W_N inputs.
 * Specification (property statement): a thread track shows its input exactly while the thread's
 * state satisfies the tracking mode - "while running": RUNNING; "while running, cooling or
 * warming": RUNNING, COOLING, WARMING - and nothing otherwise (null key: nothing); a CPU mux
 * (default selector) selects the input whose index is the key; anything else is refused with a
 * diagnostic. */
#include "c12_replay_common.h"
#include "mux.c"
#include "thread.c"
#include "value.c"
#if (REPLAY_OP) == 2
#ifndef W_KT
#define W_KT VALUE_INT64
#endif
#ifndef W_KI
#define W_KI 1
#endif
#ifndef W_N
#define W_N 3
#endif
#define KT (W_KT)
#define KI (W_KI)
#define NIN_ (W_N)
#else
#ifndef W_VT
#define W_VT VALUE_INT64
#endif
#ifndef W_VI
#define W_VI TH_ST_RUNNING
#endif
#ifndef W_NIN
#define W_NIN 1
#endif
#define KT (W_VT)
#define KI (W_VI)
#define NIN_ (W_NIN)
#endif
int main(void)
{
	static struct mux mux;
	static const char *name[] = { "thread_select_running", "thread_select_active", "default_select" };
	int64_t nin = (int64_t) (NIN_), kt = (int64_t) (KT), ki = (int64_t) (KI);
	struct value key; memset(&key, 0, sizeof(key)); key.type = kt; key.i = ki;
	size_t room;
	if ((REPLAY_OP) == 2) {
		if (nin < 0 || nin > (1 << 20)) { printf("not reproduced: %ld inputs is outside the precondition\n", (long) nin); return 0; }
		room = (size_t) nin;
	} else {
		if (kt == VALUE_INT64 && (ki < 0 || ki > 0xffffffffLL)) { printf("not reproduced: key %ld is not a thread state (precondition)\n", (long) ki); return 0; }
		room = nin == 1 ? 1 : 0;     /* the selectors must not look at the inputs of any other mux */
	}
	struct mux_input *inputs = calloc(room ? room : 1, sizeof(struct mux_input));   /* exactly the inputs: ASan sees the rest */
	if (room == 0) { free(inputs); inputs = malloc(1); }
	for (size_t i = 0; i < room; i++) inputs[i].index = (int64_t) i;
	mux.ninputs = nin; mux.inputs = inputs; mux.selected = -1;
	struct mux_input *sentinel = (struct mux_input *) &mux, *got = sentinel, *want = NULL;
	int legal, r;
	switch (REPLAY_OP) {
	case 0:
		legal = kt == VALUE_NULL || (kt == VALUE_INT64 && nin == 1);
		if (kt == VALUE_INT64 && ki == TH_ST_RUNNING) want = &inputs[0];
		r = thread_select_running(&mux, key, &got);
		break;
	case 1:
		legal = kt == VALUE_NULL || (kt == VALUE_INT64 && nin == 1);
		if (kt == VALUE_INT64 && (ki == TH_ST_RUNNING || ki == TH_ST_COOLING || ki == TH_ST_WARMING)) want = &inputs[0];
		r = thread_select_active(&mux, key, &got);
		break;
	default:
		legal = kt == VALUE_NULL || (kt == VALUE_INT64 && ki >= 0 && ki < nin);
		if (kt == VALUE_INT64 && legal) want = &inputs[ki];
		r = default_select(&mux, key, &got);
		break;
	}
	const char *why = NULL;
	if (r != 0 && r != -1) why = "return value is neither 0 nor -1";
	else if ((r == 0) != legal) why = legal ? "a legal key was refused" : "an illegal key was accepted";
	else if (r != 0 && n_err == 0) why = "refused without a diagnostic";
	else if (r == 0 && got != want) why = want ? (got == NULL || got == sentinel ? "the value is hidden although the state satisfies the mode (no input selected)" : "the wrong input is selected")
		: "an input is selected although the state does not satisfy the mode (or the key is null)";
	if (why) {
		printf("REPRODUCED %s: %s (key=(%ld,%ld) ninputs=%ld: returned %d, selected %s)\n", name[REPLAY_OP], why, (long) kt, (long) ki, (long) nin, r,
			got == sentinel ? "untouched" : got == NULL ? "nothing" : "an input");
		return 1;
	}
	printf("not reproduced: %s returned %d and selected %s, as specified (key=(%ld,%ld) ninputs=%ld)\n", name[REPLAY_OP], r,
		got == sentinel ? "untouched" : got == NULL ? "nothing" : "the specified input", (long) kt, (long) ki, (long) nin);
	return 0;
}
