#define REPLAY_OP 2
#include "c07_body_replay.h"
