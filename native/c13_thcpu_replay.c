/* C13 native replay for the thread.c / cpu.c groups (thread_connect, thread_create_pcf_types,
 * thread_get_affinity_pcf_type, cpu_connect, cpu_create_pcf_types, cpu_add_to_pcf_type): the end-to-end
 * program of c13_system_replay.c, connecting the system by hand (the units' own entry points) first. */
#define REPLAY_HAND_FIRST 1
#include "c13_system_replay.c"
