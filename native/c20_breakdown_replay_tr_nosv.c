#define REPLAY_OP 0
#include "c20_breakdown_replay.h"
