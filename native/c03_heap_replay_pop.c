#define REPLAY_OP 1
#include "c03_heap_replay.h"
