#define REPLAY_OP 0
#include "c15_proc_replay.h"
