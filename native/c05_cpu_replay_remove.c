#define REPLAY_OP 2
#include "c05_cpu_replay.h"
