#define REPLAY_OP 1
#include "c07_body_replay.h"
