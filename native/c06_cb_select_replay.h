/* C06 native replay of cb_select on the REAL src/emu/mux.c with the REAL bay.c and chan.c (and,
 * with THREAD_MODE 1 / 2, the real thread_select_running / thread_select_active of thread.c).
 * Witnesses (assigned by bind_pre in harness/c06_mux.c): W_NIN inputs (0..3), W_OLDSEL previously
 * selected input (-1 none), W_EN0..2 callback of input i enabled, (W_KT,W_KI) value of the select
 * channel, W_OUTDIRTY output already dirty, (W_DEFT,W_DEFI) default value of the mux,
 * W_SHAPE0..2 callbacks of other muxes on the input channel (bit 0: one before, bit 1: one after
 * the input's own), W_INTYPE0 type of input channel 0, W_IT0 type of the value it shows.
 * The mux is built with the real bay_init / bay_register / mux_init / mux_set_input / bay_add_cb /
 * bay_enable_cb, input i shows the int64 value 100+i, then the real cb_select runs.
 * Specification (property statement): the output shows the value of the input the select key
 * designates - the key's index (CPU tracks), input 0 exactly while the thread state satisfies the
 * mode (thread tracks) - and the default (nothing) otherwise; exactly the selected input keeps its
 * callback enabled (no stale input), callbacks of other muxes stay in place; a key that designates
 * nothing legal is refused with a diagnostic and leaves nothing selected, output untouched.
 * The witness input is tried first.  CBMC 6.11 crashes while building the trace of the thread-mode
 * groups (pointer_logic.cpp invariant), so a witness may be missing altogether, and the harness lets
 * the output channel's dirty callback fail, which the real bay never does: when the witness input
 * behaves as specified the driver searches the small finite witness domain natively (previous
 * selection x enabled x key x list shape x output dirty x default) for an input on which the real
 * code disagrees with the specification.  A REPRODUCED line always names a concrete input. */
#include "c12_replay_common.h"
#include "chan.c"
#include "bay.c"
#include "mux.c"
#include "value.c"
#ifdef THREAD_MODE
#include "thread.c"
#endif
#define NIN 3
#ifndef W_NIN
#ifdef THREAD_MODE
#define W_NIN 1     /* thread tracks: one-input mux */
#else
#define W_NIN 2
#endif
#endif
#ifndef W_OLDSEL
#define W_OLDSEL 0
#endif
#ifndef W_EN0
#define W_EN0 1
#endif
#ifndef W_EN1
#define W_EN1 0
#endif
#ifndef W_EN2
#define W_EN2 0
#endif
#ifndef W_KT
#define W_KT VALUE_INT64
#endif
#ifndef W_KI
#ifdef THREAD_MODE
#define W_KI TH_ST_PAUSED
#else
#define W_KI 1
#endif
#endif
#ifndef W_OUTDIRTY
#define W_OUTDIRTY 0
#endif
#ifndef W_DEFT
#define W_DEFT VALUE_NULL
#endif
#ifndef W_DEFI
#define W_DEFI 0
#endif
#ifndef W_SHAPE0
#define W_SHAPE0 3
#endif
#ifndef W_SHAPE1
#define W_SHAPE1 1
#endif
#ifndef W_SHAPE2
#define W_SHAPE2 0
#endif
#ifndef W_INTYPE0
#define W_INTYPE0 CHAN_SINGLE
#endif
#ifndef W_IT0
#define W_IT0 VALUE_INT64
#endif
static struct value mkval(int64_t t, int64_t i) { struct value v; memset(&v, 0, sizeof(v)); v.type = t; v.i = i; return v; }
static int veq(struct value a, struct value b) { return a.type == b.type && a.i == b.i; }
static int other_cb(struct chan *c, void *p) { (void) c; (void) p; return 0; }
/* position of cb on the DIRTY callback list of its channel, -1 if it is not there */
static int list_pos(struct bay_chan *bc, struct bay_cb *cb)
{
	int k = 0;
	for (struct bay_cb *p = bc->cb[BAY_CB_DIRTY]; p != NULL; p = p->next, k++) {
		if (p == cb) return k;
		if (k > 16) return -2;   /* corrupted list */
	}
	return -1;
}
struct wcase { int nin, oldsel, en[NIN], shape[NIN], outdirty, intype0; int64_t kt, ki, deft, defi, it0; };
static char why[512];
/* 0: behaves as specified, 1: disagrees (why[] says how), -1: outside the precondition / setup refused / died */
static int run_case(const struct wcase *w)
{
	static struct bay bay; static struct mux mux; static struct chan sel, out, in[NIN];
	static jmp_buf jb;
	struct bay_cb *x[NIN] = {0}, *y[NIN] = {0};
	const int nin = w->nin, oldsel = w->oldsel;
	const int64_t kt = w->kt, ki = w->ki;
	if (nin < 0 || nin > NIN || oldsel < -1 || oldsel >= nin) return -1;
	for (int i = 0; i < nin; i++)
		if ((w->en[i] && oldsel != i) || w->shape[i] < 0 || w->shape[i] > 3) return -1;
#ifdef THREAD_MODE
	if (kt == VALUE_INT64 && (ki < 0 || ki > 0xffffffffLL)) return -1;   /* key is a thread state */
	mux_select_func_t fsel = (THREAD_MODE) == 1 ? thread_select_running : thread_select_active;
#else
	mux_select_func_t fsel = NULL;
#endif
	memset(&bay, 0, sizeof(bay)); memset(&mux, 0, sizeof(mux));
	replay_die_jmp = &jb;
	if (setjmp(jb)) { replay_die_jmp = NULL; return -1; }
	bay_init(&bay);
	chan_init(&sel, CHAN_SINGLE, "replay.%s", "select");
	chan_init(&out, CHAN_SINGLE, "replay.%s", "output");
	int ok = bay_register(&bay, &sel) == 0 && bay_register(&bay, &out) == 0;
	for (int i = 0; i < nin; i++) {
		chan_init(&in[i], (i == 0 && w->intype0 == CHAN_STACK) ? CHAN_STACK : CHAN_SINGLE, "replay.input%d", i);
		ok = ok && bay_register(&bay, &in[i]) == 0;
	}
	ok = ok && mux_init(&mux, &bay, &sel, &out, fsel, nin) == 0;
	if (ok) mux_set_default(&mux, mkval(w->deft, w->defi));
	struct value shown[NIN];
	for (int i = 0; ok && i < nin; i++) {
		/* callbacks of other muxes around the input's own one: [x, own (when enabled), y] */
		if (w->shape[i] & 1) ok = ok && (x[i] = bay_add_cb(&bay, BAY_CB_DIRTY, &in[i], other_cb, NULL, 1)) != NULL;
		ok = ok && mux_set_input(&mux, i, &in[i]) == 0;
		if (ok && w->en[i]) { bay_enable_cb(mux.inputs[i].cb); mux.inputs[i].selected = 1; }
		if (w->shape[i] & 2) ok = ok && (y[i] = bay_add_cb(&bay, BAY_CB_DIRTY, &in[i], other_cb, NULL, 1)) != NULL;
		shown[i] = value_int64(100 + i);
		if (i == 0 && w->it0 != VALUE_INT64) shown[i] = mkval(w->it0, w->it0 == VALUE_NULL ? 0 : 100);
		if (in[i].type == CHAN_STACK) {
			if (shown[i].type == VALUE_NULL && shown[i].i == 0) in[i].data.stack.n = 0;
			else { in[i].data.stack.values[0] = value_int64(55); in[i].data.stack.values[1] = shown[i]; in[i].data.stack.n = 2; }
		} else in[i].data.value = shown[i];
	}
	if (!ok) { replay_die_jmp = NULL; return -1; }
	mux.selected = oldsel;
	sel.data.value = mkval(kt, ki);
	out.data.value = value_int64(-5); out.is_dirty = w->outdirty != 0;
	struct value out0 = out.data.value; int outdirty0 = out.is_dirty;

	int key_none = kt == VALUE_NULL, newsel, key_bad;
#ifdef THREAD_MODE
	int in_mode = (THREAD_MODE) == 1 ? ki == TH_ST_RUNNING : (ki == TH_ST_RUNNING || ki == TH_ST_COOLING || ki == TH_ST_WARMING);
	key_bad = !key_none && !(kt == VALUE_INT64 && nin == 1);
	newsel = (kt == VALUE_INT64 && in_mode) ? 0 : -1;
#else
	int key_index = kt == VALUE_INT64 && ki >= 0 && ki < nin;
	key_bad = !key_none && !key_index;
	newsel = key_index ? (int) ki : -1;
#endif
	n_err = 0;
	int r = cb_select(&sel, &mux);
	replay_die_jmp = NULL;

#define FAIL(...) do { int k_ = snprintf(why, sizeof(why), __VA_ARGS__); \
	snprintf(why + k_, sizeof(why) - (size_t) k_, " (ninputs=%d selected before=%d key=(%ld,%ld) enabled=%d%d%d shapes=%d%d%d outdirty=%d default=(%ld,%ld): returned %d, selected now %ld)", \
		nin, oldsel, (long) kt, (long) ki, w->en[0], w->en[1], w->en[2], w->shape[0], w->shape[1], w->shape[2], outdirty0, (long) w->deft, (long) w->defi, r, (long) mux.selected); \
	return 1; } while (0)
	if (r != 0 && r != -1) FAIL("return value is neither 0 nor -1");
	if ((r != 0) != key_bad) FAIL(key_bad ? "a key that designates no legal input was accepted" : "a legal key was refused");
	if (r != 0 && n_err == 0) FAIL("refused without a diagnostic");
	if (key_bad) newsel = -1;
	if (mux.selected != newsel) FAIL("the selection does not follow the select channel (specified %d)", newsel);
	for (int i = 0; i < nin; i++) {
		struct bay_cb *own = mux.inputs[i].cb;
		int want = newsel == i, pos = list_pos(own->bchan, own);
		if ((own->enabled != 0) != want) FAIL("input %d: callback %s (stale or missing input)", i, own->enabled ? "left enabled although not selected" : "not enabled although selected");
		if ((mux.inputs[i].selected != 0) != want) FAIL("input %d: selected flag is %d", i, mux.inputs[i].selected);
		if ((pos >= 0) != want) FAIL("input %d: callback is %s its channel's callback list", i, pos >= 0 ? "still on" : "not on");
		int px = x[i] ? list_pos(own->bchan, x[i]) : -1, py = y[i] ? list_pos(own->bchan, y[i]) : -1;
		if ((x[i] && px < 0) || (y[i] && py < 0) || (x[i] && y[i] && px > py) || (x[i] && !x[i]->enabled) || (y[i] && !y[i]->enabled))
			FAIL("input %d: a callback of another mux was dropped or reordered", i);
		if (want && own->next != NULL) FAIL("input %d: the selected input's callback is not the last of its channel", i);
		if (in[i].is_dirty || (in[i].type == CHAN_SINGLE && !veq(in[i].data.value, shown[i]))) FAIL("input channel %d was modified", i);
	}
	if (!key_bad) {
		struct value want = newsel >= 0 ? shown[newsel] : mkval(w->deft, w->defi);
		if (!veq(out.data.value, want)) FAIL("the output shows (%ld,%ld), specified (%ld,%ld) = %s", (long) out.data.value.type, (long) out.data.value.i,
			(long) want.type, (long) want.i, newsel >= 0 ? "value of the selected input" : "the default (nothing selected)");
		if (!out.is_dirty) FAIL("the output was written but is not dirty");
	} else if (!veq(out.data.value, out0) || out.is_dirty != outdirty0) FAIL("a refused key modified the output");
	snprintf(why, sizeof(why), "cb_select returned %d, selected %ld, output (%ld,%ld)", r, (long) mux.selected, (long) out.data.value.type, (long) out.data.value.i);
	return 0;
}
int main(void)
{
	struct wcase w = { .nin = (int) (W_NIN), .oldsel = (int) (W_OLDSEL), .en = { (W_EN0) != 0, (W_EN1) != 0, (W_EN2) != 0 },
		.shape = { (int) (W_SHAPE0), (int) (W_SHAPE1), (int) (W_SHAPE2) }, .outdirty = (W_OUTDIRTY) != 0, .intype0 = (int) (W_INTYPE0),
		.kt = (int64_t) (W_KT), .ki = (int64_t) (W_KI), .deft = (int64_t) (W_DEFT), .defi = (int64_t) (W_DEFI), .it0 = (int64_t) (W_IT0) };
	int c = run_case(&w);
	if (c == 1) { printf("REPRODUCED cb_select: %s\n", why); return 1; }
	printf("witness input: %s\n", c == 0 ? why : "outside the precondition (or no witness available)");
	/* native search of the finite witness domain */
#ifdef THREAD_MODE
	const int nlo = 1, nhi = 2;
	static const int64_t keys[][2] = { { VALUE_NULL, 0 }, { VALUE_INT64, TH_ST_UNKNOWN }, { VALUE_INT64, TH_ST_RUNNING }, { VALUE_INT64, TH_ST_PAUSED },
		{ VALUE_INT64, TH_ST_DEAD }, { VALUE_INT64, TH_ST_COOLING }, { VALUE_INT64, TH_ST_WARMING }, { VALUE_INT64, 77 }, { VALUE_DOUBLE, 1 } };
#else
	const int nlo = 0, nhi = NIN;
	static const int64_t keys[][2] = { { VALUE_NULL, 0 }, { VALUE_INT64, -1 }, { VALUE_INT64, 0 }, { VALUE_INT64, 1 }, { VALUE_INT64, 2 },
		{ VALUE_INT64, 3 }, { VALUE_DOUBLE, 1 } };
#endif
	long tried = 0;
	for (int nin = nlo; nin <= nhi; nin++) for (int oldsel = -1; oldsel < nin; oldsel++) for (int en = 0; en < 2; en++)
	for (size_t k = 0; k < sizeof(keys) / sizeof(keys[0]); k++) for (int sh = 0; sh < 4; sh++) for (int od = 0; od < 2; od++) for (int df = 0; df < 2; df++) {
		if (en && oldsel < 0) continue;
		struct wcase s = { .nin = nin, .oldsel = oldsel, .outdirty = od, .intype0 = w.intype0 == CHAN_STACK ? CHAN_STACK : CHAN_SINGLE,
			.kt = keys[k][0], .ki = keys[k][1], .deft = df ? VALUE_INT64 : VALUE_NULL, .defi = df ? 9 : 0, .it0 = VALUE_INT64 };
		if (en) s.en[oldsel] = 1;
		for (int i = 0; i < NIN; i++) s.shape[i] = (sh + i) & 3;
		tried++;
		if (run_case(&s) == 1) { printf("REPRODUCED cb_select: %s [found by native search of the witness domain, input %ld]\n", why, tried); return 1; }
	}
	printf("not reproduced: cb_select behaves as specified on the witness input and on %ld inputs of the witness domain\n", tried);
	return 0;
}
