/* G4 (C13) native group: the real src/emu/recorder.c on the REAL uthash macros, for concrete
 * trace names (CBMC cannot carry uthash: the assumed map contract of recorder_find_pvt and the
 * insertion-order walk that groups g4_recorder_add_pvt / _advance / _finish trust are exercised
 * here).  A finite test, not a proof: 3 emulator names + 300 generated names (forces bucket
 * expansion).  Protocol: OBL <name> PASS|FAIL <detail> ... DONE <count>. */
#include <stdio.h>
#include <stdlib.h>
#include <string.h>
#include <stdarg.h>
#include <stdint.h>
#include "common.h"
#include "pv/pvt.h"

static int n_err;
void verr(const char *prefix, const char *func, const char *errstr, ...) { (void) prefix; (void) func; (void) errstr; n_err++; }
void vdie(const char *prefix, const char *func, const char *errstr, ...) { (void) prefix; (void) func; (void) errstr; printf("OBL no_die FAIL die() reached\nDONE 1\n"); exit(1); }

/* pv/pvt.c, pv/cfg.c: recording stand-ins */
static long open_nrows; static const char *open_dir; static int open_fail;
int pvt_open(struct pvt *pvt, long nrows, const char *dir, const char *name)
{
	open_nrows = nrows; open_dir = dir;
	if (open_fail) return -1;
	snprintf(pvt->name, PATH_MAX, "%s", name);     /* as the real one: the hash key */
	return 0;
}
#define NMAX 400
static struct pvt *adv_log[NMAX]; static int adv_n; static int64_t adv_time[NMAX]; static int adv_fail_at = -1;
int pvt_advance(struct pvt *pvt, int64_t time)
{
	if (adv_n < NMAX) { adv_log[adv_n] = pvt; adv_time[adv_n] = time; }
	return adv_n++ == adv_fail_at ? -1 : 0;
}
static struct pvt *cl_log[NMAX]; static int cl_n; static int cl_fail_at = -1;
int pvt_close(struct pvt *pvt) { if (cl_n < NMAX) cl_log[cl_n] = pvt; return cl_n++ == cl_fail_at ? -1 : 0; }
static int cfg_n; static const char *cfg_dir; static int cfg_after; static int cfg_fail;
int cfg_generate(const char *tracedir) { cfg_n++; cfg_dir = tracedir; cfg_after = cl_n; return cfg_fail ? -1 : 0; }

#include "recorder.c"                     /* the real file */

static int nobl;
static void obl(const char *name, int ok, const char *detail) { printf("OBL %s %s %s\n", name, ok ? "PASS" : "FAIL", detail); nobl++; }

int main(void)
{
	static struct recorder rec;
	static struct pvt *added[NMAX]; static char names[NMAX][32];
	int n = 0, ok;

	obl("init", recorder_init(&rec, "/tmp/trace") == 0 && strcmp(rec.dir, "/tmp/trace") == 0 && rec.pvt == NULL, "directory stored, empty table");
	obl("find_empty", recorder_find_pvt(&rec, "cpu") == NULL, "nothing in an empty table");

	strcpy(names[n++], "cpu"); strcpy(names[n++], "thread"); strcpy(names[n++], "nosv-breakdown");
	for (int i = 0; i < 300; i++) sprintf(names[n++], "t%d", i * 7);
	ok = 1;
	for (int i = 0; i < n; i++) {
		added[i] = recorder_add_pvt(&rec, names[i], 10 + i);
		if (added[i] == NULL || open_nrows != 10 + i || open_dir != rec.dir) ok = 0;
		/* everything added so far is found under its own name, nothing else */
		for (int j = 0; j <= i && ok; j += (i < 8 ? 1 : 37)) if (recorder_find_pvt(&rec, names[j]) != added[j]) ok = 0;
		if (i + 1 < n && recorder_find_pvt(&rec, names[i + 1]) != NULL) ok = 0;
	}
	obl("add_find", ok, "303 names: each added with its row count and found under its own name only");
	ok = 1;
	for (int j = 0; j < n; j++) if (recorder_find_pvt(&rec, names[j]) != added[j]) ok = 0;
	obl("find_all", ok, "every name maps to its own trace after bucket expansion");
	obl("find_other", recorder_find_pvt(&rec, "threa") == NULL && recorder_find_pvt(&rec, "threads") == NULL && recorder_find_pvt(&rec, "") == NULL, "near-miss names not found");

	int e0 = n_err; ok = 1;
	for (int j = 0; j < n; j += 50) if (recorder_add_pvt(&rec, names[j], 1) != NULL) ok = 0;
	obl("duplicate", ok && n_err > e0 && recorder_find_pvt(&rec, "cpu") == added[0], "duplicate names refused with a diagnostic, first trace kept");
	open_fail = 1;
	struct pvt *f = recorder_add_pvt(&rec, "failing", 1);
	open_fail = 0;
	obl("open_failure", f == NULL && recorder_find_pvt(&rec, "failing") == NULL, "a trace that could not be opened is not in the table");

	/* walk order = insertion order; every trace gets the time */
	adv_n = 0;
	int r = recorder_advance(&rec, 123456789012345LL);
	ok = (r == 0 && adv_n == n);
	for (int j = 0; j < n && ok; j++) if (adv_log[j] != added[j] || adv_time[j] != 123456789012345LL) ok = 0;
	obl("advance_all", ok, "every trace advanced once, in insertion order, to the given time");
	adv_n = 0; adv_fail_at = n - 1;
	r = recorder_advance(&rec, 5);
	obl("advance_last_fails", r == -1 && adv_n == n, "failure of the last trace is reported");
	adv_fail_at = -1;

	cl_n = 0; cfg_n = 0; cl_fail_at = 1;
	r = recorder_finish(&rec);
	obl("finish_close_fails", r == -1 && cfg_n == 0, "a trace that cannot be closed makes recorder_finish fail");
	cl_n = 0; cfg_n = 0; cl_fail_at = -1; cfg_fail = 1;
	r = recorder_finish(&rec);
	obl("finish_cfg_fails", r == -1 && cfg_n == 1, "cfg_generate failure is reported");
	cl_n = 0; cfg_n = 0; cfg_fail = 0;
	r = recorder_finish(&rec);
	ok = (r == 0 && cl_n == n && cfg_n == 1 && cfg_dir == rec.dir && cfg_after == n);
	for (int j = 0; j < n && ok; j++) if (cl_log[j] != added[j]) ok = 0;
	obl("finish_all", ok, "every trace closed once, then the configuration files copied to the trace directory");

	printf("DONE %d\n", nobl);
	return 0;
}
