/* Native replay of a failed C05 obligation of the cpu.c groups (cpu_update[_r][_n4], cpu_add_thread,
 * cpu_remove_thread, cpu_migrate_thread[_r]) on the REAL src/emu/cpu.c.
 * REPLAY_OP: 0 cpu_update, 1 cpu_add_thread, 2 cpu_remove_thread, 3 cpu_migrate_thread.
 * Witness ghosts (harness/c05_cpu.c): W_N (threads bound to the CPU, <= 4), W_VIRTUAL, W_ST0..W_ST3
 * (their states; cpu_update groups), W_SEL (position of the thread argument in the list, W_N: not in
 * it), W_M / W_VIRTUAL2 (target CPU of a migration).
 * chan_set (chan.c) is a stand-in that stores the value, logs (channel, value) and succeeds.
 * The CPU's list is linked with the real DL_APPEND2 exactly as cpu_add_thread does; the real function
 * runs; the result is compared with a native recount (statement: the counters are the number of
 * running / active threads bound to the CPU; more than one running thread on a physical CPU is
 * rejected; th_running/th_active name the unique such thread; a thread is bound to exactly one
 * CPU's list, add/remove/migrate move exactly that thread and refresh the CPUs concerned).
 * What the witnesses of the membership groups leave open (state of the thread argument) is enumerated.
 * exit 0: behaves as specified (not reproduced); exit 1: mismatch (reproduced). */
#include "c04c05_replay_stubs.h"
#include "chan.h"

/* ---- chan_set stand-in with a log ---- */
#define R_LOGN 64
static int r_cs_n;
static struct chan *r_cs_chan[R_LOGN];
static struct value r_cs_val[R_LOGN];
int chan_set(struct chan *chan, struct value value)
{
	if (r_cs_n < R_LOGN) { r_cs_chan[r_cs_n] = chan; r_cs_val[r_cs_n] = value; }
	r_cs_n++;
	chan->data.value = value;
	chan->is_dirty = 1;
	return 0;
}

#include "cpu.c"
#include "proc.h"

char value_buffers[VALUE_NBUF][VALUE_BUFSIZE];
size_t value_nextbuf;
NSTUB(bay_register) NSTUB(chan_init) NSTUB(chan_prop_set) NSTUB(loom_get_gindex) NSTUB(pcf_add_type)
NSTUB(pcf_add_value) NSTUB(prv_register) NSTUB(pvt_get_prv) NSTUB(recorder_find_pvt)

#ifndef W_N
#define W_N 2
#endif
#ifndef W_M
#define W_M 1
#endif
#ifndef W_SEL
#define W_SEL 0
#endif
#ifndef W_VIRTUAL
#define W_VIRTUAL 0
#endif
#ifndef W_VIRTUAL2
#define W_VIRTUAL2 0
#endif
#ifndef W_ST0
#define W_ST0 TH_ST_RUNNING
#endif
#ifndef W_ST1
#define W_ST1 TH_ST_COOLING
#endif
#ifndef W_ST2
#define W_ST2 TH_ST_PAUSED
#endif
#ifndef W_ST3
#define W_ST3 TH_ST_PAUSED
#endif

static int r_serial;
static struct thread *mk_thread(int state)
{
	struct thread *t = calloc(1, sizeof(*t));
	t->proc = calloc(1, sizeof(struct proc));
	r_serial++;
	t->tid = 100 + r_serial; t->gindex = 10 + r_serial; t->proc->pid = 1000 + r_serial;
	snprintf(t->id, sizeof(t->id), "thread.%d", t->tid);
	t->state = (enum thread_state) state;
	return t;
}
static struct cpu *mk_cpu(const char *name, int is_virtual, struct thread **t, int n, const int *st)
{
	struct cpu *cpu = calloc(1, sizeof(*cpu));
	strcpy(cpu->name, name);
	cpu->is_virtual = is_virtual; cpu->gindex = is_virtual ? 3 : 4;
	for (int i = 0; i < n; i++) {
		t[i] = mk_thread(st[i]);
		DL_APPEND2(cpu->threads, t[i], cpu_prev, cpu_next);
	}
	cpu->nthreads = (size_t) n;
	return cpu;
}
#define IS_RUN(s) ((s) == TH_ST_RUNNING)
#define IS_ACT(s) ((s) == TH_ST_RUNNING || (s) == TH_ST_COOLING || (s) == TH_ST_WARMING)

/* the list of cpu is exactly e[0..len) (utlist DL: head->prev is the tail, tail->next NULL) */
static void check_list(const char *what, struct cpu *cpu, struct thread **e, int len)
{
	int k = 0;
	struct thread *prev = NULL;
	for (struct thread *p = cpu->threads; p != NULL && k <= len + 1; prev = p, p = p->cpu_next, k++) {
		if (k < len && p != e[k]) { R_FAIL("%s: position %d of the list of %s is not the specified thread", what, k, cpu->name); return; }
		if (k > 0 && p->cpu_prev != prev) { R_FAIL("%s: broken back link at position %d of %s", what, k, cpu->name); return; }
	}
	if (k != len) { R_FAIL("%s: the list of %s holds %d threads, specified %d", what, cpu->name, k, len); return; }
	if (len > 0 && cpu->threads->cpu_prev != e[len - 1]) R_FAIL("%s: head->prev of %s is not the tail", what, cpu->name);
	if (cpu->nthreads != (size_t) len) R_FAIL("%s: nthreads of %s is %zu, specified %d", what, cpu->name, cpu->nthreads, len);
}

/* recount of the list e[0..len) and comparison with what a successful/refused cpu_update left in
 * cpu; the channel log entries [b, b+5) must be one write per channel with the demanded values */
static int spec_update(const char *what, struct cpu *cpu, struct thread **e, int len, int b, int ret, struct thread *old_th_running)
{
	int nrun = 0, nact = 0;
	struct thread *urun = NULL, *uact = NULL;
	for (int i = 0; i < len; i++) {
		if (IS_RUN(e[i]->state)) { nrun++; urun = e[i]; }
		if (IS_ACT(e[i]->state)) { nact++; uact = e[i]; }
	}
	if (nrun != 1) urun = NULL;
	if (nact != 1) uact = NULL;
	int oversub = nrun > 1 && !cpu->is_virtual;
	if (cpu->nth_running != (size_t) nrun) R_FAIL("%s: nth_running of %s is %zu, %d running threads are bound to it", what, cpu->name, cpu->nth_running, nrun);
	if (cpu->nth_active != (size_t) nact) R_FAIL("%s: nth_active of %s is %zu, %d active threads are bound to it", what, cpu->name, cpu->nth_active, nact);
	if (oversub) {
		if (ret == 0) R_FAIL("%s: physical CPU %s with %d running threads accepted", what, cpu->name, nrun);
		if (r_cs_n != b) R_FAIL("%s: oversubscribed physical CPU %s wrote %d channels", what, cpu->name, r_cs_n - b);
		if (cpu->th_running != old_th_running) R_FAIL("%s: th_running of the refused CPU %s changed", what, cpu->name);
		return -1;
	}
	if (ret != 0) R_FAIL("%s: refused although %s is not an oversubscribed physical CPU and every channel write succeeded", what, cpu->name);
	if (cpu->th_running != urun) R_FAIL("%s: th_running of %s is not the unique running thread (or NULL)", what, cpu->name);
	if (cpu->th_active != uact) R_FAIL("%s: th_active of %s is not the unique active thread (or NULL)", what, cpu->name);
	if (r_cs_n < b + 5) { R_FAIL("%s: %d channel writes for %s, specified 5", what, r_cs_n > b ? r_cs_n - b : 0, cpu->name); return 0; }
	struct value want[CPU_CHAN_MAX];
	want[CPU_CHAN_NRUN] = value_int64(nrun);
	want[CPU_CHAN_TID] = urun ? value_int64(urun->tid) : value_null();
	want[CPU_CHAN_PID] = urun ? value_int64(urun->proc->pid) : value_null();
	want[CPU_CHAN_THRUN] = urun ? value_int64(urun->gindex) : value_null();
	want[CPU_CHAN_THACT] = uact ? value_int64(uact->gindex) : value_null();
	int seen[CPU_CHAN_MAX] = {0};
	for (int k = b; k < b + 5; k++) {
		long ci = r_cs_chan[k] - cpu->chan;
		if (r_cs_chan[k] < cpu->chan || ci >= CPU_CHAN_MAX) { R_FAIL("%s: write %d is not to a channel of %s", what, k - b, cpu->name); continue; }
		if (seen[ci]++) R_FAIL("%s: channel %ld of %s written twice", what, ci, cpu->name);
		if (r_cs_val[k].type != want[ci].type || r_cs_val[k].i != want[ci].i)
			R_FAIL("%s: channel %ld of %s received (type %d, %ld), specified (type %d, %ld)", what, ci, cpu->name,
				(int) r_cs_val[k].type, (long) r_cs_val[k].i, (int) want[ci].type, (long) want[ci].i);
	}
	return 0;
}

/* one run; `variant` enumerates what the witnesses leave open in the membership groups: the state
 * of the thread argument (0 RUNNING, 1 PAUSED, 2 COOLING); the other threads are PAUSED and the
 * counters / unique-thread pointers of the CPUs agree with their lists before the call */
static void run(int variant)
{
	r_cs_n = 0; r_nerr = 0;
	int n = (W_N), m = (REPLAY_OP == 3) ? (W_M) : 0, sel = (W_SEL);   /* unbound witnesses are arbitrary */
	if (n < 0 || n > 4 || m < 0 || m > 4) { printf("not reproduced: witness list length outside the driver's range\n"); return; }
	struct thread *t[6] = {0}, *u[6] = {0}, *e[6] = {0}, *f[6] = {0};
	int r, want;
	const char *what;
	if (REPLAY_OP == 0) {
		what = "cpu_update";
		int st[4] = { (W_ST0), (W_ST1), (W_ST2), (W_ST3) };
		struct cpu *cpu = mk_cpu("cpu.replay", (W_VIRTUAL) != 0, t, n, st);
		cpu->is_virtual = (W_VIRTUAL);
		struct thread *sentinel = mk_thread(TH_ST_PAUSED);
		cpu->th_running = sentinel;
		r = cpu_update(cpu);
		if (r != 0 && r != -1) R_FAIL("%s returned %d", what, r);
		want = spec_update(what, cpu, t, n, 0, r, sentinel);
		check_list(what, cpu, t, n);
		if (r_cs_n > 5) R_FAIL("%s: %d channel writes, at most 5 specified", what, r_cs_n);
	} else {
		if (sel < 0 || sel > n) { printf("not reproduced: witness position outside the list\n"); return; }
		int thst = variant == 0 ? TH_ST_RUNNING : variant == 1 ? TH_ST_PAUSED : TH_ST_COOLING;
		int paused[4] = { TH_ST_PAUSED, TH_ST_PAUSED, TH_ST_PAUSED, TH_ST_PAUSED };
		int st[4] = { TH_ST_PAUSED, TH_ST_PAUSED, TH_ST_PAUSED, TH_ST_PAUSED };
		if (sel < n) st[sel] = thst;
		struct cpu *cpu = mk_cpu("cpu.replay", (W_VIRTUAL) != 0, t, n, st);
		cpu->is_virtual = (W_VIRTUAL);
		struct cpu *cpu2 = mk_cpu("cpu2.replay", (W_VIRTUAL2) != 0, u, m, paused);
		cpu2->is_virtual = (W_VIRTUAL2);
		struct thread *th;
		if (sel < n) {
			th = t[sel];
			if (IS_RUN(thst)) { cpu->nth_running = 1; cpu->th_running = th; }
			if (IS_ACT(thst)) { cpu->nth_active = 1; cpu->th_active = th; }
		} else {
			/* in no list: stale links to a valid thread (utlist does not clear them) */
			struct thread *other = mk_thread(TH_ST_PAUSED);
			th = mk_thread(thst);
			th->cpu_prev = other; th->cpu_next = other;
		}
		struct thread *sp = th->cpu_prev, *sn = th->cpu_next;
		int in = sel < n, k = 0;
		switch (REPLAY_OP) {
		case 1:
			what = "cpu_add_thread";
			for (int i = 0; i < n; i++) e[i] = t[i];
			if (!in) e[n] = th;
			r = cpu_add_thread(cpu, th);
			want = in ? -1 : 0;
			check_list(what, cpu, e, in ? n : n + 1);
			if (!in) spec_update(what, cpu, e, n + 1, 0, r, NULL);
			else if (r_cs_n != 0) R_FAIL("%s of a thread already bound to the CPU wrote channels", what);
			break;
		case 2:
			what = "cpu_remove_thread";
			for (int i = 0; i < n; i++) if (i != sel) e[k++] = t[i];
			r = cpu_remove_thread(cpu, th);
			want = in ? 0 : -1;
			check_list(what, cpu, e, in ? n - 1 : n);
			if (in) spec_update(what, cpu, e, n - 1, 0, r, NULL);
			else if (r_cs_n != 0 || th->cpu_prev != sp || th->cpu_next != sn) R_FAIL("%s of a thread not bound to the CPU changed something", what);
			break;
		default:
			what = "cpu_migrate_thread";
			for (int i = 0; i < n; i++) if (i != sel) e[k++] = t[i];
			for (int i = 0; i < m; i++) f[i] = u[i];
			if (in) f[m] = th;
			r = cpu_migrate_thread(cpu, th, cpu2);
			want = in ? 0 : -1;
			check_list(what, cpu, e, in ? n - 1 : n);
			check_list(what, cpu2, f, in ? m + 1 : m);
			if (in) {
				spec_update(what, cpu, e, n - 1, 0, r, NULL);
				spec_update(what, cpu2, f, m + 1, 5, r, NULL);
			} else if (r_cs_n != 0 || th->cpu_prev != sp || th->cpu_next != sn) R_FAIL("%s of a thread not bound to the source CPU changed something", what);
			break;
		}
		if (r != 0 && r != -1) R_FAIL("%s returned %d", what, r);
		if (r != want) R_FAIL("%s returned %d, specified %d (thread %s the list of %d)", what, r, want, in ? "in" : "not in", n);
	}
	if (r == 0 && r_nerr != 0) R_FAIL("%s accepted with %u error diagnostics", what, r_nerr);
	if (r != 0 && r_nerr == 0) R_FAIL("%s refused without a diagnostic", what);
	if (r_bad) printf("  (in the run with n=%d sel=%d virtual=%d variant=%d)\n", n, sel, (int) (W_VIRTUAL), variant);
	else printf("not reproduced: %s returned %d as specified (n=%d sel=%d virtual=%d variant=%d)\n", what, r, n, sel, (int) (W_VIRTUAL), variant);
}

int main(void)
{
	int nvariants = (REPLAY_OP) == 0 ? 1 : 3;
	for (int v = 0; v < nvariants && !r_bad; v++)
		run(v);
	return r_bad ? 1 : 0;
}
