#include "a5replay_c20_session.h"
