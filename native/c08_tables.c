/* C08 -- table contents, native-exhaustive (HOWTO "native": true).
 *
 * One model per build (-DC08_<MODEL>).  The REAL src/emu/<model>/event.c and
 * setup.c are #included; the channel layer (chan.c, outside these units) is
 * replaced by an operation-log stub.  The real model_<m>_event() is evaluated
 * for ALL 65,536 (category,value) pairs x all 8 combinations of the thread
 * flags (is_active, is_running, is_out_of_cpu) x {lower layer accepts, refuses}.
 * CBMC cannot carry these facts (786 KB constant tables, symbolic index times
 * out: DESIGN 3); the domain is finite and is enumerated completely.
 *
 * Output protocol: "OBL <model>.<check> PASS|FAIL <detail>" per (model, check)
 * and a final "DONE <count>".
 *
 * usage: native <events.md> <c08_events.ref> [--dump]
 */
#define _GNU_SOURCE
#include <stdio.h>
#include <stdlib.h>
#include <string.h>
#include <stdarg.h>
#include <stdint.h>
#include <inttypes.h>

/* ---------------- model selection: the real files ---------------- */
#if defined(C08_NOSV)
#  include "nosv/event.c"
#  include "nosv/setup.c"
#  define MNAME "nosv"
#  define MODEL_EVENT model_nosv_event
#  define THREAD_T struct nosv_thread
#  define REQ(a, r, o) ((a) && !(o))
#  define REQ_TEXT "active && !out_of_cpu"
#  define SKIP_CATS "TY"      /* task / type handlers: not table driven, need payloads (C07, CBMC groups) */
#elif defined(C08_NANOS6)
#  include "nanos6/event.c"
#  include "nanos6/setup.c"
#  define MNAME "nanos6"
#  define MODEL_EVENT model_nanos6_event
#  define THREAD_T struct nanos6_thread
#  define REQ(a, r, o) (a)
#  define REQ_TEXT "active"
#  define SKIP_CATS "TY"
#elif defined(C08_NODES)
#  include "nodes/event.c"
#  include "nodes/setup.c"
#  define MNAME "nodes"
#  define MODEL_EVENT model_nodes_event
#  define THREAD_T struct nodes_thread
#  define REQ(a, r, o) (r)
#  define REQ_TEXT "running"
#  define SKIP_CATS ""
#elif defined(C08_MPI)
#  include "mpi/event.c"
#  include "mpi/setup.c"
#  define MNAME "mpi"
#  define MODEL_EVENT model_mpi_event
#  define THREAD_T struct mpi_thread
#  define REQ(a, r, o) (r)
#  define REQ_TEXT "running"
#  define SKIP_CATS ""
#elif defined(C08_TAMPI)
#  include "tampi/event.c"
#  include "tampi/setup.c"
#  define MNAME "tampi"
#  define MODEL_EVENT model_tampi_event
#  define THREAD_T struct tampi_thread
#  define REQ(a, r, o) (r)
#  define REQ_TEXT "running"
#  define SKIP_CATS ""
#elif defined(C08_OPENMP)
#  include "openmp/event.c"
#  include "openmp/setup.c"
#  define MNAME "openmp"
#  define MODEL_EVENT model_openmp_event
#  define THREAD_T struct openmp_thread
#  define REQ(a, r, o) (r)
#  define REQ_TEXT "running"
#  define SKIP_CATS ""
#elif defined(C08_KERNEL)
#  include "kernel/event.c"
#  include "kernel/setup.c"
#  define MNAME "kernel"
#  define MODEL_EVENT model_kernel_event
#  define THREAD_T struct kernel_thread
#  define REQ(a, r, o) (1)
#  define REQ_TEXT "none"
#  define SKIP_CATS ""
#elif defined(C08_OVNI)
#  include "ovni/event.c"
#  include "ovni/setup.c"
#  define MNAME "ovni"
#  define MODEL_EVENT model_ovni_event
#  define THREAD_T struct ovni_thread
#  define REQ(a, r, o) (!(o))
#  define REQ_TEXT "!out_of_cpu"
#  define SKIP_CATS "HABM"    /* thread state, affinity, burst, mark: other properties (C04, C05, C12) */
#  define WILDCARD_CATS "U"   /* model_ovni_event: "Ignore sorting events": OU<any byte> returns 0 */
#else
#  error "define one of C08_NOSV C08_NANOS6 C08_NODES C08_MPI C08_TAMPI C08_OPENMP C08_KERNEL C08_OVNI"
#endif
#ifndef WILDCARD_CATS
#  define WILDCARD_CATS ""
#endif
#include "extend.c"           /* the real extend_get / extend_set */
#include "proc.h"
#include "loom.h"
#include "thread.h"

/* ---------------- stubs for what is outside the units ---------------- */
int is_debug_enabled = 0;
void verr(const char *prefix, const char *func, const char *errstr, ...) { (void) prefix; (void) func; (void) errstr; }
void vdie(const char *prefix, const char *func, const char *errstr, ...)
{
	fprintf(stdout, "OBL %s.evaluator FAIL die() reached in %s: %s\nDONE 1\n", MNAME, func ? func : "?", errstr);
	exit(1);
}
char value_buffers[VALUE_NBUF][VALUE_BUFSIZE];
size_t value_nextbuf = 0;

enum { OP_NONE = 0, OP_PUSH = 1, OP_POP = 2, OP_SET = 3 };
static const char *opname[] = { "NONE", "PUSH", "POP", "SET" };
static struct { int nops, op; struct chan *chan; struct value val; } L;
static int stub_ret;          /* what the channel layer answers */
static int log_op(int op, struct chan *c, struct value v)
{
	L.nops++; L.op = op; L.chan = c; L.val = v;
	return stub_ret;
}
int chan_push(struct chan *c, struct value v) { return log_op(OP_PUSH, c, v); }
int chan_pop(struct chan *c, struct value v) { return log_op(OP_POP, c, v); }
int chan_set(struct chan *c, struct value v) { return log_op(OP_SET, c, v); }

/* ---------------- evaluation ---------------- */
struct res { signed char ret; unsigned char nops, op, vnull; short ch; int64_t val; signed char ooc_after; };
static struct res R[2][8][256][256];   /* [stub refuses][thread flags][c][v] */
static struct chan chans[CH_MAX];

static int skipped(int c) { return c != 0 && strchr(SKIP_CATS, c) != NULL; }
static int wildcard(int c) { return c != 0 && strchr(WILDCARD_CATS, c) != NULL; }

static void evaluate(int refuse, int st, int c, int v)
{
	static struct emu emu;
	static struct thread th;
	static struct proc proc;
	static struct loom loom;
	static THREAD_T mth;
	struct emu_ev ev;
	memset(&ev, 0, sizeof(ev));
	memset(&th, 0, sizeof(th));
	memset(&mth, 0, sizeof(mth));
	ev.m = (uint8_t) model_id; ev.c = (uint8_t) c; ev.v = (uint8_t) v;
	th.is_active = st & 1; th.is_running = (st >> 1) & 1; th.is_out_of_cpu = (st >> 2) & 1;
	mth.m.ch = chans;
	extend_set(&th.ext, model_id, &mth);
	emu.ev = &ev; emu.thread = &th; emu.proc = &proc; emu.loom = &loom;
	memset(&L, 0, sizeof(L));
	stub_ret = refuse ? -1 : 0;
	int ret = MODEL_EVENT(&emu);
	struct res *r = &R[refuse][st][c][v];
	r->ret = (signed char) (ret == 0 ? 0 : ret == -1 ? -1 : 99);
	r->nops = (unsigned char) (L.nops > 200 ? 200 : L.nops);
	r->op = (unsigned char) L.op;
	r->ch = (short) (L.chan ? (L.chan - chans) : -1);
	r->vnull = (L.val.type == VALUE_NULL);
	if (L.nops && L.val.type != VALUE_NULL && L.val.type != VALUE_INT64) r->vnull = 2;
	r->val = L.val.i;
	r->ooc_after = (signed char) th.is_out_of_cpu;
}

static int nobl;
static void obl(const char *check, int ok, const char *fmt, ...)
{
	char buf[600];
	va_list ap; va_start(ap, fmt); vsnprintf(buf, sizeof(buf), fmt, ap); va_end(ap);
	printf("OBL %s.%s %s %s\n", MNAME, check, ok ? "PASS" : "FAIL", buf);
	nobl++;
}

static const char *label_of(int ch, int64_t val)
{
	if (ch < 0 || ch >= CH_MAX || pcf_labels[ch] == NULL) return NULL;
	for (const struct pcf_value_label *l = pcf_labels[ch]; l->label != NULL; l++)
		if (l->value == val) return l->label;
	return NULL;
}

#define CANON 3   /* active, running, on CPU: satisfies every model's requirement */
#define CELL(c, v) (&R[0][CANON][c][v])

/* evlist helpers */
static const char *decl_desc(int c, int v)
{
	for (struct ev_decl *d = model_evlist; d->signature != NULL; d++)
		if ((unsigned char) d->signature[0] == model_id && (unsigned char) d->signature[1] == c && (unsigned char) d->signature[2] == v)
			return d->description;
	return NULL;
}

static int pair_words(const char *a, const char *b, const char **rest_a, const char **rest_b)
{
	static const char *w[3][2] = { { "enters ", "leaves " }, { "begins ", "ceases " }, { "starts ", "stops  " } };
	for (int i = 0; i < 3; i++) {
		if (strncmp(a, w[i][0], 7) == 0 && strncmp(b, w[i][1], 7) == 0) {
			*rest_a = a + 7; *rest_b = b + 7;
			return 1;
		}
	}
	return 0;
}

static void unescape(char *s)
{
	static const char *e[][2] = { { "&quot;", "\"" }, { "&amp;", "&" }, { "&lt;", "<" }, { "&gt;", ">" }, { "&#39;", "'" }, { "&#x27;", "'" }, { "&apos;", "'" } };
	for (int i = 0; i < 7; i++) {
		char *p;
		size_t n = strlen(e[i][0]);
		while ((p = strstr(s, e[i][0])) != NULL) {
			*p = e[i][1][0];
			memmove(p + 1, p + n, strlen(p + n) + 1);
		}
	}
}

int main(int argc, char **argv)
{
	if (argc < 3) { fprintf(stderr, "usage: %s events.md c08_events.ref [--dump]\n", argv[0]); return 2; }
	int dump = (argc > 3 && strcmp(argv[3], "--dump") == 0);
	char detail[512];

	for (int refuse = 0; refuse < 2; refuse++)
		for (int st = 0; st < 8; st++)
			for (int c = 0; c < 256; c++) {
				if (skipped(c)) continue;
				for (int v = 0; v < 256; v++)
					evaluate(refuse, st, c, v);
			}

	if (dump) {
		/* reference generator: one line per declared event or acting cell */
		for (int c = 1; c < 256; c++) for (int v = 1; v < 256; v++) {
			const struct res *r = CELL(c, v);
			const char *d = decl_desc(c, v);
			int acts = !skipped(c) && r->ret == 0;
			if (!acts && d == NULL) continue;
			if (wildcard(c) && d == NULL) continue;
			const char *act = skipped(c) ? "OTHER" : r->ret != 0 ? "REFUSED" : r->nops == 0 ? "IGN" : opname[r->op];
			const char *lab = (acts && r->nops == 1 && !r->vnull) ? label_of(r->ch, r->val) : NULL;
			printf("%s %c%c%c %s %s %" PRIi64 " \"%s\" \"%s\"\n", MNAME, model_id, c, v, act,
					(acts && r->nops == 1) ? chan_name[r->ch] : "-",
					(acts && r->nops == 1 && !r->vnull) ? r->val : (int64_t) 0,
					(acts && r->nops == 1) ? (r->vnull ? "(null)" : lab ? lab : "(NO LABEL)") : "-", d ? d : "(undeclared)");
		}
		return 0;
	}

	/* ---- 1. shape: one outcome per cell, at most one channel operation ---- */
	{
		long bad = 0, cells = 0; detail[0] = 0;
		for (int st = 0; st < 8; st++) for (int c = 0; c < 256; c++) { if (skipped(c)) continue; for (int v = 0; v < 256; v++) {
			const struct res *r = &R[0][st][c][v]; cells++;
			int ok = (r->ret == 0 || r->ret == -1) && r->nops <= 1 && (r->ret == 0 || r->nops == 0) && r->vnull != 2 &&
				(r->nops == 0 || (r->ch >= 0 && r->ch < CH_MAX));
			if (!ok && !bad++) snprintf(detail, sizeof(detail), "first: %c%c%c flags=%d ret=%d nops=%d", model_id, c, v, st, r->ret, r->nops);
		} }
		obl("shape", bad == 0, "%ld cells x flags: ret in {0,-1}, refused => no channel operation, accepted => at most one, on a channel of the model; %ld bad %s", cells, bad, detail);
	}
	/* ---- 2. thread-state guard ---- */
	{
		long bad = 0, cells = 0; detail[0] = 0;
		for (int st = 0; st < 8; st++) for (int c = 0; c < 256; c++) { if (skipped(c)) continue; for (int v = 0; v < 256; v++) {
			const struct res *r = &R[0][st][c][v], *k = CELL(c, v); cells++;
			int a = st & 1, ru = (st >> 1) & 1, o = (st >> 2) & 1, ok;
			if (REQ(a, ru, o))
				ok = r->ret == k->ret && r->nops == k->nops && r->op == k->op && r->ch == k->ch && r->val == k->val && r->vnull == k->vnull;
			else
				ok = r->ret == -1 && r->nops == 0;
			if (!ok && !bad++) snprintf(detail, sizeof(detail), "first: %c%c%c flags(active,running,ooc)=%d%d%d ret=%d nops=%d", model_id, c, v, a, ru, o, r->ret, r->nops);
		} }
		obl("guard", bad == 0, "requirement '%s': %ld cells x flags: refused without any operation when the requirement fails, same action as the table row whenever it holds; %ld bad %s", REQ_TEXT, cells, bad, detail);
	}
	/* ---- 3. a refusal of the channel layer is passed on ---- */
	{
		long bad = 0, n = 0; detail[0] = 0;
		for (int st = 0; st < 8; st++) for (int c = 0; c < 256; c++) { if (skipped(c)) continue; for (int v = 0; v < 256; v++) {
			const struct res *r = &R[1][st][c][v], *k = &R[0][st][c][v];
			int ok = r->nops == k->nops && r->op == k->op && r->ch == k->ch && r->val == k->val &&
				r->ret == ((k->nops == 1) ? -1 : k->ret);
			if (k->nops == 1) n++;
			if (!ok && !bad++) snprintf(detail, sizeof(detail), "first: %c%c%c flags=%d ret=%d", model_id, c, v, st, r->ret);
		} }
		obl("propagate", bad == 0, "%ld acting (cell,flags): when chan_push/pop/set answers -1 the handler answers -1 (same operation attempted); %ld bad %s", n, bad, detail);
	}
	/* ---- 4. proper pairs ---- */
	{
		long bad = 0, npush = 0, npop = 0; detail[0] = 0;
		for (int c = 0; c < 256; c++) for (int v = 0; v < 256; v++) {
			const struct res *p = CELL(c, v);
			if (skipped(c) || p->ret != 0 || p->nops != 1 || (p->op != OP_PUSH && p->op != OP_POP)) continue;
			int other = (p->op == OP_PUSH) ? OP_POP : OP_PUSH, partners = 0, same = 0, samecat = 0;
			if (p->op == OP_PUSH) npush++; else npop++;
			for (int c2 = 0; c2 < 256; c2++) for (int v2 = 0; v2 < 256; v2++) {
				const struct res *q = CELL(c2, v2);
				if (skipped(c2) || q->ret != 0 || q->nops != 1 || q->ch != p->ch || q->val != p->val || q->vnull != p->vnull) continue;
				if (q->op == other) { partners++; if (c2 == c) samecat++; }
				if (q->op == p->op) same++;
			}
			int ok = partners == 1 && same == 1 && samecat == 1;
			if (!ok && !bad++) snprintf(detail, sizeof(detail), "first: %c%c%c %s ch=%d val=%" PRIi64 " partners=%d same-op=%d same-category=%d",
					model_id, c, v, opname[p->op], p->ch, p->val, partners, same, samecat);
		}
		obl("pairs", bad == 0 && npush == npop, "%ld PUSH and %ld POP cells: every pushed (channel,value) has exactly one POP event and one PUSH event, in the same category; %ld bad %s", npush, npop, bad, detail);
	}
	/* ---- 5. channel kinds, values, labels ---- */
	{
		long bad = 0, n = 0; detail[0] = 0;
		for (int c = 0; c < 256; c++) for (int v = 0; v < 256; v++) {
			const struct res *p = CELL(c, v);
			if (skipped(c) || p->ret != 0 || p->nops != 1) continue;
			n++;
			int ok = 1;
			const char *why = "";
			if (p->op == OP_PUSH || p->op == OP_POP) {
				if (!chan_stack[p->ch]) { ok = 0; why = "push/pop on a non-stack channel"; }
				else if (p->vnull || p->val == 0) { ok = 0; why = "null/zero value pushed"; }
			} else if (p->op == OP_SET) {
				if (chan_stack[p->ch]) { ok = 0; why = "set on a stack channel"; }
				else if (!p->vnull && p->val == 0) { ok = 0; why = "zero value set"; }
			}
			if (ok && !p->vnull) {
				const char *l = label_of(p->ch, p->val);
				if (l == NULL || l[0] == 0) { ok = 0; why = "value has no PCF label"; }
			}
			if (!ok && !bad++) snprintf(detail, sizeof(detail), "first: %c%c%c %s ch=%d val=%" PRIi64 ": %s", model_id, c, v, opname[p->op], p->ch, p->val, why);
		}
		/* label tables: no value or label listed twice */
		for (int ch = 0; ch < CH_MAX; ch++) {
			if (pcf_labels[ch] == NULL) continue;
			for (const struct pcf_value_label *a = pcf_labels[ch]; a->label; a++)
				for (const struct pcf_value_label *b = a + 1; b->label; b++)
					if ((a->value == b->value || strcmp(a->label, b->label) == 0) && !bad++)
						snprintf(detail, sizeof(detail), "first: channel %s lists value %d/%d label '%s'/'%s' twice", chan_name[ch], a->value, b->value, a->label, b->label);
		}
		obl("labels", bad == 0, "%ld acting cells: push/pop only on stack channels, set only on single channels, value non-zero int64 (or null for set) with a non-empty label in the model's pcf_value_label table, tables free of duplicates; %ld bad %s", n, bad, detail);
	}
	/* ---- 6. PAIR_* declarations of model_evlist ---- */
	{
		long bad = 0, npairs = 0, undeclared = 0, unpaired = 0; detail[0] = 0;
		static unsigned char in_pair[256][256];
		for (struct ev_decl *d = model_evlist; d->signature != NULL && (d + 1)->signature != NULL; d++) {
			const char *ra, *rb;
			if (!pair_words(d->description, (d + 1)->description, &ra, &rb) || strcmp(ra, rb) != 0) continue;
			npairs++;
			int c1 = (unsigned char) d->signature[1], v1 = (unsigned char) d->signature[2];
			int c2 = (unsigned char) (d + 1)->signature[1], v2 = (unsigned char) (d + 1)->signature[2];
			const struct res *p = CELL(c1, v1), *q = CELL(c2, v2);
			int ok;
			if (skipped(c1) || skipped(c2)) ok = 0;
			else if (p->ret != 0 || q->ret != 0) ok = 0;
			else if (p->nops == 0 && q->nops == 0) ok = 1;      /* declared, deliberately ignored (listed in the reference) */
			else if (p->nops == 1 && q->nops == 1 && p->op == OP_PUSH && q->op == OP_POP)
				ok = p->ch == q->ch && p->val == q->val && !p->vnull && !q->vnull;
			else if (p->nops == 1 && q->nops == 1 && p->op == OP_SET && q->op == OP_SET)
				ok = p->ch == q->ch && !p->vnull && q->vnull; /* begin = set value, cease = set nothing */
			else ok = 0;
			in_pair[c1][v1] = in_pair[c2][v2] = 1;
			if (!ok && !bad++) snprintf(detail, sizeof(detail), "first: PAIR %.3s/%.3s -> %s ch=%d val=%" PRIi64 " / %s ch=%d val=%" PRIi64,
					d->signature, (d + 1)->signature, opname[p->op], p->ch, p->val, opname[q->op], q->ch, q->val);
		}
		for (int c = 0; c < 256; c++) for (int v = 0; v < 256; v++) {
			const struct res *p = CELL(c, v);
			if (skipped(c) || p->ret != 0) continue;
			if (decl_desc(c, v) == NULL && !wildcard(c)) { undeclared++; if (!bad++) snprintf(detail, sizeof(detail), "first: %c%c%c is accepted but not declared in model_evlist", model_id, c, v); }
			if (p->nops == 1 && (p->op == OP_PUSH || p->op == OP_POP) && !in_pair[c][v]) unpaired++;
		}
		obl("pair_decl", bad == 0, "%ld PAIR_E/B/S declarations: first half pushes (or sets) and second half pops (or clears) the same value on the same channel, or both are ignored; every accepted cell is declared; %ld undeclared, %ld push/pop cells outside PAIR_* declarations (pinned by the reference); %ld bad %s",
				npairs, undeclared, unpaired, bad, detail);
	}
	/* ---- 7. documentation: events.md carries every declared event with the same text ---- */
	{
		long bad = 0, n = 0; detail[0] = 0;
		FILE *f = fopen(argv[1], "r");
		if (f == NULL) { obl("doc", 0, "cannot open %s", argv[1]); }
		else {
			static char doc[4096][2][300];
			int nd = 0; char line[2048];
			while (fgets(line, sizeof(line), f) && nd < 4096) {
				char *p = strstr(line, "<dt><a id=\"");
				if (p) {
					p = strstr(line, "<pre>");
					if (!p) continue;
					p += 5; char *e = strstr(p, "</pre>"); if (!e) continue; *e = 0;
					snprintf(doc[nd][0], 300, "%s", p); unescape(doc[nd][0]);
					if (!fgets(line, sizeof(line), f)) break;
					p = strstr(line, "<dd>"); if (!p) continue; p += 4;
					e = strstr(p, "</dd>"); if (e) *e = 0;
					snprintf(doc[nd][1], 300, "%s", p); unescape(doc[nd][1]);
					nd++;
				}
			}
			fclose(f);
			for (struct ev_decl *d = model_evlist; d->signature != NULL; d++) {
				int found = 0; n++;
				for (int i = 0; i < nd; i++)
					if (strcmp(doc[i][0], d->signature) == 0 && strcmp(doc[i][1], d->description) == 0) found = 1;
				if (!found && !bad++) snprintf(detail, sizeof(detail), "first: '%s' / '%s' not in events.md", d->signature, d->description);
			}
			obl("doc", bad == 0 && nd > 0, "%ld declared events: signature and description appear verbatim in doc/user/emulation/events.md (%d entries parsed); %ld bad %s", n, nd, bad, detail);
		}
	}
	/* ---- 8. reference: event -> (action, channel, value, label, description) ---- */
	{
		long bad = 0, n = 0, nref = 0; detail[0] = 0;
		static unsigned char seen[256][256];
		FILE *f = fopen(argv[2], "r");
		if (f == NULL) { obl("reference", 0, "cannot open %s", argv[2]); }
		else {
			char line[2048];
			while (fgets(line, sizeof(line), f)) {
				char m[32], mcv[8], act[16], ch[64], lab[300], desc[600]; long long val;
				if (line[0] == '#' || line[0] == '\n') continue;
				if (sscanf(line, "%31s %7s %15s %63s %lld \"%299[^\"]\" \"%599[^\n]", m, mcv, act, ch, &val, lab, desc) != 7) {
					if (!bad++) snprintf(detail, sizeof(detail), "unparsable reference line: %.60s", line);
					continue;
				}
				if (strcmp(m, MNAME) != 0) continue;
				size_t dl = strlen(desc); if (dl && desc[dl - 1] == '"') desc[dl - 1] = 0;
				int c = (unsigned char) mcv[1], v = (unsigned char) mcv[2];
				nref++; seen[c][v] = 1;
				const struct res *r = CELL(c, v);
				const char *d = decl_desc(c, v);
				int acts = !skipped(c) && r->ret == 0;
				const char *ract = skipped(c) ? "OTHER" : r->ret != 0 ? "REFUSED" : r->nops == 0 ? "IGN" : opname[r->op];
				int one = acts && r->nops == 1;
				const char *rl = one ? (r->vnull ? "(null)" : label_of(r->ch, r->val)) : "-";
				int ok = (unsigned char) mcv[0] == model_id && strcmp(act, ract) == 0 &&
					strcmp(ch, one ? chan_name[r->ch] : "-") == 0 &&
					val == ((one && !r->vnull) ? r->val : 0) &&
					rl != NULL && strcmp(lab, rl) == 0 &&
					strcmp(desc, d ? d : "(undeclared)") == 0;
				if (!ok && !bad++) snprintf(detail, sizeof(detail), "first: %s reference says %s %s %lld '%s', code does %s %s %" PRIi64 " '%s'",
						mcv, act, ch, val, lab, ract, one ? chan_name[r->ch] : "-", one ? r->val : (int64_t) 0, rl ? rl : "(NO LABEL)");
			}
			fclose(f);
			for (int c = 1; c < 256; c++) for (int v = 1; v < 256; v++) {
				const struct res *r = CELL(c, v);
				int listed = (!skipped(c) && !wildcard(c) && r->ret == 0) || decl_desc(c, v) != NULL;
				if (listed) n++;
				if (listed && !seen[c][v] && !bad++) snprintf(detail, sizeof(detail), "first: %c%c%c is accepted/declared by the code but absent from the reference", model_id, c, v);
			}
			obl("reference", bad == 0 && nref == n && n > 0, "%ld events (%ld reference lines): action, channel, value, PCF label and documented description equal spec/c08_events.ref; every other (c,v) is refused; %ld bad %s", n, nref, bad, detail);
		}
	}
	if (WILDCARD_CATS[0]) {
		/* PINNED: a whole category is accepted and ignored, whatever the value byte (no nesting check) */
		long bad = 0, n = 0;
		for (int st = 0; st < 8; st++) for (int c = 1; c < 256; c++) { if (!wildcard(c)) continue; for (int v = 0; v < 256; v++) {
			const struct res *r = &R[0][st][c][v]; n++;
			int a = st & 1, ru = (st >> 1) & 1, o = (st >> 2) & 1;
			if (REQ(a, ru, o) ? !(r->ret == 0 && r->nops == 0) : !(r->ret == -1 && r->nops == 0)) bad++;
		} }
		obl("wildcard_category", bad == 0, "PINNED: categories '%s': every value byte (declared or not) is accepted WITHOUT any channel operation and without a nesting check when '%s' holds (%ld cell x flags); %ld bad", WILDCARD_CATS, REQ_TEXT, n, bad);
	}
#if defined(C08_KERNEL)
	/* ---- kernel: the out-of-CPU flag follows the context switch events ---- */
	{
		long bad = 0;
		for (int st = 0; st < 8; st++) {
			if (R[0][st]['C']['O'].ooc_after != 1) bad++;
			if (R[0][st]['C']['I'].ooc_after != 0) bad++;
			for (int c = 0; c < 256; c++) for (int v = 0; v < 256; v++)
				if (!(c == 'C' && (v == 'O' || v == 'I')) && R[0][st][c][v].ooc_after != ((st >> 2) & 1)) bad++;
		}
		obl("ooc_flag", bad == 0, "KCO sets is_out_of_cpu, KCI clears it, no other cell touches it (all flags); %ld bad", bad);
	}
#endif
	printf("DONE %d\n", nobl);
	return 0;
}
