#define REPLAY_OP 2
#include "c03_heap_replay.h"
