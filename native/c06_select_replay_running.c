#define REPLAY_OP 0
#include "c06_select_replay.h"
