#define REPLAY_NANOS6 1
#include "a5replay_c13_finish_pvt.h"
