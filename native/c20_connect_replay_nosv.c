#include "c20_connect_replay.h"
