#define REPLAY_NANOS6 1
#include "a5replay_c20_session.h"
