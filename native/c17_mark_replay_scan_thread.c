#define REPLAY_OP 4
#include "c17_mark_replay.h"
