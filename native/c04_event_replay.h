/* Native replay of a failed C04 obligation of the ovni/event.c groups (pre_thread_execute/_end/
 * _pause/_resume/_cool/_warm and the pre_thread dispatch) on the REAL src/emu/ovni/event.c,
 * running on the REAL thread.c and chan.c.  REPLAY_OP: the event value byte of the handler
 * ('x' 'e' 'p' 'r' 'c' 'w'), or 0 for the dispatch (value byte = witness W_V).
 * Witness ghosts (harness/c04_event.c): W_STATE (thread state), W_V, W_PAYLOAD_SIZE, W_CPU_INDEX,
 * W_NCPUS, W_LOOM_SAME (the loom hands out the thread's current CPU).
 * Other units, as in the harness but deterministic: cpu_update/cpu_add_thread/cpu_remove_thread
 * succeed and are logged (operation, CPU, state of the thread at that moment); loom_get_cpu
 * returns a CPU exactly for index -1 or [0, ncpus).
 * The thread is built as the handler precondition says (redundant flags and CPU agree with the
 * state, the three channels flushed and mirroring the thread); the real handler runs; the result
 * is compared with the state machine of the property statement:
 *   x: not started (UNKNOWN, or DEAD: left open, accepted) -> RUNNING   c: RUNNING -> COOLING
 *   p: RUNNING|COOLING -> PAUSED   w: PAUSED -> WARMING   r: PAUSED|WARMING -> RUNNING
 *   e: RUNNING|COOLING -> DEAD     C: accepted iff 12-byte payload   anything else refused
 * accepted <=> legal (and for x: payload >= 4 bytes naming a CPU of the loom); accepted => new
 * state, is_running/is_active/cpu agree with it, state channel written now, tid channel = tid iff
 * active (written iff that changed), cpu channel mirrors th->cpu, the CPU was told once after the
 * state change; refused => thread untouched, CPU not told, a diagnostic.
 * exit 0: behaves as specified (not reproduced); exit 1: mismatch (reproduced). */
#include "c04c05_replay_stubs.h"
#include "chan.c"
#include "thread.c"
#include "cpu.h"
#include "loom.h"

char value_buffers[VALUE_NBUF][VALUE_BUFSIZE];
size_t value_nextbuf;
NSTUB(bay_register) NSTUB(json_object_dotget_number) NSTUB(mux_get_input) NSTUB(pcf_add_type)
NSTUB(pcf_add_value) NSTUB(pcf_find_type) NSTUB(prv_register) NSTUB(pvt_get_prv)
NSTUB(recorder_find_pvt) NSTUB(stream_metadata)
NSTUB(proc_find_thread) NSTUB(loom_find_thread) NSTUB(extend_get) NSTUB(mark_event)

/* ---- cpu.c / loom.c stand-ins ---- */
static struct thread *r_th;          /* the event's thread */
static int r_cpu_calls, r_cpu_op, r_cpu_st;
static struct cpu *r_cpu_arg;
static int cpu_log(int op, struct cpu *cpu)
{
	r_cpu_calls++; r_cpu_op = op; r_cpu_arg = cpu; r_cpu_st = (int) r_th->state;
	return 0;
}
int cpu_update(struct cpu *cpu) { return cpu_log(1, cpu); }
int cpu_add_thread(struct cpu *cpu, struct thread *th) { (void) th; return cpu_log(2, cpu); }
int cpu_remove_thread(struct cpu *cpu, struct thread *th) { (void) th; return cpu_log(3, cpu); }
int cpu_migrate_thread(struct cpu *cpu, struct thread *th, struct cpu *newcpu) { (void) th; (void) newcpu; return cpu_log(4, cpu); }
static struct cpu *r_loom_cpu;
static int r_index_known(struct loom *loom, int index) { return index == -1 || (index >= 0 && (size_t) index < loom->ncpus); }
struct cpu *loom_get_cpu(struct loom *loom, int index) { return r_index_known(loom, index) ? r_loom_cpu : NULL; }

#include "ovni/event.c"

#ifndef W_STATE
#define W_STATE TH_ST_RUNNING
#endif
#ifndef W_V
#define W_V 'p'
#endif
#ifndef W_PAYLOAD_SIZE
#define W_PAYLOAD_SIZE 4
#endif
#ifndef W_CPU_INDEX
#define W_CPU_INDEX 0
#endif
#ifndef W_NCPUS
#define W_NCPUS 1
#endif
#ifndef W_LOOM_SAME
#define W_LOOM_SAME 0
#endif

#define ST_ACTIVE(s)  ((s) == TH_ST_RUNNING || (s) == TH_ST_COOLING || (s) == TH_ST_WARMING)
#define ST_HAS_CPU(s) ((s) == TH_ST_RUNNING || (s) == TH_ST_PAUSED || (s) == TH_ST_COOLING || (s) == TH_ST_WARMING)

static int legal(int v, int s)
{
	switch (v) {
	case 'x': return s == TH_ST_UNKNOWN || s == TH_ST_DEAD;
	case 'e': return s == TH_ST_RUNNING || s == TH_ST_COOLING;
	case 'p': return s == TH_ST_RUNNING || s == TH_ST_COOLING;
	case 'r': return s == TH_ST_PAUSED || s == TH_ST_WARMING;
	case 'c': return s == TH_ST_RUNNING;
	case 'w': return s == TH_ST_PAUSED;
	}
	return 0;
}
static int newst(int v)
{
	return v == 'x' ? TH_ST_RUNNING : v == 'e' ? TH_ST_DEAD : v == 'p' ? TH_ST_PAUSED :
		v == 'r' ? TH_ST_RUNNING : v == 'c' ? TH_ST_COOLING : TH_ST_WARMING;
}
static int holds(struct chan *c, struct value v)
{
	struct value cur = c->data.value;
	return cur.type == v.type && cur.i == v.i;
}
static void flush_with(struct chan *c, struct value v)
{
	c->data.value = v; c->last_value = v; c->is_dirty = 0;
}

int main(void)
{
	int v = (REPLAY_OP) ? (REPLAY_OP) : (int) (unsigned char) (W_V);
	int s0 = (int) (W_STATE);
	if (s0 < TH_ST_UNKNOWN || s0 > TH_ST_WARMING) { printf("not reproduced: witness state %d is outside the precondition\n", s0); return 0; }

	struct emu *emu = calloc(1, sizeof(*emu));
	struct emu_ev *ev = calloc(1, sizeof(*ev));
	struct loom *loom = calloc(1, sizeof(*loom));
	struct thread *th = calloc(1, sizeof(*th));
	struct cpu *cpu0 = calloc(1, sizeof(*cpu0)), *cpu1 = calloc(1, sizeof(*cpu1));
	static union ovni_ev_payload payload[4];
	cpu0->gindex = 5; strcpy(cpu0->name, "cpu0"); cpu1->gindex = 9; strcpy(cpu1->name, "cpu1");
	loom->ncpus = (size_t) (W_NCPUS); loom->id = "loom.replay";
	th->tid = 77; strcpy(th->id, "thread.77");
	th->state = (enum thread_state) s0;
	th->is_running = (s0 == TH_ST_RUNNING);
	th->is_active = ST_ACTIVE(s0);
	th->cpu = ST_HAS_CPU(s0) ? cpu0 : NULL;
	r_loom_cpu = (th->cpu != NULL && (W_LOOM_SAME)) ? cpu0 : cpu1;
	for (int i = 0; i < TH_CHAN_MAX; i++)
		chan_init(&th->chan[i], CHAN_SINGLE, "thread.77.chan%d", i);
	chan_prop_set(&th->chan[TH_CHAN_TID], CHAN_IGNORE_DUP, 1);
	flush_with(&th->chan[TH_CHAN_STATE], s0 == TH_ST_UNKNOWN ? value_null() : value_int64(s0));
	flush_with(&th->chan[TH_CHAN_TID], ST_ACTIVE(s0) ? value_int64(th->tid) : value_null());
	flush_with(&th->chan[TH_CHAN_CPU], th->cpu ? value_int64(th->cpu->gindex) : value_null());
	ev->m = 'O'; ev->c = 'H'; ev->v = (uint8_t) v;
	ev->payload_size = (size_t) (W_PAYLOAD_SIZE);
	ev->has_payload = ev->payload_size > 0;
	payload[0].i32[0] = (int32_t) (W_CPU_INDEX);
	ev->payload = ev->payload_size >= 4 ? payload : NULL;
	emu->ev = ev; emu->loom = loom; emu->thread = th;
	r_th = th;

	struct thread *before = malloc(sizeof(*before));
	memcpy(before, th, sizeof(*th));
	struct cpu *old_cpu = th->cpu;

	int r;
	switch (REPLAY_OP) {
	case 'x': r = pre_thread_execute(emu, th); break;
	case 'e': r = pre_thread_end(th); break;
	case 'p': r = pre_thread_pause(th); break;
	case 'r': r = pre_thread_resume(th); break;
	case 'c': r = pre_thread_cool(th); break;
	case 'w': r = pre_thread_warm(th); break;
	default:  r = pre_thread(emu); break;
	}

	int fsm = v == 'x' || v == 'e' || v == 'p' || v == 'r' || v == 'c' || v == 'w';
	int cpu_ok = ev->payload_size >= 4 && r_index_known(loom, (int) (W_CPU_INDEX));
	int expect = fsm ? (legal(v, s0) && (v != 'x' || cpu_ok)) : (v == 'C' && ev->payload_size == 12);
	const char *ctx = "";
	char buf[160];
	snprintf(buf, sizeof(buf), "(event OH%c, state %d, payload %zu bytes, cpu index %d, ncpus %zu)", v, s0,
		ev->payload_size, (int) (W_CPU_INDEX), loom->ncpus);
	ctx = buf;

	if (r != 0 && r != -1) R_FAIL("handler returned %d %s", r, ctx);
	if ((r == 0) != (expect != 0))
		R_FAIL("the event was %s but the statement says it is %s %s", r == 0 ? "accepted" : "refused",
			expect ? "legal" : "illegal", ctx);
	if (r == 0 && r_nerr != 0) R_FAIL("accepted with %u error diagnostics %s", r_nerr, ctx);
	if (r != 0 && r_nerr == 0) R_FAIL("refused without a diagnostic %s", ctx);

	if (r == 0 && fsm) {
		int ns = newst(v);
		struct cpu *want_cpu = v == 'x' ? r_loom_cpu : v == 'e' ? NULL : old_cpu;
		if ((int) th->state != ns) R_FAIL("accepted but the state is %d, specified %d %s", (int) th->state, ns, ctx);
		if ((th->is_running != 0) != (ns == TH_ST_RUNNING)) R_FAIL("is_running=%d in state %d %s", th->is_running, ns, ctx);
		if ((th->is_active != 0) != (ST_ACTIVE(ns) != 0)) R_FAIL("is_active=%d in state %d %s", th->is_active, ns, ctx);
		if (th->cpu != want_cpu) R_FAIL("the thread's CPU after the event is not the specified one %s", ctx);
		if ((th->cpu != NULL) != (ST_HAS_CPU(ns) != 0)) R_FAIL("CPU %s in state %d %s", th->cpu ? "set" : "unset", ns, ctx);
		if (!holds(&th->chan[TH_CHAN_STATE], value_int64(ns)) || !th->chan[TH_CHAN_STATE].is_dirty)
			R_FAIL("state channel not written with %d at this instant %s", ns, ctx);
		if (!holds(&th->chan[TH_CHAN_TID], ST_ACTIVE(ns) ? value_int64(th->tid) : value_null()))
			R_FAIL("tid channel does not hold %s %s", ST_ACTIVE(ns) ? "the tid" : "null", ctx);
		if ((th->chan[TH_CHAN_TID].is_dirty != 0) != (ST_ACTIVE(s0) != ST_ACTIVE(ns)))
			R_FAIL("tid channel %s although activity %s %s", th->chan[TH_CHAN_TID].is_dirty ? "written" : "not written",
				ST_ACTIVE(s0) != ST_ACTIVE(ns) ? "changed" : "did not change", ctx);
		if (!holds(&th->chan[TH_CHAN_CPU], th->cpu ? value_int64(th->cpu->gindex) : value_null()))
			R_FAIL("cpu channel does not mirror the thread's CPU %s", ctx);
		if ((v == 'x' || v == 'e') && !th->chan[TH_CHAN_CPU].is_dirty) R_FAIL("cpu channel not written %s", ctx);
		int want_op = v == 'x' ? 2 : v == 'e' ? 3 : 1;
		struct cpu *told = v == 'e' ? old_cpu : th->cpu;
		if (r_cpu_calls != 1 || r_cpu_op != want_op || r_cpu_arg != told || r_cpu_st != ns)
			R_FAIL("cpu.c was told %d time(s) (last: op %d, %s CPU, thread state %d); specified: once, op %d, on the thread's CPU, in state %d %s",
				r_cpu_calls, r_cpu_op, r_cpu_arg == told ? "right" : "wrong", r_cpu_st, want_op, ns, ctx);
	} else if (r == 0) {
		/* create: nothing changes */
		if (memcmp(before, th, sizeof(*th)) != 0 || r_cpu_calls != 0) R_FAIL("OHC changed the thread or told a CPU %s", ctx);
	} else if (!expect) {
		/* refused because illegal: nothing at all is written */
		if (memcmp(before, th, sizeof(*th)) != 0) R_FAIL("refused illegal event modified the thread %s", ctx);
		if (r_cpu_calls != 0) R_FAIL("refused illegal event told a CPU %s", ctx);
	}
	if (r_bad) return 1;
	printf("not reproduced: OH%c returned %d as specified %s\n", v, r, ctx);
	return 0;
}
