/* C17 native replay of a failed runtime mark-API obligation on the REAL src/rt/ovni.c with the REAL parson.
 * REPLAY_OP: 0 ovni_mark_type, 1 ovni_mark_label.
 * Witnesses: W_TYPE W_FLAGS W_TITLE_NULL W_TITLE_EMPTY W_DEF W_READY W_FINISHED;
 *            W_TYPE W_VALUE W_LABEL_NULL W_LABEL_EMPTY W_DEF W_LAB_DEF W_READY W_FINISHED.
 * The functions DIE on a refusal, so every call runs in a forked child: die() -> exit code 42; a returning
 * call is followed by an inspection of the thread metadata (exit 0 as specified / 43 wrong metadata).
 * Specification (statement): ovni_mark_type refuses a type outside [0,100), a NULL/empty title, an unusable
 * thread and a type already defined by this thread; otherwise it records title and channel type ("stack"
 * iff OVNI_MARK_STACK) under ovni.mark.<type>.  ovni_mark_label refuses the same, a value <= 0, an undefined
 * type and a value that already has a label; otherwise it records the label.
 * exit 0: as specified; exit 1: REPRODUCED. */
#define _GNU_SOURCE
#include <stdio.h>
#include <stdlib.h>
#include <string.h>
#include <stdint.h>
#include <stdarg.h>
#include <unistd.h>
#include <time.h>
#include <sys/wait.h>
#include "ovni.h"
#include "ovni.c"
#include "parson.c"
int is_debug_enabled;
void verr(const char *p, const char *f, const char *e, ...) { (void) p; (void) f; (void) e; }
void vdie(const char *p, const char *f, const char *e, ...) { (void) p; (void) f; (void) e; _exit(42); }
int mkpath(const char *path, mode_t mode, int is_dir) { (void) path; (void) mode; (void) is_dir; return 0; }

#ifndef W_TYPE
#define W_TYPE 5
#endif
#ifndef W_FLAGS
#define W_FLAGS 0
#endif
#ifndef W_TITLE_NULL
#define W_TITLE_NULL 0
#endif
#ifndef W_TITLE_EMPTY
#define W_TITLE_EMPTY 0
#endif
#ifndef W_DEF
#define W_DEF (REPLAY_OP)
#endif
#ifndef W_READY
#define W_READY 1
#endif
#ifndef W_FINISHED
#define W_FINISHED 0
#endif
#ifndef W_VALUE
#define W_VALUE 3
#endif
#ifndef W_LABEL_NULL
#define W_LABEL_NULL 0
#endif
#ifndef W_LABEL_EMPTY
#define W_LABEL_EMPTY 0
#endif
#ifndef W_LAB_DEF
#define W_LAB_DEF 0
#endif

static char why[400];
struct rt_in { int op; int type; long flags; long long value; int str_null, str_empty, def, lab_def, ready, finished; };

static int child(const struct rt_in *w)
{
	memset(&rthread, 0, sizeof(rthread));
	rthread.ready = w->ready; rthread.finished = w->finished;
	rthread.meta = json_value_init_object();
	JSON_Object *meta = json_value_get_object(rthread.meta);
	char key[128];
	if (w->def) {
		snprintf(key, sizeof(key), "ovni.mark.%d.title", w->type); json_object_dotset_string(meta, key, "old title");
		snprintf(key, sizeof(key), "ovni.mark.%d.chan_type", w->type); json_object_dotset_string(meta, key, "single");
	}
	if (w->lab_def) { snprintf(key, sizeof(key), "ovni.mark.%d.labels.%lld", w->type, w->value); json_object_dotset_string(meta, key, "old label"); }
	/* an unrelated type is always there */
	json_object_dotset_string(meta, "ovni.mark.150.title", "unrelated"); json_object_dotset_string(meta, "ovni.mark.150.labels.1", "unrelated");
	const char *str = w->str_null ? NULL : (w->str_empty ? "" : "New Text");
	if (w->op == 0) {
		ovni_mark_type(w->type, w->flags, str);
		snprintf(key, sizeof(key), "ovni.mark.%d.title", w->type);
		const char *t = json_object_dotget_string(meta, key);
		snprintf(key, sizeof(key), "ovni.mark.%d.chan_type", w->type);
		const char *c = json_object_dotget_string(meta, key);
		if (!t || !str || strcmp(t, str) != 0) return 43;
		if (!c || strcmp(c, (w->flags & OVNI_MARK_STACK) ? "stack" : "single") != 0) return 44;
	} else {
		ovni_mark_label(w->type, w->value, str);
		snprintf(key, sizeof(key), "ovni.mark.%d.labels.%lld", w->type, w->value);
		const char *l = json_object_dotget_string(meta, key);
		if (!l || !str || strcmp(l, str) != 0) return 45;
		snprintf(key, sizeof(key), "ovni.mark.%d.title", w->type);
		const char *t = json_object_dotget_string(meta, key);
		if (!t || strcmp(t, "old title") != 0) return 46;
	}
	return 0;
}

static int rt_case(const struct rt_in *w)
{
	int usable = w->ready && !w->finished;
	int illegal = w->type < 0 || w->type >= 100 || w->str_null || w->str_empty || !usable ||
		(w->op == 0 ? w->def : (w->value <= 0 || !w->def || w->lab_def));
	fflush(stdout);
	pid_t pid = fork();
	if (pid == 0) _exit(child(w));
	int st = 0; waitpid(pid, &st, 0);
	int code = WIFEXITED(st) ? WEXITSTATUS(st) : -1;
	const char *fn = w->op == 0 ? "ovni_mark_type" : "ovni_mark_label";
	if (code == -1) { snprintf(why, sizeof(why), "%s crashed (signal %d)", fn, WTERMSIG(st)); return 1; }
	if (illegal && code != 42) { snprintf(why, sizeof(why), "%s RETURNED on a call the API must refuse (die)", fn); return 1; }
	if (!illegal && code == 42) { snprintf(why, sizeof(why), "%s died on a legal call", fn); return 1; }
	if (!illegal && code != 0) { snprintf(why, sizeof(why), "%s returned but the thread metadata does not record %s (check %d)", fn,
		code == 43 ? "the title" : code == 44 ? "the channel type (\"stack\" iff OVNI_MARK_STACK)" : code == 45 ? "the label under ovni.mark.<type>.labels.<value>" : "what it should", code); return 1; }
	return 0;
}
static void rt_show(const struct rt_in *w)
{
	if (w->op == 0) printf(" [type=%d flags=%ld title=%s; type already defined by this thread=%d ready=%d finished=%d]\n", w->type, w->flags, w->str_null ? "NULL" : w->str_empty ? "\"\"" : "\"New Text\"", w->def, w->ready, w->finished);
	else printf(" [type=%d value=%lld label=%s; type defined=%d value already labelled=%d ready=%d finished=%d]\n", w->type, w->value, w->str_null ? "NULL" : w->str_empty ? "\"\"" : "\"New Text\"", w->def, w->lab_def, w->ready, w->finished);
}

int main(void)
{
	setvbuf(stdout, NULL, _IONBF, 0);
	struct rt_in w = {REPLAY_OP, (int) (W_TYPE), (long) (W_FLAGS), (long long) (W_VALUE), (REPLAY_OP == 0 ? (W_TITLE_NULL) : (W_LABEL_NULL)) != 0,
		(REPLAY_OP == 0 ? (W_TITLE_EMPTY) : (W_LABEL_EMPTY)) != 0, (W_DEF) != 0, (W_LAB_DEF) != 0, (W_READY) != 0, (W_FINISHED) != 0};
	if (w.lab_def && !w.def) w.def = 1;     /* a labelled value lives under a defined type */
	if (rt_case(&w)) { printf("REPRODUCED %s", why); rt_show(&w); return 1; }
	static const int ty[] = {0, 5, 99, 100, -1};
	static const long long vals[] = {1, 3, 0, -1, 0x7fffffffffffffffLL};
	static const long fl[] = {0, OVNI_MARK_STACK, 6};
	for (int i = 0; i < 5; i++) for (int s = 0; s < 3; s++) for (int d = 0; d < 2; d++) for (int ld = 0; ld < 2; ld++) for (int u = 0; u < 3; u++)
	for (int k = 0; k < (REPLAY_OP == 0 ? 3 : 5); k++) {
		if (REPLAY_OP == 0 && ld) continue;
		if (ld && !d) continue;
		struct rt_in v = {REPLAY_OP, ty[i], REPLAY_OP == 0 ? fl[k] : 0, REPLAY_OP == 0 ? 1 : vals[k], s == 1, s == 2, d, ld, u != 1, u == 2};
		if (rt_case(&v)) { printf("REPRODUCED %s (found next to the witness)", why); rt_show(&v); return 1; }
	}
	printf("not reproduced: %s refuses / records as specified on the witness and its neighbourhood;", REPLAY_OP == 0 ? "ovni_mark_type" : "ovni_mark_label"); rt_show(&w);
	return 0;
}
