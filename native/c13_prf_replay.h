/* Native replay of a failed C13 obligation of the .row writer groups on the REAL src/emu/pv/prf.c,
 * writing a REAL file with the real libc; the file is read back and compared line by line.
 * REPLAY_OP: 0 prf_add (+ _2rows); 1 prf_close (+ _iff4) / prf_open.
 * Witness ghosts (harness/c13_prf.c): W_INDEX, W_NROWS, W_SET (prf_add: target row, declared rows, the
 * row already has a name), W_NROWS (prf_close, prf_open).  Row counts are scaled down to at most
 * R_MAXROWS rows natively (a table of INT_MAX rows is 1 TB), keeping the position of the index
 * relative to the table (negative, first, inside, last, one past, beyond).
 * Specification (statement: "the .row file names exactly the declared number of rows, one per thread
 * or CPU in the documented order"; prf.h):
 *   - prf_open records the declared row count; no row has a name
 *   - prf_add accepted exactly when the row lies inside the declared count, has no name yet and the
 *     label fits (MAX_PRF_LABEL); a refused call changes no row
 *   - prf_close accepted exactly when every row has a name; then the file is
 *     "LEVEL NODE SIZE 1" / "hostname" / "" / "LEVEL THREAD SIZE <nrows>" followed by exactly nrows
 *     lines, line k being the name given to row k; refused => nothing is written.
 * exit 0: behaves as specified (not reproduced); exit 1: mismatch (reproduced). */
#include <unistd.h>
#include <stdio.h>
#include <stdlib.h>
#include <string.h>
#include <stdint.h>
#include <stdarg.h>
#include <limits.h>
int is_debug_enabled;
static int n_err;
void verr(const char *p, const char *f, const char *e, ...) { (void) f; (void) e; if (p && strcmp(p, "ERROR") == 0) n_err++; }
void vdie(const char *p, const char *f, const char *e, ...) { (void) p; (void) f; printf("not reproduced: the code died (%s): a legitimate refusal\n", e); exit(0); }
#include "pv/prf.c"        /* the real /repo/src/emu/pv/prf.c */

#define R_PATH "replay_out.row"
#define R_MAXROWS 3000
static char r_msg[1024], r_ctx[256];
static const char *r_origin = "witness";
#define FAILF(...) do { snprintf(r_msg, sizeof(r_msg), __VA_ARGS__); return r_msg; } while (0)
#define RUN(expr) do { const char *why_ = (expr); if (why_) { printf("REPRODUCED %s {session: %s} [%s]\n", why_, r_ctx, r_origin); return 1; } } while (0)

static struct prf r_prf;
static char (*r_name)[64];        /* the name given to each row ("" none) */
static long r_n;
static const char *r_open(long n)
{
	memset(&r_prf, 0x5a, sizeof(r_prf)); n_err = 0;
	/* the path already holds an older, longer file: opening must start the output afresh */
	{ FILE *o = fopen(R_PATH, "w"); if (o) { for (int i = 0; i < 400; i++) fputs("STALE LINE OF A PREVIOUS RUN\n", o); fclose(o); } }
	int r = prf_open(&r_prf, R_PATH, n);
	if (r != 0) FAILF("prf_open(\"%s\", %ld rows) returned %d although the file can be created", R_PATH, n, r);
	if (r_prf.nrows != n || r_prf.f == NULL || (n > 0 && r_prf.rows == NULL)) FAILF("prf_open(%ld rows) recorded nrows=%ld f=%p rows=%p", n, r_prf.nrows, (void *) r_prf.f, (void *) r_prf.rows);
	for (long k = 0; k < n; k++) if (r_prf.rows[k].set != 0) FAILF("prf_open(%ld rows): row %ld already has a name", n, k);
	free(r_name); r_name = calloc((size_t) n + 1, sizeof(*r_name)); r_n = n;
	return NULL;
}
static const char *r_name_row(long k, const char *tag)
{
	char lab[64]; snprintf(lab, sizeof(lab), "%s %ld.%ld", tag, k / 7, k);
	int r = prf_add(&r_prf, k, lab);
	if (r != 0) FAILF("prf_add(row %ld of %ld, \"%s\") refused although the row has no name yet", k, r_n, lab);
	strcpy(r_name[k], lab);
	return NULL;
}
/* close and compare; all_named: what the specification expects prf_close to answer */
static const char *r_close_and_check(int all_named)
{
	int e0 = n_err;
	int r = prf_close(&r_prf);
	if (r != 0 && r != -1) FAILF("prf_close returned %d", r);
	if ((r == 0) != (all_named != 0)) FAILF("prf_close %s; specified: accepted exactly when every one of the %ld declared rows has a name", r == 0 ? "accepted a table with an unnamed row" : "refused a table whose rows are all named", r_n);
	if (r != 0 && n_err == e0) FAILF("prf_close refused without a diagnostic");
	if (r != 0) fflush(r_prf.f);
	FILE *f = fopen(R_PATH, "r");
	if (f == NULL) FAILF("the .row file cannot be read back");
	char line[1024]; long ln = 0, bad = -1; char badline[160] = "";
	static const char *fixed[] = { "LEVEL NODE SIZE 1\n", "hostname\n", "\n" };
	while (fgets(line, sizeof(line), f) != NULL) {
		char want[1024];
		if (ln < 3) snprintf(want, sizeof(want), "%s", fixed[ln]);
		else if (ln == 3) snprintf(want, sizeof(want), "LEVEL THREAD SIZE %ld\n", r_n);
		else if (ln - 4 < r_n) snprintf(want, sizeof(want), "%s\n", r_name[ln - 4]);
		else want[0] = 0;
		if (bad < 0 && strcmp(line, want) != 0) { bad = ln; snprintf(badline, sizeof(badline), "%.60s| specified |%.60s", line, want); for (char *p = badline; *p; p++) if (*p == '\n') *p = '$'; }
		ln++;
	}
	fclose(f);
	if (r != 0) { if (ln != 0) FAILF("prf_close refused but wrote %ld lines", ln); return NULL; }
	if (bad >= 0) FAILF("line %ld of the .row file is |%s| (declared rows %ld)", bad + 1, badline, r_n);
	if (ln != 4 + r_n) FAILF("the .row file has %ld lines, i.e. %ld row names; the trace declares %ld rows", ln, ln - 4, r_n);
	return NULL;
}

#if REPLAY_OP == 0
#ifndef W_INDEX
#define W_INDEX 1
#endif
#ifndef W_NROWS
#define W_NROWS 3
#endif
#ifndef W_SET
#define W_SET 0
#endif
static const char *scenario(long n, long index, int set, int lablen)
{
	snprintf(r_ctx, sizeof(r_ctx), "prf_open(%ld rows); every other row named; %sprf_add(row %ld, label of %d characters); prf_close", n, set ? "prf_add(same row); " : "", index, lablen);
	const char *why = r_open(n); if (why) return why;
	int inr = index >= 0 && index < n;
	for (long k = 0; k < n; k++) if (k != index) { why = r_name_row(k, "TH"); if (why) return why; }
	if (set && inr) { why = r_name_row(index, "FIRST"); if (why) return why; }
	static char label[2048];
	memset(label, 'x', sizeof(label)); memcpy(label, "CPU ", 4); label[lablen] = 0;
	int e0 = n_err;
	int r = prf_add(&r_prf, index, label);
	int legal = inr && !set && lablen < MAX_PRF_LABEL;
	if (r != 0 && r != -1) FAILF("prf_add returned %d", r);
	if ((r == 0) != legal) FAILF("prf_add %s; specified: accepted exactly when the row is inside the %ld declared rows, has no name yet and the label fits %d bytes (row %ld, %s, label of %d characters)",
		r == 0 ? "accepted" : "refused", n, MAX_PRF_LABEL, index, set && inr ? "already named" : "not named", lablen);
	if (r != 0 && n_err == e0) FAILF("prf_add refused without a diagnostic");
	if (r == 0) { if (r_prf.rows[index].set != 1 || strcmp(r_prf.rows[index].label, label) != 0) FAILF("prf_add accepted but row %ld is not named with the label", index); snprintf(r_name[index], sizeof(r_name[index]), "%s", label); }
	if (r != 0 && inr && set && (r_prf.rows[index].set != 1 || strcmp(r_prf.rows[index].label, r_name[index]) != 0)) FAILF("a refused prf_add changed the name of row %ld (no overwrite)", index);
	if (r != 0 && inr && !set && r_prf.rows[index].set != 0) FAILF("a refused prf_add marked row %ld as named", index);
	for (long k = 0; k < n; k++) if (k != index && (r_prf.rows[k].set != 1 || strcmp(r_prf.rows[k].label, r_name[k]) != 0)) FAILF("prf_add(row %ld) changed row %ld", index, k);
	int all = !inr || set || r == 0;
	if (lablen >= (int) sizeof(r_name[0]) && r == 0) {   /* long accepted label: compare only the closed file's shape */
		if (prf_close(&r_prf) != 0) FAILF("prf_close refused a table whose rows are all named");
		return NULL;
	}
	return r_close_and_check(all);
}
/* native table size and index for a witness (nrows, index) */
static void scale(long nrows, long index, long *n, long *i)
{
	if (nrows < 0) nrows = 0;
	*n = nrows > 8 ? 8 : nrows;
	if (index < 0) *i = index < -3 ? -3 : index;
	else if (index >= nrows) *i = *n + (index - nrows > 2 ? 2 : index - nrows);
	else if (index == nrows - 1) *i = *n - 1;
	else *i = index > *n - 2 ? (*n >= 2 ? *n - 2 : 0) : index;
}
int main(void)
{
	long n, i;
	scale((long) (W_NROWS), (long) (W_INDEX), &n, &i);
	static const int lens[] = { 5, MAX_PRF_LABEL - 1, MAX_PRF_LABEL, MAX_PRF_LABEL + 90 };
	for (int l = 0; l < 4; l++) RUN(scenario(n, i, (W_SET) != 0, lens[l]));
	r_origin = "tried after the witness";
	long cnt = 0;
	for (long nn = 0; nn <= 4; nn++) for (long ii = -2; ii <= nn + 1; ii++) for (int set = 0; set < 2; set++) for (int l = 0; l < 4; l++) { cnt++; RUN(scenario(nn, ii, set, lens[l])); }
	printf("not reproduced: prf_add behaves as specified on the witness (row %ld of %ld, scaled to %ld of %ld) and on %ld tables; the .row files name every row once, in order\n",
		(long) (W_INDEX), (long) (W_NROWS), i, n, cnt);
	return 0;
}
#endif

#if REPLAY_OP == 1
#ifndef W_NROWS
#define W_NROWS 3
#endif
static const char *scenario(long n, long unnamed)
{
	snprintf(r_ctx, sizeof(r_ctx), "prf_open(%ld rows); prf_add for every row%s; prf_close", n, unnamed >= 0 ? " but one" : "");
	const char *why = r_open(n); if (why) return why;
	for (long k = n - 1; k >= 0; k--) if (k != unnamed) { why = r_name_row(k, "CPU"); if (why) return why; }   /* any order of naming */
	return r_close_and_check(unnamed < 0 || unnamed >= n);
}
int main(void)
{
	long n = (long) (W_NROWS); if (n < 0) n = 0; if (n > R_MAXROWS) n = R_MAXROWS;
	RUN(scenario(n, -1));
	if (n > 0) { RUN(scenario(n, 0)); RUN(scenario(n, n - 1)); RUN(scenario(n, n / 2)); }
	r_origin = "tried after the witness";
	long cnt = 0;
	for (long nn = 0; nn <= 6; nn++) for (long u = -1; u < nn; u++) { cnt++; RUN(scenario(nn, u)); }
	RUN(scenario(1000, -1)); RUN(scenario(1000, 999));
	{	/* a file that cannot be created is refused with a diagnostic */
		struct prf q; int e0 = n_err;
		int r = prf_open(&q, "replay-no-such-directory/x.row", 3);
		if (r != -1 || n_err == e0) { printf("REPRODUCED prf_open on a path that cannot be created returned %d with %d diagnostics, specified -1 with a diagnostic [tried after the witness]\n", r, n_err - e0); return 1; }
	}
	printf("not reproduced: prf_open / prf_close behave as specified on the witness (%ld rows) and on %ld tables; the .row files name exactly the declared rows, in order\n", n, cnt + 2);
	return 0;
}
#endif
