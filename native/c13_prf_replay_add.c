#define REPLAY_OP 0
#include "c13_prf_replay.h"
