#define REPLAY_OP 'w'
#include "c04_event_replay.h"
