/* C20 native END-TO-END replay of the breakdown view: the REAL src/emu/{nosv,nanos6}/breakdown.c
 * (model_*_breakdown_create, create_cpu, check_thread_metadata, model_*_breakdown_connect, connect_cpu, select_tr,
 * select_idle, model_*_breakdown_finish) with the REAL sort.c (sort_init, sort_set_input, sort_get_output,
 * sort_cb_input, sort_replace), mux.c, chan.c, bay.c, task.c (task types), recorder.c, pv/pvt.c, pv/prv.c, pv/pcf.c,
 * pv/prf.c, extend.c and parson.c in ONE program.  Define REPLAY_NANOS6 for the nanos6 copy.  The machinery of
 * native/c13_system_replay.c (includes, .prv/.pcf/.row parsers, well-formedness of a trace) is reused by including
 * that file with its main() renamed.  No input witness is needed (the failed obligations of the groups served --
 * g3_sort_set_input, g3_sort_get_output, g3_breakdown_create_*, g3_breakdown_finish_* -- are call-log clauses of
 * stubs): the driver runs finite sessions.
 *
 * Session: a system of NC CPUs in list order (physical CPUs and one virtual CPU per loom, 1 or 2 looms), two
 * processes with task types, threads whose REAL stream.json says <model>.can_breakdown; breakdown_create makes the
 * "<model>-breakdown" trace, the sort module and the per-CPU channels; breakdown_connect wires them; a script
 * changes the subsystem / task type / idle channels of the CPUs at increasing clocks through the real patch bay
 * (a task type changes only together with the subsystem: the other case is known finding F-C20-1);
 * breakdown_finish labels the trace; recorder_finish closes it.  The three files are parsed and the statement is
 * evaluated:
 *   at every instant the rows contain exactly the multiset of the per-physical-CPU breakdown values (task type
 *   while in a task body, otherwise the subsystem, replaced by the idle state when the CPU is not progressing), in
 *   non-decreasing order from the first row to the last; (C13) the trace is well-formed, every value printed has
 *   the label of the subsystem / idle state / task type it stands for, one row per physical CPU ("~CPU n").
 * (timeline of a row at time t = the last line written for it at a time <= t, 0 before the first.)
 * Also: with the breakdown disabled nothing is created; a thread whose metadata lacks / denies can_breakdown is
 * refused (nosv); sort_set_input refuses an input that is already connected; sort_get_output(i) is output i.
 * Linked with -Wl,--unresolved-symbols=ignore-all.  exit 0: as specified; exit 1: REPRODUCED. */
#define main c13_system_replay_main
#include "c13_system_replay.c"
#undef main
#include "parson.c"
#undef sscanf
#include "mux.c"
#include "sort.c"
#include "extend.c"
#include "task.c"
#include "emu.h"
#ifdef REPLAY_NANOS6
#include "nanos6/breakdown.c"
#define MODEL "nanos6"
#define MEMU struct nanos6_emu
#define MCPU struct nanos6_cpu
#define MPROC struct nanos6_proc
#define KEY '6'
#define CREATE model_nanos6_breakdown_create
#define CONNECT model_nanos6_breakdown_connect
#define FINISH model_nanos6_breakdown_finish
#define PRVTYPE PRV_NANOS6_BREAKDOWN
#else
#include "nosv/breakdown.c"
#define MODEL "nosv"
#define MEMU struct nosv_emu
#define MCPU struct nosv_cpu
#define MPROC struct nosv_proc
#define KEY 'V'
#define CREATE model_nosv_breakdown_create
#define CONNECT model_nosv_breakdown_connect
#define FINISH model_nosv_breakdown_finish
#define PRVTYPE PRV_NOSV_BREAKDOWN
#endif

#define B_MAXC 6
#define SS_A 20
#define SS_B 21
#define SS_C 22
static const struct pcf_value_label b_ss_labels[] = {{ST_UNKNOWN_SS, "Unknown subsystem"}, {ST_TASK_BODY, "Task: In body"}, {SS_A, "Subsystem A"}, {SS_B, "Subsystem B"}, {SS_C, "Subsystem C"}, {-1, NULL}};
static const struct pcf_value_label b_idle_labels[] = {{ST_PROGRESSING, "Progress: Progressing"}, {ST_RESTING, "Progress: Resting"}, {ST_ABSORBING, "Progress: Absorbing"}, {-1, NULL}};
static const struct pcf_value_label *b_labels[CH_MAX];
static const char *b_tt_label[3] = {"compute kernel", "halo exchange", "reduction"};
static long long b_tt_gid[3];

/* script: each step lists changes {cpu (index among the PHYSICAL CPUs), ss (0 keep), tt (0 keep, -1 null, 1..3 task type), idle (0 keep)} */
struct b_chg { int cpu, ss, tt, idle; };
struct b_step { int n; struct b_chg c[4]; };
static const struct b_step b_script[] = {
	{4, {{0, SS_A, 0, ST_PROGRESSING}, {1, SS_B, 0, ST_PROGRESSING}, {2, SS_C, 0, ST_RESTING}, {3, SS_A, 0, ST_PROGRESSING}}},
	{1, {{0, ST_TASK_BODY, 1, 0}}},
	{1, {{1, ST_TASK_BODY, 2, 0}}},
	{1, {{2, 0, 0, ST_PROGRESSING}}},
	{2, {{0, SS_C, -1, 0}, {3, ST_TASK_BODY, 3, 0}}},
	{1, {{1, 0, 0, ST_ABSORBING}}},
	{1, {{1, SS_A, -1, 0}}},
	{1, {{1, 0, 0, ST_PROGRESSING}}},
	{2, {{0, ST_TASK_BODY, 2, 0}, {2, ST_TASK_BODY, 2, 0}}},
	{1, {{3, SS_B, -1, ST_RESTING}}},
	{1, {{0, SS_A, -1, 0}}},
	{1, {{0, ST_TASK_BODY, 1, 0}}},
	{1, {{0, ST_TASK_BODY + 0, 0, ST_RESTING}}},      /* (ss unchanged: only idle) */
	{3, {{0, 0, 0, ST_PROGRESSING}, {1, SS_C, 0, 0}, {2, SS_A, -1, 0}}},
	{1, {{3, 0, 0, ST_PROGRESSING}}},
	{1, {{2, ST_TASK_BODY, -1, 0}}},                   /* in body without task type: the subsystem is shown */
	{1, {{2, SS_B, 0, 0}}},
};
#define B_NSTEPS ((int) (sizeof(b_script) / sizeof(b_script[0])))

static struct emu *b_emu; static MEMU b_memu;
static struct cpu *b_cpu[B_MAXC]; static MCPU *b_mc[B_MAXC];
static struct thread *b_th[2]; static JSON_Value *b_root[2];
static struct proc b_proc[2]; static MPROC b_mproc[2];
static struct loom b_loom[2];
static long long b_time[B_NSTEPS]; static long long b_exp[B_NSTEPS][B_MAXC];

static const char *b_tick(void)
{
	r_clock += 5;
	if (recorder_advance(&b_emu->recorder, r_clock) != 0) FAILF("recorder_advance(%lld) refused", r_clock);
	return NULL;
}
/* virtmask: which CPUs of the list are virtual; nlooms = number of virtual CPUs.  meta: 0 can_breakdown true on both threads,
 * 1 the second thread lacks it, 2 the second thread says false */
static const char *b_setup(int nc, unsigned virtmask, int enabled, int meta)
{
	mkdir(R_DIR, 0755);
	static const char *files[] = { MODEL "-breakdown.prv", MODEL "-breakdown.pcf", MODEL "-breakdown.row" };
	for (int i = 0; i < 3; i++) { char p[128]; snprintf(p, sizeof(p), R_DIR "/%s", files[i]); remove(p); }
	n_err = 0; r_clock = 0;
	b_labels[CH_SUBSYSTEM] = b_ss_labels; b_labels[CH_IDLE] = b_idle_labels;
	if (!b_emu) b_emu = calloc(1, sizeof(*b_emu));
	memset(b_emu, 0, sizeof(*b_emu)); memset(&b_memu, 0, sizeof(b_memu));
	bay_init(&b_emu->bay); b_emu->args.breakdown = enabled; extend_set(&b_emu->ext, KEY, &b_memu);
	if (recorder_init(&b_emu->recorder, R_DIR) != 0) FAILF("recorder_init refused");
	int nl = 0;
	for (int i = 0; i < nc; i++) {
		struct cpu *cpu = b_cpu[i] = calloc(1, sizeof(struct cpu)); b_mc[i] = calloc(1, sizeof(MCPU));
		int virt = (virtmask >> i) & 1;
		cpu_init_begin(cpu, virt ? -1 : i, virt ? -1 : 10 + i, virt); cpu_set_gindex(cpu, i); cpu_set_loom(cpu, &b_loom[nl < 2 ? nl : 1]);
		if (virt) nl++;
		extend_set(&cpu->ext, KEY, b_mc[i]);
		b_mc[i]->m.track = calloc(CH_MAX, sizeof(struct track)); b_mc[i]->m.bay = &b_emu->bay;
		for (int c = 0; c < CH_MAX; c++) { chan_init(&b_mc[i]->m.track[c].ch, CHAN_SINGLE, MODEL ".cpu%d.ch%d", i, c); if (bay_register(&b_emu->bay, &b_mc[i]->m.track[c].ch) != 0) FAILF("setup: bay_register failed"); }
		if (i) { b_cpu[i - 1]->next = cpu; cpu->prev = b_cpu[i - 1]; }
	}
	struct system *sys = &b_emu->system;
	sys->cpus = b_cpu[0]; sys->ncpus = (size_t) nc; sys->nlooms = (size_t) nl; sys->nphycpus = (size_t) (nc - nl);
	static const char *docs[3] = {"{\"version\":3,\"" MODEL "\":{\"can_breakdown\":true}}", "{\"version\":3,\"" MODEL "\":{\"lib_version\":2}}", "{\"version\":3,\"" MODEL "\":{\"can_breakdown\":false}}"};
	for (int k = 0; k < 2; k++) {
		struct thread *th = b_th[k] = calloc(1, sizeof(struct thread));
		if (thread_init_begin(th, 100 + k) != 0) FAILF("thread_init_begin refused");
		b_root[k] = json_parse_string(docs[k == 1 ? meta : 0]);
		if (!b_root[k]) FAILF("driver: cannot parse its own stream.json");
		th->meta = json_value_get_object(b_root[k]); thread_set_gindex(th, k);
		memset(&b_proc[k], 0, sizeof(b_proc[k])); memset(&b_mproc[k], 0, sizeof(b_mproc[k])); b_proc[k].pid = 900 + k; b_proc[k].gindex = k;
		thread_set_proc(th, &b_proc[k]); extend_set(&b_proc[k].ext, KEY, &b_mproc[k]);
		if (k) { b_th[0]->gnext = th; th->gprev = b_th[0]; b_proc[0].gnext = &b_proc[1]; b_proc[1].gprev = &b_proc[0]; }
	}
	sys->threads = b_th[0]; sys->nthreads = 2; sys->procs = &b_proc[0]; sys->nprocs = 2;
	/* task types: process 0 knows types 1, 2; process 1 knows types 2 (same label: same gid), 3 */
	if (task_type_create(&b_mproc[0].task_info, 1, b_tt_label[0]) != 0 || task_type_create(&b_mproc[0].task_info, 2, b_tt_label[1]) != 0 ||
		task_type_create(&b_mproc[1].task_info, 7, b_tt_label[1]) != 0 || task_type_create(&b_mproc[1].task_info, 3, b_tt_label[2]) != 0) FAILF("task_type_create refused");
	for (int i = 0; i < 3; i++) b_tt_gid[i] = task_get_type_gid(b_tt_label[i]);
	return NULL;
}
static void b_teardown(void) { for (int k = 0; k < 2; k++) if (b_root[k]) { json_value_free(b_root[k]); b_root[k] = NULL; } }

static const char *b_value_label(long long v)
{
	for (const struct pcf_value_label *l = b_ss_labels; l->label; l++) if (l->value == v) return l->label;
	for (const struct pcf_value_label *l = b_idle_labels; l->label; l++) if (l->value == v) return l->label;
	for (int i = 0; i < 3; i++) if (b_tt_gid[i] == v) return b_tt_label[i];
	return NULL;
}
static long long b_row_at(const struct r_prv *v, long row, long long t)
{
	long long val = 0;
	for (int i = 0; i < v->n && i < R_MAXL; i++) if (v->row[i] == row && v->type[i] == PRVTYPE && v->time[i] <= t) val = v->val[i];
	return val;
}
static const char *b_session(int nc, unsigned virtmask)
{
	const char *why;
	int phy[B_MAXC], np = 0; for (int i = 0; i < nc; i++) if (!((virtmask >> i) & 1)) phy[np++] = i;
	snprintf(r_ctx, sizeof(r_ctx), MODEL ": CPU list of %d (virtual mask 0x%x: %d physical CPUs); breakdown_create, breakdown_connect, %d scripted steps on subsystem / task type / idle, breakdown_finish, recorder_finish", nc, virtmask, np, B_NSTEPS);
	if ((why = b_setup(nc, virtmask, 1, 0))) return why;
	if (CREATE(b_emu) != 0) FAILF("breakdown_create refused a well-formed system (%d diagnostics)", n_err);
	if (b_memu.breakdown.nphycpus != np) FAILF("breakdown_create counts %lld physical CPUs, the system has %d (all CPUs minus one virtual CPU per loom)", (long long) b_memu.breakdown.nphycpus, np);
	if (b_memu.breakdown.pvt == NULL || recorder_find_pvt(&b_emu->recorder, MODEL "-breakdown") != b_memu.breakdown.pvt) FAILF("breakdown_create did not create the trace \"" MODEL "-breakdown\"");
	if (b_memu.breakdown.sort.n != np) FAILF("the sort module has %lld inputs, specified one per physical CPU (%d)", (long long) b_memu.breakdown.sort.n, np);
	for (int k = 0; k < np; k++) {
		if (sort_get_output(&b_memu.breakdown.sort, k) != &b_memu.breakdown.sort.outputs[k]) FAILF("sort_get_output(%d) is not output %d of the sort module", k, k);
		char nm[128]; snprintf(nm, sizeof(nm), MODEL ".cpu%d.breakdown.tri", phy[k]);
		if (bay_find(&b_emu->bay, nm) != &b_mc[phy[k]]->breakdown.tri) FAILF("the breakdown channel %s of physical CPU %d is not registered in the patch bay", nm, phy[k]);
		snprintf(nm, sizeof(nm), MODEL ".cpu%d.breakdown.tr", phy[k]);
		if (bay_find(&b_emu->bay, nm) != &b_mc[phy[k]]->breakdown.tr) FAILF("the breakdown channel %s of physical CPU %d is not registered in the patch bay", nm, phy[k]);
	}
	if (CONNECT(b_emu) != 0) FAILF("breakdown_connect refused (%d diagnostics)", n_err);
	for (int k = 0; k < np; k++) {
		struct sort_input *in = &b_memu.breakdown.sort.inputs[k];
		if (in->chan != &b_mc[phy[k]]->breakdown.tri || in->index != k || in->sort != &b_memu.breakdown.sort) FAILF("input %d of the sort module is not the breakdown value of the %d-th physical CPU", k, k);
	}
	{	/* an input that is already connected is refused, and nothing changes */
		static struct chan other; chan_init(&other, CHAN_SINGLE, "a5replay.other");
		struct sort_input before = b_memu.breakdown.sort.inputs[0]; int e0 = n_err;
		if (sort_set_input(&b_memu.breakdown.sort, 0, &other) == 0) FAILF("sort_set_input accepted a second channel for input 0");
		if (n_err == e0 || memcmp(&before, &b_memu.breakdown.sort.inputs[0], sizeof(before)) != 0) FAILF("sort_set_input refused a connected input silently or after changing it");
	}
	/* ---- the script ---- */
	long long ss[B_MAXC] = {0}, tt[B_MAXC] = {0}, idle[B_MAXC] = {0};
	for (int s = 0; s < B_NSTEPS; s++) {
		if ((why = b_tick())) return why;
		for (int j = 0; j < b_script[s].n; j++) {
			const struct b_chg *c = &b_script[s].c[j];
			if (c->cpu >= np) continue;
			MCPU *mc = b_mc[phy[c->cpu]]; int r = 0;
			if (c->ss && c->ss != ss[c->cpu]) { r |= chan_set(&mc->m.track[CH_SUBSYSTEM].ch, value_int64(c->ss)); ss[c->cpu] = c->ss; }
			if (c->tt) { long long nt = c->tt < 0 ? 0 : b_tt_gid[c->tt - 1]; if (nt != tt[c->cpu]) { r |= chan_set(&mc->m.track[CH_TYPE].ch, nt ? value_int64(nt) : value_null()); tt[c->cpu] = nt; } }
			if (c->idle && c->idle != idle[c->cpu]) { r |= chan_set(&mc->m.track[CH_IDLE].ch, value_int64(c->idle)); idle[c->cpu] = c->idle; }
			if (r != 0) FAILF("step %d: a channel write was refused", s);
		}
		if (bay_propagate(&b_emu->bay) != 0) FAILF("step %d of the script: the propagation through the muxes / sort module / trace failed (%d diagnostics)", s, n_err);
		b_time[s] = r_clock;
		long long v[B_MAXC];
		for (int k = 0; k < np; k++) {
			long long tr = (ss[k] == ST_TASK_BODY && tt[k]) ? tt[k] : (ss[k] ? ss[k] : ST_UNKNOWN_SS);
			v[k] = idle[k] == ST_PROGRESSING ? tr : idle[k];
		}
		for (int a = 0; a < np; a++) for (int b = a + 1; b < np; b++) if (v[a] > v[b]) { long long t = v[a]; v[a] = v[b]; v[b] = t; }
		for (int k = 0; k < np; k++) b_exp[s][k] = v[k];
	}
	if ((why = b_tick())) return why;
	if (FINISH(b_emu, b_labels) != 0) FAILF("breakdown_finish refused (%d diagnostics)", n_err);
	if (recorder_finish(&b_emu->recorder) != 0) FAILF("recorder_finish refused (a row without name?)");
	/* ---- the statement, on the files ---- */
	static const int state_types[1] = {PRVTYPE};
	if ((why = check_trace(MODEL "-breakdown", np, r_clock, state_types, 1))) return why;
	for (int i = 0; i < r_prvf.n && i < R_MAXL; i++) if (r_prvf.type[i] != PRVTYPE) FAILF(MODEL "-breakdown.prv: line %d has type %lld, the breakdown type is %d", i + 2, r_prvf.type[i], (int) PRVTYPE);
	for (int s = 0; s < B_NSTEPS; s++) {
		for (int k = 0; k < np; k++) {
			long long got = b_row_at(&r_prvf, k + 1, b_time[s]);
			if (got != b_exp[s][k]) {
				static char rows[200], want[200]; rows[0] = want[0] = 0;
				for (int q = 0; q < np; q++) { snprintf(rows + strlen(rows), sizeof(rows) - strlen(rows), " %lld", b_row_at(&r_prvf, q + 1, b_time[s])); snprintf(want + strlen(want), sizeof(want) - strlen(want), " %lld", b_exp[s][q]); }
				FAILF(MODEL "-breakdown.prv: after step %d (time %lld) the rows hold [%s ], specified [%s ]: the sorted multiset of the per-CPU values (task type in a body, else the subsystem, the idle state when not progressing)", s, b_time[s], rows, want);
			}
		}
	}
	int pi = pcf_type_index(&r_pcff, PRVTYPE);
	if (pi < 0) FAILF(MODEL "-breakdown.pcf does not declare the breakdown type %d", (int) PRVTYPE);
	for (int i = 0; i < r_prvf.n && i < R_MAXL; i++) if (r_prvf.val[i] != 0) {
		const char *lab = pcf_value_label(&r_pcff, pi, r_prvf.val[i]), *want = b_value_label(r_prvf.val[i]);
		if (want == NULL) FAILF(MODEL "-breakdown.prv prints %lld, which is neither a subsystem, an idle state nor a task type of the session", r_prvf.val[i]);
		if (lab == NULL || strcmp(lab, want) != 0) FAILF(MODEL "-breakdown.pcf labels value %lld \"%s\", it stands for \"%s\"", r_prvf.val[i], lab ? lab : "(no label)", want);
	}
	for (const struct pcf_value_label *l = b_ss_labels; l->label; l++) { const char *lab = pcf_value_label(&r_pcff, pi, l->value); if (!lab || strcmp(lab, l->label) != 0) FAILF(MODEL "-breakdown.pcf: subsystem value %d is labelled \"%s\", specified \"%s\"", l->value, lab ? lab : "(no label)", l->label); }
	for (const struct pcf_value_label *l = b_idle_labels; l->label; l++) { const char *lab = pcf_value_label(&r_pcff, pi, l->value); if (!lab || strcmp(lab, l->label) != 0) FAILF(MODEL "-breakdown.pcf: idle value %d is labelled \"%s\", specified \"%s\"", l->value, lab ? lab : "(no label)", l->label); }
	for (int i = 0; i < 3; i++) { const char *lab = pcf_value_label(&r_pcff, pi, b_tt_gid[i]); if (!lab || strcmp(lab, b_tt_label[i]) != 0) FAILF(MODEL "-breakdown.pcf: task type \"%s\" (value %lld) is labelled \"%s\" (the task types of EVERY process are declared)", b_tt_label[i], b_tt_gid[i], lab ? lab : "(no label)"); }
	if (r_pcff.nv[pi] != 5 + 3 + 3) FAILF(MODEL "-breakdown.pcf declares %d values for the breakdown type, specified %d (subsystems, idle states, task types, each once)", r_pcff.nv[pi], 5 + 3 + 3);
	for (int k = 0; k < np; k++) { char nm[64]; snprintf(nm, sizeof(nm), "~CPU %4d", np - k); if (strcmp(r_rowf.name[k], nm) != 0) FAILF(MODEL "-breakdown.row: row %d is \"%s\", specified \"%s\"", k + 1, r_rowf.name[k], nm); }
	b_teardown();
	return NULL;
}
static const char *b_disabled(void)
{
	const char *why;
	snprintf(r_ctx, sizeof(r_ctx), MODEL ": breakdown not requested");
	if ((why = b_setup(3, 0x4, 0, 0))) return why;
	if (CREATE(b_emu) != 0 || CONNECT(b_emu) != 0 || FINISH(b_emu, b_labels) != 0) FAILF("a breakdown call fails although the breakdown was not requested");
	if (recorder_find_pvt(&b_emu->recorder, MODEL "-breakdown") != NULL || b_memu.breakdown.pvt != NULL || b_memu.breakdown.sort.n != 0) FAILF("a breakdown trace / sort module was created although the breakdown was not requested");
	b_teardown();
	return NULL;
}
#ifndef REPLAY_NANOS6
static const char *b_badmeta(int meta)
{
	const char *why;
	snprintf(r_ctx, sizeof(r_ctx), MODEL ": the second thread's metadata %s " MODEL ".can_breakdown", meta == 1 ? "lacks" : "says false for");
	if ((why = b_setup(3, 0x4, 1, meta))) return why;
	n_err = 0;
	if (CREATE(b_emu) == 0) FAILF("breakdown_create ACCEPTED a trace in which a thread %s can_breakdown, specified: refused", meta == 1 ? "lacks" : "denies");
	if (n_err == 0) FAILF("breakdown_create refused without any error message");
	b_teardown();
	return NULL;
}
#endif
int main(void)
{
	setvbuf(stdout, NULL, _IONBF, 0);
	r_origin = "finite corpus, no witness needed";
	static const struct { int nc; unsigned vm; } sys[] = {{5, 0x10}, {5, 0x12}, {4, 0x8}, {3, 0x4}, {2, 0x2}, {6, 0x24}, {3, 0x2}};
	for (unsigned i = 0; i < sizeof(sys) / sizeof(sys[0]); i++) RUN(b_session(sys[i].nc, sys[i].vm));
	RUN(b_disabled());
#ifndef REPLAY_NANOS6
	RUN(b_badmeta(1)); RUN(b_badmeta(2));
#endif
	printf("not reproduced: " MODEL " breakdown rows hold the sorted per-CPU breakdown values with their labels on %d systems\n", (int) (sizeof(sys) / sizeof(sys[0])));
	return 0;
}
