#include "c01_replay_common.h"
int main(void)
{
	setup();
	struct ovni_ev ev; memset(&ev, 0, sizeof(ev));
	for (size_t i = 0; i < sizeof(ev); i++) ((unsigned char *) &ev)[i] = (unsigned char) (0xa0 + i);
	ev.header.flags = (uint8_t) ((W_FLAGS) & ~OVNI_EV_JUMBO);
	int n = ev.header.flags & 0x0f;
	size_t size = 12 + (n ? n + 1 : 0);
	int flushed = L0_len + size >= r_cap;
	exp_add(&ev, size);
	ovni_ev_add(&ev);
	return compare(flushed, "ovni_ev_add");
}
