#define REPLAY_OP 4
#include "c03_heap_replay.h"
