#define REPLAY_OP 1
#include "c16_sort_replay.h"
