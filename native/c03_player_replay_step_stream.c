#define REPLAY_OP 5
#include "c03_player_replay.h"
