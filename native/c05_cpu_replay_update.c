#define REPLAY_OP 0
#include "c05_cpu_replay.h"
