#define REPLAY_OP 6
#include "c15_proc_replay.h"
