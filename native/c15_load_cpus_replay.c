/* C15 native replay of load_cpus / loom_load_metadata on the REAL src/emu/loom.c (+ cpu.c, stream.c, parson.c).
 * Witnesses: W_LN (CPUs already in the loom), W_LIDX0/W_LPHY0/W_LIDX1/W_LPHY1 (their index / physical id), W_HAS (the
 * stream has ovni.loom_cpus), W_N (entries), W_ISOBJ<k>/W_IDX<k>/W_PHY<k> (entry k is an object, its index / phyid).
 * A stream.json object is built with parson and the real loom_load_metadata runs on a loom that is NOT initialised
 * yet (no cpus_array: the state the non-ascending-index crash lived in).  Specification (statement): the CPU lists
 * of the streams of a loom merge into ONE partial bijection index <-> phyid whatever the order: accepted exactly
 * when every entry is valid (object, index >= 0, phyid >= 0) and the union with the CPUs already known pairs every
 * index with one phyid and every phyid with one index; duplicates are ignored; a refusal is diagnosed.
 * Linked with -Wl,--unresolved-symbols=ignore-all.  exit 0: as specified; exit 1: REPRODUCED. */
#include "c12_replay_common.h"
#include "parson.c"
#include "stream.c"
#include "proc.c"
#include "cpu.c"
#include "loom.c"
#ifndef W_LN
#define W_LN 1
#endif
#ifndef W_LIDX0
#define W_LIDX0 1
#endif
#ifndef W_LPHY0
#define W_LPHY0 1
#endif
#ifndef W_LIDX1
#define W_LIDX1 3
#endif
#ifndef W_LPHY1
#define W_LPHY1 7
#endif
#ifndef W_HAS
#define W_HAS 1
#endif
#ifndef W_N
#define W_N 2
#endif
#ifndef W_ISOBJ0
#define W_ISOBJ0 1
#endif
#ifndef W_IDX0
#define W_IDX0 1
#endif
#ifndef W_PHY0
#define W_PHY0 1
#endif
#ifndef W_ISOBJ1
#define W_ISOBJ1 1
#endif
#ifndef W_IDX1
#define W_IDX1 0
#endif
#ifndef W_PHY1
#define W_PHY1 0
#endif
#ifndef W_ISOBJ2
#define W_ISOBJ2 1
#endif
#ifndef W_IDX2
#define W_IDX2 2
#endif
#ifndef W_PHY2
#define W_PHY2 2
#endif
static char why[400];
struct lc_in { int ln, lidx[2], lphy[2], has, n, isobj[3], idx[3], phy[3]; };
#define COMPAT(i1, p1, i2, p2) (((i1) == (i2)) == ((p1) == (p2)))
static int lc_case(const struct lc_in *w)
{
	static struct loom loom; static struct stream s; memset(&loom, 0, sizeof(loom)); memset(&s, 0, sizeof(s));
	strcpy(loom.name, "loom.replay"); loom.id = loom.name; loom.vcpu.index = -1; loom.vcpu.phyid = -1; loom.vcpu.is_virtual = 1;
	struct cpu *old[2] = {NULL, NULL};
	for (int j = 0; j < w->ln; j++) {
		old[j] = calloc(1, sizeof(struct cpu)); cpu_init_begin(old[j], w->lidx[j], w->lphy[j], 0);
		if (loom_add_cpu(&loom, old[j]) != 0) { snprintf(why, sizeof(why), "setup: loom_add_cpu refused"); return 1; }
	}
	JSON_Value *root = json_value_init_object(); JSON_Object *meta = json_value_get_object(root);
	json_object_set_number(meta, "version", 3);
	if (w->has) {
		JSON_Value *av = json_value_init_array(); JSON_Array *a = json_value_get_array(av);
		for (int k = 0; k < w->n; k++) {
			if (!w->isobj[k]) { json_array_append_number(a, 5.0); continue; }
			JSON_Value *cv = json_value_init_object(); JSON_Object *c = json_value_get_object(cv);
			json_object_set_number(c, "index", (double) w->idx[k]); json_object_set_number(c, "phyid", (double) w->phy[k]);
			json_array_append_value(a, cv);
		}
		json_object_dotset_value(meta, "ovni.loom_cpus", av);
	}
	s.meta = meta; strcpy(s.relpath, "replay/thread.1");
	int legal = w->n > 0, nnew = 0;
	for (int k = 0; k < w->n; k++) {
		if (!(w->isobj[k] && w->idx[k] >= 0 && w->phy[k] >= 0)) legal = 0;
		for (int j = 0; j < w->ln; j++) if (!COMPAT(w->idx[k], w->phy[k], w->lidx[j], w->lphy[j])) legal = 0;
		for (int j = 0; j < k; j++) if (!COMPAT(w->idx[k], w->phy[k], w->idx[j], w->phy[j])) legal = 0;
		int isnew = 1;
		for (int j = 0; j < w->ln; j++) if (w->lphy[j] == w->phy[k]) isnew = 0;
		for (int j = 0; j < k; j++) if (w->phy[j] == w->phy[k]) isnew = 0;
		nnew += isnew;
	}
	n_err = 0;
	int r = loom_load_metadata(&loom, &s);
	int bad = 0;
	if (r != 0 && r != -1) { snprintf(why, sizeof(why), "loom_load_metadata returned %d", r); bad = 1; }
	else if ((r == 0) != (!w->has || legal)) { snprintf(why, sizeof(why), "loom_load_metadata returned %d but the union of the loom's CPUs and the stream's CPU list is %s", r, (!w->has || legal) ? "a valid partial bijection index <-> phyid (must be accepted)" : "NOT a valid partial bijection (an index with two physical ids, a physical id with two indices, or an invalid entry: must be refused)"); bad = 1; }
	else if (r != 0 && n_err == 0) { snprintf(why, sizeof(why), "refused without a diagnostic"); bad = 1; }
	else if (!w->has && loom.ncpus != (size_t) w->ln) { snprintf(why, sizeof(why), "a stream without CPU list changed the loom"); bad = 1; }
	else if (r == 0 && w->has) {
		if (loom.ncpus != (size_t) (w->ln + nnew) || HASH_COUNT(loom.cpus) != (unsigned) (w->ln + nnew)) { snprintf(why, sizeof(why), "the loom has %zu CPUs, specified %d (exactly the new physical ids are added, duplicates ignored)", loom.ncpus, w->ln + nnew); bad = 1; }
		for (int k = 0; k < w->n && !bad; k++) { struct cpu *c = loom_find_cpu(&loom, w->phy[k]); if (!c || c->index != w->idx[k] || c->phyid != w->phy[k] || c->is_virtual) { snprintf(why, sizeof(why), "accepted but CPU (index %d, phyid %d) is not in the loom with exactly that pairing", w->idx[k], w->phy[k]); bad = 1; } }
	}
	for (int j = 0; j < w->ln && !bad; j++) if (old[j]->index != w->lidx[j] || old[j]->phyid != w->lphy[j] || loom_find_cpu(&loom, w->lphy[j]) != old[j]) { snprintf(why, sizeof(why), "a CPU the loom already had was modified or lost"); bad = 1; }
	if (!bad && (loom.is_init || loom.cpus_array != NULL)) { snprintf(why, sizeof(why), "the loom was initialised by load_cpus"); bad = 1; }
	struct cpu *c, *t; HASH_ITER(hh, loom.cpus, c, t) { HASH_DEL(loom.cpus, c); free(c); }
	json_value_free(root);
	return bad;
}
static void lc_show(const struct lc_in *w)
{
	printf(" [loom CPUs (index:phyid):"); for (int j = 0; j < w->ln; j++) printf(" %d:%d", w->lidx[j], w->lphy[j]);
	printf("; stream %s", w->has ? "ovni.loom_cpus:" : "without CPU list");
	if (w->has) for (int k = 0; k < w->n; k++) { if (w->isobj[k]) printf(" %d:%d", w->idx[k], w->phy[k]); else printf(" <not an object>"); }
	printf("]\n");
}
int main(void)
{
	setvbuf(stdout, NULL, _IONBF, 0);
	struct lc_in w = {(W_LN), {(W_LIDX0), (W_LIDX1)}, {(W_LPHY0), (W_LPHY1)}, (W_HAS) != 0, (W_N), {(W_ISOBJ0) != 0, (W_ISOBJ1) != 0, (W_ISOBJ2) != 0}, {(W_IDX0), (W_IDX1), (W_IDX2)}, {(W_PHY0), (W_PHY1), (W_PHY2)}};
	if (w.ln < 0) w.ln = 0; if (w.ln > 2) w.ln = 2; if (w.n < 0) w.n = 0; if (w.n > 3) w.n = 3;
	int pre = 1; for (int j = 0; j < w.ln; j++) if (w.lidx[j] < 0 || w.lphy[j] < 0) pre = 0;
	if (w.ln == 2 && (w.lidx[0] == w.lidx[1] || w.lphy[0] == w.lphy[1])) pre = 0;
	if (pre && lc_case(&w)) { printf("REPRODUCED %s", why); lc_show(&w); return 1; }
	/* neighbourhood: index / phyid in {-1,0,1,2}, every shape */
	static const int lo[3][2][2] = {{{0, 0}, {0, 0}}, {{1, 1}, {0, 0}}, {{1, 1}, {0, 2}}};   /* (index, phyid) of the loom's CPUs */
	for (int ln = 0; ln <= 2; ln++) for (int has = 1; has >= 0; has--) for (int n = 0; n <= 3; n++) for (int x = 0; x < 4096; x++) for (int ob = 0; ob < 2; ob++) {
		struct lc_in v; memset(&v, 0, sizeof(v)); v.ln = ln; v.has = has; v.n = n;
		for (int j = 0; j < ln; j++) { v.lidx[j] = lo[ln][j][0]; v.lphy[j] = lo[ln][j][1]; }
		int y = x; for (int k = 0; k < 3; k++) { v.idx[k] = (y & 3) - 1; y >>= 2; v.phy[k] = (y & 3) - 1; y >>= 2; v.isobj[k] = !(ob && k == 1); }
		if (n < 3 && (x >> (4 * n))) break;
		if (!has && (n || x || ob)) continue;
		if (lc_case(&v)) { printf("REPRODUCED %s (found next to the witness)", why); lc_show(&v); return 1; }
	}
	printf("not reproduced: load_cpus merges CPU lists as specified on the witness and its neighbourhood;"); lc_show(&w);
	return 0;
}
