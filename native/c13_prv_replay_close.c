#define REPLAY_OP 3
#include "c13_prv_replay.h"
