#include "a5replay_c13_finish_pvt.h"
