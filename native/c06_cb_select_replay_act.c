#define THREAD_MODE 2
#include "c06_cb_select_replay.h"
