#define REPLAY_OP 'c'
#include "c04_event_replay.h"
