#define REPLAY_OP 0
#include "c17_mark_replay.h"
