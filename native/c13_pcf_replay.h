/* Native replay of a failed C13 obligation of the .pcf writer groups on the REAL src/emu/pv/pcf.c
 * (real uthash, real libc), writing a REAL file that is read back and parsed.
 * REPLAY_OP: 0 pcf_add_type; 1 pcf_add_value; 2 pcf_close / pcf_open.
 * Witness ghosts (harness/c13_pcf.c): W_ID, W_FOUND (pcf_add_type: the id, already declared);
 * W_VAL, W_FOUND, W_NVALUES (pcf_add_value: the value, already labelled, labels the type already has);
 * W_NT, W_NV1, W_NV2 (pcf_close: number of types, values of the first and second type).
 * Specification (statement: "only event types that are declared in the matching .pcf, where every
 * non-zero value printed for an emulator-defined state type has a label"; pcf.h):
 *   - pcf_add_type creates the type exactly when the id is not declared yet and the label fits
 *     MAX_PCF_LABEL; a refused call leaves the table as it was (the first declaration stays)
 *   - pcf_add_value labels the value exactly when the type has no label for it yet and the label fits;
 *     nvalues counts the labels
 *   - pcf_close writes the default header, the colour table, and one EVENT_TYPE block
 *     "0 <id> <label>" / VALUES / "<value> <label>"* per declared type: every declared type exactly
 *     once, every labelled value exactly once under its own type, with the labels given, nothing else.
 * exit 0: behaves as specified (not reproduced); exit 1: mismatch (reproduced). */
#include <unistd.h>
#include <stdio.h>
#include <stdlib.h>
#include <string.h>
#include <stdint.h>
#include <stdarg.h>
#include <limits.h>
int is_debug_enabled;
static int n_err;
void verr(const char *p, const char *f, const char *e, ...) { (void) f; (void) e; if (p && strcmp(p, "ERROR") == 0) n_err++; }
void vdie(const char *p, const char *f, const char *e, ...) { (void) p; (void) f; printf("not reproduced: the code died (%s): a legitimate refusal\n", e); exit(0); }
#include "pv/pcf.c"        /* the real /repo/src/emu/pv/pcf.c */

#define R_PATH "replay_out.pcf"
static char r_msg[1024], r_ctx[256];
static const char *r_origin = "witness";
#define FAILF(...) do { snprintf(r_msg, sizeof(r_msg), __VA_ARGS__); return r_msg; } while (0)
#define RUN(expr) do { const char *why_ = (expr); if (why_) { printf("REPRODUCED %s {session: %s} [%s]\n", why_, r_ctx, r_origin); return 1; } } while (0)

/* ---- what the driver declared (the specification's view of the table) ---- */
#define R_MAXT 8
#define R_MAXV 16
struct r_type { int id; char label[600]; int nv; int val[R_MAXV]; char vlabel[R_MAXV][600]; struct pcf_type *obj; int seen; int vseen[R_MAXV]; };
static struct r_type r_t[R_MAXT]; static int r_nt;
static struct pcf r_pcf;
static const char *r_open(void)
{
	memset(&r_pcf, 0x5a, sizeof(r_pcf)); n_err = 0; r_nt = 0; memset(r_t, 0, sizeof(r_t));
	/* the path already holds an older, longer file: opening must start the output afresh */
	{ FILE *o = fopen(R_PATH, "w"); if (o) { for (int i = 0; i < 400; i++) fputs("STALE LINE OF A PREVIOUS RUN\n", o); fclose(o); } }
	int r = pcf_open(&r_pcf, R_PATH);
	if (r != 0 || r_pcf.f == NULL || r_pcf.types != NULL) FAILF("pcf_open(\"%s\") returned %d, f=%p, types=%p", R_PATH, r, (void *) r_pcf.f, (void *) r_pcf.types);
	return NULL;
}
static struct r_type *r_find(int id) { for (int i = 0; i < r_nt; i++) if (r_t[i].id == id) return &r_t[i]; return NULL; }
/* declare a fresh type / label a fresh value: must be accepted */
static const char *r_add_type(int id, const char *label)
{
	struct pcf_type *t = pcf_add_type(&r_pcf, id, label);
	if (t == NULL) FAILF("pcf_add_type(%d, \"%s\") refused although type %d is not declared yet", id, label, id);
	struct r_type *rt = &r_t[r_nt++]; rt->id = id; snprintf(rt->label, sizeof(rt->label), "%s", label); rt->obj = t;
	return NULL;
}
static const char *r_add_value(struct r_type *rt, int v, const char *label)
{
	struct pcf_value *pv = pcf_add_value(rt->obj, v, label);
	if (pv == NULL) FAILF("pcf_add_value(type %d, %d, \"%s\") refused although the type has no label for %d yet", rt->id, v, label, v);
	rt->val[rt->nv] = v; snprintf(rt->vlabel[rt->nv], sizeof(rt->vlabel[0]), "%s", label); rt->nv++;
	return NULL;
}
static int label_off(const char *s, int width);
static const char *r_close_and_check(void)
{
	for (int i = 0; i < r_nt; i++) {
		if (pcf_find_type(&r_pcf, r_t[i].id) != r_t[i].obj) FAILF("type %d is no longer found in the table (or is another object)", r_t[i].id);
		if (r_t[i].obj->nvalues != r_t[i].nv) FAILF("type %d counts %d labels, %d were given", r_t[i].id, r_t[i].obj->nvalues, r_t[i].nv);
	}
	int r = pcf_close(&r_pcf);
	if (r != 0) FAILF("pcf_close returned %d", r);
	FILE *f = fopen(R_PATH, "r");
	if (f == NULL) FAILF("the .pcf file cannot be read back");
	char line[2048]; long ln = 0; int state = 0 /* 0 header/colours, 1 after EVENT_TYPE, 2 after the id line, 3 in VALUES */, ncol = 0, in_col = 0;
	struct r_type *cur = NULL;
	while (fgets(line, sizeof(line), f) != NULL) {
		ln++;
		size_t len = strlen(line); if (len && line[len - 1] == '\n') line[--len] = 0;
		if (ln == 1 && strcmp(line, "DEFAULT_OPTIONS") != 0) { fclose(f); FAILF("the .pcf file does not start with DEFAULT_OPTIONS but with |%.60s|", line); }
		if (strcmp(line, "STATES_COLOR") == 0 && state == 0) { in_col = 1; continue; }
		if (strcmp(line, "EVENT_TYPE") == 0) { state = 1; in_col = 0; cur = NULL; continue; }
		if (len == 0) { if (state == 3) state = 0; continue; }
		if (in_col) { int i, a, b, c; if (sscanf(line, "%d {%d, %d, %d}", &i, &a, &b, &c) != 4 || i != ncol) { fclose(f); FAILF("line %ld: malformed colour line |%.60s|", ln, line); } ncol++; continue; }
		if (state == 0) continue;    /* default header text */
		if (state == 1) {
			int zero, id, used = 0;
			if (sscanf(line, "%d %d %n", &zero, &id, &used) < 2 || zero != 0) { fclose(f); FAILF("line %ld: malformed type line |%.60s|", ln, line); }
			used = 2 + label_off(line + 2, 10); if ((size_t) used > len) used = (int) len;
			cur = r_find(id);
			if (cur == NULL) { fclose(f); FAILF("line %ld: the .pcf file declares type %d, which was never declared", ln, id); }
			if (cur->seen++) { fclose(f); FAILF("line %ld: type %d is written twice", ln, id); }
			if (strcmp(line + used, cur->label) != 0) { fclose(f); FAILF("line %ld: type %d is written with label |%.60s|, declared with |%.60s|", ln, id, line + used, cur->label); }
			state = 2; continue;
		}
		if (state == 2) { if (strcmp(line, "VALUES") != 0) { fclose(f); FAILF("line %ld: |%.60s| where VALUES was expected", ln, line); } state = 3; continue; }
		if (state == 3) {
			int v, used = 0, k;
			if (sscanf(line, "%d %n", &v, &used) < 1) { fclose(f); FAILF("line %ld: malformed value line |%.60s|", ln, line); }
			used = label_off(line, 4); if ((size_t) used > len) used = (int) len;
			for (k = 0; k < cur->nv; k++) if (cur->val[k] == v) break;
			if (k == cur->nv) { fclose(f); FAILF("line %ld: value %d is written under type %d, which has no such label", ln, v, cur->id); }
			if (cur->vseen[k]++) { fclose(f); FAILF("line %ld: value %d of type %d is written twice", ln, v, cur->id); }
			if (strcmp(line + used, cur->vlabel[k]) != 0) { fclose(f); FAILF("line %ld: value %d of type %d has label |%.60s|, given |%.60s|", ln, v, cur->id, line + used, cur->vlabel[k]); }
		}
	}
	fclose(f);
	if (ncol != pcf_palette_len) FAILF("the .pcf file has %d colour lines, the palette has %d", ncol, pcf_palette_len);
	for (int i = 0; i < r_nt; i++) {
		if (!r_t[i].seen) FAILF("declared type %d (\"%s\") is missing from the .pcf file", r_t[i].id, r_t[i].label);
		for (int k = 0; k < r_t[i].nv; k++) if (!r_t[i].vseen[k]) FAILF("value %d (\"%s\") of type %d is missing from the .pcf file", r_t[i].val[k], r_t[i].vlabel[k], r_t[i].id);
	}
	return NULL;
}
/* offset of the label in a line "<number left-justified in width columns> <label>" starting at s */
static int label_off(const char *s, int width)
{
	int n = 0;
	if (s[n] == '-') n++;
	while (s[n] >= '0' && s[n] <= '9') n++;
	return (n > width ? n : width) + 1;
}
static char r_label[2048];
static const char *mk_label(const char *prefix, int len)
{
	memset(r_label, 'y', sizeof(r_label)); memcpy(r_label, prefix, strlen(prefix));
	if (len < (int) strlen(prefix)) len = (int) strlen(prefix);
	r_label[len] = 0;
	return r_label;
}
/* an int different from v, the k-th one */
static int other(int v, int k) { long o = (long) v + 1 + k; if (o > INT_MAX) o = (long) v - 1 - k; return (int) o; }

#if REPLAY_OP == 0
#ifndef W_ID
#define W_ID 7
#endif
#ifndef W_FOUND
#define W_FOUND 0
#endif
static const char *scenario(int id, int found, int lablen)
{
	snprintf(r_ctx, sizeof(r_ctx), "pcf_open; two other types declared; %spcf_add_type(%d, label of %d characters); one value labelled; pcf_close", found ? "pcf_add_type(same id); " : "", id, lablen);
	const char *why = r_open(); if (why) return why;
	if ((why = r_add_type(other(id, 0), "Other type A")) || (why = r_add_type(other(id, 1), "Other type B"))) return why;
	if (found && (why = r_add_type(id, "First declaration"))) return why;
	struct pcf_type *before = pcf_find_type(&r_pcf, id);
	const char *label = mk_label("Thread: state ", lablen);
	int e0 = n_err;
	struct pcf_type *t = pcf_add_type(&r_pcf, id, label);
	int legal = !found && lablen < MAX_PCF_LABEL;
	if ((t != NULL) != legal) FAILF("pcf_add_type(%d) %s; specified: created exactly when the id is not declared yet and the label fits %d bytes (id %s, label of %d characters)",
		id, t ? "created a type" : "refused", MAX_PCF_LABEL, found ? "already declared" : "not declared", lablen);
	if (t == NULL && n_err == e0) FAILF("pcf_add_type(%d) refused without a diagnostic", id);
	if (t != NULL) {
		if (t->id != id || t->nvalues != 0 || t->values != NULL || strcmp(t->label, label) != 0) FAILF("the new type has id %d, %d values; specified id %d, no values, the given label", t->id, t->nvalues, id);
		struct r_type *rt = &r_t[r_nt++]; rt->id = id; snprintf(rt->label, sizeof(rt->label), "%s", label); rt->obj = t;
	} else if (pcf_find_type(&r_pcf, id) != before) FAILF("a refused pcf_add_type(%d) changed what the table holds for that id", id);
	struct r_type *rt = r_find(id);
	if (rt && (why = r_add_value(rt, 1, "Running"))) return why;
	if ((why = r_add_value(&r_t[0], 1, "Label under another type"))) return why;
	return r_close_and_check();
}
int main(void)
{
	static const int lens[] = { 20, MAX_PCF_LABEL - 1, MAX_PCF_LABEL, MAX_PCF_LABEL + 77 };
	for (int l = 0; l < 4; l++) RUN(scenario((int) (W_ID), (W_FOUND) != 0, lens[l]));
	r_origin = "tried after the witness";
	static const int ids[] = { 0, 1, -1, 6, 1000, INT_MAX, INT_MIN };
	long cnt = 0;
	for (int i = 0; i < 7; i++) for (int fo = 0; fo < 2; fo++) for (int l = 0; l < 4; l++) { cnt++; RUN(scenario(ids[i], fo, lens[l])); }
	printf("not reproduced: pcf_add_type behaves as specified on the witness (id %d, %s) and on %ld tables; every .pcf declares each type once\n", (int) (W_ID), (W_FOUND) ? "declared" : "new", cnt);
	return 0;
}
#endif

#if REPLAY_OP == 1
#ifndef W_VAL
#define W_VAL 3
#endif
#ifndef W_FOUND
#define W_FOUND 0
#endif
#ifndef W_NVALUES
#define W_NVALUES 1
#endif
static const char *scenario(int val, int found, int nvalues, int lablen)
{
	snprintf(r_ctx, sizeof(r_ctx), "pcf_open; type 20 declared with %d other labels; %spcf_add_value(%d, label of %d characters); pcf_close", nvalues, found ? "pcf_add_value(same value); " : "", val, lablen);
	const char *why = r_open(); if (why) return why;
	if ((why = r_add_type(20, " Thread: CPU affinity")) || (why = r_add_type(21, "Another type"))) return why;
	struct r_type *rt = &r_t[0];
	for (int k = 0; k < nvalues; k++) { char l[32]; snprintf(l, sizeof(l), " CPU 0.%d", k); if ((why = r_add_value(rt, other(val, k), l))) return why; }
	if ((why = r_add_value(&r_t[1], val, "same value, other type"))) return why;
	if (found && (why = r_add_value(rt, val, "First label"))) return why;
	struct pcf_value *before = pcf_find_value(rt->obj, val);
	const char *label = mk_label("CPU 1.", lablen);
	int e0 = n_err, n0 = rt->obj->nvalues;
	struct pcf_value *pv = pcf_add_value(rt->obj, val, label);
	int legal = !found && lablen < MAX_PCF_LABEL;
	if ((pv != NULL) != legal) FAILF("pcf_add_value(type 20, %d) %s; specified: labelled exactly when the type has no label for the value yet and the label fits %d bytes (value %s, label of %d characters)",
		val, pv ? "labelled the value" : "refused", MAX_PCF_LABEL, found ? "already labelled" : "not labelled", lablen);
	if (pv == NULL && n_err == e0) FAILF("pcf_add_value(%d) refused without a diagnostic", val);
	if (pv != NULL) {
		if (pv->value != val || strcmp(pv->label, label) != 0 || rt->obj->nvalues != n0 + 1) FAILF("the new label carries value %d, nvalues went from %d to %d; specified value %d, one more label", pv->value, n0, rt->obj->nvalues, val);
		rt->val[rt->nv] = val; snprintf(rt->vlabel[rt->nv], sizeof(rt->vlabel[0]), "%s", label); rt->nv++;
	} else if (pcf_find_value(rt->obj, val) != before || rt->obj->nvalues != n0) FAILF("a refused pcf_add_value(%d) changed the labels of the type", val);
	return r_close_and_check();
}
int main(void)
{
	static const int lens[] = { 8, MAX_PCF_LABEL - 1, MAX_PCF_LABEL, MAX_PCF_LABEL + 77 };
	int nv = (int) (W_NVALUES); if (nv < 0) nv = 0; if (nv > 6) nv = 6;
	for (int l = 0; l < 4; l++) RUN(scenario((int) (W_VAL), (W_FOUND) != 0, nv, lens[l]));
	r_origin = "tried after the witness";
	static const int vals[] = { 0, 1, -1, 2, 1000, INT_MAX, INT_MIN };
	long cnt = 0;
	for (int i = 0; i < 7; i++) for (int fo = 0; fo < 2; fo++) for (int n = 0; n < 4; n++) for (int l = 0; l < 4; l++) { cnt++; RUN(scenario(vals[i], fo, n, lens[l])); }
	printf("not reproduced: pcf_add_value behaves as specified on the witness (value %d, %s, %d labels before) and on %ld tables; every .pcf labels each value once under its type\n",
		(int) (W_VAL), (W_FOUND) ? "labelled" : "new", nv, cnt);
	return 0;
}
#endif

#if REPLAY_OP == 2
#ifndef W_NT
#define W_NT 2
#endif
#ifndef W_NV1
#define W_NV1 2
#endif
#ifndef W_NV2
#define W_NV2 1
#endif
static const char *scenario(int nt, const int *nv)
{
	snprintf(r_ctx, sizeof(r_ctx), "pcf_open; %d types with %d/%d/%d/.. labels; pcf_close", nt, nt > 0 ? nv[0] : 0, nt > 1 ? nv[1] : 0, nt > 2 ? nv[2] : 0);
	const char *why = r_open(); if (why) return why;
	for (int i = 0; i < nt; i++) {
		char l[64]; snprintf(l, sizeof(l), "Type number %d", i);
		if ((why = r_add_type(i == 0 ? 4 : i == 1 ? 6 : 100 - 7 * i, l))) return why;
		for (int k = 0; k < nv[i]; k++) { snprintf(l, sizeof(l), "Value %d of type %d", k, i); if ((why = r_add_value(&r_t[i], k == 0 ? 0 : 5 * k + i, l))) return why; }
	}
	return r_close_and_check();
}
int main(void)
{
	int nt = (int) (W_NT); if (nt < 0) nt = 0; if (nt > 2) nt = 2;
	int nv[R_MAXT] = { (int) (W_NV1), (int) (W_NV2) };
	for (int i = 0; i < 2; i++) { if (nv[i] < 0) nv[i] = 0; if (nv[i] > R_MAXV) nv[i] = R_MAXV; }
	RUN(scenario(nt, nv));
	r_origin = "tried after the witness";
	long cnt = 0;
	for (int n = 0; n <= 4; n++) for (int a = 0; a <= 3; a++) for (int b = 0; b <= 3; b++) { int v[R_MAXT] = { a, b, 1, 5, 0, 0, 0, 0 }; cnt++; RUN(scenario(n, v)); }
	{	struct pcf q; int e0 = n_err;
		int r = pcf_open(&q, "replay-no-such-directory/x.pcf");
		if (r != -1 || n_err == e0) { printf("REPRODUCED pcf_open on a path that cannot be created returned %d with %d diagnostics, specified -1 with a diagnostic [tried after the witness]\n", r, n_err - e0); return 1; }
	}
	printf("not reproduced: pcf_open / pcf_close behave as specified on the witness (%d types) and on %ld tables; every declared type and label is written exactly once\n", nt, cnt);
	return 0;
}
#endif
