#include "c06_cb_select_replay.h"
