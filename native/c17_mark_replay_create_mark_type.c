#define REPLAY_OP 1
#include "c17_mark_replay.h"
