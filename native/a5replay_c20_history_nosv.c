#include "a5replay_c20_history.h"
