/* C03 native replay of a failed heap obligation on the REAL src/include/heap.h.
 * REPLAY_OP: 0 heap_insert, 1 heap_pop_max, 2 heap_max_heapify (size-indexed family), 3 heap_get_move, 4 heap_get.
 * Witnesses: W_S (heap size), W_KEY1..W_KEY15 (key of the node at position i of THE complete tree
 * of S nodes), W_KEYNEW (key of the node to insert); W_NODE (heap_get_move), W_GET_N (heap_get).
 * The same complete tree is built with real heap_node_t links, ONE real operation is run, and the
 * abstract heap contract of the property is evaluated: "insert adds one member; pop removes and
 * returns a member whose key is maximal; size counts the members; the result is again the complete
 * tree in heap order with consistent links; keys untouched".
 * When the witness tree behaves as specified (e.g. the failed obligation was not an assertion the
 * witness fully determines), every tree of the same size with keys in {0..3} is tried as well.
 * exit 0: as specified (not reproduced); exit 1: mismatch (REPRODUCED). */
#include <stdio.h>
#include <stdlib.h>
#include <string.h>
#include <stdint.h>
#include <stdarg.h>
int is_debug_enabled;
void verr(const char *p, const char *f, const char *e, ...) { (void) p; (void) f; (void) e; }
/* no die() is legitimate on the well-formed heaps built here */
void vdie(const char *p, const char *f, const char *e, ...) { (void) p; (void) f; printf("REPRODUCED heap operation died on a well-formed heap: %s\n", e); exit(1); }
#include "heap.h"          /* the real /repo/src/include/heap.h */

#ifndef W_S
#define W_S 5
#endif
#ifndef W_KEY1
#define W_KEY1 9
#endif
#ifndef W_KEY2
#define W_KEY2 8
#endif
#ifndef W_KEY3
#define W_KEY3 2
#endif
#ifndef W_KEY4
#define W_KEY4 7
#endif
#ifndef W_KEY5
#define W_KEY5 6
#endif
#ifndef W_KEY6
#define W_KEY6 0
#endif
#ifndef W_KEY7
#define W_KEY7 0
#endif
#ifndef W_KEY8
#define W_KEY8 0
#endif
#ifndef W_KEY9
#define W_KEY9 0
#endif
#ifndef W_KEY10
#define W_KEY10 0
#endif
#ifndef W_KEY11
#define W_KEY11 0
#endif
#ifndef W_KEY12
#define W_KEY12 0
#endif
#ifndef W_KEY13
#define W_KEY13 0
#endif
#ifndef W_KEY14
#define W_KEY14 0
#endif
#ifndef W_KEY15
#define W_KEY15 0
#endif
#ifndef W_KEYNEW
#define W_KEYNEW 5
#endif
#ifndef W_NODE
#define W_NODE 5
#endif
#ifndef W_GET_N
#define W_GET_N 11
#endif

#define SMAX 15
struct tn { int64_t key; heap_node_t hh; int64_t pad; };
#define TN(n) heap_elem(n, struct tn, hh)
static int tn_cmp(heap_node_t *a, heap_node_t *b)
{
	int64_t ka = TN(a)->key, kb = TN(b)->key;
	return ka > kb ? +1 : (ka < kb ? -1 : 0);
}

static struct tn node[SMAX + 2];
static int64_t key0[SMAX + 2];
static char why[256];

static void build(heap_head_t *h, int S, const int64_t *key, int64_t keynew)
{
	memset(node, 0, sizeof(node));
	for (int i = 1; i <= S; i++) {
		node[i].key = key[i];
		node[i].hh.parent = i > 1 ? &node[i / 2].hh : NULL;
		node[i].hh.left = 2 * i <= S ? &node[2 * i].hh : NULL;
		node[i].hh.right = 2 * i + 1 <= S ? &node[2 * i + 1].hh : NULL;
	}
	node[S + 1].key = keynew;
	/* links of the node to insert: garbage */
	node[S + 1].hh.parent = &node[1].hh; node[S + 1].hh.left = &node[S + 1].hh; node[S + 1].hh.right = &node[1].hh;
	for (int i = 1; i <= S + 1; i++) key0[i] = node[i].key;
	h->root = S >= 1 ? &node[1].hh : NULL;
	h->size = (size_t) S;
}

/* the heap is the complete tree of n nodes, in heap order, consistent links, members node[first..last] once each */
static int check(heap_head_t *h, int n, int first, int last, int S)
{
	heap_node_t *p[SMAX + 3];
	if (h->size != (size_t) n) { snprintf(why, sizeof(why), "size is %zu, expected %d", h->size, n); return 1; }
	if ((h->root == NULL) != (n == 0)) { snprintf(why, sizeof(why), "root NULL-ness does not match emptiness"); return 1; }
	if (n >= 1) {
		p[1] = h->root;
		if (p[1]->parent != NULL) { snprintf(why, sizeof(why), "root has a parent"); return 1; }
	}
	for (int i = 2; i <= n; i++) {
		p[i] = (i & 1) ? p[i / 2]->right : p[i / 2]->left;
		if (p[i] == NULL) { snprintf(why, sizeof(why), "shape: position %d is empty", i); return 1; }
		if (p[i]->parent != p[i / 2]) { snprintf(why, sizeof(why), "links: parent of position %d is wrong", i); return 1; }
	}
	for (int i = 1; i <= n; i++) {
		if (2 * i > n && p[i]->left != NULL) { snprintf(why, sizeof(why), "shape: position %d has a left child beyond size", i); return 1; }
		if (2 * i + 1 > n && p[i]->right != NULL) { snprintf(why, sizeof(why), "shape: position %d has a right child beyond size", i); return 1; }
	}
	for (int i = 2; i <= n; i++)
		if (TN(p[i / 2])->key < TN(p[i])->key) {
			snprintf(why, sizeof(why), "heap order broken: key %ld at position %d is below key %ld at position %d",
				(long) TN(p[i])->key, i, (long) TN(p[i / 2])->key, i / 2);
			return 1;
		}
	for (int j = first; j <= last; j++) {
		int cnt = 0;
		for (int i = 1; i <= n; i++) if (p[i] == &node[j].hh) cnt++;
		if (cnt != 1) { snprintf(why, sizeof(why), "member built at position %d appears %d times", j, cnt); return 1; }
	}
	for (int j = 1; j <= S + 1; j++)
		if (node[j].key != key0[j]) { snprintf(why, sizeof(why), "key of node %d was modified", j); return 1; }
	return 0;
}

/* one operation on one tree; 1 = the real code disagrees with the contract */
static int run_case(int op, int S, const int64_t *key, int64_t keynew)
{
	heap_head_t head;
	build(&head, S, key, keynew);
	if (op == 0) {
		heap_insert(&head, &node[S + 1].hh, tn_cmp);
		return check(&head, S + 1, 1, S + 1, S);
	} else if (op == 1) {
		heap_node_t *m = heap_pop_max(&head, tn_cmp);
		if (S == 0) {
			if (m != NULL) { snprintf(why, sizeof(why), "pop on the empty heap returned a node"); return 1; }
			return check(&head, 0, 1, 0, S);
		}
		if (m != &node[1].hh) { snprintf(why, sizeof(why), "pop did not return the root"); return 1; }
		for (int j = 1; j <= S; j++)
			if (TN(m)->key < key0[j]) { snprintf(why, sizeof(why), "popped key %ld is not maximal (member key %ld)", (long) TN(m)->key, (long) key0[j]); return 1; }
		return check(&head, S - 1, 2, S, S);
	} else {
		if (S < 1) return 0;
		heap_max_heapify(&head, head.root, tn_cmp);
		return check(&head, S, 1, S, S);
	}
}

static int heap_ok(int op, int S, const int64_t *key)
{
	for (int i = 2; i <= S; i++)
		if (!(op == 2 && i / 2 == 1) && key[i / 2] < key[i]) return 0;
	return 1;
}

static void show(int S, const int64_t *key, int64_t keynew, int op)
{
	printf(" S=%d keys=[", S);
	for (int i = 1; i <= S; i++) printf("%s%ld", i > 1 ? "," : "", (long) key[i]);
	printf("]");
	if (op == 0) printf(" new=%ld", (long) keynew);
	printf("\n");
}

static int family(int op)
{
	static const char *name[] = {"heap_insert", "heap_pop_max", "heap_max_heapify"};
	int64_t key[SMAX + 2] = {0, W_KEY1, W_KEY2, W_KEY3, W_KEY4, W_KEY5, W_KEY6, W_KEY7, W_KEY8, W_KEY9, W_KEY10, W_KEY11,
		W_KEY12, W_KEY13, W_KEY14, W_KEY15, 0};
	int S = (W_S);
	if (S < 0 || S > SMAX) { printf("not reproduced: size %d outside the family\n", S); return 0; }
	if (heap_ok(op, S, key) && run_case(op, S, key, (W_KEYNEW))) {
		printf("REPRODUCED %s: %s;", name[op], why); show(S, key, (W_KEYNEW), op);
		return 1;
	}
	/* neighbourhood: every tree of this size with keys in {0..3} (S <= 7), else pseudo-random trees */
	int64_t k[SMAX + 2];
	if (S <= 7) {
		long total = 1; for (int i = 0; i < S + 1; i++) total *= 4;
		for (long c = 0; c < total; c++) {
			long x = c;
			for (int i = 1; i <= S + 1; i++) { k[i] = x & 3; x >>= 2; }
			if (!heap_ok(op, S, k)) continue;
			if (run_case(op, S, k, k[S + 1])) {
				printf("REPRODUCED %s: %s; (found next to the witness)", name[op], why); show(S, k, k[S + 1], op);
				return 1;
			}
		}
	} else {
		unsigned long seed = 12345;
		for (long c = 0; c < 400000; c++) {
			for (int i = 1; i <= S + 1; i++) { seed = seed * 6364136223846793005UL + 1442695040888963407UL; k[i] = (int64_t) ((seed >> 33) % 6); }
			/* make it a heap by pushing maxima up */
			for (int i = S; i >= 2; i--)
				if (!(op == 2 && i / 2 == 1) && k[i / 2] < k[i]) { int64_t t = k[i / 2]; k[i / 2] = k[i]; k[i] = t; }
			if (!heap_ok(op, S, k)) continue;
			if (run_case(op, S, k, k[S + 1])) {
				printf("REPRODUCED %s: %s; (found next to the witness)", name[op], why); show(S, k, k[S + 1], op);
				return 1;
			}
		}
	}
	printf("not reproduced: %s behaves as specified on the witness tree and its neighbourhood;", name[op]); show(S, key, (W_KEYNEW), op);
	return 0;
}

/* heap_get_move: for n >= 2 with leading bit k: returns bit k-1; *node = n with bit k cleared and bit k-1 set */
static int get_move_case(unsigned long n)
{
	int k = 63; while (!((n >> k) & 1UL)) k--;
	size_t x = n;
	int r = heap_get_move(&x);
	int er = (int) ((n >> (k - 1)) & 1UL);
	unsigned long en = (n & ~(1UL << k)) | (1UL << (k - 1));
	if (r != er || x != en) {
		printf("REPRODUCED heap_get_move: node %lu (leading bit %d): returned %d and left %lu, specified %d and %lu\n", n, k, r, (unsigned long) x, er, en);
		return 1;
	}
	return 0;
}
static int get_move(void)
{
	unsigned long n = (unsigned long) (W_NODE);
	if (n >= 2 && get_move_case(n)) return 1;
	for (unsigned long m = 2; m < 4096; m++) if (get_move_case(m)) return 1;
	for (int k = 12; k <= 63; k++) {
		if (get_move_case(1UL << k) || get_move_case((1UL << k) | (1UL << (k - 1))) || get_move_case((1UL << k) | 1UL) ||
			get_move_case((1UL << k) | ((1UL << k) - 1UL))) return 1;
	}
	printf("not reproduced: heap_get_move behaves as specified on node %lu and on the probe set\n", n);
	return 0;
}

/* heap_get: node number n names the node at the end of the path spelled by the bits below its leading bit */
static heap_node_t chain[64];
static int get_case(unsigned long n)
{
	int k = 63; while (!((n >> k) & 1UL)) k--;
	memset(chain, 0, sizeof(chain));
	for (int j = 0; j < k; j++) {
		if ((n >> (k - 1 - j)) & 1UL) chain[j].right = &chain[j + 1];
		else chain[j].left = &chain[j + 1];
	}
	heap_head_t head; head.root = &chain[0]; head.size = 12345;
	/* a wrong turn reaches NULL: follow by hand first so that the real code is not run into a NULL dereference blindly */
	heap_node_t *r = heap_get(&head, n);
	if (r != &chain[k]) {
		printf("REPRODUCED heap_get: node number %lu (depth %d) did not yield the node at the end of its path\n", n, k);
		return 1;
	}
	return 0;
}
static int get(void)
{
	unsigned long n = (unsigned long) (W_GET_N);
	if (n >= 1 && get_case(n)) return 1;
	for (unsigned long m = 1; m < 2048; m++) if (get_case(m)) return 1;
	for (int k = 11; k <= 63; k++)
		if (get_case(1UL << k) || get_case((1UL << k) | 1UL) || get_case((1UL << k) | ((1UL << k) - 1UL)) || get_case((1UL << k) | (0x5555555555555555UL & ((1UL << k) - 1UL)))) return 1;
	printf("not reproduced: heap_get behaves as specified on node number %lu and on the probe set\n", n);
	return 0;
}

int main(void)
{
	setvbuf(stdout, NULL, _IONBF, 0);
	switch (REPLAY_OP) {
	case 0: case 1: case 2: return family(REPLAY_OP);
	case 3: return get_move();
	default: return get();
	}
}
