#define REPLAY_OP 2
#include "c13_pcf_replay.h"
