/* C17 native END-TO-END replay of the emulator side of the mark API: the REAL src/emu/ovni/mark.c (mark_create,
 * scan_thread, create_thread_chan, init_cpu, mark_connect, connect_thread, connect_thread_prv, connect_cpu,
 * connect_cpu_prv, init_pcf, create_type, find_mark_type, find_label, mark_event) with the REAL track.c, mux.c,
 * chan.c, bay.c, thread.c, cpu.c, system.c, recorder.c, pv/pvt.c, pv/prv.c, pv/pcf.c, pv/prf.c, extend.c and
 * parson.c in ONE program.  The machinery of native/c13_system_replay.c (includes, .prv/.pcf/.row parsers,
 * well-formedness check of a trace) is reused by including that file with its main() renamed.
 * No input witness is needed (the failed obligations of the groups served are call-log clauses of stubs): the
 * driver runs finite sessions.
 *
 * Session: 2 threads (rows 1, 2) and 2 CPUs; the mark types (5: single, title "Phase", labels 1..3; 42: stack,
 * title "Stack T", label 7) are defined in the threads' REAL stream.json documents, in several distributions over
 * the threads (all on one thread, split with overlapping label sets, type order swapped); mark_create and
 * mark_connect wire them; then a script of thread state changes, CPU assignments and mark events (set / push /
 * pop through the real mark_event) runs at increasing clocks through the real patch bay; recorder_finish closes
 * the traces.  thread.prv / cpu.prv / *.pcf are parsed back and the statement is evaluated on them:
 *   values written with the mark API show up in the thread timeline while the thread is active and in the CPU
 *   timeline of the CPU where it runs, under Paraver type 100 + mark type, with the labels registered for the
 *   type; types and labels defined by different threads merge when they agree; conflicts are refused.
 * (timeline of (row, type) at time t = the last line written for it at a time <= t, 0 before the first.)
 * Linked with -Wl,--unresolved-symbols=ignore-all.  exit 0: as specified; exit 1: REPRODUCED. */
#define main c13_system_replay_main
#include "c13_system_replay.c"
#undef main
#include "parson.c"
#undef sscanf
#include "mux.c"
#include "track.c"
#include "extend.c"
#include "emu.h"
#include "ovni/mark.c"

#define M_NT 2
#define M_NC 2
#define TA 5
#define TB 42
static const int m_types[2] = {TA, TB};
static const char *m_titles[2] = {"Phase", "Stack T"};
static const struct { int type; int value; const char *label; } m_labels[] = {{TA, 1, "one"}, {TA, 2, "two"}, {TA, 3, "three and more"}, {TB, 7, "seven"}};
#define M_NLABELS 4

/* the stream.json documents of the two threads for each distribution of the definitions */
#define DOC(marks) "{\"version\":3,\"ovni\":{\"part\":\"thread\",\"finished\":1" marks "}}"
#define DEF_A12 "\"5\":{\"title\":\"Phase\",\"chan_type\":\"single\",\"labels\":{\"1\":\"one\",\"2\":\"two\"}}"
#define DEF_A23 "\"5\":{\"title\":\"Phase\",\"chan_type\":\"single\",\"labels\":{\"3\":\"three and more\",\"2\":\"two\"}}"
#define DEF_A123 "\"5\":{\"title\":\"Phase\",\"chan_type\":\"single\",\"labels\":{\"1\":\"one\",\"2\":\"two\",\"3\":\"three and more\"}}"
#define DEF_B "\"42\":{\"title\":\"Stack T\",\"chan_type\":\"stack\",\"labels\":{\"7\":\"seven\"}}"
static const struct { const char *what; const char *doc[M_NT]; } m_dist[] = {
	{"type 5 split over both threads with overlapping labels, type 42 on the second thread", {DOC(",\"mark\":{" DEF_A12 "}"), DOC(",\"mark\":{" DEF_B "," DEF_A23 "}")}},
	{"every definition on the first thread", {DOC(",\"mark\":{" DEF_A123 "," DEF_B "}"), DOC("")}},
	{"every definition on the second thread, type order swapped", {DOC(""), DOC(",\"mark\":{" DEF_B "," DEF_A123 "}")}},
	{"both threads define everything", {DOC(",\"mark\":{" DEF_B "," DEF_A123 "}"), DOC(",\"mark\":{" DEF_A123 "," DEF_B "}")}},
};
#define M_NDIST 4
/* conflicting definitions: refused by mark_create */
static const struct { const char *what; const char *doc[M_NT]; } m_conf[] = {
	{"two threads give mark type 5 different titles", {DOC(",\"mark\":{" DEF_A12 "}"), DOC(",\"mark\":{\"5\":{\"title\":\"Other\",\"chan_type\":\"single\"}}")}},
	{"two threads give mark type 5 different channel types", {DOC(",\"mark\":{" DEF_A12 "}"), DOC(",\"mark\":{\"5\":{\"title\":\"Phase\",\"chan_type\":\"stack\"}}")}},
	{"two threads label value 2 of mark type 5 differently", {DOC(",\"mark\":{" DEF_A12 "}"), DOC(",\"mark\":{\"5\":{\"title\":\"Phase\",\"chan_type\":\"single\",\"labels\":{\"2\":\"TWO\"}}}")}},
	{"a mark type outside [0, 100)", {DOC(""), DOC(",\"mark\":{\"100\":{\"title\":\"x\",\"chan_type\":\"single\"}}")}},
};
#define M_NCONF 4

enum { OP_STATE, OP_RUN, OP_SET, OP_PUSH, OP_POP };
struct m_op { int op, a, b, c; };   /* STATE thread state | RUN cpu thread(-1 none) | SET/PUSH/POP thread type value */
static const struct m_op m_script[] = {
	{OP_STATE, 0, TH_ST_RUNNING}, {OP_RUN, 0, 0}, {OP_SET, 0, TA, 1}, {OP_STATE, 1, TH_ST_RUNNING}, {OP_RUN, 1, 1},
	{OP_PUSH, 1, TB, 7}, {OP_PUSH, 1, TB, 8}, {OP_SET, 1, TA, 3}, {OP_SET, 0, TA, 1}, {OP_RUN, 0, -1}, {OP_STATE, 0, TH_ST_PAUSED},
	{OP_SET, 0, TA, 2}, {OP_STATE, 1, TH_ST_COOLING}, {OP_RUN, 1, -1}, {OP_POP, 1, TB, 8}, {OP_STATE, 0, TH_ST_RUNNING},
	{OP_RUN, 1, 0}, {OP_PUSH, 0, TB, 9}, {OP_POP, 1, TB, 7}, {OP_SET, 0, TA, 3}, {OP_STATE, 1, TH_ST_PAUSED},
	{OP_STATE, 1, TH_ST_RUNNING}, {OP_RUN, 0, 1}, {OP_SET, 1, TA, 2}, {OP_POP, 0, TB, 9}, {OP_RUN, 1, -1}, {OP_STATE, 0, TH_ST_DEAD},
	{OP_RUN, 0, -1}, {OP_STATE, 1, TH_ST_DEAD},
};
#define M_NOPS ((int) (sizeof(m_script) / sizeof(m_script[0])))

static struct emu *m_emu;
static struct ovni_emu m_oemu;
static struct thread *m_th[M_NT]; static struct cpu *m_cpu[M_NC];
static struct proc m_proc[M_NT]; static struct loom m_loom;
static JSON_Value *m_root[M_NT];
/* the model */
static int m_active[M_NT], m_single[M_NT], m_stack[M_NT][8], m_sp[M_NT], m_run[M_NC];
static long long m_time[M_NOPS]; static long long m_exp_th[M_NOPS][M_NT][2], m_exp_cpu[M_NOPS][M_NC][2];
static long long m_top(int k, int ti) { return ti == 0 ? m_single[k] : (m_sp[k] > 0 ? m_stack[k][m_sp[k] - 1] : 0); }

static const char *m_setup(const char *const doc[M_NT])
{
	mkdir(R_DIR, 0755);
	static const char *files[] = { "thread.prv", "thread.pcf", "thread.row", "cpu.prv", "cpu.pcf", "cpu.row" };
	for (int i = 0; i < 6; i++) { char p[128]; snprintf(p, sizeof(p), R_DIR "/%s", files[i]); remove(p); }
	n_err = 0; r_clock = 0;
	if (!m_emu) m_emu = calloc(1, sizeof(*m_emu));
	memset(m_emu, 0, sizeof(*m_emu)); memset(&m_oemu, 0x5a, sizeof(m_oemu)); memset(&m_loom, 0, sizeof(m_loom));
	bay_init(&m_emu->bay);
	if (recorder_init(&m_emu->recorder, R_DIR) != 0) FAILF("recorder_init refused");
	for (int k = 0; k < M_NT; k++) {
		struct thread *th = m_th[k] = calloc(1, sizeof(struct thread));
		memset(&m_proc[k], 0, sizeof(m_proc[k])); m_proc[k].appid = 1; m_proc[k].pid = 500 + k;
		if (thread_init_begin(th, 1000 + 7 * k) != 0) FAILF("thread_init_begin refused");
		thread_set_proc(th, &m_proc[k]);
		m_root[k] = json_parse_string(doc[k]);
		if (m_root[k] == NULL) FAILF("driver: cannot parse its own stream.json: %s", doc[k]);
		th->meta = json_value_get_object(m_root[k]);
		thread_set_gindex(th, k);
		if (thread_init_end(th) != 0) FAILF("thread_init_end refused");
		extend_set(&th->ext, 'O', calloc(1, sizeof(struct ovni_thread)));
		if (k > 0) { m_th[k - 1]->gnext = th; th->gprev = m_th[k - 1]; }
	}
	m_loom.gindex = 0;
	for (int k = 0; k < M_NC; k++) {
		struct cpu *cpu = m_cpu[k] = calloc(1, sizeof(struct cpu));
		cpu_init_begin(cpu, k == M_NC - 1 ? -1 : k, k == M_NC - 1 ? -1 : 4 + 5 * k, k == M_NC - 1);
		cpu_set_loom(cpu, &m_loom); cpu_set_gindex(cpu, k);
		if (cpu_init_end(cpu) != 0) FAILF("cpu_init_end refused");
		extend_set(&cpu->ext, 'O', calloc(1, sizeof(struct ovni_cpu)));
		if (k > 0) { m_cpu[k - 1]->next = cpu; cpu->prev = m_cpu[k - 1]; }
	}
	struct system *sys = &m_emu->system;
	sys->threads = m_th[0]; sys->cpus = m_cpu[0]; sys->nthreads = M_NT; sys->ncpus = M_NC; sys->nphycpus = M_NC - 1; sys->looms = &m_loom; sys->nlooms = 1;
	if (system_connect(sys, &m_emu->bay, &m_emu->recorder) != 0) FAILF("system_connect refused a well-formed system");
	extend_set(&m_emu->ext, 'O', &m_oemu);
	return NULL;
}
static void m_teardown(void)
{
	for (int k = 0; k < M_NT; k++) { if (m_root[k]) json_value_free(m_root[k]); m_root[k] = NULL; }
}
static const char *m_tick(void)
{
	r_clock += 3;
	if (recorder_advance(&m_emu->recorder, r_clock) != 0) FAILF("recorder_advance(%lld) refused", r_clock);
	return NULL;
}
static int m_event(int k, int v, int type, long long value)
{
	static struct emu_ev ev; static union ovni_ev_payload pl;
	memset(&ev, 0, sizeof(ev)); memset(&pl, 0, sizeof(pl));
	ev.m = 'O'; ev.c = 'M'; ev.v = (uint8_t) v; ev.has_payload = 1; ev.payload_size = 12; ev.payload = &pl;
	pl.i64[0] = value; pl.i32[2] = type;
	m_emu->ev = &ev; m_emu->thread = m_th[k];
	return mark_event(m_emu);
}
static long long timeline(const struct r_prv *v, long row, long long type, long long t)
{
	long long val = 0;
	for (int i = 0; i < v->n && i < R_MAXL; i++) if (v->row[i] == row && v->type[i] == type && v->time[i] <= t) val = v->val[i];
	return val;
}
static const char *m_check_pcf(const char *name)
{
	const struct r_pcf *c = &r_pcff;
	for (int ti = 0; ti < 2; ti++) {
		int pi = pcf_type_index(c, 100 + m_types[ti]);
		if (pi < 0) FAILF("%s.pcf does not declare Paraver type %d for mark type %d (100 + mark type)", name, 100 + m_types[ti], m_types[ti]);
		if (strcmp(c->label[pi], m_titles[ti]) != 0) FAILF("%s.pcf: type %d is titled \"%s\", mark type %d was defined with title \"%s\"", name, 100 + m_types[ti], c->label[pi], m_types[ti], m_titles[ti]);
		int want = 0;
		for (int l = 0; l < M_NLABELS; l++) if (m_labels[l].type == m_types[ti]) {
			want++;
			const char *lab = pcf_value_label(c, pi, m_labels[l].value);
			if (lab == NULL || strcmp(lab, m_labels[l].label) != 0) FAILF("%s.pcf: value %d of type %d is labelled \"%s\", the label registered for mark type %d is \"%s\" (labels defined by different threads merge)", name, m_labels[l].value, 100 + m_types[ti], lab ? lab : "(no label)", m_types[ti], m_labels[l].label);
		}
		if (c->nv[pi] != want) FAILF("%s.pcf: type %d has %d values, %d labels were registered for mark type %d", name, 100 + m_types[ti], c->nv[pi], want, m_types[ti]);
	}
	for (int i = 0; i < c->nt; i++) if (c->id[i] >= 100 && c->id[i] < 200 && c->id[i] != 100 + TA && c->id[i] != 100 + TB) FAILF("%s.pcf declares mark type %d that no thread defined", name, c->id[i]);
	return NULL;
}
static const char *m_session(int dist)
{
	const char *why;
	snprintf(r_ctx, sizeof(r_ctx), "2 threads, 2 CPUs (the second virtual); definitions: %s; %d scripted state changes / CPU assignments / mark events", m_dist[dist].what, M_NOPS);
	if ((why = m_setup(m_dist[dist].doc))) return why;
	if (mark_create(m_emu) != 0) FAILF("mark_create refused definitions that agree (%d diagnostics)", n_err);
	if (m_oemu.mark.ntypes != 2) FAILF("mark_create found %ld mark types, the threads define 2", m_oemu.mark.ntypes);
	for (int ti = 0; ti < 2; ti++) {
		struct mark_type *t = find_mark_type(&m_oemu.mark, m_types[ti]);
		if (t == NULL || t->type != m_types[ti] || t->prvtype != 100 + m_types[ti]) FAILF("find_mark_type(%d) does not find the type the threads defined (with Paraver type %d)", m_types[ti], 100 + m_types[ti]);
		for (int l = 0; l < M_NLABELS; l++) if (m_labels[l].type == m_types[ti]) { struct mark_label *ml = find_label(t, m_labels[l].value); if (ml == NULL || ml->value != m_labels[l].value || strcmp(ml->label, m_labels[l].label) != 0) FAILF("find_label(type %d, value %d) does not find the label registered", m_types[ti], m_labels[l].value); }
		if (find_label(t, 99) != NULL || find_label(t, 0) != NULL) FAILF("find_label finds a value that was never labelled");
	}
	if (find_mark_type(&m_oemu.mark, 6) != NULL || find_mark_type(&m_oemu.mark, 0) != NULL || find_mark_type(&m_oemu.mark, 41) != NULL) FAILF("find_mark_type finds a type no thread defined");
	for (int k = 0; k < M_NT; k++) { struct ovni_thread *o = EXT(m_th[k], 'O'); if (o->mark.nchannels != 2 || !o->mark.channels || !o->mark.track) FAILF("thread %d did not get one mark channel per type (also a thread that defines no type itself must get them)", k); }
	for (int k = 0; k < M_NC; k++) { struct ovni_cpu *o = EXT(m_cpu[k], 'O'); if (!o->mark.track) FAILF("CPU %d did not get its mark tracking", k); }
	if (mark_connect(m_emu) != 0) FAILF("mark_connect refused (%d diagnostics)", n_err);
	/* ---- the script ---- */
	memset(m_active, 0, sizeof(m_active)); memset(m_single, 0, sizeof(m_single)); memset(m_sp, 0, sizeof(m_sp));
	for (int c = 0; c < M_NC; c++) m_run[c] = -1;
	for (int i = 0; i < M_NOPS; i++) {
		const struct m_op *o = &m_script[i];
		if ((why = m_tick())) return why;
		int r = 0;
		switch (o->op) {
		case OP_STATE: r = chan_set(&m_th[o->a]->chan[TH_CHAN_STATE], value_int64(o->b)); m_active[o->a] = (o->b == TH_ST_RUNNING || o->b == TH_ST_COOLING || o->b == TH_ST_WARMING); break;
		case OP_RUN: r = chan_set(&m_cpu[o->a]->chan[CPU_CHAN_THRUN], o->b < 0 ? value_null() : value_int64(m_th[o->b]->gindex)); m_run[o->a] = o->b; break;
		case OP_SET: r = m_event(o->a, '=', o->b, o->c); m_single[o->a] = o->c; break;
		case OP_PUSH: r = m_event(o->a, '[', o->b, o->c); m_stack[o->a][m_sp[o->a]++] = o->c; break;
		case OP_POP: r = m_event(o->a, ']', o->b, o->c); m_sp[o->a]--; break;
		}
		if (r != 0) FAILF("step %d of the script (op %d on %d: %d %d) was refused", i, o->op, o->a, o->b, o->c);
		if (bay_propagate(&m_emu->bay) != 0) FAILF("step %d of the script (op %d on %d: %d %d): the propagation through the patch bay to the traces failed", i, o->op, o->a, o->b, o->c);
		m_time[i] = r_clock;
		for (int k = 0; k < M_NT; k++) for (int ti = 0; ti < 2; ti++) m_exp_th[i][k][ti] = m_active[k] ? m_top(k, ti) : 0;
		for (int c = 0; c < M_NC; c++) for (int ti = 0; ti < 2; ti++) m_exp_cpu[i][c][ti] = m_run[c] >= 0 ? m_top(m_run[c], ti) : 0;
	}
	/* refusals of mark_event (no state change) */
	if ((why = m_tick())) return why;
	n_err = 0; if (m_event(0, '=', 6, 1) == 0 || n_err == 0) FAILF("mark_event accepted a mark of type 6 that no thread defined (or refused it silently)");
	n_err = 0; if (m_event(0, '=', TA, 0) == 0 || n_err == 0) FAILF("mark_event accepted the value 0 (or refused it silently)");
	n_err = 0; if (m_event(1, ']', TB, 5) == 0) FAILF("mark_event accepted a pop on an empty stack");
	if ((why = m_tick())) return why;
	if (recorder_finish(&m_emu->recorder) != 0) FAILF("recorder_finish refused");
	/* ---- the statement, on the files ---- */
	static const int mark_types[2] = {100 + TA, 100 + TB};
	if ((why = check_trace("thread", M_NT, r_clock, mark_types, 0))) return why;
	if ((why = m_check_pcf("thread"))) return why;
	for (int i = 0; i < r_prvf.n && i < R_MAXL; i++) if (r_prvf.type[i] >= 100 && r_prvf.type[i] < 200 && r_prvf.type[i] != 100 + TA && r_prvf.type[i] != 100 + TB) FAILF("thread.prv prints type %lld, no such mark type", r_prvf.type[i]);
	for (int i = 0; i < M_NOPS; i++) for (int k = 0; k < M_NT; k++) for (int ti = 0; ti < 2; ti++) {
		long long got = timeline(&r_prvf, k + 1, 100 + m_types[ti], m_time[i]);
		if (got != m_exp_th[i][k][ti]) FAILF("thread.prv: after step %d (time %lld) row %d shows %lld under type %d, specified %lld (the current value of mark type %d of that thread while it is active, nothing while it is not)", i, m_time[i], k + 1, got, 100 + m_types[ti], m_exp_th[i][k][ti], m_types[ti]);
	}
	if ((why = check_trace("cpu", M_NC, r_clock, mark_types, 0))) return why;
	if ((why = m_check_pcf("cpu"))) return why;
	for (int i = 0; i < M_NOPS; i++) for (int c = 0; c < M_NC; c++) for (int ti = 0; ti < 2; ti++) {
		long long got = timeline(&r_prvf, c + 1, 100 + m_types[ti], m_time[i]);
		if (got != m_exp_cpu[i][c][ti]) FAILF("cpu.prv: after step %d (time %lld) row %d shows %lld under type %d, specified %lld (the current value of mark type %d of the thread running on that CPU, nothing when none runs there)", i, m_time[i], c + 1, got, 100 + m_types[ti], m_exp_cpu[i][c][ti], m_types[ti]);
	}
	m_teardown();
	return NULL;
}
static const char *m_conflict(int j)
{
	const char *why;
	snprintf(r_ctx, sizeof(r_ctx), "2 threads; %s", m_conf[j].what);
	if ((why = m_setup(m_conf[j].doc))) return why;
	n_err = 0;
	if (mark_create(m_emu) == 0) FAILF("mark_create ACCEPTED conflicting definitions (%s), specified: refused", m_conf[j].what);
	if (n_err == 0) FAILF("mark_create refused (%s) without any error message", m_conf[j].what);
	m_teardown();
	return NULL;
}
/* no thread defines a mark: nothing is created, nothing is connected, both calls succeed */
static const char *m_nomarks(void)
{
	const char *why; static const char *const doc[M_NT] = {DOC(""), DOC("")};
	snprintf(r_ctx, sizeof(r_ctx), "2 threads without any mark definition");
	if ((why = m_setup(doc))) return why;
	if (mark_create(m_emu) != 0 || m_oemu.mark.ntypes != 0 || m_oemu.mark.types != NULL) FAILF("mark_create on threads without marks does not give an empty type table");
	for (int k = 0; k < M_NT; k++) { struct ovni_thread *o = EXT(m_th[k], 'O'); if (o->mark.channels || o->mark.track) FAILF("mark channels were created although no mark type exists"); }
	if (mark_connect(m_emu) != 0) FAILF("mark_connect refused a trace without marks");
	if ((why = m_tick())) return why;
	if (recorder_finish(&m_emu->recorder) != 0) FAILF("recorder_finish refused");
	if ((why = check_trace("thread", M_NT, r_clock, NULL, 0))) return why;
	for (int i = 0; i < r_pcff.nt; i++) if (r_pcff.id[i] >= 100 && r_pcff.id[i] < 200) FAILF("thread.pcf declares mark type %d although no thread defined a mark", r_pcff.id[i]);
	m_teardown();
	return NULL;
}
int main(void)
{
	setvbuf(stdout, NULL, _IONBF, 0);
	r_origin = "finite corpus, no witness needed";
	for (int d = 0; d < M_NDIST; d++) RUN(m_session(d));
	for (int j = 0; j < M_NCONF; j++) RUN(m_conflict(j));
	RUN(m_nomarks());
	printf("not reproduced: marks appear in the thread and CPU timelines under type 100 + mark type with the registered labels in %d distributions of the definitions; %d conflicts are refused\n", M_NDIST, M_NCONF);
	return 0;
}
