#define REPLAY_OP 0
#include "c20_sort_replay.h"
