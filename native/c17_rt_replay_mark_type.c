#define REPLAY_OP 0
#include "c17_rt_replay.h"
