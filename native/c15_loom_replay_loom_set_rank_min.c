#define REPLAY_OP 2
#include "c15_loom_replay.h"
