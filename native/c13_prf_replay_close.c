#define REPLAY_OP 1
#include "c13_prf_replay.h"
