/* C18 -- catalogue coincidence, native-exhaustive (HOWTO "native": true).
 *
 * One model per build (-DC18_MODEL_<NAME>).  The REAL src/emu/<model>/event.c and
 * setup.c (for ovni also ovni/mark.c) and the REAL ev_spec.c, model_evspec.c, model.c,
 * extend.c are #included.  Everything BELOW the handler (channel layer, task/body
 * layer, thread/cpu/loom/proc functions) is replaced by permissive stubs that always
 * succeed and count that they were reached (g_lower).
 *
 * The model is registered with the real model_register() (which runs the real
 * model_evspec_init() / ev_spec_compile() on the real model_evlist[]) and every event
 * goes through the real model_event() -> model_spec.event -> model_<m>_event().
 *
 * For ALL 256 x 256 (category, value) pairs the handler is evaluated in EVERY context
 * of a finite context set:
 *     thread FSM state            (ovni: all six states; other models: RUNNING,
 *                                  flags is_running/is_active as thread_set_state sets
 *                                  them, never out of CPU)
 *   x payload shape               (none, 4, 8, 12, 16, 20 bytes and every shape declared
 *                                  by a listed event of the model, incl. jumbo shapes
 *                                  with a NUL-terminated string)
 *   x payload fill                (all bytes 0 / all bytes 1; jumbo string "" / "lbl")
 *   x running body                (nosv/nanos6: no body / a body runs before the event; an
 *                                  end leaves no body / an outer body running)
 *   x task kind                   (nosv: task_is_parallel 0 / 1)
 * Rule:
 *   listed_accepted    every MCV of model_evlist[] is accepted (0) in AT LEAST ONE context
 *                      whose payload has exactly the declared shape;
 *   unlisted_rejected  every other (c,v) is refused (!= 0) in ALL contexts -- except the
 *                      documented exceptions of spec/c18_exceptions.txt;
 *   exceptions_exact   every exception entry is really needed: the cells it covers that
 *                      are not listed ARE accepted (a stale entry fails), wildcard
 *                      categories accept all 256 value bytes;
 * so accepted-somewhere == listed OR exception, for all 65,536 cells.
 * "refused because unknown" vs "refused for another reason": a listed event refused in
 * every context is reported with the number of contexts in which a lower layer was
 * reached (0 = refused as unknown by the handler: candidate defect; >0 = the context
 * set of this evaluator is insufficient).
 *
 * usage: native <spec/c18_exceptions.txt> [--dump]
 */
#define _GNU_SOURCE
#include <stdio.h>
#include <stdlib.h>
#include <string.h>
#include <stdarg.h>
#include <stdint.h>
#include <inttypes.h>

#if defined(C18_MODEL_NOSV)
#  include "nosv/event.c"
#  include "nosv/setup.c"
#  define MNAME "nosv"
#  define MSPEC model_nosv
#  define THREAD_T struct nosv_thread
#  define PROC_T struct nosv_proc
#  define HAS_TASKS 1
#  define HAS_PARALLEL 1
#elif defined(C18_MODEL_NANOS6)
#  include "nanos6/event.c"
#  include "nanos6/setup.c"
#  define MNAME "nanos6"
#  define MSPEC model_nanos6
#  define THREAD_T struct nanos6_thread
#  define PROC_T struct nanos6_proc
#  define HAS_TASKS 1
#elif defined(C18_MODEL_NODES)
#  include "nodes/event.c"
#  include "nodes/setup.c"
#  define MNAME "nodes"
#  define MSPEC model_nodes
#  define THREAD_T struct nodes_thread
#elif defined(C18_MODEL_MPI)
#  include "mpi/event.c"
#  include "mpi/setup.c"
#  define MNAME "mpi"
#  define MSPEC model_mpi
#  define THREAD_T struct mpi_thread
#elif defined(C18_MODEL_TAMPI)
#  include "tampi/event.c"
#  include "tampi/setup.c"
#  define MNAME "tampi"
#  define MSPEC model_tampi
#  define THREAD_T struct tampi_thread
#elif defined(C18_MODEL_OPENMP)
#  include "openmp/event.c"
#  include "openmp/setup.c"
#  define MNAME "openmp"
#  define MSPEC model_openmp
#  define THREAD_T struct openmp_thread
#elif defined(C18_MODEL_KERNEL)
#  include "kernel/event.c"
#  include "kernel/setup.c"
#  define MNAME "kernel"
#  define MSPEC model_kernel
#  define THREAD_T struct kernel_thread
#elif defined(C18_MODEL_OVNI)
#  include "ovni/event.c"
#  include "ovni/setup.c"
#  include "ovni/mark.c"
#  define MNAME "ovni"
#  define MSPEC model_ovni
#  define THREAD_T struct ovni_thread
#  define ALL_THREAD_STATES 1
#  define HAS_MARKS 1
#else
#  error "define one of C18_MODEL_NOSV NANOS6 NODES MPI TAMPI OPENMP KERNEL OVNI"
#endif
#ifndef HAS_TASKS
#  define HAS_TASKS 0
#endif
#ifndef HAS_PARALLEL
#  define HAS_PARALLEL 0
#endif
#ifndef ALL_THREAD_STATES
#  define ALL_THREAD_STATES 0
#endif
#ifndef HAS_MARKS
#  define HAS_MARKS 0
#endif

/* the real catalogue machinery */
#include "extend.c"
#include "ev_spec.c"
#include "model_evspec.c"
#include "model.c"

#include "proc.h"
#include "loom.h"
#include "thread.h"
#include "cpu.h"
#include "task.h"
#include "body.h"

/* ---------------- diagnostics (common.c is outside the units) ---------------- */
int is_debug_enabled = 0;
void verr(const char *prefix, const char *func, const char *errstr, ...) { (void) prefix; (void) func; (void) errstr; }
void vdie(const char *prefix, const char *func, const char *errstr, ...)
{
	printf("OBL c18.%s.evaluator FAIL die() reached in %s: %s\nDONE 1\n", MNAME, func ? func : "?", errstr);
	exit(1);
}
char value_buffers[VALUE_NBUF][VALUE_BUFSIZE];
size_t value_nextbuf = 0;

/* ---------------- permissive stubs of the lower layers ---------------- */
static long g_lower;            /* calls that reached a lower layer in the current evaluation */

/* channel layer: always succeeds */
int chan_push(struct chan *c, struct value v) { (void) c; (void) v; g_lower++; return 0; }
int chan_pop(struct chan *c, struct value v) { (void) c; (void) v; g_lower++; return 0; }
int chan_set(struct chan *c, struct value v) { (void) c; (void) v; g_lower++; return 0; }
/* chan_read is static inline in chan.h: the real one runs on zero-initialised channels (reads "no value") */

/* task / body layer: every lookup finds a valid object, every transition succeeds and
 * keeps the one promise of the real layer the handlers rely on: after a successful
 * execute/resume some body is running (nanos6 dereferences it).  The running body is a
 * tiny ghost state: none / body A / body B; the context chooses what runs before the
 * event and whether an end uncovers an outer (nested) body. */
static struct task_type g_type = { .id = 1, .gid = 7 };
static struct task g_task[2];
static int g_running, g_nest, g_parallel;
/* struct body is private to body.c: bodies are opaque tokens here */
static char g_body_tok[3];
#define BODY(i) ((struct body *) &g_body_tok[i])

struct task *task_find(struct task *tasks, uint32_t id) { (void) tasks; (void) id; g_lower++; return &g_task[0]; }
int task_is_parallel(struct task *t) { (void) t; return g_parallel; }
uint32_t task_get_id(struct task *t) { return t->id; }
int task_create(struct task_info *i, uint32_t ty, uint32_t id, uint32_t fl) { (void) i; (void) ty; (void) id; (void) fl; g_lower++; return 0; }
int task_type_create(struct task_info *i, uint32_t ty, const char *l) { (void) i; (void) ty; (void) l; g_lower++; return 0; }
int task_execute(struct task_stack *s, struct task *t, uint32_t b) { (void) s; (void) t; (void) b; g_lower++; g_running = g_running ? 3 - g_running : 1; return 0; }
int task_resume(struct task_stack *s, struct task *t, uint32_t b) { (void) s; (void) t; (void) b; g_lower++; g_running = g_running ? 3 - g_running : 1; return 0; }
int task_pause(struct task_stack *s, struct task *t, uint32_t b) { (void) s; (void) t; (void) b; g_lower++; g_running = 0; return 0; }
int task_end(struct task_stack *s, struct task *t, uint32_t b) { (void) s; (void) t; (void) b; g_lower++; g_running = (g_nest && g_running) ? 3 - g_running : 0; return 0; }
struct body *task_get_running(struct task_stack *s) { (void) s; return g_running == 0 ? NULL : BODY(g_running); }
struct task *body_get_task(struct body *b) { return b == BODY(2) ? &g_task[1] : &g_task[0]; }
uint32_t body_get_id(struct body *b) { (void) b; return 1; }
enum body_state body_get_state(struct body *b) { (void) b; return BODY_ST_RUNNING; }

/* thread / cpu / loom / proc layer */
static struct cpu *g_cpu[2];            /* two CPUs: the current one and another one */
static struct thread *g_remote;
static void set_state(struct thread *th, enum thread_state st)
{
	th->state = st;
	th->is_running = (st == TH_ST_RUNNING);
	th->is_active = (st == TH_ST_RUNNING || st == TH_ST_COOLING || st == TH_ST_WARMING);
}
int thread_set_state(struct thread *th, enum thread_state st) { g_lower++; set_state(th, st); return 0; }
int thread_set_cpu(struct thread *th, struct cpu *cpu) { g_lower++; th->cpu = cpu; return 0; }
int thread_unset_cpu(struct thread *th) { g_lower++; th->cpu = NULL; return 0; }
int thread_migrate_cpu(struct thread *th, struct cpu *cpu) { g_lower++; th->cpu = cpu; return 0; }
int cpu_add_thread(struct cpu *c, struct thread *t) { (void) c; (void) t; g_lower++; return 0; }
int cpu_remove_thread(struct cpu *c, struct thread *t) { (void) c; (void) t; g_lower++; return 0; }
int cpu_migrate_thread(struct cpu *c, struct thread *t, struct cpu *n) { (void) c; (void) t; (void) n; g_lower++; return 0; }
int cpu_update(struct cpu *c) { (void) c; g_lower++; return 0; }
struct cpu *loom_get_cpu(struct loom *l, int i) { (void) l; g_lower++; return g_cpu[i & 1]; }
struct thread *loom_find_thread(struct loom *l, int tid) { (void) l; (void) tid; g_lower++; return g_remote; }
struct thread *proc_find_thread(struct proc *p, int tid) { (void) p; (void) tid; g_lower++; return g_remote; }

/* ---------------- context ---------------- */
#define MAXSHAPES 24
static struct shape { int jumbo; size_t psize; } shapes[MAXSHAPES];
static int nshapes;
static int add_shape(int jumbo, size_t psize)
{
	for (int i = 0; i < nshapes; i++)
		if (shapes[i].jumbo == jumbo && shapes[i].psize == psize) return i;
	if (nshapes >= MAXSHAPES) { printf("OBL c18.%s.evaluator FAIL too many payload shapes\nDONE 1\n", MNAME); exit(1); }
	shapes[nshapes].jumbo = jumbo; shapes[nshapes].psize = psize;
	return nshapes++;
}

#define NSTATES (ALL_THREAD_STATES ? 6 : 1)
#define NFILL 2
#define NRUN (HAS_TASKS ? 4 : 1)
#define NPAR (HAS_PARALLEL ? 2 : 1)
#define MAXCTX (6 * MAXSHAPES * NFILL * 6 * 2)

static struct emu *emu;
static struct thread *th, *remote;
static struct proc *proc;
static struct loom *loom;
static THREAD_T *mth;
#if HAS_TASKS
static PROC_T mproc;
#endif
#if HAS_MARKS
static struct ovni_emu oemu;
static struct chan mark_chans[4];
#endif
static struct chan chans[CH_MAX];
static union { uint8_t b[256]; union ovni_ev_payload p; uint64_t align; } pbuf;

/* builds the payload of shape s with fill f into pbuf; returns the event's payload_size */
static size_t build_payload(const struct shape *s, int fill)
{
	uint8_t byte = fill ? 1 : 0;
	if (!s->jumbo) {
		memset(pbuf.b, byte, s->psize);
		return s->psize;
	}
	/* jumbo: u32 size | fixed arguments (psize - 4 bytes) | NUL-terminated string */
	size_t fixed = s->psize - 4;
	const char *str = fill ? "lbl" : "";
	uint32_t dsize = (uint32_t) (fixed + strlen(str) + 1);
	memcpy(pbuf.b, &dsize, 4);
	memset(pbuf.b + 4, byte, fixed);
	memcpy(pbuf.b + 4 + fixed, str, strlen(str) + 1);
	return 4 + (size_t) dsize;
}

/* one evaluation of the real handler; returns its result */
static int evaluate(int c, int v, int m, int state, const struct shape *s, int fill, int run, int par)
{
	struct emu_ev ev;
	memset(&ev, 0, sizeof(ev));
	ev.m = (uint8_t) m; ev.c = (uint8_t) c; ev.v = (uint8_t) v;
	ev.payload_size = build_payload(s, fill);
	ev.has_payload = ev.payload_size > 0;
	ev.payload = ev.payload_size > 0 ? &pbuf.p : NULL;
	ev.is_jumbo = s->jumbo;
	ev.dclock = 1000;

	/* thread: FSM state and flags as thread_set_state derives them; on CPU 0 unless unknown/dead */
	set_state(th, (enum thread_state) state);
	th->is_out_of_cpu = 0;
	th->cpu = (state == TH_ST_UNKNOWN || state == TH_ST_DEAD) ? NULL : g_cpu[0];
	th->tid = 1;
	set_state(remote, TH_ST_RUNNING);
	remote->cpu = g_cpu[0];
	remote->tid = 2;
	memset(mth, 0, sizeof(*mth));
	mth->m.ch = chans;
#if HAS_MARKS
	mth->mark.channels = mark_chans;
	mth->mark.nchannels = 4;
#endif
	proc->appid = 1;
	proc->rank = 0;
	g_task[0].id = 1; g_task[0].type = &g_type;
	g_task[1].id = 2; g_task[1].type = &g_type;
	g_running = run & 1;            /* before the event: no body / body A runs */
	g_nest = (run >> 1) & 1;        /* an end uncovers an outer body */
	g_parallel = par;
	g_lower = 0;

	emu->ev = &ev;
	return model_event(&emu->model, emu, m);
}

/* ---------------- results ---------------- */
static unsigned char acc_any[256][256];     /* accepted in some context */
static unsigned char acc_all[256][256];     /* accepted in every context */
static unsigned char low_any[256][256];     /* a lower layer was reached in some context */
static struct ev_spec *listed[256][256];
static struct ev_decl *decl_of[256][256];
static unsigned char acc_decl[256][256];    /* accepted in some context with the declared shape */
static int low_decl[256][256];              /* contexts of the declared shape that reached a lower layer */
static int nctx_decl[256][256];

/* exceptions: spec/c18_exceptions.txt */
enum { EXC_NONE = 0, EXC_WILDCARD = 1, EXC_LEGACY = 2 };
static unsigned char exc[256][256];
static int nexc_lines;

static int nobl;
static void obl(const char *check, int ok, const char *fmt, ...)
{
	char buf[900];
	va_list ap; va_start(ap, fmt); vsnprintf(buf, sizeof(buf), fmt, ap); va_end(ap);
	printf("OBL c18.%s.%s %s %s\n", MNAME, check, ok ? "PASS" : "FAIL", buf);
	nobl++;
}

/* decimal text of a numeric argument read from the payload with its declared type (NULL for strings) */
static const char *expected_default_text(struct ev_spec *s, const char *name, struct emu_ev *ev)
{
	static char b[64];
	struct ev_arg *a = ev_spec_find_arg(s, name);
	if (a == NULL || ev->payload == NULL) return NULL;
	const uint8_t *p = (const uint8_t *) ev->payload + a->offset;
	switch (a->type) {
		case U8:  { uint8_t x;  memcpy(&x, p, sizeof(x)); snprintf(b, sizeof(b), "%llu", (unsigned long long) x); return b; }
		case U16: { uint16_t x; memcpy(&x, p, sizeof(x)); snprintf(b, sizeof(b), "%llu", (unsigned long long) x); return b; }
		case U32: { uint32_t x; memcpy(&x, p, sizeof(x)); snprintf(b, sizeof(b), "%llu", (unsigned long long) x); return b; }
		case U64: { uint64_t x; memcpy(&x, p, sizeof(x)); snprintf(b, sizeof(b), "%llu", (unsigned long long) x); return b; }
		case I8:  { int8_t x;   memcpy(&x, p, sizeof(x)); snprintf(b, sizeof(b), "%lld", (long long) x); return b; }
		case I16: { int16_t x;  memcpy(&x, p, sizeof(x)); snprintf(b, sizeof(b), "%lld", (long long) x); return b; }
		case I32: { int32_t x;  memcpy(&x, p, sizeof(x)); snprintf(b, sizeof(b), "%lld", (long long) x); return b; }
		case I64: { int64_t x;  memcpy(&x, p, sizeof(x)); snprintf(b, sizeof(b), "%lld", (long long) x); return b; }
		default: return NULL;
	}
}

static const char *mcvstr(int c, int v)
{
	static char b[4][24]; static int k;
	char *s = b[k++ & 3];
	if (c > 32 && c < 127 && v > 32 && v < 127) snprintf(s, 24, "%c%c%c", model_id, c, v);
	else snprintf(s, 24, "%c\\x%02x\\x%02x", model_id, c, v);
	return s;
}

static int load_exceptions(const char *path)
{
	FILE *f = fopen(path, "r");
	if (f == NULL) return -1;
	char line[1024];
	while (fgets(line, sizeof(line), f)) {
		char m[32], code[16], kind[32];
		if (line[0] == '#' || line[0] == '\n') continue;
		if (sscanf(line, "%31s %15s %31s", m, code, kind) != 3 || strlen(code) != 3) { fclose(f); return -2; }
		if (strcmp(m, MNAME) != 0) continue;
		if ((unsigned char) code[0] != (unsigned char) model_id) { fclose(f); return -2; }
		int c = (unsigned char) code[1];
		nexc_lines++;
		if (strcmp(kind, "wildcard") == 0 && code[2] == '*') {
			for (int v = 0; v < 256; v++) exc[c][v] = EXC_WILDCARD;
		} else if (strcmp(kind, "legacy") == 0) {
			exc[c][(unsigned char) code[2]] = EXC_LEGACY;
		} else { fclose(f); return -2; }
	}
	fclose(f);
	return 0;
}

/* ---------------- independent reference reading of a signature ---------------- */
/* "MCV" | "MCV(" type name { "," type name } ")" | "MCV+(" ... ")": returns the number of arguments, -1 if not of
 * that form; fills type index (order of enum ev_arg_type), size and name.  Written independently of ev_spec.c. */
static const struct { const char *name; int type; size_t size; } ref_types[] = {
	{ "u8", U8, 1 }, { "u16", U16, 2 }, { "u32", U32, 4 }, { "u64", U64, 8 },
	{ "i8", I8, 1 }, { "i16", I16, 2 }, { "i32", I32, 4 }, { "i64", I64, 8 }, { "str", STR, 0 },
};
struct ref_arg { int type; size_t size; char name[64]; };
static int ref_parse(const char *sig, int *jumbo, struct ref_arg *args, int maxargs)
{
	size_t n = strlen(sig);
	if (n < 3) return -1;
	const char *p = sig + 3;
	*jumbo = 0;
	if (*p == '+') { *jumbo = 1; p++; }
	if (*p == 0) return *jumbo ? -1 : 0;
	if (*p != '(' || sig[n - 1] != ')') return -1;
	p++;
	int na = 0;
	while (1) {
		char ty[16], nm[64]; int used = 0;
		if (sscanf(p, " %15[a-z0-9] %63[A-Za-z0-9_] %n", ty, nm, &used) != 2 || used == 0) return -1;
		if (na >= maxargs) return -1;
		int k, found = -1;
		for (k = 0; k < 9; k++) if (strcmp(ty, ref_types[k].name) == 0) found = k;
		if (found < 0) return -1;
		args[na].type = ref_types[found].type; args[na].size = ref_types[found].size;
		snprintf(args[na].name, sizeof(args[na].name), "%s", nm);
		na++;
		p += used;
		if (*p == ',') { p++; continue; }
		if (*p == ')' && p[1] == 0) break;
		return -1;
	}
	return na;
}

int main(int argc, char **argv)
{
	if (argc < 2) { fprintf(stderr, "usage: %s c18_exceptions.txt [--dump]\n", argv[0]); return 2; }
	int dump = argc > 2 && strcmp(argv[2], "--dump") == 0;
	char first[256];

	emu = calloc(1, sizeof(*emu)); th = calloc(1, sizeof(*th)); remote = calloc(1, sizeof(*remote));
	proc = calloc(1, sizeof(*proc)); loom = calloc(1, sizeof(*loom)); mth = calloc(1, sizeof(*mth));
	g_cpu[0] = calloc(1, sizeof(struct cpu)); g_cpu[1] = calloc(1, sizeof(struct cpu));
	if (!emu || !th || !remote || !proc || !loom || !mth || !g_cpu[0] || !g_cpu[1]) return 2;
	g_remote = remote;
	emu->thread = th; emu->proc = proc; emu->loom = loom;
	extend_set(&th->ext, model_id, mth);
#if HAS_TASKS
	extend_set(&proc->ext, model_id, &mproc);
#endif
#if HAS_MARKS
	extend_set(&emu->ext, model_id, &oemu);
	/* mark types for the type ids the two payload fills produce (real create_mark_type) */
	if (create_mark_type(&oemu.mark, 0, CHAN_STACK, "t0") == NULL ||
			create_mark_type(&oemu.mark, 0x01010101, CHAN_STACK, "t1") == NULL) return 2;
#endif

	/* ---- 1. the real registration: model_register -> model_evspec_init -> ev_spec_compile ---- */
	int nlisted = 0, wf_bad = 0;
	first[0] = 0;
	model_init(&emu->model);
	int reg = model_register(&emu->model, &MSPEC);
	if (reg != 0) { wf_bad++; snprintf(first, sizeof(first), "model_register/model_evspec_init refused the real model_evlist"); }
	if (reg == 0 && (MSPEC.evlist != model_evlist || MSPEC.model != model_id || MSPEC.event == NULL)) {
		wf_bad++; snprintf(first, sizeof(first), "model_spec does not carry model_evlist / model id / event handler");
	}
	emu->model.enabled[(unsigned char) model_id] = 1;
	if (reg == 0) {
		struct model_evspec *es = MSPEC.evspec;
		long n = 0;
		for (struct ev_decl *d = model_evlist; d->signature != NULL; d++) n++;
		if (n != es->nevents && !wf_bad++) snprintf(first, sizeof(first), "nevents %ld != %ld declarations", es->nevents, n);
		for (long i = 0; i < es->nevents; i++) {
			struct ev_spec *s = &es->alloc[i];
			const char *sig = model_evlist[i].signature;
			int c = (unsigned char) s->mcv[1], v = (unsigned char) s->mcv[2];
			/* independent re-checks of what model_evspec_init promises */
			int bad = 0;
			if (s->mcv[0] != model_id || memcmp(s->mcv, sig, 3) != 0 || s->mcv[3] != 0) bad = 1;
			if (listed[c][v] != NULL) bad = 1;                               /* duplicate MCV */
			if (model_evspec_find(es, s->mcv) != s) bad = 1;                 /* hashed under its own MCV */
			if (s->is_jumbo != (sig[3] == '+')) bad = 1;
			size_t off = s->is_jumbo ? 4 : 0;
			if (s->nargs < 0 || s->nargs > MAX_ARGS) bad = 1;
			for (int k = 0; !bad && k < s->nargs; k++) {
				if (s->args[k].offset != off || (int) s->args[k].type < 0 || s->args[k].type >= MAX_TYPE ||
						s->args[k].size != type_size[s->args[k].type]) bad = 1;
				if (s->args[k].type == STR && (!s->is_jumbo || k != s->nargs - 1)) bad = 1; /* a string only as last jumbo argument */
				off += s->args[k].size;
			}
			if (s->payload_size != off) bad = 1;
			{	/* the independent reading of the signature text agrees: kind, number, types, sizes, names */
				struct ref_arg ra[MAX_ARGS + 1]; int rj = 0;
				int rn = ref_parse(sig, &rj, ra, MAX_ARGS + 1);
				if (rn != s->nargs || rj != s->is_jumbo) bad = 1;
				for (int k = 0; !bad && k < rn; k++)
					if ((int) s->args[k].type != ra[k].type || s->args[k].size != ra[k].size || strcmp(s->args[k].name, ra[k].name) != 0) bad = 1;
			}
			if (!s->is_jumbo && s->payload_size > 16) bad = 1;                /* normal events carry at most 16 bytes */
			if (!s->is_jumbo && s->payload_size == 1) bad = 1;                /* a 1-byte payload cannot be encoded */
			if (s->description != model_evlist[i].description || s->description == NULL) bad = 1;
			if (bad && !wf_bad++) snprintf(first, sizeof(first), "first: '%s'", sig);
			listed[c][v] = s;
			decl_of[c][v] = &model_evlist[i];
			nlisted++;
			add_shape(s->is_jumbo, s->payload_size);
		}
	}
	obl("evlist_wellformed", wf_bad == 0, "%d declarations: the real model_register/model_evspec_init returns 0; every signature compiled by the real ev_spec_compile; "
			"model character '%c'; no duplicate MCV; argument types, sizes and names equal an independent reading of the signature text; offsets cumulative, payload_size = sum of sizes (+4 jumbo), <= 16 bytes unless jumbo; str only as last jumbo argument; %d bad %s",
			nlisted, model_id, wf_bad, first);
	if (reg != 0) { printf("DONE %d\n", nobl); return 1; }

	if (load_exceptions(argv[1]) != 0) { obl("exceptions_exact", 0, "cannot read/parse %s", argv[1]); printf("DONE %d\n", nobl); return 1; }

	/* generic shapes offered to every code */
	add_shape(0, 0); add_shape(0, 4); add_shape(0, 8); add_shape(0, 12); add_shape(0, 16); add_shape(0, 20);

	/* ---- 2. exhaustive evaluation ---- */
	long ncalls = 0, nctx = (long) NSTATES * nshapes * NFILL * NRUN * NPAR, bad_ret = 0;
	for (int c = 0; c < 256; c++) for (int v = 0; v < 256; v++) {
		int any = 0, all = 1;
		for (int st = 0; st < NSTATES; st++) for (int sh = 0; sh < nshapes; sh++) for (int f = 0; f < NFILL; f++)
		for (int run = 0; run < NRUN; run++) for (int par = 0; par < NPAR; par++) {
			int state = ALL_THREAD_STATES ? st : TH_ST_RUNNING;
			int r = evaluate(c, v, model_id, state, &shapes[sh], f, run, par);
			ncalls++;
			if (r != 0 && r != -1) bad_ret++;
			if (r == 0) any = 1; else all = 0;
			if (g_lower) low_any[c][v] = 1;
			struct ev_spec *s = listed[c][v];
			if (s != NULL && shapes[sh].jumbo == s->is_jumbo && shapes[sh].psize == s->payload_size) {
				nctx_decl[c][v]++;
				if (r == 0) acc_decl[c][v] = 1;
				if (g_lower) low_decl[c][v]++;
			}
		}
		acc_any[c][v] = (unsigned char) any; acc_all[c][v] = (unsigned char) all;
	}

	if (dump) {
		for (int c = 0; c < 256; c++) for (int v = 0; v < 256; v++)
			if (acc_any[c][v] || listed[c][v])
				printf("%s %s %s any=%d all=%d decl=%d lower=%d exc=%d\n", MNAME, mcvstr(c, v), listed[c][v] ? "listed" : "UNLISTED",
						acc_any[c][v], acc_all[c][v], acc_decl[c][v], low_any[c][v], exc[c][v]);
		return 0;
	}

	/* ---- 3. listed => accepted in a legal context of the declared shape ---- */
	{
		long bad = 0; first[0] = 0;
		for (int c = 0; c < 256; c++) for (int v = 0; v < 256; v++) {
			if (listed[c][v] == NULL || acc_decl[c][v]) continue;
			if (!bad++) snprintf(first, sizeof(first), "first offender: %s '%s' refused in all %d contexts of its declared shape; a lower layer was reached in %d of them (%s)",
					mcvstr(c, v), decl_of[c][v]->signature, nctx_decl[c][v], low_decl[c][v],
					low_decl[c][v] == 0 ? "refused as unknown by the handler" : "context set insufficient or lower-layer precondition");
		}
		obl("listed_accepted", bad == 0 && nlisted > 0, "%d listed events, each accepted by the real handler in at least one legal context with a payload of its declared shape (%ld contexts per cell, %ld handler calls); %ld refused %s",
				nlisted, nctx, ncalls, bad, first);
	}
	/* ---- 4. unlisted => refused in every context (modulo exceptions) ---- */
	{
		long bad = 0, n = 0, nlow = 0; first[0] = 0;
		for (int c = 0; c < 256; c++) for (int v = 0; v < 256; v++) {
			if (listed[c][v] != NULL || exc[c][v]) continue;
			n++;
			if (low_any[c][v]) nlow++;
			if (acc_any[c][v] && !bad++) snprintf(first, sizeof(first), "first offender: %s is accepted by the handler but not in model_evlist", mcvstr(c, v));
		}
		obl("unlisted_rejected", bad == 0 && bad_ret == 0, "%ld unlisted (c,v) cells refused (-1) in all %ld contexts (%ld of them touched a lower layer before refusing; %ld results outside {0,-1}); %ld accepted %s",
				n, nctx, nlow, bad_ret, bad, first);
	}
	/* ---- 5. the exception table is exact ---- */
	{
		long bad = 0, n = 0; first[0] = 0;
		for (int c = 0; c < 256; c++) for (int v = 0; v < 256; v++) {
			if (!exc[c][v]) continue;
			n++;
			int ok;
			if (exc[c][v] == EXC_WILDCARD) ok = acc_any[c][v];                 /* every value byte accepted, listed or not */
			else ok = listed[c][v] == NULL && acc_any[c][v];                   /* legacy: unlisted yet accepted */
			if (!ok && !bad++) snprintf(first, sizeof(first), "first offender: exception %s (%s) is not needed: listed=%d accepted=%d",
					mcvstr(c, v), exc[c][v] == EXC_WILDCARD ? "wildcard" : "legacy", listed[c][v] != NULL, acc_any[c][v]);
		}
		obl("exceptions_exact", bad == 0, "%d exception lines of spec/c18_exceptions.txt for this model covering %ld cells: each covered cell is accepted, legacy cells are unlisted; %ld stale %s",
				nexc_lines, n, bad, first);
	}
	/* ---- 6a. model_evspec_init refuses every single-entry corruption of the real catalogue ---- */
	{
		long bad = 0, ndup = 0, nmodel = 0, nok = 0; first[0] = 0;
		int n = nlisted;
		struct ev_decl *tmp = calloc((size_t) n + 1, sizeof(*tmp));
		char (*sigbuf)[300] = calloc((size_t) n, 300);
		struct model_spec ms = MSPEC;
		ms.evlist = tmp; ms.evspec = NULL;
		struct model_evspec es;
#define TRY_INIT() (model_evspec_init(&es, &ms) == 0 ? (free(es.alloc), 0) : (free(es.alloc), -1))
		for (int i = 0; i < n; i++) tmp[i] = model_evlist[i];
		if (TRY_INIT() != 0) { if (!bad++) snprintf(first, sizeof(first), "the unmodified copy is refused"); } else nok++;
		for (int i = 0; i < n; i++) tmp[i] = model_evlist[n - 1 - i];      /* order does not matter */
		if (TRY_INIT() != 0) { if (!bad++) snprintf(first, sizeof(first), "the reversed copy is refused"); } else nok++;
		for (int i = 0; i < n; i++) tmp[i] = model_evlist[i];
		for (int j = 0; j < n; j++) {
			/* entry j takes the code of entry i (its own argument list kept) */
			for (int i = 0; i < n; i++) {
				if (i == j) continue;
				snprintf(sigbuf[j], 300, "%.3s%s", model_evlist[i].signature, model_evlist[j].signature + 3);
				tmp[j].signature = sigbuf[j];
				ndup++;
				if (TRY_INIT() == 0 && !bad++) snprintf(first, sizeof(first), "first offender: duplicate %.3s (entries %d and %d) accepted", sigbuf[j], i, j);
			}
			/* entry j takes another model character */
			for (int b = 1; b < 256; b++) {
				if (b == (unsigned char) model_id) continue;
				snprintf(sigbuf[j], 300, "%c%s", b, model_evlist[j].signature + 1);
				tmp[j].signature = sigbuf[j];
				nmodel++;
				if (TRY_INIT() == 0 && !bad++) snprintf(first, sizeof(first), "first offender: entry %d with model byte 0x%02x accepted", j, b);
			}
			tmp[j] = model_evlist[j];
		}
		free(tmp); free(sigbuf);
		obl("init_refuses_corrupt", bad == 0 && nok == 2, "the real model_evspec_init on copies of the real catalogue: unmodified and reversed accepted; refused for each of %ld copies where one entry repeats another entry's MCV "
				"and each of %ld copies where one entry carries another model byte; %ld bad %s", ndup, nmodel, bad, first);
	}
	/* ---- 6b. sample malformed signatures (the argument-list grammar is not decided by the CBMC groups) ---- */
	{
		static const char *malformed[] = { "", "O", "OA", "O A", "OAr+", "OArx", "OAr()", "OAr(", "OAr+()", "OAr(i32)", "OAr(i32 )", "OAr( i32)", "OAr(x32 a)", "OAr(I32 a)",
			"OAr(i32 a,u7 b)", "OAr(i32 a, u8)", "OAr(,)", "OAr(i32 a)x", "OAr)i32 a(", "OAr[i32 a]",
			"OAr(u8 a,u8 b,u8 c,u8 d,u8 e,u8 f,u8 g,u8 h,u8 i,u8 j,u8 k,u8 l,u8 m,u8 n,u8 o,u8 p,u8 q)", NULL };
		static const struct { const char *sig; int jumbo, nargs; size_t psize; } wellformed[] = {
			{ "OAr", 0, 0, 0 }, { "OAr(u8 a)", 0, 1, 1 }, { "OAr(i64 v, i32 t)", 0, 2, 12 }, { "VYc+(u32 t, str l)", 1, 2, 8 },
			{ "OAr(u8 a,u8 b,u8 c,u8 d,u8 e,u8 f,u8 g,u8 h,u8 i,u8 j,u8 k,u8 l,u8 m,u8 n,u8 o,u8 p)", 0, 16, 16 }, { NULL, 0, 0, 0 } };
		long bad = 0, n = 0; first[0] = 0;
		for (int i = 0; malformed[i] != NULL; i++) {
			struct ev_spec sp; struct ev_decl d = { malformed[i], "x" }; n++;
			if (ev_spec_compile(&sp, &d) == 0 && !bad++) snprintf(first, sizeof(first), "first offender: malformed '%s' compiles", malformed[i]);
		}
		for (int i = 0; wellformed[i].sig != NULL; i++) {
			struct ev_spec sp; struct ev_decl d = { wellformed[i].sig, "x" }; n++;
			int r = ev_spec_compile(&sp, &d);
			if ((r != 0 || sp.is_jumbo != wellformed[i].jumbo || sp.nargs != wellformed[i].nargs || sp.payload_size != wellformed[i].psize) && !bad++)
				snprintf(first, sizeof(first), "first offender: '%s' ret=%d nargs=%d psize=%zu", wellformed[i].sig, r, sp.nargs, sp.payload_size);
		}
		/* PINNED leniencies of the real parser (accepted although not of the documented form) */
		static const char *lenient[] = { "OAr(i32 a", "OAr(i32 a,,u8 b)", "OAr(i32 a extra)", "OAr(i32 a) u8 b", NULL };
		long nlen = 0;
		for (int i = 0; lenient[i] != NULL; i++) {
			struct ev_spec sp; struct ev_decl d = { lenient[i], "x" };
			if (ev_spec_compile(&sp, &d) == 0) nlen++;
		}
		obl("compile_samples", bad == 0, "SAMPLES (not exhaustive): %ld malformed / well-formed signatures refused / compiled to the expected shape by the real ev_spec_compile; %ld of 4 lenient forms "
				"(missing ')', empty argument, extra word, text after ')') are accepted by the parser (reported, not required); %ld bad %s", n, nlen, bad, first);
	}
	/* ---- 6. the handler refuses events of another model ---- */
	{
		long bad = 0, n = 0; first[0] = 0;
		for (int m = 0; m < 256; m++) {
			if (m == (unsigned char) model_id) continue;
			for (int c = 0; c < 256; c++) for (int v = 0; v < 256; v++) {
				if (listed[c][v] == NULL) continue;
				struct emu_ev ev; memset(&ev, 0, sizeof(ev));
				struct shape s = { listed[c][v]->is_jumbo, listed[c][v]->payload_size };
				ev.m = (uint8_t) m; ev.c = (uint8_t) c; ev.v = (uint8_t) v;
				ev.payload_size = build_payload(&s, 1); ev.has_payload = ev.payload_size > 0;
				ev.payload = ev.payload_size ? &pbuf.p : NULL; ev.is_jumbo = s.jumbo;
				set_state(th, TH_ST_RUNNING); th->cpu = g_cpu[0]; th->is_out_of_cpu = 0;
				emu->ev = &ev; g_lower = 0; n++;
				/* a spec without handler makes the real model_event() accept everything: count as accepted */
				int r = MSPEC.event ? MSPEC.event(emu) : 0;
				if ((r == 0 || g_lower) && !bad++) snprintf(first, sizeof(first), "first offender: model byte 0x%02x with %c%c accepted", m, c, v);
			}
		}
		obl("foreign_model_rejected", bad == 0, "%ld (model byte != '%c', listed c, v): model_%s_event refuses without touching a lower layer; %ld bad %s", n, model_id, MNAME, bad, first);
	}
	/* ---- 7. ovnidump's decoding of every listed event (finite part of the decoding clause) ---- */
	{
		long bad = 0, n = 0, short_bad = 0; first[0] = 0;
		for (int c = 0; c < 256; c++) for (int v = 0; v < 256; v++) {
			struct ev_spec *s = listed[c][v];
			if (s == NULL) continue;
			for (int f = 0; f < NFILL; f++) {
				struct shape sh = { s->is_jumbo, s->payload_size };
				struct emu_ev ev; memset(&ev, 0, sizeof(ev));
				ev.m = (uint8_t) model_id; ev.c = (uint8_t) c; ev.v = (uint8_t) v;
				ev.payload_size = build_payload(&sh, f); ev.has_payload = ev.payload_size > 0;
				ev.payload = ev.payload_size ? &pbuf.p : NULL; ev.is_jumbo = sh.jumbo;
				char out[1024]; memset(out, 0x7f, sizeof(out));
				int r = model_event_print(&emu->model, &ev, out, (int) sizeof(out));
				n++;
				int ok = r == 0 && memchr(out, 0, sizeof(out)) != NULL && strstr(out, "%{") == NULL && strchr(out, '{') == NULL && strchr(out, '}') == NULL;
				/* every fixed part of the description is there in order; an argument was substituted for each %...{name} */
				if (ok) {
					const char *d = s->description, *o = out;
					while (*d && ok) {
						if (*d == '%' && d[1] == '%') { if (*o != '%') ok = 0; o++; d += 2; continue; }
						if (*d == '%') {
							const char *e = strchr(d, '}');
							if (e == NULL) { ok = 0; break; }
							/* "%{name}" (no custom printf format): the DEFAULT format of the argument's type is
							 * used; the substituted text must then be the argument's value in decimal, full width
							 * (this is a fact about the type_fmt table of ev_spec.c, not about libc) */
							char an[64]; an[0] = 0;
							if (d[1] == '{' && (size_t) (e - d - 2) < sizeof(an)) { memcpy(an, d + 2, (size_t) (e - d - 2)); an[e - d - 2] = 0; }
							d = e + 1;
							/* the substituted text runs up to the next literal character of the description */
							const char *nx = (*d == 0) ? o + strlen(o) : strchr(o, *d);
							if (nx == NULL) { ok = 0; break; }
							if (an[0]) {
								const char *want = expected_default_text(s, an, &ev);
								if (want != NULL && ((size_t) (nx - o) != strlen(want) || strncmp(o, want, (size_t) (nx - o)) != 0)) ok = 0;
							}
							o = nx;
							if (*d == 0) break;
							continue;
						}
						if (*o != *d) ok = 0;
						o++; d++;
					}
					if (ok && *o != 0) ok = 0;
				}
				if (!ok && !bad++) snprintf(first, sizeof(first), "first offender: %s fill %d ret=%d out='%.80s'", mcvstr(c, v), f, r, r == 0 ? out : "");
				/* a payload one byte shorter than declared is refused, not read */
				if (s->payload_size > 0) {
					ev.payload_size = s->is_jumbo ? ev.payload_size - 1 : s->payload_size - 1;
					if (s->is_jumbo) pbuf.b[ev.payload_size] = 'x';   /* the terminator is gone */
					if (model_event_print(&emu->model, &ev, out, (int) sizeof(out)) == 0) { short_bad++; if (!bad++) snprintf(first, sizeof(first), "first offender: %s printed with a payload one byte short", mcvstr(c, v)); }
				}
			}
		}
		/* unlisted codes have no description */
		long unl = 0;
		for (int c = 0; c < 256; c++) for (int v = 0; v < 256; v++) {
			if (listed[c][v] != NULL) continue;
			struct emu_ev ev; memset(&ev, 0, sizeof(ev)); char out[64];
			ev.m = (uint8_t) model_id; ev.c = (uint8_t) c; ev.v = (uint8_t) v;
			if (model_event_print(&emu->model, &ev, out, 64) == 0) { unl++; if (!bad++) snprintf(first, sizeof(first), "first offender: unlisted %s printed", mcvstr(c, v)); }
		}
		obl("print_listed", bad == 0, "%ld (listed event, fill) payloads of the declared shape: the real model_event_print returns 0, output NUL-terminated, the literal parts of the description in order with a value "
				"in place of every %%{arg}, no brace left; one byte less => refused; no unlisted code prints (%ld did); for arguments printed with the DEFAULT format of their type the substituted text is the decimal value read with the declared type and width (custom printf formats and strings: not decided, libc formatting); %ld bad %s",
				n, unl, bad, first);
	}
	printf("DONE %d\n", nobl);
	return 0;
}
