/* G5 -- per-model configuration tables, native evaluation (HOWTO "native": true).
 *
 * One model per build (-DG5_<MODEL>).  The REAL src/emu/<model>/event.c and setup.c are
 * #included.  The tables are reached the way the emulator reaches them: the REAL hooks of the
 * real model_spec are CALLED on an empty system (no loom, process, thread, CPU) with capturing
 * stubs of model_thread_create / model_cpu_create / model_thread_connect / model_cpu_connect /
 * model_version_probe; what the hooks hand to those functions is what is dumped and checked
 * (model_thread_spec -> model_chan_spec -> ch_names / ch_stack / ch_dup / track / model_pvt_spec
 *  -> type / prefix / label / flags).
 *
 * Finite facts only: <= CH_MAX channels per model, 8 models, the label tables, 48 cfg files.
 *
 * Obligations (per model), "OBL g5.<model>.<check> PASS|FAIL <detail>":
 *   hooks          model_spec record well formed; probe/create/connect/event non-NULL; the real
 *                  hooks run and pass the same thread/CPU spec at create and connect
 *   doc_spec       (name, model byte, version) = header line of doc/user/emulation/events.md;
 *                  the eight documented model bytes are pairwise distinct
 *   wiring         thread and CPU channel specs describe the same channels (names, kinds, pvt)
 *   names          every channel index < CH_MAX has a non-empty, distinct name
 *   types          Paraver type > 0 (or -1 = "no PCF type"), below the mark range, distinct within
 *                  the model, from the thread/CPU base types, from every other model's types
 *   tracking       thread mode within the enum; CPU mode == TRACK_TH_RUN for every channel
 *   flags          PRV flags: known bits, exactly one duplicate policy, PRV_ZERO iff a 0 label
 *   labels         every value-label table terminated, values/labels unique, > 0, non-empty
 *   kind_vs_events stack channels are exactly those with PUSH/POP rows in spec/c08_events.ref,
 *                  SET rows only on single channels
 *   reference      spec/g5_model_channels.ref: spec row, channel rows, label rows (both directions)
 *   cfg_types      every evt_type of every /repo/cfg cfg file is a type some model emits, and the
 *                  cfg lives in the directory of the model that owns the type
 *   cfg_coverage   every channel type of this model is displayed by at least one cfg
 *   cfg_labels     the "of the ACTIVE/RUNNING thread" suffix of a cfg's evt_type_label agrees with
 *                  the tracking mode of the channel in that view
 * NOT duplicated here (already decided by C08 tables_<model>, obligation "labels", on the real
 * handlers): push/pop only on stack channels, set only on single channels, every value an event
 * pushes/sets has a PCF label.
 *
 * Cross-model facts (type numbers and model bytes distinct over the eight models) are decided from the REAL
 * tables of this build x the reference rows of the other seven models; each of those is compared with its own
 * real tables by its own group, so the eight groups together decide pairwise distinctness.
 * A crash while scanning (label table without terminator, table shorter than CH_MAX) or a die() inside a real
 * hook is reported as FAIL of the running check and of every check not yet evaluated (never as a tool crash).
 * --only / --skip select checks by name (nanos6: cfg_labels fails on the unchanged tree and lives in its own
 * observation group, see plan/C06.json modelspec_nanos6_cfg_labels).
 *
 * usage: native <c08_events.ref> <g5_model_channels.ref> <events.md> <cfgdir> [--dump] [--only a,b] [--skip a,b]
 */
#define _GNU_SOURCE
#include <stdio.h>
#include <stdlib.h>
#include <string.h>
#include <stdarg.h>
#include <stdint.h>
#include <inttypes.h>
#include <ctype.h>
#include <dirent.h>
#include <sys/stat.h>
#include <signal.h>
#include <unistd.h>

#if defined(G5_NOSV)
#  include "nosv/event.c"
#  include "nosv/setup.c"
#  define MNAME "nosv"
#  define MSPEC model_nosv
#  define HAS_BREAKDOWN_NOSV 1
#elif defined(G5_NANOS6)
#  include "nanos6/event.c"
#  include "nanos6/setup.c"
#  define MNAME "nanos6"
#  define MSPEC model_nanos6
#  define HAS_BREAKDOWN_NANOS6 1
#elif defined(G5_NODES)
#  include "nodes/event.c"
#  include "nodes/setup.c"
#  define MNAME "nodes"
#  define MSPEC model_nodes
#elif defined(G5_MPI)
#  include "mpi/event.c"
#  include "mpi/setup.c"
#  define MNAME "mpi"
#  define MSPEC model_mpi
#elif defined(G5_TAMPI)
#  include "tampi/event.c"
#  include "tampi/setup.c"
#  define MNAME "tampi"
#  define MSPEC model_tampi
#elif defined(G5_OPENMP)
#  include "openmp/event.c"
#  include "openmp/setup.c"
#  define MNAME "openmp"
#  define MSPEC model_openmp
#elif defined(G5_KERNEL)
#  include "kernel/event.c"
#  include "kernel/setup.c"
#  define MNAME "kernel"
#  define MSPEC model_kernel
#elif defined(G5_OVNI)
#  include "ovni/event.c"
#  include "ovni/setup.c"
#  define MNAME "ovni"
#  define MSPEC model_ovni
#  define HAS_MARK 1
#else
#  error "define one of G5_NOSV G5_NANOS6 G5_NODES G5_MPI G5_TAMPI G5_OPENMP G5_KERNEL G5_OVNI"
#endif
#include "extend.c"           /* the real extend_get / extend_set */
#include "emu_prv.h"
#include "pv/prv.h"
#include "pv/pcf.h"
#include "track.h"

/* ---------------- stubs for what is outside the unit ---------------- */
int is_debug_enabled = 0;
void verr(const char *prefix, const char *func, const char *errstr, ...) { (void) prefix; (void) func; (void) errstr; }
static void on_crash(int sig);
void vdie(const char *prefix, const char *func, const char *errstr, ...)
{
	(void) prefix; (void) func; (void) errstr;
	on_crash(-1);   /* die() inside a real hook: every open obligation fails */
	exit(1);
}
char value_buffers[VALUE_NBUF][VALUE_BUFSIZE];
size_t value_nextbuf = 0;
int chan_push(struct chan *c, struct value v) { (void) c; (void) v; return 0; }
int chan_pop(struct chan *c, struct value v) { (void) c; (void) v; return 0; }
int chan_set(struct chan *c, struct value v) { (void) c; (void) v; return 0; }

/* capturing stubs: what the real hooks pass down */
static const struct model_thread_spec *cap_th_create, *cap_th_connect;
static const struct model_cpu_spec *cap_cpu_create, *cap_cpu_connect;
static struct model_spec *cap_probe;
static int n_th_create, n_th_connect, n_cpu_create, n_cpu_connect, n_probe;
int model_thread_create(struct emu *emu, const struct model_thread_spec *spec) { (void) emu; cap_th_create = spec; n_th_create++; return 0; }
int model_thread_connect(struct emu *emu, const struct model_thread_spec *spec) { (void) emu; cap_th_connect = spec; n_th_connect++; return 0; }
int model_cpu_create(struct emu *emu, const struct model_cpu_spec *spec) { (void) emu; cap_cpu_create = spec; n_cpu_create++; return 0; }
int model_cpu_connect(struct emu *emu, const struct model_cpu_spec *spec) { (void) emu; cap_cpu_connect = spec; n_cpu_connect++; return 0; }
int model_version_probe(struct model_spec *spec, struct emu *emu) { (void) emu; cap_probe = spec; n_probe++; return 0; }
#ifdef HAS_MARK
int mark_create(struct emu *emu) { (void) emu; return 0; }
int mark_connect(struct emu *emu) { (void) emu; return 0; }
#endif
#ifdef HAS_BREAKDOWN_NOSV
int model_nosv_breakdown_create(struct emu *emu) { (void) emu; return 0; }
int model_nosv_breakdown_connect(struct emu *emu) { (void) emu; return 0; }
#endif
#ifdef HAS_BREAKDOWN_NANOS6
int model_nanos6_breakdown_create(struct emu *emu) { (void) emu; return 0; }
int model_nanos6_breakdown_connect(struct emu *emu) { (void) emu; return 0; }
#endif

/* ---------------- output ---------------- */
static int nobl;
static const char *stage = "hooks";
static const char *all_checks[] = { "hooks", "doc_spec", "wiring", "names", "types", "tracking", "flags", "labels", "kind_vs_events", "reference", "cfg_types", "cfg_coverage", "cfg_labels" };
#define NCHECKS ((int) (sizeof(all_checks) / sizeof(all_checks[0])))
static int emitted[NCHECKS];
static int wanted(const char *check);
/* a table shorter than the code assumes (label table without terminator, array shorter than CH_MAX) makes the
 * scan run into unrelated memory: report that as failed obligations, not as a tool crash */
static void on_crash(int sig)
{
	char buf[500];
	fflush(stdout);
	for (int i = 0; i < NCHECKS; i++) {
		if (emitted[i] || !wanted(all_checks[i])) continue;
		int n;
		if (strcmp(all_checks[i], stage) == 0)
			n = snprintf(buf, sizeof(buf), "OBL g5.%s.%s FAIL evaluator stopped (signal %d; -1 = die() in the real code) while reading the tables: a label table is not terminated or a table is shorter than CH_MAX\n", MNAME, all_checks[i], sig);
		else
			n = snprintf(buf, sizeof(buf), "OBL g5.%s.%s FAIL not evaluated: the evaluator crashed (signal %d) in check '%s'\n", MNAME, all_checks[i], sig, stage);
		if (n > 0) { ssize_t w = write(1, buf, (size_t) n); (void) w; }
		nobl++;
	}
	int n = snprintf(buf, sizeof(buf), "DONE %d\n", nobl);
	if (n > 0) { ssize_t w = write(1, buf, (size_t) n); (void) w; }
	_exit(1);
}
static const char *only_list, *skip_list;
static int in_list(const char *list, const char *name)
{
	size_t n = strlen(name);
	for (const char *p = list; p && *p; ) {
		const char *e = strchr(p, ',');
		size_t l = e ? (size_t) (e - p) : strlen(p);
		if (l == n && strncmp(p, name, n) == 0) return 1;
		p = e ? e + 1 : p + l;
	}
	return 0;
}
static int wanted(const char *check)
{
	if (only_list) return in_list(only_list, check);
	if (skip_list) return !in_list(skip_list, check);
	return 1;
}
static void obl(const char *check, int ok, const char *fmt, ...)
{
	char buf[1400];
	for (int i = 0; i < NCHECKS; i++) if (strcmp(all_checks[i], check) == 0) emitted[i] = 1;
	if (!wanted(check)) return;
	va_list ap; va_start(ap, fmt); vsnprintf(buf, sizeof(buf), fmt, ap); va_end(ap);
	for (char *p = buf; *p; p++) if (*p == '\n') *p = ' ';
	printf("OBL g5.%s.%s %s %s\n", MNAME, check, ok ? "PASS" : "FAIL", buf);
	nobl++;
}
/* first offender text */
static char first[700];
static long nbad;
static void bad(const char *fmt, ...)
{
	if (nbad++ == 0) { va_list ap; va_start(ap, fmt); vsnprintf(first, sizeof(first), fmt, ap); va_end(ap); }
}
static void reset(void) { nbad = 0; first[0] = 0; }

/* ---------------- the tables as the emulator sees them ---------------- */
#define MAXCH 64
#define MAXLAB 4096
static const struct model_thread_spec *S_th;
static const struct model_cpu_spec *S_cpu;
static int NCH;

static const char *track_name(int m)
{
	return m == TRACK_TH_ANY ? "ANY" : m == TRACK_TH_RUN ? "RUN" : m == TRACK_TH_ACT ? "ACT" : "INVALID";
}
static const char *flags_str(long f)
{
	static char b[4][128]; static int k;
	char *s = b[k++ & 3]; s[0] = 0;
	static const struct { long bit; const char *n; } t[] = {
		{ PRV_EMITDUP, "EMITDUP" }, { PRV_SKIPDUP, "SKIPDUP" }, { PRV_NEXT, "NEXT" }, { PRV_ZERO, "ZERO" }, { PRV_SKIPDUPNULL, "SKIPDUPNULL" } };
	long rest = f;
	for (int i = 0; i < 5; i++) if (f & t[i].bit) { if (s[0]) strcat(s, "|"); strcat(s, t[i].n); rest &= ~t[i].bit; }
	if (rest) { char x[32]; snprintf(x, sizeof(x), "%s0x%lx", s[0] ? "|" : "", rest); strcat(s, x); }
	if (!s[0]) strcpy(s, "0");
	return s;
}
static const char *ch_name(int i) { const char *n = S_th->chan->ch_names ? S_th->chan->ch_names[i] : NULL; return n ? n : "(null)"; }
static int ch_stack(int i) { return S_th->chan->ch_stack ? S_th->chan->ch_stack[i] != 0 : 0; }
static int ch_dup(int i) { return S_th->chan->ch_dup ? S_th->chan->ch_dup[i] != 0 : 0; }
static int th_mode(int i) { return S_th->chan->track[i]; }
static int cpu_mode(int i) { return S_cpu->chan->track[i]; }
static long ch_type(int i) { return S_th->chan->pvt->type[i]; }
static long ch_flags(int i) { return S_th->chan->pvt->flags ? S_th->chan->pvt->flags[i] : 0; }
static const char *ch_prefix(int i) { const char *p = S_th->chan->pvt->prefix ? S_th->chan->pvt->prefix[i] : NULL; return p ? p : "(null)"; }
static const struct pcf_value_label *ch_labels(int i) { return S_th->chan->pvt->label ? S_th->chan->pvt->label[i] : NULL; }
static int nlabels(int i)
{
	const struct pcf_value_label *l = ch_labels(i);
	if (l == NULL) return 0;
	int n = 0;
	while (n < MAXLAB && l[n].label != NULL) n++;
	return n;
}

/* thread/CPU base types and the per-model types that are not model channels (emu_prv.h) */
static const struct { long type; const char *owner, *what; } extra_types[] = {
	{ PRV_CPU_PID, "ovni", "cpu.c CPU_CHAN_PID" }, { PRV_CPU_TID, "ovni", "cpu.c CPU_CHAN_TID / thread.c TH_CHAN_TID" },
	{ PRV_CPU_NRUN, "ovni", "cpu.c CPU_CHAN_NRUN" }, { PRV_THREAD_STATE, "ovni", "thread.c TH_CHAN_STATE" },
	{ PRV_THREAD_CPU, "ovni", "thread.c TH_CHAN_CPU" }, { PRV_OVNI_MARK, "ovni", "ovni/mark.c (100 + mark type)" },
	{ PRV_NOSV_BREAKDOWN, "nosv", "nosv/breakdown.c" }, { PRV_NANOS6_BREAKDOWN, "nanos6", "nanos6/breakdown.c" },
};
#define NEXTRA ((int) (sizeof(extra_types) / sizeof(extra_types[0])))

/* ---------------- the reference file ---------------- */
static const char *models8[8] = { "ovni", "nosv", "nanos6", "nodes", "mpi", "tampi", "openmp", "kernel" };
struct ref_chan { char model[16], name[64], kind[16], th[8], cpu[8], flags[64], prefix[256]; int dup; long type; int seen; };
struct ref_spec { char model[16], byte[8], version[32]; int probe, create, connect, event, finish; };
struct ref_label { char model[16], chan[64], text[300]; long value; int seen; };
static struct ref_chan rchan[256]; static int nrchan;
static struct ref_spec rspec[32]; static int nrspec;
static struct ref_label rlabel[2048]; static int nrlabel;
static char ref_err[200];

static int load_ref(const char *path)
{
	FILE *f = fopen(path, "r");
	if (f == NULL) { snprintf(ref_err, sizeof(ref_err), "cannot open %s", path); return -1; }
	char line[2048];
	int ln = 0;
	while (fgets(line, sizeof(line), f)) {
		ln++;
		char *c = strstr(line, "\t#"); if (c) *c = 0;
		size_t n = strlen(line); while (n && (line[n - 1] == '\n' || line[n - 1] == ' ' || line[n - 1] == '\t')) line[--n] = 0;
		if (line[0] == '#' || line[0] == 0) continue;
		if (strncmp(line, "chan ", 5) == 0 && nrchan < 256) {
			struct ref_chan *r = &rchan[nrchan];
			if (sscanf(line, "chan %15s name=%63s kind=%15s dup=%d th=%7s cpu=%7s type=%ld flags=%63s prefix=\"%255[^\"]\"",
						r->model, r->name, r->kind, &r->dup, r->th, r->cpu, &r->type, r->flags, r->prefix) != 9) goto unparsable;
			nrchan++;
		} else if (strncmp(line, "spec ", 5) == 0 && nrspec < 32) {
			struct ref_spec *r = &rspec[nrspec];
			if (sscanf(line, "spec %15s byte=%7s version=%31s probe=%d create=%d connect=%d event=%d finish=%d",
						r->model, r->byte, r->version, &r->probe, &r->create, &r->connect, &r->event, &r->finish) != 8) goto unparsable;
			nrspec++;
		} else if (strncmp(line, "label ", 6) == 0 && nrlabel < 2048) {
			struct ref_label *r = &rlabel[nrlabel];
			if (sscanf(line, "label %15s %63s %ld \"%299[^\"]\"", r->model, r->chan, &r->value, r->text) != 4) goto unparsable;
			nrlabel++;
		} else {
unparsable:
			snprintf(ref_err, sizeof(ref_err), "unparsable reference line %d: %.80s", ln, line);
			fclose(f);
			return -1;
		}
	}
	fclose(f);
	return 0;
}

/* ---------------- cfg files ---------------- */
struct cfg { char view[16], dir[32], file[64]; long types[8]; int ntypes; char label[256]; };
static struct cfg cfgs[512]; static int ncfg;
static char cfg_err[200];

static int load_cfg_file(const char *path, const char *view, const char *dir, const char *file)
{
	FILE *f = fopen(path, "r");
	if (f == NULL) { snprintf(cfg_err, sizeof(cfg_err), "cannot open %s", path); return -1; }
	if (ncfg >= 512) { fclose(f); snprintf(cfg_err, sizeof(cfg_err), "too many cfg files"); return -1; }
	struct cfg *c = &cfgs[ncfg++];
	memset(c, 0, sizeof(*c));
	snprintf(c->view, sizeof(c->view), "%s", view); snprintf(c->dir, sizeof(c->dir), "%s", dir); snprintf(c->file, sizeof(c->file), "%s", file);
	char line[8192];
	while (fgets(line, sizeof(line), f)) {
		const char *k1 = "window_filter_module evt_type_label ", *k2 = "window_filter_module evt_type ";
		if (strncmp(line, k1, strlen(k1)) == 0) {
			char *q = strchr(line, '"');
			if (q) { snprintf(c->label, sizeof(c->label), "%s", q + 1); char *e = strrchr(c->label, '"'); if (e) *e = 0; }
		} else if (strncmp(line, k2, strlen(k2)) == 0) {
			char *p = line + strlen(k2);
			long cnt = strtol(p, &p, 10);
			for (long i = 0; i < cnt; i++) {
				char *e; long t = strtol(p, &e, 10);
				if (e == p) { snprintf(cfg_err, sizeof(cfg_err), "%s: evt_type line shorter than its count", path); fclose(f); return -1; }
				p = e;
				if (c->ntypes < 8) c->types[c->ntypes++] = t;
			}
		}
	}
	fclose(f);
	return 0;
}
static int load_cfgs(const char *root)
{
	static const char *views[2] = { "thread", "cpu" };
	DIR *top = opendir(root);
	if (top == NULL) { snprintf(cfg_err, sizeof(cfg_err), "cannot open %s", root); return -1; }
	struct dirent *e;
	/* only the two views exist */
	while ((e = readdir(top)) != NULL) {
		if (e->d_name[0] == '.') continue;
		if (strcmp(e->d_name, "thread") != 0 && strcmp(e->d_name, "cpu") != 0) { snprintf(cfg_err, sizeof(cfg_err), "unexpected entry %s/%s", root, e->d_name); closedir(top); return -1; }
	}
	closedir(top);
	for (int v = 0; v < 2; v++) {
		char p1[1024]; snprintf(p1, sizeof(p1), "%s/%s", root, views[v]);
		DIR *d1 = opendir(p1);
		if (d1 == NULL) { snprintf(cfg_err, sizeof(cfg_err), "cannot open %s", p1); return -1; }
		while ((e = readdir(d1)) != NULL) {
			if (e->d_name[0] == '.') continue;
			char p2[1200]; snprintf(p2, sizeof(p2), "%s/%s", p1, e->d_name);
			char dname[32]; snprintf(dname, sizeof(dname), "%s", e->d_name);
			DIR *d2 = opendir(p2);
			if (d2 == NULL) { snprintf(cfg_err, sizeof(cfg_err), "unexpected file %s", p2); closedir(d1); return -1; }
			struct dirent *e2;
			while ((e2 = readdir(d2)) != NULL) {
				if (e2->d_name[0] == '.') continue;
				size_t n = strlen(e2->d_name);
				if (n < 5 || strcmp(e2->d_name + n - 4, ".cfg") != 0) { snprintf(cfg_err, sizeof(cfg_err), "unexpected entry %s/%s", p2, e2->d_name); closedir(d2); closedir(d1); return -1; }
				char p3[1500]; snprintf(p3, sizeof(p3), "%s/%s", p2, e2->d_name);
				if (load_cfg_file(p3, views[v], dname, e2->d_name) != 0) { closedir(d2); closedir(d1); return -1; }
			}
			closedir(d2);
		}
		closedir(d1);
	}
	return 0;
}
/* tracking mode named by a cfg label: -1 = says nothing ("Unknown") */
static int label_mode(const char *label)
{
	if (strcmp(label, "Unknown") == 0 || label[0] == 0) return -1;
	if (strstr(label, "of the ACTIVE thread")) return TRACK_TH_ACT;
	if (strstr(label, "of the RUNNING thread")) return TRACK_TH_RUN;
	return TRACK_TH_ANY;        /* "of the CURRENT thread" or no qualifier: the thread itself, whatever its state */
}

static int version_ok(const char *v)
{
	if (v == NULL) return 0;
	for (int part = 0; part < 3; part++) {
		if (!isdigit((unsigned char) *v)) return 0;
		while (isdigit((unsigned char) *v)) v++;
		if (part < 2) { if (*v != '.') return 0; v++; }
	}
	return *v == 0;
}

int main(int argc, char **argv)
{
	if (argc < 5) { fprintf(stderr, "usage: %s c08_events.ref g5_model_channels.ref events.md cfgdir [--dump] [--only a,b] [--skip a,b]\n", argv[0]); return 2; }
	int dump = 0;
	for (int i = 5; i < argc; i++) {
		if (strcmp(argv[i], "--dump") == 0) dump = 1;
		else if (strcmp(argv[i], "--only") == 0 && i + 1 < argc) only_list = argv[++i];
		else if (strcmp(argv[i], "--skip") == 0 && i + 1 < argc) skip_list = argv[++i];
		else { fprintf(stderr, "unknown argument %s\n", argv[i]); return 2; }
	}
	signal(SIGSEGV, on_crash); signal(SIGBUS, on_crash); signal(SIGFPE, on_crash);
	setvbuf(stdout, NULL, _IOLBF, 0);
	struct model_spec *M = &MSPEC;
	struct emu *emu = calloc(1, sizeof(*emu));
	if (emu == NULL) return 2;

	/* ---- 1. model_spec record and hooks: run the real hooks on the empty system ---- */
	reset();
	int nev = 0;
	char finish_txt[64];
	{
		if (M->name == NULL || strcmp(M->name, MNAME) != 0) bad("model_spec.name is '%s', expected '%s'", M->name ? M->name : "(null)", MNAME);
		if (M->model != model_id) bad("model_spec.model is %d, model_id is %d", M->model, model_id);
		if (!(M->model > 32 && M->model < 127)) bad("model byte %d is not a printable character", M->model);
		if (!version_ok(M->version)) bad("version '%s' is not D+.D+.D+", M->version ? M->version : "(null)");
		if (M->evlist == NULL) bad("evlist is NULL");
		else {
			for (struct ev_decl *d = M->evlist; d->signature != NULL && nev < 100000; d++) {
				nev++;
				if ((unsigned char) d->signature[0] != (unsigned char) M->model) bad("event '%s' does not carry the model byte", d->signature);
				if (d->description == NULL || d->description[0] == 0) bad("event '%s' has no description", d->signature);
			}
			if (nev == 0) bad("evlist is empty");
		}
		if (M->probe == NULL) bad("probe hook is NULL");
		if (M->create == NULL) bad("create hook is NULL");
		if (M->connect == NULL) bad("connect hook is NULL");
		if (M->event == NULL) bad("event hook is NULL");
		snprintf(finish_txt, sizeof(finish_txt), "finish hook %s", M->finish ? "present" : "NULL (allowed)");
		if (M->probe) {
			int r = M->probe(emu);
			if (n_probe != 1 || cap_probe != M) bad("probe hook did not hand this model_spec to model_version_probe (calls %d)", n_probe);
			if (r != 0 && r != 1) bad("probe hook returned %d on the empty system", r);
			if (n_th_create || n_cpu_create || n_th_connect || n_cpu_connect) bad("probe hook created/connected channels");
		}
		if (M->create) {
			int r = M->create(emu);
			if (r != 0) bad("create hook returned %d on the empty system", r);
			if (n_th_create != 1 || n_cpu_create != 1) bad("create hook called model_thread_create %d and model_cpu_create %d times (expected 1, 1)", n_th_create, n_cpu_create);
			if (n_th_connect || n_cpu_connect) bad("create hook connected channels");
		}
		if (M->connect) {
			int r = M->connect(emu);
			if (r != 0) bad("connect hook returned %d on the empty system", r);
			if (n_th_connect != 1 || n_cpu_connect != 1) bad("connect hook called model_thread_connect %d and model_cpu_connect %d times (expected 1, 1)", n_th_connect, n_cpu_connect);
			if (n_th_create != (M->create ? 1 : 0) || n_cpu_create != (M->create ? 1 : 0)) bad("connect hook created channels");
			if (cap_th_connect != cap_th_create || cap_cpu_connect != cap_cpu_create) bad("connect hook uses a different thread/CPU spec than the create hook");
		}
		S_th = cap_th_create ? cap_th_create : cap_th_connect ? cap_th_connect : &th_spec;
		S_cpu = cap_cpu_create ? cap_cpu_create : cap_cpu_connect ? cap_cpu_connect : &cpu_spec;
		if (S_th->model != M || S_cpu->model != M) bad("thread/CPU spec does not point back to this model_spec");
		if (S_th->size < sizeof(struct model_thread)) bad("thread spec size %zu smaller than struct model_thread", S_th->size);
		if (S_cpu->size < sizeof(struct model_cpu)) bad("cpu spec size %zu smaller than struct model_cpu", S_cpu->size);
		if (S_th->chan == NULL || S_cpu->chan == NULL) bad("thread/CPU spec without channel spec");
	}
	if (S_th->chan == NULL || S_cpu->chan == NULL || S_th->chan->pvt == NULL || S_th->chan->track == NULL || S_cpu->chan->track == NULL ||
			S_th->chan->pvt->type == NULL || S_th->chan->nch <= 0 || S_th->chan->nch > MAXCH) {
		obl("hooks", 0, "channel spec incomplete (chan/pvt/track/type NULL or nch out of range): %s", first);
		for (int i = 0; i < NCHECKS; i++) if (!emitted[i]) obl(all_checks[i], 0, "not evaluated: the channel spec handed over by the create hook is incomplete");
		printf("DONE %d\n", nobl);
		return 1;
	}
	NCH = S_th->chan->nch;

	if (dump) {
		printf("spec %s byte=%c version=%s probe=%d create=%d connect=%d event=%d finish=%d\n", MNAME, M->model, M->version ? M->version : "(null)",
				M->probe != NULL, M->create != NULL, M->connect != NULL, M->event != NULL, M->finish != NULL);
		for (int i = 0; i < NCH; i++)
			printf("chan %s name=%s kind=%s dup=%d th=%s cpu=%s type=%ld flags=%s prefix=\"%s\"\n", MNAME, ch_name(i), ch_stack(i) ? "stack" : "single", ch_dup(i),
					track_name(th_mode(i)), track_name(cpu_mode(i)), ch_type(i), flags_str(ch_flags(i)), ch_prefix(i));
		for (int i = 0; i < NCH; i++) {
			const struct pcf_value_label *l = ch_labels(i);
			for (int k = 0; k < nlabels(i); k++) printf("label %s %s %d \"%s\"\n", MNAME, ch_name(i), l[k].value, l[k].label);
		}
		return 0;
	}

	obl("hooks", nbad == 0, "model_spec '%s' byte '%c' version %s, %d declared events all carrying the model byte; probe/create/connect/event hooks non-NULL, %s; the real hooks run on the empty system: "
			"probe hands this model_spec to model_version_probe, create calls model_thread_create and model_cpu_create once, connect calls model_thread_connect and model_cpu_connect once with the SAME specs, which point back to this model; %ld bad %s",
			MNAME, M->model, M->version ? M->version : "(null)", nev, finish_txt, nbad, first);

	int ref_ok = load_ref(argv[2]) == 0;

	stage = "doc_spec";
	/* ---- 2. documentation: events.md header line ---- */
	{
		reset();
		FILE *f = fopen(argv[3], "r");
		int ndoc = 0, found = 0;
		char bytes[16]; int nb = 0;
		if (f == NULL) bad("cannot open %s", argv[3]);
		else {
			char line[4096];
			while (fgets(line, sizeof(line), f)) {
				char nm[32], by[8], ver[32];
				if (sscanf(line, "List of events for the model *%31[^*]* with identifier **`%7[^`]`** at version `%31[^`]`", nm, by, ver) != 3) continue;
				ndoc++;
				if (nb < 16) bytes[nb++] = by[0];
				if (strcmp(nm, MNAME) == 0) {
					found++;
					if (by[0] != M->model || by[1] != 0) bad("events.md documents identifier '%s' for %s, model_spec.model is '%c'", by, MNAME, M->model);
					if (M->version == NULL || strcmp(ver, M->version) != 0) bad("events.md documents version %s for %s, model_spec.version is %s", ver, MNAME, M->version ? M->version : "(null)");
				}
			}
			fclose(f);
			if (found != 1) bad("events.md has %d header lines for model %s", found, MNAME);
			if (ndoc != 8) bad("events.md documents %d models, expected 8", ndoc);
			for (int a = 0; a < nb; a++) for (int b = a + 1; b < nb; b++) if (bytes[a] == bytes[b]) bad("events.md: identifier '%c' documented for two models", bytes[a]);
		}
		obl("doc_spec", nbad == 0, "doc/user/emulation/events.md: 'List of events for the model *%s* with identifier `%c` at version `%s`' equals model_spec (name, model byte, version); %d models documented, identifiers pairwise distinct; %ld bad %s",
				MNAME, M->model, M->version ? M->version : "(null)", ndoc, nbad, first);
	}

	stage = "wiring";
	/* ---- 3. wiring of the two channel specs ---- */
	{
		reset();
		const struct model_chan_spec *t = S_th->chan, *c = S_cpu->chan;
		if (t->nch != CH_MAX) bad("thread nch %d != CH_MAX %d", t->nch, (int) CH_MAX);
		if (c->nch != t->nch) bad("cpu nch %d != thread nch %d", c->nch, t->nch);
		if (t->ch_names == NULL || c->ch_names != t->ch_names) bad("thread and CPU specs use different name tables");
		if (t->ch_stack == NULL || c->ch_stack != t->ch_stack) bad("thread and CPU specs use different stack tables");
		if (c->pvt != t->pvt) bad("thread and CPU specs use different pvt specs");
		if (c->track == t->track) bad("thread and CPU specs share one tracking table");
		if (t->prefix == NULL || strcmp(t->prefix, MNAME) != 0 || c->prefix == NULL || strcmp(c->prefix, MNAME) != 0) bad("channel name prefix is not the model name");
		if (t->pvt->prefix == NULL) bad("pvt spec without type-name prefixes");
		if (t->pvt->label == NULL) bad("pvt spec without label tables");
		if (t->pvt->flags == NULL) bad("pvt spec without flags (duplicates would abort the emulation)");
		if (t->pvt->suffix != NULL) bad("pvt spec carries a suffix table (model_pvt.c ignores it: the suffix comes from the tracking mode)");
		obl("wiring", nbad == 0, "thread and CPU model_chan_spec: nch == CH_MAX == %d for both, same ch_names / ch_stack / pvt spec, separate tracking tables, prefix = model name, pvt spec has type/prefix/label/flags tables (thread ch_dup %s, cpu ch_dup %s: model_cpu.c never reads it); %ld bad %s",
				(int) CH_MAX, t->ch_dup ? "present" : "absent", c->ch_dup ? "present" : "absent", nbad, first);
	}

	stage = "names";
	/* ---- 4. names ---- */
	{
		reset();
		for (int i = 0; i < NCH; i++) {
			const char *n = S_th->chan->ch_names[i];
			if (n == NULL || n[0] == 0) { bad("channel index %d has no name", i); continue; }
			for (const char *p = n; *p; p++) if (!(islower((unsigned char) *p) || isdigit((unsigned char) *p) || *p == '_')) { bad("channel %d name '%s' has a character outside [a-z0-9_]", i, n); break; }
			if (strlen(MNAME) + strlen(n) + 40 >= MAX_CHAN_NAME) bad("channel name '%s' too long", n);
			for (int j = 0; j < i; j++) if (S_th->chan->ch_names[j] && strcmp(S_th->chan->ch_names[j], n) == 0) bad("channels %d and %d share the name '%s' (bay_register refuses the second)", j, i, n);
		}
		obl("names", nbad == 0, "%d channel indices: each has a non-empty name over [a-z0-9_], pairwise distinct (the bay refuses a second registration of '%s.thread<i>.<name>'); %ld bad %s", NCH, MNAME, nbad, first);
	}

	stage = "types";
	/* ---- 5. Paraver types ---- */
	{
		reset();
		int nomark = 0;
		for (int i = 0; i < NCH; i++) {
			long t = ch_type(i);
			if (t == -1) { nomark++; continue; }       /* model_pvt.c create_type(): -1 = no PCF type */
			if (t <= 0) bad("channel %s has Paraver type %ld (missing table entry?)", ch_name(i), t);
			else if (t >= PRV_OVNI_MARK) bad("channel %s has Paraver type %ld inside the mark/reserved range [%d, ...)", ch_name(i), t, (int) PRV_OVNI_MARK);
			for (int j = 0; j < i; j++) if (ch_type(j) == t) bad("channels %s and %s share Paraver type %ld (pcf_add_type refuses the second; rows would be indistinguishable)", ch_name(j), ch_name(i), t);
			for (int k = 0; k < NEXTRA; k++) if (extra_types[k].type == t) bad("channel %s uses Paraver type %ld, which is %s", ch_name(i), t, extra_types[k].what);
			if (ref_ok) for (int k = 0; k < nrchan; k++) if (strcmp(rchan[k].model, MNAME) != 0 && rchan[k].type == t)
				bad("channel %s uses Paraver type %ld, which model %s uses for its channel %s", ch_name(i), t, rchan[k].model, rchan[k].name);
			const char *p = S_th->chan->pvt->prefix ? S_th->chan->pvt->prefix[i] : NULL;
			if (p == NULL || p[0] == 0) bad("channel %s has no PCF type-name prefix", ch_name(i));
			else if (strlen(p) + 40 >= MAX_PCF_LABEL) bad("channel %s type name too long", ch_name(i));
			for (int j = 0; j < i; j++) if (p && S_th->chan->pvt->prefix[j] && strcmp(p, S_th->chan->pvt->prefix[j]) == 0) bad("channels %s and %s share the type name '%s'", ch_name(j), ch_name(i), p);
		}
		if (!ref_ok) bad("reference unavailable for the cross-model comparison: %s", ref_err);
		obl("types", nbad == 0, "%d channels: Paraver type in (0, %d) (%d use the -1 'no PCF type' marker), pairwise distinct within the model, distinct from the %d thread/CPU/breakdown/mark types of emu_prv.h and from every channel type "
				"of the other seven models (their rows of the reference, each checked against its own model by its own group); type-name prefix non-empty and distinct; %ld bad %s", NCH, (int) PRV_OVNI_MARK, nomark, NEXTRA, nbad, first);
	}

	stage = "tracking";
	/* ---- 6. tracking modes ---- */
	{
		reset();
		for (int i = 0; i < NCH; i++) {
			if (th_mode(i) < 0 || th_mode(i) >= TRACK_TH_MAX) bad("channel %s thread tracking mode %d outside the enum", ch_name(i), th_mode(i));
			if (cpu_mode(i) != TRACK_TH_RUN) bad("channel %s CPU tracking mode is %s (model_cpu.c connect_cpu: only TRACK_TH_RUN allowed, the emulator stops at connect)", ch_name(i), track_name(cpu_mode(i)));
		}
		obl("tracking", nbad == 0, "%d channels: thread tracking mode in {ANY, RUN, ACT}; CPU tracking mode == TRACK_TH_RUN (connect_cpu refuses anything else); %ld bad %s", NCH, nbad, first);
	}

	stage = "flags";
	/* ---- 7. PRV flags ---- */
	{
		reset();
		const long known = PRV_EMITDUP | PRV_SKIPDUP | PRV_NEXT | PRV_ZERO | PRV_SKIPDUPNULL;
		for (int i = 0; i < NCH; i++) {
			long f = ch_flags(i);
			if (f & ~known) bad("channel %s has unknown PRV flag bits 0x%lx", ch_name(i), f & ~known);
			int pol = !!(f & PRV_EMITDUP) + !!(f & PRV_SKIPDUP) + !!(f & PRV_SKIPDUPNULL);
			if (pol != 1) bad("channel %s has %d duplicate policies (flags %s): prv.c check_flags refuses two, emit() aborts on a repeated value with none (the tracking mux repeats values on thread switches)", ch_name(i), pol, flags_str(f));
			int zero_label = 0;
			const struct pcf_value_label *l = ch_labels(i);
			for (int k = 0; k < nlabels(i); k++) if (l[k].value == 0) zero_label = 1;
			if (zero_label && !(f & PRV_ZERO)) bad("channel %s labels value 0 but does not set PRV_ZERO (emit() refuses value 0)", ch_name(i));
		}
		obl("flags", nbad == 0, "%d channels: only known PRV flag bits, exactly one of EMITDUP / SKIPDUP / SKIPDUPNULL (check_flags refuses two; with none emit() aborts the emulation on a value repeated by the tracking mux), a label for value 0 only with PRV_ZERO; %ld bad %s", NCH, nbad, first);
	}

	stage = "labels";
	/* ---- 8. label tables ---- */
	{
		reset();
		int ntab = 0, nlab = 0; char without[300] = "";
		for (int i = 0; i < NCH; i++) {
			const struct pcf_value_label *l = ch_labels(i);
			if (l == NULL) { if (strlen(without) + strlen(ch_name(i)) + 2 < sizeof(without)) { strcat(without, without[0] ? "," : ""); strcat(without, ch_name(i)); } continue; }
			ntab++;
			int n = nlabels(i);
			if (n >= MAXLAB) { bad("label table of %s has no terminator within %d entries", ch_name(i), MAXLAB); continue; }
			if (n == 0) bad("label table of %s is empty", ch_name(i));
			if (l[n].value != -1) bad("label table of %s ends with value %d instead of the { -1, NULL } terminator", ch_name(i), l[n].value);
			for (int a = 0; a < n; a++) {
				nlab++;
				if (l[a].label[0] == 0) bad("channel %s value %d has an empty label", ch_name(i), l[a].value);
				if (strlen(l[a].label) >= MAX_PCF_LABEL) bad("channel %s value %d label too long", ch_name(i), l[a].value);
				if (l[a].value < 0) bad("channel %s labels the negative value %d", ch_name(i), l[a].value);
				if (l[a].value == 0 && !(ch_flags(i) & PRV_ZERO)) bad("channel %s labels value 0, which Paraver hides and emit() refuses", ch_name(i));
				for (int b = a + 1; b < n; b++) {
					if (l[a].value == l[b].value) bad("channel %s lists value %d twice (pcf_add_value refuses: the emulator stops at connect)", ch_name(i), l[a].value);
					if (strcmp(l[a].label, l[b].label) == 0) bad("channel %s gives the label '%s' to values %d and %d", ch_name(i), l[a].label, l[a].value, l[b].value);
				}
			}
			/* one table per channel */
			for (int j = 0; j < i; j++) if (ch_labels(j) == l) bad("channels %s and %s share one label table", ch_name(j), ch_name(i));
		}
		obl("labels", nbad == 0, "%d label tables, %d labels: terminated by { -1, NULL }, non-empty, values > 0 and unique, label texts non-empty and unique, one table per channel; channels without table (numeric values): [%s]; "
				"NOT re-checked here: every value an event pushes/sets has a label (C08 tables_%s.labels on the real handlers); %ld bad %s", ntab, nlab, without, MNAME, nbad, first);
	}

	stage = "kind_vs_events";
	/* ---- 9. channel kind vs. the events of the reviewed C08 reference ---- */
	{
		reset();
		int npp[MAXCH] = { 0 }, nset[MAXCH] = { 0 }, nrows = 0;
		char norows[300] = "";
		FILE *f = fopen(argv[1], "r");
		if (f == NULL) bad("cannot open %s", argv[1]);
		else {
			char line[2048];
			while (fgets(line, sizeof(line), f)) {
				char m[32], mcv[8], act[16], ch[64];
				if (line[0] == '#' || line[0] == '\n') continue;
				if (sscanf(line, "%31s %7s %15s %63s", m, mcv, act, ch) != 4) { bad("unparsable line in %s: %.60s", argv[1], line); continue; }
				if (strcmp(m, MNAME) != 0) continue;
				int isop = !strcmp(act, "PUSH") || !strcmp(act, "POP") || !strcmp(act, "SET");
				if (!isop) continue;
				nrows++;
				int idx = -1;
				for (int i = 0; i < NCH; i++) if (strcmp(ch_name(i), ch) == 0) idx = i;
				if (idx < 0) { bad("event %s acts on channel '%s', which the model does not have", mcv, ch); continue; }
				if (!strcmp(act, "SET")) nset[idx]++; else npp[idx]++;
			}
			fclose(f);
			for (int i = 0; i < NCH; i++) {
				if (npp[i] && nset[i]) bad("channel %s receives both PUSH/POP and SET events", ch_name(i));
				if (ch_stack(i) && !npp[i]) bad("channel %s is a stack channel but no event pushes/pops it (%d SET events)", ch_name(i), nset[i]);
				if (!ch_stack(i) && npp[i]) bad("channel %s is a single channel but %d events push/pop it (chan_push on a single channel fails)", ch_name(i), npp[i]);
				if (!npp[i] && !nset[i] && strlen(norows) + strlen(ch_name(i)) + 2 < sizeof(norows)) { strcat(norows, norows[0] ? "," : ""); strcat(norows, ch_name(i)); }
			}
			if (nrows == 0) bad("no PUSH/POP/SET rows for model %s in %s", MNAME, argv[1]);
		}
		obl("kind_vs_events", nbad == 0, "%d PUSH/POP/SET rows of spec/c08_events.ref: stack channels are exactly the channels with PUSH/POP events, SET events only on single channels; single channels without table events (written with chan_set by the task handlers, C07): [%s]; %ld bad %s",
				nrows, norows, nbad, first);
	}

	stage = "reference";
	/* ---- 10. reference ---- */
	{
		reset();
		int nch_rows = 0, nlab_rows = 0, nlab_code = 0;
		if (!ref_ok) bad("%s", ref_err);
		else {
			/* completeness of the file itself: the eight models, one spec row each, bytes distinct */
			for (int m = 0; m < 8; m++) {
				int ns = 0, nc = 0;
				for (int k = 0; k < nrspec; k++) if (strcmp(rspec[k].model, models8[m]) == 0) ns++;
				for (int k = 0; k < nrchan; k++) if (strcmp(rchan[k].model, models8[m]) == 0) nc++;
				if (ns != 1 || nc < 1) bad("reference has %d spec rows and %d channel rows for model %s", ns, nc, models8[m]);
			}
			if (nrspec != 8) bad("reference has %d spec rows, expected 8", nrspec);
			for (int a = 0; a < nrspec; a++) for (int b = a + 1; b < nrspec; b++) if (strcmp(rspec[a].byte, rspec[b].byte) == 0) bad("reference: models %s and %s share the model byte %s", rspec[a].model, rspec[b].model, rspec[a].byte);
			for (int a = 0; a < nrchan; a++) for (int b = a + 1; b < nrchan; b++) if (rchan[a].type == rchan[b].type && rchan[a].type != -1) bad("reference: %s.%s and %s.%s share Paraver type %ld", rchan[a].model, rchan[a].name, rchan[b].model, rchan[b].name, rchan[a].type);
			/* spec row */
			for (int k = 0; k < nrspec; k++) {
				struct ref_spec *r = &rspec[k];
				if (strcmp(r->model, MNAME) != 0) { if (r->byte[0] == M->model) bad("model byte '%c' is the byte of model %s in the reference", M->model, r->model); continue; }
				if (r->byte[0] != M->model || r->byte[1] != 0) bad("model byte: reference %s, code '%c'", r->byte, M->model);
				if (M->version == NULL || strcmp(r->version, M->version) != 0) bad("version: reference %s, code %s", r->version, M->version ? M->version : "(null)");
				if (r->probe != (M->probe != NULL) || r->create != (M->create != NULL) || r->connect != (M->connect != NULL) || r->event != (M->event != NULL) || r->finish != (M->finish != NULL))
					bad("hooks: reference probe=%d create=%d connect=%d event=%d finish=%d, code probe=%d create=%d connect=%d event=%d finish=%d", r->probe, r->create, r->connect, r->event, r->finish,
							M->probe != NULL, M->create != NULL, M->connect != NULL, M->event != NULL, M->finish != NULL);
			}
			/* channel rows, both directions */
			for (int i = 0; i < NCH; i++) {
				struct ref_chan *r = NULL;
				for (int k = 0; k < nrchan; k++) if (strcmp(rchan[k].model, MNAME) == 0 && strcmp(rchan[k].name, ch_name(i)) == 0) r = &rchan[k];
				if (r == NULL) { bad("channel %s is not in the reference", ch_name(i)); continue; }
				r->seen++;
				if (strcmp(r->kind, ch_stack(i) ? "stack" : "single") != 0) bad("channel %s: reference says %s, code says %s", ch_name(i), r->kind, ch_stack(i) ? "stack" : "single");
				if (r->dup != ch_dup(i)) bad("channel %s: reference says dup=%d, code says dup=%d", ch_name(i), r->dup, ch_dup(i));
				if (strcmp(r->th, track_name(th_mode(i))) != 0) bad("channel %s: reference says thread tracking %s, code says %s", ch_name(i), r->th, track_name(th_mode(i)));
				if (strcmp(r->cpu, track_name(cpu_mode(i))) != 0) bad("channel %s: reference says CPU tracking %s, code says %s", ch_name(i), r->cpu, track_name(cpu_mode(i)));
				if (r->type != ch_type(i)) bad("channel %s: reference says Paraver type %ld, code says %ld", ch_name(i), r->type, ch_type(i));
				if (strcmp(r->flags, flags_str(ch_flags(i))) != 0) bad("channel %s: reference says PRV flags %s, code says %s", ch_name(i), r->flags, flags_str(ch_flags(i)));
				if (strcmp(r->prefix, ch_prefix(i)) != 0) bad("channel %s: reference says type name '%s', code says '%s'", ch_name(i), r->prefix, ch_prefix(i));
			}
			for (int k = 0; k < nrchan; k++) if (strcmp(rchan[k].model, MNAME) == 0) { nch_rows++; if (rchan[k].seen != 1) bad("reference channel %s is %s in the code", rchan[k].name, rchan[k].seen ? "duplicated" : "missing"); }
			/* label rows, both directions */
			for (int i = 0; i < NCH; i++) {
				const struct pcf_value_label *l = ch_labels(i);
				for (int a = 0; a < nlabels(i) && a < MAXLAB; a++) {
					nlab_code++;
					struct ref_label *r = NULL;
					for (int k = 0; k < nrlabel; k++) if (strcmp(rlabel[k].model, MNAME) == 0 && strcmp(rlabel[k].chan, ch_name(i)) == 0 && rlabel[k].value == l[a].value) r = &rlabel[k];
					if (r == NULL) { bad("channel %s value %d '%s' is not in the reference", ch_name(i), l[a].value, l[a].label); continue; }
					r->seen++;
					if (strcmp(r->text, l[a].label) != 0) bad("channel %s value %d: reference label '%s', code label '%s'", ch_name(i), l[a].value, r->text, l[a].label);
				}
			}
			for (int k = 0; k < nrlabel; k++) if (strcmp(rlabel[k].model, MNAME) == 0) { nlab_rows++; if (rlabel[k].seen != 1) bad("reference label %s %ld '%s' is %s in the code", rlabel[k].chan, rlabel[k].value, rlabel[k].text, rlabel[k].seen ? "duplicated" : "missing"); }
		}
		obl("reference", nbad == 0 && nch_rows == NCH && nlab_rows == nlab_code, "spec/g5_model_channels.ref: spec row (byte, version, which hooks exist), %d channel rows (name, stack/single, dup, thread mode, CPU mode, Paraver type, PRV flags, type name) and %d label rows "
				"(channel, value, text) equal the real tables in both directions; file lists the eight models with distinct bytes and types; %ld bad %s", nch_rows, nlab_rows, nbad, first);
	}

	stage = "cfg_types";
	/* ---- 11..13. cfg cross-check ---- */
	int cfg_ok = load_cfgs(argv[4]) == 0;
	{
		/* 11: every type named by a cfg is emitted by the model whose directory holds the cfg */
		reset();
		int ntypes = 0;
		if (!cfg_ok) bad("%s", cfg_err);
		if (!ref_ok) bad("reference unavailable: %s", ref_err);
		for (int c = 0; cfg_ok && ref_ok && c < ncfg; c++) {
			struct cfg *g = &cfgs[c];
			int known = 0;
			for (int m = 0; m < 8; m++) if (strcmp(models8[m], g->dir) == 0) known = 1;
			if (!known) bad("cfg/%s/%s is not the directory of a model", g->view, g->dir);
			if (g->ntypes == 0) bad("cfg/%s/%s/%s has no evt_type filter", g->view, g->dir, g->file);
			for (int k = 0; k < g->ntypes; k++) {
				long t = g->types[k];
				const char *owner = NULL;
				ntypes++;
				for (int i = 0; i < NCH; i++) if (ch_type(i) == t) owner = MNAME;                   /* the real table for this model */
				for (int r = 0; owner == NULL && r < nrchan; r++) if (strcmp(rchan[r].model, MNAME) != 0 && rchan[r].type == t) owner = rchan[r].model;
				for (int e = 0; owner == NULL && e < NEXTRA; e++) if (extra_types[e].type == t) owner = extra_types[e].owner;
				if (owner == NULL) bad("cfg/%s/%s/%s filters Paraver type %ld, which no model emits", g->view, g->dir, g->file, t);
				else if (strcmp(owner, g->dir) != 0) bad("cfg/%s/%s/%s filters Paraver type %ld, which belongs to model %s", g->view, g->dir, g->file, t, owner);
			}
		}
		obl("cfg_types", nbad == 0 && ncfg > 0, "%d cfg files under cfg/{thread,cpu}/<model>/, %d evt_type filters: each names a channel type of the model owning the directory (this model: real pvt_type table; other models: their reference rows) "
				"or a thread/CPU/mark/breakdown type of emu_prv.h; %ld bad %s", ncfg, ntypes, nbad, first);
	}
	{
		/* 12: every channel type of this model is displayed somewhere */
		stage = "cfg_coverage";
		reset();
		char gaps[400] = "";
		for (int i = 0; cfg_ok && i < NCH; i++) {
			int shown[2] = { 0, 0 };
			for (int c = 0; c < ncfg; c++) for (int k = 0; k < cfgs[c].ntypes; k++)
				if (cfgs[c].types[k] == ch_type(i) && strcmp(cfgs[c].dir, MNAME) == 0) shown[strcmp(cfgs[c].view, "cpu") == 0]++;
			if (shown[0] + shown[1] == 0) bad("channel %s (type %ld) is displayed by no cfg under cfg/*/%s/", ch_name(i), ch_type(i), MNAME);
			else if (!shown[0] || !shown[1]) {
				char g[96]; snprintf(g, sizeof(g), "%s%s(%ld) has no %s cfg", gaps[0] ? "; " : "", ch_name(i), ch_type(i), shown[0] ? "cpu" : "thread");
				if (strlen(gaps) + strlen(g) < sizeof(gaps)) strcat(gaps, g);
			}
		}
		if (!cfg_ok) bad("%s", cfg_err);
		obl("cfg_coverage", nbad == 0, "%d channel types of %s: each displayed by at least one cfg under cfg/thread/%s/ or cfg/cpu/%s/; views missing (listed, allowed): [%s]; %ld bad %s", NCH, MNAME, MNAME, MNAME, gaps, nbad, first);
	}
	{
		/* 13: the tracking mode named in the cfg's type label */
		stage = "cfg_labels";
		reset();
		int n = 0, silent = 0;
		for (int c = 0; cfg_ok && c < ncfg; c++) {
			struct cfg *g = &cfgs[c];
			if (strcmp(g->dir, MNAME) != 0) continue;
			for (int k = 0; k < g->ntypes; k++) for (int i = 0; i < NCH; i++) {
				if (ch_type(i) != g->types[k]) continue;
				int lm = label_mode(g->label);
				int iscpu = strcmp(g->view, "cpu") == 0;
				int mode = iscpu ? cpu_mode(i) : th_mode(i);
				if (lm < 0) { silent++; continue; }
				n++;
				if (lm != mode) bad("cfg/%s/%s/%s labels type %ld \"%s\" (%s) but channel %s is tracked %s in the %s view", g->view, g->dir, g->file, g->types[k], g->label,
						lm == TRACK_TH_ANY ? "no RUNNING/ACTIVE qualifier" : track_name(lm), ch_name(i), track_name(mode), g->view);
			}
		}
		if (!cfg_ok) bad("%s", cfg_err);
		obl("cfg_labels", nbad == 0, "%d cfg type labels of %s channels: 'of the ACTIVE thread' <=> TRACK_TH_ACT, 'of the RUNNING thread' <=> TRACK_TH_RUN, no qualifier / 'CURRENT thread' <=> TRACK_TH_ANY, in the cfg's view (%d labels say 'Unknown': skipped); %ld bad %s",
				n, MNAME, silent, nbad, first);
	}
	printf("DONE %d\n", nobl);
	return 0;
}
