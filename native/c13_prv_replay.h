/* Native replay of a failed C13 obligation of the .prv writer groups on the REAL src/emu/pv/prv.c,
 * writing a REAL file with the real libc; the file is read back and parsed line by line.
 * REPLAY_OP: 0 prv_advance; 1 emit / cb_prv / write_line; 2 prv_register / check_flags / get_id;
 *            3 prv_close / prv_open_file / prv_open.
 * Witness ghosts (harness/c13_prv.c):
 *   op 0: W_TIME, W_PTIME (requested time, clock of the trace before the call)
 *   op 1: W_FLAGS, W_SET / W_LT / W_LI (row flags, last emitted value), W_ROWB1, W_NROWS, W_TYPE, W_PTIME,
 *         W_RD_RET / W_RD_T / W_RD_I (what chan_read returns), W_VALUE (write_line only)
 *   op 2: W_ROW, W_TYPE, W_NROWS, W_FLAGS, W_FOUND ((type,row) already registered)
 *   op 3: W_PTIME, W_NROWS
 * Outside the unit: chan_read returns the configured value; bay_add_cb records the callback and succeeds.
 * Each scenario is a small session  prv_open_file -> prv_register -> prv_advance -> callback ->
 * prv_advance -> prv_close  and the specification is evaluated on results AND on the file
 * (statement + doc/dev/paraver.md + prv.h flag comments):
 *   - prv_advance accepted exactly when time does not go backwards; the clock never decreases
 *   - one channel value gives at most one line  2:0:1:1:<row>:<time>:<type>:<value>  with the registered
 *     row (1-based, within the declared row count), the current clock and the registered type;
 *     duplicates: PRV_SKIPDUP -> accepted, nothing printed; PRV_SKIPDUPNULL -> null duplicates skipped,
 *     others printed; PRV_EMITDUP -> printed; none -> refused.  null prints 0; int64 prints the value
 *     (+1 with PRV_NEXT); a printed int64 0 needs PRV_ZERO; other value types are refused
 *   - prv_register accepted exactly when (type,row) is not registered yet and at most one of
 *     EMITDUP/SKIPDUP/SKIPDUPNULL is given; exactly one emit callback per accepted registration
 *   - the file starts with ONE header  #Paraver (...):<duration>_ns:0:1:1(<nrows>:1)  whose duration is
 *     the final clock (the last event time) and whose row count is the declared one; every line has
 *     a time <= duration, times are non-decreasing, rows lie in 1..nrows.
 * After the witness scenario the finite neighbourhood (all 32 flag sets x value classes x last-value
 * classes, ...) is tried: the failed obligation need not be a contract clause (e.g. a frame check).
 * exit 0: behaves as specified (not reproduced); exit 1: mismatch (reproduced). */
#include <unistd.h>
#include <stdio.h>
#include <stdlib.h>
#include <string.h>
#include <stdint.h>
#include <stdarg.h>
#include <limits.h>
#include <inttypes.h>
int is_debug_enabled;
static int n_err;
void verr(const char *p, const char *f, const char *e, ...) { (void) f; (void) e; if (p && strcmp(p, "ERROR") == 0) n_err++; }
#include <setjmp.h>
static jmp_buf r_die_jmp; static int r_die_armed;   /* die() ends the current scenario only (a legitimate refusal) */
void vdie(const char *p, const char *f, const char *e, ...)
{
	(void) p; (void) f;
	if (r_die_armed) longjmp(r_die_jmp, 1);
	printf("not reproduced: the code died (%s): a legitimate refusal\n", e); exit(0);
}
#include "value.h"
/* chan_read is a static inline of chan.h: it is outside the unit (C08) and is replaced by the stand-in
 * below, which returns the witness value (or fails, as the harness model does) */
#define chan_read chan_read_of_chan_h
#include "chan.h"
#undef chan_read
#include "bay.h"
char value_buffers[VALUE_NBUF][VALUE_BUFSIZE];
size_t value_nextbuf;

/* ---- outside the unit ---- */
static int r_rd_ret; static struct value r_rd_val; static int r_rd_n; static struct chan *r_rd_chan;
int chan_read(struct chan *chan, struct value *value)
{
	r_rd_n++; r_rd_chan = chan;
	if (r_rd_ret != 0) return r_rd_ret;
	*value = r_rd_val;
	return 0;
}
static int r_cb_n; static bay_cb_func_t r_cb_func; static void *r_cb_arg; static struct chan *r_cb_chan; static struct bay *r_cb_bay;
static int r_cb_type, r_cb_enabled;
static struct bay_cb r_cb_obj;
struct bay_cb *bay_add_cb(struct bay *bay, enum bay_cb_type type, struct chan *chan, bay_cb_func_t func, void *arg, int enabled)
{
	r_cb_n++; r_cb_bay = bay; r_cb_type = (int) type; r_cb_chan = chan; r_cb_func = func; r_cb_arg = arg; r_cb_enabled = enabled;
	return &r_cb_obj;
}

#include "pv/prv.c"        /* the real /repo/src/emu/pv/prv.c */

#define R_PATH "replay_out.prv"
static char r_msg[1024];
static const char *r_origin = "witness";
static char r_ctx[256];          /* the session being replayed, for the message */
#define FAILF(...) do { snprintf(r_msg, sizeof(r_msg), __VA_ARGS__); return r_msg; } while (0)

/* ---- the file, parsed ---- */
#define R_MAXLINES 16
struct r_file {
	int nhdr; long long dur; int nrows;          /* header lines seen, the first one's fields */
	int nlines; long row[R_MAXLINES]; long long time[R_MAXLINES], type[R_MAXLINES], val[R_MAXLINES];
	int garbage;                                 /* lines that are neither */
	char first_garbage[128];
};
static void r_parse(struct r_file *pf)
{
	memset(pf, 0, sizeof(*pf));
	FILE *f = fopen(R_PATH, "r");
	if (f == NULL) { pf->garbage = 1; strcpy(pf->first_garbage, "(file cannot be read)"); return; }
	char line[512];
	int ln = 0;
	while (fgets(line, sizeof(line), f) != NULL) {
		long long d, t, ty, v; long row; int nr, used = 0;
		size_t len = strlen(line);
		int full = len > 0 && line[len - 1] == '\n';
		if (line[0] == '#' && sscanf(line, "#Paraver (19/01/38 at 03:14):%lld_ns:0:1:1(%d:1)\n%n", &d, &nr, &used) == 2 && used == (int) len && full) {
			if (pf->nhdr == 0) { pf->dur = d; pf->nrows = nr; }
			if (ln != 0) { pf->garbage++; if (!pf->first_garbage[0]) snprintf(pf->first_garbage, sizeof(pf->first_garbage), "header at line %d", ln + 1); }
			pf->nhdr++;
		} else if (sscanf(line, "2:0:1:1:%ld:%lld:%lld:%lld\n%n", &row, &t, &ty, &v, &used) == 4 && used == (int) len && full) {
			if (pf->nlines < R_MAXLINES) { pf->row[pf->nlines] = row; pf->time[pf->nlines] = t; pf->type[pf->nlines] = ty; pf->val[pf->nlines] = v; }
			pf->nlines++;
		} else {
			pf->garbage++;
			if (!pf->first_garbage[0]) { snprintf(pf->first_garbage, sizeof(pf->first_garbage), "line %d: %.80s", ln + 1, line); char *nl = strchr(pf->first_garbage, '\n'); if (nl) *nl = 0; }
		}
		ln++;
	}
	fclose(f);
}
/* well-formedness of a whole (closed) file against the declared rows and the final clock */
static const char *r_check_file(const struct r_file *pf, long nrows, long long final_clock)
{
	if (pf->garbage) FAILF("the .prv file has a malformed line (%s)", pf->first_garbage);
	if (pf->nhdr != 1) FAILF("the .prv file has %d header lines, specified exactly one (first line)", pf->nhdr);
	if (pf->dur != final_clock) FAILF("header duration %lld, but the last event time (final clock) is %lld", pf->dur, final_clock);
	if (pf->nrows != (int) nrows) FAILF("header declares %d rows, the trace was opened with %ld", pf->nrows, nrows);
	for (int i = 0; i < pf->nlines && i < R_MAXLINES; i++) {
		if (pf->row[i] < 1 || pf->row[i] > nrows) FAILF("line %d has row %ld outside 1..%ld", i + 1, pf->row[i], nrows);
		if (pf->time[i] > pf->dur) FAILF("line %d has time %lld after the header duration %lld", i + 1, pf->time[i], pf->dur);
		if (i > 0 && pf->time[i] < pf->time[i - 1]) FAILF("line %d goes back in time (%lld after %lld)", i + 1, pf->time[i], pf->time[i - 1]);
	}
	return NULL;
}

/* ---- session helpers ---- */
static struct prv r_prv; static FILE *r_f; static struct bay r_bay; static struct chan r_chan[4];
static const char *r_open(long nrows)
{
	memset(&r_prv, 0x5a, sizeof(r_prv));   /* prv_open_file must initialise everything */
	n_err = 0; r_cb_n = 0; r_rd_n = 0;
	for (int i = 0; i < 4; i++) snprintf(r_chan[i].name, sizeof(r_chan[i].name), "replay.chan%d", i);
	r_f = fopen(R_PATH, "w+");
	if (r_f == NULL) { printf("not reproduced: cannot create %s in the scratch directory\n", R_PATH); exit(0); }
	int r = prv_open_file(&r_prv, nrows, r_f);
	if (r != 0) FAILF("prv_open_file(nrows=%ld) returned %d", nrows, r);
	if (r_prv.nrows != nrows || r_prv.time != 0 || r_prv.channels != NULL || r_prv.file != r_f)
		FAILF("prv_open_file(nrows=%ld) left nrows=%ld time=%lld channels=%p", nrows, r_prv.nrows, (long long) r_prv.time, (void *) r_prv.channels);
	return NULL;
}
/* set the clock of the trace to t: through prv_advance when t >= 0 (it must accept), else directly */
static const char *r_set_clock(long long t)
{
	if (t >= r_prv.time) {
		int r = prv_advance(&r_prv, t);
		if (r != 0 || r_prv.time != t) FAILF("prv_advance(%lld), not earlier than the clock, returned %d and left the clock at %lld", t, r, (long long) r_prv.time);
	} else {
		r_prv.time = t;
	}
	return NULL;
}
static const char *r_close_and_check(long nrows, int expect_lines)
{
	long long final_clock = r_prv.time;
	int r = prv_close(&r_prv);
	if (r != 0) FAILF("prv_close returned %d", r);
	struct r_file pf; r_parse(&pf);
	const char *why = r_check_file(&pf, nrows, final_clock);
	if (why) return why;
	if (expect_lines >= 0 && pf.nlines != expect_lines) FAILF("the closed file holds %d event lines, specified %d", pf.nlines, expect_lines);
	return NULL;
}
static long r_clamp(long v, long lo, long hi) { return v < lo ? lo : v > hi ? hi : v; }

#define FL(f, x) (((f) & (x)) != 0)
#define FLAGS_OK(f) (FL(f, PRV_EMITDUP) + FL(f, PRV_SKIPDUP) + FL(f, PRV_SKIPDUPNULL) <= 1)
static struct value r_mkval(long long type, long long i)
{
	struct value v; memset(&v, 0, sizeof(v));
	v.type = (enum value_type) type; v.i = (int64_t) i;
	return v;
}
#define RUN(expr) do { const char *why_; if (setjmp(r_die_jmp) == 0) { r_die_armed = 1; why_ = (expr); r_die_armed = 0; \
	if (why_) { printf("REPRODUCED %s {session: %s} [%s]\n", why_, r_ctx, r_origin); return 1; } } else { r_die_armed = 0; if (r_f) { /* leave the FILE */ } } } while (0)

/* ===================================================================================== */
#if REPLAY_OP == 0
#ifndef W_TIME
#define W_TIME 10
#endif
#ifndef W_PTIME
#define W_PTIME 5
#endif
static const char *scenario(long long ptime, long long time)
{
	snprintf(r_ctx, sizeof(r_ctx), "prv_open_file(3 rows); clock=%lld; prv_advance(%lld); prv_close", ptime, time);
	const char *why = r_open(3); if (why) return why;
	r_prv.time = ptime;                       /* pre-state clock (any value) */
	int e0 = n_err;
	int r = prv_advance(&r_prv, time);
	int legal = time >= ptime;
	if (r != 0 && r != -1) FAILF("prv_advance(time=%lld) with clock %lld returned %d", time, ptime, r);
	if ((r == 0) != legal) FAILF("prv_advance(time=%lld) with clock %lld %s; specified: accepted exactly when time does not go backwards", time, ptime, r == 0 ? "accepted" : "refused");
	if (r == 0 && r_prv.time != time) FAILF("prv_advance(time=%lld) accepted but the clock is %lld", time, (long long) r_prv.time);
	if (r != 0 && r_prv.time != ptime) FAILF("prv_advance(time=%lld) refused but the clock moved from %lld to %lld", time, ptime, (long long) r_prv.time);
	if (r != 0 && n_err == e0) FAILF("prv_advance(time=%lld) with clock %lld refused without a diagnostic", time, ptime);
	return r_close_and_check(3, 0);
}
int main(void)
{
	RUN(scenario((long long) (W_PTIME), (long long) (W_TIME)));
	r_origin = "tried after the witness";
	static const long long t[] = { INT64_MIN, -5, -1, 0, 1, 7, INT64_MAX - 1, INT64_MAX };
	for (int a = 0; a < 8; a++) for (int b = 0; b < 8; b++) RUN(scenario(t[a], t[b]));
	printf("not reproduced: prv_advance behaves as specified (clock %lld, time %lld) and on 64 clock/time pairs\n", (long long) (W_PTIME), (long long) (W_TIME));
	return 0;
}
#endif

/* ===================================================================================== */
#if REPLAY_OP == 1
#ifndef W_FLAGS
#define W_FLAGS 0
#endif
#ifndef W_SET
#define W_SET 0
#endif
#ifndef W_LT
#define W_LT VALUE_NULL
#endif
#ifndef W_LI
#define W_LI 0
#endif
#ifndef W_ROWB1
#define W_ROWB1 2
#endif
#ifndef W_NROWS
#define W_NROWS 3
#endif
#ifndef W_TYPE
#define W_TYPE 7
#endif
#ifndef W_PTIME
#define W_PTIME 100
#endif
#ifndef W_RD_RET
#define W_RD_RET 0
#endif
#ifndef W_RD_T
#define W_RD_T VALUE_INT64
#endif
#ifndef W_RD_I
#define W_RD_I 5
#endif
#ifndef W_VALUE
#define W_VALUE 5
#endif
struct emit_cfg { long flags; int set; long long lt, li; long rowb1, nrows, type; long long ptime; int rd_ret; long long rd_t, rd_i; };
static const char *scenario(const struct emit_cfg *c)
{
	long nrows = r_clamp(c->nrows, 1, INT_MAX), rowb1 = r_clamp(c->rowb1, 1, nrows), type = r_clamp(c->type, 0, INT_MAX);
	long long T = c->ptime;
	/* precondition of the row (prv.h): PRV_NEXT values cannot overflow */
	if (FL(c->flags, PRV_NEXT) && c->rd_t == VALUE_INT64 && c->rd_i == INT64_MAX) return NULL;
	snprintf(r_ctx, sizeof(r_ctx), "prv_open_file(%ld rows); prv_register(row %ld, type %ld); prv_advance(%lld); one value through the emit callback; prv_advance(+10); prv_close", nrows, rowb1 - 1, type, T);
	const char *why = r_open(nrows); if (why) return why;
	long regflags = FLAGS_OK(c->flags) ? c->flags : (c->flags & ~(long) (PRV_EMITDUP | PRV_SKIPDUP | PRV_SKIPDUPNULL));
	int r = prv_register(&r_prv, rowb1 - 1, type, &r_bay, &r_chan[0], regflags);
	if (r != 0 || r_cb_n != 1 || r_cb_func == NULL || r_cb_arg == NULL)
		FAILF("prv_register(row=%ld, type=%ld, flags=0x%lx) of a fresh row in a trace of %ld rows returned %d and added %d callbacks", rowb1 - 1, type, regflags, nrows, r, r_cb_n);
	struct prv_chan *rc = r_cb_arg;
	/* pre-state of the row: flags and last emitted value of the witness */
	rc->flags = c->flags;
	rc->last_value_set = c->set;
	rc->last_value = r_mkval(c->lt, c->li);
	why = r_set_clock(T); if (why) return why;
#ifdef REPLAY_WRITE_LINE
	/* write_line alone: exactly one line with its arguments and the current clock */
	write_line(&r_prv, rowb1, type, (int64_t) (W_VALUE));
	int prints = 1; long long val = (long long) (W_VALUE);
#else
	r_rd_ret = c->rd_ret; r_rd_val = r_mkval(c->rd_t, c->rd_i);
	int e0 = n_err, rd0 = r_rd_n;
	r = r_cb_func(&r_chan[0], r_cb_arg);       /* cb_prv -> emit */
	long f = c->flags;
	int dup = !FL(f, PRV_EMITDUP) && c->set != 0 && c->rd_t == c->lt && c->rd_i == c->li;
	int skip = dup && (FL(f, PRV_SKIPDUP) || (FL(f, PRV_SKIPDUPNULL) && c->rd_t == VALUE_NULL));
	int duperr = dup && !FL(f, PRV_SKIPDUP) && !FL(f, PRV_SKIPDUPNULL);
	long long val = c->rd_t == VALUE_INT64 ? c->rd_i + (FL(f, PRV_NEXT) ? 1 : 0) : 0;
	int badtype = c->rd_t != VALUE_INT64 && c->rd_t != VALUE_NULL;
	int zeroerr = c->rd_t == VALUE_INT64 && !FL(f, PRV_ZERO) && val == 0;
	int prints = c->rd_ret == 0 && !skip && !duperr && !badtype && !zeroerr;
	int ok = c->rd_ret == 0 && (skip || (!duperr && !badtype && !zeroerr));
	int tracked = c->rd_ret == 0 && !FL(f, PRV_EMITDUP) && !skip && !duperr;
	char in[256];
	snprintf(in, sizeof(in), "flags=0x%lx(%s%s%s%s%s) value=(type %lld, %lld)%s last=%s(type %lld, %lld)", f, FL(f, PRV_EMITDUP) ? " EMITDUP" : "",
		FL(f, PRV_SKIPDUP) ? " SKIPDUP" : "", FL(f, PRV_NEXT) ? " NEXT" : "", FL(f, PRV_ZERO) ? " ZERO" : "", FL(f, PRV_SKIPDUPNULL) ? " SKIPDUPNULL" : "",
		c->rd_t, c->rd_i, c->rd_ret ? " chan_read failed" : "", c->set ? "" : "unset", c->lt, c->li);
	if (r != 0 && r != -1) FAILF("emit returned %d (%s)", r, in);
	if ((r == 0) != ok) FAILF("emit %s the value, specified %s (%s%s)", r == 0 ? "accepted" : "refused", ok ? "accepted" : "refused", in,
		duperr ? "; duplicate without a duplicate policy" : zeroerr ? "; value 0 without PRV_ZERO" : badtype ? "; neither int64 nor null" : skip ? "; duplicate to be skipped" : "");
	if (r != 0 && n_err == e0) FAILF("emit refused without a diagnostic (%s)", in);
	if (r_rd_n != rd0 + 1 || r_rd_chan != &r_chan[0]) FAILF("emit read the channel %d times (specified once, the registered channel) (%s)", r_rd_n - rd0, in);
	if (tracked && (rc->last_value_set != 1 || rc->last_value.type != (enum value_type) c->rd_t || rc->last_value.i != c->rd_i))
		FAILF("the last emitted value of the row is not the value just accepted (%s)", in);
	if (!tracked && (rc->last_value_set != c->set || (long long) rc->last_value.type != c->lt || rc->last_value.i != c->li))
		FAILF("the last emitted value of the row changed although the value was %s (%s)", FL(f, PRV_EMITDUP) ? "not tracked (PRV_EMITDUP)" : "skipped or refused", in);
#endif
	fflush(r_f);
	struct r_file pf; r_parse(&pf);
	if (pf.garbage) FAILF("malformed line in the .prv file (%s)", pf.first_garbage);
	if (pf.nhdr != 1) FAILF("%d header lines in the open .prv file", pf.nhdr);
	if (pf.nlines != prints) FAILF("%d event lines written, specified %d"
#ifndef REPLAY_WRITE_LINE
		" (%s)", pf.nlines, prints, in);
#else
		, pf.nlines, prints);
#endif
	if (prints && (pf.row[0] != rowb1 || pf.time[0] != T || pf.type[0] != type || pf.val[0] != val))
		FAILF("line written 2:0:1:1:%ld:%lld:%lld:%lld, specified row %ld (of %ld), time %lld (current clock), type %ld, value %lld", pf.row[0], pf.time[0], pf.type[0], pf.val[0],
			rowb1, nrows, T, type, val);
	/* the rest of the trace: the clock moves on without further events, then the trace is closed */
	if (T < INT64_MAX - 10) { why = r_set_clock(T + 10); if (why) return why; }
	return r_close_and_check(nrows, prints);
}
int main(void)
{
	struct emit_cfg w = { (long) (W_FLAGS), (int) (W_SET), (long long) (W_LT), (long long) (W_LI), (long) (W_ROWB1), (long) (W_NROWS), (long) (W_TYPE),
		(long long) (W_PTIME), (int) (W_RD_RET), (long long) (W_RD_T), (long long) (W_RD_I) };
	RUN(scenario(&w));
	r_origin = "tried after the witness";
	long n = 0;
#ifndef REPLAY_WRITE_LINE
	static const long long vt[] = { VALUE_NULL, VALUE_INT64, VALUE_INT64, VALUE_INT64, VALUE_DOUBLE }, vi[] = { 0, 0, -1, 5, 5 };
	for (long f = 0; f < 32; f++) for (int v = 0; v < 5; v++) for (int last = 0; last < 3; last++) for (int rr = 0; rr < 2; rr++) {
		if (rr && (v != 3 || last != 0)) continue;
		struct emit_cfg c = { f, last != 0, last == 1 ? vt[v] : VALUE_INT64, last == 1 ? vi[v] : 77, 2, 3, 7, 100, rr ? -1 : 0, vt[v], vi[v] };
		n++;
		RUN(scenario(&c));
	}
#endif
	printf("not reproduced: the row behaves as specified on the witness and on %ld flag/value/last-value combinations; the files are well-formed\n", n);
	return 0;
}
#endif

/* ===================================================================================== */
#if REPLAY_OP == 2
#ifndef W_ROW
#define W_ROW 1
#endif
#ifndef W_TYPE
#define W_TYPE 7
#endif
#ifndef W_NROWS
#define W_NROWS 3
#endif
#ifndef W_FLAGS
#define W_FLAGS 0
#endif
#ifndef W_FOUND
#define W_FOUND 0
#endif
/* one emit through callback (func, arg) of channel ch with int value v at clock t; returns the result */
static int r_emit(bay_cb_func_t func, void *arg, struct chan *ch, long long v, long long t)
{
	if (t >= r_prv.time) (void) prv_advance(&r_prv, t);
	r_rd_ret = 0; r_rd_val = r_mkval(VALUE_INT64, v);
	return func(ch, arg);
}
static const char *scenario(long nrows_, long row_, long type_, long flags, int found)
{
	long nrows = r_clamp(nrows_, 1, INT_MAX), row = r_clamp(row_, 0, nrows - 1), type = r_clamp(type_, 0, INT_MAX);
	snprintf(r_ctx, sizeof(r_ctx), "prv_open_file(%ld rows); %sprv_register(row %ld, type %ld, flags 0x%lx); values through the callbacks; prv_close", nrows, found ? "prv_register(same row and type); " : "", row, type, flags);
	const char *why = r_open(nrows); if (why) return why;
	int r, lines = 0;
	char in[160];
	snprintf(in, sizeof(in), "row=%ld type=%ld nrows=%ld flags=0x%lx, (type,row) %s", row, type, nrows, flags, found ? "already registered" : "not registered yet");
	if (found) {
		r = prv_register(&r_prv, row, type, &r_bay, &r_chan[1], 0);
		if (r != 0) FAILF("first registration of row=%ld type=%ld (flags 0) in a trace of %ld rows returned %d", row, type, nrows, r);
	}
	int cb0 = r_cb_n, e0 = n_err;
	r_cb_func = NULL; r_cb_arg = NULL;
	r = prv_register(&r_prv, row, type, &r_bay, &r_chan[0], flags);
	int legal = !found && FLAGS_OK(flags);
	if (r != 0 && r != -1) FAILF("prv_register returned %d (%s)", r, in);
	if ((r == 0) != legal) FAILF("prv_register %s; specified: accepted exactly when (type,row) is not registered yet and at most one of EMITDUP/SKIPDUP/SKIPDUPNULL is set (%s)",
		r == 0 ? "accepted" : "refused", in);
	if (r != 0 && n_err == e0) FAILF("prv_register refused without a diagnostic (%s)", in);
	if (r != 0 && r_cb_n != cb0) FAILF("a refused prv_register added an emit callback (%s)", in);
	if (r == 0) {
		if (r_cb_n != cb0 + 1 || r_cb_bay != &r_bay || r_cb_type != BAY_CB_EMIT || r_cb_chan != &r_chan[0] || r_cb_enabled != 1 || r_cb_func == NULL || r_cb_arg == NULL)
			FAILF("an accepted prv_register must add exactly one enabled emit callback on its channel: %d added, type %d, enabled %d (%s)", r_cb_n - cb0, r_cb_type, r_cb_enabled, in);
		bay_cb_func_t func = r_cb_func; struct prv_chan *rc = r_cb_arg;
		if (rc->row_base1 != row + 1 || rc->type != type || rc->flags != flags || rc->last_value_set != 0 || rc->prv != &r_prv || rc->chan != &r_chan[0])
			FAILF("the registered row records row_base1=%ld type=%ld flags=0x%lx last_value_set=%d; specified %ld, %ld, 0x%lx, 0 (%s)", rc->row_base1, rc->type, rc->flags, rc->last_value_set,
				row + 1, type, flags, in);
		/* what the row prints: value 9 at clock 5 (10 with PRV_NEXT), then the same value again at clock 6 */
		long long pv = 9 + (FL(flags, PRV_NEXT) ? 1 : 0);
		r = r_emit(func, rc, &r_chan[0], 9, 5);
		if (r != 0) FAILF("the first value of the registered row was refused (%s)", in);
		lines++;
		fflush(r_f);
		struct r_file pf; r_parse(&pf);
		if (pf.nlines != 1 || pf.row[0] != row + 1 || pf.time[0] != 5 || pf.type[0] != type || pf.val[0] != pv)
			FAILF("the registered row printed %d lines, first 2:0:1:1:%ld:%lld:%lld:%lld; specified one line with row %ld, time 5, type %ld, value %lld (%s)", pf.nlines, pf.row[0], pf.time[0], pf.type[0], pf.val[0],
				row + 1, type, pv, in);
		int e1 = n_err;
		r = r_emit(func, rc, &r_chan[0], 9, 6);
		int want = FL(flags, PRV_EMITDUP) || FL(flags, PRV_SKIPDUP) || FL(flags, PRV_SKIPDUPNULL) ? 0 : -1;
		int wprint = FL(flags, PRV_EMITDUP) || FL(flags, PRV_SKIPDUPNULL);
		if (r != want) FAILF("a duplicate value on the registered row returned %d, specified %d by its flags (%s)", r, want, in);
		if (want != 0 && n_err == e1) FAILF("duplicate refused without a diagnostic (%s)", in);
		lines += wprint;
		/* other (type,row) pairs are independent registrations */
		if (nrows > 1) {
			long row2 = (row + 1) % nrows;
			r = prv_register(&r_prv, row2, type, &r_bay, &r_chan[2], PRV_ZERO);
			if (r != 0) FAILF("row=%ld type=%ld refused although only row=%ld type=%ld is registered (nrows=%ld)", row2, type, row, type, nrows);
			if (r_emit(r_cb_func, r_cb_arg, &r_chan[2], 0, 7) != 0) FAILF("value 0 refused on a PRV_ZERO row");
			lines++;
		}
		long type2 = type == INT_MAX ? type - 1 : type + 1;
		r = prv_register(&r_prv, row, type2, &r_bay, &r_chan[3], 0);
		if (r != 0) FAILF("row=%ld type=%ld refused although only type=%ld is registered on that row (nrows=%ld)", row, type2, type, nrows);
		if (r_emit(r_cb_func, r_cb_arg, &r_chan[3], 4, 8) != 0) FAILF("value 4 refused on a fresh row");
		lines++;
		fflush(r_f); r_parse(&pf);
		if (pf.nlines != lines) FAILF("%d event lines in the file, specified %d (%s)", pf.nlines, lines, in);
		if (pf.row[lines - 1] != row + 1 || pf.type[lines - 1] != type2 || pf.val[lines - 1] != 4 || pf.time[lines - 1] != 8)
			FAILF("row=%ld type=%ld printed 2:0:1:1:%ld:%lld:%lld:%lld", row, type2, pf.row[lines - 1], pf.time[lines - 1], pf.type[lines - 1], pf.val[lines - 1]);
		if (nrows > 1 && (pf.row[lines - 2] != (row + 1) % nrows + 1 || pf.type[lines - 2] != type || pf.val[lines - 2] != 0))
			FAILF("row=%ld type=%ld printed 2:0:1:1:%ld:%lld:%lld:%lld", (row + 1) % nrows, type, pf.row[lines - 2], pf.time[lines - 2], pf.type[lines - 2], pf.val[lines - 2]);
	}
	/* now (type,row) is registered whatever happened above unless the flags were bad: a new registration is refused */
	if (found || r == 0 || legal) {
		cb0 = r_cb_n;
		if (prv_register(&r_prv, row, type, &r_bay, &r_chan[1], 0) == 0 || r_cb_n != cb0) FAILF("(type,row) registered twice (%s)", in);
	}
	return r_close_and_check(nrows, lines);
}
int main(void)
{
	long wf = (long) (W_FLAGS);
	{	/* check_flags and get_id on their own */
		for (long f = 0; f < 64; f++) {
			long ff = f < 32 ? f : (wf & ~31L) | (f - 32);
			int e0 = n_err, r = check_flags(ff);
			if ((r == 0) != FLAGS_OK(ff) || (r != 0 && (r != -1 || n_err == e0))) {
				printf("REPRODUCED check_flags(0x%lx) returned %d, specified %d (EMITDUP, SKIPDUP, SKIPDUPNULL are mutually exclusive) [%s]\n", ff, r, FLAGS_OK(ff) ? 0 : -1, ff == wf ? "witness" : "all flag sets");
				return 1;
			}
		}
		struct prv p; memset(&p, 0, sizeof(p));
		static const long nr[] = { 1, 2, 3, 1000, INT_MAX };
		for (int a = -1; a < 5; a++) for (int b = 0; b < 4; b++) for (int c = 0; c < 3; c++) {
			long nrows = a < 0 ? r_clamp((long) (W_NROWS), 1, INT_MAX) : nr[a];
			long row = a < 0 ? r_clamp((long) (W_ROW), 0, nrows - 1) : (c == 0 ? 0 : c == 1 ? nrows / 2 : nrows - 1);
			long type = a < 0 ? r_clamp((long) (W_TYPE), 0, INT_MAX) : (b == 0 ? 0 : b == 1 ? 1 : b == 2 ? 77 : INT_MAX);
			p.nrows = nrows;
			long id = get_id(&p, type, row);
			if (id != type * nrows + row) { printf("REPRODUCED get_id(type=%ld, row=%ld) with %ld rows returned %ld, specified %ld (distinct key per (type,row)) [%s]\n", type, row, nrows, id, type * nrows + row, a < 0 ? "witness" : "tried after the witness"); return 1; }
		}
	}
	RUN(scenario((long) (W_NROWS), (long) (W_ROW), (long) (W_TYPE), wf, (W_FOUND) != 0));
	r_origin = "tried after the witness";
	static const long sh[][2] = { { 1, 0 }, { 2, 1 }, { 5, 0 }, { 5, 4 }, { INT_MAX, INT_MAX - 1 } };
	static const long ty[] = { 0, 7, INT_MAX };
	long n = 0;
	for (long f = 0; f < 32; f++) for (int fo = 0; fo < 2; fo++) for (int s = 0; s < 5; s++) for (int t = 0; t < 3; t++) {
		n++;
		RUN(scenario(sh[s][0], sh[s][1], ty[t], f, fo));
	}
	printf("not reproduced: prv_register / check_flags / get_id behave as specified on the witness and on %ld registrations; the files are well-formed\n", n);
	return 0;
}
#endif

/* ===================================================================================== */
#if REPLAY_OP == 3
#ifndef W_PTIME
#define W_PTIME 1234
#endif
#ifndef W_NROWS
#define W_NROWS 3
#endif
static const char *scenario(long nrows_, long long ptime, int use_path, int with_line)
{
	long nrows = r_clamp(nrows_, 0, INT_MAX);
	const char *why;
	snprintf(r_ctx, sizeof(r_ctx), "%s(%ld rows); %sprv_advance(%lld); prv_close", use_path ? "prv_open" : "prv_open_file", nrows, with_line ? "one event line; " : "", ptime);
	if (use_path) {
		memset(&r_prv, 0x5a, sizeof(r_prv)); n_err = 0; r_cb_n = 0;
		/* the path already holds an older, longer file: opening must start the output afresh */
		{ FILE *o = fopen(R_PATH, "w"); if (o) { for (int i = 0; i < 40; i++) fputs("STALE LINE OF A PREVIOUS RUN\n", o); fclose(o); } }
		int r = prv_open(&r_prv, nrows, R_PATH);
		if (r != 0) FAILF("prv_open(nrows=%ld, \"%s\") returned %d although the file can be created", nrows, R_PATH, r);
		if (r_prv.nrows != nrows || r_prv.time != 0 || r_prv.channels != NULL || r_prv.file == NULL)
			FAILF("prv_open(nrows=%ld) left nrows=%ld time=%lld channels=%p file=%p", nrows, r_prv.nrows, (long long) r_prv.time, (void *) r_prv.channels, (void *) r_prv.file);
		r_f = r_prv.file;
	} else {
		why = r_open(nrows); if (why) return why;
	}
	/* placeholder header: duration 0, the declared rows, nothing else */
	fflush(r_f);
	struct r_file pf; r_parse(&pf);
	if (pf.garbage || pf.nhdr != 1 || pf.nlines != 0 || pf.dur != 0 || pf.nrows != (int) nrows)
		FAILF("after opening a trace of %ld rows the file holds %d headers (duration %lld, rows %d), %d event lines, %d malformed lines %s; specified one header 0 ns / %ld rows",
			nrows, pf.nhdr, pf.dur, pf.nrows, pf.nlines, pf.garbage, pf.first_garbage, nrows);
	int lines = 0;
	if (with_line && nrows >= 1 && ptime >= 2) {
		if (prv_register(&r_prv, nrows - 1, 3, &r_bay, &r_chan[0], 0) != 0) FAILF("registration of the last row refused");
		if (prv_advance(&r_prv, ptime / 2) != 0) FAILF("prv_advance(%lld) refused", ptime / 2);
		r_rd_ret = 0; r_rd_val = r_mkval(VALUE_INT64, 6);
		if (r_cb_func(&r_chan[0], r_cb_arg) != 0) FAILF("value 6 refused on a fresh row");
		lines = 1;
	}
	why = r_set_clock(ptime); if (why) return why;
	return r_close_and_check(nrows, lines);
}
int main(void)
{
	for (int p = 0; p < 2; p++) for (int l = 0; l < 2; l++) RUN(scenario((long) (W_NROWS), (long long) (W_PTIME), p, l));
	r_origin = "tried after the witness";
	static const long nr[] = { 0, 1, 2, 1000, INT_MAX };
	static const long long pt[] = { 0, 1, 100, 123456789012345LL, INT64_MAX, -7 };
	long n = 0;
	for (int a = 0; a < 5; a++) for (int b = 0; b < 6; b++) for (int p = 0; p < 2; p++) for (int l = 0; l < 2; l++) { n++; RUN(scenario(nr[a], pt[b], p, l)); }
	/* a file that cannot be created is refused with a diagnostic */
	{
		struct prv q; int e0 = n_err;
		int r = prv_open(&q, 3, "replay-no-such-directory/x.prv");
		if (r != -1 || n_err == e0) { printf("REPRODUCED prv_open on a path that cannot be created returned %d with %d diagnostics, specified -1 with a diagnostic [tried after the witness]\n", r, n_err - e0); return 1; }
	}
	printf("not reproduced: prv_open / prv_open_file / prv_close behave as specified on the witness (rows %ld, clock %lld) and on %ld traces; headers carry the final clock\n",
		(long) (W_NROWS), (long long) (W_PTIME), n);
	return 0;
}
#endif
