#define REPLAY_OP 7
#include "c03_player_replay.h"
