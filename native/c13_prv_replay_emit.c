#define REPLAY_OP 1
#include "c13_prv_replay.h"
