/* Shared by the C04/C05 native replay drivers (c04_event_replay.h, c04_thread_replay.h,
 * c05_cpu_replay.h, c05_affinity_replay.h, c05_loom_replay.c): diagnostics of common.c
 * (counted, die() is a legitimate refusal) and link-only stand-ins for functions of
 * other units that the code under replay never calls. No repository code here. */
#ifndef C04C05_REPLAY_STUBS_H
#define C04C05_REPLAY_STUBS_H
#include <stdio.h>
#include <stdlib.h>
#include <string.h>
#include <stdarg.h>
#include <stdint.h>

int is_debug_enabled;
static unsigned r_nerr;        /* number of err() diagnostics issued */
void verr(const char *p, const char *f, const char *e, ...)
{
	(void) f; (void) e;
	if (p != NULL && strcmp(p, "ERROR") == 0)
		r_nerr++;
}
void vdie(const char *p, const char *f, const char *e, ...)
{
	(void) p; (void) f;
	printf("not reproduced: the code died (%s): legitimate refusal\n", e);
	exit(0);
}

/* a function of another unit that only has to LINK (symbol `sym`): reaching it
 * means the driver cannot judge this input */
#define NSTUB(sym) \
	long nstub_##sym(void) __asm__(#sym); \
	long nstub_##sym(void) { printf("not reproduced: unexpected call to " #sym " (outside the replayed unit)\n"); exit(0); }

#define R_FAIL(...) do { printf("REPRODUCED " __VA_ARGS__); printf("\n"); r_bad = 1; } while (0)
static int r_bad;

#endif
