#define REPLAY_OP 1
#include "c08_chan_replay.h"
