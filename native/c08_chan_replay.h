/* Native replay of a failed channel-layer obligation (C08 chan_push / chan_pop / chan_read /
 * chan_set / chan_flush; also C06 chan_set / chan_flush / chan_read) on the REAL src/emu/chan.c.
 * REPLAY_OP: 0 push, 1 pop, 2 read, 3 set, 4 flush.
 * Witness ghosts (from the CBMC trace, all optional):
 *   W_TYPE channel type, W_N stack depth, W_DIRTY is_dirty, W_DW / W_AD / W_ID the
 *   DIRTY_WRITE / ALLOW_DUP / IGNORE_DUP properties, W_CBNULL no dirty callback, W_CBRET result of
 *   the dirty callback, (W_VT,W_VI) the value pushed / set / expected by pop,
 *   (W_LAST_T,W_LAST_I) last_value, (W_TOP_T,W_TOP_I) innermost open region,
 *   (W_SINGLE_T,W_SINGLE_I) value of a single channel.
 * The channel is rebuilt with the real chan_init / chan_set_dirty_cb / chan_prop_set, a stack of
 * depth n with pairwise distinct int64 cells below the top, the real function is called, and
 * result + complete post-state are compared with the rule of the property statement:
 *   push  accepted iff stack channel, writable, not a refused duplicate of the value last shown,
 *         and (ignored duplicate, or depth < 512 and the lower layer accepts);
 *         effect: depth+1, new top = value, dirty; an ignored duplicate changes nothing
 *   pop   accepted iff stack channel, writable, something open, expected value == innermost open
 *         region ("a leave must match the most recent unmatched enter"), lower layer accepts;
 *         effect: depth-1, dirty, no cell touched
 *   read  always 0; shows the innermost open region, null when none, the value of a single channel
 *   set   like push on a single channel; effect: value stored, dirty
 *   flush accepted iff dirty; effect: clean, last_value = visible value
 * exit 0: behaves as specified (not reproduced); exit 1: mismatch (REPRODUCED). */
#include <stdio.h>
#include <stdlib.h>
#include <string.h>
#include <stdarg.h>
#include <stdint.h>
int is_debug_enabled;
void verr(const char *p, const char *f, const char *e, ...) { (void) p; (void) f; (void) e; }
void vdie(const char *p, const char *f, const char *e, ...)
{ (void) p; (void) f; printf("not reproduced: the code died (%s): a legitimate refusal\n", e); exit(0); }
#include "chan.c"    /* the real src/emu/chan.c */
#include "value.c"   /* value_buffers (value_str in diagnostics) */

#ifndef W_TYPE
#define W_TYPE ((REPLAY_OP) == 3 ? CHAN_SINGLE : CHAN_STACK)
#endif
#ifndef W_N
#define W_N 2
#endif
#ifndef W_DIRTY
#define W_DIRTY ((REPLAY_OP) == 4)
#endif
#ifndef W_DW
#define W_DW 0
#endif
#ifndef W_AD
#define W_AD 0
#endif
#ifndef W_ID
#define W_ID 0
#endif
#ifndef W_CBNULL
#define W_CBNULL 0
#endif
#ifndef W_CBRET
#define W_CBRET 0
#endif
#ifndef W_TOP_T
#define W_TOP_T VALUE_INT64
#endif
#ifndef W_TOP_I
#define W_TOP_I 7
#endif
#ifndef W_SINGLE_T
#define W_SINGLE_T VALUE_INT64
#endif
#ifndef W_SINGLE_I
#define W_SINGLE_I 7
#endif
#ifndef W_VT
#define W_VT VALUE_INT64
#endif
#ifndef W_VI
#define W_VI ((REPLAY_OP) == 1 ? 7 : 9)
#endif
#ifndef W_LAST_T
#define W_LAST_T VALUE_INT64
#endif
#ifndef W_LAST_I
#define W_LAST_I 7
#endif

static struct value mkval(int64_t t, int64_t i) { struct value v; memset(&v, 0, sizeof(v)); v.type = t; v.i = i; return v; }
static int veq(struct value a, struct value b) { return a.type == b.type && a.i == b.i; }

static int cb_calls;
static struct chan *cb_chan;
static int dirty_cb(struct chan *chan, void *arg) { (void) arg; cb_calls++; cb_chan = chan; return (int) (W_CBRET); }

static const char *opname[] = { "chan_push", "chan_pop", "chan_read", "chan_set", "chan_flush" };

static char detail[160];
static int bad(const char *what, long got, long want)
{
	printf("REPRODUCED %s: %s is %ld, specified %ld%s (type=%d n=%d dirty=%d dw=%d ad=%d id=%d cbnull=%d cbret=%d "
		"v=(%ld,%ld) last=(%ld,%ld) top=(%ld,%ld))\n", opname[REPLAY_OP], what, got, want, detail,
		(int) (W_TYPE), (int) (W_N), (int) (W_DIRTY), (int) (W_DW), (int) (W_AD), (int) (W_ID), (int) (W_CBNULL),
		(int) (W_CBRET), (long) (W_VT), (long) (W_VI), (long) (W_LAST_T), (long) (W_LAST_I), (long) (W_TOP_T), (long) (W_TOP_I));
	return 1;
}

static int badv(const char *what, struct value got, struct value want)
{
	snprintf(detail, sizeof(detail), " [got (type %ld, %ld), specified (type %ld, %ld)]", (long) got.type, (long) got.i, (long) want.type, (long) want.i);
	return bad(what, (long) got.i, (long) want.i);
}

/* complete comparison of the channel with its specified post-state (everything but is_dirty) */
static int same_chan(const struct chan *c, const struct chan *e)
{
	if (c->type != e->type) return bad("channel type", c->type, e->type);
	for (int p = 0; p < CHAN_MAXPROP; p++)
		if (c->prop[p] != e->prop[p]) return bad("a channel property", c->prop[p], e->prop[p]);
	if (c->dirty_cb != e->dirty_cb || c->dirty_arg != e->dirty_arg) return bad("dirty callback changed", 1, 0);
	if (!veq(c->last_value, e->last_value)) return badv("last_value", c->last_value, e->last_value);
	if (strcmp(c->name, e->name) != 0) return bad("channel name changed", 1, 0);
	if (e->type == CHAN_STACK) {
		if (c->data.stack.n != e->data.stack.n) return bad("stack depth", c->data.stack.n, e->data.stack.n);
		for (int j = 0; j < MAX_CHAN_STACK; j++)
			if (!veq(c->data.stack.values[j], e->data.stack.values[j])) {
				return badv("stack cell", c->data.stack.values[j], e->data.stack.values[j]);
			}
	} else if (!veq(c->data.value, e->data.value)) {
		return badv("channel value", c->data.value, e->data.value);
	}
	return 0;
}

int main(void)
{
	static struct chan c, pre, want;
	const int op = (REPLAY_OP);
	chan_init(&c, CHAN_SINGLE, "replay.%s%d", "chan", 0);
	c.type = (enum chan_type) (W_TYPE);
	chan_prop_set(&c, CHAN_DIRTY_WRITE, (int) (W_DW));
	chan_prop_set(&c, CHAN_ALLOW_DUP, (int) (W_AD));
	chan_prop_set(&c, CHAN_IGNORE_DUP, (int) (W_ID));
	if (!(W_CBNULL)) chan_set_dirty_cb(&c, dirty_cb, &c);
	c.is_dirty = (int) (W_DIRTY);
	c.last_value = mkval((int64_t) (W_LAST_T), (int64_t) (W_LAST_I));
	int n = 0;
	if (c.type == CHAN_STACK) {
		n = (int) (W_N);
		if (n < 0 || n > MAX_CHAN_STACK) { printf("not reproduced: depth %d outside the channel invariant\n", n); return 0; }
		struct value t = mkval((int64_t) (W_TOP_T), (int64_t) (W_TOP_I));
		for (int j = 0; j < n - 1; j++) {   /* pairwise distinct cells, all different from the top */
			c.data.stack.values[j] = value_int64(1000 + j);
			if (veq(c.data.stack.values[j], t)) c.data.stack.values[j] = value_int64(-1000 - j);
		}
		if (n > 0) c.data.stack.values[n - 1] = t;
		c.data.stack.n = n;
	} else {
		c.data.value = mkval((int64_t) (W_SINGLE_T), (int64_t) (W_SINGLE_I));
	}
	if ((op == 2 || op == 4) && c.type != CHAN_SINGLE && c.type != CHAN_STACK) {
		printf("not reproduced: channel type %d outside the precondition\n", (int) c.type); return 0; }
	pre = c; want = c;
	struct value v = mkval((int64_t) (W_VT), (int64_t) (W_VI));
	struct value top = (c.type == CHAN_STACK && n > 0) ? c.data.stack.values[n - 1] : value_null();
	struct value shown = (c.type == CHAN_STACK) ? top : c.data.value;
	int writable = !(c.is_dirty && !c.prop[CHAN_DIRTY_WRITE]);
	int dup = !c.prop[CHAN_ALLOW_DUP] && veq(c.last_value, v);
	int dup_refused = dup && !c.prop[CHAN_IGNORE_DUP], dup_ignored = dup && c.prop[CHAN_IGNORE_DUP];
	int cb_runs = !c.is_dirty && c.dirty_cb != NULL;      /* clean -> dirty edge with a lower layer */
	int cb_ok = !cb_runs || (int) (W_CBRET) == 0;
	int legal = 0, modifies = 0, want_cb = 0, r = 0;
	struct value out = mkval(-77, -77);

	switch (op) {
	case 0: {
		int pushes = c.type == CHAN_STACK && writable && !dup && n < MAX_CHAN_STACK;
		legal = c.type == CHAN_STACK && writable && !dup_refused && (dup_ignored || (n < MAX_CHAN_STACK && cb_ok));
		modifies = legal && !dup_ignored;
		want_cb = pushes && cb_runs;
		if (modifies) { want.data.stack.values[n] = v; want.data.stack.n = n + 1; }
		r = chan_push(&c, v);
		break; }
	case 1: {
		int pops = c.type == CHAN_STACK && writable && n > 0 && veq(top, v);
		legal = pops && cb_ok;
		modifies = legal;
		want_cb = pops && cb_runs;
		if (modifies) want.data.stack.n = n - 1;
		r = chan_pop(&c, v);
		break; }
	case 2:
		legal = 1;
		r = chan_read(&c, &out);
		break;
	case 3: {
		int sets = c.type == CHAN_SINGLE && writable && !dup;
		legal = c.type == CHAN_SINGLE && writable && !dup_refused && (dup_ignored || cb_ok);
		modifies = legal && !dup_ignored;
		want_cb = sets && cb_runs;
		if (modifies) want.data.value = v;
		r = chan_set(&c, v);
		break; }
	default:
		legal = c.is_dirty != 0;
		if (legal) want.last_value = shown;
		r = chan_flush(&c);
		break;
	}

	if (r != 0 && r != -1) return bad("return value (0 or -1 allowed)", r, legal ? 0 : -1);
	if ((r == 0) != (legal != 0)) return bad("return value", r, legal ? 0 : -1);
	if (cb_calls != want_cb) return bad("number of dirty-callback calls", cb_calls, want_cb);
	if (cb_calls && cb_chan != &c) return bad("dirty callback got another channel", 1, 0);
	if (op == 2) {
		if (!veq(out, shown)) return badv("value read", out, shown);
		if (same_chan(&c, &pre) || c.is_dirty != pre.is_dirty) { printf("REPRODUCED chan_read: modified the channel\n"); return 1; }
	} else if (op == 4) {
		if (c.is_dirty != 0) return bad("is_dirty after flush", c.is_dirty, 0);
		if (same_chan(&c, &want)) return 1;
	} else if (r == 0 || cb_calls == 0) {
		/* accepted, or refused before the lower layer was involved: state fully specified */
		if (same_chan(&c, &want)) return 1;
		if (modifies && c.is_dirty == 0) return bad("is_dirty after a modification", c.is_dirty, 1);
		if (!modifies && c.is_dirty != pre.is_dirty) return bad("is_dirty (no modification)", c.is_dirty, pre.is_dirty);
	}
	printf("not reproduced: %s returned %d as specified (type=%d n=%d dirty=%d)\n", opname[op], r, (int) c.type, n, pre.is_dirty);
	return 0;
}
