#define REPLAY_OP 1
#include "c15_proc_replay.h"
