#define REPLAY_OP 3
#include "c20_sort_replay.h"
