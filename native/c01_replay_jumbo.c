#include "c01_replay_common.h"
int main(void)
{
	setup();
	struct ovni_ev ev; memset(&ev, 0, sizeof(ev));
	ovni_ev_set_mcv(&ev, "VYc"); ovni_ev_set_clock(&ev, 0x1122334455667788ULL);
	ev.header.flags = (uint8_t) ((W_FLAGS) & 0xe0);
	uint32_t n = (uint32_t) (W_BUFSIZE);
	unsigned char *data = malloc((size_t) n + 1);
	for (uint32_t i = 0; i < n; i++) data[i] = (unsigned char) (i * 13 + 5);
	size_t total = 16 + (size_t) n;
	if (total + 24 >= r_cap) { printf("not reproduced: event does not fit (the library must die)\n"); ovni_ev_jumbo_emit(&ev, data, n); printf("REPRODUCED: an over-large jumbo was accepted\n"); return 1; }
	int flushed = L0_len + total >= r_cap;
	unsigned char hdr[16]; struct ovni_ev e2 = ev; e2.header.flags = (uint8_t) ((ev.header.flags & 0xf0) | 0x13);
	memcpy(hdr, &e2, 12); memcpy(hdr + 12, &n, 4);
	exp_add(hdr, 16); exp_add(data, n);
	ovni_ev_jumbo_emit(&ev, data, n);
	return compare(flushed, "ovni_ev_jumbo_emit");
}
