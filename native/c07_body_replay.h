/* Native replay of a failed C07 body.c obligation on the REAL src/emu/body.c.
 * Witness ghosts (from the CBMC trace): W_NULL, W_STATE, W_FLAGS, W_HAS_STACK, W_OWN_STACK,
 * W_IS_TOP, W_HAS_TOP, W_TOP_STATE, W_TOP_FLAGS.  REPLAY_OP: 0 execute 1 pause 2 resume 3 end.
 * The body/stack configuration is rebuilt, the real function is called, and the result is
 * compared with the legality predicate of the property statement.
 * exit 0: behaves as specified (not reproduced); exit 1: mismatch (reproduced). */
#include <stdio.h>
#include <stdlib.h>
#include <string.h>
#include <stdarg.h>
int is_debug_enabled;
void verr(const char *p, const char *f, const char *e, ...) { (void) p; (void) f; (void) e; }
void vdie(const char *p, const char *f, const char *e, ...) { (void) p; (void) f; (void) e; exit(0); }
#include "body.c"
uint32_t task_get_id(struct task *t) { (void) t; return 1; }
#ifndef W_NULL
#define W_NULL 0
#endif
#ifndef W_STATE
#define W_STATE BODY_ST_CREATED
#endif
#ifndef W_FLAGS
#define W_FLAGS 0
#endif
#ifndef W_HAS_STACK
#define W_HAS_STACK 0
#endif
#ifndef W_OWN_STACK
#define W_OWN_STACK 0
#endif
#ifndef W_IS_TOP
#define W_IS_TOP 0
#endif
#ifndef W_HAS_TOP
#define W_HAS_TOP 0
#endif
#ifndef W_TOP_STATE
#define W_TOP_STATE BODY_ST_RUNNING
#endif
#ifndef W_TOP_FLAGS
#define W_TOP_FLAGS 0
#endif
int main(void)
{
	struct body_stack stack = {0}, other = {0};
	struct body b = {0}, top = {0};
	struct body *body = (W_NULL) ? NULL : &b;
	b.state = (enum body_state) (W_STATE); b.flags = (W_FLAGS); strcpy(b.name, "b");
	top.state = (enum body_state) (W_TOP_STATE); top.flags = (W_TOP_FLAGS); strcpy(top.name, "top");
	if (W_IS_TOP && body) { stack.top = body; b.prev = body; b.next = NULL; }
	else if (W_HAS_TOP) { stack.top = &top; top.prev = &top; top.next = NULL; top.stack = &stack; }
	if (body) b.stack = (W_HAS_STACK) ? ((W_OWN_STACK) ? &stack : &other) : NULL;
	struct body *t = stack.top;
	int legal, r; const char *what;
	switch (REPLAY_OP) {
	case 0: what = "body_execute";
		legal = body && (b.state == BODY_ST_CREATED || (b.state == BODY_ST_DEAD && (b.flags & BODY_FLAG_RESURRECT))) &&
			b.stack == NULL && (t == NULL || t->state != BODY_ST_RUNNING || (t->flags & BODY_FLAG_RELAX_NESTING));
		r = body_execute(&stack, body); break;
	case 1: what = "body_pause";
		legal = body && (b.flags & BODY_FLAG_PAUSE) && b.state == BODY_ST_RUNNING && b.stack == &stack && t == body;
		r = body_pause(&stack, body); break;
	case 2: what = "body_resume";
		legal = body && b.state == BODY_ST_PAUSED && b.stack == &stack && t == body;
		r = body_resume(&stack, body); break;
	default: what = "body_end";
		legal = body && b.state == BODY_ST_RUNNING && b.stack == &stack && t == body;
		r = body_end(&stack, body); break;
	}
	if ((r == 0) != (legal != 0)) {
		printf("REPRODUCED %s: returned %d but the transition is %s (state=%d flags=%d on_stack=%d own=%d top=%d)\n",
			what, r, legal ? "legal" : "illegal", W_STATE, W_FLAGS, W_HAS_STACK, W_OWN_STACK, W_IS_TOP);
		return 1;
	}
	printf("not reproduced: %s returned %d as specified\n", what, r);
	return 0;
}
