/* A5 (plan C13) native group: the four uthash look-up wrappers that the CBMC groups treat through
 * a one-cell map model -- pcf_find_type, pcf_find_value (pv/pcf.c), find_prv_chan (pv/prv.c),
 * body_find (body.c) -- run on the REAL uthash macros, with the REAL insertion paths
 * (pcf_add_type, pcf_add_value, prv_register, body_create).  CBMC cannot carry uthash; this is a
 * FINITE TEST, not a proof (plan: "kind":"bounded").  For each table, NK keys are inserted
 * (forcing several bucket expansions); after every insertion and again at the end:
 *   - every inserted key is found under its own key and yields exactly the object inserted
 *     under it (pointer identity and stored key), so no two keys share an object;
 *   - keys not inserted (yet) are not found: neighbours, negated keys, keys that differ only
 *     in the high bits (for the long-keyed PRV table: ids that differ only above bit 31);
 *   - a key inserted in one table is not found in a sibling table (values of another PCF
 *     type, bodies of another task);
 *   - a duplicate insertion is refused and the first object stays.
 * Protocol: OBL <name> PASS|FAIL <detail> ... DONE <count>. */
#include <stdio.h>
#include <stdlib.h>
#include <string.h>
#include <stdarg.h>
#include <stdint.h>
#include <limits.h>
#include "common.h"

static int n_err;
void verr(const char *prefix, const char *func, const char *errstr, ...) { (void) prefix; (void) func; (void) errstr; n_err++; }
void vdie(const char *prefix, const char *func, const char *errstr, ...) { (void) prefix; (void) func; (void) errstr; printf("OBL no_die FAIL die() reached\nDONE 1\n"); exit(1); }

/* other units: stand-ins */
#include "bay.h"
static struct bay_cb a5_cb; static long n_cb;
struct bay_cb *bay_add_cb(struct bay *bay, enum bay_cb_type type, struct chan *chan, bay_cb_func_t func, void *arg, int enabled)
{ (void) bay; (void) type; (void) chan; (void) func; (void) arg; (void) enabled; n_cb++; return &a5_cb; }
struct task;
uint32_t task_get_id(struct task *task) { (void) task; return 77; }

#define write_header pcf_write_header
#include "pv/pcf.c"                      /* the real file */
#undef write_header
#define write_header prv_write_header
#include "pv/prv.c"                      /* the real file */
#undef write_header
#include "body.c"                        /* the real file */

static int nobl;
static void obl(const char *name, int ok, const char *detail) { printf("OBL %s %s %s\n", name, ok ? "PASS" : "FAIL", detail); nobl++; }

#define NK 3000
/* the key sets: small consecutive, negative, extreme, multiples of a power of two (same low
 * bits: stress one bucket chain), pseudo-random */
static int ikey(int i)
{
	if (i == 0) return 0;
	if (i == 1) return INT_MAX;
	if (i == 2) return INT_MIN;
	if (i == 3) return -1;
	if (i < 1000) return i;                               /* 4 .. 999 */
	if (i < 1500) return -(i - 998);                      /* -2 .. -501 */
	if (i < 2000) return (i - 1499) * 65536;              /* 65536 .. 500*65536: equal low halves */
	return (int) ((uint32_t) i * 2654435761u) | 0x40000000;   /* scattered, all >= 2^30: disjoint from the above */
}
static int ikey_unique(void)
{
	static int seen_sorted[NK];
	for (int i = 0; i < NK; i++) seen_sorted[i] = ikey(i);
	for (int i = 1; i < NK; i++) {           /* insertion sort is fine for 3000 */
		int v = seen_sorted[i], j = i - 1;
		while (j >= 0 && seen_sorted[j] > v) { seen_sorted[j + 1] = seen_sorted[j]; j--; }
		seen_sorted[j + 1] = v;
	}
	for (int i = 1; i < NK; i++) if (seen_sorted[i] == seen_sorted[i - 1]) return 0;
	return 1;
}
/* a key that is never inserted: odd numbers in a range no generator produces */
static int absent_ikey(int i) { return 0x20000001 + 2 * i; }

int main(void)
{
	int ok, ok2, ok3;
	obl("keys_distinct", ikey_unique(), "the 3000 int keys of the test are pairwise different");

	/* ---------------- pcf_find_type ---------------- */
	static struct pcf pcf, pcf_b;                 /* zeroed: empty tables */
	static struct pcf_type *ty[NK];
	ok = (pcf_find_type(&pcf, 0) == NULL && pcf_find_type(&pcf, 5) == NULL);
	obl("type_empty", ok, "nothing in an empty type table");
	ok = ok2 = 1;
	for (int i = 0; i < NK; i++) {
		char lab[32]; snprintf(lab, sizeof lab, "type%d", i);
		ty[i] = pcf_add_type(&pcf, ikey(i), lab);
		if (ty[i] == NULL || ty[i]->id != ikey(i)) ok = 0;
		if (pcf_find_type(&pcf, ikey(i)) != ty[i]) ok = 0;
		if (i + 1 < NK && pcf_find_type(&pcf, ikey(i + 1)) != NULL) ok2 = 0;      /* not inserted yet */
		for (int j = 0; j < i; j += (i < 40 ? 1 : 97)) if (pcf_find_type(&pcf, ikey(j)) != ty[j]) ok = 0;
	}
	obl("type_add_find", ok, "3000 type ids: each found under its own id right after insertion, earlier ones still found");
	obl("type_not_yet", ok2, "an id is not found before it is inserted");
	ok = 1;
	for (int i = 0; i < NK; i++) {
		struct pcf_type *t = pcf_find_type(&pcf, ikey(i));
		if (t != ty[i] || t == NULL || t->id != ikey(i)) ok = 0;
		for (int j = i + 1; j < NK && j < i + 3; j++) if (ty[j] == ty[i]) ok = 0;
	}
	obl("type_find_all", ok, "after all insertions every id maps to exactly its own type");
	ok = 1;
	for (int i = 0; i < NK; i++) if (pcf_find_type(&pcf, absent_ikey(i)) != NULL) ok = 0;
	if (pcf_find_type(&pcf, 1000) != NULL || pcf_find_type(&pcf, -502) != NULL || pcf_find_type(&pcf, 65537) != NULL || pcf_find_type(&pcf, INT_MIN + 1) != NULL || pcf_find_type(&pcf, INT_MAX - 1) != NULL) ok = 0;
	obl("type_absent", ok, "3005 ids never inserted (neighbours of inserted ones included) are not found");
	ok = (pcf_find_type(&pcf_b, 5) == NULL);
	struct pcf_type *tb = pcf_add_type(&pcf_b, 123456, "other file");
	ok = ok && tb != NULL && pcf_find_type(&pcf_b, 123456) == tb && pcf_find_type(&pcf, 123456) == NULL && pcf_find_type(&pcf_b, 5) == NULL;
	obl("type_other_table", ok, "a type of another PCF object is found there and only there");
	int e0 = n_err; ok = 1;
	for (int i = 0; i < NK; i += 211) if (pcf_add_type(&pcf, ikey(i), "again") != NULL || pcf_find_type(&pcf, ikey(i)) != ty[i]) ok = 0;
	obl("type_duplicate", ok && n_err > e0, "a duplicate type id is refused with a diagnostic, the first type stays");

	/* ---------------- pcf_find_value ---------------- */
	static struct pcf_value *va[3][NK];
	struct pcf_type *T[3] = { ty[0], ty[1], ty[2] };
	ok = (pcf_find_value(T[0], 0) == NULL);
	obl("value_empty", ok, "nothing in an empty value table");
	ok = ok2 = ok3 = 1;
	for (int i = 0; i < NK; i++) {
		int k = i % 3;          /* keys are dealt round-robin to the three types */
		va[k][i] = pcf_add_value(T[k], ikey(i), "v");
		if (va[k][i] == NULL || va[k][i]->value != ikey(i)) ok = 0;
		if (pcf_find_value(T[k], ikey(i)) != va[k][i]) ok = 0;
		if (pcf_find_value(T[(k + 1) % 3], ikey(i)) != NULL || pcf_find_value(T[(k + 2) % 3], ikey(i)) != NULL) ok2 = 0;
		if (i + 3 < NK && pcf_find_value(T[k], ikey(i + 3)) != NULL) ok3 = 0;
	}
	obl("value_add_find", ok, "3000 values over 3 types: each found in its type under its own value");
	obl("value_other_type", ok2, "a value labelled in one type is not found in the other two");
	obl("value_not_yet", ok3, "a value is not found before it is labelled");
	ok = 1;
	for (int i = 0; i < NK; i++) {
		struct pcf_value *v = pcf_find_value(T[i % 3], ikey(i));
		if (v == NULL || v != va[i % 3][i] || v->value != ikey(i)) ok = 0;
		if (pcf_find_value(T[i % 3], absent_ikey(i)) != NULL) ok = 0;
	}
	ok = ok && T[0]->nvalues == NK / 3 && T[1]->nvalues == NK / 3 && T[2]->nvalues == NK / 3;
	obl("value_find_all", ok, "after all insertions every value maps to exactly its own label object; absent values are not found; 1000 values per type");
	e0 = n_err;
	ok = pcf_add_value(T[0], ikey(0), "again") == NULL && pcf_find_value(T[0], ikey(0)) == va[0][0] && n_err > e0;
	obl("value_duplicate", ok, "a duplicate value is refused, the first label stays");

	/* ---------------- find_prv_chan (long keys) ---------------- */
	static struct prv prv; static struct chan ch; static struct bay bay;
	static struct prv_chan *pc[NK]; static long pid[NK];
	prv.nrows = 1L << 20;                     /* id = type * 2^20 + row: ids above 2^32 from type 4096 on */
	strcpy(ch.name, "a5");
	ok = (find_prv_chan(&prv, 0) == NULL);
	obl("chan_empty", ok, "nothing in an empty channel table");
	ok = ok2 = ok3 = 1;
	for (int i = 0; i < NK; i++) {
		/* (row, type): for i >= 1500 the id is the id of entry i-1500 plus 2^32 * m: equal low words */
		long row, type;
		if (i < 1500) { row = (i * 7919L) % prv.nrows; type = i % 4096; }
		else { row = ((i - 1500) * 7919L) % prv.nrows; type = (i - 1500) % 4096 + 4096L * (1 + i % 5); }
		pid[i] = type * prv.nrows + row;
		if (find_prv_chan(&prv, pid[i]) != NULL) ok3 = 0;
		if (prv_register(&prv, row, type, &bay, &ch, 0) != 0) ok = 0;
		pc[i] = find_prv_chan(&prv, pid[i]);
		if (pc[i] == NULL || pc[i]->id != pid[i] || pc[i]->row_base1 != row + 1 || pc[i]->type != type) ok = 0;
		/* the same low 32 bits with other high bits: not registered */
		if (find_prv_chan(&prv, pid[i] + (7L << 32)) != NULL || find_prv_chan(&prv, pid[i] | (1L << 62)) != NULL || find_prv_chan(&prv, -pid[i] - 1) != NULL) ok2 = 0;
	}
	obl("chan_add_find", ok, "3000 channels: each found under its own 64-bit id right after registration, with its row and type");
	obl("chan_high_bits", ok2, "an id that differs from a registered one only above bit 31 is not found");
	obl("chan_not_yet", ok3, "an id is not found before it is registered (1500 ids share their low 32 bits with an earlier one)");
	ok = 1;
	for (int i = 0; i < NK; i++) {
		struct prv_chan *c = find_prv_chan(&prv, pid[i]);
		if (c == NULL || c != pc[i] || c->id != pid[i]) ok = 0;
		if (i >= 1500 && (pc[i] == pc[i - 1500] || (pid[i] & 0xffffffffL) != (pid[i - 1500] & 0xffffffffL))) ok = 0;
	}
	obl("chan_find_all", ok, "after all registrations every id maps to exactly its own channel (pairs with equal low words stay apart)");
	e0 = n_err;
	ok = prv_register(&prv, pc[10]->row_base1 - 1, pc[10]->type, &bay, &ch, 0) != 0 && n_err > e0 && find_prv_chan(&prv, pid[10]) == pc[10];
	obl("chan_duplicate", ok, "a second channel on the same (row, type) is refused, the first stays");

	/* ---------------- body_find (uint32 keys) ---------------- */
	static struct body_info bi, bi2; static struct body *bd[NK];
	struct task *task = (struct task *) &bi;      /* only its address is stored */
	ok = (body_find(&bi, 1) == NULL);
	obl("body_empty", ok, "nothing in an empty body table");
	ok = ok2 = 1;
	for (int i = 0; i < NK; i++) {
		uint32_t id = (uint32_t) ikey(i);
		if (id == 0) id = 0x80000001u;      /* body id 0 is illegal; 0x80000001 = INT_MIN + 1 is in no generator */
		bd[i] = body_create(&bi, task, id, BODY_FLAG_PAUSE);
		if (bd[i] == NULL || body_get_id(bd[i]) != id || body_find(&bi, id) != bd[i]) ok = 0;
		if (body_find(&bi2, id) != NULL) ok2 = 0;
	}
	for (int i = 0; i < NK; i++) {
		uint32_t id = (uint32_t) ikey(i); if (id == 0) id = 0x80000001u;
		if (body_find(&bi, id) != bd[i]) ok = 0;
		if (body_find(&bi, (uint32_t) absent_ikey(i)) != NULL) ok = 0;
	}
	obl("body_add_find", ok, "3000 bodies: each found under its own id after creation and at the end; absent ids not found");
	struct body *b2 = body_create(&bi2, task, 42, 0);
	obl("body_other_task", ok2 && b2 != NULL && body_find(&bi2, 42) == b2 && body_find(&bi, 42) == bd[42] && bd[42] != b2,
		"bodies of another task are found there and only there");
	e0 = n_err;
	obl("body_duplicate", body_create(&bi, task, 42, 0) == NULL && n_err > e0 && body_find(&bi, 42) == bd[42], "a duplicate body id is refused, the first body stays");

	printf("DONE %d\n", nobl);
	return 0;
}
