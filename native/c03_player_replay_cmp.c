#define REPLAY_OP 0
#include "c03_player_replay.h"
