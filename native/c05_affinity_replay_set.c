#define REPLAY_OP 0
#include "c05_affinity_replay.h"
