#define REPLAY_OP 2
#include "c08_chan_replay.h"
