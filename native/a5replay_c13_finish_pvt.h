/* C13 native replay of finish_pvt (REAL src/emu/{nosv,nanos6}/setup.c) with the REAL task.c (task types), recorder.c,
 * pv/pvt.c, pv/pcf.c, pv/prf.c, pv/prv.c and extend.c.  Define REPLAY_NANOS6 for the nanos6 copy.  No input witness
 * is needed.  Session: a recorder with the "thread" and "cpu" traces whose .pcf declare the model's task-type
 * timeline (and its subsystem timeline); three processes in the GLOBAL process list (their per-loom hash chain is
 * a different, empty list), each with its own task types (one label shared by two processes under different ids);
 * finish_pvt runs for both traces; recorder_finish writes the files.  Statement: every non-zero value printed on
 * a task-type timeline has a label: the task types of EVERY process are declared, once, under the task-type
 * timeline of BOTH traces (checked in memory through pcf_find_* and in the text of the .pcf files), and no other
 * type receives them.  nosv only: an unfinished trace adds nothing; a trace without the task-type timeline or an
 * unknown trace name is refused with a diagnostic.
 * Linked with -Wl,--unresolved-symbols=ignore-all.  exit 0: as specified; exit 1: REPRODUCED. */
#include "c12_replay_common.h"
#include "value.c"
#define write_header prv_write_header
#include "pv/prv.c"
#undef write_header
#define write_header pcf_write_header
#include "pv/pcf.c"
#undef write_header
#include "pv/prf.c"
#include "pv/pvt.c"
#include "recorder.c"
int cfg_generate(const char *tracedir) { (void) tracedir; return 0; }
#include "extend.c"
#include "task.c"
#ifdef REPLAY_NANOS6
#include "nanos6/setup.c"
#define MODEL "nanos6"
#define MPROC struct nanos6_proc
#else
#include "nosv/setup.c"
#define MODEL "nosv"
#define MPROC struct nosv_proc
#endif
#define F_DIR "a5replay_finish_trace"
static char why[500];
#define FAIL(...) do { snprintf(why, sizeof(why), __VA_ARGS__); return 1; } while (0)
static const struct { int proc; unsigned id; const char *label; } f_types[] = {{0, 1, "alpha kernel"}, {0, 2, "beta kernel"}, {1, 1, "beta kernel"}, {1, 5, "gamma"}, {2, 9, "delta sweep"}};
#define F_NTYPES 5
static struct emu *f_emu; static struct proc f_proc[3]; static MPROC f_mproc[3];
static char *slurp(const char *path) { FILE *f = fopen(path, "r"); if (!f) return NULL; static char buf[1 << 16]; size_t n = fread(buf, 1, sizeof(buf) - 1, f); buf[n] = 0; fclose(f); return buf; }
static int f_setup(int with_type)
{
	(void) system("rm -rf " F_DIR " && mkdir -p " F_DIR);
	if (!f_emu) f_emu = calloc(1, sizeof(*f_emu));
	memset(f_emu, 0, sizeof(*f_emu)); n_err = 0;
	if (recorder_init(&f_emu->recorder, F_DIR) != 0) FAIL("recorder_init refused");
	static const char *names[2] = {"thread", "cpu"};
	for (int i = 0; i < 2; i++) {
		struct pvt *pvt = recorder_add_pvt(&f_emu->recorder, names[i], 1);
		if (!pvt || prf_add(pvt_get_prf(pvt), 0, "row") != 0) FAIL("recorder_add_pvt / prf_add refused");
		if (with_type && pcf_add_type(pvt_get_pcf(pvt), pvt_type[CH_TYPE], "task type timeline") == NULL) FAIL("pcf_add_type refused");
		if (pcf_add_type(pvt_get_pcf(pvt), pvt_type[CH_SUBSYSTEM], "subsystem timeline") == NULL) FAIL("pcf_add_type refused");
	}
	for (int k = 0; k < 3; k++) {
		memset(&f_proc[k], 0, sizeof(f_proc[k])); memset(&f_mproc[k], 0, sizeof(f_mproc[k]));
		f_proc[k].pid = 10 + k; extend_set(&f_proc[k].ext, model_id, &f_mproc[k]);
		if (k) { f_proc[k - 1].gnext = &f_proc[k]; f_proc[k].gprev = &f_proc[k - 1]; }
	}
	for (int i = 0; i < F_NTYPES; i++) if (task_type_create(&f_mproc[f_types[i].proc].task_info, f_types[i].id, f_types[i].label) != 0) FAIL("task_type_create refused");
	f_emu->system.procs = &f_proc[0]; f_emu->system.nprocs = 3;
	return 0;
}
static int f_main_case(void)
{
	if (f_setup(1)) return 1;
	f_emu->finished = 1;
	if (finish_pvt(f_emu, "thread") != 0 || finish_pvt(f_emu, "cpu") != 0) FAIL("finish_pvt refused a finished trace with the task-type timeline declared (%d diagnostics)", n_err);
	static const char *names[2] = {"thread", "cpu"};
	for (int i = 0; i < 2; i++) {
		struct pcf *pcf = pvt_get_pcf(recorder_find_pvt(&f_emu->recorder, names[i]));
		struct pcf_type *t = pcf_find_type(pcf, pvt_type[CH_TYPE]), *s = pcf_find_type(pcf, pvt_type[CH_SUBSYSTEM]);
		if (!t || !s) FAIL("a declared type disappeared from %s.pcf", names[i]);
		for (int j = 0; j < F_NTYPES; j++) {
			struct pcf_value *v = pcf_find_value(t, (int) task_get_type_gid(f_types[j].label));
			if (!v || strcmp(v->label, f_types[j].label) != 0) FAIL("%s.pcf: the task type \"%s\" of process %d has no label under the task-type timeline %d (the task types of EVERY process of the global list are declared)", names[i], f_types[j].label, f_types[j].proc, pvt_type[CH_TYPE]);
		}
		if (t->nvalues != 4) FAIL("%s.pcf: the task-type timeline has %d values, the processes define 4 distinct task types", names[i], t->nvalues);
		if (s->nvalues != 0) FAIL("%s.pcf: task types were declared under the subsystem timeline %d", names[i], pvt_type[CH_SUBSYSTEM]);
	}
	if (recorder_finish(&f_emu->recorder) != 0) FAIL("recorder_finish refused");
	for (int i = 0; i < 2; i++) {
		char path[128]; snprintf(path, sizeof(path), F_DIR "/%s.pcf", names[i]);
		char *text = slurp(path); if (!text) FAIL("cannot read %s", path);
		for (int j = 0; j < F_NTYPES; j++) {
			char line[256]; snprintf(line, sizeof(line), "%-4d %s\n", (int) task_get_type_gid(f_types[j].label), f_types[j].label);
			if (strstr(text, line) == NULL) FAIL("%s.pcf (file): no line \"%.*s\" for the task type of process %d", names[i], (int) strlen(line) - 1, line, f_types[j].proc);
		}
	}
	return 0;
}
#ifndef REPLAY_NANOS6
static int f_nosv_cases(void)
{
	if (f_setup(1)) return 1;
	f_emu->finished = 0;
	if (finish_pvt(f_emu, "thread") != 0) FAIL("finish_pvt fails on an unfinished trace (the check runs only for complete traces)");
	if (pcf_find_type(pvt_get_pcf(recorder_find_pvt(&f_emu->recorder, "thread")), pvt_type[CH_TYPE])->nvalues != 0) FAIL("finish_pvt declared task types although the trace is not finished");
	f_emu->finished = 1; n_err = 0;
	if (finish_pvt(f_emu, "no-such-trace") == 0 || n_err == 0) FAIL("finish_pvt accepted a trace name that does not exist (or refused it silently)");
	if (f_setup(0)) return 1;
	f_emu->finished = 1; n_err = 0;
	if (finish_pvt(f_emu, "cpu") == 0 || n_err == 0) FAIL("finish_pvt accepted a trace whose .pcf lacks the task-type timeline (or refused it silently)");
	return 0;
}
#endif
int main(void)
{
	setvbuf(stdout, NULL, _IONBF, 0);
	if (f_main_case()) { printf("REPRODUCED " MODEL ": %s\n", why); return 1; }
#ifndef REPLAY_NANOS6
	if (f_nosv_cases()) { printf("REPRODUCED " MODEL ": %s\n", why); return 1; }
#endif
	(void) system("rm -rf " F_DIR);
	printf("not reproduced: " MODEL " finish_pvt declares the task types of every process under the task-type timeline of both traces\n");
	return 0;
}
