/* Native replay of a failed C01/C02 runtime obligation against the REAL src/rt/ovni.c.
 * The witness ghosts of the CBMC trace arrive as -DW_CAP=.. -DW_EVLEN0=.. -DW_FLEN0=..
 * -DW_FLAGS=.. -DW_BUFSIZE=.. ; missing ones get defaults.  The real function is run on
 * a real buffer of W_CAP bytes with write(2) redirected to memory (delivering short
 * writes), and the resulting logical stream is compared with the specification:
 *   L' = L ++ bytes(event) [++ jumbo data] [++ OF[ t0 ++ OF] t1 iff evlen+size >= cap]
 * exit 0: the real code behaves as specified on this input (not reproduced)
 * exit 1: mismatch (reproduced), with a description on stdout. */
#define _GNU_SOURCE
#include <stdio.h>
#include <stdlib.h>
#include <string.h>
#include <stdint.h>
#include <stdarg.h>
#include <unistd.h>
#include <time.h>
#include "ovni.h"

#ifndef W_CAP
#define W_CAP 4096
#endif
#ifndef W_EVLEN0
#define W_EVLEN0 0
#endif
#ifndef W_FLAGS
#define W_FLAGS 0
#endif
#ifndef W_BUFSIZE
#define W_BUFSIZE 0
#endif

static unsigned long r_cap = (W_CAP);
#undef OVNI_MAX_EV_BUF
#define OVNI_MAX_EV_BUF ((long long) r_cap)

static unsigned char *r_file; static size_t r_file_len, r_file_room;
static ssize_t r_write(int fd, const void *buf, size_t n)
{
	(void) fd;
	size_t k = n > 7 ? 7 : n;   /* short writes */
	if (r_file_len + k > r_file_room) { r_file_room = (r_file_len + k) * 2 + 64; r_file = realloc(r_file, r_file_room); }
	memcpy(r_file + r_file_len, buf, k);
	r_file_len += k;
	return (ssize_t) k;
}
#define write r_write
#include "ovni.c"
#undef write
#include "parson.c"   /* the real parson, only to link; not exercised */

/* the library's die(): a legitimate refusal, not a property violation */
int is_debug_enabled;
void verr(const char *p, const char *f, const char *e, ...) { (void) p; (void) f; (void) e; }
void vdie(const char *p, const char *f, const char *e, ...) { (void) p; (void) f; printf("library died: %s (legitimate refusal, not reproduced)\n", e); exit(0); }
int mkpath(const char *path, mode_t mode, int is_dir) { (void) path; (void) mode; (void) is_dir; return 0; }

static unsigned char *L0; static size_t L0_len;
static unsigned char *exp_; static size_t exp_len;
static void exp_add(const void *p, size_t n) { exp_ = realloc(exp_, exp_len + n + 1); if (n) memcpy(exp_ + exp_len, p, n); exp_len += n; }

static void setup(void)
{
	rthread.evbuf = malloc(r_cap);
	rthread.evlen = (W_EVLEN0) < r_cap ? (W_EVLEN0) : 0;
	for (size_t i = 0; i < rthread.evlen; i++) rthread.evbuf[i] = (unsigned char) (i * 7 + 3);
	rthread.ready = 1; rthread.streamfd = 99;
	rproc.st = ST_READY; rproc.clockid = CLOCK_MONOTONIC;
	L0_len = rthread.evlen; L0 = malloc(L0_len + 1); if (L0_len) memcpy(L0, rthread.evbuf, L0_len);
	exp_add(L0, L0_len);
}

static int check_marker(const unsigned char *m, char v, uint64_t *clk)
{
	if (m[0] != 0 || m[1] != 'O' || m[2] != 'F' || m[3] != (unsigned char) v) return 0;
	memcpy(clk, m + 4, 8);
	return 1;
}

/* compare L' (file ++ evbuf[0..evlen)) with exp_ (+ optional marker pair) */
static int compare(int expect_markers, const char *what)
{
	size_t got_len = r_file_len + rthread.evlen;
	unsigned char *got = malloc(got_len + 1);
	if (r_file_len) memcpy(got, r_file, r_file_len);
	if (rthread.evlen) memcpy(got + r_file_len, rthread.evbuf, rthread.evlen);
	size_t want_len = exp_len + (expect_markers ? 24 : 0);
	if (got_len != want_len) { printf("REPRODUCED %s: stream length %zu, specified %zu\n", what, got_len, want_len); return 1; }
	for (size_t i = 0; i < exp_len; i++)
		if (got[i] != exp_[i]) { printf("REPRODUCED %s: byte %zu is 0x%02x, specified 0x%02x\n", what, i, got[i], exp_[i]); return 1; }
	if (expect_markers) {
		uint64_t t0, t1;
		if (!check_marker(got + exp_len, '[', &t0) || !check_marker(got + exp_len + 12, ']', &t1) || t0 > t1) {
			printf("REPRODUCED %s: the bytes after the event are not an OF[ OF] pair with t0 <= t1\n", what); return 1; }
	}
	if (rthread.evlen >= r_cap) { printf("REPRODUCED %s: buffer full after the call\n", what); return 1; }
	printf("not reproduced: %s behaves as specified (cap=%lu evlen0=%lu)\n", what, r_cap, (unsigned long) L0_len);
	return 0;
}
