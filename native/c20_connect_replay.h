/* C20 native replay of the breakdown wiring (model_<nosv|nanos6>_breakdown_connect / connect_cpu) on the REAL
 * src/emu/{nosv,nanos6}/breakdown.c with the REAL sort.c, mux.c, chan.c, bay.c.  The Paraver writer (pv/prv.c, pvt.c)
 * is outside the unit: prv_register / pvt_get_prv are logging stand-ins.  Define REPLAY_NANOS6 for the nanos6 copy.
 * No input witness is needed: for CPU lists mixing physical and virtual CPUs in every order (<= 4 CPUs) the real
 * function is run and the statement of the property is evaluated:
 *   - EVERY physical CPU (virtual CPUs excepted) feeds input k of the sort module with its tri channel, k counting
 *     physical CPUs in list order, and row k of the breakdown trace shows sort output k (type PRV_*_BREAKDOWN);
 *   - tr is the mux of subsystem / task type selected by the subsystem, default "unknown subsystem"; tri is the mux
 *     of tr / idle selected by the idle state.
 * Linked with -Wl,--unresolved-symbols=ignore-all.  exit 0: as specified; exit 1: REPRODUCED. */
#include "c12_replay_common.h"
#include "value.c"
#include "chan.c"
#include "bay.c"
#include "mux.c"
#include "sort.c"
#include "extend.c"
#ifdef REPLAY_NANOS6
#include "nanos6/breakdown.c"
#define MODEL "nanos6"
#define MEMU struct nanos6_emu
#define MCPU struct nanos6_cpu
#define KEY '6'
#define CONNECT model_nanos6_breakdown_connect
#define PRVTYPE PRV_NANOS6_BREAKDOWN
#else
#include "nosv/breakdown.c"
#define MODEL "nosv"
#define MEMU struct nosv_emu
#define MCPU struct nosv_cpu
#define KEY 'V'
#define CONNECT model_nosv_breakdown_connect
#define PRVTYPE PRV_NOSV_BREAKDOWN
#endif
/* ---- Paraver writer stand-ins (outside the unit) ---- */
static struct prv the_prv;   /* the real struct types (pv/prv.h, pv/pvt.h); the objects are never used */
static struct { long row, type, flags; struct chan *chan; struct bay *bay; struct prv *prv; } reg[16]; static int nreg;
struct prv *pvt_get_prv(struct pvt *pvt) { (void) pvt; return &the_prv; }
int prv_register(struct prv *prv, long row, long type, struct bay *bay, struct chan *chan, long flags)
{ if (nreg < 16) { reg[nreg].row = row; reg[nreg].type = type; reg[nreg].flags = flags; reg[nreg].chan = chan; reg[nreg].bay = bay; reg[nreg].prv = prv; } nreg++; return 0; }

static char why[400];
static int conn_case(int ncpu, int virtmask)
{
	static struct emu *emu; static MEMU memu; static struct pvt pvt;
	if (!emu) emu = calloc(1, sizeof(*emu));
	memset(emu, 0, sizeof(*emu)); memset(&memu, 0, sizeof(memu)); nreg = 0;
	bay_init(&emu->bay); emu->args.breakdown = 1; emu->ext.ctx[KEY] = &memu;
	int nphy = 0; for (int i = 0; i < ncpu; i++) if (!((virtmask >> i) & 1)) nphy++;
	if (nphy == 0) return 0;
	if (sort_init(&memu.breakdown.sort, &emu->bay, nphy, MODEL ".breakdown.sort") != 0) { snprintf(why, sizeof(why), "setup: sort_init failed"); return 1; }
	memu.breakdown.nphycpus = nphy; memu.breakdown.pvt = &pvt;
	struct cpu *cpus[4]; MCPU *mc[4];
	for (int i = 0; i < ncpu; i++) {
		cpus[i] = calloc(1, sizeof(struct cpu)); mc[i] = calloc(1, sizeof(MCPU));
		cpus[i]->gindex = i; cpus[i]->is_virtual = (virtmask >> i) & 1; cpus[i]->ext.ctx[KEY] = mc[i];
		mc[i]->m.track = calloc(CH_MAX, sizeof(struct track)); mc[i]->m.bay = &emu->bay;
		for (int c = 0; c < CH_MAX; c++) { chan_init(&mc[i]->m.track[c].ch, CHAN_SINGLE, MODEL ".cpu%d.ch%d", i, c); if (bay_register(&emu->bay, &mc[i]->m.track[c].ch) != 0) { snprintf(why, sizeof(why), "setup: bay_register failed"); return 1; } }
		if (!cpus[i]->is_virtual && create_cpu(&emu->bay, &mc[i]->breakdown, i) != 0) { snprintf(why, sizeof(why), "setup: create_cpu failed"); return 1; }
		if (i) { cpus[i - 1]->next = cpus[i]; cpus[i]->prev = cpus[i - 1]; }
	}
	emu->system.cpus = cpus[0]; emu->system.ncpus = (size_t) ncpu;
	n_err = 0;
	int r = CONNECT(emu);
	if (r != 0) { snprintf(why, sizeof(why), MODEL " breakdown connect failed (%d)", r); return 1; }
	int k = 0;
	for (int i = 0; i < ncpu; i++) {
		if (cpus[i]->is_virtual) continue;
		struct chan *tri = &mc[i]->breakdown.tri, *tr = &mc[i]->breakdown.tr;
		struct sort_input *in = &memu.breakdown.sort.inputs[k];
		if (in->chan != tri || in->index != k || in->sort != &memu.breakdown.sort) { snprintf(why, sizeof(why), "physical CPU %d (the %d-th physical CPU of the list) does not feed input %d of the sort module: its breakdown row is missing", i, k, k); return 1; }
		int found = 0;
		for (int j = 0; j < nreg && j < 16; j++) if (reg[j].row == k) { found++; if (reg[j].chan != &memu.breakdown.sort.outputs[k] || reg[j].type != PRVTYPE || reg[j].prv != &the_prv || reg[j].bay != &emu->bay || reg[j].flags != (PRV_SKIPDUP | PRV_ZERO)) found = -100; }
		if (found != 1) { snprintf(why, sizeof(why), "row %d of the breakdown trace is not registered exactly once on sort output %d with the breakdown type", k, k); return 1; }
		struct mux *m0 = &mc[i]->breakdown.mux0, *m1 = &mc[i]->breakdown.mux1;
		struct value d0 = m0->def;
		if (m0->select != &mc[i]->m.track[CH_SUBSYSTEM].ch || m0->output != tr || m0->ninputs != 2 || m0->inputs[0].chan != &mc[i]->m.track[CH_SUBSYSTEM].ch || m0->inputs[1].chan != &mc[i]->m.track[CH_TYPE].ch ||
			m0->select_func != select_tr || d0.type != VALUE_INT64 || d0.i != ST_UNKNOWN_SS) { snprintf(why, sizeof(why), "CPU %d: tr is not the mux of subsystem / task type selected by the subsystem with default 'unknown subsystem'", i); return 1; }
		if (m1->select != &mc[i]->m.track[CH_IDLE].ch || m1->output != tri || m1->ninputs != 2 || m1->inputs[0].chan != tr || m1->inputs[1].chan != &mc[i]->m.track[CH_IDLE].ch || m1->select_func != select_idle) { snprintf(why, sizeof(why), "CPU %d: tri is not the mux of tr / idle selected by the idle state", i); return 1; }
		k++;
	}
	if (nreg != nphy) { snprintf(why, sizeof(why), "%d rows registered for %d physical CPUs", nreg, nphy); return 1; }
	return 0;   /* (memory of the case is left to the process exit) */
}
int main(void)
{
	setvbuf(stdout, NULL, _IONBF, 0);
	for (int n = 1; n <= 4; n++) for (int vm = 0; vm < (1 << n); vm++)
		if (conn_case(n, vm)) { printf("REPRODUCED " MODEL ": %s [CPU list of %d, virtual mask 0x%x]\n", why, n, vm); return 1; }
	printf("not reproduced: " MODEL " breakdown connect wires every physical CPU as specified\n");
	return 0;
}
