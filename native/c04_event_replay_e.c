#define REPLAY_OP 'e'
#include "c04_event_replay.h"
