/* C11 -- STATIC / RUN-TIME FACTS about the real translation unit src/rt/ovni.c, compiled
 * from the current tree with the real compiler and run with real threads.  Contracts are
 * sequential and CBMC treats `rthread` as one object: that every thread gets its OWN
 * rthread (storage class _Thread_local) while `rproc` is ONE shared object is what makes
 * the per-function write frames proved in harness/c11_frames.c disjoint between threads.
 *
 *   OBL thread_local_rthread : N threads + main each see a different &rthread, a value
 *       written to rthread.tid by one thread is never seen by another (checked after a
 *       barrier), and a fresh thread starts with the zero initialiser
 *   OBL shared_rproc         : all threads see the same &rproc and the same value in it
 *   OBL writable_statics_are_rproc_and_rthread : src/rt/ovni.c is compiled alone (gcc -c -O0)
 *       and the symbol table of the object file is read (nm -f sysv): the ONLY data
 *       symbols outside read-only sections are `rproc` (OBJECT) and `rthread` (TLS).  This
 *       covers function-scope `static` variables, which DFCC adds to every write frame
 *       automatically (so the frame groups cannot see them), and the storage class itself.
 *   OBL smoke_streams_isolated : ONE real concurrent execution (not a proof: one schedule
 *       per run) of the whole per-thread protocol in N threads released together --
 *       thread_init, require, add_cpu, attr set, many emits (forcing buffer flushes),
 *       flush, thread_free -- then every stream.obs / stream.json is read back: it holds
 *       exactly that thread's events, in order, and that thread's metadata.
 *   OBL tsan_no_race_in_smoke_run (group tsan_smoke only, built with -fsanitize=thread):
 *       ThreadSanitizer reported no data race during the three checks above (dynamic race
 *       detection on the executed schedule only; the observable named by the property)
 * Output protocol of bin/vcheck: OBL <name> PASS|FAIL <detail>, DONE <n>. */
#include <pthread.h>
#include <stdio.h>
#include <stdlib.h>
#include <string.h>
#include <stdint.h>
#include <unistd.h>

#include "ovni.c"          /* the REAL /repo/src/rt/ovni.c: rthread / rproc are in scope */
#include "common.c"        /* mkpath, die (link dependencies, real) */
#include "parson.c"        /* real parson (link dependency) */

#define NT 4
#define NEV 150000          /* 150000 * 20 bytes > 2 MiB: every thread flushes at least once */

static pthread_barrier_t bar;
static void *addr_rthread[NT + 1], *addr_rproc[NT + 1];
static int tid_seen[NT + 1], fresh_zero[NT + 1], proc_seen[NT + 1];

static void *tls_worker(void *arg)
{
	int k = (int) (intptr_t) arg;
	static const struct ovni_rthread zero;
	fresh_zero[k] = (memcmp(&rthread, &zero, sizeof(zero)) == 0);
	addr_rthread[k] = &rthread;
	addr_rproc[k] = &rproc;
	rthread.tid = 1000 + k;
	rthread.evlen = (size_t) (7 * k + 1);
	pthread_barrier_wait(&bar);        /* every thread has written */
	tid_seen[k] = (rthread.tid == 1000 + k && rthread.evlen == (size_t) (7 * k + 1));
	proc_seen[k] = rproc.app;
	pthread_barrier_wait(&bar);
	rthread.tid = 0;
	rthread.evlen = 0;
	return NULL;
}

static int check_tls(char *why, size_t n)
{
	pthread_t th[NT];
	pthread_barrier_init(&bar, NULL, NT + 1);
	rproc.app = 4242;
	for (int k = 0; k < NT; k++)
		pthread_create(&th[k], NULL, tls_worker, (void *) (intptr_t) k);
	tls_worker((void *) (intptr_t) NT);        /* main is the last participant */
	for (int k = 0; k < NT; k++)
		pthread_join(th[k], NULL);
	rproc.app = 0;
	int ok = 1;
	for (int a = 0; a <= NT && ok; a++) {
		if (!tid_seen[a]) { snprintf(why, n, "thread %d read back a value written by another thread", a); ok = 0; }
		if (a < NT && !fresh_zero[a]) { snprintf(why, n, "thread %d did not start with a zeroed rthread", a); ok = 0; }
		for (int b = a + 1; b <= NT && ok; b++)
			if (addr_rthread[a] == addr_rthread[b]) { snprintf(why, n, "threads %d and %d share &rthread", a, b); ok = 0; }
	}
	return ok;
}

static int check_shared(char *why, size_t n)
{
	for (int a = 0; a <= NT; a++) {
		if (addr_rproc[a] != (void *) &rproc) { snprintf(why, n, "thread %d sees a different &rproc", a); return 0; }
		if (proc_seen[a] != 4242) { snprintf(why, n, "thread %d does not see the value stored in rproc by main", a); return 0; }
	}
	return 1;
}

/* ---- symbol table of the real object file ---- */
/* returns 1 ok, 0 violated, -1 could not be determined (tool failure: undecided) */
static int check_symbols(const char *repo, char *why, size_t n)
{
	char cmd[4096];
	snprintf(cmd, sizeof(cmd),
		"gcc -c -O0 -w -std=gnu11 -D_GNU_SOURCE -D_POSIX_C_SOURCE=200809L -I../geninc -I%s/src/include -I%s/src -I%s/src/rt "
		"%s/src/rt/ovni.c -o c11_ovni.o && nm -f sysv c11_ovni.o > c11_ovni.nm", repo, repo, repo, repo);
	if (system(cmd) != 0) { snprintf(why, n, "cannot compile / list src/rt/ovni.c"); return -1; }
	FILE *f = fopen("c11_ovni.nm", "r");
	if (!f) { snprintf(why, n, "no symbol listing"); return -1; }
	char line[1024];
	int seen_rproc = 0, seen_rthread = 0, nsym = 0, ok = 1;
	while (fgets(line, sizeof(line), f)) {
		/* Name |Value |Class |Type |Size |Line |Section */
		char *fld[7];
		int k = 0;
		for (char *t = strtok(line, "|"); t && k < 7; t = strtok(NULL, "|")) {
			while (*t == ' ') t++;
			char *e = t + strlen(t);
			while (e > t && (e[-1] == ' ' || e[-1] == '\n')) *--e = 0;
			fld[k++] = t;
		}
		if (k < 7) continue;
		nsym++;
		int is_obj = strcmp(fld[3], "OBJECT") == 0, is_tls = strcmp(fld[3], "TLS") == 0;
		if (!is_obj && !is_tls) continue;
		if (strncmp(fld[6], ".rodata", 7) == 0) continue;       /* __func__ and other constants */
		if (is_obj && strcmp(fld[0], "rproc") == 0) { seen_rproc = 1; continue; }
		if (is_tls && strcmp(fld[0], "rthread") == 0) { seen_rthread = 1; continue; }
		if (ok) snprintf(why, n, "writable static-storage object `%s` (%s, section %s) besides rproc / thread-local rthread", fld[0], fld[3], fld[6]);
		ok = 0;
	}
	fclose(f);
	if (nsym < 10) { snprintf(why, n, "symbol listing not understood"); return -1; }
	if (ok && !seen_rproc) { snprintf(why, n, "rproc is not a data object of ovni.o"); ok = 0; }
	if (ok && !seen_rthread) { snprintf(why, n, "rthread is not a thread-local (TLS) object of ovni.o"); ok = 0; }
	return ok;
}

/* ---- libc functions with hidden process-wide state must not be called by the runtime ---- */
/* returns 1 ok, 0 violated, -1 undecided.  Reads the undefined symbols of the object file listed by
 * check_symbols (c11_ovni.nm).  Calling one of these from two tracing threads is a data race inside the
 * library even though no static of ovni.c is involved (POSIX.1-2008 2.9.1 "need not be thread-safe"). */
static int check_nonreentrant(char *why, size_t n)
{
	static const char *deny[] = { "strtok", "localtime", "gmtime", "asctime", "ctime", "rand", "srand", "drand48",
		"lrand48", "mrand48", "getlogin", "ttyname", "tmpnam", "setenv", "putenv", "unsetenv", "strsignal",
		"getpwnam", "getpwuid", "getgrnam", "getgrgid", "gethostbyname", "readdir_r_unused", "basename_unused",
		"ecvt", "fcvt", "gcvt", "l64a", "ptsname", "crypt", "encrypt", "setkey", "hcreate", "hsearch", NULL };
	FILE *f = fopen("c11_ovni.nm", "r");
	if (!f) { snprintf(why, n, "no symbol listing"); return -1; }
	char line[1024]; int ok = 1;
	while (fgets(line, sizeof(line), f)) {
		/* Name |Value |Class |...: class 'U' = undefined */
		char name[256]; size_t k = 0; const char *q = line;
		while (*q == ' ') q++;
		while (*q && *q != '|' && *q != ' ' && k < sizeof(name) - 1) name[k++] = *q++;
		name[k] = 0;
		if (k == 0) continue;
		char *c = strchr(line, '|'); if (!c) continue; c = strchr(c + 1, '|'); if (!c) continue;
		c++; while (*c == ' ') c++;
		if (*c != 'U') continue;
		for (int i = 0; deny[i]; i++)
			if (strcmp(name, deny[i]) == 0) { if (ok) snprintf(why, n, "src/rt/ovni.c (with its headers) calls `%s`, which keeps hidden process-wide state", name); ok = 0; }
	}
	fclose(f);
	return ok;
}

/* ---- one concurrent run of the per-thread protocol ---- */
static void *smoke_worker(void *arg)
{
	int k = (int) (intptr_t) arg;
	pthread_barrier_wait(&bar);
	ovni_thread_init(2000 + k);
	ovni_thread_require("test", "1.0.0");
	ovni_add_cpu(k, 100 + k);
	/* only thread 0 announces a rank: "what that thread set" must not show up in the others' metadata */
	if (k == 0)
		ovni_proc_set_rank(2, 4);
	ovni_attr_set_double("c11.mine", 2000 + k);
	for (uint64_t i = 0; i < NEV; i++) {
		struct ovni_ev ev = {0};
		ovni_ev_set_clock(&ev, ovni_clock_now());
		ovni_ev_set_mcv(&ev, "UUu");
		uint64_t v = ((uint64_t) (2000 + k) << 32) | i;
		ovni_payload_add(&ev, (uint8_t *) &v, sizeof(v));
		ovni_ev_emit(&ev);
	}
	ovni_flush();
	ovni_thread_free();
	return NULL;
}

static int check_stream(int k, char *why, size_t n)
{
	char path[256];
	snprintf(path, sizeof(path), "ovni/loom.c11/proc.77/thread.%d/stream.obs", 2000 + k);
	FILE *f = fopen(path, "rb");
	if (!f) { snprintf(why, n, "cannot open %s", path); return 0; }
	uint8_t hdr[8];
	if (fread(hdr, 1, 8, f) != 8 || memcmp(hdr, "ovni", 4) != 0) { snprintf(why, n, "%s: bad header", path); fclose(f); return 0; }
	uint64_t next = 0, nflush = 0;
	for (;;) {
		uint8_t h[12];
		size_t r = fread(h, 1, 12, f);
		if (r == 0) break;
		if (r != 12 || (h[0] & 0xf0)) { snprintf(why, n, "%s: truncated or jumbo event", path); fclose(f); return 0; }
		int psz = (h[0] & 0x0f) ? (h[0] & 0x0f) + 1 : 0;
		uint8_t pl[16];
		if (psz && fread(pl, 1, (size_t) psz, f) != (size_t) psz) { snprintf(why, n, "%s: truncated payload", path); fclose(f); return 0; }
		if (h[1] == 'O' && h[2] == 'F' && psz == 0) { nflush++; continue; }
		uint64_t v;
		if (h[1] != 'U' || h[2] != 'U' || h[3] != 'u' || psz != 8) { snprintf(why, n, "%s: foreign event %c%c%c", path, h[1], h[2], h[3]); fclose(f); return 0; }
		memcpy(&v, pl, 8);
		if ((v >> 32) != (uint64_t) (2000 + k)) { snprintf(why, n, "%s: event of thread %d", path, (int) (v >> 32)); fclose(f); return 0; }
		if ((v & 0xffffffffu) != next) { snprintf(why, n, "%s: event %llu where %llu expected", path, (unsigned long long) (v & 0xffffffffu), (unsigned long long) next); fclose(f); return 0; }
		next++;
	}
	fclose(f);
	if (next != NEV) { snprintf(why, n, "%s: %llu events, %d emitted", path, (unsigned long long) next, NEV); return 0; }
	/* the markers of the final ovni_flush stay in the buffer (ovni_thread_free does not flush) */
	if (nflush < 2 || (nflush & 1)) { snprintf(why, n, "%s: %llu flush markers", path, (unsigned long long) nflush); return 0; }

	snprintf(path, sizeof(path), "ovni/loom.c11/proc.77/thread.%d/stream.json", 2000 + k);
	JSON_Value *val = json_parse_file(path);
	JSON_Object *o = val ? json_value_get_object(val) : NULL;
	if (!o) { snprintf(why, n, "cannot parse %s", path); return 0; }
	int ok = json_object_dotget_number(o, "ovni.tid") == 2000 + k
		&& json_object_dotget_number(o, "c11.mine") == 2000 + k
		&& json_object_dotget_number(o, "ovni.finished") == 1
		&& json_object_dotget_number(o, "ovni.pid") == 77;
	JSON_Array *cpus = json_object_dotget_array(o, "ovni.loom_cpus");
	ok = ok && cpus && json_array_get_count(cpus) == 1
		&& json_object_get_number(json_array_get_object(cpus, 0), "index") == k
		&& json_object_get_number(json_array_get_object(cpus, 0), "phyid") == 100 + k;
	/* the rank is in the metadata of the thread that set it, and of no other thread */
	if (k == 0)
		ok = ok && json_object_dotget_number(o, "ovni.rank") == 2 && json_object_dotget_number(o, "ovni.nranks") == 4;
	else
		ok = ok && !json_object_dothas_value(o, "ovni.rank") && !json_object_dothas_value(o, "ovni.nranks");
	json_value_free(val);
	if (!ok) { snprintf(why, n, "%s: metadata of another thread or incomplete", path); return 0; }
	return 1;
}

static int smoke(char *why, size_t n)
{
	pthread_t th[NT];
	unsetenv("OVNI_TMPDIR");
	unsetenv("OVNI_TRACEDIR");
	if (system("rm -rf ovni") != 0) { snprintf(why, n, "cannot clean the scratch trace directory"); return 0; }
	pthread_barrier_init(&bar, NULL, NT);
	ovni_proc_init(1, "c11", 77);
	for (int k = 0; k < NT; k++)
		pthread_create(&th[k], NULL, smoke_worker, (void *) (intptr_t) k);
	for (int k = 0; k < NT; k++)
		pthread_join(th[k], NULL);
	ovni_proc_fini();
	for (int k = 0; k < NT; k++)
		if (!check_stream(k, why, n))
			return 0;
	return 1;
}

#ifdef C11_TSAN
#include <glob.h>
/* reports go to files c11_tsan.<pid> in the scratch directory; the exit code stays ours */
const char *__tsan_default_options(void) { return "exitcode=0:log_path=c11_tsan:report_thread_leaks=0"; }
static int tsan_clean(char *why, size_t n)
{
	glob_t g;
	int ok = 1;
	if (glob("c11_tsan.*", 0, NULL, &g) == 0 && g.gl_pathc > 0) {
		ok = 0;
		snprintf(why, n, "ThreadSanitizer report in %s:", g.gl_pathv[0]);
		FILE *f = fopen(g.gl_pathv[0], "r");
		char line[200];
		int k = 0;
		while (f && k < 8 && fgets(line, sizeof(line), f)) {
			line[strcspn(line, "\n")] = 0;
			if (line[0] == 0 || line[0] == '=') continue;
			size_t l = strlen(why);
			snprintf(why + l, n - l, " | %s", line);
			k++;
		}
		if (f) fclose(f);
	}
	globfree(&g);
	return ok;
}
#endif

int main(int argc, char **argv)
{
	char why[512] = "";
	if (argc < 2) { fprintf(stderr, "usage: c11_static <repo>\n"); return 2; }
	int nobl = 0, bad = 0;
	setvbuf(stdout, NULL, _IONBF, 0);

	int tls = check_tls(why, sizeof(why));
	printf("OBL thread_local_rthread %s %s\n", tls ? "PASS" : "FAIL",
			tls ? "each of 5 threads has its own rthread (distinct addresses, values isolated, zero-initialised)" : why);
	nobl++; bad += !tls;

	why[0] = '\0';
	int sh = check_shared(why, sizeof(why));
	printf("OBL shared_rproc %s %s\n", sh ? "PASS" : "FAIL", sh ? "one rproc object seen by every thread" : why);
	nobl++; bad += !sh;

	why[0] = '\0';
	int sy = check_symbols(argv[1], why, sizeof(why));
	if (sy < 0) { fprintf(stderr, "undecided: %s\n", why); return 2; }
	printf("OBL writable_statics_are_rproc_and_rthread %s %s\n", sy ? "PASS" : "FAIL",
			sy ? "object file of src/rt/ovni.c: only rproc (OBJECT) and rthread (TLS) outside read-only sections" : why);
	nobl++; bad += !sy;

	why[0] = '\0';
	int nr = check_nonreentrant(why, sizeof(why));
	if (nr < 0) { fprintf(stderr, "undecided: %s\n", why); return 2; }
	printf("OBL no_nonreentrant_libc_calls %s %s\n", nr ? "PASS" : "FAIL",
			nr ? "no undefined symbol of ovni.o is on the list of libc functions with hidden process-wide state (strtok, localtime, rand, setenv, ...)" : why);
	nobl++; bad += !nr;

	/* the concurrent run aborts (die) on a broken library: only attempted when the storage facts hold */
	why[0] = '\0';
	int sm = (tls && sh) ? smoke(why, sizeof(why)) : 0;
	if (!(tls && sh)) snprintf(why, sizeof(why), "not attempted: storage-class facts failed");
	printf("OBL smoke_streams_isolated %s %s\n", sm ? "PASS" : "FAIL",
			sm ? "4 threads x 150000 events + metadata, one concurrent execution: every stream holds exactly its thread's data" : why);
	nobl++; bad += !sm;

#ifdef C11_TSAN
	why[0] = '\0';
	int ts = tsan_clean(why, sizeof(why));
	printf("OBL tsan_no_race_in_smoke_run %s %s\n", ts ? "PASS" : "FAIL",
			ts ? "ThreadSanitizer: no data race reported in this execution" : why);
	nobl++; bad += !ts;
#endif
	printf("DONE %d\n", nobl);
	return bad ? 1 : 0;
}
