#define REPLAY_OP 1
#define REPLAY_WRITE_LINE 1
#include "c13_prv_replay.h"
