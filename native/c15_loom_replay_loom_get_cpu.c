#define REPLAY_OP 1
#include "c15_loom_replay.h"
