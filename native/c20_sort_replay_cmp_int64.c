#define REPLAY_OP 2
#include "c20_sort_replay.h"
