#define REPLAY_OP 0
#include "c04_thread_replay.h"
