#define REPLAY_OP 'r'
#include "c04_event_replay.h"
