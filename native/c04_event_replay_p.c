#define REPLAY_OP 'p'
#include "c04_event_replay.h"
