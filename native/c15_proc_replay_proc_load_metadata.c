#define REPLAY_OP 2
#include "c15_proc_replay.h"
