/* C14 -- native-exhaustive cross-check of the TRUSTED parts of harness/c14_vspec.c
 * against glibc and against the real version_parse (compiled here with the real libc):
 *   - m_strtol / m_strtok_r (hand models CBMC verifies with) == glibc strtol / strtok_r
 *   - spec_actual == the real version_parse (result and numbers)
 *   - spec_strict accepts a subset of spec_actual, with the same numbers, and is
 *     exactly the regular language  D+ '.' D+ '.' D+ ('-' any*)?  (independent matcher)
 * over EVERY string of length <= 7 on a 9-letter alphabet, plus a list of long strings
 * (overflow, 63/64 bytes).  Prints the OBL protocol of bin/vcheck. */
#include <stdio.h>
#include <stdlib.h>
#include <string.h>
#include <limits.h>
#include <errno.h>
#include "common.h"
#undef err
#define err(...) ((void) 0)
#include "version.h"            /* the real one */

#define VP_N 72
#define C14_NATIVE_NAMES
#define MODEL_ASSERT(c, m) do { if (!(c)) { printf("OBL model_assert FAIL %s\nDONE 1\n", m); exit(1); } } while (0)
#define MODEL_SAME_OBJECT(p, q) 1
#include "harness/c14_vspec.c"

static const char alpha[] = { '0', '1', '9', '.', '-', '+', ' ', 'x', '\t' };
#define NALPHA ((int) sizeof(alpha))
#define MAXLEN 8

static long n_str, n_acc_actual, n_acc_strict;
static int bad_actual, bad_strict, bad_regex, bad_strtol, bad_strtok;
static char first_bad[5][128];

static void note(int which, const char *s)
{
	if (first_bad[which][0] == '\0')
		snprintf(first_bad[which], sizeof(first_bad[which]), "'%s'", s);
}

/* independent matcher for D+ '.' D+ '.' D+ ('-' .*)? with values <= INT_MAX */
static int regex_strict(const char *s, long out[3])
{
	const char *p = s;
	for (int c = 0; c < 3; c++) {
		if (!(*p >= '0' && *p <= '9'))
			return 0;
		size_t nd = strspn(p, "0123456789");
		char tmp[VP_N];
		memcpy(tmp, p, nd);
		tmp[nd] = '\0';
		errno = 0;
		unsigned long long v = strtoull(tmp, NULL, 10);
		if (errno != 0 || v > INT_MAX)
			return 0;
		out[c] = (long) v;
		p += nd;
		if (c < 2) {
			if (*p != '.')
				return 0;
			p++;
		}
	}
	return *p == '\0' || *p == '-';
}

static void check_string(const char *s)
{
	n_str++;
	/* real code */
	int t[3] = { -7, -7, -7 };
	int r = version_parse(s, t);
	/* spec_actual == real */
	int a0 = spec_actual(s, 0), a1 = spec_actual(s, 1), a2 = spec_actual(s, 2);
	if ((r == 0) != (a0 >= 0) || (r == 0 && (a0 != t[0] || a1 != t[1] || a2 != t[2]))) {
		bad_actual++;
		note(0, s);
	}
	if (r == 0)
		n_acc_actual++;
	/* spec_strict subset of actual, same numbers */
	int s0 = spec_strict(s, 0), s1 = spec_strict(s, 1), s2 = spec_strict(s, 2);
	if (s0 >= 0) {
		n_acc_strict++;
		if (r != 0 || s0 != t[0] || s1 != t[1] || s2 != t[2]) {
			bad_strict++;
			note(1, s);
		}
	}
	long rv[3];
	int m = regex_strict(s, rv);
	if (m != (s0 >= 0) || (m && (rv[0] != s0 || rv[1] != s1 || rv[2] != s2))) {
		bad_regex++;
		note(2, s);
	}
	/* strtol model == glibc (value, end pointer, errno), from every start offset */
	for (size_t j = 0; j <= strlen(s); j++) {
		char *e1 = NULL, *e2 = NULL;
		errno = 0;
		long v1 = strtol(s + j, &e1, 10);
		int er1 = errno;
		errno = 0;
		m_base = (char *) s;            /* the buffer the token lives in */
		long v2 = m_strtol(s + j, &e2, 10);
		int er2 = errno;
		if (v1 != v2 || e1 != e2 || er1 != er2) {
			bad_strtol++;
			note(3, s);
		}
	}
	/* strtok_r model == glibc for the call sequence of version_parse */
	{
		char b1[VP_N], b2[VP_N];
		strcpy(b1, s);
		strcpy(b2, s);
		const char *delim[] = { ".", ".", ".-", ".-" };
		char *sv1 = NULL, *sv2 = NULL, *p1 = b1, *p2 = b2;
		for (int i = 0; i < 4; i++) {
			char *k1 = strtok_r(p1, delim[i], &sv1);
			char *k2 = m_strtok_r(p2, delim[i], &sv2);
			p1 = p2 = NULL;
			if ((k1 == NULL) != (k2 == NULL) || (k1 && ((k1 - b1) != (k2 - b2) || strcmp(k1, k2) != 0))) {
				bad_strtok++;
				note(4, s);
				break;
			}
			if (k1 == NULL)
				break;
		}
		if (memcmp(b1, b2, strlen(s) + 1) != 0) {
			bad_strtok++;
			note(4, s);
		}
	}
}

static void enumerate(char *buf, int pos, int len)
{
	if (pos == len) {
		buf[pos] = '\0';
		check_string(buf);
		return;
	}
	for (int a = 0; a < NALPHA; a++) {
		buf[pos] = alpha[a];
		enumerate(buf, pos + 1, len);
	}
}

int main(void)
{
	char buf[VP_N];
	for (int len = 0; len <= MAXLEN; len++)
		enumerate(buf, 0, len);

	static const char *extra[] = {
		"4294967297.0.0", "2147483647.2147483647.2147483647", "2147483648.0.0", "0.2147483648.0",
		"4294967296.1.0", "-4294967295.1.1", "9223372036854775807.1.1", "9223372036854775808.1.1",
		"-9223372036854775808.1.1", "-9223372036854775809.1.1", "99999999999999999999.1.1",
		"1.2.3-rc1", "1.11.0", "1.2.3-5-g0123abc-dirty", "10.20.30", "007.08.09", "1.2.3.4.5.6",
		"1.2.99999999999", "1.99999999999.3", "1.2.3-99999999999999999999999",
		"123456789.123456789.123456789-aaaaaaaaaaaaaaaaaaaaaaaaaaaaaaaaa",  /* 63 chars */
		"00000000001.2.3", "02147483647.1.1", "02147483648.1.1", "2147483647.2147483648.0", "1.2.2147483647",
		"1.2.2147483648", "-9223372036854775808.0.0", "09223372036854775807.1.1", "1.2.3-4294967297",
		"\v1.\f2.\r3", "\n1.2.3", "1.2.3\n", "+1.+2.+3", "1.2.+-3", "1.2.-+3",
	};
	for (unsigned i = 0; i < sizeof(extra) / sizeof(extra[0]); i++)
		if (strlen(extra[i]) < 64)
			check_string(extra[i]);

	int n = 0;
	printf("OBL spec_actual_equals_real_version_parse %s strings=%ld accepted=%ld first_bad=%s\n",
			bad_actual ? "FAIL" : "PASS", n_str, n_acc_actual, first_bad[0]); n++;
	printf("OBL spec_strict_within_accepted_same_numbers %s wellformed=%ld first_bad=%s\n",
			bad_strict ? "FAIL" : "PASS", n_acc_strict, first_bad[1]); n++;
	printf("OBL spec_strict_is_the_stated_grammar %s first_bad=%s\n",
			bad_regex ? "FAIL" : "PASS", first_bad[2]); n++;
	printf("OBL strtol_model_equals_glibc %s first_bad=%s\n",
			bad_strtol ? "FAIL" : "PASS", first_bad[3]); n++;
	printf("OBL strtok_r_model_equals_glibc %s first_bad=%s\n",
			bad_strtok ? "FAIL" : "PASS", first_bad[4]); n++;
	printf("DONE %d\n", n);
	return (bad_actual || bad_strict || bad_regex || bad_strtol || bad_strtok) ? 1 : 0;
}
