#define REPLAY_OP 2
#include "c04_thread_replay.h"
