#define REPLAY_OP 3
#include "c04_thread_replay.h"
