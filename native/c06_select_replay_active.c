#define REPLAY_OP 1
#include "c06_select_replay.h"
