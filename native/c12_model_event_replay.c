/* C12 native replay of model_event on the REAL src/emu/model.c.
 * Witnesses: W_INDEX (model character), W_REGISTERED, W_ENABLED, W_HAS_EVENT, W_EVRET (result of
 * the model's event handler).  Specification: an event of a model that is not registered, or not
 * enabled (the trace did not require it), is refused with a diagnostic and the handler is NOT
 * called; otherwise the handler (if any) is called exactly once with this emulator and the event
 * is accepted iff it returns 0. */
#include "c12_replay_common.h"
#include "model.c"
#ifndef W_INDEX
#define W_INDEX 'O'
#endif
#ifndef W_REGISTERED
#define W_REGISTERED 1
#endif
#ifndef W_ENABLED
#define W_ENABLED 1
#endif
#ifndef W_HAS_EVENT
#define W_HAS_EVENT 1
#endif
#ifndef W_EVRET
#define W_EVRET 0
#endif
static int calls; static struct emu *arg;
static int handler(struct emu *emu) { calls++; arg = emu; return (int) (W_EVRET); }
int main(void)
{
	static struct model model; static struct emu emu; static struct emu_ev ev;
	static struct model_spec spec = { .name = "replay", .version = "1.0.0", .model = 'O' };
	int index = (int) (W_INDEX);
	if (index < 0 || index >= MAX_MODELS) { printf("not reproduced: index outside the precondition\n"); return 0; }
	strcpy(ev.mcv, "OHx"); emu.ev = &ev;
	spec.event = (W_HAS_EVENT) ? handler : NULL;
	/* model_register stores the spec before it marks the model registered; an unregistered
	 * slot keeps a spec here too so that a missing guard shows as a wrong result, not a crash */
	model.spec[index] = &spec;
	model.registered[index] = (W_REGISTERED) != 0;
	model.enabled[index] = (W_ENABLED) != 0;
	int on = (W_REGISTERED) && (W_ENABLED);
	int want_calls = on && (W_HAS_EVENT);
	int want_r = !on ? -1 : (!(W_HAS_EVENT) ? 0 : ((int) (W_EVRET) == 0 ? 0 : -1));
	int r = model_event(&model, &emu, index);
	if (r != want_r || calls != want_calls || (calls && arg != &emu) || (!on && n_err == 0)) {
		printf("REPRODUCED model_event: returned %d (specified %d), handler called %d times (specified %d), diagnostics %d "
			"(index=%d registered=%d enabled=%d has_event=%d handler_ret=%d)\n", r, want_r, calls, want_calls, n_err,
			index, (int) (W_REGISTERED), (int) (W_ENABLED), (int) (W_HAS_EVENT), (int) (W_EVRET));
		return 1;
	}
	printf("not reproduced: model_event returned %d, handler calls %d, as specified\n", r, calls);
	return 0;
}
