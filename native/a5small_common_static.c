/* A5 (plan C11) -- STATIC / RUN-TIME FACTS about the real translation unit src/common.c, compiled
 * from the current tree with the real compiler (complements native/c11_static.c, which does the
 * same for src/rt/ovni.c).  The CBMC groups of harness/a5small_common.c drop the formatted text
 * and stop at abort(); DFCC adds function-scope statics to every frame silently.  Here:
 *   OBL writable_statics_are_progname_and_debug : src/common.c is compiled alone (gcc -c -O0)
 *       and the symbol table of the object file is read (nm -f sysv): the ONLY data symbols
 *       outside read-only sections are `progname` and `is_debug_enabled`, both plain OBJECTs (one
 *       process-wide copy, not thread-local); so vaerr/verr/vdie/mkpath have no hidden static
 *   OBL progname_roundtrip  : progname_get() returns the very pointer given to progname_set()
 *       (no copy), NULL before any call / after progname_set(NULL); is_debug_enabled stays as it was
 *   OBL enable_debug_sets_one : 0 before, 1 after enable_debug(), still 1 after a second call;
 *       progname stays as it was
 *   OBL verr_text : the real verr() with stderr redirected to a file, 8 cases: the bytes written
 *       are exactly  [progname ": "] [prefix ": "] [func ": "] <formatted message> <tail>  with
 *       tail = " " strerror(errno) "\n" after a trailing ':', "\n" unless the message ends in
 *       '\n' or '\r', and nothing for an empty message; variadic arguments are formatted
 *   OBL verr_frame : progname / is_debug_enabled are what they were after all those calls
 *   OBL verr_only_stderr : standard output stayed empty during those calls
 *   OBL vdie_aborts : the real vdie() in a forked child: the child is killed by SIGABRT (it does
 *       not return, does not exit normally) and its message was written before
 * Output protocol of bin/vcheck: OBL <name> PASS|FAIL <detail>, DONE <n>.  argv[1] = repository. */
#include <stdio.h>
#include <stdlib.h>
#include <string.h>
#include <errno.h>
#include <unistd.h>
#include <signal.h>
#include <sys/wait.h>
#include <fcntl.h>

#include "common.c"        /* the REAL /repo/src/common.c */

static int nobl, bad;
static void obl(const char *name, int ok, const char *detail)
{
	char d[1024]; size_t k = 0;
	for (; detail[k] && k < sizeof(d) - 1; k++) d[k] = (detail[k] == '\n' || detail[k] == '\r') ? '~' : detail[k];   /* one line per obligation */
	d[k] = 0;
	printf("OBL %s %s %s\n", name, ok ? "PASS" : "FAIL", d); nobl++; bad += !ok;
}

/* returns 1 ok, 0 violated, -1 could not be determined */
static int check_symbols(const char *repo, char *why, size_t n)
{
	char cmd[4096];
	snprintf(cmd, sizeof(cmd),
		"gcc -c -O0 -w -std=gnu11 -D_GNU_SOURCE -D_POSIX_C_SOURCE=200809L -I../geninc -I%s/src/include -I%s/src "
		"%s/src/common.c -o a5_common.o && nm -f sysv a5_common.o > a5_common.nm", repo, repo, repo);
	if (system(cmd) != 0) { snprintf(why, n, "cannot compile / list src/common.c"); return -1; }
	FILE *f = fopen("a5_common.nm", "r");
	if (!f) { snprintf(why, n, "no symbol listing"); return -1; }
	char line[1024];
	int seen_prog = 0, seen_dbg = 0, nsym = 0, nfun = 0, ok = 1;
	while (fgets(line, sizeof(line), f)) {
		char *fld[7]; int k = 0;
		for (char *t = strtok(line, "|"); t && k < 7; t = strtok(NULL, "|")) {
			while (*t == ' ') t++;
			char *e = t + strlen(t);
			while (e > t && (e[-1] == ' ' || e[-1] == '\n')) *--e = 0;
			fld[k++] = t;
		}
		if (k < 7) continue;
		nsym++;
		if (strcmp(fld[3], "FUNC") == 0) nfun++;
		int is_obj = strcmp(fld[3], "OBJECT") == 0, is_tls = strcmp(fld[3], "TLS") == 0;
		if (!is_obj && !is_tls) continue;
		if (strncmp(fld[6], ".rodata", 7) == 0) continue;
		if (is_obj && strcmp(fld[0], "progname") == 0) { seen_prog = 1; continue; }
		if (is_obj && strcmp(fld[0], "is_debug_enabled") == 0) { seen_dbg = 1; continue; }
		if (ok) snprintf(why, n, "writable static-storage object `%s` (%s, section %s) besides progname / is_debug_enabled", fld[0], fld[3], fld[6]);
		ok = 0;
	}
	fclose(f);
	if (nsym < 8 || nfun < 6) { snprintf(why, n, "symbol listing not understood (%d symbols, %d functions)", nsym, nfun); return -1; }
	if (ok && !seen_prog) { snprintf(why, n, "progname is not a plain data object of common.o"); ok = 0; }
	if (ok && !seen_dbg) { snprintf(why, n, "is_debug_enabled is not a plain data object of common.o"); ok = 0; }
	return ok;
}

/* run f with stderr redirected to a file; read the file back */
static char captured[4096];
static int saved_fd = -1, saved_out = -1, stdout_dirty;
static void cap_begin(void)
{
	fflush(stderr); fflush(stdout);
	saved_fd = dup(2); saved_out = dup(1);
	int fd = open("a5_stderr.txt", O_WRONLY | O_CREAT | O_TRUNC, 0600);
	dup2(fd, 2); close(fd);
	fd = open("a5_stdout.txt", O_WRONLY | O_CREAT | O_TRUNC, 0600);
	dup2(fd, 1); close(fd);
}
static void cap_end(void)
{
	fflush(stderr); fflush(stdout);
	dup2(saved_fd, 2); close(saved_fd);
	dup2(saved_out, 1); close(saved_out);
	FILE *o = fopen("a5_stdout.txt", "r");
	if (o) { if (fgetc(o) != EOF) stdout_dirty = 1; fclose(o); }
	FILE *f = fopen("a5_stderr.txt", "r");
	size_t k = f ? fread(captured, 1, sizeof(captured) - 1, f) : 0;
	captured[k] = 0;
	if (f) fclose(f);
}

static char why[1024];
static int expect(const char *what, const char *want)
{
	if (strcmp(captured, want) == 0) return 1;
	if (!why[0]) snprintf(why, sizeof(why), "%s: wrote \"%s\", expected \"%s\"", what, captured, want);
	return 0;
}

int main(int argc, char **argv)
{
	if (argc < 2) { fprintf(stderr, "usage: a5small_common_static <repo>\n"); return 2; }
	setvbuf(stdout, NULL, _IONBF, 0);

	int sy = check_symbols(argv[1], why, sizeof(why));
	if (sy < 0) { fprintf(stderr, "undecided: %s\n", why); return 2; }
	obl("writable_statics_are_progname_and_debug", sy, sy ? "object file of src/common.c: only progname and is_debug_enabled (plain OBJECTs) outside read-only sections" : why);

	/* progname */
	static char name1[] = "prog", name2[] = "other";
	int ok = (progname_get() == NULL && is_debug_enabled == 0);
	progname_set(name1); ok = ok && progname_get() == name1 && progname == name1 && is_debug_enabled == 0;
	progname_set(name2); ok = ok && progname_get() == name2 && is_debug_enabled == 0;
	progname_set(NULL);  ok = ok && progname_get() == NULL && is_debug_enabled == 0;
	obl("progname_roundtrip", ok, "progname_get returns the pointer last given to progname_set (NULL initially); debug flag untouched");

	progname_set(name1);
	ok = (is_debug_enabled == 0);
	enable_debug(); ok = ok && is_debug_enabled == 1 && progname == name1;
	enable_debug(); ok = ok && is_debug_enabled == 1 && progname == name1;
	is_debug_enabled = -7; enable_debug(); ok = ok && is_debug_enabled == 1;
	obl("enable_debug_sets_one", ok, "is_debug_enabled is 0 initially and exactly 1 after enable_debug, whatever it was; progname untouched");

	/* verr: exact bytes */
	char want[512]; why[0] = 0; ok = 1;
	progname_set(name1);
	cap_begin(); verr("ERROR", "fn", "value %d of %s", 42, "x"); cap_end();
	ok &= expect("full header", "prog: ERROR: fn: value 42 of x\n");
	cap_begin(); verr(NULL, "fn", "plain"); cap_end();
	ok &= expect("no prefix", "prog: fn: plain\n");
	cap_begin(); verr("WARN", NULL, "own newline\n"); cap_end();
	ok &= expect("no func, own newline", "prog: WARN: own newline\n");
	cap_begin(); verr("P", "f", "cr\r"); cap_end();
	ok &= expect("trailing CR", "prog: P: f: cr\r");
	cap_begin(); verr("P", "f", ""); cap_end();
	ok &= expect("empty message", "prog: P: f: ");
	cap_begin(); errno = ENOENT; verr("ERROR", "fn", "open %s failed:", "file"); cap_end();
	snprintf(want, sizeof(want), "prog: ERROR: fn: open file failed: %s\n", strerror(ENOENT));
	ok &= expect("errno tail", want);
	progname_set(NULL);
	cap_begin(); verr(NULL, NULL, "bare"); cap_end();
	ok &= expect("no header at all", "bare\n");
	cap_begin(); errno = EACCES; verr(NULL, NULL, ":"); cap_end();
	snprintf(want, sizeof(want), ": %s\n", strerror(EACCES));
	ok &= expect("colon only", want);
	obl("verr_text", ok, ok ? "8 messages: header parts in order program/prefix/function, formatted message, tail rule (errno text after ':', newline unless the message ends in LF/CR, nothing for an empty message)" : why);
	obl("verr_frame", progname == NULL && is_debug_enabled == 1, "progname and is_debug_enabled unchanged by the 8 verr calls");
	obl("verr_only_stderr", !stdout_dirty, "nothing was written to stdout by the 8 verr calls");

	/* vdie: does not return; dies by SIGABRT after the message */
	fflush(stdout);
	pid_t pid = fork();
	if (pid == 0) {
		int fd = open("a5_die.txt", O_WRONLY | O_CREAT | O_TRUNC, 0600);
		dup2(fd, 2);
		int fo = open("a5_die_out.txt", O_WRONLY | O_CREAT | O_TRUNC, 0600);
		dup2(fo, 1);
		progname_set(name1);
		vdie("FATAL", "fn", "dying %d", 7);
		_exit(0);                 /* reached only if vdie returns */
	}
	int st = 0; waitpid(pid, &st, 0);
	FILE *f = fopen("a5_die.txt", "r");
	size_t k = f ? fread(captured, 1, sizeof(captured) - 1, f) : 0; captured[k] = 0; if (f) fclose(f);
	ok = WIFSIGNALED(st) && WTERMSIG(st) == SIGABRT && strcmp(captured, "prog: FATAL: fn: dying 7\n") == 0;
	snprintf(why, sizeof(why), "child status 0x%x (%s), message \"%s\"", st, WIFEXITED(st) ? "EXITED: vdie returned or exited" : "signalled", captured);
	obl("vdie_aborts", ok, ok ? "child killed by SIGABRT after writing its complete message; vdie did not return" : why);

	printf("DONE %d\n", nobl);
	return bad ? 1 : 0;
}
