/* Minimal traced program (public libovni API only): one process, one thread, a few events,
 * flush, thread end, process end.  Run with OVNI_TMPDIR and OVNI_TRACEDIR set. */
#define _GNU_SOURCE
#include <ovni.h>
#include <stdint.h>
#include <stdio.h>
#include <string.h>
#include <sys/syscall.h>
#include <unistd.h>

static void emit(const char *mcv)
{
	struct ovni_ev ev;
	memset(&ev, 0, sizeof(ev));
	ovni_ev_set_clock(&ev, ovni_clock_now());
	ovni_ev_set_mcv(&ev, mcv);
	ovni_ev_emit(&ev);
}

static void emit_execute(int32_t cpu, int32_t creator_tid, uint64_t tag)
{
	struct ovni_ev ev;
	memset(&ev, 0, sizeof(ev));
	ovni_ev_set_clock(&ev, ovni_clock_now());
	ovni_ev_set_mcv(&ev, "OHx");
	ovni_payload_add(&ev, (uint8_t *) &cpu, sizeof(cpu));
	ovni_payload_add(&ev, (uint8_t *) &creator_tid, sizeof(creator_tid));
	ovni_payload_add(&ev, (uint8_t *) &tag, sizeof(tag));
	ovni_ev_emit(&ev);
}

int main(void)
{
	ovni_version_check();
	ovni_proc_init(1, "node0", getpid());
	ovni_thread_init((pid_t) syscall(SYS_gettid));
	ovni_add_cpu(0, 0);
	emit_execute(0, -1, 0);
	for (int i = 0; i < 3; i++) { emit("OU["); emit("OU]"); }
	emit("OHe");
	ovni_flush();
	ovni_thread_free();
	fprintf(stderr, "DEMO: ovni_thread_free returned normally\n");
	ovni_proc_fini();
	fprintf(stderr, "DEMO: ovni_proc_fini returned normally\n");
	return 0;
}
