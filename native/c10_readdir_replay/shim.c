/* LD_PRELOAD shim: make readdir(3) FAIL (NULL, errno = EIO) on a thread stream directory.
 * A directory is "watched" when the path given to opendir contains "/thread.".
 *   SHIM_MODE=count (default): the SHIM_N-th readdir call (default 2) on a watched DIR fails.
 *   SHIM_MODE=after: the readdir call that follows the one returning SHIM_NAME (default
 *                    "stream.json") fails, unless "stream.obs" was returned before it.
 * After the failure every further readdir on that DIR fails too.  Each injected failure is
 * logged on stderr as "SHIM: readdir(<path>) -> NULL errno=EIO after: <entries returned>". */
#define _GNU_SOURCE
#include <dirent.h>
#include <dlfcn.h>
#include <errno.h>
#include <stdio.h>
#include <stdlib.h>
#include <string.h>

static DIR *watched;
static char wpath[4096];
static int ncalls, failed, seen_name, seen_obs;
static char seen[1024];

DIR *opendir(const char *path)
{
	static DIR *(*real)(const char *);
	if (!real) real = (DIR *(*)(const char *)) dlsym(RTLD_NEXT, "opendir");
	DIR *d = real(path);
	if (d != NULL && strstr(path, "/thread.") != NULL) {
		watched = d; ncalls = 0; failed = 0; seen_name = 0; seen_obs = 0; seen[0] = 0;
		snprintf(wpath, sizeof(wpath), "%s", path);
	}
	return d;
}

struct dirent *readdir(DIR *d)
{
	static struct dirent *(*real)(DIR *);
	if (!real) real = (struct dirent *(*)(DIR *)) dlsym(RTLD_NEXT, "readdir");
	if (d != watched)
		return real(d);
	const char *mode = getenv("SHIM_MODE");
	const char *name = getenv("SHIM_NAME");
	int n = getenv("SHIM_N") ? atoi(getenv("SHIM_N")) : 2;
	if (!name) name = "stream.json";
	ncalls++;
	int fail = failed;
	if (mode && strcmp(mode, "after") == 0) {
		if (seen_name && !seen_obs) fail = 1;
	} else if (ncalls >= n) {
		fail = 1;
	}
	if (fail) {
		if (!failed)
			fprintf(stderr, "SHIM: readdir(%s) -> NULL errno=EIO after:%s\n", wpath, seen);
		failed = 1;
		errno = EIO;
		return NULL;
	}
	struct dirent *e = real(d);
	if (e != NULL) {
		strncat(seen, " ", sizeof(seen) - strlen(seen) - 1);
		strncat(seen, e->d_name, sizeof(seen) - strlen(seen) - 1);
		if (strcmp(e->d_name, name) == 0) seen_name = 1;
		if (strcmp(e->d_name, "stream.obs") == 0) seen_obs = 1;
	}
	return e;
}

int closedir(DIR *d)
{
	static int (*real)(DIR *);
	if (!real) real = (int (*)(DIR *)) dlsym(RTLD_NEXT, "closedir");
	if (d == watched) watched = NULL;
	return real(d);
}
