#!/bin/sh
# Native replay of the C10 observation "readdir error is silent in move_thdir_to_final".
# usage: run.sh [repo]   (default /repo; needs <repo>/_build/src/rt/libovni.so and _build/include/ovni.h)
REPO=${1:-${VERIF_REPO:-/repo}}
HERE=$(cd "$(dirname "$0")" && pwd)
W=$(mktemp -d /tmp/c10_readdir_replay.XXXXXX)
trap 'rm -rf "$W"' EXIT
LIBDIR=$REPO/_build/src/rt
gcc -O1 -g -shared -fPIC -o "$W/shim.so" "$HERE/shim.c" -ldl || exit 2
gcc -O1 -g -I"$REPO/_build/include" -o "$W/demo" "$HERE/demo.c" -L"$LIBDIR" -lovni -Wl,-rpath,"$LIBDIR" || exit 2

one() { # label, env assignments...
	label=$1; shift
	rm -rf "$W/tmp" "$W/final"; mkdir -p "$W/tmp" "$W/final"
	env OVNI_TMPDIR="$W/tmp" OVNI_TRACEDIR="$W/final" "$@" "$W/demo" >"$W/out" 2>"$W/err"
	st=$?
	echo "== $label"
	echo "exit status: $st"
	grep '^SHIM:' "$W/err" | sed "s|$W|<W>|g"
	if grep -E 'ERROR' "$W/err" | grep -E -i 'readdir|moving|move' >/dev/null; then
		echo "diagnostic about readdir/moving: YES"; grep -E 'ERROR' "$W/err" | sed "s|$W|<W>|g"
	else
		echo "diagnostic about readdir/moving: NO"
	fi
	nerr=$(grep -c 'ERROR' "$W/err"); echo "ERROR lines on stderr: $nerr"
	grep -q 'ovni_thread_free returned normally' "$W/err" && echo "ovni_thread_free: returned normally" || echo "ovni_thread_free: did not return"
	for f in stream.obs stream.json; do
		t=$(find "$W/tmp" -name "$f" | wc -l); fi_=$(find "$W/final" -name "$f" | wc -l)
		echo "$f: in tmp=$t in final=$fi_"
	done
	if [ -x "$REPO/_build/src/emu/ovniemu" ]; then
		OVNI_CONFIG_DIR=$REPO/cfg "$REPO/_build/src/emu/ovniemu" "$W/final" >"$W/emu.out" 2>&1
		echo "ovniemu on the final directory: exit $?"
	fi
}

one "baseline (no fault injected)" LD_PRELOAD=
one "readdir fails on its 2nd call" LD_PRELOAD="$W/shim.so" SHIM_MODE=count SHIM_N=2
one "readdir fails right after returning stream.json (stream.obs not yet returned)" LD_PRELOAD="$W/shim.so" SHIM_MODE=after SHIM_NAME=stream.json
one "readdir fails on its 1st call" LD_PRELOAD="$W/shim.so" SHIM_MODE=count SHIM_N=1
