/* C17 native replay of a failed mark-API obligation (emulator side) on the REAL src/emu/ovni/mark.c with
 * the REAL channel layer (chan.c), parson (src/parson.c) and uthash.
 * REPLAY_OP: 0 mark_event  1 create_mark_type  2 add_label  3 parse_mark  4 scan_thread / parse_labels / parse_number
 * Witnesses: mark_event W_V W_PSIZE W_VALUE W_TYPE W_DEFINED W_INDEX W_CH_TYPE W_TOP_T W_TOP_I;
 *   create_mark_type W_TYPE W_NTYPES W_CTYPE W_DEFINED; add_label W_DEFINED W_LVALUE;
 *   parse_mark W_PRE W_AGREE W_DEFINED W_VAL W_ENDOFF W_ERRNO W_HAS_LABELS W_LABELS_NULL W_OLD_CTYPE
 *   W_TITLE_NULL W_CTYPE_NULL W_MARK_NULL W_CT_SINGLE W_CT_STACK W_TITLE_EQ.
 * Specification (property statement): a mark event [ ] = carries a 12-byte payload (i64 value, i32 type);
 * it is accepted exactly when the type was defined, the value is not zero and the channel accepts the
 * operation (push/pop on stack types, pop must match the innermost open value, set on single types), and
 * the channel then shows the full 64-bit value; a type gets Paraver type 100 + type and the next index;
 * definitions by several threads merge when title and channel type agree and are refused otherwise; a
 * value keeps ONE label.  Finite neighbourhoods are tried after the witness.
 * Linked with -Wl,--unresolved-symbols=ignore-all.  exit 0: as specified; exit 1: REPRODUCED. */
#include "c12_replay_common.h"
#include "parson.c"
#include "value.c"
#include "chan.c"
#include "extend.c"
#include "ovni/mark.c"

#ifndef W_V
#define W_V '['
#endif
#ifndef W_PSIZE
#define W_PSIZE 12
#endif
#ifndef W_VALUE
#define W_VALUE 0x100000005LL
#endif
#ifndef W_TYPE
#define W_TYPE 7
#endif
#ifndef W_DEFINED
#define W_DEFINED 1
#endif
#ifndef W_INDEX
#define W_INDEX 1
#endif
#ifndef W_CH_TYPE
#define W_CH_TYPE CHAN_STACK
#endif
#ifndef W_TOP_T
#define W_TOP_T VALUE_NULL
#endif
#ifndef W_TOP_I
#define W_TOP_I 0
#endif
#ifndef W_NTYPES
#define W_NTYPES 2
#endif
#ifndef W_CTYPE
#define W_CTYPE CHAN_SINGLE
#endif
#ifndef W_LVALUE
#define W_LVALUE 3
#endif
#ifndef W_PRE
#define W_PRE 1
#endif
#ifndef W_AGREE
#define W_AGREE 1
#endif
#ifndef W_VAL
#define W_VAL 5
#endif
#ifndef W_ENDOFF
#define W_ENDOFF 1
#endif
#ifndef W_ERRNO
#define W_ERRNO 0
#endif
#ifndef W_HAS_LABELS
#define W_HAS_LABELS 1
#endif
#ifndef W_LABELS_NULL
#define W_LABELS_NULL 0
#endif
#ifndef W_OLD_CTYPE
#define W_OLD_CTYPE CHAN_SINGLE
#endif
#ifndef W_TITLE_NULL
#define W_TITLE_NULL 0
#endif
#ifndef W_CTYPE_NULL
#define W_CTYPE_NULL 0
#endif
#ifndef W_MARK_NULL
#define W_MARK_NULL 0
#endif
#ifndef W_CT_SINGLE
#define W_CT_SINGLE 1
#endif
#ifndef W_CT_STACK
#define W_CT_STACK 0
#endif
#ifndef W_TITLE_EQ
#define W_TITLE_EQ 1
#endif

static char why[500];
#define FAIL(...) do { snprintf(why, sizeof(why), __VA_ARGS__); return 1; } while (0)

static void free_types(struct ovni_mark_emu *m)
{
	struct mark_type *t, *tt;
	HASH_ITER(hh, m->types, t, tt) {
		struct mark_label *l, *ll;
		HASH_ITER(hh, t->labels, l, ll) { HASH_DEL(t->labels, l); free(l); }
		HASH_DEL(m->types, t); free(t);
	}
	m->ntypes = 0;
}

/* ------------------------------------------------------------------ */
/* 0: mark_event                                                       */
/* ------------------------------------------------------------------ */
/* the value open below the innermost one (any value different from it) */
#define BELOW(t) ((long long) ((unsigned long long) (t) + 1ULL) == 0 ? 17LL : (long long) ((unsigned long long) (t) + 1ULL))
struct me_in { int v; unsigned long psize; long long value; int type; int defined; long index; int ch_type; int has_top; long long top; };
static int me_case(const struct me_in *w)
{
	static struct emu emu; static struct emu_ev ev; static struct ovni_emu oemu; static struct thread *th; static struct ovni_thread oth;
	static union ovni_ev_payload pl;
	if (!th) th = calloc(1, sizeof(*th));
	memset(&emu, 0, sizeof(emu)); memset(&ev, 0, sizeof(ev)); memset(&oemu, 0, sizeof(oemu)); memset(th, 0, sizeof(*th)); memset(&oth, 0, sizeof(oth)); memset(&pl, 0xee, sizeof(pl));
	emu.ev = &ev; emu.thread = th; emu.ext.ctx['O'] = &oemu; th->ext.ctx['O'] = &oth;
	long index = w->index < 0 ? 0 : (w->index > 3 ? 3 : w->index);
	/* type table: `index` other types first, then (if defined) the event's type: it gets index `index` */
	for (long k = 0; k < index; k++)
		if (create_mark_type(&oemu.mark, (long) w->type + 1000 + k, CHAN_SINGLE, "other") == NULL) FAIL("setup: create_mark_type refused a fresh type");
	if (w->defined && create_mark_type(&oemu.mark, (long) w->type, (enum chan_type) w->ch_type, "the type") == NULL) FAIL("setup: create_mark_type refused the event's type");
	if (!w->defined && create_mark_type(&oemu.mark, (long) w->type + 999, CHAN_SINGLE, "another") == NULL) FAIL("setup: create_mark_type refused a fresh type");
	long nt = oemu.mark.ntypes;
	struct chan *ch = calloc((size_t) nt, sizeof(struct chan));
	for (long k = 0; k < nt; k++) chan_init(&ch[k], k == index ? (enum chan_type) w->ch_type : CHAN_SINGLE, "mark%ld", k);
	oth.mark.channels = ch; oth.mark.nchannels = nt;
	struct chan *c = &ch[index];
	int depth = 0;
	if (w->ch_type == CHAN_STACK && w->has_top) {
		if (chan_push(c, value_int64(BELOW(w->top))) != 0 || chan_flush(c) != 0) FAIL("setup: push refused");
		if (chan_push(c, value_int64(w->top)) != 0 || chan_flush(c) != 0) FAIL("setup: push refused");
		depth = 2;
	}
	ev.m = 'O'; ev.c = 'M'; ev.v = (uint8_t) w->v; ev.payload_size = w->psize; ev.has_payload = w->psize != 0;
	ev.payload = w->psize ? &pl : NULL;
	if (w->psize >= 12) { pl.i64[0] = w->value; pl.i32[2] = w->type; }
	n_err = 0;
	int r = mark_event(&emu);
	int wf = w->psize == 12 && w->defined && w->value != 0 && (w->v == '[' || w->v == ']' || w->v == '=');
	/* (channel layer, C08: pushing the very value the channel already shows is a refused duplicate) */
	int legal = wf && ((w->v == '[' && w->ch_type == CHAN_STACK && !(w->has_top && w->top == w->value)) || (w->v == ']' && w->ch_type == CHAN_STACK && w->has_top && w->top == w->value) ||
		(w->v == '=' && w->ch_type == CHAN_SINGLE));
	int bad = 0;
	struct value now; memset(&now, 0, sizeof(now));
	if (chan_read(c, &now) != 0) { snprintf(why, sizeof(why), "chan_read failed"); bad = 1; }
	if (!bad && r != 0 && r != -1) { snprintf(why, sizeof(why), "mark_event returned %d", r); bad = 1; }
	if (!bad && (r == 0) != legal) { snprintf(why, sizeof(why), "mark_event returned %d but the event is %s", r, legal ? "a legal mark operation (must be accepted)" : !wf ? "malformed (payload size / undefined type / zero value / unknown operation: must be refused)" : "refused by the channel rules (wrong channel type or pop not matching the innermost open value)"); bad = 1; }
	if (!bad && r != 0 && n_err == 0) { snprintf(why, sizeof(why), "mark_event refused without a diagnostic"); bad = 1; }
	if (!bad && r == 0) {
		/* the channel of THIS type shows the full 64-bit value (push / set) or what was open before (pop) */
		long long exp = w->v == ']' ? BELOW(w->top) : w->value;
		if (now.type != VALUE_INT64 || now.i != exp) { snprintf(why, sizeof(why), "after the accepted mark event the channel of the type shows %lld (value type %d), specified the 64-bit value %lld", (long long) now.i, (int) now.type, exp); bad = 1; }
		else if (w->ch_type == CHAN_STACK && c->data.stack.n != depth + (w->v == '[' ? 1 : -1)) { snprintf(why, sizeof(why), "stack depth went %d -> %d", depth, c->data.stack.n); bad = 1; }
		for (long k = 0; !bad && k < nt; k++) if (k != index && ch[k].is_dirty) { snprintf(why, sizeof(why), "the channel of ANOTHER mark type (index %ld) was written", k); bad = 1; }
	}
	free(ch); free_types(&oemu.mark);
	return bad;
}
static void me_show(const struct me_in *w)
{
	printf(" [event O M %c payload=%lu bytes value=%lld type=%d; type defined=%d index=%ld channel=%s open value=%s%lld]\n", w->v >= 32 && w->v < 127 ? w->v : '?', w->psize, w->value, w->type,
		w->defined, w->index, w->ch_type == CHAN_STACK ? "stack" : "single", w->has_top ? "" : "none/", w->top);
}
static int op_mark_event(void)
{
	struct me_in w = {(int) (W_V), (unsigned long) (W_PSIZE), (long long) (W_VALUE), (int) (W_TYPE), (W_DEFINED) != 0, (long) (W_INDEX), (int) (W_CH_TYPE),
		(W_TOP_T) == VALUE_INT64, (long long) (W_TOP_I)};
	if (w.ch_type != CHAN_STACK && w.ch_type != CHAN_SINGLE) w.ch_type = CHAN_SINGLE;
	if (w.psize > 16) w.psize = 16;
	if (me_case(&w)) { printf("REPRODUCED %s", why); me_show(&w); return 1; }
	static const long long vals[] = {1, -1, 0x100000005LL, -0x10000000000LL, 0, (long long) 0x8000000000000000ULL, 0x7fffffff00000000LL};
	static const int vs[] = {'[', ']', '=', 'x'};
	static const unsigned long ps[] = {12, 0, 8, 16};
	for (int iv = 0; iv < 7; iv++) for (int k = 0; k < 4; k++) for (int p = 0; p < 4; p++) for (int d = 0; d < 2; d++) for (int ct = 0; ct < 2; ct++) for (int tp = 0; tp < 3; tp++) for (long idx = 0; idx < 3; idx += 2) {
		struct me_in v = {vs[k], ps[p], vals[iv], 7, d, idx, ct ? CHAN_STACK : CHAN_SINGLE, tp != 0, tp == 1 ? vals[iv] : vals[iv] ^ 0x100000000LL};
		if (me_case(&v)) { printf("REPRODUCED %s (found next to the witness)", why); me_show(&v); return 1; }
	}
	printf("not reproduced: mark_event behaves as specified on the witness and its neighbourhood;"); me_show(&w);
	return 0;
}

/* ------------------------------------------------------------------ */
/* 1: create_mark_type                                                 */
/* ------------------------------------------------------------------ */
static int cm_case(long type, long ntypes, int ctype, int defined, int longtitle)
{
	static struct ovni_mark_emu m; memset(&m, 0, sizeof(m));
	if (ntypes > 4) ntypes = 4; if (ntypes < 0) ntypes = 0;
	if (defined && ntypes == 0) ntypes = 1;
	for (long k = 0; k < ntypes - (defined ? 1 : 0); k++) if (!create_mark_type(&m, type + 200 + k, CHAN_STACK, "other")) FAIL("setup: create_mark_type refused a fresh type");
	struct mark_type *old = NULL;
	if (defined && !(old = create_mark_type(&m, type, CHAN_STACK, "first"))) FAIL("setup: create_mark_type refused a fresh type");
	long n0 = m.ntypes;
	static char title[MAX_PCF_LABEL + 40];
	if (longtitle) { memset(title, 't', MAX_PCF_LABEL + 10); title[MAX_PCF_LABEL + 10] = 0; } else strcpy(title, "my title");
	n_err = 0;
	struct mark_type *t = create_mark_type(&m, type, (enum chan_type) ctype, title);
	int bad = 0;
	int ok = !defined && !longtitle;
	if ((t != NULL) != ok) { snprintf(why, sizeof(why), "create_mark_type(type %ld) returned %s, specified %s", type, t ? "a type" : "NULL", ok ? "a new type" : defined ? "NULL (a type is defined once)" : "NULL (title too long)"); bad = 1; }
	else if (t && (t->type != type || t->prvtype != 100 + type || t->index != n0 || (int) t->ctype != ctype || strcmp(t->title, title) != 0 || t->labels != NULL || m.ntypes != n0 + 1 || find_mark_type(&m, type) != t))
		{ snprintf(why, sizeof(why), "create_mark_type(type %ld, %ld types before) made type=%ld prvtype=%ld (specified 100 + type = %ld) index=%ld (specified %ld) ctype=%d ntypes=%ld", type, n0, t->type, t->prvtype, 100 + type, t->index, n0, (int) t->ctype, m.ntypes); bad = 1; }
	else if (!t && (n_err == 0 || (defined && (m.ntypes != n0 || find_mark_type(&m, type) != old)))) { snprintf(why, sizeof(why), "create_mark_type refused but changed the table or gave no diagnostic"); bad = 1; }
	if (t == NULL || find_mark_type(&m, type) == t) free_types(&m); else { free_types(&m); }
	return bad;
}
static int op_create_mark_type(void)
{
	if (cm_case((W_TYPE), (W_NTYPES), (W_CTYPE) == CHAN_STACK ? CHAN_STACK : CHAN_SINGLE, (W_DEFINED) != 0, 0)) { printf("REPRODUCED %s\n", why); return 1; }
	static const long ty[] = {0, 1, 7, 99};
	for (int i = 0; i < 4; i++) for (long n = 0; n <= 3; n++) for (int ct = 0; ct < 2; ct++) for (int d = 0; d < 2; d++) for (int lt = 0; lt < 2; lt++)
		if (cm_case(ty[i], n, ct ? CHAN_STACK : CHAN_SINGLE, d, lt)) { printf("REPRODUCED %s (found next to the witness)\n", why); return 1; }
	printf("not reproduced: create_mark_type behaves as specified\n");
	return 0;
}

/* ------------------------------------------------------------------ */
/* 2: add_label                                                        */
/* ------------------------------------------------------------------ */
static int al_case(long long value, int defined, const char *oldl, const char *newl)
{
	static struct mark_type t; memset(&t, 0, sizeof(t)); t.type = 5;
	if (defined && add_label(&t, value, oldl) != 0) FAIL("setup: add_label refused a first label");
	if (add_label(&t, value ^ 0x100000000LL, "other value") != 0) FAIL("setup: add_label refused a first label");
	unsigned n0 = HASH_COUNT(t.labels);
	n_err = 0;
	int r = add_label(&t, value, newl);
	int toolong = strlen(newl) >= MAX_PCF_LABEL;
	int ok = defined ? strcmp(oldl, newl) == 0 : !toolong;
	int bad = 0;
	struct mark_label *l = find_label(&t, value);
	if ((r == 0) != ok) { snprintf(why, sizeof(why), "add_label(value %lld, \"%.20s\") returned %d, specified %s", value, newl, r, ok ? "0" : defined ? "-1 (the value already has ANOTHER label)" : "-1"); bad = 1; }
	else if (r != 0 && n_err == 0) { snprintf(why, sizeof(why), "add_label refused without a diagnostic"); bad = 1; }
	else if (defined && (HASH_COUNT(t.labels) != n0 || !l || strcmp(l->label, oldl) != 0)) { snprintf(why, sizeof(why), "add_label on a labelled value changed the label table"); bad = 1; }
	else if (!defined && r == 0 && (HASH_COUNT(t.labels) != n0 + 1 || !l || l->value != value || strcmp(l->label, newl) != 0)) { snprintf(why, sizeof(why), "add_label accepted but value %lld is not labelled \"%.20s\"", value, newl); bad = 1; }
	struct mark_label *x, *xx; HASH_ITER(hh, t.labels, x, xx) { HASH_DEL(t.labels, x); free(x); }
	return bad;
}
static int op_add_label(void)
{
	static char longl[MAX_PCF_LABEL + 20]; memset(longl, 'l', MAX_PCF_LABEL + 5);
	const char *ls[] = {"a", "ab", "", "label one", longl};
	long long vals[] = {(long long) (W_LVALUE), 1, -1, 0, 0x100000003LL, (long long) 0x8000000000000000ULL};
	for (int iv = 0; iv < 6; iv++) for (int d = ((W_DEFINED) != 0), pass = 0; pass < 2; pass++, d = !d) for (int i = 0; i < 4; i++) for (int j = 0; j < 5; j++)
		if (al_case(vals[iv], d, ls[i], ls[j])) { printf("REPRODUCED %s [value already labelled=%d old=\"%.20s\"]\n", why, d, ls[i]); return 1; }
	printf("not reproduced: add_label behaves as specified (a value keeps one label; agreeing re-definitions merge)\n");
	return 0;
}

/* ------------------------------------------------------------------ */
/* 3: parse_mark                                                       */
/* ------------------------------------------------------------------ */
struct pm_in { const char *typestr; int mark_obj; int title; /* 0 absent 1 "T" 2 "other" 3 number */ int ctype; /* 0 absent 1 single 2 stack 3 "queue" 4 number */
	int labels; /* 0 none 1 ok object 2 not an object 3 conflicting with the existing labels */ int defined; int old_stack; int old_title_same; };
static int pm_case(const struct pm_in *w)
{
	static struct ovni_mark_emu m; memset(&m, 0, sizeof(m));
	char *end = NULL; errno = 0;
	long type = strtol(w->typestr, &end, 10);
	int num_ok = errno == 0 && end != w->typestr && *end == '\0' && type >= 0 && type < 100;
	if (create_mark_type(&m, 150, CHAN_STACK, "unrelated") == NULL) FAIL("setup: create_mark_type refused");
	struct mark_type *old = NULL;
	if (w->defined && num_ok) {
		old = create_mark_type(&m, type, w->old_stack ? CHAN_STACK : CHAN_SINGLE, w->old_title_same ? "T" : "Told");
		if (!old || add_label(old, 1, "one") != 0) FAIL("setup: create_mark_type / add_label refused");
	}
	long n0 = m.ntypes;
	JSON_Value *mv;
	if (!w->mark_obj) mv = json_value_init_number(3.0);
	else {
		mv = json_value_init_object(); JSON_Object *o = json_value_get_object(mv);
		if (w->title == 1) json_object_set_string(o, "title", "T"); else if (w->title == 2) json_object_set_string(o, "title", "other"); else if (w->title == 3) json_object_set_number(o, "title", 1.0);
		if (w->ctype == 1) json_object_set_string(o, "chan_type", "single"); else if (w->ctype == 2) json_object_set_string(o, "chan_type", "stack");
		else if (w->ctype == 3) json_object_set_string(o, "chan_type", "queue"); else if (w->ctype == 4) json_object_set_number(o, "chan_type", 2.0);
		if (w->labels == 1) { json_object_dotset_string(o, "labels.1", "one"); json_object_dotset_string(o, "labels.2", "two"); }
		else if (w->labels == 2) json_object_set_number(o, "labels", 5.0);
		else if (w->labels == 3) { json_object_dotset_string(o, "labels.1", "uno"); }
	}
	int pre = num_ok && w->mark_obj && (w->title == 1 || w->title == 2) && (w->ctype == 1 || w->ctype == 2);
	int newstack = w->ctype == 2;
	int title_same = old && strcmp(old->title, w->title == 1 ? "T" : "other") == 0;
	int agree = !old || (title_same && (old->ctype == CHAN_STACK) == newstack);
	int labels_ok = w->labels == 0 || w->labels == 1 || (w->labels == 3 && !old);
	int ok = pre && agree && labels_ok;
	n_err = 0;
	int r = parse_mark(&m, w->typestr, mv);
	int bad = 0;
	struct mark_type *t = num_ok ? find_mark_type(&m, type) : NULL;
	if (r != 0 && r != -1) { snprintf(why, sizeof(why), "parse_mark returned %d", r); bad = 1; }
	else if ((r == 0) != ok) { snprintf(why, sizeof(why), "parse_mark returned %d but the definition is %s", r, ok ? "acceptable and agrees with what is registered" :
		!pre ? "malformed (type not a number in [0,100), or title / chan_type missing or unknown)" : !agree ? "in CONFLICT with the type another thread registered (another title or another channel type)" : "carrying bad labels"); bad = 1; }
	else if (r != 0 && n_err == 0) { snprintf(why, sizeof(why), "parse_mark refused without a diagnostic"); bad = 1; }
	else if (old && (m.ntypes != n0 || t != old || strcmp(old->title, w->old_title_same ? "T" : "Told") != 0 || (old->ctype == CHAN_STACK) != (w->old_stack != 0))) { snprintf(why, sizeof(why), "a type that was already registered was created again or modified"); bad = 1; }
	else if (!pre && (m.ntypes != n0)) { snprintf(why, sizeof(why), "a malformed definition registered a type"); bad = 1; }
	else if (r == 0 && !old && (!t || m.ntypes != n0 + 1 || t->prvtype != 100 + type || t->index != n0 || (t->ctype == CHAN_STACK) != newstack || strcmp(t->title, w->title == 1 ? "T" : "other") != 0))
		{ snprintf(why, sizeof(why), "parse_mark accepted a new type %ld but it is not registered as specified (Paraver type 100 + type, next index, given title and channel type)", type); bad = 1; }
	else if (r == 0 && w->labels == 1) {
		struct mark_label *l1 = find_label(t, 1), *l2 = find_label(t, 2);
		if (!l1 || !l2 || strcmp(l1->label, "one") != 0 || strcmp(l2->label, "two") != 0) { snprintf(why, sizeof(why), "parse_mark accepted the definition but the labels of type %ld were not registered (labels of every defining thread must be merged)", type); bad = 1; }
	}
	json_value_free(mv); free_types(&m);
	return bad;
}
static void pm_show(const struct pm_in *w)
{
	static const char *ti[] = {"absent", "\"T\"", "\"other\"", "a number"}, *ct[] = {"absent", "single", "stack", "queue", "a number"}, *lb[] = {"none", "{1:one,2:two}", "not an object", "{1:uno}"};
	printf(" [type string \"%s\" definition %s title=%s chan_type=%s labels=%s; already registered=%d (as %s, title %s, label 1:one)]\n", w->typestr, w->mark_obj ? "object" : "not an object", ti[w->title], ct[w->ctype], lb[w->labels],
		w->defined, w->old_stack ? "stack" : "single", w->old_title_same ? "\"T\"" : "\"Told\"");
}
static int op_parse_mark(void)
{
	static char ts[32];
	if ((W_ENDOFF) == 0) strcpy(ts, "x"); else if ((W_ERRNO) != 0) strcpy(ts, "99999999999999999999999"); else snprintf(ts, sizeof(ts), "%ld", (long) (W_VAL));
	struct pm_in w = {ts, !(W_MARK_NULL), (W_TITLE_NULL) ? 0 : 1, (W_CTYPE_NULL) ? 0 : (W_CT_SINGLE) ? 1 : (W_CT_STACK) ? 2 : 3, (W_HAS_LABELS) ? ((W_LABELS_NULL) ? 2 : 1) : 0,
		(W_DEFINED) != 0, (W_OLD_CTYPE) == CHAN_STACK, (W_TITLE_EQ) != 0};
	if (pm_case(&w)) { printf("REPRODUCED %s", why); pm_show(&w); return 1; }
	static const char *tss[] = {"5", "0", "99", "100", "-1", "", "5x", "x", " 7"};
	for (int d = 0; d < 2; d++) for (int os = 0; os < 2; os++) for (int ot = 0; ot < 2; ot++) for (int i = 0; i < 9; i++) for (int mo = 1; mo >= 0; mo--) for (int ti = 0; ti < 4; ti++) for (int ct = 0; ct < 5; ct++) for (int lb = 0; lb < 4; lb++) {
		if (!d && (os || ot)) continue;
		struct pm_in v = {tss[i], mo, ti, ct, lb, d, os, ot};
		if (pm_case(&v)) { printf("REPRODUCED %s (found next to the witness)", why); pm_show(&v); return 1; }
	}
	printf("not reproduced: parse_mark behaves as specified on the witness and its neighbourhood;"); pm_show(&w);
	return 0;
}

/* ------------------------------------------------------------------ */
/* 4: scan_thread (with parse_labels / parse_number) end to end        */
/* ------------------------------------------------------------------ */
static int st_case(const char *json, int expect_ok, int ntypes, const char *what)
{
	static struct ovni_mark_emu m; memset(&m, 0, sizeof(m));
	static struct thread *th; if (!th) th = calloc(1, sizeof(*th));
	memset(th, 0, sizeof(*th));
	JSON_Value *root = json_parse_string(json);
	if (!root) FAIL("setup: bad JSON %s", json);
	th->meta = json_value_get_object(root);
	n_err = 0;
	int r = scan_thread(&m, th);
	int bad = 0;
	if ((r == 0) != expect_ok) { snprintf(why, sizeof(why), "scan_thread returned %d on %s (specified %s)", r, what, expect_ok ? "0" : "-1"); bad = 1; }
	else if (r == 0 && m.ntypes != ntypes) { snprintf(why, sizeof(why), "scan_thread registered %ld mark types on %s (specified %d)", m.ntypes, what, ntypes); bad = 1; }
	else if (r != 0 && n_err == 0) { snprintf(why, sizeof(why), "scan_thread refused %s without a diagnostic", what); bad = 1; }
	else if (r == 0 && ntypes == 2) {
		struct mark_type *t5 = find_mark_type(&m, 5), *t9 = find_mark_type(&m, 9);
		struct mark_label *l = t5 ? find_label(t5, -3) : NULL;
		if (!t5 || !t9 || t5->prvtype != 105 || t9->prvtype != 109 || t9->ctype != CHAN_STACK || !l || strcmp(l->label, "minus three") != 0) { snprintf(why, sizeof(why), "scan_thread accepted %s but types 5 / 9 or the label of value -3 are not registered as specified", what); bad = 1; }
	}
	json_value_free(root); free_types(&m);
	return bad;
}
static int op_scan_thread(void)
{
	struct { const char *json; int ok, nt; const char *what; } c[] = {
		{"{\"ovni\":{\"tid\":1}}", 1, 0, "a thread without marks"},
		{"{\"ovni\":{\"mark\":{\"5\":{\"title\":\"A\",\"chan_type\":\"single\",\"labels\":{\"-3\":\"minus three\",\"4\":\"four\"}},\"9\":{\"title\":\"B\",\"chan_type\":\"stack\"}}}}", 1, 2, "two mark definitions"},
		{"{\"ovni\":{\"mark\":{\"5\":{\"title\":\"A\",\"chan_type\":\"single\"},\"9\":{\"title\":\"B\"}}}}", 0, 0, "a second definition without chan_type"},
		{"{\"ovni\":{\"mark\":{\"5\":{\"title\":\"A\",\"chan_type\":\"single\",\"labels\":{\"4x\":\"bad\"}}}}}", 0, 0, "a label whose value is not a number"},
		{"{\"ovni\":{\"mark\":{\"5\":{\"title\":\"A\",\"chan_type\":\"single\",\"labels\":{\"4\":7}}}}}", 0, 0, "a label that is not a string"},
		{"{\"ovni\":{\"mark\":{\"5\":{\"title\":\"A\",\"chan_type\":\"single\",\"labels\":{\"99999999999999999999\":\"big\"}}}}}", 0, 0, "a label value out of the int64 range"},
		{"{\"ovni\":{\"mark\":{\"5\":3}}}", 0, 0, "a definition that is not an object"},
		{"{\"ovni\":{\"mark\":{}}}", 1, 0, "an empty mark object"},
	};
	for (unsigned i = 0; i < sizeof(c) / sizeof(c[0]); i++)
		if (st_case(c[i].json, c[i].ok, c[i].nt, c[i].what)) { printf("REPRODUCED %s\n", why); return 1; }
	printf("not reproduced: scan_thread / parse_labels / parse_number behave as specified on the %d metadata shapes\n", (int) (sizeof(c) / sizeof(c[0])));
	return 0;
}

int main(void)
{
	setvbuf(stdout, NULL, _IONBF, 0);
	switch (REPLAY_OP) {
	case 0: return op_mark_event();
	case 1: return op_create_mark_type();
	case 2: return op_add_label();
	case 3: return op_parse_mark();
	default: return op_scan_thread();
	}
}
