#define REPLAY_OP 1
#include "c12_guard_replay.h"
