#define REPLAY_OP 1
#include "c05_cpu_replay.h"
