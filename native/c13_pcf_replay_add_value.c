#define REPLAY_OP 1
#include "c13_pcf_replay.h"
