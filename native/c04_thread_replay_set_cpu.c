#define REPLAY_OP 1
#include "c04_thread_replay.h"
