#define REPLAY_OP 2
#include "c16_sort_replay.h"
