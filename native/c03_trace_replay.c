/* C03 native replay of cmp_streams (REAL src/emu/trace.c): the order trace_load sorts the stream list with.
 * Specification: cmp_streams(a, b) orders streams by strcmp of their relpath (total order, 0 exactly for
 * equal relpaths), so the replay does not depend on the nftw() enumeration order.  No input witness is
 * needed (W_SAME only): a probe set of relpaths is compared pairwise against the libc strcmp sign and
 * the order laws.  Linked with -Wl,--unresolved-symbols=ignore-all.  exit 1 = REPRODUCED. */
#include "c12_replay_common.h"
#include <ftw.h>
#include "trace.c"
static int sgn(int x) { return x > 0 ? 1 : (x < 0 ? -1 : 0); }
int main(void)
{
	static const char *rp[] = {"", "a", "b", "ab", "ba", "aa", "loom.a/proc.1/thread.1", "loom.a/proc.1/thread.10", "loom.a/proc.1/thread.2",
		"loom.a/proc.2/thread.1", "loom.b/proc.1/thread.1", "loom.a/proc.1", "\x80", "a\x80", "A", "z"};
	enum { N = sizeof(rp) / sizeof(rp[0]) };
	static struct stream s[N];
	for (int i = 0; i < N; i++) strcpy(s[i].relpath, rp[i]);
	int c[N][N];
	for (int i = 0; i < N; i++) for (int j = 0; j < N; j++) {
		c[i][j] = cmp_streams(&s[i], &s[j]);
		if (sgn(c[i][j]) != sgn(strcmp(rp[i], rp[j]))) {
			printf("REPRODUCED cmp_streams(\"%s\", \"%s\") returned %d, but strcmp of the relpaths has sign %d\n", rp[i], rp[j], c[i][j], sgn(strcmp(rp[i], rp[j])));
			return 1;
		}
	}
	for (int i = 0; i < N; i++) for (int j = 0; j < N; j++) for (int k = 0; k < N; k++)
		if (c[i][j] <= 0 && c[j][k] <= 0 && !(c[i][k] <= 0)) { printf("REPRODUCED cmp_streams is not transitive on \"%s\", \"%s\", \"%s\"\n", rp[i], rp[j], rp[k]); return 1; }
	printf("not reproduced: cmp_streams orders %d probe relpaths exactly like strcmp\n", (int) N);
	return 0;
}
