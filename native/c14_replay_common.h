/* Shared by the C14 native replay drivers (native/c14_*_replay.c).  No repository code here.
 *  - diagnostics of common.c rebound: err() counted in n_err, die() -> r_die() (drivers that run the
 *    code under replay in a forked child make the child exit 3; elsewhere a die() is a legitimate
 *    refusal, exit 0);
 *  - the witness STRING: bin/vcheck hands only integer witnesses to a driver, so the harnesses bind
 *    byte k of the version string to the integer ghost w_c<k> (harness/c14_vcontract.c) and
 *    r_witness_string() rebuilds it from W_C0..W_C15 (W_NULL: the pointer was NULL);
 *  - the SPECIFICATION of the property statement, written independently of the code:
 *      well-formed      = D+ '.' D+ '.' D+ [ '-' anything ], every number <= INT_MAX
 *      compatible(w,h)  = w.major == h.major && w.minor <= h.minor            (patch ignored)
 *    The strings of the known finding F-C14-1 (lenient parser; harness/c14_vspec.c spec_accepted,
 *    cross-checked against glibc by the native group vspec_native) are judged by the documented
 *    lenient language instead, so that the accepted finding is not "reproduced" again;
 *  - a corpus of version strings tried after the witness (the failed obligation need not be a
 *    contract clause, e.g. an applicability assertion of a libc model: the witness then only
 *    REACHES the call). */
#ifndef C14_REPLAY_COMMON_H
#define C14_REPLAY_COMMON_H
#include <unistd.h>
#include <stdio.h>
#include <stdlib.h>
#include <string.h>
#include <stdint.h>
#include <stdarg.h>
#include <limits.h>
#include <errno.h>
#include <inttypes.h>
#include <sys/types.h>
#include <sys/wait.h>

int is_debug_enabled;
static int n_err;
static int r_in_child;          /* set in a forked child: die() ends the child with status 3 */
void verr(const char *p, const char *f, const char *e, ...) { (void) f; (void) e; if (p && strcmp(p, "ERROR") == 0) n_err++; }
void vdie(const char *p, const char *f, const char *e, ...)
{
	(void) p; (void) f;
	if (r_in_child) _exit(3);
	printf("not reproduced: the code died (%s): a legitimate refusal\n", e);
	exit(0);
}

/* ---- the lenient language of the known finding, from the harness side (not repository code) ---- */
#define VP_N 72
#define C14_NATIVE_NAMES
#define MODEL_ASSERT(c, m) ((void) 0)
#define MODEL_SAME_OBJECT(p, q) 1
#include "harness/c14_vspec.c"

#define R_STRMAX 64             /* version_parse refuses 64 characters or more */

/* ---- witness string ---- */
#ifndef W_NULL
#define W_NULL 0
#endif
#ifndef W_C0
#define W_C0 '1'
#define R_DEFAULT_STRING 1
#endif
#ifndef W_C1
#define W_C1 (R_DEF(1))
#endif
#ifndef W_C2
#define W_C2 (R_DEF(2))
#endif
#ifndef W_C3
#define W_C3 (R_DEF(3))
#endif
#ifndef W_C4
#define W_C4 (R_DEF(4))
#endif
#ifndef W_C5
#define W_C5 (R_DEF(5))
#endif
#ifndef W_C6
#define W_C6 0
#endif
#ifndef W_C7
#define W_C7 0
#endif
#ifndef W_C8
#define W_C8 0
#endif
#ifndef W_C9
#define W_C9 0
#endif
#ifndef W_C10
#define W_C10 0
#endif
#ifndef W_C11
#define W_C11 0
#endif
#ifndef W_C12
#define W_C12 0
#endif
#ifndef W_C13
#define W_C13 0
#endif
#ifndef W_C14
#define W_C14 0
#endif
#ifndef W_C15
#define W_C15 0
#endif
/* default witness (driver run by hand without -D): "1.2.3" */
#ifdef R_DEFAULT_STRING
#define R_DEF(k) ("1.2.3"[k])
#else
#define R_DEF(k) 0
#endif
/* the witness string in a zero-filled buffer of VP_N bytes; NULL if the witness pointer was NULL */
static const char *r_witness_string(void)
{
	static char buf[VP_N];
	const long c[16] = { (W_C0), (W_C1), (W_C2), (W_C3), (W_C4), (W_C5), (W_C6), (W_C7), (W_C8), (W_C9), (W_C10), (W_C11),
		(W_C12), (W_C13), (W_C14), (W_C15) };
	memset(buf, 0, sizeof(buf));
	if (W_NULL) return NULL;
	for (int k = 0; k < 16; k++) {
		if ((c[k] & 0xff) == 0) break;
		buf[k] = (char) (c[k] & 0xff);
	}
	return buf;
}
/* printable form for messages */
static const char *r_show(const char *s)
{
	static char out[4][8 * R_STRMAX]; static int slot;
	char *o = out[slot = (slot + 1) % 4], *p = o;
	if (s == NULL) return "NULL";
	*p++ = '"';
	for (; *s && p < o + sizeof(out[0]) - 8; s++) {
		if (*s >= 0x20 && *s < 0x7f && *s != '"' && *s != '\\') *p++ = *s;
		else p += sprintf(p, "\\x%02x", (unsigned char) *s);
	}
	*p++ = '"'; *p = 0;
	return o;
}

/* ---- specification ---- */
/* D+ '.' D+ '.' D+ ('-' .*)? with every number <= INT_MAX; the numbers in out[] */
static int r_wellformed(const char *s, long out[3])
{
	if (s == NULL) return 0;
	const char *p = s;
	for (int c = 0; c < 3; c++) {
		if (!(*p >= '0' && *p <= '9')) return 0;
		unsigned long long v = 0; int big = 0;
		for (; *p >= '0' && *p <= '9'; p++) {
			v = v * 10 + (unsigned long long) (*p - '0');
			if (v > (unsigned long long) INT_MAX) big = 1, v = (unsigned long long) INT_MAX + 1;
		}
		if (big) return 0;
		out[c] = (long) v;
		if (c < 2) { if (*p != '.') return 0; p++; }
	}
	return *p == '\0' || *p == '-';
}
/* Expected verdict of version_parse on s: 1 accepted (numbers in out[]), 0 refused.
 * *finding is set when s is one of the strings of F-C14-1 (then the documented lenient reading). */
static int r_expect_parse(const char *s, long out[3], int *finding)
{
	*finding = 0;
	if (s == NULL) return 0;
	size_t len = strlen(s);
	if (len >= R_STRMAX) return 0;           /* "version too long" (documented limit of version_parse) */
	static char z[VP_N];
	memset(z, 0, sizeof(z)); memcpy(z, s, len);
	int wf = r_wellformed(s, out);
	if (spec_accepted(z) && !wf) {               /* lenient parser: known finding */
		*finding = 1;
		for (int k = 0; k < 3; k++) out[k] = spec_actual(z, k);
		return 1;
	}
	return wf;
}
#define R_COMPAT(w, h) ((w)[0] == (h)[0] && (w)[1] <= (h)[1])

/* ---- corpus ---- */
static const char *r_tokens[] = { "0", "1", "2", "3", "10", "11", "12", "13", "010", "013", "0x1", "0xb", "0X2", "1x", "x", "", "+1", "-1", "-0", " 1",
	"00", "007", "2147483647", "2147483648", "4294967297", "99999999999999999999" };
static const char *r_suffix[] = { "", "-rc1", "-", ".4", "x", " ", "-0x1" };
#define R_NTOK ((int) (sizeof(r_tokens) / sizeof(r_tokens[0])))
#define R_NSUF ((int) (sizeof(r_suffix) / sizeof(r_suffix[0])))
static const char *r_fixed[] = { "", ".", "..", "1", "1.", "1.2", "1.2.", "1.2.3", "1.2.3.4", "1..3", ".1.2.3", "a.b.c", "1.O.0", "1,2,3", "1.2.3rc",
	"1.2-3", "1-2-3", "1.2.3-", "-1.2.3", "1.-2.3", "1.2.-3", "\t1.2.3", "1 .2.3", "1. 2.3", "0.0.0", "000.000.000", "1.2.3\n",
	"1234567890.1.2", "1.1234567890.2", "123456789012345678901234567890123456789012345678901234567890.1.2",
	"1.2.3-aaaaaaaaaaaaaaaaaaaaaaaaaaaaaaaaaaaaaaaaaaaaaaaaaaaaaaaaaaaaaaaaaaaaaaaaaa" };
#define R_NFIXED ((int) (sizeof(r_fixed) / sizeof(r_fixed[0])))
/* calls f(s) for every corpus string until it returns non-zero; returns that value */
static int r_corpus(int (*f)(const char *s))
{
	static char buf[256];
	int r;
	for (int i = 0; i < R_NFIXED; i++)
		if ((r = f(r_fixed[i])) != 0) return r;
	for (int a = 0; a < R_NTOK; a++) for (int b = 0; b < R_NTOK; b++) for (int c = 0; c < R_NTOK; c++) for (int x = 0; x < R_NSUF; x++) {
		/* the full cube only for the short tokens; long ones vary one component at a time */
		int nlong = (a >= 20) + (b >= 20) + (c >= 20);
		if (nlong > 1) continue;
		snprintf(buf, sizeof(buf), "%s.%s.%s%s", r_tokens[a], r_tokens[b], r_tokens[c], r_suffix[x]);
		if ((r = f(buf)) != 0) return r;
	}
	return 0;
}
#endif
