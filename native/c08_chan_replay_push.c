#define REPLAY_OP 0
#include "c08_chan_replay.h"
