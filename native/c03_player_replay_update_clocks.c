#define REPLAY_OP 4
#include "c03_player_replay.h"
