/* C14 native replay of model_event on the REAL src/emu/model.c.
 * Witnesses (harness/c14_probe.c): W_INDEX (model slot), W_REGISTERED, W_ENABLED, W_HAS_HANDLER,
 * W_EVRET (the handler's verdict).  Specification (statement): "events of a model that is not enabled
 * are rejected": not registered or not enabled => -1 with a diagnostic and the model's handler is NOT
 * called; otherwise the handler (if any) is called exactly once with this emulator and the event is
 * accepted iff it returns 0.  After the witness the 2x2x2x{0,1,-1} configurations of the slot are tried. */
#include "c12_replay_common.h"
#include "model.c"
#ifndef W_INDEX
#define W_INDEX 'O'
#endif
#ifndef W_REGISTERED
#define W_REGISTERED 1
#endif
#ifndef W_ENABLED
#define W_ENABLED 1
#endif
#ifndef W_HAS_HANDLER
#define W_HAS_HANDLER 1
#endif
#ifndef W_EVRET
#define W_EVRET 0
#endif
static int calls, hret; static struct emu *arg;
static int handler(struct emu *emu) { calls++; arg = emu; return hret; }
static int one(int index, int reg, int en, int hash, int evret, const char *origin)
{
	static struct model model; static struct emu emu; static struct emu_ev ev;
	static struct model_spec spec;
	memset(&model, 0, sizeof(model)); memset(&emu, 0, sizeof(emu)); memset(&ev, 0, sizeof(ev)); memset(&spec, 0, sizeof(spec));
	spec.name = "replay"; spec.version = "1.0.0"; spec.model = index;
	strcpy(ev.mcv, "OHx"); ev.m = (uint8_t) index; emu.ev = &ev;
	calls = 0; arg = NULL; hret = evret;
	spec.event = hash ? handler : NULL;
	/* an unregistered slot keeps a spec too, so that a missing guard shows as a wrong result, not a crash */
	model.spec[index] = &spec;
	model.registered[index] = reg;
	model.enabled[index] = en;
	int on = reg && en;
	int want_calls = on && hash;
	int want_r = !on ? -1 : (!hash ? 0 : (evret == 0 ? 0 : -1));
	int e0 = n_err;
	int r = model_event(&model, &emu, index);
	if (r != want_r || calls != want_calls || (calls && arg != &emu) || (!on && n_err == e0)) {
		printf("REPRODUCED model_event: returned %d (specified %d), handler called %d times (specified %d), diagnostics %d "
			"(index=%d registered=%d enabled=%d has_handler=%d handler_ret=%d) [%s]\n", r, want_r, calls, want_calls, n_err - e0,
			index, reg, en, hash, evret, origin);
		return 1;
	}
	if (model.registered[index] != reg || model.enabled[index] != en) { printf("REPRODUCED model_event changed registered[]/enabled[] of slot %d [%s]\n", index, origin); return 1; }
	return 0;
}
int main(void)
{
	int index = (int) (W_INDEX);
	if (index < 0 || index >= MAX_MODELS) { printf("not reproduced: index outside the precondition\n"); return 0; }
	if (one(index, (W_REGISTERED) != 0, (W_ENABLED) != 0, (W_HAS_HANDLER) != 0, (int) (W_EVRET), "witness")) return 1;
	static const int rets[] = { 0, 1, -1, INT_MIN };
	for (int reg = 0; reg < 2; reg++) for (int en = 0; en < 2; en++) for (int h = 0; h < 2; h++) for (int x = 0; x < 4; x++)
		if (one(index, reg, en, h, rets[x], "tried after the witness")) return 1;
	printf("not reproduced: model_event behaves as specified on the witness and on the 32 configurations of slot %d\n", index);
	return 0;
}
