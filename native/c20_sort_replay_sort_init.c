#define REPLAY_OP 4
#include "c20_sort_replay.h"
