#define REPLAY_OP 0
#include "c13_pcf_replay.h"
