#define REPLAY_OP 'x'
#include "c04_event_replay.h"
