#define REPLAY_OP 0
#include "c14_model_replay.h"
#ifndef W_META
#define W_META 1
#endif
#ifndef W_REQUIRE
#define W_REQUIRE 1
#endif
#ifndef W_VALUE
#define W_VALUE 1
#endif
#ifndef W_HAVE0
#define W_HAVE0 1
#endif
#ifndef W_HAVE1
#define W_HAVE1 2
#endif
#ifndef W_HAVE2S
#define W_HAVE2S 0
#endif
static const char *r_origin = "witness";
static int r_have[3];
static int one_kind(int kind, const char *v)
{
	int have[3] = { r_have[0], r_have[1], r_have[2] };
	long want[3]; int finding = 0;
	int expect;
	if (kind < 2) expect = -1;
	else if (kind == 2) expect = 0;
	else expect = (r_expect_parse(v, want, &finding) && want[0] == have[0] && want[1] <= have[1]) ? 1 : -1;
	mk_stream(0, kind, v);
	int e0 = n_err; r_wrong_obj = 0;
	int r = should_enable(have, &r_spec, &r_th[0]);
	const char *why = NULL;
	if (r != expect) why = expect == 1 ? "a compatible requirement was not accepted" : expect == 0 ? "a stream that does not name the model was not answered 0" :
		r == 1 ? (kind == 3 ? "a malformed or incompatible requirement was accepted" : "a stream without readable requirements was accepted") : "wrong verdict";
	else if (r < 0 && n_err == e0) why = "refused without a diagnostic";
	else if (have[0] != r_have[0] || have[1] != r_have[1] || have[2] != r_have[2]) why = "the model's version triple was modified";
	if (why) {
		printf("REPRODUCED should_enable: %s: returned %d, specified %d (stream %s; model version %d.%d.%d)%s [%s]\n", why, r, expect,
			kind == 0 ? "without metadata" : kind == 1 ? "without ovni.require" : kind == 2 ? "whose ovni.require does not name the model" : r_show(v),
			r_have[0], r_have[1], r_have[2], finding ? " (lenient reading of known finding F-C14-1)" : "", r_origin);
		return 1;
	}
	return 0;
}
static int one_str(const char *v) { return one_kind(3, v); }
int main(void)
{
	r_have[0] = (int) (W_HAVE0); r_have[1] = (int) (W_HAVE1); r_have[2] = (int) (W_HAVE2S);
	const char *s = r_witness_string();
	int kind = !(W_META) ? 0 : !(W_REQUIRE) ? 1 : !(W_VALUE) || s == NULL ? 2 : 3;
	if (one_kind(kind, s)) return 1;
	r_origin = "tried after the witness";
	for (int k = 0; k < 3; k++) if (one_kind(k, NULL)) return 1;
	/* versions around the model's */
	char buf[128];
	for (int round = 0; round < 2; round++) {
		if (round == 1) { r_have[0] = 2; r_have[1] = 4; r_have[2] = 0; }     /* a typical model version */
		for (long M = (long) r_have[0] - 1; M <= (long) r_have[0] + 1; M++) for (long m = (long) r_have[1] - 2; m <= (long) r_have[1] + 2; m++) for (int p = 0; p < 3; p++) {
			if (M < 0 || m < 0 || M > INT_MAX || m > INT_MAX) continue;
			snprintf(buf, sizeof(buf), "%ld.%ld.%ld%s", M, m, p == 0 ? 0L : p == 1 ? (long) r_have[2] + 1 : 77L, p == 2 ? "-rc1" : "");
			if (one_str(buf)) return 1;
		}
		if (r_corpus(one_str)) return 1;
	}
	printf("not reproduced: should_enable behaves as specified on the witness and on the corpus\n");
	return 0;
}
