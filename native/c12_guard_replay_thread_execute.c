#define REPLAY_OP 0
#include "c12_guard_replay.h"
