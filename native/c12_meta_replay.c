/* C12 native replay of thread_load_metadata on the REAL src/emu/thread.c, with the REAL
 * stream_metadata (src/emu/stream.c) and the REAL parson (src/parson.c).
 * Witnesses: W_PRESENT (stream.json has ovni.finished), W_IS_NUM (it is a number), W_NUM_IS1 /
 * W_NUM_IS0 (the number is 1 / 0; anything else is replayed as 2), W_HAD_META (the thread already
 * loaded metadata).  Specification: a thread stream is accepted exactly when it is the first load
 * and the finished marker ovni.finished is present and equal to 1; then the thread keeps the
 * stream's metadata; otherwise -1 with a diagnostic and thread->meta untouched.
 * If the witness input itself behaves as specified, the 24 shapes of the finite witness domain are tried. */
#include "c12_replay_common.h"
#include "parson.c"
#include "stream.c"
#include "thread.c"
#ifndef W_PRESENT
#define W_PRESENT 1
#endif
#ifndef W_IS_NUM
#define W_IS_NUM 1
#endif
#ifndef W_NUM_IS1
#define W_NUM_IS1 1
#endif
#ifndef W_NUM_IS0
#define W_NUM_IS0 0
#endif
#ifndef W_HAD_META
#define W_HAD_META 0
#endif
/* one concrete stream.json against the real code; returns a description of the disagreement or NULL */
static const char *run_case(int present, int is_num, int numclass, int had_meta, int *rp)
{
	static struct thread thread; static struct stream s;
	memset(&thread, 0, sizeof(thread)); memset(&s, 0, sizeof(s)); n_err = 0;
	JSON_Value *root = json_value_init_object();
	JSON_Object *meta = json_value_get_object(root);
	json_object_set_number(meta, "version", 3);
	json_object_dotset_number(meta, "ovni.tid", 1234);
	json_object_dotset_string(meta, "ovni.part", "thread");
	double num = numclass == 1 ? 1.0 : (numclass == 0 ? 0.0 : 2.0);
	if (present) {
		if (is_num) json_object_dotset_number(meta, "ovni.finished", num);
		else json_object_dotset_string(meta, "ovni.finished", "yes");
	}
	JSON_Value *other = json_value_init_object();
	JSON_Object *old = had_meta ? json_value_get_object(other) : NULL;
	s.meta = meta; strcpy(s.relpath, "replay/thread.1234"); strcpy(s.path, "replay/thread.1234");
	thread.meta = old; strcpy(thread.id, "replay.thread");
	int legal = !had_meta && present && is_num && num == 1.0;
	int r = thread_load_metadata(&thread, &s);
	*rp = r;
	if (r != 0 && r != -1) return "return value is neither 0 nor -1";
	if ((r == 0) != legal) return legal ? "a finished stream was refused" : "a stream without the finished marker (or a second load) was accepted";
	if (r == 0 && thread.meta != meta) return "accepted but the thread does not keep the stream's metadata";
	if (r != 0 && thread.meta != old) return "refused but thread->meta changed";
	if (r != 0 && n_err == 0) return "refused without a diagnostic";
	return NULL;
}
int main(void)
{
	int wp = (W_PRESENT) != 0, wn = (W_IS_NUM) != 0, wc = (W_NUM_IS1) ? 1 : ((W_NUM_IS0) ? 0 : 2), wh = (W_HAD_META) != 0, r;
	const char *why = run_case(wp, wn, wc, wh, &r);
	if (why) {
		printf("REPRODUCED thread_load_metadata: %s (returned %d; ovni.finished present=%d is_num=%d value=%d, had_meta=%d)\n", why, r, wp, wn, wc, wh);
		return 1;
	}
	/* The witness input behaves as specified.  When the failed obligation is not a contract clause
	 * (e.g. a call of a parson function the harness does not model: the trace only REACHES the
	 * call), the witness need not be a failing input: try the other inputs of the finite witness
	 * domain {present} x {number, string} x {0, 1, 2} x {first, second load} as well. */
	for (int p = 0; p < 2; p++) for (int n = 0; n < 2; n++) for (int c = 0; c < 3; c++) for (int h = 0; h < 2; h++) {
		why = run_case(p, n, c, h, &r);
		if (why) {
			printf("REPRODUCED thread_load_metadata: %s (returned %d; ovni.finished present=%d is_num=%d value=%d, had_meta=%d; "
				"found next to the witness present=%d is_num=%d value=%d had_meta=%d)\n", why, r, p, n, c, h, wp, wn, wc, wh);
			return 1;
		}
	}
	printf("not reproduced: thread_load_metadata behaves as specified on the witness (present=%d is_num=%d value=%d had_meta=%d) and on all 24 metadata shapes\n", wp, wn, wc, wh);
	return 0;
}
