#define REPLAY_OP 2
#include "c12_guard_replay.h"
