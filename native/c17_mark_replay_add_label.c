#define REPLAY_OP 2
#include "c17_mark_replay.h"
