/* C06 chan_set / chan_flush / chan_read: the witness ghosts of harness/c06_chan.c renamed to the
 * ones of the shared channel replay driver native/c08_chan_replay.h (which states the channel
 * rules and compares the complete post-state on the REAL src/emu/chan.c).
 * C06 names: W_ADUP, W_IDUP, W_HASCB, (W_LT,W_LI) last_value, (W_CT,W_CI) value the channel shows,
 * W_N stack depth, W_CBRET result of the dirty callback. */
#ifdef W_ADUP
#define W_AD W_ADUP
#endif
#ifdef W_IDUP
#define W_ID W_IDUP
#endif
#ifdef W_HASCB
#define W_CBNULL (!(W_HASCB))
#endif
#ifdef W_LT
#define W_LAST_T W_LT
#endif
#ifdef W_LI
#define W_LAST_I W_LI
#endif
#ifdef W_CT
#define W_SINGLE_T W_CT
#define W_TOP_T W_CT
#endif
#ifdef W_CI
#define W_SINGLE_I W_CI
#define W_TOP_I W_CI
#endif
#if !defined(W_N) && defined(W_CT) && defined(W_CI)
#define W_N (((W_CT) == 0 && (W_CI) == 0) ? 0 : 1)     /* a stack showing null is replayed empty */
#endif
#include "c08_chan_replay.h"
