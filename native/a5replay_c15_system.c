/* C15 native END-TO-END replay of the system hierarchy: the REAL src/emu/system.c (system_init, create_system,
 * create_loom, find_loom, create_proc, create_thread, set_sort_criteria, sort_lpt, init_global_lists,
 * init_global_indices, init_end_system, report_libovni_version), loom.c, proc.c, thread.c, cpu.c, chan.c,
 * clkoff.c, stream.c and parson.c in ONE program (real uthash / utlist, real libc).
 * No input witness is needed: the failed obligations of the groups served (loom_init_end, cpu_init_begin,
 * global_lists, g1_loom_*, g1_proc_find_thread, g1_thread_*, g1_set_name, g1_cpu_init_end, g1_system_init,
 * g1_find_loom, g1_create_thread, g1_create_loom, g1_create_system, g1_init_end_system) are call-log / frame
 * clauses of stubs, so the witness names a shape, not a failing value; the driver runs a finite corpus instead.
 *
 * Input: small traces given as REAL stream.json documents (text parsed by parson), one per stream, run through
 * system_init in every permutation of the stream order (n <= 4) or rotations + reversal (n > 4).
 * Specification (property statement, evaluated by an independent model on the SET of documents):
 *   the loom/process/thread/CPU hierarchy, its ordering (looms by name or by minimum rank when every loom has
 *   ranks, processes by rank or PID, threads by TID, CPUs by physical id with the virtual CPU last) and hence all
 *   global row indices depend only on the union of the streams' metadata, not on which thread carries a per-process
 *   or per-loom attribute nor on the stream order; contradictory or incomplete metadata (different app id / rank
 *   within a process, a CPU index bound to two physical ids or vice versa, duplicate TIDs, missing CPUs or app id,
 *   mixed rank / no rank in a loom, non-contiguous CPU indices) is refused with a diagnostic, never accepted.
 * Plus the unit facts the hierarchy rests on: cpu_init_begin / loom_init_begin start clean objects (host = name up
 * to the first dot, virtual CPU (-1,-1) bound to its loom), look-ups by PID / TID / loom name are exact,
 * thread_set_gindex writes only the index, *_init_end accept exactly complete objects, name the CPUs
 * " CPU <loom>.<phyid>" / "vCPU <loom>.*" and initialise the channels (single value; duplicates ignored on the
 * thread TID channel and on every CPU channel), loom_get_cpu(index) is the CPU with that logical index.
 * Linked with -Wl,--unresolved-symbols=ignore-all.  exit 0: as specified; exit 1: REPRODUCED. */
#include "c12_replay_common.h"
#include "parson.c"
#undef sscanf
#include "stream.c"
#include "clkoff.c"
#include "value.h"
char value_buffers[VALUE_NBUF][VALUE_BUFSIZE];
size_t value_nextbuf;
#include "chan.c"
#include "proc.c"
#include "thread.c"
#define chan_name cpu_chan_name
#define chan_type cpu_chan_type
#define prv_flags cpu_prv_flags
#define pvt_name cpu_pvt_name
#include "cpu.c"
#undef chan_name
#undef chan_type
#undef prv_flags
#undef pvt_name
#include "loom.c"
#include "emu_args.h"
#include "system.c"

static char why[900];
#define FAIL(...) do { snprintf(why, sizeof(why), __VA_ARGS__); return 1; } while (0)

/* ------------------------------------------------------------------ scenarios */
#define MAXS 6
#define MAXC 4
struct sdef {
	const char *loom; int pid, tid;
	int app;                       /* 0: the stream does not carry ovni.app_id */
	int has_rank, rank, nranks;
	int ncpus, cidx[MAXC], cphy[MAXC];   /* ncpus 0: no ovni.loom_cpus; -1: an empty array */
	int part;                      /* 1 "thread", 0 another part, -1 attribute missing */
	int unfinished, nolib;
};
struct scen { const char *what; int legal; int n; struct sdef s[MAXS]; };
#define TH 1
static const struct scen corpus[] = {
	{"one loom, one process, two threads; app id and CPUs on the second thread only", 1, 2,
	 {{"node.1", 10, 12, 0, 0, 0, 0, 0, {0}, {0}, TH}, {"node.1", 10, 11, 1, 0, 0, 0, 2, {1, 0}, {6, 2}, TH}}},
	{"one loom, one process, two threads; app id and CPUs on the first thread only", 1, 2,
	 {{"node.1", 10, 12, 1, 0, 0, 0, 2, {0, 1}, {2, 6}, TH}, {"node.1", 10, 11, 0, 0, 0, 0, 0, {0}, {0}, TH}}},
	{"two looms without ranks, names out of order, CPU lists split over the threads, a foreign stream", 1, 5,
	 {{"zeta.0", 300, 301, 2, 0, 0, 0, 1, {1}, {9}, TH}, {"alpha.7", 40, 44, 1, 0, 0, 0, 2, {0, 2}, {5, 1}, TH},
	  {"zeta.0", 300, 299, 0, 0, 0, 0, 2, {0, 1}, {3, 9}, TH}, {"alpha.7", 7, 8, 3, 0, 0, 0, 1, {1}, {8}, TH},
	  {"alpha.7", 1, 1, 9, 0, 0, 0, 0, {0}, {0}, 0}}},
	{"two looms with ranks: loom order by minimum rank against the name order, processes by rank against the PID order", 1, 4,
	 {{"a.host", 50, 51, 1, 1, 3, 4, 1, {0}, {0}, TH}, {"a.host", 20, 21, 1, 1, 2, 4, 0, {0}, {0}, TH},
	  {"b.host", 9, 10, 1, 1, 1, 4, 2, {1, 0}, {7, 4}, TH}, {"b.host", 5, 6, 1, 1, 0, 4, 0, {0}, {0}, TH}}},
	{"two looms, only one with ranks: looms by name, the ranked loom's processes by rank", 1, 4,
	 {{"b", 1, 2, 4, 0, 0, 0, 1, {0}, {0}, TH}, {"a", 30, 31, 1, 1, 1, 2, 1, {0}, {11}, TH},
	  {"a", 60, 61, 1, 1, 0, 2, 0, {0}, {0}, TH}, {"b", 3, 4, 4, 0, 0, 0, 0, {0}, {0}, TH}}},
	{"three looms of one thread each, one-character names, rank carried everywhere", 1, 3,
	 {{"c", 3, 3, 1, 1, 0, 3, 1, {0}, {0}, TH}, {"a", 1, 1, 1, 1, 1, 3, 1, {0}, {0}, TH}, {"b", 2, 2, 1, 1, 2, 3, 1, {0}, {0}, TH}}},
	{"one loom, two processes of two threads, rank on one thread of each, four CPUs given twice in different orders", 1, 4,
	 {{"n", 8, 80, 5, 0, 0, 0, 4, {3, 2, 1, 0}, {30, 20, 10, 0}, TH}, {"n", 8, 81, 0, 1, 1, 2, 0, {0}, {0}, TH},
	  {"n", 4, 40, 0, 1, 0, 2, 4, {0, 1, 2, 3}, {0, 10, 20, 30}, TH}, {"n", 4, 41, 5, 0, 0, 0, 0, {0}, {0}, TH}}},
	{"loom names that are prefixes of each other", 1, 3,
	 {{"ab", 1, 1, 1, 0, 0, 0, 1, {0}, {1}, TH}, {"a", 2, 2, 1, 0, 0, 0, 1, {0}, {2}, TH}, {"abc", 3, 3, 1, 0, 0, 0, 1, {0}, {3}, TH}}},
	{"a single thread", 1, 1, {{"solo.node.3", 1234, 1234, 7, 1, 0, 1, 1, {0}, {63}, TH}}},
	/* ---- refused ---- */
	{"two threads of a process with different app ids", 0, 2,
	 {{"n", 1, 1, 1, 0, 0, 0, 1, {0}, {0}, TH}, {"n", 1, 2, 2, 0, 0, 0, 0, {0}, {0}, TH}}},
	{"two threads of a process with different ranks", 0, 2,
	 {{"n", 1, 1, 1, 1, 0, 2, 1, {0}, {0}, TH}, {"n", 1, 2, 1, 1, 1, 2, 0, {0}, {0}, TH}}},
	{"two threads of a process with different rank counts", 0, 2,
	 {{"n", 1, 1, 1, 1, 0, 2, 1, {0}, {0}, TH}, {"n", 1, 2, 1, 1, 0, 3, 0, {0}, {0}, TH}}},
	{"a CPU index bound to two physical ids by two threads of a loom", 0, 2,
	 {{"n", 1, 1, 1, 0, 0, 0, 1, {0}, {0}, TH}, {"n", 2, 2, 1, 0, 0, 0, 1, {0}, {5}, TH}}},
	{"a physical CPU bound to two indices by two threads of a loom", 0, 2,
	 {{"n", 1, 1, 1, 0, 0, 0, 2, {0, 1}, {0, 5}, TH}, {"n", 2, 2, 1, 0, 0, 0, 1, {0}, {5}, TH}}},
	{"the same TID twice in a process", 0, 2,
	 {{"n", 1, 7, 1, 0, 0, 0, 1, {0}, {0}, TH}, {"n", 1, 7, 1, 0, 0, 0, 0, {0}, {0}, TH}}},
	{"a loom without any CPU", 0, 2,
	 {{"n", 1, 1, 1, 0, 0, 0, 1, {0}, {0}, TH}, {"m", 2, 2, 1, 0, 0, 0, 0, {0}, {0}, TH}}},
	{"a process without app id", 0, 2,
	 {{"n", 1, 1, 1, 0, 0, 0, 1, {0}, {0}, TH}, {"n", 2, 2, 0, 0, 0, 0, 0, {0}, {0}, TH}}},
	{"a loom where one process has a rank and another has none", 0, 2,
	 {{"n", 1, 1, 1, 1, 0, 1, 1, {0}, {0}, TH}, {"n", 2, 2, 1, 0, 0, 0, 0, {0}, {0}, TH}}},
	{"CPU indices that are not contiguous (0 and 2 of two CPUs)", 0, 1, {{"n", 1, 1, 1, 0, 0, 0, 2, {0, 2}, {0, 1}, TH}}},
	{"an empty CPU list", 0, 2, {{"n", 1, 1, 1, 0, 0, 0, 1, {0}, {0}, TH}, {"n", 1, 2, 1, 0, 0, 0, -1, {0}, {0}, TH}}},
	{"a negative CPU index", 0, 1, {{"n", 1, 1, 1, 0, 0, 0, 1, {-1}, {3}, TH}}},
	{"a stream without ovni.part", 0, 2, {{"n", 1, 1, 1, 0, 0, 0, 1, {0}, {0}, TH}, {"n", 1, 2, 1, 0, 0, 0, 0, {0}, {0}, -1}}},
	{"a thread stream that was not finished", 0, 2, {{"n", 1, 1, 1, 0, 0, 0, 1, {0}, {0}, TH}, {"n", 1, 2, 1, 0, 0, 0, 0, {0}, {0}, TH, 1}}},
	{"a thread stream without TID", 0, 1, {{"n", 1, 0, 1, 0, 0, 0, 1, {0}, {0}, TH}}},
	{"a thread stream without PID", 0, 1, {{"n", 0, 1, 1, 0, 0, 0, 1, {0}, {0}, TH}}},
	{"a loom name with a slash", 0, 1, {{"n/m", 1, 1, 1, 0, 0, 0, 1, {0}, {0}, TH}}},
	{"a rank outside the rank count", 0, 1, {{"n", 1, 1, 1, 1, 2, 2, 1, {0}, {0}, TH}}},
	{"a thread without libovni version", 0, 2, {{"n", 1, 1, 1, 0, 0, 0, 1, {0}, {0}, TH}, {"n", 1, 2, 1, 0, 0, 0, 0, {0}, {0}, TH, 0, 1}}},
};
#define NCORPUS ((int) (sizeof(corpus) / sizeof(corpus[0])))

/* ------------------------------------------------------------------ building the trace from stream.json text */
static struct stream streams[MAXS];
static JSON_Value *roots[MAXS];
static struct trace trace;
static void doc_text(const struct sdef *d, char *buf, size_t n)
{
	size_t k = 0;
#define ADD(...) do { int r_ = snprintf(buf + k, n - k, __VA_ARGS__); if (r_ > 0) k += (size_t) r_; } while (0)
	ADD("{\"version\":3,\"ovni\":{");
	if (!d->nolib) ADD("\"lib\":{\"version\":\"1.11.0\",\"commit\":\"replay\"},");
	if (d->part >= 0) ADD("\"part\":\"%s\",", d->part ? "thread" : "other");
	if (d->tid) ADD("\"tid\":%d,", d->tid);
	if (d->pid) ADD("\"pid\":%d,", d->pid);
	if (d->app) ADD("\"app_id\":%d,", d->app);
	if (d->has_rank) ADD("\"rank\":%d,\"nranks\":%d,", d->rank, d->nranks);
	if (d->ncpus != 0) {
		ADD("\"loom_cpus\":[");
		for (int i = 0; i < d->ncpus; i++) ADD("%s{\"index\":%d,\"phyid\":%d}", i ? "," : "", d->cidx[i], d->cphy[i]);
		ADD("],");
	}
	if (!d->unfinished) ADD("\"finished\":1,");
	ADD("\"loom\":\"%s\"}}", d->loom);
#undef ADD
}
static int build_trace(const struct scen *sc, const int *perm)
{
	memset(&trace, 0, sizeof(trace)); strcpy(trace.tracedir, "a5replay-c15-trace");
	struct stream *prev = NULL;
	for (int k = 0; k < sc->n; k++) {
		const struct sdef *d = &sc->s[perm[k]];
		struct stream *s = &streams[k]; memset(s, 0, sizeof(*s));
		snprintf(s->relpath, sizeof(s->relpath), "loom.%s/proc.%d/thread.%d", d->loom, d->pid, d->tid);
		char text[1024]; doc_text(d, text, sizeof(text));
		roots[k] = json_parse_string(text);
		if (roots[k] == NULL) { snprintf(why, sizeof(why), "driver: cannot parse its own stream.json: %s", text); return -1; }
		s->meta = json_value_get_object(roots[k]); s->active = 1;
		s->prev = prev; if (prev) prev->next = s; else trace.streams = s;
		prev = s; trace.nstreams++;
	}
	return 0;
}
static void free_trace(int n) { for (int k = 0; k < n; k++) if (roots[k]) { json_value_free(roots[k]); roots[k] = NULL; } }

/* ------------------------------------------------------------------ the model: hierarchy from the SET of documents */
struct mth { int tid; const struct sdef *d; };
struct mproc { int pid, app, rank, nranks, nth; struct mth th[MAXS]; };
struct mloom { const char *name; int np; struct mproc p[MAXS]; int nc, cidx[MAXS * MAXC], cphy[MAXS * MAXC]; int ranked, rank_min; };
struct msys { int nl; struct mloom l[MAXS]; int by_rank; };
static int cmp_int(int a, int b) { return (a > b) - (a < b); }
static void model(const struct scen *sc, struct msys *m)
{
	memset(m, 0, sizeof(*m));
	for (int i = 0; i < sc->n; i++) {
		const struct sdef *d = &sc->s[i];
		if (d->part != 1) continue;
		struct mloom *l = NULL;
		for (int j = 0; j < m->nl; j++) if (strcmp(m->l[j].name, d->loom) == 0) l = &m->l[j];
		if (!l) { l = &m->l[m->nl++]; l->name = d->loom; }
		struct mproc *p = NULL;
		for (int j = 0; j < l->np; j++) if (l->p[j].pid == d->pid) p = &l->p[j];
		if (!p) { p = &l->p[l->np++]; p->pid = d->pid; p->rank = -1; }
		if (d->app) p->app = d->app;
		if (d->has_rank) { p->rank = d->rank; p->nranks = d->nranks; }
		p->th[p->nth].tid = d->tid; p->th[p->nth].d = d; p->nth++;
		for (int c = 0; c < d->ncpus; c++) {
			int seen = 0;
			for (int j = 0; j < l->nc; j++) if (l->cphy[j] == d->cphy[c]) seen = 1;
			if (!seen) { l->cidx[l->nc] = d->cidx[c]; l->cphy[l->nc] = d->cphy[c]; l->nc++; }
		}
	}
	m->by_rank = 1;
	for (int i = 0; i < m->nl; i++) {
		struct mloom *l = &m->l[i]; l->rank_min = INT_MAX;
		for (int j = 0; j < l->np; j++) if (l->p[j].rank >= 0) { l->ranked = 1; if (l->p[j].rank < l->rank_min) l->rank_min = l->p[j].rank; }
		if (!l->ranked) m->by_rank = 0;
	}
	/* the documented orders (selection sorts on the documented keys) */
	for (int i = 0; i < m->nl; i++) for (int j = i + 1; j < m->nl; j++) {
		int c = m->by_rank ? cmp_int(m->l[i].rank_min, m->l[j].rank_min) : strcmp(m->l[i].name, m->l[j].name);
		if (c > 0) { struct mloom t = m->l[i]; m->l[i] = m->l[j]; m->l[j] = t; }
	}
	for (int i = 0; i < m->nl; i++) {
		struct mloom *l = &m->l[i];
		for (int a = 0; a < l->np; a++) for (int b = a + 1; b < l->np; b++) {
			int c = l->ranked ? cmp_int(l->p[a].rank, l->p[b].rank) : cmp_int(l->p[a].pid, l->p[b].pid);
			if (c > 0) { struct mproc t = l->p[a]; l->p[a] = l->p[b]; l->p[b] = t; }
		}
		for (int a = 0; a < l->np; a++) { struct mproc *p = &l->p[a];
			for (int x = 0; x < p->nth; x++) for (int y = x + 1; y < p->nth; y++) if (p->th[x].tid > p->th[y].tid) { struct mth t = p->th[x]; p->th[x] = p->th[y]; p->th[y] = t; } }
		for (int a = 0; a < l->nc; a++) for (int b = a + 1; b < l->nc; b++) if (l->cphy[a] > l->cphy[b]) {
			int t = l->cphy[a]; l->cphy[a] = l->cphy[b]; l->cphy[b] = t; t = l->cidx[a]; l->cidx[a] = l->cidx[b]; l->cidx[b] = t; }
	}
}

/* ------------------------------------------------------------------ checks of one accepted system against the model */
static int check_chan(const struct chan *c, const char *prefix, int ignore_dup, const char *owner)
{
	if (c->type != CHAN_SINGLE) FAIL("a channel of %s is not a single-value channel after *_init_end", owner);
	if (strncmp(c->name, prefix, strlen(prefix)) != 0 || c->name[strlen(prefix)] == '\0') FAIL("a channel of %s is named \"%.60s\", specified \"%s<channel>\" (named after the global index)", owner, c->name, prefix);
	if (c->prop[CHAN_IGNORE_DUP] != ignore_dup) FAIL("channel %.60s of %s has IGNORE_DUP=%d, specified %d", c->name, owner, c->prop[CHAN_IGNORE_DUP], ignore_dup);
	if (c->prop[CHAN_DIRTY_WRITE] != 0 || c->prop[CHAN_ALLOW_DUP] != 0 || c->is_dirty != 0) FAIL("channel %.60s of %s does not start clean", c->name, owner);
	return 0;
}
static int check_cpu(struct cpu *c, struct loom *l, int64_t lg, int64_t g, int index, int phyid, int virt)
{
	char owner[64]; snprintf(owner, sizeof(owner), "CPU phyid %d of loom %s", phyid, l->name);
	if (c->index != index || c->phyid != phyid || (c->is_virtual != 0) != virt) FAIL("%s is (index %d, phyid %d, virtual %d), specified (index %d, phyid %d, virtual %d)", owner, c->index, c->phyid, c->is_virtual, index, phyid, virt);
	if (c->loom != l) FAIL("%s does not point to its loom", owner);
	if (c->gindex != g) FAIL("%s has global index %" PRIi64 ", specified %" PRIi64 " (looms in order; in a loom physical CPUs by physical id, the virtual CPU last)", owner, c->gindex, g);
	if (!c->is_init) FAIL("%s is not initialised after system_init", owner);
	char name[128]; if (virt) snprintf(name, sizeof(name), "vCPU %zu.*", (size_t) lg); else snprintf(name, sizeof(name), " CPU %zu.%zu", (size_t) lg, (size_t) phyid);
	if (strcmp(c->name, name) != 0) FAIL("%s is named \"%.60s\", specified \"%s\"", owner, c->name, name);
	if (c->nthreads != 0 || c->nth_running != 0 || c->nth_active != 0 || c->threads || c->th_running || c->th_active) FAIL("%s does not start without threads", owner);
	char prefix[64]; snprintf(prefix, sizeof(prefix), "cpu%" PRIi64 ".", g);
	for (int i = 0; i < CPU_CHAN_MAX; i++) if (check_chan(&c->chan[i], prefix, 1, owner)) return 1;
	for (int i = 0; i < CPU_CHAN_MAX; i++) for (int j = i + 1; j < CPU_CHAN_MAX; j++) if (strcmp(c->chan[i].name, c->chan[j].name) == 0) FAIL("two channels of %s have the same name %.60s", owner, c->chan[i].name);
	return 0;
}
static int check_system(struct system *sys, const struct msys *m, const struct scen *sc, const int *perm)
{
	if ((sys->sort_by_rank != 0) != m->by_rank) FAIL("sort_by_rank is %d, specified %d (by rank exactly when EVERY loom has rank information)", sys->sort_by_rank, m->by_rank);
	if (sys->nlooms != (size_t) m->nl) FAIL("the system has %zu looms, specified %d (one per distinct loom name)", sys->nlooms, m->nl);
	struct loom *l = sys->looms; struct proc *gp = sys->procs; struct thread *gt = sys->threads; struct cpu *gc = sys->cpus;
	struct cpu *lastc = NULL; struct thread *lastt = NULL; struct proc *lastp = NULL; struct loom *lastl = NULL;
	int64_t ip = 0, it = 0, ic = 0, nphy = 0;
	for (int i = 0; i < m->nl; i++, l = l->next) {
		const struct mloom *ml = &m->l[i];
		if (l == NULL) FAIL("the loom list ends after %d looms, specified %d", i, m->nl);
		if (strcmp(l->name, ml->name) != 0 || l->id != l->name) FAIL("loom %d of the system is \"%.60s\", specified \"%s\" (looms ordered %s; this order must not depend on the stream order)", i, l->name, ml->name, m->by_rank ? "by minimum rank" : "by name");
		if (l->gindex != i) FAIL("loom %s has global index %" PRIi64 ", specified %d", l->name, l->gindex, i);
		char host[64]; size_t hl = strcspn(ml->name, "."); snprintf(host, sizeof(host), "%.*s", (int) hl, ml->name);
		if (strcmp(l->hostname, host) != 0) FAIL("loom %s has host name \"%.60s\", specified \"%s\"", l->name, l->hostname, host);
		if ((l->rank_enabled != 0) != ml->ranked || l->rank_min != ml->rank_min) FAIL("loom %s has rank_enabled=%d rank_min=%d, specified %d / %d (the MINIMUM rank of its processes)", l->name, l->rank_enabled, l->rank_min, ml->ranked, ml->rank_min);
		if (!l->is_init) FAIL("loom %s is not initialised after system_init", l->name);
		if (l->clock_offset != 0) FAIL("loom %s has a clock offset without offset table", l->name);
		if (l->nprocs != (size_t) ml->np || HASH_COUNT(l->procs) != (unsigned) ml->np) FAIL("loom %s has %zu processes, specified %d", l->name, l->nprocs, ml->np);
		if (l->ncpus != (size_t) ml->nc || HASH_COUNT(l->cpus) != (unsigned) ml->nc) FAIL("loom %s has %zu physical CPUs, specified %d (the union of its threads' CPU lists)", l->name, l->ncpus, ml->nc);
		if (find_loom(sys, ml->name) != l) FAIL("find_loom(\"%s\") does not return that loom", ml->name);
		struct proc *p = l->procs;
		for (int a = 0; a < ml->np; a++, p = p->hh.next, gp = gp->gnext) {
			const struct mproc *mp = &ml->p[a];
			if (p == NULL) FAIL("the process table of loom %s ends early", l->name);
			if (p->pid != mp->pid) FAIL("process %d of loom %s has PID %d, specified %d (processes ordered %s)", a, l->name, p->pid, mp->pid, ml->ranked ? "by rank" : "by PID");
			if (gp != p) FAIL("the global process list does not hold process %d of loom %s at position %" PRIi64, mp->pid, l->name, ip);
			if (p->gindex != ip) FAIL("process %d of loom %s has global index %" PRIi64 ", specified %" PRIi64, mp->pid, l->name, p->gindex, ip);
			if (p->appid != mp->app || p->rank != mp->rank || p->nranks != mp->nranks) FAIL("process %d ends with appid=%d rank=%d nranks=%d, the merge of its streams is %d / %d / %d", mp->pid, p->appid, p->rank, p->nranks, mp->app, mp->rank, mp->nranks);
			if (p->loom != l || !p->is_init) FAIL("process %d does not point to its loom or is not initialised", mp->pid);
			if (loom_find_proc(l, mp->pid) != p) FAIL("loom_find_proc(%s, %d) does not return that process", l->name, mp->pid);
			if (p->nthreads != mp->nth || HASH_COUNT(p->threads) != (unsigned) mp->nth) FAIL("process %d has %d threads, specified %d", mp->pid, p->nthreads, mp->nth);
			struct thread *t = p->threads;
			for (int x = 0; x < mp->nth; x++, t = t->hh.next, gt = gt->gnext) {
				if (t == NULL) FAIL("the thread table of process %d ends early", mp->pid);
				if (t->tid != mp->th[x].tid) FAIL("thread %d of process %d has TID %d, specified %d (threads ordered by TID)", x, mp->pid, t->tid, mp->th[x].tid);
				if (gt != t) FAIL("the global thread list does not hold thread %d at position %" PRIi64 " (looms, then processes, then threads, each in its documented order)", t->tid, it);
				if (t->gindex != it) FAIL("thread %d has global index (output row) %" PRIi64 ", specified %" PRIi64, t->tid, t->gindex, it);
				if (t->proc != p || !t->is_init) FAIL("thread %d does not point to its process or is not initialised", t->tid);
				if (t->state != TH_ST_UNKNOWN || t->cpu != NULL) FAIL("thread %d does not start in the unknown state without CPU", t->tid);
				char id[64]; snprintf(id, sizeof(id), "thread.%d", t->tid);
				if (strcmp(t->id, id) != 0) FAIL("thread %d has id \"%.40s\"", t->tid, t->id);
				if (proc_find_thread(p, t->tid) != t || loom_find_thread(l, t->tid) != t) FAIL("proc_find_thread / loom_find_thread do not find thread %d", t->tid);
				char owner[64], prefix[64]; snprintf(owner, sizeof(owner), "thread %d", t->tid); snprintf(prefix, sizeof(prefix), "thread%" PRIi64 ".", it);
				for (int c = 0; c < TH_CHAN_MAX; c++) if (check_chan(&t->chan[c], prefix, c == TH_CHAN_TID, owner)) return 1;
				for (int c = 0; c < TH_CHAN_MAX; c++) for (int e = c + 1; e < TH_CHAN_MAX; e++) if (strcmp(t->chan[c].name, t->chan[e].name) == 0) FAIL("two channels of thread %d have the same name", t->tid);
				/* the stream of this thread maps back to (loom, process, thread), and the thread holds ITS stream's document */
				int found = 0;
				for (int k = 0; k < sc->n; k++) if (&sc->s[perm[k]] == mp->th[x].d) {
					struct lpt *lpt = system_get_lpt(&streams[k]); found = 1;
					if (!lpt || lpt->loom != l || lpt->proc != p || lpt->thread != t || lpt->stream != &streams[k]) FAIL("the stream %s does not map to its own loom / process / thread", streams[k].relpath);
					if (t->meta != streams[k].meta) FAIL("thread %d does not hold the metadata document of its own stream", t->tid);
					if (streams[k].clock_offset != 0) FAIL("stream %s got a clock offset without offset table", streams[k].relpath);
				}
				if (!found) FAIL("driver: stream of thread %d not found", t->tid);
				lastt = t; it++;
			}
			if (t != NULL) FAIL("the thread table of process %d holds more threads than specified", mp->pid);
			for (int q = -2; q <= 400; q++) { int is = 0; for (int x = 0; x < mp->nth; x++) if (mp->th[x].tid == q) is = 1; if (!is && proc_find_thread(p, q) != NULL) FAIL("proc_find_thread finds TID %d that is not in process %d", q, mp->pid); }
			lastp = p; ip++;
		}
		if (p != NULL) FAIL("the process table of loom %s holds more processes than specified", l->name);
		for (int q = -2; q <= 400; q++) {
			int isp = 0, ist = 0;
			for (int a = 0; a < ml->np; a++) { if (ml->p[a].pid == q) isp = 1; for (int x = 0; x < ml->p[a].nth; x++) if (ml->p[a].th[x].tid == q) ist = 1; }
			if (!isp && loom_find_proc(l, q) != NULL) FAIL("loom_find_proc finds PID %d that is not in loom %s", q, l->name);
			if (!ist && loom_find_thread(l, q) != NULL) FAIL("loom_find_thread finds TID %d that is not in loom %s", q, l->name);
		}
		struct cpu *c = l->cpus;
		for (int a = 0; a < ml->nc; a++, c = c->hh.next, gc = gc->next) {
			if (c == NULL) FAIL("the CPU table of loom %s ends early", l->name);
			if (gc != c) FAIL("the global CPU list does not hold the CPU with physical id %d of loom %s at position %" PRIi64 " (CPUs by physical id, virtual CPU last)", ml->cphy[a], l->name, ic);
			if (check_cpu(c, l, i, ic, ml->cidx[a], ml->cphy[a], 0)) return 1;
			if (loom_get_cpu(l, ml->cidx[a]) != c) FAIL("loom_get_cpu(%s, %d) is not the CPU with that logical index", l->name, ml->cidx[a]);
			if (loom_find_cpu(l, ml->cphy[a]) != c) FAIL("loom_find_cpu(%s, %d) is not the CPU with that physical id", l->name, ml->cphy[a]);
			lastc = c; ic++; nphy++;
		}
		if (c != NULL) FAIL("the CPU table of loom %s holds more CPUs than specified", l->name);
		if (gc != &l->vcpu) FAIL("the virtual CPU of loom %s is not at position %" PRIi64 " of the global CPU list (after the loom's physical CPUs)", l->name, ic);
		if (check_cpu(&l->vcpu, l, i, ic, -1, -1, 1)) return 1;
		if (loom_get_cpu(l, -1) != &l->vcpu || loom_get_cpu(l, ml->nc) != NULL || loom_get_cpu(l, -2) != NULL) FAIL("loom_get_cpu(%s) is wrong on -1 / out-of-range indices", l->name);
		lastc = &l->vcpu; gc = gc->next; ic++;
		lastl = l;
	}
	if (l != NULL) FAIL("the loom list holds more looms than specified");
	if (gp != NULL || gt != NULL || gc != NULL) FAIL("a global list holds more elements than the hierarchy");
	if (sys->nprocs != (size_t) ip || sys->nthreads != (size_t) it || sys->ncpus != (size_t) ic || sys->nphycpus != (size_t) nphy) FAIL("the system counts %zu processes, %zu threads, %zu CPUs (%zu physical), specified %" PRIi64 ", %" PRIi64 ", %" PRIi64 " (%" PRIi64 ")", sys->nprocs, sys->nthreads, sys->ncpus, sys->nphycpus, ip, it, ic, nphy);
	if ((sys->cpus && sys->cpus->prev != lastc) || (sys->threads && sys->threads->gprev != lastt) || (sys->procs && sys->procs->gprev != lastp) || (sys->looms && sys->looms->prev != lastl)) FAIL("a global list is not a well-formed utlist (head->prev is not the last element)");
	if (find_loom(sys, "no-such-loom") != NULL || find_loom(sys, "") != NULL) FAIL("find_loom finds a loom that does not exist");
	for (int i = 0; i < m->nl; i++) { char longer[128]; snprintf(longer, sizeof(longer), "%s~", m->l[i].name); if (find_loom(sys, longer) != NULL) FAIL("find_loom(\"%s\") finds a loom although only \"%s\" exists (names must match exactly)", longer, m->l[i].name); }
	/* streams that are not thread streams are ignored */
	for (int k = 0; k < sc->n; k++) if (sc->s[perm[k]].part == 0 && system_get_lpt(&streams[k]) != NULL) FAIL("a stream that is not a thread stream got a loom / process / thread");
	if (sys->args == NULL) FAIL("system_init lost the emulator arguments");
	return 0;
}

static struct emu_args args;
static int run_scen(const struct scen *sc, const int *perm)
{
	static struct system sys;
	if (build_trace(sc, perm) != 0) return 1;
	struct msys m; model(sc, &m);
	memset(&sys, 0x5a, sizeof(sys));
	n_err = 0;
	jmp_buf jb; int died = 0, r = -2;
	replay_die_jmp = &jb;
	if (setjmp(jb) == 0) r = system_init(&sys, &args, &trace); else died = 1;
	replay_die_jmp = NULL;
	int bad = 0;
	if (sc->legal) {
		if (died) { snprintf(why, sizeof(why), "the emulator died on a consistent trace"); bad = 1; }
		else if (r != 0) { snprintf(why, sizeof(why), "system_init returned %d on a consistent trace (it must be accepted whatever the stream order)", r); bad = 1; }
		else bad = check_system(&sys, &m, sc, perm);
	} else if (!died) {
		if (r == 0) { snprintf(why, sizeof(why), "system_init ACCEPTED the trace (returned 0), specified: refused with an error message"); bad = 1; }
		else if (r != -1) { snprintf(why, sizeof(why), "system_init returned %d", r); bad = 1; }
		else if (n_err == 0) { snprintf(why, sizeof(why), "system_init refused the trace without any error message"); bad = 1; }
	}
	free_trace(sc->n);
	return bad;
}
static void show(const struct scen *sc, const int *perm)
{
	printf(" [trace: %s; %s; stream order:", sc->what, sc->legal ? "consistent" : "must be refused");
	for (int k = 0; k < sc->n; k++) printf(" %s/proc.%d/thread.%d", sc->s[perm[k]].loom, sc->s[perm[k]].pid, sc->s[perm[k]].tid);
	printf("]\n");
}
static int next_perm(int *p, int n)
{
	int i = n - 2; while (i >= 0 && p[i] > p[i + 1]) i--;
	if (i < 0) return 0;
	int j = n - 1; while (p[j] < p[i]) j--;
	int t = p[i]; p[i] = p[j]; p[j] = t;
	for (int a = i + 1, b = n - 1; a < b; a++, b--) { t = p[a]; p[a] = p[b]; p[b] = t; }
	return 1;
}

/* ------------------------------------------------------------------ unit facts */
static int units(void)
{
	/* cpu_init_begin: a clean CPU with exactly the identity given */
	static const int ids[][3] = {{0, 0, 0}, {3, 17, 0}, {-1, -1, 1}, {5, 2, 0}, {0, 255, 0}};
	for (unsigned i = 0; i < sizeof(ids) / sizeof(ids[0]); i++) {
		struct cpu *c = malloc(sizeof(*c)), *e = calloc(1, sizeof(*e)); memset(c, 0x5a, sizeof(*c));
		cpu_init_begin(c, ids[i][0], ids[i][1], ids[i][2]);
		e->index = ids[i][0]; e->phyid = ids[i][1]; e->is_virtual = ids[i][2]; e->gindex = -1;
		if (c->index != e->index || c->phyid != e->phyid || c->is_virtual != e->is_virtual || c->gindex != -1) FAIL("cpu_init_begin(index %d, phyid %d, virtual %d) gives (index %d, phyid %d, virtual %d, gindex %" PRIi64 "), specified the identity given and no global index (-1)", ids[i][0], ids[i][1], ids[i][2], c->index, c->phyid, c->is_virtual, c->gindex);
		if (memcmp(c, e, sizeof(*c)) != 0) FAIL("cpu_init_begin does not start a clean CPU (a field other than index / phyid / is_virtual / gindex is not zero)");
		free(c); free(e);
	}
	/* thread_set_gindex writes only the index */
	{
		struct thread *t = malloc(sizeof(*t)), *e = malloc(sizeof(*e)); memset(t, 0x33, sizeof(*t)); memcpy(e, t, sizeof(*t));
		static const int64_t gs[] = {0, 7, 123456789012345LL, -1};
		for (unsigned i = 0; i < 4; i++) { thread_set_gindex(t, gs[i]); e->gindex = gs[i]; if (t->gindex != gs[i]) FAIL("thread_set_gindex(%" PRIi64 ") leaves gindex %" PRIi64, gs[i], t->gindex); if (memcmp(t, e, sizeof(*t)) != 0) FAIL("thread_set_gindex writes something else than the global index"); }
		free(t); free(e);
	}
	/* loom_init_begin */
	{
		static const char *names[][2] = {{"node1.0", "node1"}, {"node1", "node1"}, {"a.b.c", "a"}, {"x", "x"}, {"host-7.123.tail", "host-7"}};
		for (unsigned i = 0; i < sizeof(names) / sizeof(names[0]); i++) {
			struct loom *l = malloc(sizeof(*l)); memset(l, 0x5a, sizeof(*l)); n_err = 0;
			int r = loom_init_begin(l, names[i][0]);
			if (r != 0) FAIL("loom_init_begin(\"%s\") refused a valid loom name", names[i][0]);
			if (strcmp(l->name, names[i][0]) != 0 || l->id != l->name) FAIL("loom_init_begin(\"%s\"): name \"%.40s\" / id not the name", names[i][0], l->name);
			if (strcmp(l->hostname, names[i][1]) != 0) FAIL("loom_init_begin(\"%s\"): host name \"%.40s\", specified \"%s\"", names[i][0], l->hostname, names[i][1]);
			if (l->rank_min != INT_MAX || l->rank_enabled != 0 || l->is_init != 0 || l->nprocs != 0 || l->ncpus != 0 || l->procs != NULL || l->cpus != NULL || l->cpus_array != NULL || l->clock_offset != 0 || l->next != NULL || l->prev != NULL || l->gindex != 0) FAIL("loom_init_begin(\"%s\") does not start an empty loom without rank information", names[i][0]);
			if (l->vcpu.index != -1 || l->vcpu.phyid != -1 || l->vcpu.is_virtual != 1 || l->vcpu.loom != l || l->vcpu.gindex != -1 || l->vcpu.is_init != 0 || l->vcpu.nthreads != 0) FAIL("loom_init_begin(\"%s\"): the virtual CPU is not the clean CPU (-1, -1, virtual) of this loom", names[i][0]);
			free(l);
		}
		struct loom *l = malloc(sizeof(*l)); memset(l, 0, sizeof(*l)); n_err = 0;
		if (loom_init_begin(l, "bad/name") == 0 || n_err == 0) FAIL("loom_init_begin accepts a loom name with '/' (or refuses it silently)");
		char *lng = malloc(PATH_MAX + 10); memset(lng, 'n', PATH_MAX + 9); lng[PATH_MAX + 9] = 0; n_err = 0;
		if (loom_init_begin(l, lng) == 0 || n_err == 0) FAIL("loom_init_begin accepts a loom name longer than PATH_MAX (or refuses it silently)");
		lng[PATH_MAX - 1] = 0; n_err = 0;
		if (loom_init_begin(l, lng) != 0 || strlen(l->name) != PATH_MAX - 1) FAIL("loom_init_begin refuses a loom name of PATH_MAX-1 characters");
		free(lng); free(l);
	}
	/* thread_init_end: accepted exactly when the global index and the metadata are there */
	for (int gi = 0; gi < 2; gi++) for (int hm = 0; hm < 2; hm++) {
		struct thread *t = malloc(sizeof(*t)); JSON_Value *v = json_value_init_object();
		if (thread_init_begin(t, 42) != 0) FAIL("thread_init_begin refused");
		if (gi) thread_set_gindex(t, 5); if (hm) t->meta = json_value_get_object(v);
		memset(t->chan, 0x11, sizeof(t->chan)); struct thread *e = malloc(sizeof(*e)); memcpy(e, t, sizeof(*t));
		n_err = 0; int r = thread_init_end(t);
		if ((r == 0) != (gi && hm)) FAIL("thread_init_end returned %d for a thread %s global index and %s metadata", r, gi ? "with" : "WITHOUT", hm ? "with" : "WITHOUT");
		if (r != 0 && (r != -1 || n_err == 0 || memcmp(t, e, sizeof(*t)) != 0)) FAIL("thread_init_end refused without diagnostic or after touching the thread");
		if (r == 0) {
			if (t->is_init != 1 || t->gindex != 5 || t->tid != 42) FAIL("thread_init_end does not mark the thread initialised");
			for (int c = 0; c < TH_CHAN_MAX; c++) if (check_chan(&t->chan[c], "thread5.", c == TH_CHAN_TID, "thread 42")) return 1;
		}
		json_value_free(v); free(t); free(e);
	}
	/* cpu_init_end / set_name */
	for (int gi = 0; gi < 2; gi++) for (int hl = 0; hl < 2; hl++) for (int virt = 0; virt < 2; virt++) {
		struct cpu *c = malloc(sizeof(*c)); static struct loom lm; memset(&lm, 0, sizeof(lm)); lm.gindex = 12; strcpy(lm.name, "unit.loom");
		cpu_init_begin(c, virt ? -1 : 3, virt ? -1 : 45, virt);
		if (gi) cpu_set_gindex(c, 77); if (hl) cpu_set_loom(c, &lm);
		memset(c->chan, 0x11, sizeof(c->chan)); memset(c->name, 'Z', 64); struct cpu *e = malloc(sizeof(*e)); memcpy(e, c, sizeof(*c));
		n_err = 0; int r = cpu_init_end(c);
		if ((r == 0) != (gi && hl)) FAIL("cpu_init_end returned %d for a CPU %s global index and %s loom", r, gi ? "with" : "WITHOUT", hl ? "with" : "WITHOUT");
		if (r != 0 && (r != -1 || n_err == 0 || memcmp(c, e, sizeof(*c)) != 0)) FAIL("cpu_init_end refused without diagnostic or after touching the CPU");
		if (r == 0 && check_cpu(c, &lm, 12, 77, virt ? -1 : 3, virt ? -1 : 45, virt)) return 1;
		free(c); free(e);
	}
	/* loom_init_end: refusals and the index table */
	{
		static const struct { int re, rmin, np, nc, idx[3]; int ok; const char *what; } t[] = {
			{0, INT_MAX, 1, 3, {2, 0, 1}, 1, "three CPUs with indices 2,0,1"}, {1, 4, 1, 1, {0}, 1, "rank information and rank_min set"},
			{1, INT_MAX, 1, 1, {0}, 0, "rank information but rank_min never set"}, {0, INT_MAX, 1, 0, {0}, 0, "no physical CPU"},
			{0, INT_MAX, 0, 1, {0}, 0, "no process"}, {0, INT_MAX, 1, 2, {0, 2}, 0, "a CPU index beyond the CPU count"},
			{0, INT_MAX, 1, 2, {1, 1}, 0, "two CPUs with the same index"}, {0, INT_MAX, 1, 2, {1, 0}, 1, "two CPUs with indices 1,0"}};
		for (unsigned i = 0; i < sizeof(t) / sizeof(t[0]); i++) {
			struct loom *l = malloc(sizeof(*l)); if (loom_init_begin(l, "unit.loom") != 0) FAIL("loom_init_begin refused");
			struct cpu *cs[3] = {0};
			for (int k = 0; k < t[i].nc; k++) { cs[k] = calloc(1, sizeof(struct cpu)); cpu_init_begin(cs[k], t[i].idx[k], 10 + k, 0); if (loom_add_cpu(l, cs[k]) != 0) FAIL("loom_add_cpu refused a new CPU"); }
			struct proc *p = calloc(1, sizeof(*p));
			if (t[i].np) { if (proc_init_begin(p, 9) != 0 || loom_add_proc(l, p) != 0) FAIL("loom_add_proc refused a new process"); }
			l->rank_enabled = t[i].re; l->rank_min = t[i].rmin; n_err = 0;
			int r = loom_init_end(l);
			if ((r == 0) != t[i].ok) FAIL("loom_init_end returned %d on a loom with %s (specified: %s)", r, t[i].what, t[i].ok ? "accepted" : "refused");
			if (r != 0 && (r != -1 || n_err == 0 || l->is_init)) FAIL("loom_init_end refused (%s) without diagnostic, or left the loom marked initialised", t[i].what);
			if (r == 0) {
				if (!l->is_init || l->ncpus != (size_t) t[i].nc || l->nprocs != 1) FAIL("loom_init_end (%s) does not mark the loom initialised / changes its counts", t[i].what);
				for (int k = 0; k < t[i].nc; k++) if (loom_get_cpu(l, t[i].idx[k]) != cs[k] || cs[k]->index != t[i].idx[k] || cs[k]->phyid != 10 + k) FAIL("after loom_init_end (%s) loom_get_cpu(%d) is not the CPU with that logical index", t[i].what, t[i].idx[k]);
				if (l->rank_min != t[i].rmin || l->rank_enabled != t[i].re) FAIL("loom_init_end changed the rank information");
			}
			free(l->cpus_array); for (int k = 0; k < 3; k++) free(cs[k]); free(p); free(l);
		}
	}
	return 0;
}

int main(void)
{
	setvbuf(stdout, NULL, _IONBF, 0);
	(void) system("rm -rf a5replay-c15-trace && mkdir -p a5replay-c15-trace");   /* no clock-offsets.txt: an empty offset table */
	memset(&args, 0, sizeof(args)); args.tracedir = "a5replay-c15-trace";
	if (units()) { printf("REPRODUCED %s\n", why); return 1; }
	int runs = 0;
	for (int i = 0; i < NCORPUS; i++) {
		const struct scen *sc = &corpus[i];
		int perm[MAXS]; for (int k = 0; k < sc->n; k++) perm[k] = k;
		if (sc->n <= 4) {
			do { runs++; if (run_scen(sc, perm)) { printf("REPRODUCED %s", why); show(sc, perm); return 1; } } while (next_perm(perm, sc->n));
		} else {
			for (int rot = 0; rot < 2 * sc->n; rot++) {
				for (int k = 0; k < sc->n; k++) perm[k] = rot < sc->n ? (k + rot) % sc->n : (sc->n - 1 - k + rot) % sc->n;
				runs++; if (run_scen(sc, perm)) { printf("REPRODUCED %s", why); show(sc, perm); return 1; }
			}
		}
	}
	(void) system("rm -rf a5replay-c15-trace");
	printf("not reproduced: the hierarchy, its order, the global indices and every refusal are as specified on %d traces x stream orders (%d runs) and the unit facts hold\n", NCORPUS, runs);
	return 0;
}
