#define REPLAY_OP 4
#include "c15_proc_replay.h"
