/* C12 native replay of the stream_step clock arithmetic: a stream with one event
 * whose clock is W_RAWCLK, stream clock offset W_CLKOFF, last clock W_LAST.
 * Built by bin/vcheck with -fsanitize=address,undefined -fno-sanitize-recover:
 * a signed overflow in stream_evclock / stream_step aborts (exit != 0). */
#include <unistd.h>
#include <stdio.h>
#include <stdlib.h>
#include <string.h>
#include <stdint.h>
#include <time.h>
#include <fcntl.h>
#include <dirent.h>
#include <sys/stat.h>
#include <sys/mman.h>
#include <errno.h>
#include <ctype.h>
#include <limits.h>
#include <inttypes.h>
#include <math.h>
#include "common.c"
#include "parson.c"
#include "path.c"
#include "ovni.c"
#include "stream.c"
#ifndef W_RAWCLK
#define W_RAWCLK 0x7fffffffffffffffUL
#endif
#ifndef W_CLKOFF
#define W_CLKOFF 1
#endif
#ifndef W_LAST
#define W_LAST 0
#endif
#ifndef W_UNSORTED
#define W_UNSORTED 0
#endif
int main(void)
{
	static struct stream s;
	static uint8_t buf[8 + 12];
	memcpy(buf, "ovni", 4); buf[4] = 1;
	struct ovni_ev ev; memset(&ev, 0, sizeof(ev));
	ev.header.model = 'O'; ev.header.category = 'U'; ev.header.value = '[';
	ev.header.clock = (uint64_t) W_RAWCLK;
	memcpy(buf + 8, &ev, 12);
	s.buf = buf; s.size = sizeof(buf); s.offset = 8; s.active = 1;
	s.clock_offset = (int64_t) W_CLKOFF; s.lastclock = (int64_t) W_LAST; s.unsorted = W_UNSORTED;
	int r = stream_step(&s);
	printf("stream_step returned %d lastclock=%ld deltaclock=%ld\n", r, (long) s.lastclock, (long) s.deltaclock);
	return 0;
}
