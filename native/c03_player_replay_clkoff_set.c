#define REPLAY_OP 3
#include "c03_player_replay.h"
