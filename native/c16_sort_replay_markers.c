#define REPLAY_OP 5
#include "c16_sort_replay.h"
