#define REPLAY_OP 3
#include "c06_chan_replay.h"
