#define REPLAY_OP 0
#include "c03_system_replay.h"
