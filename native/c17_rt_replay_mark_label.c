#define REPLAY_OP 1
#include "c17_rt_replay.h"
