#!/usr/bin/env python3
"""C20 demo: nOS-V breakdown view (-b), one loom with 3 physical CPUs.

CPU 0 runs task 1, which pauses; while it is paused a nested task 2 runs and
ENDS on the same thread (no API subsystem events around them, as in a trace
taken with a low instrumentation level), so the subsystem of the CPU goes
back to "Task: In body" while NO task body is running (task 1 is still
paused).  At that instant the CPU is not inside a running body, hence its
breakdown value must be the subsystem ("Task: In body" = 11), not a task
type and certainly not 0.  The other two CPUs provide a resting CPU and a CPU
inside another task so that the sorted rows are non trivial.

At every queried instant the rows of nosv-breakdown.prv must be the sorted
multiset of the per-CPU values given by the reference model (bdref.py)."""
import os, sys
sys.path.insert(0, os.path.dirname(os.path.abspath(__file__)))
from bdref import *

build, tmp = sys.argv[1], sys.argv[2]

t0 = [
    (10, "run", 0),
    (20, "type", 1, "alpha"),
    (22, "type", 2, "omega"),
    (30, "task", 1, 1),
    (32, "task", 2, 2),
    (34, "task", 3, 2),
    (100, "push", "worker"),
    (200, "exec", 1),
    (250, "tpause", 1),
    (300, "exec", 2),       # nested over the paused task 1
    (400, "fini", 2),       # subsystem back to "in body", no body running
    (500, "tresume", 1),
    (600, "fini", 1),
    (700, "pop", "worker"),
    (900, "end"),
]
t1 = [
    (11, "run", 1),
    (150, "idle", "r"),
    (550, "idle", "p"),
    (901, "end"),
]
t2 = [
    (12, "run", 2),
    (120, "push", "worker"),
    (350, "exec", 3),
    (650, "fini", 3),
    (750, "pop", "worker"),
    (902, "end"),
]

looms = [dict(name="node0", ncpus=3,
              procs=[dict(pid=100, threads=[(100, t0), (101, t1), (102, t2)])])]

# Not queried: [250,300) and [500,600), i.e. right after task 1 pauses/resumes
# and before the subsystem of the CPU changes again: there the unmodified
# emulator does not re-evaluate the subsystem/task-type selection (it shows 0
# resp. 11), which is unrelated to the regression demonstrated here.
times = [60, 210, 260, 290, 310, 410, 510, 560, 590, 610]

sys.exit(check_breakdown(build, tmp, "nosv", looms, times, "nosv 3 cpus", 10))
