"""Scenario description + independent reference model of the breakdown view.

A scenario is a list of looms; each loom has a name, a number of CPUs and a
list of processes; each process has threads; each thread has a list of
(clock, op, args...) tuples.  Supported ops (model-independent names):

  ("run", cpu)            thread starts running on CPU index (OHx)
  ("end",)                thread ends (OHe)
  ("type", id, label)     create task type
  ("task", id, typeid)    create task
  ("exec", taskid)        task body starts
  ("fini", taskid)        task body ends
  ("tpause", taskid)      task body pauses
  ("tresume", taskid)     task body resumes
  ("push", name)          enter runtime subsystem `name`
  ("pop", name)           leave runtime subsystem `name`
  ("idle", "p"|"r"|"a")   progress state Progressing/Resting/Absorbing
"""
import os
from mktrace import *

PROGRESSING, RESTING, ABSORBING = 100, 101, 102

MODELS = {
    "nosv": dict(
        m="V", body=11, unknown=2, prvtype=17, trace="nosv-breakdown",
        ss={"submit": ("VAs", "VAS", 14), "pause": ("VAp", "VAP", 15),
            "create": ("VAr", "VAR", 12), "serving": ("VS[", "VS]", 7),
            "worker": ("VHw", "VHW", 28)},
        meta={"nosv": {"can_breakdown": True, "lib_version": "3.0.0"}},
    ),
    "nanos6": dict(
        m="6", body=1, unknown=2, prvtype=41, trace="nanos6-breakdown",
        ss={"submit": ("6U[", "6U]", 4), "create": ("6C[", "6C]", 3),
            "worker": ("6W[", "6W]", 19), "adding": ("6Sa", "6SA", 7),
            "taskwait": ("6Bw", "6BW", 12)},
        meta={},
    ),
}


def encode(model, clock, op):
    M = MODELS[model]
    m = M["m"]
    k = op[0]
    if k == "run":
        return ohx(clock, op[1])
    if k == "end":
        return ev(clock, "OHe")
    if k == "type":
        return jumbo(clock, m + "Yc", u32(op[1]) + op[2].encode() + b"\0")
    if k == "task":
        return ev(clock, m + "Tc", u32(op[1], op[2]))
    if k in ("exec", "fini", "tpause", "tresume"):
        v = {"exec": "x", "fini": "e", "tpause": "p", "tresume": "r"}[k]
        if model == "nosv":
            return ev(clock, m + "T" + v, u32(op[1], 0))
        return ev(clock, m + "T" + v, u32(op[1]))
    if k == "push":
        return ev(clock, M["ss"][op[1]][0])
    if k == "pop":
        return ev(clock, M["ss"][op[1]][1])
    if k == "idle":
        return ev(clock, m + "P" + op[1])
    raise ValueError(k)


def write_scenario(root, model, looms):
    for loom in looms:
        procs = []
        for p in loom["procs"]:
            ths = []
            for tid, evs in p["threads"]:
                t = Thread(tid, dict(MODELS[model]["meta"]))
                for e in evs:
                    t.add(encode(model, e[0], e[1:]))
                ths.append(t)
            procs.append(dict(pid=p["pid"], appid=1, rank=p.get("rank"),
                              nranks=p.get("nranks", 0), threads=ths))
        write_trace(root, loom["name"], loom["ncpus"], procs, models=(model,))


def reference(model, looms, gid_of_label, times):
    """Returns for each clock in `times` the sorted list of the per-physical
    CPU breakdown values right after all events with clock <= t."""
    M = MODELS[model]
    allev = []
    cpus = []
    for li, loom in enumerate(looms):
        for c in range(loom["ncpus"]):
            cpus.append((li, c))
        for p in loom["procs"]:
            for tid, evs in p["threads"]:
                for e in evs:
                    allev.append((e[0], li, p["pid"], tid, e[1:]))
    allev.sort(key=lambda x: x[0])
    clocks = [e[0] for e in allev]
    assert len(set(clocks)) == len(clocks), "use distinct clocks"

    th = {}      # (li,pid,tid) -> state
    types = {}   # (li,pid,typeid) -> label
    tasks = {}   # (li,pid,taskid) -> typeid

    def value(cpu):
        run = [s for s in th.values() if s["run"] and s["cpu"] == cpu]
        if len(run) != 1:
            assert len(run) == 0
            return RESTING
        s = run[0]
        if s["idle"] != PROGRESSING:
            return s["idle"]
        if not s["ss"]:
            return M["unknown"]
        if s["ss"][-1] == M["body"] and s["tt"] is not None:
            return s["tt"]
        return s["ss"][-1]

    out = []
    i = 0
    for tq in times:
        while i < len(allev) and allev[i][0] <= tq:
            _, li, pid, tid, op = allev[i]
            i += 1
            s = th.setdefault((li, pid, tid), dict(run=0, cpu=None, ss=[],
                              tt=None, idle=PROGRESSING))
            k = op[0]
            if k == "run":
                s["run"], s["cpu"] = 1, (li, op[1])
            elif k == "end":
                s["run"] = 0
            elif k == "type":
                types[(li, pid, op[1])] = op[2]
            elif k == "task":
                tasks[(li, pid, op[1])] = op[2]
            elif k in ("exec", "tresume"):
                if k == "exec":
                    s["ss"].append(M["body"])
                s["tt"] = gid_of_label[types[(li, pid, tasks[(li, pid, op[1])])]]
            elif k in ("fini", "tpause"):
                if k == "fini":
                    assert s["ss"].pop() == M["body"]
                s["tt"] = None
            elif k == "push":
                s["ss"].append(M["ss"][op[1]][2])
            elif k == "pop":
                assert s["ss"].pop() == M["ss"][op[1]][2]
            elif k == "idle":
                s["idle"] = {"p": PROGRESSING, "r": RESTING, "a": ABSORBING}[op[1]]
        out.append(sorted(value(c) for c in cpus))
    return out


def check_breakdown(build, tmp, model, looms, times, name, t0):
    """Runs ovniemu -b and compares the breakdown rows with the reference at
    each clock of `times`.  Returns 0 if the property holds."""
    M = MODELS[model]
    root = os.path.join(tmp, name, "ovni")
    write_scenario(root, model, looms)
    rc, out = run_emu(build, root, "-b")
    if rc != 0:
        print("FAIL[%s]: ovniemu -b failed (exit %d)" % (name, rc))
        print("\n".join([l for l in out.split("\n")
                         if "ERROR" in l and "panic" not in l][:6]))
        return 1
    base = os.path.join(root, M["trace"])
    prv = read_prv(base + ".prv")
    lab = pcf_labels(base + ".pcf", M["prvtype"])
    ncpus = sum(l["ncpus"] for l in looms)
    ref = reference(model, looms, lab, times)
    fail = 0
    # Number of rows declared in the PRV header / .row file
    nrows = len([l for l in open(base + ".row").read().split("\n")
                 if l.startswith("~CPU")])
    if nrows != ncpus:
        print("FAIL[%s]: breakdown trace has %d rows for %d physical CPUs"
              % (name, nrows, ncpus))
        fail = 1
    for tq, exp in zip(times, ref):
        got = [timeline(prv, r + 1, M["prvtype"], [tq - t0])[0]
               for r in range(ncpus)]
        ok = (got == exp)
        if not ok:
            fail = 1
        print("%s[%s] clock %4d rows=%s expected=%s"
              % ("ok  " if ok else "FAIL", name, tq, got, exp))
    return fail
