"""Tiny writer of ovni runtime traces (trace spec v3, binary stream v1)."""
import json, os, struct

OVNI_VER = "1.1.0"
MODEL_VER = {"nosv": "2.4.0", "nanos6": "1.1.0"}


def ev(clock, mcv, payload=b""):
    assert len(mcv) == 3
    n = len(payload)
    assert n == 0 or 2 <= n <= 16
    size = 0 if n == 0 else n - 1
    return struct.pack("<B3sQ", size, mcv.encode(), clock) + payload


def jumbo(clock, mcv, data):
    return (struct.pack("<B3sQ", 0x10 | 0x3, mcv.encode(), clock)
            + struct.pack("<I", len(data)) + data)


def u32(*a):
    return struct.pack("<%dI" % len(a), *a)


def ohx(clock, cpu, creator=-1, tag=0):
    return ev(clock, "OHx", struct.pack("<iiQ", cpu, creator, tag))


class Thread:
    def __init__(self, tid, meta_extra=None):
        self.tid = tid
        self.events = []
        self.meta_extra = meta_extra or {}

    def add(self, b):
        self.events.append(b)
        return self


def write_trace(root, loom, ncpus, procs, models=("nosv",)):
    """procs: list of dicts {pid, appid, rank (or None), nranks, threads:[Thread]}"""
    first = True
    for p in procs:
        for th in p["threads"]:
            d = os.path.join(root, "loom." + loom, "proc.%d" % p["pid"],
                             "thread.%d" % th.tid)
            os.makedirs(d)
            ovni = {
                "lib": {"version": "1.11.0", "commit": "demo"},
                "part": "thread",
                "tid": th.tid,
                "pid": p["pid"],
                "loom": loom,
                "app_id": p["appid"],
                "require": dict({"ovni": OVNI_VER},
                                **{m: MODEL_VER[m] for m in models}),
                "finished": 1,
            }
            if p.get("rank") is not None and not th.meta_extra.get("norank"):
                ovni["rank"] = p["rank"]
                ovni["nranks"] = p["nranks"]
            if first:
                ovni["loom_cpus"] = [{"index": i, "phyid": i}
                                     for i in range(ncpus)]
                first = False
            meta = {"version": 3, "ovni": ovni}
            for k, v in th.meta_extra.items():
                if k != "norank":
                    meta[k] = v
            with open(os.path.join(d, "stream.json"), "w") as f:
                json.dump(meta, f, indent=1)
            with open(os.path.join(d, "stream.obs"), "wb") as f:
                f.write(b"ovni" + struct.pack("<I", 1))
                for e in th.events:
                    f.write(e)


def read_prv(path):
    """Returns list of (time, row, type, value) for event lines."""
    out = []
    with open(path) as f:
        for line in f:
            if not line.startswith("2:"):
                continue
            a = line.strip().split(":")
            row = int(a[4])
            t = int(a[5])
            rest = a[6:]
            for i in range(0, len(rest), 2):
                out.append((t, row, int(rest[i]), int(rest[i + 1])))
    return out


def pcf_labels(path, typ):
    """Returns dict label -> value for the given PCF event type."""
    out = {}
    lines = open(path).read().split("\n")
    i = 0
    while i < len(lines):
        if lines[i].strip() == "EVENT_TYPE":
            hdr = lines[i + 1].split()
            if len(hdr) >= 2 and hdr[1] == str(typ):
                j = i + 3
                while j < len(lines) and lines[j].strip():
                    v, lab = lines[j].split(None, 1)
                    out[lab.strip()] = int(v)
                    j += 1
                return out
        i += 1
    return out


def timeline(prv, row, typ, times, initial=0):
    """State of (row, typ) right after each time in `times`,
    replaying the PRV event lines in file order."""
    evs = [(t, v) for (t, r, ty, v) in prv if r == row and ty == typ]
    res = []
    for tq in times:
        cur = initial
        for t, v in evs:
            if t <= tq:
                cur = v
        res.append(cur)
    return res


def run_emu(build, tracedir, *opts):
    import subprocess
    exe = os.path.join(build, "src", "emu", "ovniemu")
    p = subprocess.run([exe] + list(opts) + [tracedir],
                       stdout=subprocess.PIPE, stderr=subprocess.STDOUT,
                       universal_newlines=True)
    return p.returncode, p.stdout
