#!/bin/sh
# F-C20-1 on the real ovniemu: run.sh <build-dir>.  Exit 1 (with FAIL lines at clocks 260, 290, 510, 560, 590)
# shows the finding; exit 0 would mean it is gone.  The trace: CPU 0 runs task 1 (VTx), pauses it (VTp) and later
# resumes it (VTr) with no subsystem event in between, so the subsystem stays "Task: In body" while the task type
# goes away and comes back.  bdref.py is an independent reference model of the C20 statement.
set -e
here=$(cd "$(dirname "$0")" && pwd)
build=$(cd "$1" && pwd)
src=$(sed -n 's/^CMAKE_HOME_DIRECTORY:INTERNAL=//p' "$build/CMakeCache.txt")
OVNI_CONFIG_DIR="$src/cfg"; export OVNI_CONFIG_DIR
PYTHONDONTWRITEBYTECODE=1; export PYTHONDONTWRITEBYTECODE
tmp=$(mktemp -d)
trap 'rm -rf "$tmp"' EXIT
python3 "$here/history.py" "$build" "$tmp"
