/* C14 native replay of the emulator-side version gating on the REAL src/emu/model.c (with the real
 * version.h and glibc).  REPLAY_OP: 0 should_enable, 1 model_version_probe.
 * Linked with -Wl,--unresolved-symbols=ignore-all (plan "libs"): functions of other modules that the
 * replayed paths never reach stay unresolved.
 * The two parson getters the unit calls are stand-ins over a small exact key/value view of one stream's
 * metadata (outside the unit; any byte string can be a value, which real JSON text cannot carry):
 * root object { "ovni.require": <object or absent> }, require object { <key>: <string> }*.
 *
 * Witnesses, should_enable (harness/c14_model.c): W_META (the stream has metadata), W_REQUIRE (it has
 *   "ovni.require"), W_VALUE (that object names the model), the required version string W_C0..W_C15,
 *   the model's version W_HAVE0.W_HAVE1.W_HAVE2S.
 * Witnesses, model_version_probe: W_NTHREADS (streams, <= 3), W_VERSION_WF (the model's own version
 *   string is well-formed), W_V0..W_V2 (verdict per stream: -1 refused, 0 not required, 1 required and
 *   compatible) -- each verdict is realised by a concrete metadata object.
 * Specification (statement): a stream requires a model iff ovni.require names it; the requirement is
 * accepted exactly when the version string is well-formed, its major equals the model's and its minor
 * is not greater (patch ignored); malformed strings are refused; "a model is enabled in emulation
 * exactly when some stream requires it" (and the emulator refuses the trace, -1, when any stream's
 * requirement is unreadable, malformed or incompatible, or the model's own version is malformed).
 * After the witness the finite neighbourhood (corpus of strings / every verdict combination) is tried. */
#include "c14_replay_common.h"
#include "parson.h"
struct json_object_t {
	int is_root;
	struct json_object_t *require;       /* root: value of "ovni.require" or NULL */
	int n; const char *key[4]; const char *val[4];   /* require object */
};
static int r_wrong_obj;
JSON_Object *json_object_dotget_object(const JSON_Object *object, const char *name)
{
	if (object == NULL || name == NULL) return NULL;
	if (!object->is_root) { r_wrong_obj++; return NULL; }
	return strcmp(name, "ovni.require") == 0 ? object->require : NULL;
}
JSON_Object *json_object_get_object(const JSON_Object *object, const char *name)
{
	(void) name;
	if (object != NULL) r_wrong_obj++;   /* a flat lookup of "ovni.require" finds nothing in real parson either */
	return NULL;
}
const char *json_object_get_string(const JSON_Object *object, const char *name)
{
	if (object == NULL || name == NULL) return NULL;
	if (object->is_root) { r_wrong_obj++; return NULL; }
	for (int i = 0; i < object->n; i++)
		if (strcmp(object->key[i], name) == 0) return object->val[i];
	return NULL;
}
const char *json_object_dotget_string(const JSON_Object *object, const char *name)
{
	/* "ovni.require.<model>" from the root: what the real parson would find */
	if (object == NULL || name == NULL) return NULL;
	if (object->is_root && strncmp(name, "ovni.require.", 13) == 0 && object->require != NULL)
		return json_object_get_string(object->require, name + 13);
	if (!object->is_root) return json_object_get_string(object, name);
	return NULL;
}
#include "model.c"

#define R_MODEL_NAME "replaymodel"
static struct model_spec r_spec = { .name = R_MODEL_NAME, .version = "1.2.0", .model = 'R' };
static struct emu r_emu;
/* metadata of stream i: kind 0 none, 1 root without ovni.require, 2 require object without the model,
 * 3 require object naming the model with version string v */
static struct thread r_th[3];
static struct json_object_t r_root[3], r_req[3];
static void mk_stream(int i, int kind, const char *v)
{
	memset(&r_th[i], 0, sizeof(r_th[i])); memset(&r_root[i], 0, sizeof(r_root[i])); memset(&r_req[i], 0, sizeof(r_req[i]));
	snprintf(r_th[i].id, sizeof(r_th[i].id), "thread.%d", i);
	r_root[i].is_root = 1;
	r_req[i].key[r_req[i].n] = "ovni"; r_req[i].val[r_req[i].n++] = "1.0.0";
	r_req[i].key[r_req[i].n] = "othermodel"; r_req[i].val[r_req[i].n++] = "9.9.9";
	if (kind >= 3) { r_req[i].key[r_req[i].n] = R_MODEL_NAME; r_req[i].val[r_req[i].n++] = v; }
	if (kind >= 2) r_root[i].require = &r_req[i];
	r_th[i].meta = kind >= 1 ? &r_root[i] : NULL;
}
