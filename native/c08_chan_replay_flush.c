#define REPLAY_OP 4
#include "c08_chan_replay.h"
