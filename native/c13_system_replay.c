/* C13 native END-TO-END replay of the emulator-defined base timelines: the REAL src/emu/system.c
 * (system_connect), thread.c (thread_connect, thread_create_pcf_types, thread_get_affinity_pcf_type),
 * cpu.c (cpu_connect, cpu_create_pcf_types, cpu_add_to_pcf_type), recorder.c, pv/pvt.c, pv/prv.c,
 * pv/pcf.c, pv/prf.c, bay.c and chan.c in ONE program (real uthash, real libc).  Static names that
 * clash between the units are renamed by macro around each #include (no repository code is copied).
 * Linked with -Wl,--unresolved-symbols=ignore-all (plan "libs"): functions of other modules that the
 * replayed path never reaches stay unresolved.
 *
 * Witness ghosts: W_NT, W_NC (harness/c13_system.c: threads and CPUs of the system, <= 2 there),
 * W_INIT (harness/c13_thcpu.c: the thread / CPU was initialised).  The systems replayed are the
 * witness shape and then every system of 0..3 threads and 0..3 CPUs with every choice of virtual
 * CPUs (the failed obligation is usually a call-count or argument clause of a logging stub, so the
 * witness names the shape, not a failing value).
 *
 * Session: a system of NT initialised threads (gindex 0..NT-1, in list order) and NC CPUs is built
 * with the units' own init functions; system_connect(sys, bay, rec) creates the "thread" and "cpu"
 * traces; then every thread goes through every thread state and sits on every CPU of the system
 * (values pushed through the real channels and the real patch bay at increasing clocks), the CPU
 * channels receive counts / pids / tids; recorder_finish closes the traces.  The six files are parsed
 * and the statement of the property is evaluated on them:
 *   each .prv has non-decreasing timestamps, row numbers within the declared row count, a header whose
 *   duration equals the last event time, and only event types declared in the matching .pcf, where every
 *   non-zero value printed for an emulator-defined state type (thread state, CPU affinity) has a label;
 *   the .row file names exactly the declared number of rows, one per thread or CPU in the documented
 *   order (row k = the thread / CPU with global index k; "TH appid.tid", the CPU name);
 * plus: the CPU affinity value of CPU g is g + 1 and its label is that CPU's name; every thread state has
 * a label; the cpu trace declares the CPU base types.
 * exit 0: as specified (not reproduced); exit 1: mismatch (reproduced). */
#include <unistd.h>
#include <stdio.h>
#include <stdlib.h>
#include <string.h>
#include <stdint.h>
#include <stdarg.h>
#include <limits.h>
#include <inttypes.h>
#include <errno.h>
#include <sys/stat.h>
#include <sys/types.h>
int is_debug_enabled;
static int n_err;
void verr(const char *p, const char *f, const char *e, ...)
{
	if (p && strcmp(p, "ERROR") == 0) n_err++;
	if (getenv("REPLAY_VERBOSE")) { va_list ap; va_start(ap, e); fprintf(stderr, "%s %s: ", p ? p : "", f ? f : ""); vfprintf(stderr, e, ap); fputc('\n', stderr); va_end(ap); }
}
void vdie(const char *p, const char *f, const char *e, ...) { (void) p; (void) f; printf("not reproduced: the code died (%s): a legitimate refusal\n", e); exit(0); }

#include "value.h"
char value_buffers[VALUE_NBUF][VALUE_BUFSIZE];
size_t value_nextbuf;
#include "chan.c"
#include "bay.c"
#define write_header prv_write_header
#include "pv/prv.c"
#undef write_header
#define write_header pcf_write_header
#include "pv/pcf.c"
#undef write_header
#include "pv/prf.c"
#include "pv/pvt.c"
#include "recorder.c"
int cfg_generate(const char *tracedir) { (void) tracedir; return 0; }    /* pv/cfg.c: copies the Paraver configs, outside C13 */

#define chan_name th_chan_name
#define chan_type th_chan_type
#define prv_flags th_prv_flags
#define pvt_name th_pvt_name
#define chan_fmt th_chan_fmt
#define create_type th_create_type
#define create_values th_create_values
#include "thread.c"
#undef chan_name
#undef chan_type
#undef prv_flags
#undef pvt_name
#undef chan_fmt
#undef create_type
#undef create_values
#define chan_name cpu_chan_name
#define chan_type cpu_chan_type
#define prv_flags cpu_prv_flags
#define pvt_name cpu_pvt_name
#define chan_fmt cpu_chan_fmt
#include "cpu.c"
#undef chan_name
#undef chan_type
#undef prv_flags
#undef pvt_name
#undef chan_fmt
#include "loom.h"
int64_t loom_get_gindex(struct loom *loom) { return loom->gindex; }      /* loom.c, proc.c: outside C13 */
void loom_set_gindex(struct loom *loom, int64_t gindex) { loom->gindex = gindex; }
#include "proc.h"
void proc_set_gindex(struct proc *proc, int64_t gindex) { proc->gindex = gindex; }
#ifndef REPLAY_NO_SYSTEM
#include "system.c"
#endif

#ifndef W_NT
#define W_NT 2
#endif
#ifndef W_NC
#define W_NC 2
#endif
#ifndef W_INIT
#define W_INIT 1
#endif

#define R_DIR "replay_trace"
static char r_msg[1200], r_ctx[256];
static const char *r_origin = "witness";
#define FAILF(...) do { snprintf(r_msg, sizeof(r_msg), __VA_ARGS__); return r_msg; } while (0)

/* ---------- parsed output ---------- */
#define R_MAXL 4096
struct r_prv { int nhdr, nrows; long long dur; int n; long row[R_MAXL]; long long time[R_MAXL], type[R_MAXL], val[R_MAXL]; int garbage; char g[100]; };
#define R_MAXT 16
#define R_MAXV 32
struct r_pcf { int nt; int id[R_MAXT]; char label[R_MAXT][128]; int nv[R_MAXT]; int val[R_MAXT][R_MAXV]; char vlabel[R_MAXT][R_MAXV][128]; int dup; int garbage; char g[100]; };
struct r_row { int declared; int n; char name[64][128]; int garbage; };

static void parse_prv(const char *path, struct r_prv *p)
{
	memset(p, 0, sizeof(*p));
	FILE *f = fopen(path, "r");
	if (!f) { p->garbage = 1; snprintf(p->g, sizeof(p->g), "cannot open %s", path); return; }
	char line[512]; int ln = 0;
	while (fgets(line, sizeof(line), f)) {
		long long d, t, ty, v; long row; int nr, used = 0; size_t len = strlen(line);
		if (line[0] == '#' && sscanf(line, "#Paraver (19/01/38 at 03:14):%lld_ns:0:1:1(%d:1)\n%n", &d, &nr, &used) == 2 && used == (int) len) {
			if (p->nhdr++ == 0) { p->dur = d; p->nrows = nr; }
			if (ln != 0) { p->garbage++; snprintf(p->g, sizeof(p->g), "header at line %d", ln + 1); }
		} else if (sscanf(line, "2:0:1:1:%ld:%lld:%lld:%lld\n%n", &row, &t, &ty, &v, &used) == 4 && used == (int) len) {
			if (p->n < R_MAXL) { p->row[p->n] = row; p->time[p->n] = t; p->type[p->n] = ty; p->val[p->n] = v; }
			p->n++;
		} else { if (!p->garbage) snprintf(p->g, sizeof(p->g), "line %d: %.60s", ln + 1, line); p->garbage++; }
		ln++;
	}
	fclose(f);
}
/* offset of the label in a line "<number left-justified in width columns> <label>" starting at s */
static int label_off(const char *s, int width)
{
	int n = 0;
	if (s[n] == '-') n++;
	while (s[n] >= '0' && s[n] <= '9') n++;
	return (n > width ? n : width) + 1;
}
static void parse_pcf(const char *path, struct r_pcf *p)
{
	memset(p, 0, sizeof(*p));
	FILE *f = fopen(path, "r");
	if (!f) { p->garbage = 1; snprintf(p->g, sizeof(p->g), "cannot open %s", path); return; }
	char line[1024]; int state = 0, cur = -1, ln = 0;
	while (fgets(line, sizeof(line), f)) {
		ln++;
		size_t len = strlen(line); if (len && line[len - 1] == '\n') line[--len] = 0;
		if (strcmp(line, "EVENT_TYPE") == 0) { state = 1; continue; }
		if (len == 0) { if (state == 3) state = 0; continue; }
		if (state == 1) {
			int z, id, used = 0;
			if (sscanf(line, "%d %d %n", &z, &id, &used) < 2 || z != 0 || p->nt >= R_MAXT) { p->garbage++; snprintf(p->g, sizeof(p->g), "line %d: %.60s", ln, line); state = 0; continue; }
			for (int i = 0; i < p->nt; i++) if (p->id[i] == id) p->dup++;
			used = 2 + label_off(line + 2, 10); if ((size_t) used > len) used = (int) len;
			cur = p->nt++; p->id[cur] = id; snprintf(p->label[cur], sizeof(p->label[cur]), "%s", line + used);
			state = 2; continue;
		}
		if (state == 2) { if (strcmp(line, "VALUES") != 0) { p->garbage++; snprintf(p->g, sizeof(p->g), "line %d: %.60s", ln, line); } state = 3; continue; }
		if (state == 3) {
			int v, used = 0;
			if (sscanf(line, "%d %n", &v, &used) < 1 || p->nv[cur] >= R_MAXV) { p->garbage++; snprintf(p->g, sizeof(p->g), "line %d: %.60s", ln, line); continue; }
			for (int k = 0; k < p->nv[cur]; k++) if (p->val[cur][k] == v) p->dup++;
			used = label_off(line, 4); if ((size_t) used > len) used = (int) len;
			p->val[cur][p->nv[cur]] = v; snprintf(p->vlabel[cur][p->nv[cur]], sizeof(p->vlabel[0][0]), "%s", line + used); p->nv[cur]++;
		}
	}
	fclose(f);
}
static void parse_row(const char *path, struct r_row *p)
{
	memset(p, 0, sizeof(*p)); p->declared = -1;
	FILE *f = fopen(path, "r");
	if (!f) { p->garbage = 1; return; }
	char line[1024]; int ln = 0;
	static const char *fixed[] = { "LEVEL NODE SIZE 1\n", "hostname\n", "\n" };
	while (fgets(line, sizeof(line), f)) {
		if (ln < 3) { if (strcmp(line, fixed[ln]) != 0) p->garbage++; }
		else if (ln == 3) { if (sscanf(line, "LEVEL THREAD SIZE %d\n", &p->declared) != 1) p->garbage++; }
		else if (p->n < 64) { size_t len = strlen(line); if (len && line[len - 1] == '\n') line[len - 1] = 0; else p->garbage++; snprintf(p->name[p->n++], 128, "%s", line); }
		else p->n++;
		ln++;
	}
	fclose(f);
}
static int pcf_type_index(const struct r_pcf *p, long long id) { for (int i = 0; i < p->nt; i++) if (p->id[i] == id) return i; return -1; }
static const char *pcf_value_label(const struct r_pcf *p, int ti, long long v) { for (int k = 0; k < p->nv[ti]; k++) if (p->val[ti][k] == v) return p->vlabel[ti][k]; return NULL; }

/* statement of C13 on one trace (name = "thread" / "cpu"); state_types: types whose non-zero values need a label */
static struct r_prv r_prvf; static struct r_pcf r_pcff; static struct r_row r_rowf;
static const char *check_trace(const char *name, long nrows, long long last_time, const int *state_types, int nstate)
{
	char path[256];
	snprintf(path, sizeof(path), R_DIR "/%s.prv", name); parse_prv(path, &r_prvf);
	snprintf(path, sizeof(path), R_DIR "/%s.pcf", name); parse_pcf(path, &r_pcff);
	snprintf(path, sizeof(path), R_DIR "/%s.row", name); parse_row(path, &r_rowf);
	const struct r_prv *v = &r_prvf; const struct r_pcf *c = &r_pcff; const struct r_row *w = &r_rowf;
	if (v->garbage) FAILF("%s.prv: malformed (%s)", name, v->g);
	if (c->garbage) FAILF("%s.pcf: malformed (%s)", name, c->g);
	if (w->garbage) FAILF("%s.row: malformed", name);
	if (v->nhdr != 1) FAILF("%s.prv: %d header lines", name, v->nhdr);
	if (v->nrows != nrows) FAILF("%s.prv: header declares %d rows, the system has %ld", name, v->nrows, nrows);
	if (v->dur != last_time) FAILF("%s.prv: header duration %lld differs from the last event time %lld", name, v->dur, last_time);
	if (c->dup) FAILF("%s.pcf: a type or a value is declared twice", name);
	for (int i = 0; i < v->n && i < R_MAXL; i++) {
		if (v->row[i] < 1 || v->row[i] > nrows) FAILF("%s.prv: line %d has row %ld outside 1..%ld", name, i + 2, v->row[i], nrows);
		if (i > 0 && v->time[i] < v->time[i - 1]) FAILF("%s.prv: line %d goes back in time", name, i + 2);
		if (v->time[i] > v->dur) FAILF("%s.prv: line %d has time %lld after the header duration %lld", name, i + 2, v->time[i], v->dur);
		int ti = pcf_type_index(c, v->type[i]);
		if (ti < 0) FAILF("%s.prv: line %d prints event type %lld, which %s.pcf does not declare", name, i + 2, v->type[i], name);
		for (int s = 0; s < nstate; s++)
			if (v->type[i] == state_types[s] && v->val[i] != 0 && pcf_value_label(c, ti, v->val[i]) == NULL)
				FAILF("%s.prv: value %lld of state type %lld (row %ld, time %lld) has no label in %s.pcf (\"%s\")", name, v->val[i], v->type[i], v->row[i], v->time[i], name, c->label[ti]);
	}
	if (w->declared != nrows || w->n != nrows) FAILF("%s.row: declares %d rows and names %d, the system has %ld", name, w->declared, w->n, nrows);
	return NULL;
}

/* ---------- the system ---------- */
#define R_MAXN 4
static struct thread *r_th[R_MAXN]; static struct cpu *r_cpu[R_MAXN];
static struct proc r_proc[R_MAXN]; static struct loom r_loom;
static struct system r_sys; static struct bay r_bay; static struct recorder r_rec;
static long long r_clock;
static const char *tick(void)
{
	r_clock += 3;
	if (recorder_advance(&r_rec, r_clock) != 0) FAILF("recorder_advance(%lld) refused", r_clock);
	return NULL;
}
static const char *propagate(const char *what)
{
	if (bay_propagate(&r_bay) != 0) FAILF("the emission of %s was refused (bay_propagate failed: a value the row policy forbids, or an unregistered channel)", what);
	return NULL;
}
/* what to connect: 0 the whole system through system_connect; 1 by hand, threads first (thread_connect ...); 2 by hand, CPUs only */
static const char *session(int nt, int nc, unsigned virt_mask, int via_system)
{
	const char *why;
	snprintf(r_ctx, sizeof(r_ctx), "%d threads, %d CPUs (virtual mask 0x%x); %s; every thread through every state and CPU; recorder_finish", nt, nc, virt_mask,
		via_system ? "init_global_indices + system_connect" : "recorder_add_pvt + thread_connect/cpu_connect + *_create_pcf_types + cpu_add_to_pcf_type by hand");
	/* fresh output directory */
	mkdir(R_DIR, 0755);
	static const char *files[] = { "thread.prv", "thread.pcf", "thread.row", "cpu.prv", "cpu.pcf", "cpu.row" };
	for (int i = 0; i < 6; i++) { char p[128]; snprintf(p, sizeof(p), R_DIR "/%s", files[i]); remove(p); }
	n_err = 0; r_clock = 0;
	memset(&r_sys, 0, sizeof(r_sys)); memset(&r_loom, 0, sizeof(r_loom));
	bay_init(&r_bay);
	if (recorder_init(&r_rec, R_DIR) != 0) FAILF("recorder_init refused");
	for (int k = 0; k < nt; k++) {
		struct thread *th = r_th[k] = calloc(1, sizeof(struct thread));
		memset(&r_proc[k], 0, sizeof(r_proc[k])); r_proc[k].appid = 1 + k / 2; r_proc[k].pid = 500 + k; r_proc[k].gindex = -1;
		if (k > 0) r_proc[k - 1].gnext = &r_proc[k];
		if (thread_init_begin(th, 1000 + 7 * k) != 0) FAILF("thread_init_begin refused");
		thread_set_proc(th, &r_proc[k]);
		th->meta = (JSON_Object *) &r_proc[k];     /* any non-NULL metadata handle (never dereferenced here) */
		if (k > 0) r_th[k - 1]->gnext = th;
	}
	for (int k = 0; k < nc; k++) {
		struct cpu *cpu = r_cpu[k] = calloc(1, sizeof(struct cpu));
		cpu_init_begin(cpu, k, 4 + 5 * k, (virt_mask >> k) & 1);
		cpu_set_loom(cpu, &r_loom);
		if (k > 0) r_cpu[k - 1]->next = cpu;
	}
	r_sys.threads = nt ? r_th[0] : NULL; r_sys.cpus = nc ? r_cpu[0] : NULL;
	r_sys.procs = nt ? &r_proc[0] : NULL; r_sys.looms = &r_loom; r_loom.gindex = -1;
#ifndef REPLAY_NO_SYSTEM
	if (via_system) {
		/* global indices and totals: the k-th element of each global list gets index k, the totals are the list lengths */
		r_sys.nthreads = 77; r_sys.ncpus = 77; r_sys.nprocs = 77; r_sys.nphycpus = 77;
		init_global_indices(&r_sys);
		int nphy = 0; for (int k = 0; k < nc; k++) nphy += !((virt_mask >> k) & 1);
		if (r_sys.nthreads != (size_t) nt || r_sys.ncpus != (size_t) nc || r_sys.nprocs != (size_t) nt || r_sys.nphycpus != (size_t) nphy)
			FAILF("init_global_indices declares %zu threads, %zu CPUs (%zu physical), %zu processes; the lists hold %d, %d (%d), %d", r_sys.nthreads, r_sys.ncpus, r_sys.nphycpus, r_sys.nprocs, nt, nc, nphy, nt);
		for (int k = 0; k < nt; k++) if (r_th[k]->gindex != k || r_proc[k].gindex != k) FAILF("init_global_indices gave the %d-th thread / process of the global lists index %lld / %lld", k, (long long) r_th[k]->gindex, (long long) r_proc[k].gindex);
		for (int k = 0; k < nc; k++) if (r_cpu[k]->gindex != k) FAILF("init_global_indices gave the %d-th CPU of the global list index %lld", k, (long long) r_cpu[k]->gindex);
		if (r_loom.gindex != 0) FAILF("init_global_indices gave the only loom index %lld", (long long) r_loom.gindex);
	} else
#endif
	{
		for (int k = 0; k < nt; k++) thread_set_gindex(r_th[k], k);
		for (int k = 0; k < nc; k++) cpu_set_gindex(r_cpu[k], k);
		r_loom.gindex = 0;
		r_sys.nthreads = (size_t) nt; r_sys.ncpus = (size_t) nc;
	}
	for (int k = 0; k < nt; k++) if (thread_init_end(r_th[k]) != 0) FAILF("thread_init_end refused");
	for (int k = 0; k < nc; k++) if (cpu_init_end(r_cpu[k]) != 0) FAILF("cpu_init_end refused");
	if (via_system) {
#ifndef REPLAY_NO_SYSTEM
		int r = system_connect(&r_sys, &r_bay, &r_rec);
		if (r != 0) FAILF("system_connect refused a well-formed system (returned %d, %d diagnostics)", r, n_err);
#endif
	} else {
		struct pvt *pc = recorder_add_pvt(&r_rec, "cpu", nc), *pt = recorder_add_pvt(&r_rec, "thread", nt);
		if (pc == NULL || pt == NULL) FAILF("recorder_add_pvt refused");
		for (int k = 0; k < nt; k++) {
			char name[64]; snprintf(name, sizeof(name), "TH %d.%d", r_proc[k].appid, r_th[k]->tid);
			if (thread_connect(r_th[k], &r_bay, &r_rec) != 0) FAILF("thread_connect refused an initialised thread (gindex %d of %d)", k, nt);
			if (prf_add(pvt_get_prf(pt), k, name) != 0) FAILF("prf_add refused");
		}
		if (thread_create_pcf_types(pvt_get_pcf(pt)) != 0) FAILF("thread_create_pcf_types refused");
		struct pcf_type *aff = thread_get_affinity_pcf_type(pvt_get_pcf(pt));
		if (aff == NULL) FAILF("thread_get_affinity_pcf_type found no type although thread_create_pcf_types declared the thread types");
		if (aff->id != PRV_THREAD_CPU) FAILF("thread_get_affinity_pcf_type returned type %d, the CPU affinity timeline is type %d", aff->id, PRV_THREAD_CPU);
		if (cpu_create_pcf_types(pvt_get_pcf(pc)) != 0) FAILF("cpu_create_pcf_types refused");
		for (int k = 0; k < nc; k++) {
			if (cpu_connect(r_cpu[k], &r_bay, &r_rec) != 0) FAILF("cpu_connect refused an initialised CPU (gindex %d of %d)", k, nc);
			if (prf_add(pvt_get_prf(pc), k, r_cpu[k]->name) != 0) FAILF("prf_add refused");
			struct pcf_value *pv = cpu_add_to_pcf_type(r_cpu[k], aff);
			if (pv == NULL) FAILF("cpu_add_to_pcf_type refused");
			if (pv->value != k + 1 || strcmp(pv->label, r_cpu[k]->name) != 0) FAILF("cpu_add_to_pcf_type labelled value %d \"%s\", specified %d \"%s\"", pv->value, pv->label, k + 1, r_cpu[k]->name);
		}
	}
	if (recorder_find_pvt(&r_rec, "thread") == NULL || recorder_find_pvt(&r_rec, "cpu") == NULL) FAILF("the traces \"thread\" and \"cpu\" do not both exist after the connection");
	/* ---- drive values through the real channels ---- */
	for (int k = 0; k < nt; k++) {
		struct thread *th = r_th[k];
		/* (TH_ST_UNKNOWN = 0 is the initial state and is never emitted: 0 is not a printable state value) */
		for (int st = TH_ST_RUNNING; st <= TH_ST_WARMING; st++) {
			if ((why = tick())) return why;
			if (chan_set(&th->chan[TH_CHAN_STATE], value_int64(st)) != 0) FAILF("chan_set(state) refused");
			if (st == TH_ST_RUNNING && chan_set(&th->chan[TH_CHAN_TID], value_int64(th->tid)) != 0) FAILF("chan_set(tid) refused");
			if ((why = propagate("a thread state"))) return why;
		}
		for (int c = 0; c < nc; c++) {
			if ((why = tick())) return why;
			if (chan_set(&th->chan[TH_CHAN_CPU], value_int64(r_cpu[c]->gindex)) != 0) FAILF("chan_set(cpu) refused");
			if ((why = propagate("a CPU affinity (the global index of the CPU)"))) return why;
		}
	}
	for (int c = 0; c < nc; c++) {
		if ((why = tick())) return why;
		if (chan_set(&r_cpu[c]->chan[CPU_CHAN_NRUN], value_int64(1)) != 0 || chan_set(&r_cpu[c]->chan[CPU_CHAN_PID], value_int64(500 + c)) != 0 ||
				chan_set(&r_cpu[c]->chan[CPU_CHAN_TID], value_int64(1000 + c)) != 0) FAILF("chan_set(cpu channel) refused");
		if ((why = propagate("the CPU channels"))) return why;
		if ((why = tick())) return why;
		if (chan_set(&r_cpu[c]->chan[CPU_CHAN_NRUN], value_int64(0)) != 0) FAILF("chan_set(nrunning = 0) refused");
		if ((why = propagate("a CPU with 0 running threads"))) return why;
	}
	if ((why = tick())) return why;              /* the last event of the trace writes no line */
	if (recorder_finish(&r_rec) != 0) FAILF("recorder_finish refused (a trace could not be closed: some row has no name?)");
	/* ---- the statement, on the files ---- */
	static const int th_state_types[] = { PRV_THREAD_STATE, PRV_THREAD_CPU };
	if ((why = check_trace("thread", nt, r_clock, th_state_types, 2))) return why;
	/* exact expectations for the thread trace */
	for (int k = 0; k < nt; k++) {
		char name[64]; snprintf(name, sizeof(name), "TH %d.%d", r_proc[k].appid, r_th[k]->tid);
		if (strcmp(r_rowf.name[k], name) != 0) FAILF("thread.row: row %d is \"%s\", the thread with global index %d is \"%s\"", k + 1, r_rowf.name[k], k, name);
	}
	int ti_aff = pcf_type_index(&r_pcff, PRV_THREAD_CPU), ti_st = pcf_type_index(&r_pcff, PRV_THREAD_STATE);
	if (ti_aff < 0 || ti_st < 0 || pcf_type_index(&r_pcff, PRV_THREAD_TID) < 0) FAILF("thread.pcf does not declare the three thread timelines (state %d, affinity %d, tid %d)", PRV_THREAD_STATE, PRV_THREAD_CPU, PRV_THREAD_TID);
	for (int st = TH_ST_UNKNOWN; st <= TH_ST_WARMING; st++) if (pcf_value_label(&r_pcff, ti_st, st) == NULL) FAILF("thread.pcf: thread state %d has no label", st);
	for (int c = 0; c < nc; c++) {
		const char *l = pcf_value_label(&r_pcff, ti_aff, c + 1);
		if (l == NULL || strcmp(l, r_cpu[c]->name) != 0) FAILF("thread.pcf: CPU affinity value %d is labelled \"%s\", the CPU with global index %d is \"%s\"", c + 1, l ? l : "(no label)", c, r_cpu[c]->name);
	}
	{	/* every thread printed, on its own row: each state once (type 4) and each CPU as gindex + 1 (type 6) */
		long want = (long) nt * (TH_ST_WARMING - TH_ST_RUNNING + 1 + nc + 1);
		if (r_prvf.n != want) FAILF("thread.prv holds %d event lines, the session emits %ld", r_prvf.n, want);
		for (int i = 0; i < r_prvf.n && i < R_MAXL; i++) {
			int k = (int) r_prvf.row[i] - 1;
			if (r_prvf.type[i] == PRV_THREAD_TID && r_prvf.val[i] != r_th[k]->tid) FAILF("thread.prv: row %d prints tid %lld, the thread with global index %d has tid %d", k + 1, r_prvf.val[i], k, r_th[k]->tid);
			if (r_prvf.type[i] == PRV_THREAD_CPU && (r_prvf.val[i] < 1 || r_prvf.val[i] > nc)) FAILF("thread.prv: affinity value %lld outside 1..%d (global CPU index + 1)", r_prvf.val[i], nc);
		}
	}
	static const int no_state[1] = { 0 };
	if ((why = check_trace("cpu", nc, r_clock, no_state, 0))) return why;
	for (int c = 0; c < nc; c++)
		if (strcmp(r_rowf.name[c], r_cpu[c]->name) != 0) FAILF("cpu.row: row %d is \"%s\", the CPU with global index %d is \"%s\"", c + 1, r_rowf.name[c], c, r_cpu[c]->name);
	if (pcf_type_index(&r_pcff, PRV_CPU_NRUN) < 0 || pcf_type_index(&r_pcff, PRV_CPU_PID) < 0 || pcf_type_index(&r_pcff, PRV_CPU_TID) < 0)
		FAILF("cpu.pcf does not declare the CPU base types %d, %d, %d", PRV_CPU_PID, PRV_CPU_TID, PRV_CPU_NRUN);
	if (r_prvf.n != 4L * nc) FAILF("cpu.prv holds %d event lines, the session emits %ld", r_prvf.n, 4L * nc);
	for (int k = 0; k < nt; k++) free(r_th[k]);
	for (int k = 0; k < nc; k++) free(r_cpu[k]);
	return NULL;
}
#define RUN(expr) do { const char *why_ = (expr); if (why_) { printf("REPRODUCED %s {session: %s} [%s]\n", why_, r_ctx, r_origin); return 1; } } while (0)

/* an uninitialised thread / CPU is refused (W_INIT == 0) */
static const char *uninit(void)
{
	snprintf(r_ctx, sizeof(r_ctx), "thread_connect / cpu_connect on an object that was never initialised");
	mkdir(R_DIR, 0755);
	bay_init(&r_bay);
	if (recorder_init(&r_rec, R_DIR) != 0 || recorder_add_pvt(&r_rec, "cpu", 1) == NULL || recorder_add_pvt(&r_rec, "thread", 1) == NULL) FAILF("recorder refused");
	struct thread *th = calloc(1, sizeof(*th)); struct cpu *cpu = calloc(1, sizeof(*cpu));
	int e0 = n_err;
	if (thread_connect(th, &r_bay, &r_rec) == 0) FAILF("thread_connect accepted a thread that is not initialised");
	if (n_err == e0) FAILF("thread_connect refused without a diagnostic");
	e0 = n_err;
	if (cpu_connect(cpu, &r_bay, &r_rec) == 0) FAILF("cpu_connect accepted a CPU that is not initialised");
	if (n_err == e0) FAILF("cpu_connect refused without a diagnostic");
	free(th); free(cpu);
	return NULL;
}

int main(void)
{
	int nt = (int) (W_NT), nc = (int) (W_NC);
	if (nt < 0) nt = 0; if (nt > 3) nt = 3; if (nc < 0) nc = 0; if (nc > 3) nc = 3;
	int modes[2] = { 1, 0 }, nm = 2;     /* the whole system through system.c first, then connected by hand */
#ifdef REPLAY_HAND_FIRST
	modes[0] = 0; modes[1] = 1;          /* drivers of the thread.c / cpu.c groups: by hand first */
#endif
#ifdef REPLAY_NO_SYSTEM
	modes[0] = 0; nm = 1;
#endif
	if (!(W_INIT)) RUN(uninit());
	for (int m = 0; m < nm; m++) for (unsigned vm = 0; vm < (1u << nc); vm++) RUN(session(nt, nc, vm, modes[m]));
	r_origin = "tried after the witness";
	long cnt = 0;
	RUN(uninit());
	for (int m = 0; m < nm; m++) for (int a = 0; a <= 3; a++) for (int b = 0; b <= 3; b++) for (unsigned vm = 0; vm < (1u << b); vm++) { cnt++; RUN(session(a, b, vm, modes[m])); }
	printf("not reproduced: the thread and cpu traces of the witness system (%d threads, %d CPUs) and of %ld other systems are well-formed and self-consistent\n", nt, nc, cnt);
	return 0;
}
