/* C03 native replay of a failed player obligation on the REAL src/emu/player.c, with the REAL
 * stream.c, emu_ev.c, heap.h (and ovni.c for the event accessors).
 * REPLAY_OP: 0 stream_cmp  1 stream_cmp_laws  2 stream_evclock  3 stream_clkoff_set  4 update_clocks
 *            5 step_stream 6 player_step      7 player_init
 * Witnesses (CBMC trace): W_CA W_CB W_SAME | W_C1 W_C2 W_C3 | W_RAWCLK W_CLKOFF | W_OLD_OFF W_STARTED |
 *   W_SCLOCK W_PLAST W_PFIRST W_FIRST W_UNSORTED | W_SS_ACTIVE |
 *   W_HAS_CUR W_CUR_ACTIVE W_MA W_MB W_OTHERS W_FIRST_EVENT W_PUNSORTED W_PLASTCLOCK W_CUR_CLOCK W_A_CLOCK W_B_CLOCK |
 *   W_PI_N W_PI_UNSORTED W_PI_ACT0 W_PI_ACT1 W_PI_ACT2.
 * Streams are real in-memory streams (8-byte header + 12-byte events), the heap is the real heap.h
 * filled with heap_insert; the specification evaluated is the one of the property: the merge emits,
 * at every step, the loaded event of a stream whose corrected clock is minimal among the streams
 * that still have an event, stamped with that clock; sorted mode refuses a backwards jump; every
 * stream is stepped once per emitted event and re-inserted iff it still has an event.
 * When the witness input behaves as specified, a finite neighbourhood of inputs is tried as well.
 * exit 0: as specified (not reproduced); exit 1: mismatch (REPRODUCED). */
#include "c12_replay_common.h"
int mkpath(const char *path, mode_t mode, int is_dir) { (void) path; (void) mode; (void) is_dir; return -1; }
#include "parson.c"
#include "path.c"
#include "ovni.c"
#include "stream.c"
#include "emu_ev.c"
#include "player.c"

#define I64_MAX 0x7fffffffffffffffL
#define I64_MIN (-I64_MAX - 1L)
#define ADD_OVF(a, b) (((b) > 0 && (a) > I64_MAX - (b)) || ((b) < 0 && (a) < I64_MIN - (b)))
#define SUB_OVF(a, b) (((b) < 0 && (a) > I64_MAX + (b)) || ((b) > 0 && (a) < I64_MIN + (b)))

#ifndef W_CA
#define W_CA 1
#endif
#ifndef W_CB
#define W_CB 2
#endif
#ifndef W_SAME
#define W_SAME 0
#endif
#ifndef W_C1
#define W_C1 1
#endif
#ifndef W_C2
#define W_C2 2
#endif
#ifndef W_C3
#define W_C3 3
#endif
#ifndef W_RAWCLK
#define W_RAWCLK 10
#endif
#ifndef W_CLKOFF
#define W_CLKOFF -3
#endif
#ifndef W_OLD_OFF
#define W_OLD_OFF 0
#endif
#ifndef W_STARTED
#define W_STARTED 0
#endif
#ifndef W_SCLOCK
#define W_SCLOCK 10
#endif
#ifndef W_PLAST
#define W_PLAST 5
#endif
#ifndef W_PFIRST
#define W_PFIRST 1
#endif
#ifndef W_FIRST
#define W_FIRST 0
#endif
#ifndef W_UNSORTED
#define W_UNSORTED 0
#endif
#ifndef W_SS_ACTIVE
#define W_SS_ACTIVE 1
#endif
#ifndef W_HAS_CUR
#define W_HAS_CUR 1
#endif
#ifndef W_CUR_ACTIVE
#define W_CUR_ACTIVE 1
#endif
#ifndef W_MA
#define W_MA 1
#endif
#ifndef W_MB
#define W_MB 1
#endif
#ifndef W_OTHERS
#define W_OTHERS 0
#endif
#ifndef W_FIRST_EVENT
#define W_FIRST_EVENT 0
#endif
#ifndef W_PUNSORTED
#define W_PUNSORTED 0
#endif
#ifndef W_PLASTCLOCK
#define W_PLASTCLOCK 10
#endif
#ifndef W_CUR_CLOCK
#define W_CUR_CLOCK 10
#endif
#ifndef W_A_CLOCK
#define W_A_CLOCK 15
#endif
#ifndef W_B_CLOCK
#define W_B_CLOCK 20
#endif
#ifndef W_PI_N
#define W_PI_N 3
#endif
#ifndef W_PI_UNSORTED
#define W_PI_UNSORTED 0
#endif
#ifndef W_PI_ACT0
#define W_PI_ACT0 1
#endif
#ifndef W_PI_ACT1
#define W_PI_ACT1 1
#endif
#ifndef W_PI_ACT2
#define W_PI_ACT2 1
#endif

static char why[400];
#define FAIL(...) do { snprintf(why, sizeof(why), __VA_ARGS__); return 1; } while (0)

/* ------------------------------------------------------------------ */
/* real in-memory streams                                              */
/* ------------------------------------------------------------------ */
#define MAXEV 4
#define RAWBASE 1000UL
struct rs {
	struct stream s;
	uint8_t buf[8 + 12 * MAXEV + 4];
	int nev;
	long clk[MAXEV];     /* corrected clocks of the events */
	char name;
};
/* stream with `nev` events whose CORRECTED clocks are clk[]; loaded = index of the loaded event (-1: none yet) */
static struct rs *rs_pool[16]; static int rs_n;
static void free_streams(void) { for (int i = 0; i < rs_n; i++) free(rs_pool[i]); rs_n = 0; }
static struct rs *mk_stream(char name, int nev, const long *clk, int loaded, int active, int unsorted)
{
	struct rs *r = calloc(1, sizeof(*r));
	rs_pool[rs_n++] = r;
	r->name = name; r->nev = nev;
	memcpy(r->buf, "ovni", 4); r->buf[4] = 1;
	long base = nev > 0 ? clk[0] : 0;
	r->s.clock_offset = base - (long) RAWBASE;          /* raw clock of event 0 = RAWBASE */
	for (int i = 0; i < nev; i++) {
		struct ovni_ev ev; memset(&ev, 0, sizeof(ev));
		ev.header.model = 'O'; ev.header.category = (uint8_t) name; ev.header.value = (uint8_t) ('0' + i);
		ev.header.clock = (uint64_t) (clk[i] - r->s.clock_offset);
		memcpy(r->buf + 8 + 12 * i, &ev, 12);
		r->clk[i] = clk[i];
	}
	r->s.buf = r->buf; r->s.size = 8 + 12 * nev; r->s.usize = 12 * nev;
	r->s.active = active; r->s.unsorted = unsorted;
	snprintf(r->s.relpath, sizeof(r->s.relpath), "replay/thread.%c", name);
	if (loaded >= 0) {
		r->s.offset = 8 + 12 * loaded;
		r->s.cur_ev = (struct ovni_ev *) &r->buf[r->s.offset];
		r->s.lastclock = clk[loaded];
	} else {
		r->s.offset = 8; r->s.cur_ev = NULL; r->s.lastclock = 0;
	}
	return r;
}

/* the real heap holds exactly the streams m[0..n-1]: complete tree, consistent links, min-heap on lastclock */
static int heap_holds(heap_head_t *h, struct rs **m, int n)
{
	heap_node_t *p[64];
	if (h->size != (size_t) n) FAIL("heap size is %zu, expected %d members", h->size, n);
	if ((h->root == NULL) != (n == 0)) FAIL("heap root NULL-ness does not match emptiness");
	if (n >= 1) { p[1] = h->root; if (p[1]->parent) FAIL("heap root has a parent"); }
	for (int i = 2; i <= n; i++) {
		p[i] = (i & 1) ? p[i / 2]->right : p[i / 2]->left;
		if (!p[i]) FAIL("heap shape: position %d is empty", i);
		if (p[i]->parent != p[i / 2]) FAIL("heap links: parent of position %d is wrong", i);
		if (heap_elem(p[i / 2], struct stream, hh)->lastclock > heap_elem(p[i], struct stream, hh)->lastclock)
			FAIL("heap order broken at position %d", i);
	}
	for (int j = 0; j < n; j++) {
		int cnt = 0;
		for (int i = 1; i <= n; i++) if (p[i] == &m[j]->s.hh) cnt++;
		if (cnt != 1) FAIL("stream %c appears %d times in the heap (expected once)", m[j]->name, cnt);
	}
	return 0;
}

/* ------------------------------------------------------------------ */
/* 0/1: stream_cmp                                                     */
/* ------------------------------------------------------------------ */
static struct stream cs[3];
static int cmp_case(long ca, long cb, int same)
{
	cs[0].lastclock = ca; cs[1].lastclock = cb;
	if (same) cb = ca;
	int r = stream_cmp(&cs[0].hh, same ? &cs[0].hh : &cs[1].hh);
	int e = ca < cb ? 1 : (ca > cb ? -1 : 0);
	if (r != e) FAIL("stream_cmp(lastclock %ld, lastclock %ld%s) returned %d, specified %d (> 0 exactly when the first is earlier)", ca, cb, same ? " same node" : "", r, e);
	return 0;
}
static int laws_case(long c1, long c2, long c3)
{
	cs[0].lastclock = c1; cs[1].lastclock = c2; cs[2].lastclock = c3;
	int xx = stream_cmp(&cs[0].hh, &cs[0].hh), xy = stream_cmp(&cs[0].hh, &cs[1].hh), yx = stream_cmp(&cs[1].hh, &cs[0].hh);
	int yz = stream_cmp(&cs[1].hh, &cs[2].hh), xz = stream_cmp(&cs[0].hh, &cs[2].hh);
	const char *law = NULL;
	if (xx != 0) law = "reflexive";
	else if (!((xy > 0) == (yx < 0) && (xy < 0) == (yx > 0) && (xy == 0) == (yx == 0))) law = "antisymmetric";
	else if (xy >= 0 && yz >= 0 && !(xz >= 0)) law = "transitive (>=)";
	else if (xy > 0 && yz >= 0 && !(xz > 0)) law = "transitive (strict, left)";
	else if (xy >= 0 && yz > 0 && !(xz > 0)) law = "transitive (strict, right)";
	else if (xy == 0 && yz == 0 && xz != 0) law = "equivalence of equal clocks is transitive";
	else if ((xy >= 0) != (c1 <= c2)) law = "cmp(x,y) >= 0 exactly when x is not later than y";
	else if (!(xy >= 0 || yx >= 0)) law = "total";
	if (law) FAIL("stream_cmp breaks the order law '%s' on lastclocks x=%ld y=%ld z=%ld (xy=%d yx=%d yz=%d xz=%d)", law, c1, c2, c3, xy, yx, yz, xz);
	return 0;
}
static long probe[40]; static int nprobe;
static void add_probe(long v) { for (int i = 0; i < nprobe; i++) if (probe[i] == v) return; if (nprobe < 40) probe[nprobe++] = v; }
static void std_probes(void)
{
	static const long p[] = {0, 1, -1, 2, 0x7fffffffL, 0x80000000L, 0x80000001L, 0xffffffffL, 0x100000000L, 0x100000001L, 0x180000000L,
		-0x80000000L, -0x80000001L, -0x100000000L, 5000000000L, I64_MAX, I64_MAX - 1, I64_MIN, I64_MIN + 1, 1L << 62};
	for (unsigned i = 0; i < sizeof(p) / sizeof(p[0]); i++) add_probe(p[i]);
}
static int op_cmp(void)
{
	if (cmp_case((W_CA), (W_CB), (W_SAME))) { printf("REPRODUCED %s\n", why); return 1; }
	add_probe((W_CA)); add_probe((W_CB)); std_probes();
	for (int i = 0; i < nprobe; i++) for (int j = 0; j < nprobe; j++)
		if (cmp_case(probe[i], probe[j], 0) || cmp_case(probe[i], probe[j], 1)) { printf("REPRODUCED %s (found next to the witness)\n", why); return 1; }
	printf("not reproduced: stream_cmp behaves as specified on (%ld, %ld) and on %d x %d probe clocks\n", (long) (W_CA), (long) (W_CB), nprobe, nprobe);
	return 0;
}
static int op_laws(void)
{
	if (laws_case((W_C1), (W_C2), (W_C3))) { printf("REPRODUCED %s\n", why); return 1; }
	add_probe((W_C1)); add_probe((W_C2)); add_probe((W_C3)); std_probes();
	for (int i = 0; i < nprobe; i++) for (int j = 0; j < nprobe; j++) for (int k = 0; k < nprobe; k++)
		if (laws_case(probe[i], probe[j], probe[k])) { printf("REPRODUCED %s (found next to the witness)\n", why); return 1; }
	printf("not reproduced: stream_cmp obeys the order laws on (%ld, %ld, %ld) and on %d^3 probe triples\n", (long) (W_C1), (long) (W_C2), (long) (W_C3), nprobe);
	return 0;
}

/* ------------------------------------------------------------------ */
/* 2: stream_evclock   3: stream_clkoff_set                            */
/* ------------------------------------------------------------------ */
static int evclock_case(unsigned long raw, long off)
{
	if (raw > (unsigned long) I64_MAX || ADD_OVF((long) raw, off)) return 0;   /* carved out (finding F-C19-1) */
	static struct stream s; struct ovni_ev ev; memset(&ev, 0, sizeof(ev));
	s.clock_offset = off; ev.header.clock = raw;
	long c = stream_evclock(&s, &ev);
	if (c != (long) raw + off) FAIL("stream_evclock(event clock %lu, stream offset %ld) returned %ld, specified %ld", raw, off, c, (long) raw + off);
	return 0;
}
static int op_evclock(void)
{
	if (evclock_case((unsigned long) (W_RAWCLK), (W_CLKOFF))) { printf("REPRODUCED %s\n", why); return 1; }
	static const long v[] = {0, 1, -1, 1000, -1000, 0x100000000L, -0x100000000L, 1L << 60, -(1L << 60)};
	for (unsigned i = 0; i < 9; i++) for (unsigned j = 0; j < 9; j++)
		if (v[i] >= 0 && evclock_case((unsigned long) v[i], v[j])) { printf("REPRODUCED %s (found next to the witness)\n", why); return 1; }
	printf("not reproduced: stream_evclock adds the stream offset as specified\n");
	return 0;
}
static int clkoff_case(long old_off, int started, long newoff)
{
	static struct stream s; static struct ovni_ev ev;
	memset(&s, 0, sizeof(s)); s.clock_offset = old_off; s.cur_ev = started ? &ev : NULL; strcpy(s.relpath, "replay/thread.1");
	n_err = 0;
	int r = stream_clkoff_set(&s, newoff);
	int legal = !started && old_off == 0;
	if (r != 0 && r != -1) FAIL("stream_clkoff_set returned %d", r);
	if ((r == 0) != legal) FAIL("stream_clkoff_set(old offset %ld, started %d) returned %d but setting the offset is %s", old_off, started, r, legal ? "legal" : "illegal (set once, before the first event)");
	if (r == 0 && s.clock_offset != newoff) FAIL("stream_clkoff_set accepted %ld but the stream offset is %ld", newoff, (long) s.clock_offset);
	if (r != 0 && (s.clock_offset != old_off || n_err == 0)) FAIL("stream_clkoff_set refused but changed the offset or gave no diagnostic");
	return 0;
}
static int op_clkoff(void)
{
	if (clkoff_case((W_OLD_OFF), (W_STARTED) != 0, 77)) { printf("REPRODUCED %s\n", why); return 1; }
	static const long v[] = {0, 1, -1, 77, 1L << 40};
	for (int st = 0; st < 2; st++) for (int i = 0; i < 5; i++) for (int j = 0; j < 5; j++)
		if (clkoff_case(v[i], st, v[j])) { printf("REPRODUCED %s (found next to the witness)\n", why); return 1; }
	printf("not reproduced: stream_clkoff_set behaves as specified\n");
	return 0;
}

/* ------------------------------------------------------------------ */
/* 4: update_clocks                                                    */
/* ------------------------------------------------------------------ */
static int uc_case(long sclock, long plast, long pfirst, int first, int unsorted)
{
	if (SUB_OVF(sclock, first ? sclock : pfirst)) return 0;        /* carved out */
	static struct player p; static struct stream s;
	memset(&p, 0, sizeof(p)); memset(&s, 0, sizeof(s)); strcpy(s.relpath, "replay/thread.1");
	s.lastclock = sclock; p.first_event = first; p.lastclock = plast; p.firstclock = pfirst; p.unsorted = unsorted; p.deltaclock = 4242;
	n_err = 0;
	int r = update_clocks(&p, &s);
	int ok = first || unsorted || sclock >= plast;
	if (r != 0 && r != -1) FAIL("update_clocks returned %d", r);
	if ((r == 0) != ok) FAIL("update_clocks(stream clock %ld, emulation clock %ld, first_event %d, unsorted %d) returned %d, specified %s", sclock, plast, first, unsorted, r, ok ? "0" : "-1 (backwards jump in sorted mode)");
	if (r == 0) {
		long ef = first ? sclock : pfirst;
		if (p.lastclock != sclock || p.first_event != 0 || p.firstclock != ef || p.deltaclock != sclock - ef)
			FAIL("update_clocks accepted clock %ld (first_event %d, origin %ld) but left lastclock=%ld firstclock=%ld deltaclock=%ld first_event=%d",
				sclock, first, pfirst, (long) p.lastclock, (long) p.firstclock, (long) p.deltaclock, p.first_event);
	} else {
		if (p.lastclock != plast || p.firstclock != pfirst || p.deltaclock != 4242 || p.first_event != 0 || n_err == 0)
			FAIL("update_clocks refused but moved the clocks or gave no diagnostic");
	}
	if (!first && sclock < plast && n_err == 0) FAIL("backwards jump %ld -> %ld not diagnosed", plast, sclock);
	return 0;
}
static int op_update_clocks(void)
{
	if (uc_case((W_SCLOCK), (W_PLAST), (W_PFIRST), (W_FIRST) != 0, (W_UNSORTED))) { printf("REPRODUCED %s\n", why); return 1; }
	long v[] = {-7, 0, 3, 9, 0x100000000L, (W_SCLOCK), (W_PLAST), (W_PFIRST)};
	for (int f = 0; f < 2; f++) for (int u = 0; u < 3; u++) for (int i = 0; i < 8; i++) for (int j = 0; j < 8; j++) for (int k = 0; k < 8; k++)
		if (uc_case(v[i], v[j], v[k], f, u)) { printf("REPRODUCED %s (found next to the witness)\n", why); return 1; }
	printf("not reproduced: update_clocks behaves as specified on the witness and its neighbourhood\n");
	return 0;
}

/* ------------------------------------------------------------------ */
/* 5: step_stream                                                      */
/* ------------------------------------------------------------------ */
/* kind: 0 inactive, 1 fresh stream with 1 event, 2 loaded last event (exhausted), 3 loaded event + next one,
 *       4 next event truncated (step fails), 5 next event goes backwards in a sorted stream (step fails) */
static int ss_case(int kind, int nothers)
{
	free_streams();
	static struct player p; memset(&p, 0, sizeof(p)); heap_init(&p.heap);
	struct rs *m[8]; int n = 0;
	long oc[2] = {50, 60};
	for (int i = 0; i < nothers; i++) { m[n] = mk_stream((char) ('x' + i), 1, &oc[i], 0, 1, 0); heap_insert(&p.heap, &m[n]->s.hh, stream_cmp); n++; }
	long c1[1] = {55}, c2[2] = {40, 55}, c3[2] = {55, 40};
	struct rs *s;
	switch (kind) {
	case 0: s = mk_stream('s', 1, c1, 0, 0, 0); s->s.cur_ev = NULL; break;
	case 1: s = mk_stream('s', 1, c1, -1, 1, 0); break;
	case 2: s = mk_stream('s', 1, c1, 0, 1, 0); break;
	case 3: s = mk_stream('s', 2, c2, 0, 1, 0); break;
	case 4: s = mk_stream('s', 2, c2, 0, 1, 0); s->s.size -= 5; break;
	default: s = mk_stream('s', 2, c3, 0, 1, 0); break;
	}
	p.nprocessed = 7; n_err = 0;
	int exp = kind == 0 ? 1 : (kind == 1 || kind == 3) ? 0 : (kind == 2 ? 1 : -1);
	int r = step_stream(&p, &s->s);
	if (r != exp) FAIL("step_stream on %s returned %d, specified %d", kind == 0 ? "an inactive stream" : kind == 1 ? "a fresh stream" : kind == 2 ? "a stream at its last event" :
		kind == 3 ? "a stream with a next event" : "a stream whose step fails", r, exp);
	if (exp == 0) {
		m[n++] = s;
		if (heap_holds(&p.heap, m, n)) return 1;
		if (p.nprocessed != 8) FAIL("step_stream loaded an event but nprocessed went 7 -> %ld", (long) p.nprocessed);
		if (s->s.lastclock != 55 || s->s.cur_ev == NULL) FAIL("step_stream did not load the next event (lastclock %ld)", (long) s->s.lastclock);
	} else {
		if (heap_holds(&p.heap, m, n)) return 1;
		if (p.nprocessed != 7) FAIL("step_stream did not load an event but nprocessed changed");
		if (exp == -1 && n_err == 0) FAIL("step_stream failed without a diagnostic");
	}
	return 0;
}
static int op_step_stream(void)
{
	int first = (W_SS_ACTIVE) ? 1 : 0;
	for (int pass = 0; pass < 2; pass++)
		for (int kind = 0; kind <= 5; kind++) {
			if (pass == 0 && (kind != 0) != first) continue;
			for (int o = 0; o <= 2; o++)
				if (ss_case(kind, o)) { printf("REPRODUCED %s (stream kind %d, %d other heap members)\n", why, kind, o); return 1; }
		}
	printf("not reproduced: step_stream behaves as specified on the 6 stream shapes x 3 heap sizes\n");
	return 0;
}

/* ------------------------------------------------------------------ */
/* 6: player_step                                                      */
/* ------------------------------------------------------------------ */
struct ps_in { int has_cur, cur_active, ma, mb, others, first_event, punsorted; long plast, curclk, aclk, bclk; int next; long nextclk; };
static int ps_case(const struct ps_in *w)
{
	free_streams();
	static struct player p; memset(&p, 0, sizeof(p)); heap_init(&p.heap);
	struct rs *m[8]; int n = 0;
	struct rs *a = NULL, *b = NULL, *cur = NULL;
	if (w->ma) { a = m[n++] = mk_stream('a', 1, &w->aclk, 0, 1, w->punsorted); }
	if (w->mb) { b = m[n++] = mk_stream('b', 1, &w->bclk, 0, 1, w->punsorted); }
	for (int i = 0; i < w->others && i < 3; i++) {
		long c = w->aclk + 3 * i;    /* naming convention: a is a minimal member when there are others */
		m[n++] = mk_stream((char) ('x' + i), 1, &c, 0, 1, w->punsorted);
	}
	for (int i = 0; i < n; i++) heap_insert(&p.heap, &m[i]->s.hh, stream_cmp);
	int inserted = 0;
	if (w->has_cur) {
		long cc[2] = {w->curclk, w->nextclk};
		if (!w->cur_active) { cur = mk_stream('c', 1, cc, 0, 0, w->punsorted); cur->s.cur_ev = NULL; cur->s.offset = cur->s.size; }
		else if (!w->next) cur = mk_stream('c', 1, cc, 0, 1, w->punsorted);
		else { cur = mk_stream('c', 2, cc, 0, 1, w->punsorted); }
		p.stream = &cur->s;
	}
	p.first_event = w->first_event; p.unsorted = w->punsorted; p.lastclock = w->plast; p.firstclock = w->plast - 10; p.nprocessed = 100;
	int step_fails = cur && w->cur_active && w->next && !w->punsorted && w->nextclk < w->curclk;
	if (cur && w->cur_active && w->next && !step_fails) { inserted = 1; m[n++] = cur; }
	n_err = 0;
	int r = player_step(&p);
	if (step_fails) {
		if (r != -1) FAIL("player_step returned %d although stepping the current stream fails", r);
		return 0;
	}
	if (n == 0) {
		if (r != 1) FAIL("player_step returned %d with no stream left (specified +1)", r);
		return 0;
	}
	long min, mc[8];
	for (int i = 0; i < n; i++) mc[i] = (m[i] == cur) ? w->nextclk : m[i]->clk[0];
	min = mc[0]; for (int i = 1; i < n; i++) if (mc[i] < min) min = mc[i];
	int backwards = !w->first_event && !w->punsorted && min < w->plast;
	if (backwards) {
		if (r != -1 || n_err == 0) FAIL("player_step returned %d on a backwards jump %ld -> %ld in sorted mode (specified -1 with a diagnostic)", r, w->plast, min);
		return 0;
	}
	if (r != 0) FAIL("player_step returned %d with %d streams pending (specified 0)", r, n);
	struct rs *x = NULL; int xi = -1;
	for (int i = 0; i < n; i++) if (p.stream == &m[i]->s) { x = m[i]; xi = i; }
	if (!x) FAIL("player_step emitted a stream that is not a pending member");
	if (mc[xi] != min) FAIL("player_step emitted stream %c with corrected clock %ld although clock %ld is pending in another stream (not the minimum)", x->name, mc[xi], min);
	if (x->s.lastclock != min || p.lastclock != min) FAIL("emulation clock %ld / stream clock %ld differ from the emitted event's corrected clock %ld", (long) p.lastclock, (long) x->s.lastclock, min);
	if (p.ev.sclock != min) FAIL("emitted event stamped with sclock %ld, specified %ld", (long) p.ev.sclock, min);
	long origin = w->first_event ? min : w->plast - 10;
	if (p.firstclock != origin || p.deltaclock != min - origin || p.ev.dclock != p.deltaclock || p.first_event != 0)
		FAIL("Paraver time wrong: firstclock=%ld deltaclock=%ld ev.dclock=%ld, specified origin %ld delta %ld", (long) p.firstclock, (long) p.deltaclock, (long) p.ev.dclock, origin, min - origin);
	struct ovni_ev *oev = x->s.cur_ev;
	if (oev == NULL || p.ev.m != oev->header.model || p.ev.c != oev->header.category || p.ev.v != oev->header.value ||
		p.ev.rclock != (long) oev->header.clock || p.ev.c != (uint8_t) x->name || p.ev.sclock != p.ev.rclock + x->s.clock_offset)
		FAIL("emitted event is not the loaded event of stream %c", x->name);
	if (p.ev.v != (uint8_t) ((x == cur) ? '1' : '0')) FAIL("emitted event of stream %c is not its pending one (value %c)", x->name, p.ev.v);
	if (p.nprocessed != 100 + inserted) FAIL("nprocessed went 100 -> %ld with %d re-insertion", (long) p.nprocessed, inserted);
	/* the rest stays in the heap */
	struct rs *rest[8]; int nr = 0;
	for (int i = 0; i < n; i++) if (i != xi) rest[nr++] = m[i];
	if (heap_holds(&p.heap, rest, nr)) return 1;
	(void) a; (void) b;
	return 0;
}
static void ps_show(const struct ps_in *w)
{
	printf(" [has_cur=%d cur_active=%d cur_clock=%ld next=%d next_clock=%ld a:%d@%ld b:%d@%ld others=%d first_event=%d unsorted=%d emulation_clock=%ld]\n",
		w->has_cur, w->cur_active, w->curclk, w->next, w->nextclk, w->ma, w->aclk, w->mb, w->bclk, w->others, w->first_event, w->punsorted, w->plast);
}
#define CLAMP61(c) ((c) > (1L << 61) ? (1L << 61) : ((c) < -(1L << 61) ? -(1L << 61) : (c)))
static int ps_variants(struct ps_in w, const char *tag)
{
	/* what the next event of the current stream is, is not in the witness: try none / several clocks */
	long nx[8]; int k = 0;
	nx[k++] = w.curclk; nx[k++] = w.curclk + 1; nx[k++] = w.aclk - 1; nx[k++] = w.aclk; nx[k++] = w.aclk + 1; nx[k++] = w.bclk; nx[k++] = w.bclk + 7; nx[k++] = w.curclk - 1;
	w.next = 0; w.nextclk = 0;
	if (ps_case(&w)) { printf("REPRODUCED player_step: %s%s", why, tag); ps_show(&w); return 1; }
	if (w.has_cur && w.cur_active)
		for (int i = 0; i < k; i++) {
			w.next = 1; w.nextclk = nx[i];
			if (ps_case(&w)) { printf("REPRODUCED player_step: %s%s", why, tag); ps_show(&w); return 1; }
		}
	return 0;
}
static int op_player_step(void)
{
	struct ps_in w = {(W_HAS_CUR) != 0, (W_CUR_ACTIVE) != 0, (W_MA) != 0, (W_MB) != 0, (W_OTHERS) > 3 ? 3 : (int) (W_OTHERS), (W_FIRST_EVENT) != 0, (W_PUNSORTED) != 0,
		CLAMP61((long) (W_PLASTCLOCK)), CLAMP61((long) (W_CUR_CLOCK)), CLAMP61((long) (W_A_CLOCK)), CLAMP61((long) (W_B_CLOCK)), 0, 0};
	if (w.others > 0 && !w.ma) w.others = 0;
	if (ps_variants(w, "")) return 1;
	/* neighbourhood: small clocks, every membership shape */
	static const long cv[] = {10, 20, 30, 0x100000014L};
	for (int shape = 0; shape < 128; shape++) {
		struct ps_in v = {shape & 1, (shape >> 1) & 1, (shape >> 2) & 1, (shape >> 3) & 1, ((shape >> 4) & 1) * 2, (shape >> 5) & 1, (shape >> 6) & 1, 0, 0, 0, 0, 0, 0};
		if (v.others && !v.ma) continue;
		if (!v.has_cur && v.cur_active) continue;
		for (int i = 0; i < 4; i++) for (int j = 0; j < 4; j++) for (int k = 0; k < 4; k++) {
			v.curclk = cv[i]; v.aclk = cv[j]; v.bclk = cv[k]; v.plast = cv[i] < cv[j] ? cv[i] : cv[j];
			if (v.plast > cv[k]) v.plast = cv[k];
			if (ps_variants(v, " (found next to the witness)")) return 1;
			v.plast = 25;
			if (ps_variants(v, " (found next to the witness)")) return 1;
		}
	}
	printf("not reproduced: player_step behaves as specified on the witness configuration and its neighbourhood;"); ps_show(&w);
	return 0;
}

/* ------------------------------------------------------------------ */
/* 7: player_init                                                      */
/* ------------------------------------------------------------------ */
#define GATE (3600L * 1000L * 1000L * 1000L)
static int pi_case(int n, int unsorted, const int *act, int far)
{
	free_streams();
	static struct player p; static struct trace t; memset(&t, 0, sizeof(t)); memset(&p, 0x5a, sizeof(p));
	struct rs *s[3]; struct rs *memb[3]; int nm = 0;
	for (int i = 0; i < 3; i++) {
		long c[2] = {100 + 10 * i, 200 + 10 * i};
		if (far == i + 1) { c[0] += GATE + 500; c[1] += GATE + 500; }
		s[i] = mk_stream((char) ('0' + i), 2, c, -1, act[i], 0);
		if (!act[i]) { s[i]->s.size = 8; s[i]->s.usize = 0; }     /* an empty stream is loaded inactive */
	}
	t.streams = NULL;
	for (int i = 0; i < n; i++) DL_APPEND(t.streams, &s[i]->s);
	t.nstreams = n; n_err = 0;
	int nact = 0, farhit = 0; long first = 0;
	for (int i = 0; i < n; i++) if (act[i]) {
		if (!nact) first = s[i]->clk[0];
		if (llabs(first - s[i]->clk[0]) > GATE) farhit = 1;
		nact++; memb[nm++] = s[i];
	}
	int r = player_init(&p, &t, unsorted);
	int exp = (!unsorted && farhit) ? -1 : 0;
	if (r != exp) FAIL("player_init returned %d, specified %d", r, exp);
	if (r != 0) { if (n_err == 0) FAIL("player_init failed without a diagnostic"); return 0; }
	if (p.first_event != 1 || p.stream != NULL || p.trace != &t || p.unsorted != unsorted) FAIL("player_init: initial player state wrong");
	for (int i = 0; i < n; i++) {
		if (act[i] && (s[i]->s.cur_ev != (struct ovni_ev *) &s[i]->buf[8] || s[i]->s.lastclock != s[i]->clk[0]))
			FAIL("player_init: stream %d (active, with events) did not get its first event loaded", i);
		if (unsorted && s[i]->s.unsorted != 1) FAIL("player_init: unsorted replay but stream %d not marked unsorted", i);
		if (!unsorted && s[i]->s.unsorted != 0) FAIL("player_init: sorted replay but stream %d marked unsorted", i);
	}
	if (heap_holds(&p.heap, memb, nm)) { char tmp[300]; snprintf(tmp, sizeof(tmp), "player_init: %s (every stream with an event must be in the heap)", why); strcpy(why, tmp); return 1; }
	if (p.nprocessed != nm) FAIL("player_init: nprocessed is %ld with %d streams loaded", (long) p.nprocessed, nm);
	return 0;
}
static int op_player_init(void)
{
	int act[3] = {(W_PI_ACT0) != 0, (W_PI_ACT1) != 0, (W_PI_ACT2) != 0};
	int n = (W_PI_N); if (n < 0) n = 0; if (n > 3) n = 3;
	for (int far = 0; far <= 3; far++)
		if (pi_case(n, (W_PI_UNSORTED), act, far)) { printf("REPRODUCED %s [n=%d unsorted=%d active=%d%d%d far=%d]\n", why, n, (W_PI_UNSORTED), act[0], act[1], act[2], far); return 1; }
	for (int u = 1; u >= 0; u--) for (n = 0; n <= 3; n++) for (int a = 0; a < 8; a++) for (int far = 0; far <= 3; far++) {   /* unsorted first: no clock gate */
		int ac[3] = {a & 1, (a >> 1) & 1, (a >> 2) & 1};
		if (pi_case(n, u, ac, far)) { printf("REPRODUCED %s [n=%d unsorted=%d active=%d%d%d far=%d] (found next to the witness)\n", why, n, u, ac[0], ac[1], ac[2], far); return 1; }
	}
	printf("not reproduced: player_init behaves as specified on the witness and on every trace of <= 3 streams tried\n");
	return 0;
}

int main(void)
{
	setvbuf(stdout, NULL, _IONBF, 0);
	switch (REPLAY_OP) {
	case 0: return op_cmp();
	case 1: return op_laws();
	case 2: return op_evclock();
	case 3: return op_clkoff();
	case 4: return op_update_clocks();
	case 5: return op_step_stream();
	case 6: return op_player_step();
	default: return op_player_init();
	}
}
