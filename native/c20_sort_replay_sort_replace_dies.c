#define REPLAY_OP 1
#include "c20_sort_replay.h"
