#define REPLAY_OP 1
#include "c03_player_replay.h"
