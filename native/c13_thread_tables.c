/* C13 native group: the channel tables of the real src/emu/thread.c.  pcf_labels[] is an array of
 * non-const pointers, so DFCC havocs it before the checked function and the contract of
 * thread_create_pcf_types (harness/c13_thcpu.c) pins it in `requires`; this group discharges that
 * assumption and reads the other (const) tables the same contracts rely on.  A finite fact, no
 * symbolic input.  Protocol: OBL <name> PASS|FAIL <detail> ... DONE <count>. */
#include <stdio.h>
#include <stdlib.h>
#include <string.h>
#include "common.h"
#include "emu_prv.h"
#include "pv/prv.h"
#include "thread.c"                       /* the real file */

static int nobl;
static void obl(const char *name, int ok, const char *detail) { printf("OBL %s %s %s\n", name, ok ? "PASS" : "FAIL", detail); nobl++; }

int main(void)
{
	obl("count", TH_CHAN_MAX == 3, "three thread channels");
	obl("chan_type", chan_type[TH_CHAN_CPU] == PRV_THREAD_CPU && chan_type[TH_CHAN_TID] == PRV_THREAD_TID && chan_type[TH_CHAN_STATE] == PRV_THREAD_STATE &&
		PRV_THREAD_CPU != PRV_THREAD_TID && PRV_THREAD_TID != PRV_THREAD_STATE && PRV_THREAD_CPU != PRV_THREAD_STATE,
		"cpu / tid / state carry their own distinct Paraver types");
	obl("prv_flags", prv_flags[TH_CHAN_CPU] == PRV_NEXT && prv_flags[TH_CHAN_TID] == 0 && prv_flags[TH_CHAN_STATE] == PRV_SKIPDUP,
		"the CPU index is printed shifted by one; repeated states are skipped; nothing may print 0");
	obl("pcf_labels", pcf_labels[TH_CHAN_CPU] == NULL && pcf_labels[TH_CHAN_TID] == NULL && pcf_labels[TH_CHAN_STATE] == &state_name,
		"only the state type has a label table (CPU labels are added per CPU)");
	int ok = 1, n = 0;
	static const int want[] = { TH_ST_UNKNOWN, TH_ST_RUNNING, TH_ST_PAUSED, TH_ST_DEAD, TH_ST_COOLING, TH_ST_WARMING };
	for (const struct pcf_value_label *l = state_name; l->label != NULL; l++, n++) {
		if (n >= 6 || l->value != want[n] || l->label[0] == '\0') { ok = 0; break; }
		for (const struct pcf_value_label *m = state_name; m != l; m++) if (strcmp(m->label, l->label) == 0) ok = 0;
	}
	obl("state_labels", ok && n == 6, "each of the six thread states has one distinct non-empty label, then the terminator");
	ok = 1;
	for (int i = 0; i < TH_CHAN_MAX; i++) {
		if (chan_name[i] == NULL || chan_name[i][0] == '\0' || pvt_name[i] == NULL || pvt_name[i][0] == '\0') ok = 0;
		for (int j = 0; j < i; j++) if (strcmp(chan_name[i], chan_name[j]) == 0 || strcmp(pvt_name[i], pvt_name[j]) == 0) ok = 0;
	}
	obl("names", ok, "every channel has a distinct non-empty name and PCF type label");
	printf("DONE %d\n", nobl);
	return 0;
}
