/* C13 native group: the channel tables of the real src/emu/cpu.c.  They are file-scope and NOT const,
 * so DFCC havocs them before the checked function and the contracts of cpu_connect /
 * cpu_create_pcf_types (harness/c13_thcpu.c) pin them in `requires`; this group discharges that
 * assumption by reading the initialisers of the real file (a finite fact, no symbolic input), and
 * the assigns clauses of the cpu.c functions under contract show nothing writes them afterwards.
 * Protocol: OBL <name> PASS|FAIL <detail> ... DONE <count>. */
#include <stdio.h>
#include <stdlib.h>
#include <string.h>
#include "common.h"
#include "emu_prv.h"
#include "pv/prv.h"
#include "cpu.c"                          /* the real file */

static int nobl;
static void obl(const char *name, int ok, const char *detail) { printf("OBL %s %s %s\n", name, ok ? "PASS" : "FAIL", detail); nobl++; }

int main(void)
{
	obl("chan_type_rows", chan_type[CPU_CHAN_NRUN] == PRV_CPU_NRUN && chan_type[CPU_CHAN_PID] == PRV_CPU_PID && chan_type[CPU_CHAN_TID] == PRV_CPU_TID,
		"nrunning / pid_running / tid_running carry their own Paraver types");
	obl("chan_type_hidden", chan_type[CPU_CHAN_THRUN] == -1 && chan_type[CPU_CHAN_THACT] == -1, "th_running / th_active have no timeline");
	obl("chan_type_distinct", PRV_CPU_NRUN != PRV_CPU_PID && PRV_CPU_PID != PRV_CPU_TID && PRV_CPU_NRUN != PRV_CPU_TID && PRV_CPU_NRUN >= 0 && PRV_CPU_PID >= 0 && PRV_CPU_TID >= 0,
		"the three types are distinct and non-negative");
	obl("prv_flags", prv_flags[CPU_CHAN_NRUN] == PRV_ZERO && prv_flags[CPU_CHAN_PID] == 0 && prv_flags[CPU_CHAN_TID] == 0 && prv_flags[CPU_CHAN_THRUN] == 0 && prv_flags[CPU_CHAN_THACT] == 0,
		"only the count of running threads may print 0; nothing is shifted or filtered");
	int ok = 1;
	for (int i = 0; i < CPU_CHAN_MAX; i++) {
		if (chan_name[i] == NULL || chan_name[i][0] == '\0') ok = 0;
		for (int j = 0; j < i; j++) if (chan_name[i] && chan_name[j] && strcmp(chan_name[i], chan_name[j]) == 0) ok = 0;
		if ((chan_type[i] >= 0) != (pvt_name[i] != NULL && pvt_name[i][0] != '\0')) ok = 0;
	}
	obl("names", ok, "every channel has a distinct non-empty name; exactly the channels with a type have a PCF type label");
	obl("count", CPU_CHAN_MAX == 5, "five CPU channels");
	printf("DONE %d\n", nobl);
	return 0;
}
