#define REPLAY_OP 3
#include "c07_body_replay.h"
