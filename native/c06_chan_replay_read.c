#define REPLAY_OP 2
#include "c06_chan_replay.h"
