#define REPLAY_OP 3
#include "c03_g1_replay.h"
