#define REPLAY_OP 0
#include "c03_g1_replay.h"
