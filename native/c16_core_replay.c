/* C16 native replay of the data-moving core of ovnisort on the REAL src/emu/ovnisort.c (sort_buf, find_min_clock,
 * count_events, index_events, write_events, rebuild_ring, ring_check, execute_sort_plan, stream_winsort) with the
 * real stream.c; the stream "file" is its in-memory buffer (pwrite(2) redirected into it with short writes,
 * open/close/fdatasync neutralised).  No input witness is needed: streams of events of MIXED sizes (0-, 4-, 16-byte
 * payloads and a jumbo) with an unsorted region OU[ .. OU] are generated over a small clock set, the real code is
 * run, and the statement of the property is evaluated on the result:
 *   - the output holds exactly the same events, byte for byte (same multiset, same total size),
 *   - clocks never decrease in the output when the look-back window suffices; otherwise the failure is reported,
 *   - nothing outside [destination, end of region) moves,
 *   - find_min_clock / count_events see every event of a region whatever the event sizes.
 * Linked with -Wl,--unresolved-symbols=ignore-all.  exit 0: as specified; exit 1: REPRODUCED. */
#include "c12_replay_common.h"
static unsigned char *r_file; static size_t r_file_cap; static unsigned long r_pw_calls;
static ssize_t r_pwrite(int fd, const void *buf, size_t count, off_t offset)
{
	(void) fd; r_pw_calls++;
	size_t k = count > 5 ? 5 : count;
	if (offset < 0 || (size_t) offset + k > r_file_cap) { printf("REPRODUCED pwrite outside the stream file (offset %ld, %zu bytes, file of %zu)\n", (long) offset, k, r_file_cap); exit(1); }
	memmove(r_file + offset, buf, k);
	return (ssize_t) k;
}
#define pwrite r_pwrite
#define main ovnisort_main
#include "ovni.c"
#include "parson.c"
#include "path.c"
#include "stream.c"
#define open(fn, fl) 99
#define close(fd) 0
#define fdatasync(fd) 0
#include "ovnisort.c"
#undef open
#undef close
#undef fdatasync
#undef main
#undef pwrite
int mkpath(const char *path, mode_t mode, int is_dir) { (void) path; (void) mode; (void) is_dir; return -1; }

static char why[400];
#define FAIL(...) do { snprintf(why, sizeof(why), __VA_ARGS__); return 1; } while (0)
#define MAXEV 12
struct gev { uint64_t clock; int kind; /* 0 plain, 1 payload 4, 2 payload 16, 3 jumbo(6 bytes), 4 OU[, 5 OU] */ int id; };
static size_t put_ev(uint8_t *p, const struct gev *g)
{
	struct ovni_ev ev; memset(&ev, 0, sizeof(ev));
	ev.header.model = 'O'; ev.header.category = g->kind >= 4 ? 'U' : 'B'; ev.header.value = g->kind == 4 ? '[' : g->kind == 5 ? ']' : (uint8_t) ('a' + g->id);
	ev.header.clock = g->clock;
	size_t size = 12;
	if (g->kind == 1) { ev.header.flags = 3; ev.payload.u32[0] = 0xA0000000u + (unsigned) g->id; size = 16; }
	else if (g->kind == 2) { ev.header.flags = 15; for (int k = 0; k < 16; k++) ev.payload.u8[k] = (uint8_t) (g->id * 16 + k); size = 28; }
	else if (g->kind == 3) { ev.header.flags = OVNI_EV_JUMBO; ev.payload.jumbo.size = 6; size = 12 + 4 + 6; }
	memcpy(p, &ev, size > sizeof(ev) ? sizeof(ev) : size);
	if (g->kind == 3) for (int k = 0; k < 6; k++) p[16 + k] = (uint8_t) (0x60 + g->id + k);
	return size;
}
static int evcmp_bytes(const void *a, const void *b) { return memcmp(a, b, 40); }
/* split a buffer into 40-byte normalised records (event bytes, zero padded) */
static int split(const uint8_t *p, const uint8_t *end, uint8_t rec[][40], uint64_t *clk)
{
	int n = 0;
	while (p < end && n < MAXEV + 2) {
		const struct ovni_ev *ev = (const struct ovni_ev *) p; size_t sz = 12;
		if (ev->header.flags & OVNI_EV_JUMBO) { uint32_t js; memcpy(&js, p + 12, 4); sz = 16 + js; }
		else if (ev->header.flags & 0x0f) sz = 12 + (ev->header.flags & 0x0f) + 1;
		if (sz > 40 || p + sz > end) return -1;
		memset(rec[n], 0, 40); memcpy(rec[n], p, sz); memcpy(&clk[n], p + 4, 8); n++; p += sz;
	}
	return p == end ? n : -1;
}
static void show(const struct gev *g, int n, int win)
{
	printf(" [stream:");
	for (int i = 0; i < n; i++) printf(" %s%lu%s", g[i].kind == 4 ? "OU[@" : g[i].kind == 5 ? "OU]@" : "", (unsigned long) g[i].clock, g[i].kind == 1 ? "(+4)" : g[i].kind == 2 ? "(+16)" : g[i].kind == 3 ? "(jumbo)" : "");
	printf("; look-back window %d]\n", win);
}

/* the helpers on one region buffer */
static int region_case(const struct gev *g, int n)
{
	uint8_t src[MAXEV * 40], dst[MAXEV * 40]; size_t len = 0;
	for (int i = 0; i < n; i++) len += put_ev(src + len, &g[i]);
	uint64_t min = g[0].clock; for (int i = 1; i < n; i++) if (g[i].clock < min) min = g[i].clock;
	uint8_t *heap = malloc(len); memcpy(heap, src, len);          /* exact-size object: ASan sees over-reads */
	uint64_t m = find_min_clock(heap, heap + len);
	long cnt = count_events(heap, heap + len);
	if (m != min) { free(heap); FAIL("find_min_clock returned %lu, specified %lu (the smallest clock of the region)", (unsigned long) m, (unsigned long) min); }
	if (cnt != n) { free(heap); FAIL("count_events returned %ld, specified %d", cnt, n); }
	uint8_t *out = malloc(len); memset(out, 0xEE, len);
	sort_buf(heap, out, (int64_t) len);
	uint8_t ra[MAXEV + 2][40], rb[MAXEV + 2][40]; uint64_t ca[MAXEV + 2], cb[MAXEV + 2];
	int na = split(src, src + len, ra, ca), nb = split(out, out + len, rb, cb);
	int bad = 0;
	if (memcmp(heap, src, len) != 0) { snprintf(why, sizeof(why), "sort_buf modified its source buffer"); bad = 1; }
	else if (nb != na) { snprintf(why, sizeof(why), "sort_buf output does not parse into the same number of events (%d vs %d)", nb, na); bad = 1; }
	else {
		for (int i = 1; i < nb && !bad; i++) if (cb[i] < cb[i - 1]) { snprintf(why, sizeof(why), "sort_buf output is not sorted: clock %lu follows %lu", (unsigned long) cb[i], (unsigned long) cb[i - 1]); bad = 1; }
		qsort(ra, (size_t) na, 40, evcmp_bytes); qsort(rb, (size_t) nb, 40, evcmp_bytes);
		if (!bad && memcmp(ra, rb, (size_t) na * 40) != 0) { snprintf(why, sizeof(why), "sort_buf output is not a permutation of the input events (an event was lost, duplicated or altered)"); bad = 1; }
	}
	(void) dst; free(heap); free(out);
	return bad;
}

/* a whole stream through stream_winsort */
static int stream_case(const struct gev *g, int n, int win)
{
	static struct stream s; static struct ring r; static struct ovni_ev *slots[64];
	size_t cap = 8 + MAXEV * 40; uint8_t *buf = malloc(cap), *orig = malloc(cap); size_t len = 8;
	memset(buf, 0, cap); memcpy(buf, "ovni", 4); buf[4] = 1;
	size_t off[MAXEV + 1];
	for (int i = 0; i < n; i++) { off[i] = len; len += put_ev(buf + len, &g[i]); }
	off[n] = len; memcpy(orig, buf, len);
	uint8_t *file = malloc(len); memcpy(file, buf, len); free(buf);           /* exact-size */
	memset(&s, 0, sizeof(s)); s.buf = file; s.size = (int64_t) len; s.usize = (int64_t) len - 8; s.offset = 8; s.active = 1; s.unsorted = 1;
	strcpy(s.relpath, "replay/thread.1"); strcpy(s.obspath, "replay/thread.1/stream.obs");
	r.size = win + 1; r.ev = slots; r.head = r.tail = 0;
	r_file = file; r_file_cap = len; r_pw_calls = 0; n_err = 0;
	jmp_buf jb; replay_die_jmp = &jb; int died = 0, ret = 0;
	if (setjmp(jb) != 0) died = 1; else ret = stream_winsort(&s, &r);
	replay_die_jmp = NULL;
	/* expectation: is the whole stream sortable?  (input convention of the runtime: disorder only inside OU[ .. OU]) */
	uint8_t ra[MAXEV + 2][40], rb[MAXEV + 2][40]; uint64_t ca[MAXEV + 2], cb[MAXEV + 2];
	int na = split(orig + 8, orig + len, ra, ca), nb = split(file + 8, file + len, rb, cb);
	int bad = 0;
	if (memcmp(file, orig, 8) != 0) { snprintf(why, sizeof(why), "the stream header was overwritten"); bad = 1; }
	else if (nb != na) { snprintf(why, sizeof(why), "after ovnisort the stream no longer parses into the same number of events (%d vs %d)", nb, na); bad = 1; }
	else {
		/* the ring (size win + 1) holds `win` entries: while fewer events than that precede the end marker the window
		 * reaches back to the start of the stream and the region MUST be sortable; beyond that a refusal is legitimate */
		int before_end = 0; for (int i = 0; i < n && g[i].kind != 5; i++) before_end++;
		int window_ok = before_end < win;
		if (died) { snprintf(why, sizeof(why), "ovnisort died on a well-formed stream"); bad = 1; }
		else if (window_ok && ret != 0) { snprintf(why, sizeof(why), "stream_winsort failed (%d) although the look-back window suffices", ret); bad = 1; }
		else if (ret != 0 && n_err == 0) { snprintf(why, sizeof(why), "stream_winsort failed without a diagnostic"); bad = 1; }
		else if (ret == 0) {
			for (int i = 1; i < nb && !bad; i++) if (cb[i] < cb[i - 1]) { snprintf(why, sizeof(why), "after a successful ovnisort the stream is NOT sorted: clock %lu follows %lu", (unsigned long) cb[i], (unsigned long) cb[i - 1]); bad = 1; }
		}
		if (!bad) {
			qsort(ra, (size_t) na, 40, evcmp_bytes); qsort(rb, (size_t) nb, 40, evcmp_bytes);
			if (memcmp(ra, rb, (size_t) na * 40) != 0) { snprintf(why, sizeof(why), "after ovnisort the stream does not hold the same events byte for byte (an event was lost, duplicated or altered)"); bad = 1; }
		}
	}
	free(file); free(orig); r_file = NULL;
	return bad;
}

int main(void)
{
	setvbuf(stdout, NULL, _IONBF, 0);
	static const uint64_t ck[] = {30, 10, 20, 10, 0x100000005ULL, 25};
	/* (1) regions of k events, every size mix, clocks from the pool */
	for (int k = 1; k <= 4; k++) for (int sm = 0; sm < 256; sm++) for (int cm = 0; cm < 1296; cm += 7) {
		struct gev g[4]; int s = sm, c = cm;
		for (int i = 0; i < k; i++) { g[i].kind = s & 3; s >>= 2; g[i].clock = ck[c % 6]; c /= 6; g[i].id = i; }
		if (k < 4 && sm >= (1 << (2 * k))) break;
		if (region_case(g, k)) { printf("REPRODUCED %s", why); show(g, k, 0); return 1; }
	}
	/* (2) whole streams: p sorted events, OU[, q unsorted events, OU], one more event; every window */
	for (int p = 0; p <= 3; p++) for (int q = 0; q <= 3; q++) for (int sm = 0; sm < 64; sm += 5) for (int cm = 0; cm < 216; cm++) for (int win = 2; win <= 9; win += 3) {
		struct gev g[MAXEV]; int n = 0, s = sm, c = cm;
		for (int i = 0; i < p; i++) { g[n].clock = 100 + 10 * (uint64_t) i; g[n].kind = (s >> i) & 3; g[n].id = n; n++; }
		g[n].clock = 100 + 10 * (uint64_t) p; g[n].kind = 4; g[n].id = n; n++;
		for (int i = 0; i < q; i++) { g[n].clock = 95 + 10 * (uint64_t) (c % 6); c /= 6; g[n].kind = (s >> (i + 2)) & 3; g[n].id = n; n++; }
		g[n].clock = 160; g[n].kind = 5; g[n].id = n; n++;
		g[n].clock = 170; g[n].kind = s & 3; g[n].id = n; n++;
		if (stream_case(g, n, win)) { printf("REPRODUCED %s", why); show(g, n, win); return 1; }
	}
	printf("not reproduced: the ovnisort core keeps every event and sorts every stream tried\n");
	return 0;
}
