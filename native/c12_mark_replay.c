/* C12 native replay of mark_event on the REAL src/emu/ovni/mark.c.
 * Witness: W_PSIZE (payload size, != 12).  Specification: OM[ / OM] / OM= need exactly 12 bytes of
 * payload (i64 value + i32 type); any other size is refused (-1, diagnostic) before anything is
 * looked up or called.  extend_get (the only way to the mark tables) counts the call and hands out
 * an empty model state. */
#include "c12_replay_common.h"
#include "ovni/mark.c"      /* the real src/emu/ovni/mark.c */
#ifndef W_PSIZE
#define W_PSIZE 8
#endif
static int n_calls;
static struct ovni_emu oemu; static struct ovni_thread oth;
void *extend_get(struct extend *ext, int id) { n_calls++; return ext == NULL ? NULL : (id == 'O' ? (void *) &oemu : NULL); }
int main(void)
{
	static struct emu emu; static struct emu_ev ev; static struct thread th;
	size_t psize = (size_t) (W_PSIZE);
	if (psize > (1UL << 20)) psize = (1UL << 20);
	if (psize == 12) { printf("not reproduced: 12 bytes is outside the precondition of this claim\n"); return 0; }
	uint8_t *payload = psize ? malloc(psize) : NULL;
	if (psize) memset(payload, 0, psize);
	ev.m = 'O'; ev.c = 'M'; ev.v = '['; strcpy(ev.mcv, "OM[");
	ev.payload_size = psize; ev.has_payload = psize > 0; ev.payload = (const union ovni_ev_payload *) payload;
	emu.ev = &ev; emu.thread = &th; (void) oth;
	int r = mark_event(&emu);
	if (r != -1 || n_calls != 0 || n_err == 0) {
		printf("REPRODUCED mark_event: payload of %zu bytes (12 specified) must be refused before anything is looked up, "
			"but returned %d, %d look-ups, %d diagnostics\n", psize, r, n_calls, n_err);
		return 1;
	}
	printf("not reproduced: mark_event refused a payload of %zu bytes untouched, as specified\n", psize);
	return 0;
}
