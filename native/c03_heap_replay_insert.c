#define REPLAY_OP 0
#include "c03_heap_replay.h"
