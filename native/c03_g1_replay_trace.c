#define REPLAY_OP 2
#include "c03_g1_replay.h"
