#define REPLAY_OP 3
#include "c15_loom_replay.h"
