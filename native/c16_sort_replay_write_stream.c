#define REPLAY_OP 3
#include "c16_sort_replay.h"
