/* Native replay of a failed C05 obligation of group loom_get_cpu on the REAL src/emu/loom.c.
 * Witness ghosts (harness/c05_loom.h): W_LG_INDEX, W_LG_NCPUS, W_LG_CELL_NULL (the table entry an
 * in-range index names is empty).
 * The loom's CPU table holds exactly W_LG_NCPUS entries and ends at an inaccessible page, so that a
 * read past its end faults (a fault, like any sanitizer report, is a reproduction).  Specification
 * (statement): index -1 names the loom's virtual CPU; an index in [0, ncpus) names the CPU stored at
 * that position; every other index names no CPU.
 * exit 0: behaves as specified (not reproduced); non-zero: mismatch or memory error (reproduced). */
#include "c04c05_replay_stubs.h"
#include <sys/mman.h>
#include <unistd.h>
#include "loom.c"

NSTUB(cpu_get_index) NSTUB(cpu_get_phyid) NSTUB(cpu_init_begin) NSTUB(cpu_set_loom)
NSTUB(json_array_get_count) NSTUB(json_array_get_object) NSTUB(json_object_dotget_array)
NSTUB(json_object_dotget_string) NSTUB(json_object_get_number) NSTUB(proc_find_thread)
NSTUB(proc_get_pid) NSTUB(proc_set_loom) NSTUB(proc_sort) NSTUB(stream_metadata)

#ifndef W_LG_INDEX
#define W_LG_INDEX 1
#endif
#ifndef W_LG_NCPUS
#define W_LG_NCPUS 2
#endif
#ifndef W_LG_CELL_NULL
#define W_LG_CELL_NULL 0
#endif

int main(void)
{
	struct loom *loom = calloc(1, sizeof(*loom));
	struct cpu *cell = calloc(1, sizeof(*cell));
	int index = (int) (W_LG_INDEX);
	size_t n = (size_t) (W_LG_NCPUS);
	if (n > 0x7fffffffUL) { printf("not reproduced: witness ncpus is outside the precondition\n"); return 0; }
	loom->ncpus = n;
	loom->id = "loom.replay";
	if (n > 0) {
		size_t page = (size_t) sysconf(_SC_PAGESIZE);
		size_t bytes = n * sizeof(struct cpu *);
		size_t span = (bytes + page - 1) / page * page;
		/* one inaccessible page before and after the table */
		char *base = mmap(NULL, span + 2 * page, PROT_NONE, MAP_PRIVATE | MAP_ANONYMOUS | MAP_NORESERVE, -1, 0);
		if (base == MAP_FAILED || mprotect(base + page, span, PROT_READ | PROT_WRITE) != 0) {
			printf("not reproduced: cannot map a table of %zu entries\n", n);
			return 0;
		}
		loom->cpus_array = (struct cpu **) (base + page + span - bytes);
	}
	int in_range = index >= 0 && (size_t) index < n;
	if (in_range)
		loom->cpus_array[index] = (W_LG_CELL_NULL) ? NULL : cell;
	struct cpu *want = index == -1 ? &loom->vcpu : in_range ? loom->cpus_array[index] : NULL;

	struct cpu *got = loom_get_cpu(loom, index);

	if (got != want) {
		printf("REPRODUCED loom_get_cpu(index %d, ncpus %zu) returned %s, specified %s\n", index, n,
			got == NULL ? "no CPU" : got == &loom->vcpu ? "the virtual CPU" : got == cell ? "the table entry" : "a stray pointer",
			want == NULL ? "no CPU" : want == &loom->vcpu ? "the virtual CPU" : "the table entry");
		return 1;
	}
	if (r_nerr != 0) { printf("REPRODUCED loom_get_cpu issued a diagnostic\n"); return 1; }
	printf("not reproduced: loom_get_cpu(index %d, ncpus %zu) as specified\n", index, n);
	return 0;
}
