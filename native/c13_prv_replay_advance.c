#define REPLAY_OP 0
#include "c13_prv_replay.h"
