#define REPLAY_OP 6
#include "c15_loom_replay.h"
