/* C15 native replay of failed loom / system level obligations on the REAL src/emu/loom.c and system.c
 * (with the real proc.c, thread.c, cpu.c, stream.c, parson.c in the same TU).
 * REPLAY_OP: 0 by_pid/by_rank/by_phyid (+ preorders)   1 loom_get_cpu        2 loom_set_rank_min
 *            3 loom_add_cpu   4 loom_add_proc            5 cmp_loom_rank / cmp_loom_id (+ preorders)
 *            6 set_sort_criteria                         7 sort_lpt / loom_sort
 * Witnesses: W_LG_INDEX W_LG_NCPUS | W_RM_N W_RM_RANK0..2 W_RM_OLD_MIN W_RM_OLD_ENABLED | W_AC_PHYID W_AC_DUP
 *   W_AC_ISINIT | W_AP_DUP W_AP_ISINIT | W_SC_N W_SRM_RET0..2 W_SRM_EN0..2 | W_SL_N W_SL_BY_RANK | W_SO_N W_SO_RE.
 * Specification (property statement): the loom/CPU/process order and the rank criterion depend only on
 * the SET of definitions: comparators are exact three-way comparisons on the documented key; rank_min is
 * the MINIMUM rank of the loom's processes; mixed rank / no rank is refused; the system sorts by rank iff
 * ALL looms have ranks; lookups by index are exact.  Finite neighbourhoods are tried after the witness.
 * Linked with -Wl,--unresolved-symbols=ignore-all.  exit 0: as specified; exit 1: REPRODUCED. */
#include "c12_replay_common.h"
#include "parson.c"
#include "stream.c"
#include "proc.c"
#include "thread.c"
#define chan_name cpu_chan_name
#define chan_type cpu_chan_type
#define prv_flags cpu_prv_flags
#define pvt_name cpu_pvt_name
#define pvt_type cpu_pvt_type
#include "cpu.c"
#undef chan_name
#undef chan_type
#undef prv_flags
#undef pvt_name
#undef pvt_type
#include "loom.c"
#include "system.c"
#define VASSERT(c, m) do { } while (0)
#include "harness/c15_spec.h"

#ifndef W_LG_INDEX
#define W_LG_INDEX 1
#endif
#ifndef W_LG_NCPUS
#define W_LG_NCPUS 3
#endif
#ifndef W_RM_N
#define W_RM_N 3
#endif
#ifndef W_RM_RANK0
#define W_RM_RANK0 5
#endif
#ifndef W_RM_RANK1
#define W_RM_RANK1 2
#endif
#ifndef W_RM_RANK2
#define W_RM_RANK2 7
#endif
#ifndef W_RM_OLD_MIN
#define W_RM_OLD_MIN INT_MAX
#endif
#ifndef W_RM_OLD_ENABLED
#define W_RM_OLD_ENABLED 0
#endif
#ifndef W_AC_PHYID
#define W_AC_PHYID 4
#endif
#ifndef W_AC_DUP
#define W_AC_DUP 0
#endif
#ifndef W_AC_ISINIT
#define W_AC_ISINIT 0
#endif
#ifndef W_AP_DUP
#define W_AP_DUP 0
#endif
#ifndef W_AP_ISINIT
#define W_AP_ISINIT 0
#endif
#ifndef W_SC_N
#define W_SC_N 3
#endif
#ifndef W_SRM_RET0
#define W_SRM_RET0 0
#endif
#ifndef W_SRM_RET1
#define W_SRM_RET1 0
#endif
#ifndef W_SRM_RET2
#define W_SRM_RET2 0
#endif
#ifndef W_SRM_EN0
#define W_SRM_EN0 1
#endif
#ifndef W_SRM_EN1
#define W_SRM_EN1 0
#endif
#ifndef W_SRM_EN2
#define W_SRM_EN2 1
#endif

static char why[400];
#define FAIL(...) do { snprintf(why, sizeof(why), __VA_ARGS__); return 1; } while (0)
static const int iprobe[] = {0, 1, -1, 2, 7, 100, 0x7fffffff, -0x7fffffff - 1, 0x40000000, -0x40000000, 0x7ffffffe};
#define NIP ((int) (sizeof(iprobe) / sizeof(iprobe[0])))

/* ---- 0: comparators of loom.c ---- */
static int op_comparators(void)
{
	struct proc *p = calloc(2, sizeof(*p)); struct cpu *c0 = calloc(1, sizeof(*c0)), *c1 = calloc(1, sizeof(*c1));
	for (int i = 0; i < NIP; i++) for (int j = 0; j < NIP; j++) {
		int e = SPEC_CMP3(iprobe[i], iprobe[j]), r;
		p[0].pid = iprobe[i]; p[1].pid = iprobe[j]; p[0].rank = 3; p[1].rank = 3;
		if ((r = by_pid(&p[0], &p[1])) != e) { printf("REPRODUCED by_pid(pid %d, pid %d) returned %d, specified %d\n", iprobe[i], iprobe[j], r, e); return 1; }
		p[0].rank = iprobe[i]; p[1].rank = iprobe[j]; p[0].pid = 3; p[1].pid = 3;
		if ((r = by_rank(&p[0], &p[1])) != e) { printf("REPRODUCED by_rank(rank %d, rank %d) returned %d, specified %d\n", iprobe[i], iprobe[j], r, e); return 1; }
		c0->phyid = iprobe[i]; c1->phyid = iprobe[j]; c0->index = 3; c1->index = 3;
		if ((r = by_phyid(c0, c1)) != e) { printf("REPRODUCED by_phyid(phyid %d, phyid %d) returned %d, specified %d\n", iprobe[i], iprobe[j], r, e); return 1; }
	}
	if (by_pid(&p[0], &p[0]) != 0 || by_rank(&p[0], &p[0]) != 0 || by_phyid(c0, c0) != 0) { printf("REPRODUCED a loom comparator is not reflexive\n"); return 1; }
	printf("not reproduced: by_pid / by_rank / by_phyid are exact three-way comparisons on %d x %d probe keys\n", NIP, NIP);
	return 0;
}

/* ---- 1: loom_get_cpu ---- */
static int gc_case(int index, unsigned long ncpus)
{
	static struct loom loom; memset(&loom, 0, sizeof(loom));
	if (ncpus > 4096) ncpus = 4096;                 /* keep the array allocatable; the index is scaled alike by the caller */
	struct cpu **arr = ncpus ? calloc(ncpus, sizeof(*arr)) : NULL;
	for (unsigned long i = 0; i < ncpus; i++) arr[i] = (struct cpu *) (uintptr_t) (0x1000 + 8 * i);   /* distinct tokens, never dereferenced */
	loom.ncpus = ncpus; loom.cpus_array = arr;
	struct cpu *r = loom_get_cpu(&loom, index);
	struct cpu *e = index == -1 ? &loom.vcpu : (index < 0 || (unsigned long) index >= ncpus) ? NULL : arr[index];
	free(arr);
	if (r != e) FAIL("loom_get_cpu(index %d) on a loom with %lu CPUs returned %s, specified %s", index, ncpus,
		r == NULL ? "NULL" : r == &loom.vcpu ? "the virtual CPU" : "a CPU", e == NULL ? "NULL (no such CPU)" : e == &loom.vcpu ? "the virtual CPU" : "the CPU with that index");
	return 0;
}
static int op_get_cpu(void)
{
	unsigned long n = (unsigned long) (W_LG_NCPUS); int idx = (W_LG_INDEX);
	if (n > 4096) { if (idx >= 0 && (unsigned long) idx >= n) idx = 4096 + (idx & 0xff); else if (idx > 4095) idx = 4095; n = 4096; }
	if (gc_case(idx, n)) { printf("REPRODUCED %s\n", why); return 1; }
	for (unsigned long k = 0; k <= 4; k++) for (int i = -3; i <= 6; i++) if (gc_case(i, k)) { printf("REPRODUCED %s (found next to the witness)\n", why); return 1; }
	if (gc_case(0x7fffffff, 3) || gc_case(-0x7fffffff - 1, 3)) { printf("REPRODUCED %s (found next to the witness)\n", why); return 1; }
	printf("not reproduced: loom_get_cpu is exact on the witness and the neighbourhood\n");
	return 0;
}

/* ---- 2: loom_set_rank_min ---- */
static struct proc *mkproc(int pid, int rank) { struct proc *p = calloc(1, sizeof(*p)); p->pid = pid; p->rank = rank; p->nranks = rank >= 0 ? 0x7fffffff : 0; snprintf(p->id, sizeof(p->id), "proc.%d", pid); return p; }
static void free_procs(struct loom *l) { struct proc *p, *tmp; HASH_ITER(hh, l->procs, p, tmp) { HASH_DEL(l->procs, p); free(p); } l->nprocs = 0; }
static int rm_case(int n, const int *rank, int old_min)
{
	static struct loom loom; memset(&loom, 0, sizeof(loom)); strcpy(loom.name, "loom.replay"); loom.id = loom.name;
	for (int i = 0; i < n; i++) if (loom_add_proc(&loom, mkproc(100 + i, rank[i])) != 0) FAIL("setup: loom_add_proc refused");
	loom.rank_min = old_min; loom.rank_enabled = 0; n_err = 0;
	int some = 0, lacks = 0, min = INT_MAX;
	for (int i = 0; i < n; i++) { if (rank[i] >= 0) some = 1; else lacks = 1; if (rank[i] < min) min = rank[i]; }
	int ok = old_min == INT_MAX && (!some || !lacks);
	int r = loom_set_rank_min(&loom);
	int en = loom.rank_enabled, rmin = loom.rank_min;
	free_procs(&loom);
	if ((r == 0) != ok) FAIL("loom_set_rank_min returned %d, specified %s", r, ok ? "0" : "-1 (already set, or processes with and without rank mixed)");
	if (r != 0 && n_err == 0) FAIL("loom_set_rank_min refused without a diagnostic");
	if (r == 0 && !some && (en != 0 || rmin != INT_MAX)) FAIL("no process has a rank but rank_enabled=%d rank_min=%d", en, rmin);
	if (r == 0 && some && (en != 1 || rmin != min)) FAIL("rank_min is %d (rank_enabled=%d) but the minimum rank of the loom's processes is %d", rmin, en, min);
	return 0;
}
static void rm_show(int n, const int *rank, int old_min) { printf(" [processes=%d ranks (insertion order)=%d,%d,%d old rank_min=%d]\n", n, rank[0], rank[1], rank[2], old_min); }
static int op_rank_min(void)
{
	int rank[3] = {(W_RM_RANK0), (W_RM_RANK1), (W_RM_RANK2)}, n = (W_RM_N);
	if (n < 0) n = 0; if (n > 3) n = 3;
	if (rm_case(n, rank, (W_RM_OLD_MIN))) { printf("REPRODUCED %s", why); rm_show(n, rank, (W_RM_OLD_MIN)); return 1; }
	static const int rv[] = {-1, 0, 2, 5, 9};
	for (n = 0; n <= 3; n++) for (int a = 0; a < 5; a++) for (int b = 0; b < 5; b++) for (int c = 0; c < 5; c++) for (int om = 0; om < 2; om++) {
		int rk[3] = {rv[a], rv[b], rv[c]};
		if (rm_case(n, rk, om ? 4 : INT_MAX)) { printf("REPRODUCED %s (found next to the witness)", why); rm_show(n, rk, om ? 4 : INT_MAX); return 1; }
	}
	printf("not reproduced: loom_set_rank_min behaves as specified on the witness and the neighbourhood;"); rm_show((W_RM_N), rank, (W_RM_OLD_MIN));
	return 0;
}

/* ---- 3/4: loom_add_cpu / loom_add_proc ---- */
static int ac_case(int phyid, int dup, int isinit)
{
	static struct loom loom; memset(&loom, 0, sizeof(loom));
	struct cpu *prev = calloc(1, sizeof(*prev)), *c = calloc(1, sizeof(*c));
	prev->phyid = phyid; c->phyid = phyid;
	if (dup && phyid >= 0 && loom_add_cpu(&loom, prev) != 0) FAIL("setup: loom_add_cpu refused the first CPU");
	size_t n0 = loom.ncpus; loom.is_init = isinit; n_err = 0;
	int r = loom_add_cpu(&loom, c);
	int ok = phyid >= 0 && !dup && !isinit;
	int bad = 0;
	if ((r == 0) != ok) { snprintf(why, sizeof(why), "loom_add_cpu(phyid %d, duplicate=%d, initialized loom=%d) returned %d, specified %s", phyid, dup, isinit, r, ok ? "0" : "-1"); bad = 1; }
	else if (r == 0 && (loom.ncpus != n0 + 1 || c->loom != &loom || loom_find_cpu(&loom, phyid) != c)) { snprintf(why, sizeof(why), "loom_add_cpu accepted but the CPU is not registered"); bad = 1; }
	else if (r != 0 && (loom.ncpus != n0 || n_err == 0)) { snprintf(why, sizeof(why), "loom_add_cpu refused but changed the loom or gave no diagnostic"); bad = 1; }
	HASH_CLEAR(hh, loom.cpus); free(prev); free(c);
	return bad;
}
static int ap_case(int dup, int isinit)
{
	static struct loom loom; memset(&loom, 0, sizeof(loom));
	struct proc *prev = mkproc(77, -1), *p = mkproc(77, -1);
	if (dup && loom_add_proc(&loom, prev) != 0) FAIL("setup: loom_add_proc refused the first process");
	size_t n0 = loom.nprocs; loom.is_init = isinit; n_err = 0;
	int r = loom_add_proc(&loom, p);
	int ok = !dup && !isinit, bad = 0;
	if ((r == 0) != ok) { snprintf(why, sizeof(why), "loom_add_proc(duplicate pid=%d, initialized loom=%d) returned %d, specified %s", dup, isinit, r, ok ? "0" : "-1"); bad = 1; }
	else if (r == 0 && (loom.nprocs != n0 + 1 || p->loom != &loom || loom_find_proc(&loom, 77) != p)) { snprintf(why, sizeof(why), "loom_add_proc accepted but the process is not registered"); bad = 1; }
	else if (r != 0 && (loom.nprocs != n0 || n_err == 0)) { snprintf(why, sizeof(why), "loom_add_proc refused but changed the loom or gave no diagnostic"); bad = 1; }
	HASH_CLEAR(hh, loom.procs); free(prev); free(p);
	return bad;
}
static int op_add_cpu(void)
{
	if (ac_case((W_AC_PHYID), (W_AC_DUP) != 0, (W_AC_ISINIT) != 0)) { printf("REPRODUCED %s\n", why); return 1; }
	for (int d = 0; d < 2; d++) for (int i = 0; i < 2; i++) for (int k = 0; k < 5; k++) if (ac_case(iprobe[k], d, i)) { printf("REPRODUCED %s (found next to the witness)\n", why); return 1; }
	printf("not reproduced: loom_add_cpu behaves as specified\n"); return 0;
}
static int op_add_proc(void)
{
	if (ap_case((W_AP_DUP) != 0, (W_AP_ISINIT) != 0)) { printf("REPRODUCED %s\n", why); return 1; }
	for (int d = 0; d < 2; d++) for (int i = 0; i < 2; i++) if (ap_case(d, i)) { printf("REPRODUCED %s (found next to the witness)\n", why); return 1; }
	printf("not reproduced: loom_add_proc behaves as specified\n"); return 0;
}

/* ---- 5: loom comparators of system.c ---- */
static int sgn(int x) { return x > 0 ? 1 : (x < 0 ? -1 : 0); }
static int op_loom_cmp(void)
{
	struct loom *l = calloc(2, sizeof(*l));
	for (int i = 0; i < NIP; i++) for (int j = 0; j < NIP; j++) {
		l[0].rank_min = iprobe[i]; l[1].rank_min = iprobe[j]; strcpy(l[0].name, "loom.x"); strcpy(l[1].name, "loom.x"); l[0].id = l[0].name; l[1].id = l[1].name;
		int r = cmp_loom_rank(&l[0], &l[1]), e = SPEC_CMP3(iprobe[i], iprobe[j]);
		if (r != e) { printf("REPRODUCED cmp_loom_rank(rank_min %d, rank_min %d) returned %d, specified %d\n", iprobe[i], iprobe[j], r, e); return 1; }
	}
	static const char *nm[] = {"", "a", "b", "ab", "ba", "loom.node1.0", "loom.node1.1", "loom.node10.0", "loom.node2.0", "\x80z"};
	for (int i = 0; i < 10; i++) for (int j = 0; j < 10; j++) {
		strcpy(l[0].name, nm[i]); strcpy(l[1].name, nm[j]); l[0].id = l[0].name; l[1].id = l[1].name; l[0].rank_min = 5; l[1].rank_min = 1;
		int r = cmp_loom_id(&l[0], &l[1]);
		if (sgn(r) != sgn(strcmp(nm[i], nm[j]))) { printf("REPRODUCED cmp_loom_id(\"%s\", \"%s\") returned %d, but strcmp of the ids has sign %d\n", nm[i], nm[j], r, sgn(strcmp(nm[i], nm[j]))); return 1; }
	}
	printf("not reproduced: cmp_loom_rank / cmp_loom_id order by the documented key on the probe set\n");
	return 0;
}

/* ---- 6: set_sort_criteria on real looms (real loom_set_rank_min) ----
 * loom k: en=1 -> its processes all have a rank; en=0 -> none has; ret=-1 -> rank information refused (mixed) */
static struct loom *mkloom(int k, int en, int bad)
{
	struct loom *l = calloc(1, sizeof(*l)); snprintf(l->name, sizeof(l->name), "loom.n%d", k); l->id = l->name; l->rank_min = INT_MAX;
	loom_add_proc(l, mkproc(10 * k + 1, en ? 4 + k : -1));
	loom_add_proc(l, mkproc(10 * k + 2, bad ? (en ? -1 : 3) : (en ? 1 + k : -1)));
	return l;
}
static int sc_case(int n, const int *ret, const int *en)
{
	static struct system sys; memset(&sys, 0, sizeof(sys));
	struct loom *L[3];
	for (int k = 0; k < n; k++) { L[k] = mkloom(k, en[k], ret[k] != 0); DL_APPEND(sys.looms, L[k]); }
	sys.nlooms = (size_t) n; n_err = 0;
	int ok = 1, all = 1;
	for (int k = 0; k < n; k++) { if (ret[k] != 0) ok = 0; if (!en[k]) all = 0; }
	int r = set_sort_criteria(&sys);
	int bad = 0;
	if ((r == 0) != ok) { snprintf(why, sizeof(why), "set_sort_criteria returned %d, specified %s", r, ok ? "0" : "-1 (a loom's rank information is refused)"); bad = 1; }
	else if (r != 0 && (n_err == 0 || sys.sort_by_rank != 0)) { snprintf(why, sizeof(why), "set_sort_criteria refused without a diagnostic or set sort_by_rank"); bad = 1; }
	else if (r == 0 && sys.sort_by_rank != all) { snprintf(why, sizeof(why), "sort_by_rank is %d but %s", sys.sort_by_rank, all ? "ALL looms have ranks (sort by rank)" : "NOT all looms have ranks (sort by name)"); bad = 1; }
	else if (r == 0) for (int k = 0; k < n; k++) if (en[k] && L[k]->rank_min != 1 + k) { snprintf(why, sizeof(why), "loom %d did not get its rank_min computed (%d, specified %d)", k, L[k]->rank_min, 1 + k); bad = 1; }
	for (int k = 0; k < n; k++) { free_procs(L[k]); free(L[k]); }
	return bad;
}
static void sc_show(int n, const int *ret, const int *en) { printf(" [looms=%d have-ranks=%d,%d,%d rank-info-refused=%d,%d,%d]\n", n, en[0], en[1], en[2], ret[0] != 0, ret[1] != 0, ret[2] != 0); }
static int op_sort_criteria(void)
{
	int ret[3] = {(W_SRM_RET0), (W_SRM_RET1), (W_SRM_RET2)}, en[3] = {(W_SRM_EN0) != 0, (W_SRM_EN1) != 0, (W_SRM_EN2) != 0}, n = (W_SC_N);
	if (n < 0) n = 0; if (n > 3) n = 3;
	if (sc_case(n, ret, en)) { printf("REPRODUCED %s", why); sc_show(n, ret, en); return 1; }
	for (n = 0; n <= 3; n++) for (int e = 0; e < 8; e++) for (int b = 0; b < 8; b++) {
		int rt[3] = {-(b & 1), -((b >> 1) & 1), -((b >> 2) & 1)}, ee[3] = {e & 1, (e >> 1) & 1, (e >> 2) & 1};
		if (sc_case(n, rt, ee)) { printf("REPRODUCED %s (found next to the witness)", why); sc_show(n, rt, ee); return 1; }
	}
	n = (W_SC_N); printf("not reproduced: set_sort_criteria behaves as specified on the witness and the neighbourhood;"); sc_show(n, ret, en);
	return 0;
}

/* ---- 7: sort_lpt / loom_sort: after sorting, every list is ascending on the documented key ---- */
static int sl_case(int by_rank, int perm)
{
	static struct system sys; memset(&sys, 0, sizeof(sys));
	static const int order[6][3] = {{0, 1, 2}, {0, 2, 1}, {1, 0, 2}, {1, 2, 0}, {2, 0, 1}, {2, 1, 0}};
	struct loom *L[3];
	for (int i = 0; i < 3; i++) {
		int k = order[perm][i];
		struct loom *l = calloc(1, sizeof(*l)); L[i] = l;
		snprintf(l->name, sizeof(l->name), "loom.%c", 'c' - k); l->id = l->name;      /* names descend while ranks ascend */
		l->rank_enabled = by_rank; l->rank_min = by_rank ? 10 * k : INT_MAX;
		for (int j = 0; j < 3; j++) {
			int q = order[(perm + k + 1) % 6][j];
			struct proc *p = mkproc(500 - 7 * q - 100 * k, by_rank ? 10 * k + q : -1);
			loom_add_proc(l, p);
			for (int t = 0; t < 2; t++) { struct thread *th = calloc(1, sizeof(*th)); th->tid = 1000 * q + (t ? 3 : 9); proc_add_thread(p, th); }
		}
		for (int j = 0; j < 3; j++) { struct cpu *c = calloc(1, sizeof(*c)); c->phyid = 40 - order[perm][j] * 3; loom_add_cpu(l, c); }
		DL_APPEND(sys.looms, l);
	}
	sys.nlooms = 3; sys.sort_by_rank = by_rank;
	sort_lpt(&sys);
	int cnt = 0;
	for (struct loom *l = sys.looms; l; l = l->next) {
		cnt++;
		if (l->next && (by_rank ? l->rank_min > l->next->rank_min : strcmp(l->id, l->next->id) > 0))
			FAIL("sort_lpt: looms not ascending by %s (%s rank_min %d before %s rank_min %d)", by_rank ? "minimum rank" : "name", l->id, l->rank_min, l->next->id, l->next->rank_min);
		int np = 0;
		for (struct proc *p = l->procs; p; p = p->hh.next) {
			np++;
			struct proc *q = p->hh.next;
			if (q && (by_rank ? p->rank > q->rank : p->pid > q->pid)) FAIL("loom_sort: processes of %s not ascending by %s", l->id, by_rank ? "rank" : "pid");
			int nt = 0;
			for (struct thread *t = p->threads; t; t = t->hh.next) { nt++; struct thread *u = t->hh.next; if (u && t->tid > u->tid) FAIL("proc_sort: threads of pid %d not ascending by TID", p->pid); }
			if (nt != 2) FAIL("a thread was lost while sorting");
		}
		if (np != 3) FAIL("a process was lost while sorting");
		int nc = 0;
		for (struct cpu *c = l->cpus; c; c = c->hh.next) { nc++; struct cpu *d = c->hh.next; if (d && c->phyid > d->phyid) FAIL("loom_sort: CPUs of %s not ascending by phyid", l->id); }
		if (nc != 3) FAIL("a CPU was lost while sorting");
	}
	if (cnt != 3) FAIL("a loom was lost while sorting");
	return 0;   /* (memory of the case is left to the process exit) */
}
static int op_sort_lpt(void)
{
	for (int by_rank = 0; by_rank < 2; by_rank++) for (int perm = 0; perm < 6; perm++)
		if (sl_case(by_rank, perm)) { printf("REPRODUCED %s [sort_by_rank=%d, creation order permutation %d]\n", why, by_rank, perm); return 1; }
	printf("not reproduced: sort_lpt / loom_sort leave every list ascending on its key for every creation order tried\n");
	return 0;
}

int main(void)
{
	setvbuf(stdout, NULL, _IONBF, 0);
	switch (REPLAY_OP) {
	case 0: return op_comparators();
	case 1: return op_get_cpu();
	case 2: return op_rank_min();
	case 3: return op_add_cpu();
	case 4: return op_add_proc();
	case 5: return op_loom_cmp();
	case 6: return op_sort_criteria();
	default: return op_sort_lpt();
	}
}
