/* C12 native replay of emu_ev on the REAL src/emu/emu_ev.c (+ ovni_payload_size of src/rt/ovni.c).
 * Witnesses: W_FLAGS (flags byte of the event), W_EVPSIZE (payload size by the format),
 * W_OLD_IS_JUMBO (is_jumbo left in *ev by the previous event), W_EVOBJ (size of the event object).
 * Specification (trace_spec.md): low nibble 0 = no payload, n = n+1 bytes; 0x10 = jumbo: u32 size +
 * size bytes.  emu_ev must decode the shape from THIS event only. */
#include "c12_replay_common.h"
#include "ovni.h"
#include "parson.c"
#include "ovni.c"
#include "emu_ev.c"
#ifndef W_FLAGS
#define W_FLAGS 0x07
#endif
#ifndef W_OLD_IS_JUMBO
#define W_OLD_IS_JUMBO 1
#endif
#define IS_JUMBO (((W_FLAGS) & 0x10) != 0)
#define NIB ((W_FLAGS) & 0x0f)
#ifndef W_EVPSIZE
#define W_EVPSIZE (IS_JUMBO ? 4 + 100 : (NIB == 0 ? 0 : NIB + 1))
#endif
int main(void)
{
	long psize = (long) (W_EVPSIZE);
	int jumbo = IS_JUMBO;
	if (!jumbo) psize = NIB == 0 ? 0 : NIB + 1;            /* the format fixes it */
	if (jumbo && (psize < 4 || psize > 4L + 0xffffffffL)) { printf("not reproduced: witness is not an event of the format\n"); return 0; }
	size_t evsize = 12 + (size_t) psize;
	size_t room = evsize > (1u << 20) ? (1u << 20) : evsize;   /* emu_ev never reads jumbo data */
	uint8_t *buf = malloc(room);
	memset(buf, 0x5a, room);
	struct ovni_ev *oev = (struct ovni_ev *) buf;
	oev->header.flags = (uint8_t) (W_FLAGS); oev->header.model = 'O'; oev->header.category = 'U'; oev->header.value = '[';
	uint64_t clk = 123456789; memcpy(buf + 4, &clk, 8);
	if (jumbo) { uint32_t js = (uint32_t) (psize - 4); memcpy(buf + 12, &js, 4); }
	struct emu_ev ev; memset(&ev, 0x77, sizeof(ev));
	ev.is_jumbo = (W_OLD_IS_JUMBO); ev.has_payload = (W_OLD_IS_JUMBO);
	emu_ev(&ev, oev, 11, 22);
#define CHECK(c, what) if (!(c)) { printf("REPRODUCED emu_ev: %s (flags=0x%02x payload=%ld old_is_jumbo=%d: payload_size=%zu has_payload=%d is_jumbo=%d)\n", \
		what, (unsigned) (W_FLAGS) & 0xff, psize, (int) (W_OLD_IS_JUMBO), ev.payload_size, (int) ev.has_payload, (int) ev.is_jumbo); return 1; }
	CHECK(ev.m == 'O' && ev.c == 'U' && ev.v == '[', "model/category/value not copied");
	CHECK(ev.mcv[0] == 'O' && ev.mcv[1] == 'U' && ev.mcv[2] == '[' && ev.mcv[3] == '\0', "mcv is not the nil-terminated name");
	CHECK(ev.rclock == (int64_t) clk && ev.sclock == 11 && ev.dclock == 22, "clocks wrong");
	CHECK(ev.payload_size == (size_t) psize, "payload_size differs from the format");
	CHECK((ev.has_payload != 0) == (psize > 0) && (ev.has_payload == 0 || ev.has_payload == 1), "has_payload wrong");
	CHECK((ev.payload == NULL) == (psize == 0), "payload pointer presence wrong");
	CHECK(psize == 0 || (const uint8_t *) ev.payload == buf + 12, "payload pointer does not point behind the header");
	CHECK((ev.is_jumbo != 0) == jumbo && (ev.is_jumbo == 0 || ev.is_jumbo == 1), "is_jumbo not decoded from this event");
	printf("not reproduced: emu_ev decodes the event as specified (flags=0x%02x payload=%ld)\n", (unsigned) (W_FLAGS) & 0xff, psize);
	return 0;
}
