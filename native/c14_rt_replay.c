/* C14 native replay of ovni_version_check_str on the REAL src/rt/ovni.c (with the real version.h and
 * glibc).  Witness: the requested version string, bytes W_C0..W_C15 / W_NULL (c14_replay_common.h).
 * Specification (statement): "when a program checks the library version, a requested version is
 * accepted exactly when its major number equals the provider's and its minor number is not greater
 * (patch ignored); malformed version strings are refused".  The provider is OVNI_LIB_VERSION of the
 * generated ovni.h.  A refusal is a die(): each call runs in a forked child (exit 0: returned,
 * 3: died, anything else: crash).  After the witness: versions around the library's own, then the
 * corpus of c14_replay_common.h. */
#include "c14_replay_common.h"
#include <time.h>
#include <fcntl.h>
#include <sys/stat.h>
#include "ovni.h"
#include "ovni.c"
#include "parson.c"   /* the real parson, only to link; not exercised */
int mkpath(const char *path, mode_t mode, int is_dir) { (void) path; (void) mode; (void) is_dir; return 0; }

static long lib[3];
static const char *r_origin = "witness";
/* 0 returned, 3 died, else crashed */
static int run_child(const char *s)
{
	fflush(stdout);
	pid_t pid = fork();
	if (pid < 0) { printf("not reproduced: fork failed\n"); exit(0); }
	if (pid == 0) {
		r_in_child = 1;
		ovni_version_check_str(s);
		_exit(0);
	}
	int st = 0;
	if (waitpid(pid, &st, 0) != pid) { printf("not reproduced: waitpid failed\n"); exit(0); }
	if (WIFEXITED(st) && (WEXITSTATUS(st) == 0 || WEXITSTATUS(st) == 3)) return WEXITSTATUS(st);
	return 99;
}
static int one(const char *s)
{
	long want[3]; int finding;
	int wf = r_expect_parse(s, want, &finding);
	int legal = wf && R_COMPAT(want, lib);
	int r = run_child(s);
	if (r == 99) { printf("REPRODUCED ovni_version_check_str(%s) crashed instead of returning or dying [%s]\n", r_show(s), r_origin); return 1; }
	if ((r == 0) != legal) {
		printf("REPRODUCED ovni_version_check_str(%s) %s with library version %s; specified: %s (%s)%s [%s]\n", r_show(s),
			r == 0 ? "returned" : "died", OVNI_LIB_VERSION, legal ? "accepted" : "refused",
			!wf ? "malformed string" : want[0] != lib[0] ? "different major" : want[1] > lib[1] ? "newer minor" : "same major, minor not greater, patch ignored",
			finding ? " (lenient reading of known finding F-C14-1)" : "", r_origin);
		return 1;
	}
	return 0;
}
int main(void)
{
	if (!r_wellformed(OVNI_LIB_VERSION, lib)) { printf("REPRODUCED the library version string %s is malformed\n", OVNI_LIB_VERSION); return 1; }
	const char *s = r_witness_string();
	if (one(s)) return 1;
	r_origin = "around the library version, tried after the witness";
	char buf[128]; int n = 0;
	static const char *suf[] = { "", "-rc1" };
	for (long M = lib[0] - 1; M <= lib[0] + 1; M++) for (long m = lib[1] - 3; m <= lib[1] + 3; m++) for (long p = 0; p <= 2; p++) for (int x = 0; x < 2; x++) {
		if (M < 0 || m < 0) continue;
		long pp = p == 0 ? 0 : p == 1 ? lib[2] + 1 : 999;
		snprintf(buf, sizeof(buf), "%ld.%ld.%ld%s", M, m, pp, suf[x]);
		n++;
		if (one(buf)) return 1;
	}
	snprintf(buf, sizeof(buf), "%ld.0.0", lib[0]); if (one(buf)) return 1;
	snprintf(buf, sizeof(buf), "%ld.2147483647.0", lib[0]); if (one(buf)) return 1;
	snprintf(buf, sizeof(buf), "0x%lx.0x%lx.0", (unsigned long) lib[0], (unsigned long) lib[1]); if (one(buf)) return 1;
	snprintf(buf, sizeof(buf), "%ld.0%lo.0", lib[0], (unsigned long) lib[1] + 2); if (one(buf)) return 1;   /* octal reading would make it compatible */
	r_origin = "corpus, tried after the witness";
	if (one(NULL)) return 1;
	for (int i = 0; i < R_NFIXED; i++) if (one(r_fixed[i])) return 1;
	/* a slice of the token cube (each case is a fork) */
	for (int a = 0; a < R_NTOK; a++) for (int b = 0; b < R_NTOK; b++) {
		snprintf(buf, sizeof(buf), "%s.%s.0", r_tokens[a], r_tokens[b]);
		if (one(buf)) return 1;
		snprintf(buf, sizeof(buf), "%ld.%s.%s-x", lib[0], r_tokens[a], r_tokens[b]);
		if (one(buf)) return 1;
	}
	printf("not reproduced: ovni_version_check_str behaves as specified on the witness %s, on %d versions around %s and on the corpus\n", r_show(s), n, OVNI_LIB_VERSION);
	return 0;
}
