#define REPLAY_OP 4
#include "c16_sort_replay.h"
