#define REPLAY_OP 2
#include "c06_select_replay.h"
