#define REPLAY_OP 4
#include "c06_chan_replay.h"
