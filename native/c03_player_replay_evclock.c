#define REPLAY_OP 2
#include "c03_player_replay.h"
