#define REPLAY_OP 5
#include "c15_proc_replay.h"
