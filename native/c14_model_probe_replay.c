/* C14 native replay of model_probe on the REAL src/emu/model.c.
 * Witnesses (harness/c14_probe.c): W_K (observed model slot), W_REGISTERED, W_HAS_PROBE (what
 * model_register left in it), W_ENABLE_ALL (-a), W_RET_K / W_CALLED_K (what its probe answered, if
 * consulted), W_OTHER_RET / W_OTHER_N (what the last other probe consulted answered).
 * Specification (statement): "a model is enabled in emulation exactly when some stream requires it
 * (or all are forced on)": model_probe returns -1 (with a diagnostic) exactly when a probe it consulted
 * answered < 0 -- the trace requires a version the emulator cannot process; otherwise 0 and, for every
 * slot, enabled <=> registered, has a probe, and (its probe answered > 0 or -a); the probe of every
 * registered model is consulted exactly once; registered[], spec[] and the arguments are not changed.
 * Pre-state: what model_init + model_register leave (nothing enabled).  The witness configuration is
 * the observed slot plus one other registered slot on each side; then every combination of answers
 * in {-1, 0, 1, no probe, unregistered} for three slots, with and without -a, is tried. */
#include "c12_replay_common.h"
#include "model.c"
#ifndef W_K
#define W_K 'O'
#endif
#ifndef W_REGISTERED
#define W_REGISTERED 1
#endif
#ifndef W_HAS_PROBE
#define W_HAS_PROBE 1
#endif
#ifndef W_ENABLE_ALL
#define W_ENABLE_ALL 0
#endif
#ifndef W_RET_K
#define W_RET_K 1
#endif
#ifndef W_CALLED_K
#define W_CALLED_K 1
#endif
#ifndef W_OTHER_RET
#define W_OTHER_RET 0
#endif
#ifndef W_OTHER_N
#define W_OTHER_N 1
#endif
/* slot behaviour: answer of the probe, or NOPROBE / UNREG */
#define NOPROBE 1000
#define UNREG 1001
static int r_ans[3], r_calls[3]; static struct emu *r_arg[3];
static struct emu r_emu;
static int p0(struct emu *e) { r_calls[0]++; r_arg[0] = e; return r_ans[0]; }
static int p1(struct emu *e) { r_calls[1]++; r_arg[1] = e; return r_ans[1]; }
static int p2(struct emu *e) { r_calls[2]++; r_arg[2] = e; return r_ans[2]; }
static emu_hook_t *r_probe[3] = { p0, p1, p2 };
static const char *r_origin = "witness";
static void show(const int idx[3], const int beh[3], int all)
{
	printf(" (slots");
	for (int j = 0; j < 3; j++) {
		if (idx[j] < 0) continue;
		printf(" %d:", idx[j]);
		if (beh[j] == UNREG) printf("unregistered"); else if (beh[j] == NOPROBE) printf("no-probe"); else printf("probe=%d", beh[j]);
	}
	printf("; enable_all=%d) [%s]\n", all, r_origin);
}
/* idx[j] < 0: slot not used */
static int one(const int idx[3], const int beh[3], int all)
{
	static struct model model; static struct model_spec spec[3]; static struct model_evspec evspec;
	model_init(&model);
	memset(&r_emu, 0, sizeof(r_emu)); memset(&evspec, 0, sizeof(evspec));
	r_emu.args.enable_all_models = all;
	for (int j = 0; j < 3; j++) {
		r_calls[j] = 0; r_arg[j] = NULL; r_ans[j] = 0;
		if (idx[j] < 0) continue;
		memset(&spec[j], 0, sizeof(spec[j]));
		spec[j].name = "replay"; spec[j].version = "1.0.0"; spec[j].model = idx[j]; spec[j].evspec = &evspec;
		if (beh[j] != UNREG && beh[j] != NOPROBE) { spec[j].probe = r_probe[j]; r_ans[j] = beh[j]; }
		/* what model_register does, minus the event tables */
		model.spec[idx[j]] = beh[j] == UNREG ? NULL : &spec[j];
		model.registered[idx[j]] = beh[j] != UNREG;
	}
	int e0 = n_err;
	int r = model_probe(&model, &r_emu);
	/* specification: slots are consulted in index order (idx[] ascending) up to the first answer < 0 */
	int expect = 0, stop = 3;
	for (int j = 0; j < 3 && expect == 0; j++)
		if (idx[j] >= 0 && beh[j] != UNREG && beh[j] != NOPROBE && beh[j] < 0) { expect = -1; stop = j; }
	if (r != expect) {
		printf("REPRODUCED model_probe returned %d, specified %d: %s", r, expect,
			expect ? "a probe answered < 0 (a required model version cannot be processed) but the failure is not reported" : "refused although no probe failed");
		show(idx, beh, all); return 1;
	}
	if (r != 0 && n_err == e0) { printf("REPRODUCED model_probe failed without a diagnostic"); show(idx, beh, all); return 1; }
	for (int j = 0; j < 3; j++) {
		if (idx[j] < 0) continue;
		int hasp = beh[j] != UNREG && beh[j] != NOPROBE;
		if (r == 0) {
			int en = hasp && (beh[j] > 0 || all);
			if ((model.enabled[idx[j]] != 0) != en || (model.enabled[idx[j]] != 0 && model.enabled[idx[j]] != 1)) {
				printf("REPRODUCED model_probe: model slot %d is %s, specified %s (enabled <=> registered, has a probe, and its probe answered > 0 or -a)",
					idx[j], model.enabled[idx[j]] ? "enabled" : "not enabled", en ? "enabled" : "not enabled");
				show(idx, beh, all); return 1;
			}
			if (r_calls[j] != (hasp ? 1 : 0) || (hasp && r_arg[j] != &r_emu)) {
				printf("REPRODUCED model_probe consulted the probe of slot %d %d times, specified %d (with this emulator)", idx[j], r_calls[j], hasp ? 1 : 0);
				show(idx, beh, all); return 1;
			}
		} else if (j <= stop ? r_calls[j] != (hasp ? 1 : 0) : r_calls[j] > 1) {
			printf("REPRODUCED model_probe consulted the probe of slot %d %d times before failing", idx[j], r_calls[j]);
			show(idx, beh, all); return 1;
		}
		if (model.registered[idx[j]] != (beh[j] != UNREG) || model.spec[idx[j]] != (beh[j] == UNREG ? NULL : &spec[j])) {
			printf("REPRODUCED model_probe changed registered[] / spec[] of slot %d", idx[j]); show(idx, beh, all); return 1;
		}
	}
	/* nothing else is enabled */
	for (int i = 0; i < MAX_MODELS; i++)
		if (model.enabled[i] && i != idx[0] && i != idx[1] && i != idx[2]) {
			printf("REPRODUCED model_probe enabled the unregistered slot %d", i); show(idx, beh, all); return 1;
		}
	if (r_emu.args.enable_all_models != all) { printf("REPRODUCED model_probe changed emu->args"); show(idx, beh, all); return 1; }
	return 0;
}
int main(void)
{
	int k = (int) (W_K);
	if (k < 0 || k >= MAX_MODELS) { printf("not reproduced: slot outside the model table\n"); return 0; }
	int kbeh = !(W_REGISTERED) ? UNREG : !(W_HAS_PROBE) ? NOPROBE : (int) (W_RET_K);
	int obeh = (W_OTHER_N) > 0 ? (int) (W_OTHER_RET) : NOPROBE;
	int all = (int) (W_ENABLE_ALL);
	/* the observed slot in the middle; neighbours exist unless k is at an end of the table */
	int idx[3] = { k > 0 ? k - 1 : -1, k, k < MAX_MODELS - 1 ? k + 1 : -1 };
	/* the other probe that answered sits before the observed slot if that one was never consulted
	 * although it has a probe (the failure came first), else after it */
	int before = (W_REGISTERED) && (W_HAS_PROBE) && !(W_CALLED_K);
	if (before && idx[0] < 0) before = 0;
	if (!before && idx[2] < 0) before = 1;
	int beh[3] = { before ? obeh : NOPROBE, kbeh, before ? NOPROBE : obeh };
	if (!(W_CALLED_K) && kbeh != UNREG && kbeh != NOPROBE) beh[1] = 1;
	if (one(idx, beh, all)) return 1;
	r_origin = "tried after the witness";
	static const int dom[] = { -1, 0, 1, INT_MIN, INT_MAX, NOPROBE, UNREG };
	const int nd = (int) (sizeof(dom) / sizeof(dom[0]));
	long cnt = 0;
	for (int a = 0; a < nd; a++) for (int b = 0; b < nd; b++) for (int c = 0; c < nd; c++) for (int al = 0; al < 3; al++) {
		int bb[3] = { dom[a], dom[b], dom[c] };
		cnt++;
		if (one(idx, bb, al == 2 ? -5 : al)) return 1;
	}
	printf("not reproduced: model_probe behaves as specified on the witness (slot %d) and on %ld configurations of three slots\n", k, cnt);
	return 0;
}
