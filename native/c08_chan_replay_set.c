#define REPLAY_OP 3
#include "c08_chan_replay.h"
