#define REPLAY_OP 0
#include "c16_sort_replay.h"
