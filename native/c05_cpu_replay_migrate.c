#define REPLAY_OP 3
#include "c05_cpu_replay.h"
