#define REPLAY_OP 1
#include "c14_model_replay.h"
#ifndef W_NTHREADS
#define W_NTHREADS 2
#endif
#ifndef W_VERSION_WF
#define W_VERSION_WF 1
#endif
#ifndef W_V0
#define W_V0 0
#endif
#ifndef W_V1
#define W_V1 1
#endif
#ifndef W_V2
#define W_V2 0
#endif
static const char *r_origin = "witness";
/* variant: which concrete metadata realises a refusal (-1) / an acceptance (1) */
static int one(int wf, int n, const int v[3], int variant)
{
	static const char *bad[] = { NULL /* no ovni.require */, "2.0.0" /* other major */, "1.3.0" /* newer minor */, "1.2" /* malformed */, NULL /* no metadata */ };
	static const char *good[] = { "1.2.0", "1.0.7", "1.2.9-rc1" };
	r_spec.version = wf ? "1.2.0" : (variant % 2 ? "1.2" : "1.x.0");
	memset(&r_emu, 0, sizeof(r_emu));
	for (int i = 0; i < n; i++) {
		if (v[i] < 0) { int b = variant % 5; mk_stream(i, b == 0 ? 1 : b == 4 ? 0 : 3, bad[b]); }
		else if (v[i] == 0) mk_stream(i, 2, NULL);
		else mk_stream(i, 3, good[variant % 3]);
		r_th[i].gnext = NULL;
		if (i > 0) r_th[i - 1].gnext = &r_th[i];
	}
	r_emu.system.threads = n > 0 ? &r_th[0] : NULL;
	r_emu.system.nthreads = (size_t) n;
	int expect, anyneg = 0, anypos = 0;
	for (int i = 0; i < n; i++) { if (v[i] < 0) anyneg = 1; if (v[i] > 0) anypos = 1; }
	expect = !wf ? -1 : anyneg ? -1 : anypos ? 1 : 0;
	int e0 = n_err;
	int r = model_version_probe(&r_spec, &r_emu);
	const char *why = NULL;
	if (r != expect) why = expect == 1 ? "a model some stream requires is not enabled" : expect == 0 ? "a model no stream requires is not left disabled" :
		!wf ? "a malformed model version is not refused" : "a stream with an unreadable, malformed or incompatible requirement is not refused";
	else if (r < 0 && n_err == e0) why = "refused without a diagnostic";
	if (why) {
		printf("REPRODUCED model_version_probe: %s: returned %d, specified %d (model version %s, %d streams, verdicts", why, r, expect, r_spec.version, n);
		for (int i = 0; i < n; i++) printf(" %d", v[i]);
		printf(": -1 refused / 0 not required / 1 required and compatible) [%s]\n", r_origin);
		return 1;
	}
	return 0;
}
static int clampv(long v) { return v < 0 ? -1 : v > 0 ? 1 : 0; }
int main(void)
{
	int n = (int) (W_NTHREADS); if (n < 0) n = 0; if (n > 3) n = 3;
	int v[3] = { clampv(W_V0), clampv(W_V1), clampv(W_V2) };
	for (int variant = 0; variant < 15; variant++)
		if (one((W_VERSION_WF) != 0, n, v, variant)) return 1;
	r_origin = "tried after the witness";
	long cnt = 0;
	for (int wf = 1; wf >= 0; wf--) for (int m = 0; m <= 3; m++)
		for (int a = -1; a <= 1; a++) for (int b = -1; b <= 1; b++) for (int c = -1; c <= 1; c++) {
			if ((m < 3 && c != 0) || (m < 2 && b != 0) || (m < 1 && a != 0)) continue;
			int vv[3] = { a, b, c };
			for (int variant = 0; variant < 15; variant++) { cnt++; if (one(wf, m, vv, variant)) return 1; }
		}
	printf("not reproduced: model_version_probe behaves as specified on the witness (%d streams, verdicts %d %d %d, model version %s) and on %ld stream combinations\n",
		n, v[0], v[1], v[2], (W_VERSION_WF) ? "well-formed" : "malformed", cnt);
	return 0;
}
