#define REPLAY_OP 1
#include "c03_system_replay.h"
