/* Native replay of a failed C04 obligation of the thread.c groups (thread_set_state, thread_set_cpu,
 * thread_unset_cpu, thread_migrate_cpu) on the REAL src/emu/thread.c running on the REAL chan.c.
 * REPLAY_OP: 0 set_state, 1 set_cpu, 2 unset_cpu, 3 migrate_cpu.
 * Witness ghosts (harness/c04_thread_spec.h): W_HAS_CPU, W_NEWSTATE, W_OLDSTATE, W_OLD_RUNNING,
 * W_OLD_ACTIVE, W_TID, W_CPU_NULL, W_GINDEX, W_ST_DIRTY/W_TID_DIRTY/W_CPU_DIRTY and, per channel
 * p in {STC, TIDC, CPUC}: W_p_TYPE, W_p_DW, W_p_AD, W_p_ID (properties), W_p_HASCB, W_p_LTYPE,
 * W_p_LI (last flushed value).  The dirty callback succeeds and is counted.
 * Specification (statement: the redundant flags are exactly the documented sets, the state channel
 * carries the state, the tid channel the tid iff running/cooling/warming, the cpu channel the CPU):
 *   set_state   refused <=> no CPU, or the state / tid channel refuses the value;  with a CPU:
 *               state stored, is_running == (RUNNING), is_active == (RUNNING|COOLING|WARMING);
 *               accepted => each channel holds its value and is dirty (or the duplicate was ignored)
 *   set_cpu     refused <=> NULL cpu, thread already has one, or the cpu channel refuses
 *   unset_cpu   refused <=> no CPU or channel refuses;  th->cpu == NULL afterwards
 *   migrate_cpu refused <=> no CPU or channel refuses;  th->cpu == cpu afterwards if it had one
 * exit 0: behaves as specified (not reproduced); exit 1: mismatch (reproduced). */
#include "c04c05_replay_stubs.h"
#include "chan.c"
#include "thread.c"
#include "cpu.h"

char value_buffers[VALUE_NBUF][VALUE_BUFSIZE];
size_t value_nextbuf;
NSTUB(bay_register) NSTUB(json_object_dotget_number) NSTUB(mux_get_input) NSTUB(pcf_add_type)
NSTUB(pcf_add_value) NSTUB(pcf_find_type) NSTUB(prv_register) NSTUB(pvt_get_prv)
NSTUB(recorder_find_pvt) NSTUB(stream_metadata)

#ifndef W_HAS_CPU
#define W_HAS_CPU 1
#endif
#ifndef W_NEWSTATE
#define W_NEWSTATE TH_ST_COOLING
#endif
#ifndef W_OLDSTATE
#define W_OLDSTATE TH_ST_RUNNING
#endif
#ifndef W_OLD_RUNNING
#define W_OLD_RUNNING ((W_OLDSTATE) == TH_ST_RUNNING)
#endif
#ifndef W_OLD_ACTIVE
#define W_OLD_ACTIVE ((W_OLDSTATE) == TH_ST_RUNNING || (W_OLDSTATE) == TH_ST_COOLING || (W_OLDSTATE) == TH_ST_WARMING)
#endif
#ifndef W_TID
#define W_TID 77
#endif
#ifndef W_CPU_NULL
#define W_CPU_NULL 0
#endif
#ifndef W_GINDEX
#define W_GINDEX 9
#endif
#ifndef W_ST_DIRTY
#define W_ST_DIRTY 0
#endif
#ifndef W_TID_DIRTY
#define W_TID_DIRTY 0
#endif
#ifndef W_CPU_DIRTY
#define W_CPU_DIRTY 0
#endif
/* channel pre-states; defaults: a flushed SINGLE channel, last value null (tid channel: IGNORE_DUP) */
#ifndef W_STC_TYPE
#define W_STC_TYPE 0
#endif
#ifndef W_STC_DW
#define W_STC_DW 0
#endif
#ifndef W_STC_AD
#define W_STC_AD 0
#endif
#ifndef W_STC_ID
#define W_STC_ID 0
#endif
#ifndef W_STC_HASCB
#define W_STC_HASCB 1
#endif
#ifndef W_STC_LTYPE
#define W_STC_LTYPE 0
#endif
#ifndef W_STC_LI
#define W_STC_LI 0
#endif
#ifndef W_TIDC_TYPE
#define W_TIDC_TYPE 0
#endif
#ifndef W_TIDC_DW
#define W_TIDC_DW 0
#endif
#ifndef W_TIDC_AD
#define W_TIDC_AD 0
#endif
#ifndef W_TIDC_ID
#define W_TIDC_ID 1
#endif
#ifndef W_TIDC_HASCB
#define W_TIDC_HASCB 1
#endif
#ifndef W_TIDC_LTYPE
#define W_TIDC_LTYPE 0
#endif
#ifndef W_TIDC_LI
#define W_TIDC_LI 0
#endif
#ifndef W_CPUC_TYPE
#define W_CPUC_TYPE 0
#endif
#ifndef W_CPUC_DW
#define W_CPUC_DW 0
#endif
#ifndef W_CPUC_AD
#define W_CPUC_AD 0
#endif
#ifndef W_CPUC_ID
#define W_CPUC_ID 0
#endif
#ifndef W_CPUC_HASCB
#define W_CPUC_HASCB 1
#endif
#ifndef W_CPUC_LTYPE
#define W_CPUC_LTYPE 0
#endif
#ifndef W_CPUC_LI
#define W_CPUC_LI 0
#endif

static unsigned r_cb_calls;
static int r_cb(struct chan *c, void *arg) { (void) c; (void) arg; r_cb_calls++; return 0; }

static void mk_chan(struct chan *c, int type, int dirty, int dw, int ad, int id, int hascb, long ltype, long li)
{
	memset(c, 0, sizeof(*c));
	strcpy(c->name, "chan");
	c->type = (enum chan_type) type; c->is_dirty = dirty;
	c->prop[CHAN_DIRTY_WRITE] = dw; c->prop[CHAN_ALLOW_DUP] = ad; c->prop[CHAN_IGNORE_DUP] = id;
	c->dirty_cb = hascb ? r_cb : NULL;
	c->last_value.type = (enum value_type) ltype; c->last_value.i = li;
	/* current value: something no write of this replay stores */
	c->data.value.type = VALUE_INT64; c->data.value.i = 0x5a5a5a5a5a5aL;
}
/* spec of a channel write, on the channel PRE-state */
struct cpre { int type, dirty, dw, ad, id, hascb; struct value last; };
static struct cpre snap(struct chan *c)
{
	struct cpre p = { (int) c->type, c->is_dirty, c->prop[CHAN_DIRTY_WRITE], c->prop[CHAN_ALLOW_DUP],
		c->prop[CHAN_IGNORE_DUP], c->dirty_cb != NULL, c->last_value };
	return p;
}
static int isdup(struct cpre p, struct value v) { return !p.ad && p.last.type == v.type && p.last.i == v.i; }
static int refuses(struct cpre p, struct value v) { return p.type != CHAN_SINGLE || (p.dirty && !p.dw) || (isdup(p, v) && !p.id); }
static int ignores(struct cpre p, struct value v) { return !refuses(p, v) && isdup(p, v); }
static int writes(struct cpre p, struct value v) { return !refuses(p, v) && !isdup(p, v); }
static unsigned calls(struct cpre p, struct value v) { return writes(p, v) && !p.dirty && p.hascb; }
static int holds(struct chan *c, struct value v) { struct value cur = c->data.value; return cur.type == v.type && cur.i == v.i; }
static void check_chan(const char *name, struct chan *c, struct cpre p, struct value v)
{
	if (ignores(p, v)) return;
	if (!holds(c, v)) R_FAIL("accepted but the %s channel does not hold the specified value (type %d, %ld)", name, (int) v.type, (long) v.i);
	if (!c->is_dirty) R_FAIL("accepted but the %s channel is not dirty (value not emitted now)", name);
}

int main(void)
{
	struct thread *th = calloc(1, sizeof(*th));
	struct cpu *cur = calloc(1, sizeof(*cur)), *arg = calloc(1, sizeof(*arg));
	cur->gindex = 424242; arg->gindex = (int64_t) (W_GINDEX);
	th->tid = (int) (W_TID); strcpy(th->id, "thread.replay");
	th->state = (enum thread_state) (W_OLDSTATE);
	th->is_running = (W_OLD_RUNNING); th->is_active = (W_OLD_ACTIVE);
	th->cpu = (W_HAS_CPU) ? cur : NULL;
	mk_chan(&th->chan[TH_CHAN_STATE], W_STC_TYPE, W_ST_DIRTY, W_STC_DW, W_STC_AD, W_STC_ID, W_STC_HASCB, W_STC_LTYPE, W_STC_LI);
	mk_chan(&th->chan[TH_CHAN_TID], W_TIDC_TYPE, W_TID_DIRTY, W_TIDC_DW, W_TIDC_AD, W_TIDC_ID, W_TIDC_HASCB, W_TIDC_LTYPE, W_TIDC_LI);
	mk_chan(&th->chan[TH_CHAN_CPU], W_CPUC_TYPE, W_CPU_DIRTY, W_CPUC_DW, W_CPUC_AD, W_CPUC_ID, W_CPUC_HASCB, W_CPUC_LTYPE, W_CPUC_LI);
	struct cpre pst = snap(&th->chan[TH_CHAN_STATE]), ptid = snap(&th->chan[TH_CHAN_TID]), pcpu = snap(&th->chan[TH_CHAN_CPU]);
	struct thread *before = malloc(sizeof(*before));
	memcpy(before, th, sizeof(*th));
	int r, refused; const char *what;

	switch (REPLAY_OP) {
	case 0: {
		what = "thread_set_state";
		enum thread_state ns = (enum thread_state) (W_NEWSTATE);
		int act = ns == TH_ST_RUNNING || ns == TH_ST_COOLING || ns == TH_ST_WARMING;
		struct value vst = value_int64((int64_t) ns), vtid = act ? value_int64(th->tid) : value_null();
		refused = th->cpu == NULL || refuses(pst, vst) || refuses(ptid, vtid);
		r = thread_set_state(th, ns);
		if (before->cpu == NULL) {
			if (memcmp(before, th, sizeof(*th)) != 0) R_FAIL("%s without a CPU modified the thread", what);
		} else {
			if (th->state != ns) R_FAIL("%s(%d): state is %d", what, (int) ns, (int) th->state);
			if (th->is_running != (ns == TH_ST_RUNNING ? 1 : 0)) R_FAIL("%s(%d): is_running is %d", what, (int) ns, th->is_running);
			if (th->is_active != (act ? 1 : 0)) R_FAIL("%s(%d): is_active is %d", what, (int) ns, th->is_active);
		}
		if (r == 0) {
			check_chan("state", &th->chan[TH_CHAN_STATE], pst, vst);
			check_chan("tid", &th->chan[TH_CHAN_TID], ptid, vtid);
			if (r_cb_calls != calls(pst, vst) + calls(ptid, vtid))
				R_FAIL("%s: %u dirty callbacks ran, specified %u", what, r_cb_calls, calls(pst, vst) + calls(ptid, vtid));
		}
		break; }
	case 1: {
		what = "thread_set_cpu";
		struct cpu *cpu = (W_CPU_NULL) ? NULL : arg;
		struct value v = value_int64(arg->gindex);
		refused = cpu == NULL || th->cpu != NULL || refuses(pcpu, v);
		r = thread_set_cpu(th, cpu);
		if (cpu != NULL && before->cpu == NULL) { if (th->cpu != cpu) R_FAIL("%s: th->cpu is not the given CPU", what); }
		else if (memcmp(before, th, sizeof(*th)) != 0) R_FAIL("%s refused outright modified the thread", what);
		if (r == 0) check_chan("cpu", &th->chan[TH_CHAN_CPU], pcpu, v);
		break; }
	case 2: {
		what = "thread_unset_cpu";
		struct value v = value_null();
		refused = th->cpu == NULL || refuses(pcpu, v);
		r = thread_unset_cpu(th);
		if (th->cpu != NULL) R_FAIL("%s: the thread still has a CPU", what);
		if (before->cpu == NULL && memcmp(before, th, sizeof(*th)) != 0) R_FAIL("%s without a CPU modified the thread", what);
		if (r == 0) check_chan("cpu", &th->chan[TH_CHAN_CPU], pcpu, v);
		break; }
	default: {
		what = "thread_migrate_cpu";
		struct value v = value_int64(arg->gindex);
		refused = th->cpu == NULL || refuses(pcpu, v);
		r = thread_migrate_cpu(th, arg);
		if (before->cpu == NULL) { if (memcmp(before, th, sizeof(*th)) != 0) R_FAIL("%s without a CPU modified the thread", what); }
		else if (th->cpu != arg) R_FAIL("%s: th->cpu is not the new CPU", what);
		if (r == 0) check_chan("cpu", &th->chan[TH_CHAN_CPU], pcpu, v);
		break; }
	}
	if (r != 0 && r != -1) R_FAIL("%s returned %d", what, r);
	if ((r != 0) != (refused != 0)) R_FAIL("%s returned %d but the specification says %s", what, r, refused ? "refused" : "accepted");
	if (r == 0 && r_nerr != 0) R_FAIL("%s accepted with %u error diagnostics", what, r_nerr);
	if (r != 0 && r_nerr == 0) R_FAIL("%s refused without a diagnostic", what);
	if (r_bad) return 1;
	printf("not reproduced: %s returned %d as specified\n", what, r);
	return 0;
}
