/* C12 native replay of check_stream_header on the REAL src/emu/stream.c.
 * Witnesses: W_SIZE (stream size), W_MAGIC0..3, W_VERSION (little-endian u32 at offset 4).
 * Specification (doc/user/runtime/trace_spec.md): a stream is accepted exactly when it holds the
 * complete 8-byte header, the magic is "ovni" and the version is 1.
 * The buffer has exactly min(size, 4096) bytes so that ASan sees any read past a cut header. */
#include "c12_replay_common.h"
#include "stream.c"
#ifndef W_SIZE
#define W_SIZE 20
#endif
#ifndef W_MAGIC0
#define W_MAGIC0 'o'
#endif
#ifndef W_MAGIC1
#define W_MAGIC1 'v'
#endif
#ifndef W_MAGIC2
#define W_MAGIC2 'n'
#endif
#ifndef W_MAGIC3
#define W_MAGIC3 'i'
#endif
#ifndef W_VERSION
#define W_VERSION 1
#endif
int main(void)
{
	static struct stream s;
	long size = (long) (W_SIZE);
	if (size < 0) { printf("not reproduced: negative size outside the precondition\n"); return 0; }
	size_t room = size > 4096 ? 4096 : (size_t) size;
	uint8_t hdr[8] = { (uint8_t) (W_MAGIC0), (uint8_t) (W_MAGIC1), (uint8_t) (W_MAGIC2), (uint8_t) (W_MAGIC3) };
	uint32_t ver = (uint32_t) (W_VERSION);
	memcpy(hdr + 4, &ver, 4);
	if (size < 8) { memcpy(hdr, "ovni", 4); ver = 1; memcpy(hdr + 4, &ver, 4); }   /* a good header, cut */
	uint8_t *buf = malloc(room ? room : 1);
	memset(buf, 0, room ? room : 1);
	memcpy(buf, hdr, room < 8 ? room : 8);
	s.buf = room ? buf : NULL; s.size = size;
	strcpy(s.path, "replay/stream.obs");
	int legal = size >= 8 && memcmp(hdr, "ovni", 4) == 0 && ver == 1;
	int r = check_stream_header(&s);
	if (r != 0 && r != -1) { printf("REPRODUCED check_stream_header: returned %d (0 or -1 specified)\n", r); return 1; }
	if ((r == 0) != legal) {
		printf("REPRODUCED check_stream_header: returned %d but the header is %s (size=%ld magic=%02x %02x %02x %02x version=%u)\n",
			r, legal ? "valid" : "invalid", size, hdr[0], hdr[1], hdr[2], hdr[3], ver);
		return 1;
	}
	if (r != 0 && n_err == 0) { printf("REPRODUCED check_stream_header: refused without a diagnostic\n"); return 1; }
	printf("not reproduced: check_stream_header returned %d as specified (size=%ld)\n", r, size);
	return 0;
}
