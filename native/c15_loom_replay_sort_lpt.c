#define REPLAY_OP 7
#include "c15_loom_replay.h"
