/* C15 native replay of create_proc (REAL src/emu/system.c) with the REAL loom.c, proc.c, stream.c and parson.
 * No input witness is needed: one process seen through two thread streams, every distribution of the per-process
 * attributes (ovni.app_id, ovni.rank/ovni.nranks) over the two streams and every conflict, in both stream orders.
 * Specification (statement): the attributes of a process are the MERGE of what all its thread streams carry,
 * whichever stream carries them and in whatever order the streams are visited; a contradiction between two
 * streams is refused; the process object is created once (by the first stream) and found again by the others.
 * Linked with -Wl,--unresolved-symbols=ignore-all.  exit 0: as specified; exit 1: REPRODUCED. */
#include "c12_replay_common.h"
#include "parson.c"
#include "stream.c"
#include "proc.c"
#include "thread.c"
#define chan_name cpu_chan_name
#define chan_type cpu_chan_type
#define prv_flags cpu_prv_flags
#define pvt_name cpu_pvt_name
#define pvt_type cpu_pvt_type
#include "cpu.c"
#undef chan_name
#undef chan_type
#undef prv_flags
#undef pvt_name
#undef pvt_type
#include "loom.c"
#include "system.c"
static char why[400];
struct meta { int has_app, app, has_rank, rank, nranks; };
static JSON_Value *mk(struct stream *s, const char *rel, int pid, const struct meta *m)
{
	memset(s, 0, sizeof(*s)); strcpy(s->relpath, rel);
	JSON_Value *root = json_value_init_object(); JSON_Object *o = json_value_get_object(root);
	json_object_set_number(o, "version", 3); json_object_dotset_number(o, "ovni.pid", pid); json_object_dotset_string(o, "ovni.part", "thread");
	if (m->has_app) json_object_dotset_number(o, "ovni.app_id", m->app);
	if (m->has_rank) { json_object_dotset_number(o, "ovni.rank", m->rank); json_object_dotset_number(o, "ovni.nranks", m->nranks); }
	s->meta = o;
	return root;
}
static int cp_case(const struct meta *a, const struct meta *b)
{
	static struct loom loom; static struct stream s1, s2;
	memset(&loom, 0, sizeof(loom)); strcpy(loom.name, "loom.replay"); loom.id = loom.name; loom.rank_min = INT_MAX;
	JSON_Value *r1 = mk(&s1, "loom.replay/proc.77/thread.1", 77, a), *r2 = mk(&s2, "loom.replay/proc.77/thread.2", 77, b);
	n_err = 0;
	struct proc *p1 = create_proc(&loom, &s1);
	int ok1 = (!a->has_app || a->app > 0) && (!a->has_rank || (a->rank >= 0 && a->nranks > 0 && a->rank < a->nranks));
	int bad = 0;
	if ((p1 != NULL) != ok1) { snprintf(why, sizeof(why), "create_proc on the first stream returned %s", p1 ? "a process although its metadata is invalid" : "NULL although its metadata is valid"); bad = 1; }
	if (!bad && p1) {
		struct proc *p2 = create_proc(&loom, &s2);
		int valid2 = (!b->has_app || b->app > 0) && (!b->has_rank || (b->rank >= 0 && b->nranks > 0 && b->rank < b->nranks));
		int agree = (!a->has_app || !b->has_app || a->app == b->app) && (!a->has_rank || !b->has_rank || (a->rank == b->rank && a->nranks == b->nranks));
		int ok2 = valid2 && agree;
		if ((p2 != NULL) != ok2) { snprintf(why, sizeof(why), "create_proc on the SECOND thread stream of the process returned %s but its metadata %s what the first stream defined", p2 ? "the process" : "NULL", ok2 ? "agrees with / completes" : "CONTRADICTS (or is invalid next to)"); bad = 1; }
		else if (p2 && p2 != p1) { snprintf(why, sizeof(why), "the second stream of pid 77 created a second process object"); bad = 1; }
		else if (p2) {
			int ea = a->has_app ? a->app : (b->has_app ? b->app : 0), er = a->has_rank ? a->rank : (b->has_rank ? b->rank : -1), en = a->has_rank ? a->nranks : (b->has_rank ? b->nranks : 0);
			if (p1->appid != ea || p1->rank != er || p1->nranks != en) { snprintf(why, sizeof(why), "the process ends with appid=%d rank=%d nranks=%d, the merge of its two streams is appid=%d rank=%d nranks=%d (an attribute carried only by the second thread stream must reach the process)", p1->appid, p1->rank, p1->nranks, ea, er, en); bad = 1; }
			else if (loom.nprocs != 1 || loom_find_proc(&loom, 77) != p1 || p1->pid != 77 || p1->loom != &loom) { snprintf(why, sizeof(why), "the process is not registered once in its loom under its PID"); bad = 1; }
		}
		else if (n_err == 0) { snprintf(why, sizeof(why), "refused without a diagnostic"); bad = 1; }
	}
	struct proc *p, *t; HASH_ITER(hh, loom.procs, p, t) { HASH_DEL(loom.procs, p); free(p); }
	json_value_free(r1); json_value_free(r2);
	return bad;
}
int main(void)
{
	setvbuf(stdout, NULL, _IONBF, 0);
	static const struct meta shapes[] = {{0, 0, 0, 0, 0}, {1, 1, 0, 0, 0}, {1, 2, 0, 0, 0}, {0, 0, 1, 0, 2}, {0, 0, 1, 1, 2}, {0, 0, 1, 0, 4}, {1, 1, 1, 0, 2}, {1, 1, 1, 1, 2}, {1, 0, 0, 0, 0}, {0, 0, 1, 2, 2}, {1, 2, 1, 0, 4}};
	int n = (int) (sizeof(shapes) / sizeof(shapes[0]));
	for (int i = 0; i < n; i++) for (int j = 0; j < n; j++)
		if (cp_case(&shapes[i], &shapes[j])) {
			printf("REPRODUCED %s [thread.1: app_id %s%d rank %s%d/%d; thread.2: app_id %s%d rank %s%d/%d]\n", why, shapes[i].has_app ? "" : "absent/", shapes[i].app, shapes[i].has_rank ? "" : "absent/", shapes[i].rank, shapes[i].nranks,
				shapes[j].has_app ? "" : "absent/", shapes[j].app, shapes[j].has_rank ? "" : "absent/", shapes[j].rank, shapes[j].nranks);
			return 1;
		}
	printf("not reproduced: create_proc merges the metadata of every thread stream of a process (%d x %d stream pairs)\n", n, n);
	return 0;
}
