/* C03 native replay of the clock-offset table / host name / trace loading helpers on the REAL code:
 * REPLAY_OP 0: clkoff.c (cparse, cadd, cindex, cfind, clkoff_load, clkoff_get, clkoff_count)
 * REPLAY_OP 1: loom.c set_hostname / loom_init_begin (host = loom name up to the first dot)
 * REPLAY_OP 2: trace.c (trace_load, cb_nftw, is_stream, add_stream) on a real directory tree built in the driver's
 *              scratch directory (the runner's cwd), with the real stream.c / path.c / parson.c
 * REPLAY_OP 3: system.c system_get_lpt, load_clock_offsets (explicit -c file / clock-offsets.txt of the trace / none)
 * No input witness is needed (finite tables / trees are generated).  Specification (statement): corrected time =
 * event clock + the offset of the stream's host, so every table line must reach the host it names: lines are kept
 * in file order with their name and median, a host named twice and a malformed line are refused; the host of a
 * loom is its name up to the first dot; the replay does not depend on the enumeration order of the directory:
 * the stream list is sorted by relative path and holds exactly the directories with a stream.json.
 * Linked with -Wl,--unresolved-symbols=ignore-all.  exit 0: as specified; exit 1: REPRODUCED. */
#include "c12_replay_common.h"
#include <ftw.h>
#include "parson.c"
#undef sscanf            /* parson.c poisons sscanf for its own text; clkoff.c uses the libc one */
#include "path.c"
#include "stream.c"
#include "clkoff.c"
#include "trace.c"
#include "proc.c"
#include "thread.c"
#define chan_name cpu_chan_name
#define chan_type cpu_chan_type
#define prv_flags cpu_prv_flags
#define pvt_name cpu_pvt_name
#define pvt_type cpu_pvt_type
#include "cpu.c"
#undef chan_name
#undef chan_type
#undef prv_flags
#undef pvt_name
#undef pvt_type
#include "loom.c"
#include "system.c"
static char why[500];
#define FAIL(...) do { snprintf(why, sizeof(why), __VA_ARGS__); return 1; } while (0)

/* ---- 0: clock offset table ---- */
static int tab_case(const char *text, int ok, int n, const char **names, const double *medians, const char *what)
{
	struct clkoff t; clkoff_init(&t);
	FILE *f = fmemopen((void *) text, strlen(text), "r");
	n_err = 0;
	int r = clkoff_load(&t, f);
	fclose(f);
	if ((r == 0) != ok) FAIL("clkoff_load returned %d on %s (specified %s)", r, what, ok ? "0" : "-1");
	if (r != 0) { if (n_err == 0) FAIL("clkoff_load refused %s without a diagnostic", what); return 0; }
	if (clkoff_count(&t) != n) FAIL("the table of %s has %d entries, specified %d", what, clkoff_count(&t), n);
	for (int i = 0; i < n; i++) {
		struct clkoff_entry *e = clkoff_get(&t, i);
		if (!e || strcmp(e->name, names[i]) != 0 || e->median != medians[i]) FAIL("entry %d of %s is (%s, median %g), specified (%s, median %g): lines are kept in file order with their host name and median", i, what, e ? e->name : "NULL", e ? e->median : 0.0, names[i], medians[i]);
		if (cfind(&t, names[i]) != e) FAIL("cfind(\"%s\") does not return the line of that host", names[i]);
	}
	if (cfind(&t, "no-such-host") != NULL) FAIL("cfind finds a host that is not in the table");
	return 0;
}
static int op_clkoff(void)
{
	const char *n3[] = {"nodeA", "nodeB", "n"}; double m3[] = {0.0, -1234.0, 5e9};
	const char *n1[] = {"h"}; double m1[] = {42.0};
	if (tab_case("rank hostname offset_median offset_mean offset_std\n0 nodeA 0 1 0\n1 nodeB -1234 -1200.5 3.25\n\n2 n 5000000000 5e9 0\n", 1, 3, n3, m3, "a three line table with an empty line")) goto bad;
	if (tab_case("header\n0 h 42 41 1\n", 1, 1, n1, m1, "a one line table")) goto bad;
	if (tab_case("header\n0 nodeA 1 1 0\n1 nodeA 2 2 0\n", 0, 0, NULL, NULL, "a table naming a host twice")) goto bad;
	if (tab_case("header\n0 nodeA 1 1\n", 0, 0, NULL, NULL, "a line with a missing field")) goto bad;
	if (tab_case("header\n", 0, 0, NULL, NULL, "a table with no entries")) goto bad;
	if (tab_case("", 0, 0, NULL, NULL, "an empty file")) goto bad;
	printf("not reproduced: the clock offset table is parsed and indexed as specified\n");
	return 0;
bad:	printf("REPRODUCED %s\n", why); return 1;
}

/* ---- 1: host name of a loom ---- */
static int op_hostname(void)
{
	static const char *names[][2] = {{"node1.0", "node1"}, {"node1", "node1"}, {"a.b.c", "a"}, {".x", ""}, {"", ""}, {"host-with-dash.123", "host-with-dash"}, {"n.", "n"}};
	for (unsigned i = 0; i < sizeof(names) / sizeof(names[0]); i++) {
		static char host[PATH_MAX], name[PATH_MAX]; memset(host, 'Z', sizeof(host)); memset(name, 0, sizeof(name)); strcpy(name, names[i][0]);
		set_hostname(host, name);
		if (strcmp(host, names[i][1]) != 0) { printf("REPRODUCED set_hostname(\"%s\") gives host \"%.40s\", specified \"%s\" (the loom name up to the first dot)\n", names[i][0], host, names[i][1]); return 1; }
	}
	static struct loom loom; memset(&loom, 0x5a, sizeof(loom));
	if (loom_init_begin(&loom, "loom.nodeX.7") != 0 || loom.clock_offset != 0 || loom.rank_min != INT_MAX || loom.rank_enabled != 0) { printf("REPRODUCED loom_init_begin does not start a loom without clock offset / rank information\n"); return 1; }
	printf("not reproduced: the host of a loom is its name up to the first dot\n");
	return 0;
}

/* ---- 2: trace_load on a real tree ---- */
static void mkfile(const char *path, const void *data, size_t n) { FILE *f = fopen(path, "w"); if (f) { fwrite(data, 1, n, f); fclose(f); } }
static void mkstream(const char *root, const char *rel, int with_json)
{
	char p[PATH_MAX]; snprintf(p, sizeof(p), "%s/%s", root, rel);
	char cmd[PATH_MAX + 32]; snprintf(cmd, sizeof(cmd), "mkdir -p '%s'", p); if (system(cmd) != 0) return;
	unsigned char obs[8 + 12]; memset(obs, 0, sizeof(obs)); memcpy(obs, "ovni", 4); obs[4] = 1; obs[8 + 1] = 'O'; obs[8 + 2] = 'H'; obs[8 + 3] = 'e'; obs[8 + 4] = 5;
	char f[PATH_MAX + 32]; snprintf(f, sizeof(f), "%s/stream.obs", p); mkfile(f, obs, sizeof(obs));
	if (with_json) { const char *js = "{\"version\":3,\"ovni\":{\"part\":\"thread\",\"tid\":1,\"pid\":1,\"loom\":\"a.1\",\"finished\":1}}"; snprintf(f, sizeof(f), "%s/stream.json", p); mkfile(f, js, strlen(js)); }
}
static int op_trace(void)
{
	/* creation order deliberately NOT sorted; one directory without stream.json; one stray file */
	static const char *rels[] = {"loom.b/proc.1/thread.2", "loom.a/proc.2/thread.1", "loom.a/proc.10/thread.1", "loom.b/proc.1/thread.10", "loom.a/proc.2/thread.3"};
	static const char *sorted[] = {"loom.a/proc.10/thread.1", "loom.a/proc.2/thread.1", "loom.a/proc.2/thread.3", "loom.b/proc.1/thread.10", "loom.b/proc.1/thread.2"};
	for (int perm = 0; perm < 3; perm++) {
		char root[64]; snprintf(root, sizeof(root), "replay-trace-%d", perm);
		char cmd[128]; snprintf(cmd, sizeof(cmd), "rm -rf %s", root); (void) system(cmd);
		for (int i = 0; i < 5; i++) mkstream(root, rels[(i * (perm + 1) + perm) % 5], 1);
		mkstream(root, "loom.a/proc.2/not-a-stream", 0);
		char f[128]; snprintf(f, sizeof(f), "%s/clock-offsets.txt", root); mkfile(f, "h\n", 2);
		static struct trace trace; memset(&trace, 0, sizeof(trace)); n_err = 0;
		int r = trace_load(&trace, root);
		if (r != 0) { printf("REPRODUCED trace_load failed (%d) on a well-formed trace directory\n", r); return 1; }
		if (trace.nstreams != 5) { printf("REPRODUCED trace_load found %ld streams, specified 5 (exactly the directories holding a stream.json)\n", trace.nstreams); return 1; }
		int i = 0;
		for (struct stream *s = trace.streams; s; s = s->next, i++) {
			if (i >= 5 || strcmp(s->relpath, sorted[i]) != 0) { printf("REPRODUCED trace_load: stream %d of the list is \"%s\", specified \"%s\" (the list is sorted by relative path whatever the directory enumeration order)\n", i, s->relpath, i < 5 ? sorted[i] : "(end)"); return 1; }
			if (!s->active || s->cur_ev != NULL) { printf("REPRODUCED trace_load: stream %s is not loaded ready to be stepped\n", s->relpath); return 1; }
		}
		if (i != 5) { printf("REPRODUCED trace_load: the stream list holds %d streams, nstreams says 5\n", i); return 1; }
		(void) system(cmd);
	}
	printf("not reproduced: trace_load lists exactly the streams, sorted by relative path, for every creation order tried\n");
	return 0;
}

/* ---- 3: system_get_lpt, load_clock_offsets ---- */
static int op_system(void)
{
	static struct stream s; static struct lpt lpt; memset(&s, 0, sizeof(s));
	if (system_get_lpt(&s) != NULL) { printf("REPRODUCED system_get_lpt returns something for a stream that is not a thread stream\n"); return 1; }
	lpt.stream = &s; s.data = &lpt;
	if (system_get_lpt(&s) != &lpt) { printf("REPRODUCED system_get_lpt does not return the loom/process/thread triple of the stream\n"); return 1; }
	/* load_clock_offsets: -c file wins; else <tracedir>/clock-offsets.txt if present; else an empty table, accepted */
	(void) system("rm -rf replay-co && mkdir -p replay-co/trace");
	mkfile("replay-co/explicit.txt", "h\n0 hostE 111 111 0\n", 20);
	mkfile("replay-co/trace/clock-offsets.txt", "h\n0 hostT 222 222 0\n1 hostU 5 5 0\n", 33);
	static struct emu_args args; static struct clkoff t;
	memset(&args, 0, sizeof(args)); args.tracedir = "replay-co/trace"; args.clock_offset_file = "replay-co/explicit.txt";
	n_err = 0;
	if (load_clock_offsets(&t, &args) != 0 || clkoff_count(&t) != 1 || strcmp(clkoff_get(&t, 0)->name, "hostE") != 0 || clkoff_get(&t, 0)->median != 111.0) { printf("REPRODUCED load_clock_offsets does not load the table given with -c\n"); return 1; }
	args.clock_offset_file = NULL;
	if (load_clock_offsets(&t, &args) != 0 || clkoff_count(&t) != 2 || strcmp(clkoff_get(&t, 0)->name, "hostT") != 0 || clkoff_get(&t, 1)->median != 5.0) { printf("REPRODUCED load_clock_offsets does not load clock-offsets.txt of the trace directory\n"); return 1; }
	args.tracedir = "replay-co";
	if (load_clock_offsets(&t, &args) != 0 || clkoff_count(&t) != 0) { printf("REPRODUCED load_clock_offsets: a trace without clock-offsets.txt must give an empty table, accepted\n"); return 1; }
	args.clock_offset_file = "replay-co/missing.txt";
	if (load_clock_offsets(&t, &args) == 0) { printf("REPRODUCED load_clock_offsets accepts a -c file that does not exist\n"); return 1; }
	(void) system("rm -rf replay-co");
	printf("not reproduced: system_get_lpt / load_clock_offsets behave as specified\n");
	return 0;
}
int main(void)
{
	setvbuf(stdout, NULL, _IONBF, 0);
	switch (REPLAY_OP) { case 0: return op_clkoff(); case 1: return op_hostname(); case 2: return op_trace(); default: return op_system(); }
}
