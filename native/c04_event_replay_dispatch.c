#define REPLAY_OP 0
#include "c04_event_replay.h"
