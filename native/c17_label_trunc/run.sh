#!/bin/bash
# Reproduces finding F-C17-1 on the built tree.  usage: run.sh [repo]   (default /repo)
# Prints REPRODUCED / NOT-REPRODUCED per case; exit 0 iff both reproduced.
set -u
REPO=${1:-${VERIF_REPO:-/repo}}
HERE=$(cd "$(dirname "$0")" && pwd)
W=$(mktemp -d /tmp/c17_label_trunc.XXXXXX)
trap 'rm -rf "$W"' EXIT
gcc -w -I"$REPO/test/emu/common" -I"$REPO/test" -I"$REPO/_build/include" -I"$REPO/src/include" -I"$REPO/src" \
    "$HERE/demo.c" "$REPO/test/emu/common/instr.c" "$REPO/src/common.c" "$REPO/src/compat.c" \
    -L"$REPO/_build/src/rt" -lovni -Wl,-rpath,"$REPO/_build/src/rt" -o "$W/demo" || { echo "build failed"; exit 2; }
EMU="$REPO/_build/src/emu/ovniemu"
rc=0
# case 1: truncation
(cd "$W" && OVNI_TRACEDIR="$W/t1" ./demo trunc) || { echo "demo trunc failed"; exit 2; }
OVNI_CONFIG_DIR="$REPO/cfg" "$EMU" "$W/t1" > "$W/t1.log" 2>&1; e1=$?
prv=$(grep -c ':100:4294967298$' "$W/t1/thread.prv" 2>/dev/null)
pcf=$(awk '/^EVENT_TYPE/{getline; t=($2==100)} t && /^2[ \t]+big/{print}' "$W/t1/thread.pcf" 2>/dev/null | wc -l)
if [ "$e1" = 0 ] && [ "$prv" -ge 1 ] && [ "$pcf" -ge 1 ]; then
	echo "REPRODUCED trunc: ovniemu exit 0, thread.prv has value 4294967298 under type 100, thread.pcf labels value 2 as 'big'"
else
	echo "NOT-REPRODUCED trunc: exit=$e1 prv=$prv pcf=$pcf"; rc=1
fi
# case 2: collision
(cd "$W" && OVNI_TRACEDIR="$W/t2" ./demo collide) || { echo "demo collide failed"; exit 2; }
OVNI_CONFIG_DIR="$REPO/cfg" "$EMU" "$W/t2" > "$W/t2.log" 2>&1; e2=$?
if [ "$e2" != 0 ] && grep -q "PCF value 1 already in type 100" "$W/t2.log"; then
	echo "REPRODUCED collide: ovniemu exit $e2: $(grep 'PCF value 1 already' "$W/t2.log" | head -1)"
else
	echo "NOT-REPRODUCED collide: exit=$e2"; rc=1
fi
exit $rc
