/* C17 finding F-C17-1 -- native reproduction (not a CBMC group).
 * mark.c create_type passes (int) l->value to pcf_add_value: label values outside the
 * int range are truncated in the PCF.
 *   demo trunc   : one label for 2^32+2  -> thread.prv has 100:4294967298, thread.pcf lists "2 big"
 *   demo collide : labels for 1 and 2^32+1 (distinct, legal) -> ovniemu exits 1
 *                  "PCF value 1 already in type 100" */
#include <string.h>
#include "instr.h"
#include "ovni.h"
int main(int argc, char *argv[])
{
	int collide = argc > 1 && strcmp(argv[1], "collide") == 0;
	instr_start(0, 1);
	ovni_mark_type(0, 0, "T");
	if (collide) {
		ovni_mark_label(0, 1, "one");
		ovni_mark_label(0, 4294967297LL, "big");
		ovni_mark_set(0, 1);
		ovni_mark_set(0, 4294967297LL);
	} else {
		ovni_mark_label(0, 4294967298LL, "big");
		ovni_mark_set(0, 4294967298LL);
	}
	instr_end();
	return 0;
}
