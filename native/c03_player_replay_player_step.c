#define REPLAY_OP 6
#include "c03_player_replay.h"
