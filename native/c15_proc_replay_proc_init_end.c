#define REPLAY_OP 3
#include "c15_proc_replay.h"
