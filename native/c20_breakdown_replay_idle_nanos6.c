#define REPLAY_NANOS6 1
#define REPLAY_OP 1
#include "c20_breakdown_replay.h"
