/* C15 native replay of a failed per-process metadata obligation on the REAL src/emu/proc.c, with the
 * REAL parson (src/parson.c) and the REAL stream_metadata (stream.c), thread accessors (thread.c).
 * REPLAY_OP: 0 load_appid 1 load_rank 2 proc_load_metadata 3 proc_init_end 4 proc_add_thread 5 by_tid 6 proc_init_begin
 * Witnesses: W_P_APPID W_P_RANK W_P_NRANKS (process state before), W_HAS_APPID W_APPID W_HAS_RANK W_RANK
 * W_HAS_NRANKS W_NRANKS (what the stream's metadata carries); W_PE_GINDEX; W_PA_ISINIT W_PA_DUP W_PA_TID;
 * W_T1 W_T2 (by_tid).
 * A stream.json object is built with parson (ovni.app_id / ovni.rank / ovni.nranks present or not) and
 * the real function is called; the result is compared with the merge SPEC FUNCTION of the property
 * (harness/c15_spec.h, written from the statement): absent attribute = unchanged, first definition sets,
 * equal re-definition accepted, different or invalid refused with a diagnostic and no change.
 * When the witness behaves as specified a finite neighbourhood is tried.  Linked with
 * -Wl,--unresolved-symbols=ignore-all.  exit 0: as specified; exit 1: REPRODUCED. */
#include "c12_replay_common.h"
#include "parson.c"
#include "stream.c"
#include "proc.c"
#include "thread.c"
#define VASSERT(c, m) do { } while (0)
#include "harness/c15_spec.h"

#ifndef W_P_APPID
#define W_P_APPID 0
#endif
#ifndef W_P_RANK
#define W_P_RANK -1
#endif
#ifndef W_P_NRANKS
#define W_P_NRANKS 0
#endif
#ifndef W_HAS_APPID
#define W_HAS_APPID 1
#endif
#ifndef W_APPID
#define W_APPID 1
#endif
#ifndef W_HAS_RANK
#define W_HAS_RANK 1
#endif
#ifndef W_RANK
#define W_RANK 0
#endif
#ifndef W_HAS_NRANKS
#define W_HAS_NRANKS 1
#endif
#ifndef W_NRANKS
#define W_NRANKS 2
#endif
#ifndef W_PE_GINDEX
#define W_PE_GINDEX 0
#endif
#ifndef W_PA_ISINIT
#define W_PA_ISINIT 0
#endif
#ifndef W_PA_DUP
#define W_PA_DUP 0
#endif
#ifndef W_PA_TID
#define W_PA_TID 7
#endif
#ifndef W_T1
#define W_T1 1
#endif
#ifndef W_T2
#define W_T2 2
#endif

static char why[400];
#define FAIL(...) do { snprintf(why, sizeof(why), __VA_ARGS__); return 1; } while (0)
struct view { int pa, pr, pn, ha, a, hr, r, hn, n; };
static void vshow(const struct view *v)
{
	printf(" [process before: appid=%d rank=%d nranks=%d; stream: app_id %s%d rank %s%d nranks %s%d]\n", v->pa, v->pr, v->pn,
		v->ha ? "" : "absent/", v->a, v->hr ? "" : "absent/", v->r, v->hn ? "" : "absent/", v->n);
}
static int merge_case(int op, const struct view *v)
{
	static struct proc proc; static struct stream s;
	memset(&proc, 0, sizeof(proc)); memset(&s, 0, sizeof(s));
	/* the contracts require a well-formed process state */
	if (op != 1 && !SPEC_APPID_WF(v->pa)) return 0;
	if (op != 0 && !SPEC_RANK_WF(v->pr, v->pn)) return 0;
	JSON_Value *root = json_value_init_object(); JSON_Object *meta = json_value_get_object(root);
	json_object_set_number(meta, "version", 3);
	if (v->ha) json_object_dotset_number(meta, "ovni.app_id", (double) v->a);
	if (v->hr) json_object_dotset_number(meta, "ovni.rank", (double) v->r);
	if (v->hn) json_object_dotset_number(meta, "ovni.nranks", (double) v->n);
	s.meta = meta; strcpy(s.relpath, "replay/thread.1");
	proc.appid = v->pa; proc.rank = v->pr; proc.nranks = v->pn; proc.gindex = 0; strcpy(proc.id, "proc.1");
	n_err = 0;
	int r, ok, ea = v->pa, er = v->pr, en = v->pn;
	const char *fn;
	int ok_a = SPEC_APPID_OK(v->pa, v->ha, v->a), ok_r = SPEC_RANK_OK(v->pr, v->pn, v->hr, v->r, v->hn, v->n);
	if (op == 0) { fn = "load_appid"; r = load_appid(&proc, &s); ok = ok_a; if (ok) ea = SPEC_APPID_NEW(v->pa, v->ha, v->a); }
	else if (op == 1) { fn = "load_rank"; r = load_rank(&proc, &s); ok = ok_r;
		if (ok) { er = SPEC_RANK_NEW_RANK(v->pr, v->pn, v->hr, v->r, v->hn, v->n); en = SPEC_RANK_NEW_NRANKS(v->pr, v->pn, v->hr, v->r, v->hn, v->n); } }
	else { fn = "proc_load_metadata"; r = proc_load_metadata(&proc, &s); ok = ok_a && ok_r;
		if (ok) { ea = SPEC_APPID_NEW(v->pa, v->ha, v->a); er = SPEC_RANK_NEW_RANK(v->pr, v->pn, v->hr, v->r, v->hn, v->n); en = SPEC_RANK_NEW_NRANKS(v->pr, v->pn, v->hr, v->r, v->hn, v->n); } }
	json_value_free(root);
	if (r != 0 && r != -1) FAIL("%s returned %d", fn, r);
	if ((r == 0) != (ok != 0)) FAIL("%s returned %d but the merge of this stream into the process is %s", fn, r, ok ? "defined (must be accepted)" : "a conflict / invalid (must be refused)");
	if (r == 0 && (proc.appid != ea || proc.rank != er || proc.nranks != en))
		FAIL("%s accepted but left appid=%d rank=%d nranks=%d, the merge gives appid=%d rank=%d nranks=%d", fn, proc.appid, proc.rank, proc.nranks, ea, er, en);
	if (r == 0 && n_err != 0) FAIL("%s accepted with a diagnostic", fn);
	if (r != 0 && n_err == 0) FAIL("%s refused without a diagnostic", fn);
	if (r != 0 && op != 2 && (proc.appid != v->pa || proc.rank != v->pr || proc.nranks != v->pn)) FAIL("%s refused but changed the process", fn);
	return 0;
}
static int op_merge(int op)
{
	struct view w = {(W_P_APPID), (W_P_RANK), (W_P_NRANKS), (W_HAS_APPID) != 0, (W_APPID), (W_HAS_RANK) != 0, (W_RANK), (W_HAS_NRANKS) != 0, (W_NRANKS)};
	if (merge_case(op, &w)) { printf("REPRODUCED %s", why); vshow(&w); return 1; }
	static const int pav[] = {0, 3, 5}, av[] = {-1, 0, 3, 5}, prn[][2] = {{-1, 0}, {0, 2}, {1, 2}, {1, 4}, {3, 4}}, rv[] = {-1, 0, 1, 2, 3, 5}, nv[] = {-1, 0, 1, 2, 4};
	for (int i = 0; i < 3; i++) for (int ha = 0; ha < 2; ha++) for (int j = 0; j < 4; j++)
	for (int k = 0; k < 5; k++) for (int hr = 0; hr < 2; hr++) for (int l = 0; l < 6; l++) for (int hn = 0; hn < 2; hn++) for (int m = 0; m < 5; m++) {
		struct view v = {pav[i], prn[k][0], prn[k][1], ha, av[j], hr, rv[l], hn, nv[m]};
		if (merge_case(op, &v)) { printf("REPRODUCED %s (found next to the witness)", why); vshow(&v); return 1; }
	}
	printf("not reproduced: the metadata merge behaves as specified on the witness and on the neighbourhood;"); vshow(&w);
	return 0;
}

/* proc_init_end: accepted exactly when gindex >= 0 and the app id is set */
static int ie_case(int appid, long gindex)
{
	static struct proc proc; memset(&proc, 0, sizeof(proc));
	proc.appid = appid; proc.gindex = gindex; proc.rank = -1; n_err = 0;
	int r = proc_init_end(&proc);
	int ok = gindex >= 0 && appid > 0;
	if ((r == 0) != ok) FAIL("proc_init_end(appid=%d gindex=%ld) returned %d, specified %s", appid, gindex, r, ok ? "0" : "-1 (a process without app id is refused)");
	if (r == 0 && proc.is_init != 1) FAIL("proc_init_end accepted but is_init=%d", proc.is_init);
	if (r != 0 && (proc.is_init != 0 || n_err == 0)) FAIL("proc_init_end refused but set is_init or gave no diagnostic");
	return 0;
}
static int op_init_end(void)
{
	if (ie_case((W_P_APPID), (W_PE_GINDEX))) { printf("REPRODUCED %s\n", why); return 1; }
	for (int a = -1; a <= 2; a++) for (long g = -1; g <= 1; g++) if (ie_case(a, g)) { printf("REPRODUCED %s (found next to the witness)\n", why); return 1; }
	printf("not reproduced: proc_init_end behaves as specified\n");
	return 0;
}

/* proc_add_thread: refused exactly for an initialized process or a duplicate TID */
static int at_case(int isinit, int dup, int tid)
{
	static struct proc proc; static struct thread *t, *other, *prev;
	if (!t) { t = calloc(1, sizeof(*t)); other = calloc(1, sizeof(*other)); prev = calloc(1, sizeof(*prev)); }
	memset(&proc, 0, sizeof(proc)); memset(t, 0, sizeof(*t)); memset(other, 0, sizeof(*other)); memset(prev, 0, sizeof(*prev));
	strcpy(proc.id, "proc.1");
	prev->tid = tid; other->tid = tid < 0x7fffffff ? tid + 1 : tid - 1; t->tid = tid;
	if (proc_add_thread(&proc, other) != 0) FAIL("setup: proc_add_thread refused the first thread");
	if (dup && proc_add_thread(&proc, prev) != 0) FAIL("setup: proc_add_thread refused a thread with a fresh TID");
	int n0 = proc.nthreads; proc.is_init = isinit; n_err = 0;
	int r = proc_add_thread(&proc, t);
	int ok = !isinit && !dup;
	if ((r == 0) != ok) FAIL("proc_add_thread(initialized=%d duplicate-tid=%d tid=%d) returned %d, specified %s", isinit, dup, tid, r, ok ? "0" : "-1");
	if (r == 0 && (proc.nthreads != n0 + 1 || t->proc != &proc || proc_find_thread(&proc, tid) != t)) FAIL("proc_add_thread accepted but the thread is not registered");
	if (r != 0 && (proc.nthreads != n0 || t->proc != NULL || n_err == 0 || (dup && proc_find_thread(&proc, tid) != prev))) FAIL("proc_add_thread refused but changed the process or gave no diagnostic");
	HASH_CLEAR(hh, proc.threads);
	return 0;
}
static int op_add_thread(void)
{
	if (at_case((W_PA_ISINIT) != 0, (W_PA_DUP) != 0, (W_PA_TID))) { printf("REPRODUCED %s\n", why); return 1; }
	static const int tv[] = {0, 1, 7, -1, 0x7fffffff};
	for (int i = 0; i < 2; i++) for (int d = 0; d < 2; d++) for (int k = 0; k < 5; k++)
		if (at_case(i, d, tv[k])) { printf("REPRODUCED %s (found next to the witness)\n", why); return 1; }
	printf("not reproduced: proc_add_thread behaves as specified\n");
	return 0;
}

/* by_tid: exact three-way comparison of the TIDs */
static int op_by_tid(void)
{
	static struct thread *a, *b; a = calloc(1, sizeof(*a)); b = calloc(1, sizeof(*b));
	int tv[] = {(W_T1), (W_T2), 0, 1, -1, 2, 100, 0x7fffffff, -0x7fffffff - 1, 0x40000000, -0x40000000};
	for (int i = 0; i < 11; i++) for (int j = 0; j < 11; j++) {
		a->tid = tv[i]; b->tid = tv[j];
		int r = by_tid(a, b), e = SPEC_CMP3(tv[i], tv[j]);
		if (r != e) { printf("REPRODUCED by_tid(tid %d, tid %d) returned %d, specified %d\n", tv[i], tv[j], r, e); return 1; }
		if (i == j && by_tid(a, a) != 0) { printf("REPRODUCED by_tid is not reflexive\n"); return 1; }
	}
	printf("not reproduced: by_tid is the three-way comparison of the TIDs on the probe set\n");
	return 0;
}

static int op_init_begin(void)
{
	static struct proc proc; memset(&proc, 0x5a, sizeof(proc));
	int r = proc_init_begin(&proc, 1234);
	if (r != 0 || proc.appid != SPEC_APPID_UNSET || proc.rank != SPEC_RANK_UNSET || proc.nranks != 0 || proc.pid != 1234 || proc.gindex != -1 ||
		proc.is_init != 0 || proc.threads != NULL || proc.nthreads != 0) {
		printf("REPRODUCED proc_init_begin does not establish the start state of the merge (ret=%d appid=%d rank=%d nranks=%d pid=%d gindex=%ld is_init=%d nthreads=%d)\n",
			r, proc.appid, proc.rank, proc.nranks, proc.pid, (long) proc.gindex, proc.is_init, proc.nthreads);
		return 1;
	}
	printf("not reproduced: proc_init_begin establishes the start state\n");
	return 0;
}

int main(void)
{
	setvbuf(stdout, NULL, _IONBF, 0);
	switch (REPLAY_OP) {
	case 0: case 1: case 2: return op_merge(REPLAY_OP);
	case 3: return op_init_end();
	case 4: return op_add_thread();
	case 5: return op_by_tid();
	default: return op_init_begin();
	}
}
