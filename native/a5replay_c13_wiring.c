/* C13 native END-TO-END replay of the model wiring: the REAL src/emu/model_pvt.c (model_pvt_connect_thread,
 * model_pvt_connect_cpu, connect_thread_prv, connect_cpu_prv, init_pcf, create_type, create_values) and
 * src/emu/pv/pvt.c (pvt_open, pvt_advance, pvt_close, pvt_get_*) with the REAL recorder.c, pv/prv.c, pv/pcf.c,
 * pv/prf.c, bay.c, chan.c, thread.c, cpu.c, system.c, extend.c in ONE program.  The machinery of
 * native/c13_system_replay.c (includes, .prv/.pcf/.row parsers, well-formedness of a trace) is reused by including
 * that file with its main() renamed.  No input witness is needed (the failed obligations of the groups served are
 * clauses over logging stubs): the driver runs finite sessions.
 *
 * Session 1 (pvt.c by hand): pvt_open(3 rows) -> rows named, one type declared, one channel registered ->
 * pvt_advance forwards (a step back is refused) with a value emitted -> pvt_close; the three files are parsed.
 * Session 1b (recorder.c by hand, groups g4_recorder_*): init, add two traces (a duplicate name is refused), find by
 * name, advance all (a step back is refused), finish closes EVERY trace (an unclosable one makes it fail).
 * Session 2 (model_pvt.c): a synthetic model 'X' with 4 channels per thread and per CPU (Paraver types 70..73, row
 * policies none / SKIPDUP / EMITDUP / NEXT, label tables of 3 / 0 / 1 / 2 entries, tracking modes that give the
 * three type-label suffixes), with and without a flags table; system_connect creates the "thread" and "cpu"
 * traces, model_pvt_connect_thread / _cpu wire the model; every thread and CPU then writes a script of values
 * (with repeated values) to its channels at increasing clocks; recorder_finish closes the traces.  Statement:
 *   each .prv has non-decreasing timestamps, rows within the declared count, a header whose duration equals the
 *   last event time, and only event types declared in the matching .pcf, where every non-zero value printed for a
 *   labelled type has its label; the .row file names exactly the declared rows;
 * plus exactly: channel i of thread / CPU with global index g is printed on row g + 1 under type[i] with its row
 * policy (the expected list of lines is compared line by line), the type label is "<prefix> <tracking suffix>".
 * Linked with -Wl,--unresolved-symbols=ignore-all.  exit 0: as specified; exit 1: REPRODUCED. */
#define main c13_system_replay_main
#include "c13_system_replay.c"
#undef main
#include "extend.c"
#include "mux.c"
#include "track.c"
#include "emu.h"
#include "model_thread.h"
#include "model_cpu.h"
#include "model_chan.h"
#include "model_pvt.c"

#define X_NCH 4
#define X_NT 2
#define X_NC 2
static const int x_type[X_NCH] = {70, 71, 72, 73};
static const char *x_prefix[X_NCH] = {"Wire: alpha", "Wire: beta", "Wire: gamma", "Wire: delta"};
static const long x_flags[X_NCH] = {0, PRV_SKIPDUP, PRV_EMITDUP, PRV_NEXT};
static const struct pcf_value_label x_l0[] = {{1, "one"}, {2, "two"}, {3, "three"}, {-1, NULL}};
static const struct pcf_value_label x_l2[] = {{5, "five"}, {-1, NULL}};
static const struct pcf_value_label x_l3[] = {{1, "first"}, {2, "second"}, {-1, NULL}};
static const struct pcf_value_label *x_label[X_NCH] = {x_l0, NULL, x_l2, x_l3};
static const int x_th_track[X_NCH] = {TRACK_TH_RUN, TRACK_TH_ACT, TRACK_TH_ANY, TRACK_TH_RUN};
static const int x_cpu_track[X_NCH] = {TRACK_TH_ANY, TRACK_TH_RUN, TRACK_TH_ACT, TRACK_TH_ANY};
static const char *x_suffix[TRACK_TH_MAX];
static struct model_pvt_spec x_pvt;
static struct model_chan_spec x_th_chan, x_cpu_chan;
static struct model_spec x_model;
static struct model_thread_spec x_th_spec; static struct model_cpu_spec x_cpu_spec;

static struct emu *x_emu;
static struct thread *x_th[X_NT]; static struct cpu *x_cpu[X_NC]; static struct proc x_proc[X_NT]; static struct loom x_loom;
static struct model_thread x_mth[X_NT]; static struct model_cpu x_mcpu[X_NC];
struct x_line { long long time; long row; long long type, val; };
static struct x_line x_want[2][256]; static int x_nwant[2];     /* 0 thread trace, 1 cpu trace */

static const char *x_tick(void)
{
	r_clock += 4;
	if (recorder_advance(&x_emu->recorder, r_clock) != 0) FAILF("recorder_advance(%lld) refused", r_clock);
	return NULL;
}
static struct track *x_tracks(struct bay *bay, const char *kind, int g)
{
	struct track *t = calloc(X_NCH, sizeof(struct track));
	for (int i = 0; i < X_NCH; i++) {
		chan_init(&t[i].ch, CHAN_SINGLE, "x.%s%d.ch%d", kind, g, i);
		chan_prop_set(&t[i].ch, CHAN_ALLOW_DUP, 1);
		if (bay_register(bay, &t[i].ch) != 0) return NULL;
		t[i].out = &t[i].ch; t[i].bay = bay;
	}
	return t;
}
/* one write of value v on channel i of object g of trace tr at the current clock; appends the line specified by the row policy */
static const char *x_write(int tr, struct track *tracks, int g, int i, long long v, long long *last, int *has_last, int with_flags)
{
	if (chan_set(tracks[i].out, value_int64(v)) != 0) FAILF("chan_set refused");
	long f = with_flags ? x_flags[i] : 0;
	int dup = has_last[i] && last[i] == v;
	if (dup && !(f & PRV_EMITDUP) && !(f & PRV_SKIPDUP)) FAILF("driver: the script repeats a value on a channel without duplicate policy");
	if (!(dup && (f & PRV_SKIPDUP))) {
		struct x_line *l = &x_want[tr][x_nwant[tr]++];
		l->time = r_clock; l->row = g + 1; l->type = x_type[i]; l->val = v + ((f & PRV_NEXT) ? 1 : 0);
	}
	last[i] = v; has_last[i] = 1;
	return NULL;
}
static const char *x_compare(int tr, const char *name)
{
	int k = 0;
	for (int i = 0; i < r_prvf.n && i < R_MAXL; i++) {
		if (r_prvf.type[i] < 70 || r_prvf.type[i] > 73) continue;
		/* lines of one instant may come in any order: find the line among the expected ones of that time */
		int hit = -1;
		for (int j = 0; j < x_nwant[tr]; j++) if (x_want[tr][j].time == r_prvf.time[i] && x_want[tr][j].row == r_prvf.row[i] && x_want[tr][j].type == r_prvf.type[i] && x_want[tr][j].val == r_prvf.val[i] && x_want[tr][j].time >= 0) { hit = j; break; }
		if (hit < 0) FAILF("%s.prv: line \"row %ld, time %lld, type %lld, value %lld\" is not specified: channel i of the object with global index g is printed on row g + 1 under type[i] of the model, with the row policy (flags) of channel i", name, r_prvf.row[i], r_prvf.time[i], r_prvf.type[i], r_prvf.val[i]);
		x_want[tr][hit].time = -1 - x_want[tr][hit].time; k++;
	}
	for (int j = 0; j < x_nwant[tr]; j++) if (x_want[tr][j].time >= 0) FAILF("%s.prv: the line \"row %ld, time %lld, type %lld, value %lld\" is missing (channel written by the session, %d of %d lines found)", name, x_want[tr][j].row, x_want[tr][j].time, x_want[tr][j].type, x_want[tr][j].val, k, x_nwant[tr]);
	return NULL;
}
static const char *x_check_pcf(const char *name, const int *track)
{
	for (int i = 0; i < X_NCH; i++) {
		int pi = pcf_type_index(&r_pcff, x_type[i]);
		if (pi < 0) FAILF("%s.pcf does not declare type %d of the model's channel %d", name, x_type[i], i);
		char lab[256]; snprintf(lab, sizeof(lab), "%s", r_pcff.label[pi]); size_t n = strlen(lab); while (n && lab[n - 1] == ' ') lab[--n] = 0;
		char want[256]; snprintf(want, sizeof(want), "%s %s", x_prefix[i], x_suffix[track[i]]); n = strlen(want); while (n && want[n - 1] == ' ') want[--n] = 0;
		if (strcmp(lab, want) != 0) FAILF("%s.pcf: type %d is labelled \"%s\", specified \"%s\" (prefix of the channel and the suffix of its tracking mode)", name, x_type[i], lab, want);
		int nl = 0;
		if (x_label[i]) for (const struct pcf_value_label *l = x_label[i]; l->label; l++, nl++) {
			const char *got = pcf_value_label(&r_pcff, pi, l->value);
			if (!got || strcmp(got, l->label) != 0) FAILF("%s.pcf: value %d of type %d is labelled \"%s\", the model's label table says \"%s\"", name, l->value, x_type[i], got ? got : "(no label)", l->label);
		}
		if (r_pcff.nv[pi] != nl) FAILF("%s.pcf: type %d has %d values, the model's label table has %d entries", name, x_type[i], r_pcff.nv[pi], nl);
	}
	return NULL;
}
static const char *x_session(int with_flags)
{
	const char *why;
	snprintf(r_ctx, sizeof(r_ctx), "synthetic model of 4 channels (types 70..73, %s) on %d threads and %d CPUs; system_connect, model_pvt_connect_thread, model_pvt_connect_cpu, scripted writes with repeated values, recorder_finish", with_flags ? "flags none/SKIPDUP/EMITDUP/NEXT" : "no flags table", X_NT, X_NC);
	mkdir(R_DIR, 0755);
	static const char *files[] = { "thread.prv", "thread.pcf", "thread.row", "cpu.prv", "cpu.pcf", "cpu.row" };
	for (int i = 0; i < 6; i++) { char p[128]; snprintf(p, sizeof(p), R_DIR "/%s", files[i]); remove(p); }
	n_err = 0; r_clock = 0; x_nwant[0] = x_nwant[1] = 0;
	x_suffix[TRACK_TH_ANY] = ""; x_suffix[TRACK_TH_RUN] = "of the RUNNING thread"; x_suffix[TRACK_TH_ACT] = "of the ACTIVE thread";
	x_pvt.type = x_type; x_pvt.prefix = x_prefix; x_pvt.flags = with_flags ? x_flags : NULL; x_pvt.label = x_label;
	x_th_chan.nch = X_NCH; x_th_chan.pvt = &x_pvt; x_th_chan.track = x_th_track; x_cpu_chan = x_th_chan; x_cpu_chan.track = x_cpu_track;
	x_model.name = "wire"; x_model.model = 'X';
	x_th_spec.chan = &x_th_chan; x_th_spec.model = &x_model; x_cpu_spec.chan = &x_cpu_chan; x_cpu_spec.model = &x_model;
	if (!x_emu) x_emu = calloc(1, sizeof(*x_emu));
	memset(x_emu, 0, sizeof(*x_emu)); memset(&x_loom, 0, sizeof(x_loom));
	bay_init(&x_emu->bay);
	if (recorder_init(&x_emu->recorder, R_DIR) != 0) FAILF("recorder_init refused");
	for (int k = 0; k < X_NT; k++) {
		struct thread *th = x_th[k] = calloc(1, sizeof(struct thread));
		memset(&x_proc[k], 0, sizeof(x_proc[k])); x_proc[k].appid = 1; x_proc[k].pid = 300 + k;
		if (thread_init_begin(th, 40 + k) != 0) FAILF("thread_init_begin refused");
		thread_set_proc(th, &x_proc[k]); th->meta = (JSON_Object *) &x_proc[k]; thread_set_gindex(th, k);
		if (thread_init_end(th) != 0) FAILF("thread_init_end refused");
		x_mth[k].spec = &x_th_spec; x_mth[k].bay = &x_emu->bay; x_mth[k].track = x_tracks(&x_emu->bay, "thread", k);
		if (!x_mth[k].track) FAILF("setup: bay_register failed");
		extend_set(&th->ext, 'X', &x_mth[k]);
		if (k) { x_th[k - 1]->gnext = th; th->gprev = x_th[k - 1]; }
	}
	for (int k = 0; k < X_NC; k++) {
		struct cpu *cpu = x_cpu[k] = calloc(1, sizeof(struct cpu));
		cpu_init_begin(cpu, k, 8 + k, 0); cpu_set_loom(cpu, &x_loom); cpu_set_gindex(cpu, k);
		if (cpu_init_end(cpu) != 0) FAILF("cpu_init_end refused");
		x_mcpu[k].spec = &x_cpu_spec; x_mcpu[k].bay = &x_emu->bay; x_mcpu[k].track = x_tracks(&x_emu->bay, "cpu", k);
		if (!x_mcpu[k].track) FAILF("setup: bay_register failed");
		extend_set(&cpu->ext, 'X', &x_mcpu[k]);
		if (k) { x_cpu[k - 1]->next = cpu; cpu->prev = x_cpu[k - 1]; }
	}
	struct system *sys = &x_emu->system;
	sys->threads = x_th[0]; sys->cpus = x_cpu[0]; sys->nthreads = X_NT; sys->ncpus = X_NC; sys->nphycpus = X_NC; sys->looms = &x_loom; sys->nlooms = 1;
	if (system_connect(sys, &x_emu->bay, &x_emu->recorder) != 0) FAILF("system_connect refused a well-formed system");
	if (model_pvt_connect_thread(x_emu, &x_th_spec) != 0) FAILF("model_pvt_connect_thread refused a well-formed model (%d diagnostics)", n_err);
	if (model_pvt_connect_cpu(x_emu, &x_cpu_spec) != 0) FAILF("model_pvt_connect_cpu refused a well-formed model (%d diagnostics)", n_err);
	/* ---- the script: per object, values on each channel; channels 1 and 2 repeat a value ---- */
	static const long long script[][X_NCH] = {{1, 10, 5, 0}, {2, 10, 5, 1}, {3, 11, 6, 0}, {1, 11, 5, 1}};
	static long long last[2][4][X_NCH]; static int has[2][4][X_NCH]; memset(has, 0, sizeof(has));
	for (int s = 0; s < 4; s++) {
		for (int k = 0; k < X_NT; k++) {
			if ((why = x_tick())) return why;
			for (int i = 0; i < X_NCH; i++) {
				long long v = script[(s + k) % 4][i] + (i == 1 ? 100 * k : 0) + (i == 3 && !with_flags ? 1 : 0);   /* 0 is printable only through PRV_NEXT */
				int dup = has[0][k][i] && last[0][k][i] == v;
				if (dup && !(with_flags && (x_flags[i] & (PRV_SKIPDUP | PRV_EMITDUP)))) continue;     /* no policy for repeats: do not repeat */
				if ((why = x_write(0, x_mth[k].track, k, i, v, last[0][k], has[0][k], with_flags))) return why;
			}
			if (bay_propagate(&x_emu->bay) != 0) FAILF("the emission of the model channels of thread %d was refused (step %d, %d diagnostics)", k, s, n_err);
		}
		for (int k = 0; k < X_NC; k++) {
			if ((why = x_tick())) return why;
			for (int i = 0; i < X_NCH; i++) {
				long long v = script[(s + k + 1) % 4][i] + (i == 1 ? 100 * k : 0) + (i == 3 && !with_flags ? 1 : 0);   /* 0 is printable only through PRV_NEXT */
				int dup = has[1][k][i] && last[1][k][i] == v;
				if (dup && !(with_flags && (x_flags[i] & (PRV_SKIPDUP | PRV_EMITDUP)))) continue;
				if ((why = x_write(1, x_mcpu[k].track, k, i, v, last[1][k], has[1][k], with_flags))) return why;
			}
			if (bay_propagate(&x_emu->bay) != 0) FAILF("the emission of the model channels of CPU %d was refused (step %d, %d diagnostics)", k, s, n_err);
		}
	}
	if ((why = x_tick())) return why;
	if (recorder_finish(&x_emu->recorder) != 0) FAILF("recorder_finish refused");
	static const int labelled[3] = {70, 72, 73};
	if ((why = check_trace("thread", X_NT, r_clock, labelled, with_flags ? 1 : 0))) return why;
	if ((why = x_compare(0, "thread"))) return why;
	if ((why = x_check_pcf("thread", x_th_track))) return why;
	if ((why = check_trace("cpu", X_NC, r_clock, labelled, with_flags ? 1 : 0))) return why;
	if ((why = x_compare(1, "cpu"))) return why;
	if ((why = x_check_pcf("cpu", x_cpu_track))) return why;
	return NULL;
}
/* pvt.c by hand */
static const char *x_pvt_session(void)
{
	snprintf(r_ctx, sizeof(r_ctx), "pvt_open(3 rows, \"wire\") -> 3 rows named, type 80 declared, one channel on row 2 -> pvt_advance 10, value 4, pvt_advance 25, pvt_advance 20 (back) -> pvt_close");
	mkdir(R_DIR, 0755);
	static const char *files[] = { "wire.prv", "wire.pcf", "wire.row" };
	for (int i = 0; i < 3; i++) { char p[128]; snprintf(p, sizeof(p), R_DIR "/%s", files[i]); remove(p); }
	n_err = 0;
	static struct pvt pvt; static struct bay bay; static struct chan ch;
	memset(&pvt, 0x5a, sizeof(pvt)); bay_init(&bay);
	if (pvt_open(&pvt, 3, R_DIR, "wire") != 0) FAILF("pvt_open refused");
	if (strcmp(pvt.dir, R_DIR) != 0 || strcmp(pvt.name, "wire") != 0) FAILF("pvt_open does not record the directory and the name of the trace");
	if (pvt_get_prv(&pvt) != &pvt.prv || pvt_get_pcf(&pvt) != &pvt.pcf || pvt_get_prf(&pvt) != &pvt.prf) FAILF("pvt_get_prv / pvt_get_pcf / pvt_get_prf do not return the trace's own writers");
	for (int k = 0; k < 3; k++) { char nm[32]; snprintf(nm, sizeof(nm), "ROW %d", k); if (prf_add(pvt_get_prf(&pvt), k, nm) != 0) FAILF("prf_add refused row %d of the 3 rows given to pvt_open", k); }
	if (pcf_add_type(pvt_get_pcf(&pvt), 80, "Wire type") == NULL) FAILF("pcf_add_type refused");
	chan_init(&ch, CHAN_SINGLE, "x.wire"); if (bay_register(&bay, &ch) != 0) FAILF("bay_register refused");
	if (prv_register(pvt_get_prv(&pvt), 1, 80, &bay, &ch, 0) != 0) FAILF("prv_register refused row 1 of the 3 rows given to pvt_open");
	if (pvt_advance(&pvt, 10) != 0) FAILF("pvt_advance(10) refused");
	if (chan_set(&ch, value_int64(4)) != 0 || bay_propagate(&bay) != 0) FAILF("emission refused");
	if (pvt_advance(&pvt, 25) != 0) FAILF("pvt_advance(25) refused");
	int e0 = n_err;
	if (pvt_advance(&pvt, 20) == 0) FAILF("pvt_advance accepted a step back in time (25 -> 20)");
	if (n_err == e0) FAILF("pvt_advance refused a step back without a diagnostic");
	if (pvt_close(&pvt) != 0) FAILF("pvt_close refused");
	const char *why;
	static const int none[1] = {0};
	if ((why = check_trace("wire", 3, 25, none, 0))) return why;
	if (r_prvf.n != 1 || r_prvf.row[0] != 2 || r_prvf.time[0] != 10 || r_prvf.type[0] != 80 || r_prvf.val[0] != 4) FAILF("wire.prv does not hold exactly the line (row 2, time 10, type 80, value 4)");
	for (int k = 0; k < 3; k++) { char nm[32]; snprintf(nm, sizeof(nm), "ROW %d", k); if (strcmp(r_rowf.name[k], nm) != 0) FAILF("wire.row: row %d is \"%s\"", k + 1, r_rowf.name[k]); }
	/* a trace whose rows were not all named cannot be closed */
	memset(&pvt, 0, sizeof(pvt)); n_err = 0;
	if (pvt_open(&pvt, 2, R_DIR, "wire") != 0) FAILF("pvt_open refused");
	if (prf_add(pvt_get_prf(&pvt), 0, "only") != 0) FAILF("prf_add refused");
	if (pvt_close(&pvt) == 0) FAILF("pvt_close accepted a trace with an unnamed row");
	return NULL;
}
/* recorder.c by hand (groups g4_recorder_*) */
static const char *x_recorder_session(void)
{
	snprintf(r_ctx, sizeof(r_ctx), "recorder_init -> recorder_add_pvt alpha (2 rows), beta (1 row), alpha again -> recorder_find_pvt -> recorder_advance 7, 3 (back) -> recorder_finish");
	mkdir(R_DIR, 0755);
	static const char *files[] = { "alpha.prv", "alpha.pcf", "alpha.row", "beta.prv", "beta.pcf", "beta.row" };
	for (int i = 0; i < 6; i++) { char p[128]; snprintf(p, sizeof(p), R_DIR "/%s", files[i]); remove(p); }
	static struct recorder rec; memset(&rec, 0x5a, sizeof(rec)); n_err = 0;
	if (recorder_init(&rec, R_DIR) != 0 || strcmp(rec.dir, R_DIR) != 0 || rec.pvt != NULL) FAILF("recorder_init does not give an empty recorder on the directory given");
	if (recorder_find_pvt(&rec, "alpha") != NULL) FAILF("recorder_find_pvt finds a trace in an empty recorder");
	struct pvt *a = recorder_add_pvt(&rec, "alpha", 2), *b = recorder_add_pvt(&rec, "beta", 1);
	if (!a || !b || a == b) FAILF("recorder_add_pvt refused a new trace name");
	int e0 = n_err;
	if (recorder_add_pvt(&rec, "alpha", 5) != NULL) FAILF("recorder_add_pvt accepted a second trace named \"alpha\"");
	if (n_err == e0) FAILF("recorder_add_pvt refused a duplicate name without a diagnostic");
	if (recorder_find_pvt(&rec, "alpha") != a || recorder_find_pvt(&rec, "beta") != b || recorder_find_pvt(&rec, "alph") != NULL || recorder_find_pvt(&rec, "gamma") != NULL) FAILF("recorder_find_pvt does not find exactly the traces added, by name");
	if (strcmp(a->name, "alpha") != 0 || strcmp(a->dir, R_DIR) != 0) FAILF("the trace \"alpha\" was not opened in the recorder's directory under its name");
	if (prf_add(pvt_get_prf(a), 0, "A0") != 0 || prf_add(pvt_get_prf(a), 1, "A1") != 0 || prf_add(pvt_get_prf(b), 0, "B0") != 0) FAILF("prf_add refused a row of the count given to recorder_add_pvt");
	if (recorder_advance(&rec, 7) != 0) FAILF("recorder_advance(7) refused");
	e0 = n_err;
	if (recorder_advance(&rec, 3) == 0 || n_err == e0) FAILF("recorder_advance accepted a step back in time (7 -> 3), or refused it silently");
	if (recorder_finish(&rec) != 0) FAILF("recorder_finish refused");
	const char *why; static const int none[1] = {0};
	if ((why = check_trace("alpha", 2, 7, none, 0))) return why;      /* EVERY trace of the recorder advanced to 7 and was closed */
	if ((why = check_trace("beta", 1, 7, none, 0))) return why;
	/* a trace that cannot be closed makes recorder_finish fail */
	memset(&rec, 0, sizeof(rec)); n_err = 0;
	if (recorder_init(&rec, R_DIR) != 0 || !(a = recorder_add_pvt(&rec, "alpha", 1)) || !(b = recorder_add_pvt(&rec, "beta", 2))) FAILF("recorder refused");
	if (prf_add(pvt_get_prf(a), 0, "A0") != 0 || prf_add(pvt_get_prf(b), 0, "B0") != 0) FAILF("prf_add refused");
	if (recorder_finish(&rec) == 0) FAILF("recorder_finish succeeded although the trace \"beta\" has an unnamed row and cannot be closed");
	char *lng = malloc(PATH_MAX + 8); memset(lng, 'd', PATH_MAX + 7); lng[PATH_MAX + 7] = 0; n_err = 0;
	if (recorder_init(&rec, lng) == 0 || n_err == 0) FAILF("recorder_init accepted a directory longer than PATH_MAX (or refused it silently)");
	free(lng);
	return NULL;
}
int main(void)
{
	setvbuf(stdout, NULL, _IONBF, 0);
	r_origin = "finite corpus, no witness needed";
	RUN(x_pvt_session());
	RUN(x_recorder_session());
	RUN(x_session(1));
	RUN(x_session(0));
	printf("not reproduced: pvt.c and model_pvt.c wire a model's channels to well-formed, self-consistent traces (2 model sessions, 1 pvt session, 1 recorder session)\n");
	return 0;
}
