#define REPLAY_OP 5
#include "c15_loom_replay.h"
