#define REPLAY_NANOS6 1
#include "c20_connect_replay.h"
