/* C20 native replay of a failed breakdown-mux obligation on the REAL src/emu/{nosv,nanos6}/breakdown.c (select_tr,
 * select_idle) with the REAL mux.c / chan.c.  Define REPLAY_NANOS6 for the nanos6 copy; REPLAY_OP: 0 select_tr, 1 select_idle.
 * Witnesses: W_VT W_VI (the value of the select channel), W_SS_T W_SS_I (what the subsystem channel shows),
 * W_TT_T (what the task-type channel shows).
 * Specification (property statement): the breakdown row of a CPU shows the task TYPE while the CPU runs a task body
 * of a known type, otherwise the SUBSYSTEM (nothing selected = default when the subsystem is null); the idle mux
 * shows that row only while the CPU is PROGRESSING, otherwise the idle state itself (resting, absorbing, ...).
 * Linked with -Wl,--unresolved-symbols=ignore-all.  exit 0: as specified; exit 1: REPRODUCED. */
#include "c12_replay_common.h"
#include "value.c"
#include "chan.c"
#include "mux.c"
#ifdef REPLAY_NANOS6
#include "nanos6/breakdown.c"
#define MODEL "nanos6"
#else
#include "nosv/breakdown.c"
#define MODEL "nosv"
#endif
#ifndef W_VT
#define W_VT VALUE_INT64
#endif
#ifndef W_VI
#define W_VI ST_TASK_BODY
#endif
#ifndef W_SS_T
#define W_SS_T W_VT
#endif
#ifndef W_SS_I
#define W_SS_I W_VI
#endif
#ifndef W_TT_T
#define W_TT_T VALUE_INT64
#endif
static char why[300];
static struct mux mux; static struct mux_input in[2]; static struct chan ch[2];
static void setup(long ss_t, long ss_i, long tt_t)
{
	memset(&mux, 0, sizeof(mux)); memset(in, 0, sizeof(in));
	chan_init(&ch[0], CHAN_SINGLE, "replay.subsystem"); chan_init(&ch[1], CHAN_SINGLE, "replay.task_type");
	if (ss_t != VALUE_NULL) (void) chan_set(&ch[0], value_int64(ss_i));   /* any non-null value is replayed as an int64 */
	if (tt_t != VALUE_NULL) (void) chan_set(&ch[1], value_int64(1234));
	in[0].index = 0; in[0].chan = &ch[0]; in[1].index = 1; in[1].chan = &ch[1];
	mux.ninputs = 2; mux.inputs = in;
}
static int tr_case(long vt, long vi, long ss_t, long ss_i, long tt_t)
{
	setup(ss_t, ss_i, tt_t);
	struct value v; memset(&v, 0, sizeof(v)); v.type = (enum value_type) vt; v.i = vi;
	struct mux_input *sel = (struct mux_input *) 0x1; n_err = 0;
	int r = select_tr(&mux, v, &sel);
	int in_body = vt == VALUE_INT64 && vi == ST_TASK_BODY && tt_t != VALUE_NULL;
	struct mux_input *e = in_body ? &in[1] : (ss_t != VALUE_NULL ? &in[0] : NULL);
	if (r != 0 || n_err) { snprintf(why, sizeof(why), "select_tr returned %d / gave a diagnostic", r); return 1; }
	if (sel != e) { snprintf(why, sizeof(why), "select_tr selected %s, specified %s", sel == &in[1] ? "the task type" : sel == &in[0] ? "the subsystem" : sel == NULL ? "nothing" : "garbage",
		e == &in[1] ? "the task type (task body of a known type)" : e == &in[0] ? "the subsystem" : "nothing (null subsystem: default shown)"); return 1; }
	return 0;
}
static int idle_case(long vt, long vi)
{
	setup(VALUE_INT64, 5, VALUE_INT64);
	struct value v; memset(&v, 0, sizeof(v)); v.type = (enum value_type) vt; v.i = vi;
	struct mux_input *sel = (struct mux_input *) 0x1; n_err = 0;
	int r = select_idle(&mux, v, &sel);
	struct mux_input *e = (vt == VALUE_INT64 && vi == ST_PROGRESSING) ? &in[0] : &in[1];
	if (r != 0 || n_err) { snprintf(why, sizeof(why), "select_idle returned %d / gave a diagnostic", r); return 1; }
	if (sel != e) { snprintf(why, sizeof(why), "select_idle(idle state %ld) selected %s, specified %s", vi, sel == &in[0] ? "the task/subsystem row" : sel == &in[1] ? "the idle state" : "garbage",
		e == &in[0] ? "the task/subsystem row (CPU progressing)" : "the idle state itself (CPU not progressing)"); return 1; }
	return 0;
}
int main(void)
{
	setvbuf(stdout, NULL, _IONBF, 0);
	static const long vts[] = {VALUE_NULL, VALUE_INT64, VALUE_DOUBLE};
#if REPLAY_OP == 0
	if (tr_case((W_VT), (W_VI), (W_SS_T), (W_SS_I), (W_TT_T))) { printf("REPRODUCED " MODEL " %s [select value type=%ld i=%ld; subsystem shows type=%ld i=%ld; task type shows type=%ld]\n", why, (long) (W_VT), (long) (W_VI), (long) (W_SS_T), (long) (W_SS_I), (long) (W_TT_T)); return 1; }
	for (int a = 0; a < 3; a++) for (long vi = -1; vi <= 12; vi++) for (int t = 0; t < 2; t++) {
		/* as wired, the select channel IS the subsystem channel */
		if (tr_case(vts[a], vi, vts[a] == VALUE_DOUBLE ? VALUE_INT64 : vts[a], vi, t ? VALUE_INT64 : VALUE_NULL)) { printf("REPRODUCED " MODEL " %s (found next to the witness) [subsystem value type=%ld i=%ld; task type known=%d]\n", why, vts[a], vi, t); return 1; }
	}
	printf("not reproduced: " MODEL " select_tr behaves as specified on the witness and its neighbourhood\n");
#else
	if (idle_case((W_VT), (W_VI))) { printf("REPRODUCED " MODEL " %s [idle value type=%ld i=%ld]\n", why, (long) (W_VT), (long) (W_VI)); return 1; }
	for (int a = 0; a < 3; a++) for (long vi = ST_PROGRESSING - 2; vi <= ST_PROGRESSING + 4; vi++)
		if (idle_case(vts[a], vi)) { printf("REPRODUCED " MODEL " %s (found next to the witness) [idle value type=%ld i=%ld; progressing=%d resting=%d absorbing=%d]\n", why, vts[a], vi, (int) ST_PROGRESSING, (int) ST_RESTING, (int) ST_ABSORBING); return 1; }
	if (idle_case(VALUE_INT64, 0) || idle_case(VALUE_INT64, ST_TASK_BODY)) { printf("REPRODUCED " MODEL " %s (found next to the witness)\n", why); return 1; }
	printf("not reproduced: " MODEL " select_idle behaves as specified on the witness and its neighbourhood\n");
#endif
	return 0;
}
