#define REPLAY_OP 1
#include "c03_g1_replay.h"
