/* C16 native replay of a failed ovnisort helper obligation on the REAL src/emu/ovnisort.c (with the real
 * stream.c for stream_check; pwrite(2) is redirected to an in-memory file that delivers SHORT writes).
 * REPLAY_OP: 0 cmp_ev (+ laws)  1 find_destination  2 ring_add / ring_reset  3 write_stream  4 stream_check
 *            5 starts/ends_unsorted_region
 * Witnesses: W_C1 W_C2 | W_FD_N W_FD_HEAD W_FD_TAIL W_FD_CLOCK W_FD_C0..W_FD_C4 | W_HEAD W_TAIL W_SIZE | W_WS_SIZE.
 * Specification (statement): the sorted stream holds the same events with non-decreasing clocks and events
 * with EQUAL clocks keep their order (the comparator reports a tie as 0); an event is moved to just after the
 * most recent event with a strictly smaller clock inside the look-back window, and a window that is too small
 * is reported; every byte reaches the file at its offset whatever the short-write pattern; ovnisort -c
 * reports a stream exactly when some clock decreases.
 * Linked with -Wl,--unresolved-symbols=ignore-all.  exit 0: as specified; exit 1: REPRODUCED. */
#include "c12_replay_common.h"
static unsigned char *r_file; static size_t r_file_cap; static unsigned long r_pw_calls; static int r_pw_pattern;
static ssize_t r_pwrite(int fd, const void *buf, size_t count, off_t offset)
{
	(void) fd; r_pw_calls++;
	size_t k = count;
	if (r_pw_pattern == 1) k = count > 3 ? 3 : count;            /* short writes of <= 3 bytes */
	else if (r_pw_pattern == 2) k = (r_pw_calls % 2) ? (count + 1) / 2 : count;   /* half, then the rest */
	else if (r_pw_pattern == 3) k = 1;
	if (offset < 0 || (size_t) offset + k > r_file_cap) { printf("REPRODUCED write_stream: pwrite outside the file (offset %ld, %zu bytes, file of %zu)\n", (long) offset, k, r_file_cap); exit(1); }
	memcpy(r_file + offset, buf, k);
	return (ssize_t) k;
}
#define pwrite r_pwrite
#define main ovnisort_main
#include "ovni.c"
#include "parson.c"
#include "path.c"
#include "stream.c"
#include "ovnisort.c"
#undef main
#undef pwrite
int mkpath(const char *path, mode_t mode, int is_dir) { (void) path; (void) mode; (void) is_dir; return -1; }

#ifndef W_C1
#define W_C1 5
#endif
#ifndef W_C2
#define W_C2 5
#endif
#ifndef W_FD_N
#define W_FD_N 4
#endif
#ifndef W_FD_HEAD
#define W_FD_HEAD 0
#endif
#ifndef W_FD_TAIL
#define W_FD_TAIL 2
#endif
#ifndef W_FD_CLOCK
#define W_FD_CLOCK 15
#endif
#ifndef W_FD_C0
#define W_FD_C0 10
#endif
#ifndef W_FD_C1
#define W_FD_C1 20
#endif
#ifndef W_FD_C2
#define W_FD_C2 0
#endif
#ifndef W_FD_C3
#define W_FD_C3 0
#endif
#ifndef W_FD_C4
#define W_FD_C4 0
#endif
#ifndef W_HEAD
#define W_HEAD 0
#endif
#ifndef W_TAIL
#define W_TAIL 2
#endif
#ifndef W_SIZE
#define W_SIZE 3
#endif
#ifndef W_WS_SIZE
#define W_WS_SIZE 100
#endif

static char why[400];
#define FAIL(...) do { snprintf(why, sizeof(why), __VA_ARGS__); return 1; } while (0)

/* ---- 0: cmp_ev ---- */
static int op_cmp_ev(void)
{
	uint64_t v[] = {(uint64_t) (W_C1), (uint64_t) (W_C2), 0, 1, 5, 0x7fffffffULL, 0x80000000ULL, 0x100000000ULL, 0x100000001ULL, 0x7fffffffffffffffULL, 0x7ffffffffffffffeULL};
	struct ovni_ev a, b, *pa = &a, *pb = &b; memset(&a, 0, sizeof(a)); memset(&b, 0, sizeof(b));
	for (int i = 0; i < 11; i++) for (int j = 0; j < 11; j++) {
		if ((int64_t) v[i] < 0 || (int64_t) v[j] < 0) continue;      /* clocks beyond 2^63 ns: outside the contract */
		a.header.clock = v[i]; b.header.clock = v[j];
		int r = cmp_ev(&pa, &pb), e = v[i] < v[j] ? -1 : v[i] > v[j];
		if (r != e) { printf("REPRODUCED cmp_ev(clock %lu, clock %lu) returned %d, specified %d%s\n", (unsigned long) v[i], (unsigned long) v[j], r, e, e == 0 ? " (a tie must be reported as 0: events with equal clocks keep their order)" : ""); return 1; }
	}
	printf("not reproduced: cmp_ev is the three-way comparison of the clocks on the probe set\n");
	return 0;
}

/* ---- 1: find_destination ---- */
#define CNT(h, t, sz) ((t) >= (h) ? (t) - (h) : (t) - (h) + (sz))
static int fd_case(long n, long head, long tail, const uint64_t *clk, uint64_t target)
{
	static struct ring r; static struct ovni_ev evs[8]; struct ovni_ev *slots[8];
	if (!(n >= 1 && n <= 5 && head >= 0 && head < n && tail >= 0 && tail < n)) return 0;
	long count = CNT(head, tail, n);
	if (!(head == 0 || count == n - 1)) return 0;           /* ring invariant */
	for (long k = 0; k < n; k++) {
		long d = CNT(head, k, n);
		if (d < count) { memset(&evs[k], 0, sizeof(evs[k])); evs[k].header.clock = clk[k]; slots[k] = &evs[k]; }
		else slots[k] = NULL;                                /* stale slot: must never be dereferenced */
	}
	r.head = head; r.tail = tail; r.size = n; r.ev = slots; n_err = 0;
	jmp_buf jb; replay_die_jmp = &jb;
	if (setjmp(jb) != 0) { replay_die_jmp = NULL; FAIL("find_destination died on a well-formed ring"); }
	ssize_t got = find_destination(&r, target);
	replay_die_jmp = NULL;
	/* specification: the live entry with the largest distance from the head whose clock is strictly below the target */
	long best = -2;
	for (long d = count - 1; d >= 0; d--) { long k = (head + d) % n; if (clk[k] < target) { best = k; break; } }
	long exp = best >= 0 ? best : (count < n - 1 ? head : -1);
	if (got != exp) FAIL("find_destination returned %zd, specified %ld (%s)", got, exp, best >= 0 ? "the most recent entry with a strictly smaller clock" : exp == -1 ? "-1: no earlier event inside a full window" : "the first event: the window reaches the start of the stream");
	if ((got == -1) != (n_err != 0)) FAIL("find_destination returned %zd %s a diagnostic", got, n_err ? "with" : "without");
	return 0;
}
static void fd_show(long n, long head, long tail, const uint64_t *clk, uint64_t target)
{
	printf(" [ring size=%ld head=%ld tail=%ld clocks=", n, head, tail);
	for (long k = 0; k < n; k++) printf("%s%lu", k ? "," : "", (unsigned long) clk[k]);
	printf(" target clock=%lu]\n", (unsigned long) target);
}
static int op_find_destination(void)
{
	uint64_t c[5] = {(uint64_t) (W_FD_C0), (uint64_t) (W_FD_C1), (uint64_t) (W_FD_C2), (uint64_t) (W_FD_C3), (uint64_t) (W_FD_C4)};
	if (fd_case((W_FD_N), (W_FD_HEAD), (W_FD_TAIL), c, (uint64_t) (W_FD_CLOCK))) { printf("REPRODUCED %s", why); fd_show((W_FD_N), (W_FD_HEAD), (W_FD_TAIL), c, (uint64_t) (W_FD_CLOCK)); return 1; }
	for (long n = 1; n <= 5; n++) for (long h = 0; h < n; h++) for (long t = 0; t < n; t++) for (long x = 0; x < 243; x++) for (uint64_t tg = 9; tg <= 31; tg += 11) {
		uint64_t b[5]; long y = x; for (int k = 0; k < 5; k++) { b[k] = 10 * (uint64_t) (1 + y % 3); y /= 3; }
		if (n < 5 && x >= 81) break;
		if (fd_case(n, h, t, b, tg) || fd_case(n, h, t, b, tg + 1)) { printf("REPRODUCED %s (found next to the witness)", why); fd_show(n, h, t, b, tg); return 1; }
	}
	printf("not reproduced: find_destination behaves as specified on the witness and its neighbourhood;"); fd_show((W_FD_N), (W_FD_HEAD), (W_FD_TAIL), c, (uint64_t) (W_FD_CLOCK));
	return 0;
}

/* ---- 2: ring_add / ring_reset ---- */
static int ra_case(long size, long head, long tail)
{
	if (!(size >= 1 && size <= 64 && head >= 0 && head < size && tail >= 0 && tail < size)) return 0;
	static struct ring r; static struct ovni_ev e; struct ovni_ev **slots = malloc(sizeof(*slots) * (size_t) size);
	for (long k = 0; k < size; k++) slots[k] = (struct ovni_ev *) (uintptr_t) (0x1000 + 16 * k);
	r.size = size; r.head = head; r.tail = tail; r.ev = slots;
	ring_add(&r, &e);
	long nt = tail + 1 >= size ? 0 : tail + 1;
	long nh = head == nt ? (nt + 1 >= size ? 0 : nt + 1) : head;
	int bad = 0;
	if (slots[tail] != &e) { snprintf(why, sizeof(why), "ring_add did not store the event at the old tail"); bad = 1; }
	for (long k = 0; !bad && k < size; k++) if (k != tail && slots[k] != (struct ovni_ev *) (uintptr_t) (0x1000 + 16 * k)) { snprintf(why, sizeof(why), "ring_add changed slot %ld", k); bad = 1; }
	if (!bad && (r.tail != nt || r.head != nh)) { snprintf(why, sizeof(why), "ring_add(size %ld, head %ld, tail %ld) left head=%zd tail=%zd, specified head=%ld tail=%ld (tail advances circularly; the oldest entry is dropped exactly when the tail catches up with the head)", size, head, tail, r.head, r.tail, nh, nt); bad = 1; }
	if (!bad) { ring_reset(&r); if (r.head != 0 || r.tail != 0) { snprintf(why, sizeof(why), "ring_reset does not empty the ring"); bad = 1; } }
	free(slots);
	return bad;
}
static int op_ring_add(void)
{
	long sz = (long) (W_SIZE), h = (long) (W_HEAD), t = (long) (W_TAIL);
	if (sz > 64) { /* scale a huge ring down keeping the relative position of head and tail */
		long nt = t + 1 >= sz ? 0 : t + 1; int full = h == nt, wrap = t == sz - 1;
		sz = 64; t = wrap ? 63 : 10; h = full ? (t + 1) % 64 : (wrap ? 5 : 0);
	}
	if (ra_case(sz, h, t)) { printf("REPRODUCED %s\n", why); return 1; }
	for (sz = 1; sz <= 6; sz++) for (h = 0; h < sz; h++) for (t = 0; t < sz; t++) if (ra_case(sz, h, t)) { printf("REPRODUCED %s (found next to the witness)\n", why); return 1; }
	printf("not reproduced: ring_add / ring_reset behave as specified\n");
	return 0;
}

/* ---- 3: write_stream under short writes ---- */
static int ws_case(size_t size, size_t off0, int pattern)
{
	unsigned char *base = malloc(off0 + size + 16), *src = malloc(size + 1);
	r_file_cap = off0 + size + 16; r_file = malloc(r_file_cap); memset(r_file, 0xAA, r_file_cap);
	for (size_t i = 0; i < size; i++) src[i] = (unsigned char) (i * 31 + 7);
	r_pw_calls = 0; r_pw_pattern = pattern;
	jmp_buf jb; replay_die_jmp = &jb;
	if (setjmp(jb) != 0) { replay_die_jmp = NULL; FAIL("write_stream died although no pwrite failed"); }
	write_stream(99, base, base + off0, src, size);
	replay_die_jmp = NULL;
	int bad = 0;
	for (size_t i = 0; i < r_file_cap && !bad; i++) {
		unsigned char e = (i >= off0 && i < off0 + size) ? src[i - off0] : 0xAA;
		if (r_file[i] != e) { snprintf(why, sizeof(why), "write_stream(%zu bytes at file offset %zu, short-write pattern %d): file byte %zu is 0x%02x, specified 0x%02x (%s)", size, off0, pattern, i, r_file[i], e,
			(i >= off0 && i < off0 + size) ? "byte of the source" : "outside the written range: untouched"); bad = 1; }
	}
	if (!bad && size == 0 && r_pw_calls != 0) { snprintf(why, sizeof(why), "write_stream wrote although size is 0"); bad = 1; }
	free(base); free(src); free(r_file); r_file = NULL;
	return bad;
}
static int op_write_stream(void)
{
	size_t sz = (size_t) (W_WS_SIZE); if (sz > 4096) sz = 4096;
	for (int p = 0; p <= 3; p++) if (ws_case(sz, 24, p)) { printf("REPRODUCED %s\n", why); return 1; }
	static const size_t szs[] = {0, 1, 2, 3, 4, 7, 12, 100};
	for (int i = 0; i < 8; i++) for (size_t off = 0; off <= 8; off += 8) for (int p = 0; p <= 3; p++) if (ws_case(szs[i], off, p)) { printf("REPRODUCED %s (found next to the witness)\n", why); return 1; }
	printf("not reproduced: write_stream delivers every byte at its offset under every short-write pattern tried\n");
	return 0;
}

/* ---- 4: stream_check on a real in-memory stream ---- */
static int sc_case(int nev, const uint64_t *clk, int truncated)
{
	static struct stream s; static uint8_t buf[8 + 12 * 8 + 8];
	memset(&s, 0, sizeof(s)); memset(buf, 0, sizeof(buf));
	memcpy(buf, "ovni", 4); buf[4] = 1;
	for (int i = 0; i < nev; i++) { struct ovni_ev ev; memset(&ev, 0, sizeof(ev)); ev.header.model = 'O'; ev.header.category = 'B'; ev.header.value = '0'; ev.header.clock = clk[i]; memcpy(buf + 8 + 12 * i, &ev, 12); }
	s.buf = buf; s.size = 8 + 12 * nev - (truncated ? 5 : 0); s.usize = s.size - 8; s.offset = 8; s.active = nev > 0; s.unsorted = 1;   /* ovnisort loads the streams in unsorted mode */
	strcpy(s.relpath, "replay/thread.1");
	int dec = 0; for (int i = 1; i < nev; i++) if (clk[i] < clk[i - 1]) dec = 1;
	int exp = (dec || truncated || nev == 0) ? -1 : 0;
	if (nev == 0) return 0;     /* an empty stream is inactive: stream_step refuses it; not a case of this contract */
	n_err = 0;
	int r = stream_check(&s);
	if (r != exp) FAIL("stream_check returned %d, specified %d (%s)", r, exp, dec ? "a clock decreases: the stream is NOT sorted" : truncated ? "the stream ends with an incomplete event" : "clocks never decrease: sorted");
	if ((r != 0) != (n_err != 0)) FAIL("stream_check returned %d %s a diagnostic", r, n_err ? "with" : "without");
	return 0;
}
static int op_stream_check(void)
{
	static const uint64_t pool[] = {5, 9, 8, 0x100000000ULL, 3, 9};
	for (int n = 1; n <= 4; n++) for (int x = 0; x < 1296; x++) for (int tr = 0; tr < 2; tr++) {
		uint64_t c[4]; int y = x; for (int k = 0; k < 4; k++) { c[k] = pool[y % 6]; y /= 6; }
		if (sc_case(n, c, tr)) { printf("REPRODUCED %s [clocks=%lu,%lu,%lu,%lu first %d used]\n", why, (unsigned long) c[0], (unsigned long) c[1], (unsigned long) c[2], (unsigned long) c[3], n); return 1; }
	}
	printf("not reproduced: stream_check reports exactly the streams whose clocks decrease (or that cannot be read)\n");
	return 0;
}

/* ---- 5: region markers ---- */
static int op_markers(void)
{
	static const char ms[] = {'O', 'V', '6', 'K', 0}, cs[] = {'U', 'u', 'H', 0}, vs[] = {'[', ']', 'x', 0};
	for (int i = 0; i < 5; i++) for (int j = 0; j < 4; j++) for (int k = 0; k < 4; k++) {
		struct ovni_ev ev; memset(&ev, 0, sizeof(ev)); ev.header.model = (uint8_t) ms[i]; ev.header.category = (uint8_t) cs[j]; ev.header.value = (uint8_t) vs[k];
		int s = starts_unsorted_region(&ev) != 0, e = ends_unsorted_region(&ev) != 0;
		int es = ms[i] == 'O' && cs[j] == 'U' && vs[k] == '[', ee = ms[i] == 'O' && cs[j] == 'U' && vs[k] == ']';
		if (s != es || e != ee) { printf("REPRODUCED event %c%c%c: starts_unsorted_region=%d ends_unsorted_region=%d, specified %d %d (only OU[ / OU] delimit an unsorted region)\n", ms[i] ? ms[i] : '0', cs[j] ? cs[j] : '0', vs[k] ? vs[k] : '0', s, e, es, ee); return 1; }
	}
	printf("not reproduced: only OU[ and OU] are region markers\n");
	return 0;
}

int main(void)
{
	setvbuf(stdout, NULL, _IONBF, 0);
	switch (REPLAY_OP) {
	case 0: return op_cmp_ev();
	case 1: return op_find_destination();
	case 2: return op_ring_add();
	case 3: return op_write_stream();
	case 4: return op_stream_check();
	default: return op_markers();
	}
}
