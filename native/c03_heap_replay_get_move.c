#define REPLAY_OP 3
#include "c03_heap_replay.h"
