#define REPLAY_OP 2
#include "c13_prv_replay.h"
