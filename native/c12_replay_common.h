/* Shared prologue of the C12 native replay drivers: libc headers the real emulator files expect,
 * and the diagnostics of common.c rebound so that a legitimate die() is not a reproduction
 * (HOWTO "Native replay drivers").  n_err counts err() diagnostics.  The drivers are linked with
 * -Wl,--unresolved-symbols=ignore-all (plan "libs"): functions of other modules that the replayed
 * path must not reach stay unresolved. */
#ifndef C12_REPLAY_COMMON_H
#define C12_REPLAY_COMMON_H
#include <unistd.h>
#include <stdio.h>
#include <stdlib.h>
#include <string.h>
#include <stdint.h>
#include <stdarg.h>
#include <time.h>
#include <fcntl.h>
#include <dirent.h>
#include <sys/stat.h>
#include <sys/mman.h>
#include <errno.h>
#include <ctype.h>
#include <limits.h>
#include <inttypes.h>
#include <math.h>
int is_debug_enabled;
static int n_err;
void verr(const char *p, const char *f, const char *e, ...) { (void) f; (void) e; if (p && strcmp(p, "ERROR") == 0) n_err++; }
#include <setjmp.h>
static jmp_buf *replay_die_jmp;   /* drivers that try several inputs arm this: die() ends the current input only */
void vdie(const char *p, const char *f, const char *e, ...)
{
	(void) p; (void) f;
	if (replay_die_jmp) longjmp(*replay_die_jmp, 1);
	printf("not reproduced: the code died (%s): a legitimate refusal\n", e); exit(0);
}
#endif
