#define REPLAY_OP 0
#include "c07_body_replay.h"
