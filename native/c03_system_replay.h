/* C03 native replay of the clock-offset obligations on the REAL src/emu/system.c (parse_clkoff_entry,
 * init_offsets) with the REAL clkoff.c accessors and the REAL stream_clkoff_set (stream.c).
 * REPLAY_OP: 0 parse_clkoff_entry, 1 init_offsets.  Linked with -Wl,--unresolved-symbols=ignore-all
 * (plan "libs"): the rest of the emulator is not reached.
 * Witnesses: parse_clkoff_entry  W_PC_NL, W_PC_H<i><j> (byte j of the host name of loom i), W_PC_E0/E1
 *   (host name of the table line), W_PC_OLD<i> (old offsets), W_PC_WANT (offset of the line);
 * init_offsets  W_IO_NL, W_IO_H0/H1 (host byte of the looms), W_IO_N (streams), W_IO_LPT<i> (is a thread
 *   stream), W_IO_LO<i> (its loom), W_IO_CON (table lines), W_IO_E0/E1 (host byte of line), W_IO_M0/M1 (median).
 * Specification (property statement): the offset of a host reaches EVERY loom of that host and every
 * stream of those looms; a line naming no loom, or a loom that already has an offset, is refused.
 * exit 0: as specified; exit 1: REPRODUCED. */
#include "c12_replay_common.h"
#include "stream.c"
#include "clkoff.c"
#include "system.c"

#ifndef W_PC_NL
#define W_PC_NL 3
#endif
#ifndef W_PC_H00
#define W_PC_H00 'a'
#endif
#ifndef W_PC_H01
#define W_PC_H01 0
#endif
#ifndef W_PC_H10
#define W_PC_H10 'b'
#endif
#ifndef W_PC_H11
#define W_PC_H11 0
#endif
#ifndef W_PC_H20
#define W_PC_H20 'a'
#endif
#ifndef W_PC_H21
#define W_PC_H21 0
#endif
#ifndef W_PC_E0
#define W_PC_E0 'a'
#endif
#ifndef W_PC_E1
#define W_PC_E1 0
#endif
#ifndef W_PC_OLD0
#define W_PC_OLD0 0
#endif
#ifndef W_PC_OLD1
#define W_PC_OLD1 0
#endif
#ifndef W_PC_OLD2
#define W_PC_OLD2 0
#endif
#ifndef W_PC_WANT
#define W_PC_WANT 1234
#endif
#ifndef W_IO_NL
#define W_IO_NL 2
#endif
#ifndef W_IO_H0
#define W_IO_H0 'a'
#endif
#ifndef W_IO_H1
#define W_IO_H1 'b'
#endif
#ifndef W_IO_N
#define W_IO_N 3
#endif
#ifndef W_IO_LPT0
#define W_IO_LPT0 1
#endif
#ifndef W_IO_LPT1
#define W_IO_LPT1 1
#endif
#ifndef W_IO_LPT2
#define W_IO_LPT2 1
#endif
#ifndef W_IO_LO0
#define W_IO_LO0 0
#endif
#ifndef W_IO_LO1
#define W_IO_LO1 1
#endif
#ifndef W_IO_LO2
#define W_IO_LO2 0
#endif
#ifndef W_IO_CON
#define W_IO_CON 2
#endif
#ifndef W_IO_E0
#define W_IO_E0 'a'
#endif
#ifndef W_IO_E1
#define W_IO_E1 'b'
#endif
#ifndef W_IO_M0
#define W_IO_M0 100
#endif
#ifndef W_IO_M1
#define W_IO_M1 -200
#endif

static char why[400];
#define FAIL(...) do { snprintf(why, sizeof(why), __VA_ARGS__); return 1; } while (0)
static char idbuf[3][8] = {"loom.0", "loom.1", "loom.2"};

/* ---------------- parse_clkoff_entry ---------------- */
struct pc_in { int nl; char h[3][3]; char e[3]; long old[3]; long want; };
static int pc_case(const struct pc_in *w)
{
	static struct loom L[3]; static struct clkoff_entry e;
	memset(L, 0, sizeof(L)); memset(&e, 0, sizeof(e));
	struct loom *head = NULL;
	int match[3], nmatch = 0, taken = 0;
	for (int i = 0; i < 3; i++) {
		memcpy(L[i].hostname, w->h[i], 3); L[i].hostname[2] = 0; L[i].id = idbuf[i]; L[i].clock_offset = w->old[i];
		if (i < w->nl) DL_APPEND(head, &L[i]);
	}
	memcpy(e.name, w->e, 3); e.name[2] = 0; e.median = (double) w->want; e.mean = 7777.0;
	long want = (long) e.median;
	for (int i = 0; i < 3; i++) {
		match[i] = i < w->nl && strcmp(L[i].hostname, e.name) == 0;
		if (match[i]) { nmatch++; if (w->old[i] != 0) taken = 1; }
	}
	n_err = 0;
	int r = parse_clkoff_entry(head, &e);
	int legal = nmatch > 0 && !taken;
	if ((r == 0) != legal) FAIL("parse_clkoff_entry returned %d but the line is %s (%d looms on host '%s', already offset: %d)", r, legal ? "applicable" : "not applicable", nmatch, e.name, taken);
	if (r != 0 && n_err == 0) FAIL("parse_clkoff_entry refused without a diagnostic");
	if (r == 0)
		for (int i = 0; i < w->nl; i++) {
			if (match[i] && L[i].clock_offset != want) FAIL("loom %d is on host '%s' but its clock offset is %ld, not the host's offset %ld (EVERY loom of the host gets it)", i, e.name, (long) L[i].clock_offset, want);
			if (!match[i] && L[i].clock_offset != w->old[i]) FAIL("loom %d of another host had its offset changed", i);
		}
	return 0;
}
static void pc_show(const struct pc_in *w)
{
	printf(" [looms=%d hosts='%s','%s','%s' line host='%s' old offsets=%ld,%ld,%ld offset=%ld]\n", w->nl, w->h[0], w->h[1], w->h[2], w->e, w->old[0], w->old[1], w->old[2], w->want);
}
static int op_parse_clkoff_entry(void)
{
	struct pc_in w = {(W_PC_NL), {{(char) (W_PC_H00), (char) (W_PC_H01), 0}, {(char) (W_PC_H10), (char) (W_PC_H11), 0}, {(char) (W_PC_H20), (char) (W_PC_H21), 0}},
		{(char) (W_PC_E0), (char) (W_PC_E1), 0}, {(W_PC_OLD0), (W_PC_OLD1), (W_PC_OLD2)}, (W_PC_WANT)};
	if (w.nl < 1) w.nl = 1; if (w.nl > 3) w.nl = 3;
	if (pc_case(&w)) { printf("REPRODUCED %s", why); pc_show(&w); return 1; }
	static const char *names[] = {"a", "b", "ab"};
	for (int nl = 1; nl <= 3; nl++) for (int c = 0; c < 81; c++) for (int o = 0; o < 8; o++) {
		struct pc_in v; memset(&v, 0, sizeof(v)); v.nl = nl; v.want = 1234;
		strcpy(v.h[0], names[c % 3]); strcpy(v.h[1], names[(c / 3) % 3]); strcpy(v.h[2], names[(c / 9) % 3]); strcpy(v.e, names[(c / 27) % 3]);
		v.old[0] = (o & 1) ? 5 : 0; v.old[1] = (o & 2) ? 5 : 0; v.old[2] = (o & 4) ? 5 : 0;
		if (pc_case(&v)) { printf("REPRODUCED %s (found next to the witness)", why); pc_show(&v); return 1; }
	}
	printf("not reproduced: parse_clkoff_entry behaves as specified on the witness and its neighbourhood;"); pc_show(&w);
	return 0;
}

/* ---------------- init_offsets ---------------- */
struct io_in { int nl; char h[2]; int n; int lpt[3]; int lo[3]; int con; char e[2]; long m[2]; int busy; };
static int io_case(const struct io_in *w)
{
	static struct system sys; static struct trace trace; static struct loom L[2]; static struct stream S[3]; static struct lpt P[3];
	static struct clkoff_entry E[2]; static struct clkoff_entry *idx[2]; static struct ovni_ev someev;
	memset(&sys, 0, sizeof(sys)); memset(&trace, 0, sizeof(trace)); memset(L, 0, sizeof(L)); memset(S, 0, sizeof(S)); memset(P, 0, sizeof(P)); memset(E, 0, sizeof(E));
	for (int k = 0; k < 2; k++) { L[k].hostname[0] = w->h[k]; L[k].id = idbuf[k]; if (k < w->nl) DL_APPEND(sys.looms, &L[k]); }
	sys.nlooms = (size_t) w->nl;
	for (int i = 0; i < w->n; i++) {
		DL_APPEND(trace.streams, &S[i]);
		P[i].stream = &S[i]; P[i].loom = &L[w->lo[i]];
		S[i].data = w->lpt[i] ? &P[i] : NULL;
		snprintf(S[i].relpath, sizeof(S[i].relpath), "replay/thread.%d", i);
	}
	if (w->busy >= 0 && w->busy < w->n) S[w->busy].cur_ev = &someev;       /* this stream refuses an offset */
	trace.nstreams = w->n;
	for (int e = 0; e < 2; e++) { E[e].name[0] = w->e[e]; E[e].median = (double) w->m[e]; E[e].mean = 31337.0; idx[e] = &E[e]; }
	sys.clkoff.nentries = w->con; sys.clkoff.index = idx;
	long want[2] = {0, 0}; int table_ok = 1;
	for (int k = 0; k < w->nl; k++)
		for (int e = 0; e < w->con; e++) if (w->h[k] == w->e[e]) want[k] = (long) E[e].median;
	for (int e = 0; e < w->con; e++) {
		int found = 0;
		for (int k = 0; k < w->nl; k++) if (w->h[k] == w->e[e]) found = 1;
		if (!found) table_ok = 0;
	}
	int refuse = 0;
	for (int i = 0; i < w->n; i++) if (w->lpt[i] && i == w->busy) refuse = 1;
	n_err = 0;
	int r = init_offsets(&sys, &trace);
	if ((r == 0) != (table_ok && !refuse)) FAIL("init_offsets returned %d but the table is %s", r, table_ok ? (refuse ? "fine and a started stream must refuse its offset" : "fine") : "naming an unknown host");
	if (r != 0 && n_err == 0) FAIL("init_offsets refused without a diagnostic");
	if (r == 0) {
		for (int k = 0; k < w->nl; k++)
			if (L[k].clock_offset != want[k]) FAIL("loom %d (host '%c') has clock offset %ld, specified %ld (median of the table line of its host, 0 without a line)", k, w->h[k], (long) L[k].clock_offset, want[k]);
		for (int i = 0; i < w->n; i++) {
			long exp = w->lpt[i] ? want[w->lo[i]] : 0;
			if (S[i].clock_offset != exp) FAIL("stream %d (loom %d) has clock offset %ld, specified %ld (the offset of ITS loom)", i, w->lo[i], (long) S[i].clock_offset, exp);
		}
	}
	return 0;
}
static void io_show(const struct io_in *w)
{
	printf(" [looms=%d hosts=%d,%d streams=%d thread-stream=%d%d%d loom-of-stream=%d%d%d table lines=%d hosts=%d,%d medians=%ld,%ld started-stream=%d]\n", w->nl, w->h[0], w->h[1], w->n,
		w->lpt[0], w->lpt[1], w->lpt[2], w->lo[0], w->lo[1], w->lo[2], w->con, w->e[0], w->e[1], w->m[0], w->m[1], w->busy);
}
static int op_init_offsets(void)
{
	struct io_in w = {(W_IO_NL), {(char) (W_IO_H0), (char) (W_IO_H1)}, (W_IO_N), {(W_IO_LPT0) != 0, (W_IO_LPT1) != 0, (W_IO_LPT2) != 0}, {(W_IO_LO0) != 0, (W_IO_LO1) != 0, (W_IO_LO2) != 0},
		(W_IO_CON), {(char) (W_IO_E0), (char) (W_IO_E1)}, {(W_IO_M0), (W_IO_M1)}, -1};
	if (w.nl < 1) w.nl = 1; if (w.nl > 2) w.nl = 2; if (w.n < 0) w.n = 0; if (w.n > 3) w.n = 3; if (w.con < 0) w.con = 0; if (w.con > 2) w.con = 2;
	if (w.nl < 2) w.lo[0] = w.lo[1] = w.lo[2] = 0;
	for (int busy = -1; busy < w.n; busy++) { w.busy = busy; if (io_case(&w)) { printf("REPRODUCED %s", why); io_show(&w); return 1; } }
	for (int nl = 1; nl <= 2; nl++) for (int con = 0; con <= 2; con++) for (int hh = 0; hh < 9; hh++) for (int n = 0; n <= 3; n++) for (int sh = 0; sh < 64; sh++) for (int busy = -1; busy < n; busy++) {
		struct io_in v = {nl, {(char) ('a' + hh % 3), (char) ('a' + hh / 3)}, n, {sh & 1, (sh >> 1) & 1, (sh >> 2) & 1}, {(sh >> 3) & 1, (sh >> 4) & 1, (sh >> 5) & 1}, con, {'a', 'b'}, {100, -200}, busy};
		if (nl < 2 && (sh >> 3)) continue;
		if (io_case(&v)) { printf("REPRODUCED %s (found next to the witness)", why); io_show(&v); return 1; }
	}
	w.busy = -1;
	printf("not reproduced: init_offsets behaves as specified on the witness and its neighbourhood;"); io_show(&w);
	return 0;
}

int main(void)
{
	setvbuf(stdout, NULL, _IONBF, 0);
	return REPLAY_OP == 0 ? op_parse_clkoff_entry() : op_init_offsets();
}
