/* C14 native replay of version_is_compatible on the REAL src/include/version.h.
 * Witnesses (harness/c14_vcontract.c): W_WANT0..2, W_HAVE0..2 (the two triples), W_ALIAS (want and
 * have are the same array).  Specification (statement): "a requested version is accepted exactly when
 * its major number equals the provider's and its minor number is not greater (patch ignored)";
 * the function only reads its arguments.  After the witness a grid of triples around it is tried. */
#include "c14_replay_common.h"
#include "version.h"
#ifndef W_WANT0
#define W_WANT0 1
#endif
#ifndef W_WANT1
#define W_WANT1 2
#endif
#ifndef W_WANT2
#define W_WANT2 3
#endif
#ifndef W_HAVE0
#define W_HAVE0 1
#endif
#ifndef W_HAVE1
#define W_HAVE1 2
#endif
#ifndef W_HAVE2
#define W_HAVE2 0
#endif
#ifndef W_ALIAS
#define W_ALIAS 0
#endif
static int ci(long v) { return v > INT_MAX ? INT_MAX : v < INT_MIN ? INT_MIN : (int) v; }
static int one(const int w[3], const int h[3], int alias, const char *origin)
{
	int want[3] = { w[0], w[1], w[2] }, have[3] = { h[0], h[1], h[2] };
	int *hp = alias ? want : have;
	int expect = want[0] == hp[0] && want[1] <= hp[1];
	int r = version_is_compatible(want, hp);
	int touched = want[0] != w[0] || want[1] != w[1] || want[2] != w[2] || (!alias && (have[0] != h[0] || have[1] != h[1] || have[2] != h[2]));
	if (r != expect || touched) {
		printf("REPRODUCED version_is_compatible(want %d.%d.%d, have %d.%d.%d) returned %d, specified %d "
			"(same major and minor not greater, patch ignored)%s [%s]\n", w[0], w[1], w[2], hp[0], hp[1], hp[2], r, expect,
			touched ? "; an argument array was modified" : "", origin);
		return 1;
	}
	return 0;
}
int main(void)
{
	const int w[3] = { (int) (W_WANT0), (int) (W_WANT1), (int) (W_WANT2) }, h[3] = { (int) (W_HAVE0), (int) (W_HAVE1), (int) (W_HAVE2) };
	if (one(w, (W_ALIAS) ? w : h, (W_ALIAS) != 0, "witness")) return 1;
	/* neighbourhood: every combination of {witness value, -1, +1, extremes} per relevant component */
	const int d[] = { 0, -1, 1 };
	long n = 0;
	for (int a = 0; a < 3; a++) for (int b = 0; b < 3; b++) for (int c = 0; c < 3; c++) for (int e = 0; e < 3; e++) for (int f = 0; f < 3; f++) {
		int base[] = { w[0], w[1], w[2], h[0], h[1], h[2], 0, 1, INT_MAX - 1, INT_MIN + 1 };
		for (unsigned m = 0; m < sizeof(base) / sizeof(base[0]); m++) {
			/* have.major = want.major + d[a] (or the witness's), minors/patches around base[m] */
			int ww[3] = { w[0], ci((long) base[m] + d[b]), ci((long) base[m] + d[c]) };
			int hh[3] = { ci((long) w[0] + d[a]), ci((long) base[m] + d[e]), ci((long) base[m] + d[f]) };
			n++;
			if (one(ww, hh, 0, "neighbour of the witness")) return 1;
		}
	}
	printf("not reproduced: version_is_compatible behaves as specified on the witness (want %d.%d.%d, have %d.%d.%d) and on %ld triples around it\n",
		w[0], w[1], w[2], h[0], h[1], h[2], n);
	return 0;
}
