#define THREAD_MODE 1
#include "c06_cb_select_replay.h"
