/* rt_common.h -- shared ghost model for the runtime (src/rt/ovni.c) units.
 * Included BEFORE the real ovni.c.  What it changes in the verified text:
 *   OVNI_MAX_EV_BUF  -> symbolic capacity g_cap in [64, 2 MiB]  (generalisation)
 *   write(2), clock_gettime(2): most general models over ghost state (trusted) */
#ifndef VERIF_RT_COMMON_H
#define VERIF_RT_COMMON_H
#include "prelude.h"
#include <unistd.h>
#include <time.h>
#include "ovni.h"

/* ---- symbolic buffer capacity ---- */
unsigned long g_cap;
#define REAL_MAX_EV_BUF (2 * 1024LL * 1024LL)
_Static_assert(OVNI_MAX_EV_BUF == REAL_MAX_EV_BUF, "capacity changed: update REAL_MAX_EV_BUF");
#undef OVNI_MAX_EV_BUF
#define OVNI_MAX_EV_BUF ((long long) g_cap)
#define CAP_OK (g_cap >= 64 && g_cap <= (unsigned long) REAL_MAX_EV_BUF)

/* ---- ghost stream file: bytes handed to the kernel, observed at ONE arbitrary
 * fixed position g_pos (any claim about (g_pos,g_byte) holds for every position) */
unsigned long g_file_len;   /* bytes written to the stream fd so far */
unsigned long g_pos;        /* arbitrary observer position */
unsigned char g_byte;       /* file[g_pos], meaningful iff g_pos < g_file_len */
int g_write_fail_allowed = 1;
long nondet_ssize(void);
#ifdef VERIF_TRACK_WFAIL
int g_wfail;                /* some write(2) returned -1 (only tracked in the group that proves write_evbuf itself) */
#endif

ssize_t write(int fd, const void *buf, size_t n)
{
	(void) fd;
	long r = nondet_ssize();
	/* POSIX: -1 on error; otherwise between 1 and n bytes (0 iff n == 0) */
	__CPROVER_assume(r == -1 || (n == 0 ? r == 0 : (r >= 1 && (unsigned long) r <= n)));
#ifdef VERIF_TRACK_WFAIL
	if (r == -1) g_wfail = 1;
#endif
	if (r > 0) {
		if (g_pos >= g_file_len && g_pos - g_file_len < (unsigned long) r)
			g_byte = ((const unsigned char *) buf)[g_pos - g_file_len];
		g_file_len += (unsigned long) r;
	}
	return r;
}

/* ---- ghost clock: CLOCK_MONOTONIC never goes backwards ---- */
unsigned long g_now;        /* last value returned by the clock, in ns */
int clock_gettime(clockid_t id, struct timespec *tp)
{
	(void) id;
	int fail = nondet_int();
	if (fail)
		return -1;
	unsigned long t = nondet_size_t();
	__CPROVER_assume(t >= g_now && t < (1UL << 62));
	g_now = t;
	tp->tv_sec = (time_t) (t / 1000000000UL);
	tp->tv_nsec = (long) (t % 1000000000UL);
	return 0;
}

/* no wrap-around of the ghost stream length: a tiered bound so that a caller's
 * bound implies its callees' after at most one flush of <= 2 MiB in between */
#define FILE_PRE_N(n) (g_file_len < (1UL << (n)) && g_pos < (1UL << 62))
#define FILE_PRE FILE_PRE_N(62)
#endif
