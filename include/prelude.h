/* prelude.h -- the ONLY textual deviations between the code CBMC verifies and
 * the code that runs.  Included first by every harness TU; the real .c file of
 * /repo is #included after it, unchanged, from the current working tree.
 *
 * DFCC (goto-instrument 6.11) cannot instrument variadic calls, so the
 * diagnostic macros of common.h and the printf family are rebound BY MACRO,
 * in the harness TU only, to fixed-arity ghost stubs.  Everything dropped is
 * listed in DESIGN.md 2.2 and copied into each evidence file. */
#ifndef VERIF_PRELUDE_H
#define VERIF_PRELUDE_H

#include <stdio.h>
#include <stdlib.h>
#include <string.h>
#include <stdint.h>
#include <stddef.h>
#include <sys/types.h>
#include <inttypes.h>
#include <unistd.h>   /* before common.h: it poisons usleep and assert */
#include <time.h>
#include <limits.h>
#include <errno.h>
#include <ctype.h>
#include <fcntl.h>
#include <dirent.h>
#include <sys/stat.h>
#include <sys/mman.h>
#include "common.h"

/* ---- ghost diagnostics ---- */
/* DFCC havocs statics before the function under proof runs, so contracts that
 * speak about "a diagnostic was issued" add DIAG_PRE to their requires. */
unsigned g_diag;    /* number of err/warn/info diagnostics issued */
unsigned g_err;     /* number of err() diagnostics issued */
unsigned g_warn;    /* number of warn() diagnostics issued */
int g_died;         /* die() reached (path then ends) */
#define DIAG_PRE (g_diag < 1000000u && g_err < 1000000u && g_warn < 1000000u)
#define DIAG_FRAME g_diag, g_err, g_warn

static inline void verif_err(void)  { g_diag++; g_err++; }
static inline void verif_warn(void) { g_diag++; g_warn++; }
static inline void verif_info(void) { g_diag++; }
static inline void verif_die(void)
{
#ifdef VERIF_DIE_HOOK
	VERIF_DIE_HOOK;
#endif
	g_died = 1;
	__CPROVER_assume(0);
}

#undef err
#undef die
#undef info
#undef warn
#undef dbg
#undef rerr
#ifndef VERIF_EVAL_DIAG_ARGS
#define err(...)  verif_err()
#define warn(...) verif_warn()
#define info(...) verif_info()
#define rerr(...) verif_info()
#define die(...)  verif_die()
#else
/* opt-in (-DVERIF_EVAL_DIAG_ARGS): the ARGUMENTS of a diagnostic are still evaluated (each into a
 * local of its own type), so a NULL / dangling dereference inside an error message -- err("... %s",
 * spec->name) with spec == NULL -- is a failed pointer obligation; only the formatting is dropped.
 * Up to 10 arguments after the format.  A GNU statement expression (a do-while(0) would count as a loop). */
#define VE_ARG(a) { __typeof__((a) + 0) verif_diag_arg = (a); (void) verif_diag_arg; }
#define VE_0(...)
#define VE_1(a, ...) VE_ARG(a)
#define VE_2(a, ...) VE_ARG(a) VE_1(__VA_ARGS__)
#define VE_3(a, ...) VE_ARG(a) VE_2(__VA_ARGS__)
#define VE_4(a, ...) VE_ARG(a) VE_3(__VA_ARGS__)
#define VE_5(a, ...) VE_ARG(a) VE_4(__VA_ARGS__)
#define VE_6(a, ...) VE_ARG(a) VE_5(__VA_ARGS__)
#define VE_7(a, ...) VE_ARG(a) VE_6(__VA_ARGS__)
#define VE_8(a, ...) VE_ARG(a) VE_7(__VA_ARGS__)
#define VE_9(a, ...) VE_ARG(a) VE_8(__VA_ARGS__)
#define VE_10(a, ...) VE_ARG(a) VE_9(__VA_ARGS__)
#define VE_PICK(_f, _1, _2, _3, _4, _5, _6, _7, _8, _9, _10, N, ...) N
#define VE_ALL(fmt, ...) VE_PICK(fmt, ##__VA_ARGS__, VE_10, VE_9, VE_8, VE_7, VE_6, VE_5, VE_4, VE_3, VE_2, VE_1, VE_0)(__VA_ARGS__)
#define err(...)  ({ VE_ALL(__VA_ARGS__) verif_err(); })
#define warn(...) ({ VE_ALL(__VA_ARGS__) verif_warn(); })
#define info(...) ({ VE_ALL(__VA_ARGS__) verif_info(); })
#define rerr(...) ({ VE_ALL(__VA_ARGS__) verif_info(); })
#define die(...)  ({ VE_ALL(__VA_ARGS__) verif_die(); })
#endif
#define dbg(...)  ((void)0)

/* ---- printf family: formatting is dropped, truncation checks stay live ---- */
int nondet_int(void);
char nondet_char(void);
unsigned char nondet_uchar(void);
size_t nondet_size_t(void);
long nondet_long(void);
_Bool nondet_bool(void);

#ifndef VERIF_SNPRINTF_MAXWRITE
#define VERIF_SNPRINTF_MAXWRITE 0
#endif
/* Returns any non-negative length; writes a NUL at s[0] (contents otherwise
 * unconstrained is modelled by leaving them as they are: no verified clause
 * depends on formatted text, see DESIGN 2.2). */
static inline int verif_snprintf(char *s, size_t n)
{
	int r = nondet_int();
	__CPROVER_assume(r >= 0);
	if (n > 0 && s != NULL) {
		size_t k = nondet_size_t();
		__CPROVER_assume(k < n);
		s[k] = '\0';
	}
	return r;
}
#undef snprintf
#define snprintf(s, n, ...) verif_snprintf((s), (n))

unsigned g_fprintf_calls;
static inline int verif_fprintf(FILE *f)
{
	(void) f;
	g_fprintf_calls++;
	int r = nondet_int();
	return r;
}
#undef fprintf
#define fprintf(f, ...) verif_fprintf(f)
#undef printf
#define printf(...) verif_fprintf(NULL)

/* Witness / pre-state ghost bindings.  A binding such as `w_size == size` in a
 * requires clause is an ASSUMPTION when the contract is enforced (it names the
 * input for replay) but would be an ASSERTION where the same contract replaces a
 * call.  So bindings are written WBIND(fn, w_size == size) after a WITNESS(fn)
 * declaration, and only the harness of the group that ENFORCES fn's contract
 * starts with WITNESS_ON(fn); everywhere else the flag is forced to 0 by
 * WITNESS_OFF(fn) (or left arbitrary: a clause under WBIND may then be asserted
 * at a call site, so harnesses that REPLACE fn must call WITNESS_OFF(fn)).
 * Harness assignments run after DFCC's havoc of statics; the flags are in no
 * assigns clause.  Postconditions must NOT depend on WBIND-bound ghosts unless
 * the contract is never used for replacement. */
#define WITNESS(fn) int g_w_##fn
#define WBIND(fn, e) (!g_w_##fn || (e))
#define WITNESS_ON(fn) do { g_w_##fn = 1; } while (0)
#define WITNESS_OFF(fn) do { g_w_##fn = 0; } while (0)

/* harness helpers: common.h poisons assert */
#define VASSERT(c, msg) __CPROVER_assert((c), msg)
#define REACH(msg)      __CPROVER_assert(0, "REACH: " msg)
#define CANARY(msg)     __CPROVER_assert(0, "CANARY: " msg)

#endif
