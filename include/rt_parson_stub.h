/* rt_parson_stub.h -- trusted ghost model of parson (src/parson.c, 2.5 kLoC, not
 * verified) for the runtime units.  Include after rt_common.h and BEFORE ovni.c.
 * The thread metadata object is abstracted to the SET of mandatory keys it holds
 * plus the values the emulator later checks.  Every setter may fail (returns
 * JSONFailure, changes nothing), every constructor may return NULL. */
#ifndef VERIF_RT_PARSON_STUB_H
#define VERIF_RT_PARSON_STUB_H
#include "parson.h"

enum {
	K_VERSION = 1, K_LIBVER = 2, K_LIBCOMMIT = 4, K_PART = 8, K_TID = 16, K_PID = 32,
	K_LOOM = 64, K_APPID = 128, K_FINISHED = 256, K_RANK = 512, K_NRANKS = 1024, K_CPUS = 2048,
	K_OTHER = 4096
};
#define K_MANDATORY (K_VERSION | K_LIBVER | K_LIBCOMMIT | K_PART | K_TID | K_PID | K_LOOM | K_APPID)

unsigned g_keys;            /* keys present in the thread metadata object */
double g_v_version, g_v_tid, g_v_pid, g_v_appid, g_v_finished, g_v_rank, g_v_nranks;
int g_part_is_thread;       /* "ovni.part" holds the string "thread" */
const char *g_v_loom;       /* pointer passed for "ovni.loom" */
unsigned g_store_calls;     /* json_serialize_to_file_pretty calls */
unsigned g_keys_at_store;   /* snapshot of g_keys at the last store */
double g_finished_at_store;
int g_store_failed;
int g_parson_failed;        /* some stubbed parson call reported failure */

static unsigned verif_key_bit(const char *name)
{
	if (strcmp(name, "version") == 0) return K_VERSION;
	if (strcmp(name, "ovni.lib.version") == 0) return K_LIBVER;
	if (strcmp(name, "ovni.lib.commit") == 0) return K_LIBCOMMIT;
	if (strcmp(name, "ovni.part") == 0) return K_PART;
	if (strcmp(name, "ovni.tid") == 0) return K_TID;
	if (strcmp(name, "ovni.pid") == 0) return K_PID;
	if (strcmp(name, "ovni.loom") == 0) return K_LOOM;
	if (strcmp(name, "ovni.app_id") == 0) return K_APPID;
	if (strcmp(name, "ovni.finished") == 0) return K_FINISHED;
	if (strcmp(name, "ovni.rank") == 0) return K_RANK;
	if (strcmp(name, "ovni.nranks") == 0) return K_NRANKS;
	if (strcmp(name, "ovni.loom_cpus") == 0) return K_CPUS;
	return K_OTHER;
}

static char verif_json_heap[64];
static void *verif_json_ptr(void)
{
	if (nondet_bool()) { g_parson_failed = 1; return NULL; }
	unsigned k = nondet_uchar() & 63;
	return &verif_json_heap[k];
}

JSON_Value *json_value_init_object(void) { return (JSON_Value *) verif_json_ptr(); }
JSON_Value *json_value_init_array(void) { return (JSON_Value *) verif_json_ptr(); }
JSON_Object *json_value_get_object(const JSON_Value *v) { (void) v; return (JSON_Object *) verif_json_ptr(); }
JSON_Object *json_object(const JSON_Value *v) { (void) v; return (JSON_Object *) verif_json_ptr(); }
JSON_Array *json_array(const JSON_Value *v) { (void) v; return (JSON_Array *) verif_json_ptr(); }

JSON_Status json_object_dotset_number(JSON_Object *o, const char *name, double num)
{
	(void) o;
	if (nondet_bool()) { g_parson_failed = 1; return JSONFailure; }
	unsigned b = verif_key_bit(name);
	g_keys |= b;
	if (b == K_VERSION) g_v_version = num;
	if (b == K_TID) g_v_tid = num;
	if (b == K_PID) g_v_pid = num;
	if (b == K_APPID) g_v_appid = num;
	if (b == K_FINISHED) g_v_finished = num;
	if (b == K_RANK) g_v_rank = num;
	if (b == K_NRANKS) g_v_nranks = num;
	return JSONSuccess;
}
JSON_Status json_object_dotset_string(JSON_Object *o, const char *name, const char *str)
{
	(void) o;
	if (nondet_bool()) { g_parson_failed = 1; return JSONFailure; }
	unsigned b = verif_key_bit(name);
	g_keys |= b;
	if (b == K_PART) g_part_is_thread = (strcmp(str, "thread") == 0);
	if (b == K_LOOM) g_v_loom = str;
	return JSONSuccess;
}
JSON_Status json_object_dotset_boolean(JSON_Object *o, const char *name, int v)
{
	(void) o; (void) v;
	if (nondet_bool()) { g_parson_failed = 1; return JSONFailure; }
	g_keys |= verif_key_bit(name);
	return JSONSuccess;
}
JSON_Status json_object_dotset_value(JSON_Object *o, const char *name, JSON_Value *v)
{
	(void) o; (void) v;
	if (nondet_bool()) { g_parson_failed = 1; return JSONFailure; }
	g_keys |= verif_key_bit(name);
	return JSONSuccess;
}
JSON_Status json_object_set_number(JSON_Object *o, const char *name, double num)
{
	(void) o; (void) name; (void) num;
	if (nondet_bool()) { g_parson_failed = 1; return JSONFailure; }
	return JSONSuccess;
}
JSON_Status json_array_append_value(JSON_Array *a, JSON_Value *v)
{
	(void) a; (void) v;
	if (nondet_bool()) { g_parson_failed = 1; return JSONFailure; }
	return JSONSuccess;
}
#ifndef VERIF_OWN_JSON_STORE
JSON_Status json_serialize_to_file_pretty(const JSON_Value *v, const char *path)
{
	(void) v; (void) path;
	g_store_calls++;
	if (nondet_bool()) { g_store_failed = 1; return JSONFailure; }
	g_keys_at_store = g_keys;
	g_finished_at_store = g_v_finished;
	return JSONSuccess;
}
#endif
JSON_Value *json_object_dotget_value(const JSON_Object *o, const char *name) { (void) o; (void) name; return (JSON_Value *) verif_json_ptr(); }
#ifdef VERIF_TRACK_JSON_TYPE
int g_json_type;             /* what the last json_value_get_type answered (tracked only in the typed-getter groups) */
JSON_Value_Type json_value_get_type(const JSON_Value *v) { (void) v; return g_json_type = nondet_int(); }
#else
JSON_Value_Type json_value_get_type(const JSON_Value *v) { (void) v; return nondet_int(); }
#endif
double json_value_get_number(const JSON_Value *v) { (void) v; double d; return d; }
int json_value_get_boolean(const JSON_Value *v) { (void) v; return nondet_int(); }
const char *json_value_get_string(const JSON_Value *v) { (void) v; return (const char *) verif_json_ptr(); }
JSON_Value *json_parse_string(const char *s) { (void) s; return (JSON_Value *) verif_json_ptr(); }
char *json_serialize_to_string(const JSON_Value *v) { (void) v; return (char *) verif_json_ptr(); }
#endif
