/* C02 -- "legal calls never abort": a program that follows the documented protocol must not be killed by
 * the library.  Plain CBMC lemmas (no contracts) over the real src/rt/ovni.c: the precondition of a LEGAL
 * call is assumed, every die() is an error (VERIF_DIE_HOOK asserts false), allocation never fails (the only
 * remaining legitimate reason to give up), and the effect is asserted afterwards.
 *   ovni_add_cpu(index >= 0, phyid >= 0) on a ready thread of a READY process: returns, the CPU is the new
 *     LAST entry of the thread's list (index 0 and physical id 0 included: the first CPU of every machine)
 *   ovni_proc_set_rank(rank, nranks) on a ready thread of a READY process: returns, the three fields are set */
#define VERIF_DIE_HOOK __CPROVER_assert(0, "die() reached on a legal call")
#include "rt_common.h"
static struct ovni_rcpu_any { char bytes[64]; } g_cell;    /* room for one struct ovni_rcpu (checked below) */
static int g_cell_used;
static void *legal_malloc(size_t n)
{
	__CPROVER_assert(n <= sizeof(g_cell) && !g_cell_used, "one list cell is allocated");
	g_cell_used = 1;
	return &g_cell;
}
#define malloc(n) legal_malloc(n)
#include "ovni.c"
#undef malloc
_Static_assert(sizeof(struct ovni_rcpu) <= sizeof(struct ovni_rcpu_any), "ghost cell holds one struct ovni_rcpu");

void h_legal_add_cpu(void)
{
	int index = nondet_int(), phyid = nondet_int();
	__CPROVER_assume(index >= 0 && phyid >= 0);
	rproc.st = ST_READY;
	rthread.ready = 1;
	/* the list so far: empty, or one earlier CPU (utlist: head->prev is the tail, tail->next is NULL) */
	static struct ovni_rcpu first;
	int had = nondet_bool();
	if (had) { first.prev = &first; first.next = NULL; rthread.cpus = &first; } else rthread.cpus = NULL;
	ovni_add_cpu(index, phyid);
	struct ovni_rcpu *c = (struct ovni_rcpu *) &g_cell;
	VASSERT(g_cell_used && c->index == index && c->phyid == phyid, "the new cell carries exactly (index, phyid)");
	VASSERT(rthread.cpus != NULL && rthread.cpus->prev == c && c->next == NULL, "it is the last entry of this thread's list");
	VASSERT(had ? (rthread.cpus == &first && first.next == c) : rthread.cpus == c, "earlier entries keep their place");
	if (index == 0 && phyid == 0) REACH("CPU 0 with physical id 0 accepted");
	if (had) REACH("appended behind an earlier CPU");
}

void h_legal_set_rank(void)
{
	int rank = nondet_int(), nranks = nondet_int();
	rproc.st = ST_READY;
	rthread.ready = 1;
	ovni_proc_set_rank(rank, nranks);
	VASSERT(rthread.rank_set == 1 && rthread.rank == rank && rthread.nranks == nranks, "the rank is recorded for this thread");
	REACH("ovni_proc_set_rank returns");
}
