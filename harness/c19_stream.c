/* C19 -- the stream cursor on untrusted bytes: stream_step + event_size_at_offset
 * (real stream.c) with ovni_ev_size / ovni_payload_size / get_jumbo_payload_size /
 * ovni_ev_get_clock (real ovni.c) verified inline; check_stream_header.
 *
 * The stream buffer is ONE object of exactly `size` bytes (C19_PAD == 0) with
 * arbitrary content: any read outside [buf, buf+size) fails a pointer check.
 *
 * Granularity of CBMC's pointer check (measured): `ev->payload.jumbo.size` is checked
 * as an access to the whole 16-byte member `ev->payload` (member-of-dereference is
 * rewritten one level only; a union member is a byte_extract of the whole union).
 * A 4-byte read of the jumbo size field at buf+off+12 is therefore reported as a
 * failure whenever fewer than 28 bytes remain, although the code reads 4 bytes.
 * The input space is split exhaustively:
 *   C19_PAD == 0 (group stream_step): no jumbo header in the last 27 bytes
 *                of the buffer is touched (TAIL_WINDOW false); object of exactly size bytes.
 *   C19_PAD == 12 (group stream_step_tail): TAIL_WINDOW true; the object has 12 more
 *                bytes than stream->size, with arbitrary content, and the exact functional
 *                contract (which reads only bytes < size) must still hold.  */
#include "prelude.h"
#include "stream.c"        /* the real /repo/src/emu/stream.c */
#include "ovni.c"          /* the real /repo/src/rt/ovni.c (size functions run on file bytes) */

#ifndef C19_PAD
#define C19_PAD 0
#endif

_Static_assert(sizeof(struct ovni_ev_header) == 12, "header layout");
_Static_assert(offsetof(struct ovni_ev, payload) == 12, "payload offset");
_Static_assert(offsetof(struct ovni_ev, payload.jumbo.size) == 12 && sizeof(((struct ovni_ev *) 0)->payload.jumbo.size) == 4, "jumbo size field");
_Static_assert(offsetof(struct ovni_ev, payload.jumbo.data) == 16, "jumbo data offset");
_Static_assert(offsetof(struct ovni_ev_header, clock) == 4, "clock offset");

/* Largest stream size admitted: 2^48 bytes (the user address space of x86-64 is 2^47). */
#define C19_MAX_STREAM (1LL << 48)

/* payload size declared by a normal event's flags: 0 or 2..16 */
#define NORMAL_PSIZE(fl) ((((fl) & 0x0f) == 0) ? 0 : (((fl) & 0x0f) + 1))
#define IS_JUMBO(fl) (((fl) & OVNI_EV_JUMBO) != 0)
/* size of an event from its flags byte and (if jumbo) its 32-bit size field */
#define SIZE_OF(fl, js) (IS_JUMBO(fl) ? 16LL + (long long) (js) : 12LL + NORMAL_PSIZE(fl))
/* size of the event that has `avail` bytes of room, or -1 if it does not fit / exceeds INT32_MAX */
#define FIT_SIZE(avail, fl, js) ( \
	(avail) < 12 ? -1LL : \
	(IS_JUMBO(fl) && (avail) < 16) ? -1LL : \
	(SIZE_OF(fl, js) > (avail) || SIZE_OF(fl, js) > INT32_MAX) ? -1LL : SIZE_OF(fl, js))

/* ---- pre-state facts, bound in requires (the contract is enforce-only) ---- */
long long g_off0, g_size, g_last0, g_clkoff;
int g_had_ev, g_active0, g_unsorted;
unsigned g_cur_flags; unsigned long g_cur_js;    /* loaded event: flags, jumbo size */
long long g_cur_size;                            /* its size (0 if no event loaded) */
long long g_noff, g_navail;                      /* offset after the step, room there */
unsigned g_next_flags; unsigned long g_next_js;  /* event at g_noff */
unsigned long g_next_raw;                        /* its raw clock */
long long g_next_size;                           /* FIT_SIZE there */
long long g_next_clock;                          /* corrected clock */
/* witnesses for replay */
long long w_size, w_offset, w_clkoff, w_lastclock;
int w_active, w_has_ev, w_unsorted;
unsigned w_flags, w_next_flags;
unsigned long w_jumbo_size, w_next_jumbo_size, w_next_clock;
WITNESS(stream_step);

#define RD8(s, off)  ((s)->buf[(off)])
#define RD32(s, off) (*(uint32_t *) ((s)->buf + (off)))
#define RD64(s, off) (*(uint64_t *) ((s)->buf + (off)))

/* [F-C19-1] the corrected clock `(int64_t) clock + clock_offset` and the delta
 * `clock - lastclock` are computed in signed 64-bit arithmetic on values read from
 * the files; CLOCK_ARITH_OK excludes exactly the inputs on which the conversion
 * uint64 -> int64 changes the value or one of the two operations overflows. */
#define CLOCK_ARITH_OK ( \
	g_next_raw <= (unsigned long) INT64_MAX && \
	!__CPROVER_overflow_plus((long long) g_next_raw, g_clkoff) && \
	((!g_unsorted && (long long) g_next_raw + g_clkoff < g_last0) || \
	 !__CPROVER_overflow_minus((long long) g_next_raw + g_clkoff, g_last0)))

/* a jumbo event whose 16..27 last bytes of room end the buffer (see top comment) */
#define TAIL_WINDOW ( \
	(g_had_ev && IS_JUMBO(g_cur_flags) && g_size - g_off0 < 28) || \
	(g_navail >= 16 && g_navail < 28 && IS_JUMBO(g_next_flags)))

/* shape: one stream, one buffer object of exactly `size` (+C19_PAD) bytes, arbitrary content;
 * STREAM_WF: 0 <= offset <= size; a loaded event is the one at buf+offset and it fits;
 * the event after the step is read only where the bytes exist */
#define STREAM_STEP_PRE(stream) \
__CPROVER_requires(__CPROVER_is_fresh(stream, sizeof(*stream)) && DIAG_PRE) \
__CPROVER_requires(stream->size >= 1 && stream->size <= C19_MAX_STREAM) \
__CPROVER_requires(__CPROVER_is_fresh(stream->buf, (size_t) stream->size + C19_PAD)) \
__CPROVER_requires(stream->offset >= 0 && stream->offset <= stream->size) \
__CPROVER_requires(stream->cur_ev == NULL || __CPROVER_pointer_equals(stream->cur_ev, (struct ovni_ev *) (stream->buf + stream->offset))) \
__CPROVER_requires(g_off0 == stream->offset && g_size == stream->size && g_clkoff == stream->clock_offset && \
	g_had_ev == (stream->cur_ev != NULL) && g_active0 == (stream->active != 0) && \
	g_unsorted == (stream->unsorted != 0) && g_last0 == stream->lastclock) \
__CPROVER_requires(!g_had_ev || (g_size - g_off0 >= 12 && g_cur_flags == RD8(stream, g_off0))) \
__CPROVER_requires(!g_had_ev || !IS_JUMBO(g_cur_flags) || (g_size - g_off0 >= 16 && g_cur_js == RD32(stream, g_off0 + 12))) \
__CPROVER_requires(g_cur_size == (g_had_ev ? SIZE_OF(g_cur_flags, g_cur_js) : 0)) \
__CPROVER_requires(!g_had_ev || (g_cur_size <= g_size - g_off0 && g_cur_size <= INT32_MAX)) \
__CPROVER_requires(g_noff == g_off0 + g_cur_size && g_navail == g_size - g_noff) \
__CPROVER_requires(g_navail < 12 || (g_next_flags == RD8(stream, g_noff) && g_next_raw == RD64(stream, g_noff + 4))) \
__CPROVER_requires(g_navail < 16 || !IS_JUMBO(g_next_flags) || g_next_js == RD32(stream, g_noff + 12)) \
__CPROVER_requires(g_next_size == FIT_SIZE(g_navail, g_next_flags, g_next_js))

int c_stream_step(struct stream *stream)
STREAM_STEP_PRE(stream)
__CPROVER_requires(g_next_size < 0 || (CLOCK_ARITH_OK && g_next_clock == (long long) g_next_raw + g_clkoff))
__CPROVER_requires(C19_PAD ? TAIL_WINDOW : !TAIL_WINDOW)
__CPROVER_requires(WBIND(stream_step, w_size == g_size && w_offset == g_off0 && w_active == stream->active &&
	w_has_ev == g_had_ev && w_unsorted == stream->unsorted && w_clkoff == g_clkoff && w_lastclock == g_last0 &&
	w_flags == g_cur_flags && w_jumbo_size == g_cur_js && w_next_flags == g_next_flags &&
	w_next_jumbo_size == g_next_js && w_next_clock == g_next_raw))
__CPROVER_assigns(stream->offset, stream->cur_ev, stream->active, stream->lastclock, stream->deltaclock, DIAG_FRAME)
__CPROVER_ensures(__CPROVER_return_value == 0 || __CPROVER_return_value == 1 || __CPROVER_return_value == -1)
/* the cursor never leaves the buffer, whatever the outcome */
__CPROVER_ensures(stream->offset >= 0 && stream->offset <= stream->size)
/* exact outcome */
__CPROVER_ensures((__CPROVER_return_value == 1) == (g_active0 && g_had_ev && g_noff == g_size))
__CPROVER_ensures((__CPROVER_return_value == 0) == (g_active0 && !(g_had_ev && g_noff == g_size) &&
	g_next_size >= 12 && (g_unsorted || g_next_clock >= g_last0)))
/* accepted step: STREAM_WF again -- an event is loaded, it is the one at buf+offset, and it
 * lies completely inside the buffer */
__CPROVER_ensures(__CPROVER_return_value != 0 || (stream->cur_ev == (struct ovni_ev *) (stream->buf + stream->offset) &&
	stream->cur_ev != NULL && stream->active != 0 && stream->offset == g_noff &&
	g_next_size >= 12 && g_next_size <= INT32_MAX && stream->offset + g_next_size <= stream->size))
/* progress: stepping over a loaded event advances the offset by its size, at least 12 bytes */
__CPROVER_ensures(__CPROVER_return_value != 0 || !g_had_ev || stream->offset >= g_off0 + 12)
__CPROVER_ensures(__CPROVER_return_value != 0 || (stream->lastclock == g_next_clock && stream->deltaclock == g_next_clock - g_last0))
/* end of stream: inactive, nothing loaded, offset == size */
__CPROVER_ensures(__CPROVER_return_value != 1 || (stream->active == 0 && stream->cur_ev == NULL && stream->offset == stream->size))
/* refusal comes with a diagnostic */
__CPROVER_ensures(__CPROVER_return_value != -1 || g_err > __CPROVER_old(g_err))
;

void h_stream_step(void)
{
	struct stream *stream;
	WITNESS_ON(stream_step);
	int r = stream_step(stream);
	if (r == 0) REACH("step accepted");
#if C19_PAD == 0
	if (r == 0 && !g_had_ev) REACH("first event loaded");
	if (r == 0 && g_had_ev && g_cur_size == 28) REACH("stepped over a 16-byte payload event");
	if (r == 0 && g_had_ev && g_cur_size > 100000) REACH("stepped over a large jumbo event");
	if (r == 0 && g_next_size > 0x7fff0000LL) REACH("next event is a jumbo of almost 2 GiB");
	if (r == 0 && w_size > (1LL << 40)) REACH("stream larger than 1 TiB");
	if (r == 0 && g_next_size == g_navail && !IS_JUMBO(g_next_flags)) REACH("accepted event ends exactly at the end of the buffer");
	if (r == 1) REACH("end of stream");
	if (r == -1 && g_active0 && g_next_size < 0 && g_navail < 12) REACH("refused: truncated header");
	if (r == -1 && g_active0 && IS_JUMBO(g_next_flags) && g_navail >= 12 && g_navail < 16) REACH("refused: jumbo size field truncated");
	if (r == -1 && g_active0 && g_next_size < 0 && IS_JUMBO(g_next_flags) && g_navail >= 28 && g_next_js <= 0x7fffffefUL) REACH("refused: jumbo data truncated");
	if (r == -1 && g_active0 && g_next_size < 0 && IS_JUMBO(g_next_flags) && g_navail >= 28 && 16 + (long long) g_next_js <= g_navail) REACH("refused: jumbo larger than INT32_MAX");
	if (r == -1 && g_active0 && g_next_size < 0 && !IS_JUMBO(g_next_flags) && g_navail >= 12) REACH("refused: normal payload truncated");
	if (r == -1 && g_active0 && g_next_size >= 12) REACH("refused: clock goes backwards");
	if (r == -1 && !g_active0) REACH("refused: inactive");
#else
	if (r == 0 && IS_JUMBO(g_next_flags) && g_next_js == 0 && g_navail == 16) REACH("jumbo with zero data ends the buffer: accepted");
	if (r == 1 && IS_JUMBO(g_cur_flags)) REACH("end of stream after a short jumbo");
	if (r == -1 && g_active0 && g_next_size < 0 && IS_JUMBO(g_next_flags)) REACH("refused: short jumbo at the end truncated");
#endif
}

/* ---- twin of finding [F-C19-1]: the same step WITHOUT the clock carve-out ----
 * Everything about the cursor still holds for all clock values; the three clock
 * operations are expected to fail (known_findings.txt).  Concrete input: ovnisort on a
 * stream whose two events have clocks 0x7fffffffffffffff and 0x8000000000000000:
 * `clock - stream->lastclock` = INT64_MIN - INT64_MAX.  */
int c_stream_step_anyclock(struct stream *stream)
STREAM_STEP_PRE(stream)
#ifdef C19_ANYCLOCK_FULL
__CPROVER_requires(!TAIL_WINDOW)
#else
/* quick tier: loading the first event only (the unrestricted twin runs in the thorough tier) */
__CPROVER_requires(!TAIL_WINDOW && !g_had_ev)
#endif
__CPROVER_assigns(stream->offset, stream->cur_ev, stream->active, stream->lastclock, stream->deltaclock, DIAG_FRAME)
__CPROVER_ensures(__CPROVER_return_value == 0 || __CPROVER_return_value == 1 || __CPROVER_return_value == -1)
__CPROVER_ensures(stream->offset >= 0 && stream->offset <= stream->size)
__CPROVER_ensures(__CPROVER_return_value != 0 || (stream->cur_ev == (struct ovni_ev *) (stream->buf + stream->offset) &&
	stream->offset == g_noff && g_next_size >= 12 && stream->offset + g_next_size <= stream->size))
__CPROVER_ensures(__CPROVER_return_value != 0 || !g_had_ev || stream->offset >= g_off0 + 12)
;

void h_stream_step_anyclock(void)
{
	struct stream *stream;
	int r = stream_step(stream);
	if (r == 0 && g_next_raw > (unsigned long) INT64_MAX) REACH("accepted with a clock above INT64_MAX");
	if (r == -1 && g_next_size >= 12) REACH("refused by the clock test");
}

/* ---- check_stream_header: reads 8 bytes only after size >= 8 ---- */
long long w_hsize;
WITNESS(check_stream_header);
int g_hdr_ok;
int c_check_stream_header(struct stream *stream)
__CPROVER_requires(__CPROVER_is_fresh(stream, sizeof(*stream)) && DIAG_PRE)
__CPROVER_requires(stream->size >= 1 && stream->size <= C19_MAX_STREAM && __CPROVER_is_fresh(stream->buf, (size_t) stream->size))
__CPROVER_requires(g_hdr_ok == (stream->size >= 8 && stream->buf[0] == 'o' && stream->buf[1] == 'v' &&
	stream->buf[2] == 'n' && stream->buf[3] == 'i' && stream->buf[4] == OVNI_STREAM_VERSION &&
	stream->buf[5] == 0 && stream->buf[6] == 0 && stream->buf[7] == 0))
__CPROVER_requires(WBIND(check_stream_header, w_hsize == stream->size))
__CPROVER_assigns(DIAG_FRAME)
__CPROVER_ensures(__CPROVER_return_value == 0 || __CPROVER_return_value == -1)
__CPROVER_ensures((__CPROVER_return_value == 0) == (g_hdr_ok != 0))
__CPROVER_ensures(__CPROVER_return_value == 0 || g_err > __CPROVER_old(g_err))
;

void h_check_stream_header(void)
{
	struct stream *stream;
	WITNESS_ON(check_stream_header);
	int r = check_stream_header(stream);
	if (r == 0) REACH("header accepted");
	if (r != 0 && w_hsize < 8) REACH("short header refused");
	if (r != 0 && w_hsize >= 8) REACH("bad magic or version refused");
}
