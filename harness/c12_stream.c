/* C12 -- stream layer: stream_step (+ event_size_at_offset, stream_evclock) and
 * emu_ev on the real stream.c / emu_ev.c; the event-size
 * helpers they call (ovni_ev_size, ovni_payload_size, ovni_ev_get_clock) are the
 * real ones of src/rt/ovni.c, included textually as well. */
#include "rt_common.h"     /* prelude + symbolic capacity needed to include ovni.c */
#include "ovni.c"          /* real /repo/src/rt/ovni.c */
#include "stream.c"        /* real /repo/src/emu/stream.c */
#include "emu_ev.c"        /* real /repo/src/emu/emu_ev.c */

_Static_assert(sizeof(struct ovni_ev_header) == 12, "event header is 12 bytes");
_Static_assert(sizeof(struct ovni_stream_header) == 8, "stream header is 8 bytes");

/* ------------------------------------------------------------------------
 * Specification of the binary format, written from doc/user/runtime/trace_spec.md
 * (NOT from the code): stream header = "ovni" + u32 version (1); event = 12-byte
 * header {flags, m, c, v, u64 clock}; low nibble of flags: 0 = no payload,
 * n = n+1 bytes of payload (2..16); flag 0x10 = jumbo: u32 size + size bytes of
 * data follow the header.  Integers little endian (x86-64).
 * ------------------------------------------------------------------------ */
#define SP_HDR 12L
/* The bytes are read through the public struct of ovni.h (so that CBMC shares the
 * array reads with the code: the number of distinct symbolic-index reads drives
 * the solver time quadratically); the layout the document gives is pinned here. */
_Static_assert(offsetof(struct ovni_ev, header.flags) == 0 && offsetof(struct ovni_ev, header.model) == 1 &&
	offsetof(struct ovni_ev, header.category) == 2 && offsetof(struct ovni_ev, header.value) == 3 &&
	offsetof(struct ovni_ev, header.clock) == 4 && sizeof(((struct ovni_ev *) 0)->header.clock) == 8 &&
	offsetof(struct ovni_ev, payload) == 12 && offsetof(struct ovni_ev, payload.jumbo.size) == 12 &&
	sizeof(((struct ovni_ev *) 0)->payload.jumbo.size) == 4 && offsetof(struct ovni_ev, payload.jumbo.data) == 16,
	"event layout of trace_spec.md");
#define SP_EV(b, o) ((const struct ovni_ev *) ((b) + (o)))
#define SP_FLAGS(b, o) (SP_EV(b, o)->header.flags)
#define SP_JSIZE(b, o) ((long) SP_EV(b, o)->payload.jumbo.size)   /* u32, 0 .. 2^32-1 */
#define SP_CLOCK(b, o) (SP_EV(b, o)->header.clock)                  /* u64 */
#define SP_LE32(b, o) ((unsigned long) (b)[(o)] | ((unsigned long) (b)[(o) + 1] << 8) | \
		((unsigned long) (b)[(o) + 2] << 16) | ((unsigned long) (b)[(o) + 3] << 24))
#define SP_JUMBO(b, o) ((SP_FLAGS(b, o) & 0x10) != 0)
#define SP_NIB(b, o) ((long) (SP_FLAGS(b, o) & 0x0f))

/* payload size of the event at offset o; the caller guarantees the bytes read exist */
static inline long sp_payload(const uint8_t *b, long o)
{
	if (SP_JUMBO(b, o))
		return 4L + SP_JSIZE(b, o);
	return SP_NIB(b, o) == 0 ? 0L : SP_NIB(b, o) + 1L;
}

/* the event at offset o lies completely inside a stream of `size` bytes
 * (and its size is representable as a positive int, as the API requires) */
static inline int sp_fits(const uint8_t *b, long o, long size)
{
	long avail = size - o;
	if (avail < SP_HDR)
		return 0;                              /* header cut */
	if (SP_JUMBO(b, o)) {
		if (avail < SP_HDR + 4)
			return 0;                      /* jumbo size field cut */
		long total = SP_HDR + 4L + SP_JSIZE(b, o);
		return total <= avail && total <= 0x7fffffffL;
	}
	return SP_HDR + sp_payload(b, o) <= avail;
}

/* ============================ stream_step ============================ */
/* Data-structure invariant of a loaded stream: the cursor is inside the buffer;
 * a loaded event is the one at the cursor and lies completely inside the buffer
 * (established by load_obs: cur_ev NULL, offset 8; preserved by stream_step). */
#define STREAM_MAXSIZE (1L << 40)
/* CBMC checks a member access p->payload.x against the whole 16-byte union
 * `payload`, although only x is read.  A jumbo event with less than 12 bytes of
 * data that ends the buffer (event < 28 bytes, nothing behind it) therefore
 * raises a spurious "outside object bounds" on the 4-byte read of its size
 * field.  Group stream_step proves the contract on a buffer object of EXACTLY
 * stream->size bytes for every input except those (SHORT_TAIL_JUMBO); group
 * stream_step_tail proves the same contract for EVERY input on an object with 12
 * more bytes behind stream->size (bytes the union-wide check wants). */
#ifndef C12_SLACK
#define C12_SLACK 0
#endif
#define SHORT_TAIL_JUMBO(b, o, size) ((size) - (o) >= 12 && (size) - (o) < 28 && SP_JUMBO(b, o))
/* (one clause per is_fresh: a single conjunction holding both is 20x slower) */
#define REQ_STREAM_SHAPE(s) \
	__CPROVER_requires(__CPROVER_is_fresh(s, sizeof(*(s)))) \
	__CPROVER_requires((s)->size >= 8 && (s)->size <= STREAM_MAXSIZE) \
	__CPROVER_requires(__CPROVER_is_fresh((s)->buf, (s)->size + C12_SLACK)) \
	__CPROVER_requires((s)->offset >= 0 && (s)->offset <= (s)->size) \
	__CPROVER_requires(C12_SLACK > 0 || (s)->cur_ev == NULL || !SHORT_TAIL_JUMBO((s)->buf, (s)->offset, (s)->size)) \
	__CPROVER_requires((s)->cur_ev == NULL || \
		(__CPROVER_pointer_equals((s)->cur_ev, (struct ovni_ev *) ((s)->buf + (s)->offset)) && \
		 sp_fits((s)->buf, (s)->offset, (s)->size)))

/* pre-state ghosts (enforce-only contract) */
long w_size, w_clkoff, w_last;
unsigned long w_rawclk;
int w_unsorted;
int g_active, g_had, g_end, g_fits, g_back, g_unsorted, g_njumbo;
long g_noff;               /* offset of the event the step moves to */
long g_clk;                /* its corrected clock */
unsigned long g_rawclk;    /* its clock as stored in the file */
long g_last, g_off0, g_clkoff;
WITNESS(stream_step);

/* Carve-out = exactly the inputs on which the code has undefined behaviour:
 * stream_evclock computes (int64_t) clock + clock_offset in signed arithmetic on
 * two file-controlled values (event clock: any u64 of stream.obs; offset: median
 * of the clock offset table), and stream_step then clock - lastclock.  The proved
 * contract covers every input on which neither overflows; the twin group
 * stream_step_anyclock (-DC12_ANYCLOCK) has no such clause and shows the overflow. */
#define I64_MAX 0x7fffffffffffffffL
#define I64_MIN (-I64_MAX - 1L)
#define ADD_OVF(a, b) (((b) > 0 && (a) > I64_MAX - (b)) || ((b) < 0 && (a) < I64_MIN - (b)))
#define SUB_OVF(a, b) (((b) < 0 && (a) > I64_MAX + (b)) || ((b) > 0 && (a) < I64_MIN + (b)))
#define CLOCK_SUM_OVF(s) (g_rawclk > (unsigned long) I64_MAX || ADD_OVF((long) g_rawclk, (s)->clock_offset))
#ifndef C12_ANYCLOCK
#define CLOCK_SUM_DEFINED(s)   (!g_fits || (g_rawclk <= (unsigned long) I64_MAX && !ADD_OVF((long) g_rawclk, (s)->clock_offset)))
#define CLOCK_DELTA_DEFINED(s) (!g_fits || g_back || !SUB_OVF(g_clk, (s)->lastclock))
#else
#define CLOCK_SUM_DEFINED(s) 1
#define CLOCK_DELTA_DEFINED(s) 1
#endif

int c_stream_step(struct stream *stream)
REQ_STREAM_SHAPE(stream)
__CPROVER_requires(DIAG_PRE)
__CPROVER_requires(g_active == (stream->active != 0) && g_had == (stream->cur_ev != NULL))
__CPROVER_requires(g_unsorted == (stream->unsorted != 0))
__CPROVER_requires(WBIND(stream_step, w_size == stream->size))
__CPROVER_requires(g_off0 == stream->offset && g_last == stream->lastclock && g_clkoff == stream->clock_offset)
__CPROVER_requires(g_noff == (g_had ? stream->offset + SP_HDR + sp_payload(stream->buf, stream->offset) : stream->offset))
__CPROVER_requires(g_end == (g_had && g_noff == stream->size))
__CPROVER_requires(C12_SLACK > 0 || !SHORT_TAIL_JUMBO(stream->buf, g_noff, stream->size))
__CPROVER_requires(g_fits == sp_fits(stream->buf, g_noff, stream->size))
__CPROVER_requires(g_njumbo == (stream->size - g_noff >= 12 && SP_JUMBO(stream->buf, g_noff)))
__CPROVER_requires(!g_fits || g_rawclk == SP_CLOCK(stream->buf, g_noff))
__CPROVER_requires(WBIND(stream_step, !g_fits || (w_rawclk == g_rawclk && w_clkoff == stream->clock_offset && w_last == stream->lastclock && w_unsorted == g_unsorted)))
__CPROVER_requires(CLOCK_SUM_DEFINED(stream))
__CPROVER_requires(!g_fits || CLOCK_SUM_OVF(stream) || g_clk == (long) g_rawclk + stream->clock_offset)
__CPROVER_requires(g_back == (g_fits && !g_unsorted && g_clk < stream->lastclock))
__CPROVER_requires(CLOCK_DELTA_DEFINED(stream))
__CPROVER_assigns(stream->offset, stream->active, stream->cur_ev, stream->lastclock, stream->deltaclock, DIAG_FRAME)
__CPROVER_ensures(__CPROVER_return_value == 0 || __CPROVER_return_value == -1 || __CPROVER_return_value == 1)
/* an inactive stream cannot be stepped and is left alone */
__CPROVER_ensures(g_active || (__CPROVER_return_value == -1 && stream->offset == g_off0 && stream->active == 0))
/* +1 exactly when the loaded event was the last one: the stream becomes inactive */
__CPROVER_ensures((__CPROVER_return_value == 1) == (g_active && g_end))
__CPROVER_ensures(__CPROVER_return_value != 1 || (stream->active == 0 && stream->cur_ev == NULL && stream->offset == stream->size))
/* advances exactly when the next event is complete and (sorted mode) not older than the last one */
__CPROVER_ensures((__CPROVER_return_value == 0) == (g_active && !g_end && g_fits && !g_back))
/* truncated trailing event (header, jumbo size field or body cut) => failure */
__CPROVER_ensures(!(g_active && !g_end && !g_fits) || __CPROVER_return_value == -1)
/* clock going backwards in a sorted stream => failure */
__CPROVER_ensures(!(g_active && !g_end && g_back) || __CPROVER_return_value == -1)
/* effect of an accepted step */
__CPROVER_ensures(__CPROVER_return_value != 0 || (
	stream->offset == g_noff && stream->cur_ev == (struct ovni_ev *) (stream->buf + g_noff) &&
	stream->lastclock == g_clk && (SUB_OVF(g_clk, g_last) || stream->deltaclock == g_clk - g_last) && stream->active != 0 &&
	(!g_had || (g_noff >= g_off0 + 12 && g_noff <= g_off0 + 0x7fffffffL)) && (g_had || g_noff == g_off0) &&
	/* invariant kept: offset' == g_noff, g_fits, and buf is outside the frame */
	(g_unsorted || stream->lastclock >= g_last)))
/* a failure says why and never moves the clock */
__CPROVER_ensures(__CPROVER_return_value != -1 || (g_err > __CPROVER_old(g_err) && stream->lastclock == g_last))
;

void h_stream_step(void)
{
	struct stream *s;
	WITNESS_ON(stream_step);
	int r = stream_step(s);
	if (r == 0 && !g_had) REACH("first event loaded");
	if (r == 0 && g_had) REACH("advanced to the next event");
	if (r == 0 && g_had && g_noff == g_off0 + 12) REACH("advanced over an event without payload");
	if (r == 0 && g_had && g_noff > g_off0 + 28) REACH("advanced over a jumbo event");
	if (r == 0 && g_unsorted && g_clk < g_last) REACH("unsorted stream: older clock accepted");
	if (r == 1) REACH("end of stream");
	if (r == -1 && !g_active) REACH("inactive refused");
	if (r == -1 && g_active && !g_fits && g_noff + 12 > w_size) REACH("cut header refused");
	if (r == -1 && g_active && !g_fits && !g_njumbo && g_noff + 12 <= w_size) REACH("normal event with cut payload refused");
	if (r == -1 && g_active && !g_fits && g_njumbo && g_noff + 28 <= w_size) REACH("jumbo event with cut data refused");
#if C12_SLACK > 0
	if (r == -1 && g_active && !g_fits && g_njumbo && g_noff + 16 > w_size) REACH("cut jumbo size field refused");
	if (r == -1 && g_active && !g_fits && g_njumbo && g_noff + 16 <= w_size && g_noff + 28 > w_size) REACH("short trailing jumbo with cut data refused");
	if (r == 0 && g_njumbo && g_noff + 28 > w_size) REACH("short trailing jumbo accepted");
#endif
	if (r == -1 && g_active && g_back) REACH("backwards clock refused");
}

/* =============================== emu_ev =============================== */
/* The event is an object of exactly its own size (12 + payload), so any read
 * past the event is a bounds violation; only a jumbo event shorter than 28 bytes
 * gets a 28-byte object (CBMC's union-wide check, see SHORT_TAIL_JUMBO). *ev is
 * arbitrary on entry -- in particular is_jumbo left over from the previous event. */
unsigned long w_evobj;      /* size of the object holding the event */
long g_psize;               /* payload size by the format specification */
int g_jumbo;
unsigned char w_flags;
int w_old_is_jumbo;
long w_evpsize;             /* = g_psize, for the native replay */
WITNESS(emu_ev);
#define EVB(oev) ((const uint8_t *) (oev))

void c_emu_ev(struct emu_ev *ev, const struct ovni_ev *oev, int64_t sclock, int64_t dclock)
__CPROVER_requires(__CPROVER_is_fresh(ev, sizeof(*ev)))
__CPROVER_requires(w_evobj >= 12 && w_evobj <= (1UL << 33))
__CPROVER_requires(__CPROVER_is_fresh(oev, w_evobj))
__CPROVER_requires(w_evobj >= 28 || !SP_JUMBO(EVB(oev), 0))
__CPROVER_requires(sp_fits(EVB(oev), 0, (long) w_evobj))
__CPROVER_requires(g_psize == sp_payload(EVB(oev), 0) && g_jumbo == SP_JUMBO(EVB(oev), 0))
__CPROVER_requires(w_evobj == 12UL + (unsigned long) g_psize || (g_jumbo && g_psize < 16 && w_evobj == 28))
/* (int64_t) of a u64 >= 2^63 is implementation-defined (flagged by CBMC's conversion check) */
__CPROVER_requires(SP_CLOCK(EVB(oev), 0) <= (unsigned long) I64_MAX)
__CPROVER_requires(WBIND(emu_ev, w_flags == SP_FLAGS(EVB(oev), 0) && w_old_is_jumbo == ev->is_jumbo && w_evpsize == g_psize))
__CPROVER_assigns(ev->m, ev->c, ev->v, ev->mcv[3], ev->rclock, ev->sclock, ev->dclock,
	ev->payload_size, ev->has_payload, ev->payload, ev->is_jumbo)
/* model, category, value copied; mcv is a nil-terminated string of them */
__CPROVER_ensures(ev->m == EVB(oev)[1] && ev->c == EVB(oev)[2] && ev->v == EVB(oev)[3])
__CPROVER_ensures((ev->mcv[0] & 0xff) == EVB(oev)[1] && (ev->mcv[1] & 0xff) == EVB(oev)[2] && (ev->mcv[2] & 0xff) == EVB(oev)[3] && ev->mcv[3] == '\0')
/* clocks */
__CPROVER_ensures(ev->rclock == (long) SP_CLOCK(EVB(oev), 0) && ev->sclock == sclock && ev->dclock == dclock)
/* payload shape decoded from THIS event only */
__CPROVER_ensures(ev->payload_size == (size_t) g_psize)
__CPROVER_ensures((ev->has_payload != 0) == (g_psize > 0) && (ev->has_payload == 0 || ev->has_payload == 1))
__CPROVER_ensures((ev->payload == NULL) == (g_psize == 0))
__CPROVER_ensures(g_psize == 0 || ev->payload == (const union ovni_ev_payload *) (EVB(oev) + 12))
__CPROVER_ensures((ev->is_jumbo != 0) == (g_jumbo != 0) && (ev->is_jumbo == 0 || ev->is_jumbo == 1))
;

void h_emu_ev(void)
{
	struct emu_ev *ev; const struct ovni_ev *oev; int64_t sc, dc;
	WITNESS_ON(emu_ev);
	emu_ev(ev, oev, sc, dc);
	if (g_psize == 0) REACH("event without payload");
	if (g_psize == 0 && w_old_is_jumbo) REACH("no payload after a jumbo event");
	if (g_psize > 0 && !g_jumbo && w_old_is_jumbo) REACH("normal event with payload after a jumbo event");
	if (g_psize == 16 && !g_jumbo) REACH("normal event with 16 bytes of payload");
	if (g_jumbo && !w_old_is_jumbo && g_psize > 1000) REACH("large jumbo event after a normal one");
	if (g_jumbo && g_psize == 4) REACH("jumbo event without data");
}
