/* C12 -- stream layer: check_stream_header, stream_step (+ event_size_at_offset,
 * stream_evclock) and emu_ev on the real stream.c / emu_ev.c; the event-size
 * helpers they call (ovni_ev_size, ovni_payload_size, ovni_ev_get_clock) are the
 * real ones of src/rt/ovni.c, included textually as well. */
#include "rt_common.h"     /* prelude + symbolic capacity needed to include ovni.c */
#include "ovni.c"          /* real /repo/src/rt/ovni.c */
#include "stream.c"        /* real /repo/src/emu/stream.c */
#include "emu_ev.c"        /* real /repo/src/emu/emu_ev.c */

_Static_assert(sizeof(struct ovni_ev_header) == 12, "event header is 12 bytes");
_Static_assert(sizeof(struct ovni_stream_header) == 8, "stream header is 8 bytes");

/* ------------------------------------------------------------------------
 * Specification of the binary format, written from doc/user/runtime/trace_spec.md
 * (NOT from the code): stream header = "ovni" + u32 version (1); event = 12-byte
 * header {flags, m, c, v, u64 clock}; low nibble of flags: 0 = no payload,
 * n = n+1 bytes of payload (2..16); flag 0x10 = jumbo: u32 size + size bytes of
 * data follow the header.  Integers little endian (x86-64).
 * ------------------------------------------------------------------------ */
#define SP_HDR 12L
#define SP_LE32(b, o) ((unsigned long) (b)[(o)] | ((unsigned long) (b)[(o) + 1] << 8) | \
		((unsigned long) (b)[(o) + 2] << 16) | ((unsigned long) (b)[(o) + 3] << 24))
#define SP_LE64(b, o) (SP_LE32(b, o) | (SP_LE32(b, (o) + 4) << 32))
#define SP_JUMBO(b, o) (((b)[(o)] & 0x10) != 0)
#define SP_NIB(b, o) ((long) ((b)[(o)] & 0x0f))

/* payload size of the event at offset o; the caller guarantees the bytes read exist */
static inline long sp_payload(const uint8_t *b, long o)
{
	if (SP_JUMBO(b, o))
		return 4L + (long) SP_LE32(b, o + 12);
	return SP_NIB(b, o) == 0 ? 0L : SP_NIB(b, o) + 1L;
}

/* the event at offset o lies completely inside a stream of `size` bytes
 * (and its size is representable as a positive int, as the API requires) */
static inline int sp_fits(const uint8_t *b, long o, long size)
{
	long avail = size - o;
	if (avail < SP_HDR)
		return 0;                              /* header cut */
	if (SP_JUMBO(b, o)) {
		if (avail < SP_HDR + 4)
			return 0;                      /* jumbo size field cut */
		long total = SP_HDR + 4L + (long) SP_LE32(b, o + 12);
		return total <= avail && total <= 0x7fffffffL;
	}
	return SP_HDR + sp_payload(b, o) <= avail;
}

/* ======================= check_stream_header ======================= */
long w_size;
unsigned w_version;
unsigned char w_magic0, w_magic1, w_magic2, w_magic3;
WITNESS(check_stream_header);

#define SP_HEADER_OK(s) ((s)->size >= 8 && \
	(s)->buf[0] == 'o' && (s)->buf[1] == 'v' && (s)->buf[2] == 'n' && (s)->buf[3] == 'i' && \
	SP_LE32((s)->buf, 4) == 1UL)

int c_check_stream_header(struct stream *stream)
__CPROVER_requires(__CPROVER_is_fresh(stream, sizeof(*stream)))
__CPROVER_requires(stream->size >= 0 && stream->size <= (1L << 40))
__CPROVER_requires(stream->size == 0 || __CPROVER_is_fresh(stream->buf, stream->size))
__CPROVER_requires(DIAG_PRE)
__CPROVER_requires(WBIND(check_stream_header, w_size == stream->size && (stream->size < 8 || (
	w_magic0 == stream->buf[0] && w_magic1 == stream->buf[1] &&
	w_magic2 == stream->buf[2] && w_magic3 == stream->buf[3] &&
	w_version == (unsigned) SP_LE32(stream->buf, 4)))))
__CPROVER_assigns(DIAG_FRAME)
/* accepted exactly when the header is complete, has the magic and version 1 */
__CPROVER_ensures((__CPROVER_return_value == 0) == SP_HEADER_OK(stream))
__CPROVER_ensures(__CPROVER_return_value == 0 || __CPROVER_return_value == -1)
__CPROVER_ensures(__CPROVER_return_value == 0 || g_err > __CPROVER_old(g_err))
;

void h_check_stream_header(void)
{
	struct stream *s;
	WITNESS_ON(check_stream_header);
	int r = check_stream_header(s);
	if (r == 0) REACH("header accepted");
	if (r == 0 && w_size == 8) REACH("header-only stream accepted");
	if (r != 0 && w_size < 8) REACH("incomplete header refused");
	if (r != 0 && w_size >= 8 && w_version == 1) REACH("wrong magic refused");
	if (r != 0 && w_size >= 8 && w_version != 1 && w_magic0 == 'o' && w_magic1 == 'v' && w_magic2 == 'n' && w_magic3 == 'i')
		REACH("wrong version refused");
}

/* ============================ stream_step ============================ */
/* Data-structure invariant of a loaded stream: the cursor is inside the buffer;
 * a loaded event is the one at the cursor and lies completely inside the buffer
 * (established by load_obs: cur_ev NULL, offset 8; preserved by stream_step). */
#define STREAM_MAXSIZE (1L << 40)
#define STREAM_SHAPE(s) ( \
	__CPROVER_is_fresh(s, sizeof(*(s))) && \
	(s)->size >= 8 && (s)->size <= STREAM_MAXSIZE && \
	__CPROVER_is_fresh((s)->buf, (s)->size) && \
	(s)->offset >= 0 && (s)->offset <= (s)->size && \
	((s)->cur_ev == NULL || \
		(__CPROVER_pointer_equals((s)->cur_ev, (struct ovni_ev *) ((s)->buf + (s)->offset)) && \
		 sp_fits((s)->buf, (s)->offset, (s)->size))))

/* pre-state ghosts (enforce-only contract) */
int g_active, g_had, g_end, g_fits, g_back, g_unsorted;
long g_noff;               /* offset of the event the step moves to */
long g_clk;                /* its corrected clock */
unsigned long g_rawclk;    /* its clock as stored in the file */
long g_last, g_off0, g_clkoff;
WITNESS(stream_step);

/* Carve-out (see final report / finding): stream_evclock computes
 * (int64_t) clock + clock_offset in signed arithmetic on file-controlled values.
 * The proved contract covers the inputs on which that sum and the delta do not
 * overflow; the twin group stream_step_anyclock shows the overflow. */
#ifndef C12_ANYCLOCK
#define CLOCK_CARVE_OUT(s) ( \
	(s)->clock_offset > -(1L << 60) && (s)->clock_offset < (1L << 60) && \
	(s)->lastclock > -(1L << 60) && (s)->lastclock < (1L << 61) + (1L << 60) && \
	(!g_fits || g_rawclk < (1UL << 61)))
#else
#define CLOCK_CARVE_OUT(s) 1
#endif

int c_stream_step(struct stream *stream)
__CPROVER_requires(STREAM_SHAPE(stream) && DIAG_PRE)
__CPROVER_requires(g_active == (stream->active != 0) && g_had == (stream->cur_ev != NULL))
__CPROVER_requires(g_unsorted == (stream->unsorted != 0))
__CPROVER_requires(WBIND(stream_step, w_size == stream->size))
__CPROVER_requires(g_off0 == stream->offset && g_last == stream->lastclock && g_clkoff == stream->clock_offset)
__CPROVER_requires(g_noff == (g_had ? stream->offset + SP_HDR + sp_payload(stream->buf, stream->offset) : stream->offset))
__CPROVER_requires(g_end == (g_had && g_noff == stream->size))
__CPROVER_requires(g_fits == sp_fits(stream->buf, g_noff, stream->size))
__CPROVER_requires(!g_fits || g_rawclk == SP_LE64(stream->buf, g_noff + 4))
__CPROVER_requires(CLOCK_CARVE_OUT(stream))
__CPROVER_requires(!g_fits || g_clk == (long) g_rawclk + stream->clock_offset)
__CPROVER_requires(g_back == (g_fits && !g_unsorted && g_clk < stream->lastclock))
__CPROVER_assigns(stream->offset, stream->active, stream->cur_ev, stream->lastclock, stream->deltaclock, DIAG_FRAME)
__CPROVER_ensures(__CPROVER_return_value == 0 || __CPROVER_return_value == -1 || __CPROVER_return_value == 1)
/* an inactive stream cannot be stepped and is left alone */
__CPROVER_ensures(g_active || (__CPROVER_return_value == -1 && stream->offset == g_off0 && stream->active == 0))
/* +1 exactly when the loaded event was the last one: the stream becomes inactive */
__CPROVER_ensures((__CPROVER_return_value == 1) == (g_active && g_end))
__CPROVER_ensures(__CPROVER_return_value != 1 || (stream->active == 0 && stream->cur_ev == NULL && stream->offset == stream->size))
/* advances exactly when the next event is complete and (sorted mode) not older than the last one */
__CPROVER_ensures((__CPROVER_return_value == 0) == (g_active && !g_end && g_fits && !g_back))
/* truncated trailing event (header, jumbo size field or body cut) => failure */
__CPROVER_ensures(!(g_active && !g_end && !g_fits) || __CPROVER_return_value == -1)
/* clock going backwards in a sorted stream => failure */
__CPROVER_ensures(!(g_active && !g_end && g_back) || __CPROVER_return_value == -1)
/* effect of an accepted step */
__CPROVER_ensures(__CPROVER_return_value != 0 || (
	stream->offset == g_noff && stream->cur_ev == (struct ovni_ev *) (stream->buf + g_noff) &&
	stream->lastclock == g_clk && stream->deltaclock == g_clk - g_last && stream->active != 0 &&
	(!g_had || (g_noff >= g_off0 + 12 && g_noff <= g_off0 + 0x7fffffffL)) && (g_had || g_noff == g_off0) &&
	sp_fits(stream->buf, stream->offset, stream->size) &&
	(g_unsorted || stream->lastclock >= g_last)))
/* a failure says why and never moves the clock */
__CPROVER_ensures(__CPROVER_return_value != -1 || (g_err > __CPROVER_old(g_err) && stream->lastclock == g_last))
;

void h_stream_step(void)
{
	struct stream *s;
	WITNESS_ON(stream_step);
	int r = stream_step(s);
	if (r == 0 && !g_had) REACH("first event loaded");
	if (r == 0 && g_had) REACH("advanced to the next event");
	if (r == 0 && g_had && g_noff == g_off0 + 12) REACH("advanced over an event without payload");
	if (r == 0 && g_had && g_noff > g_off0 + 28) REACH("advanced over a jumbo event");
	if (r == 0 && g_unsorted && g_clk < g_last) REACH("unsorted stream: older clock accepted");
	if (r == 1) REACH("end of stream");
	if (r == -1 && !g_active) REACH("inactive refused");
	if (r == -1 && g_active && !g_fits && g_noff + 12 > w_size) REACH("cut header refused");
	if (r == -1 && g_active && !g_fits && g_noff + 12 <= w_size && g_noff + 16 > w_size) REACH("cut jumbo size refused");
	if (r == -1 && g_active && !g_fits && g_noff + 16 <= w_size) REACH("cut event body refused");
	if (r == -1 && g_active && g_back) REACH("backwards clock refused");
}
