/* C13 -- wiring of model channels to the Paraver files: real src/emu/model_pvt.c and src/emu/pv/pvt.c
 *
 * What is shown: for every channel index k of a model spec, the type registered in the .prv
 * (prv_register) is pvt->type[k], on row gindex of the thread/CPU, and the same pvt->type[k] is
 * declared in the .pcf of the SAME pvt (pcf_add_type) unless it is -1; label tables are passed to
 * pcf_add_value entry by entry; pvt_open declares the same row count to the .prv and the .row.
 * Everything outside the two units is a logging stub. */
#include "prelude.h"
#include "c13_io.h"
#include "pv/pvt.h"
#include "pv/pcf.h"
#include "pv/prv.h"
#include "pv/prf.h"
#include "extend.h"
#include "track.h"
#include "recorder.h"
#include "thread.h"
#include "cpu.h"

static int c13_print(int nargs, FILE *f, const char *fmt, long a, long b, long c, long d)
{ (void) nargs; (void) f; (void) fmt; (void) a; (void) b; (void) c; (void) d; return nondet_int(); }

/* ---- stubs: extend / track ---- */
void *g_ext_ret; struct extend *g_ext_arg; int g_ext_id; unsigned g_ext_n;
void *extend_get(struct extend *ext, int id)
{
	g_ext_n++; g_ext_arg = ext; g_ext_id = id;
	return g_ext_ret;
}
/* the output channel of a track is represented by the track's own address (injective ghost
 * encoding; the real function returns track->out) */
struct chan *track_get_output(struct track *track) { return (struct chan *) track; }

/* ---- stub: prv_register, call number g_k observed ---- */
int g_k;                                 /* observed channel index: arbitrary */
int g_reg_n;                             /* prv_register calls so far */
long g_o_type, g_o_row, g_o_flags; void *g_o_prv, *g_o_bay, *g_o_chan;
#define REG_FRAME g_reg_n, g_o_type, g_o_row, g_o_flags, g_o_prv, g_o_bay, g_o_chan
int prv_register(struct prv *prv, long row, long type, struct bay *bay, struct chan *chan, long flags)
{
	if (g_reg_n == g_k) { g_o_type = type; g_o_row = row; g_o_flags = flags; g_o_prv = prv; g_o_bay = bay; g_o_chan = chan; }
	g_reg_n++;
	if (nondet_bool()) { g_lowfail++; return -1; }
	return 0;
}

/* ---- snprintf: RECORDING stub.  The prelude (and c13_io.h) drop the formatted text, so WHICH text a buffer
 * holds is observed as (format string, string arguments) of the call that filled it: the last formatting is kept
 * in g_sf, the first two in g_sf0 / g_sf1.  Every snprintf of pvt.c / model_pvt.c has <= 2 string arguments.
 * (Trusted: "snprintf prints its arguments according to the format".) */
enum { F_OTHER = 0, F_S = 1, F_PRV = 2, F_PCF = 3, F_ROW = 4, F_LABEL = 5 };
#define FMT_S(f)        ((f)[0] == '%' && (f)[1] == 's' && (f)[2] == '\0')                                   /* "%s" */
#define FMT_LABEL(f)    ((f)[0] == '%' && (f)[1] == 's' && (f)[2] == ' ' && (f)[3] == '%' && (f)[4] == 's' && (f)[5] == '\0')   /* "%s %s" */
#define FMT_PATH(f, x, y, z) ((f)[0] == '%' && (f)[1] == 's' && (f)[2] == '/' && (f)[3] == '%' && (f)[4] == 's' && (f)[5] == '.' && \
	(f)[6] == (x) && (f)[7] == (y) && (f)[8] == (z) && (f)[9] == '\0')                                      /* "%s/%s.xyz" */
/* (one struct per record: a single assigns target and a single checked assignment each -- DFCC's write-set checks
 * are what these ghosts cost) */
struct sf_rec { char *dst; int kind; const void *a0, *a1; };
struct sf_rec g_sf;             /* the last formatting */
struct sf_rec g_sf0, g_sf1;     /* formattings number 0 and 1 */
#define SF_FRAME g_sf, g_sf0, g_sf1
/* (the format is a string literal read character by character behind short-circuit guards: no obligations wanted for
 * these reads of the stub itself) */
#pragma CPROVER check push
#pragma CPROVER check disable "pointer"
#pragma CPROVER check disable "bounds"
static int c13w_fmt_kind(const char *fmt)
{
	return FMT_S(fmt) ? F_S : FMT_LABEL(fmt) ? F_LABEL : FMT_PATH(fmt, 'p', 'r', 'v') ? F_PRV :
		FMT_PATH(fmt, 'p', 'c', 'f') ? F_PCF : FMT_PATH(fmt, 'r', 'o', 'w') ? F_ROW : F_OTHER;
}
#pragma CPROVER check pop
static int c13w_snprintf(char *s, size_t n, const char *fmt, const void *a0, const void *a1)
{
	int kind = c13w_fmt_kind(fmt);
	struct sf_rec r; r.dst = s; r.kind = kind; r.a0 = a0; r.a1 = a1;
	if (g_snp_n == 0) g_sf0 = r;
	if (g_snp_n == 1) g_sf1 = r;
	g_sf = r;
	return c13_snprintf(s, n);      /* c13_io.h: any length, truncation is a lower-layer failure, g_snp_n++ */
}
#define C13W_PICK(_1, _2, _3, NAME, ...) NAME
#define c13w_s1(s, n, fmt)       c13w_snprintf((s), (n), (fmt), NULL, NULL)
#define c13w_s2(s, n, fmt, a)    c13w_snprintf((s), (n), (fmt), (a), NULL)
#define c13w_s3(s, n, fmt, a, b) c13w_snprintf((s), (n), (fmt), (a), (b))
#undef snprintf
#define snprintf(s, n, ...) C13W_PICK(__VA_ARGS__, c13w_s3, c13w_s2, c13w_s1)((s), (n), __VA_ARGS__)

/* ---- stubs: pcf_add_type / pcf_add_value ---- */
int g_want_id; void *g_want_pcf; int g_seen; int g_addtype_n;
/* what the declaration of the observed type carried as its label: the buffer formatted last, and from what */
struct lab_rec { int n, isbuf, kind; const void *a0, *a1; };
struct lab_rec g_l;
#define LAB_FRAME g_l
static struct pcf_type g_type_obj;
struct pcf_type *pcf_add_type(struct pcf *pcf, int type_id, const char *label)
{
	g_addtype_n++;
	if (type_id == g_want_id && (void *) pcf == g_want_pcf) {
		g_seen = 1;
		struct lab_rec r; r.n = g_l.n + 1; r.isbuf = (label == g_sf.dst); r.kind = g_sf.kind; r.a0 = g_sf.a0; r.a1 = g_sf.a1;
		g_l = r;
	}
	if (nondet_bool()) { g_lowfail++; return NULL; }
	return &g_type_obj;
}
int g_j; int g_addval_n; int g_v_value; void *g_v_type, *g_v_label;
static struct pcf_value g_value_obj;
struct pcf_value *pcf_add_value(struct pcf_type *type, int value, const char *label)
{
	if (g_addval_n == g_j) { g_v_value = value; g_v_type = type; g_v_label = (void *) label; }
	g_addval_n++;
	if (nondet_bool()) { g_lowfail++; return NULL; }
	return &g_value_obj;
}
struct pcf_type *pcf_find_type(struct pcf *pcf, int type_id) { (void) pcf; (void) type_id; return nondet_bool() ? &g_type_obj : NULL; }
struct pcf_value *pcf_find_value(struct pcf_type *type, int value) { (void) type; (void) value; return nondet_bool() ? &g_value_obj : NULL; }

/* ---- stub: recorder ---- */
struct pvt *g_pvt; char g_find_c; void *g_find_rec; unsigned g_find_n;
struct pvt *recorder_find_pvt(struct recorder *rec, const char *name)
{
	g_find_n++; g_find_rec = rec; g_find_c = name[0];
	return g_pvt;
}

/* prv_open, pcf_open, prf_open, *_close, prv_advance: logging stubs (shared header); here the three open stubs are
 * wrapped so that the PATH each file is opened under is observed too: it must be the buffer formatted last, and the
 * observation is the format and arguments of that formatting */
#define prv_open c13_base_prv_open
#define pcf_open c13_base_pcf_open
#define prf_open c13_base_prf_open
#include "c13_pvtstubs.h"
#undef prv_open
#undef pcf_open
#undef prf_open
struct sf_rec g_po_p, g_co_p, g_fo_p;    /* how the path of each open was formatted (kind -1: not the buffer formatted last) */
#define PATH_FRAME g_po_p, g_co_p, g_fo_p
static struct sf_rec c13w_path(const char *path) { struct sf_rec r = g_sf; if (path != g_sf.dst) r.kind = -1; return r; }
int prv_open(struct prv *prv, long nrows, const char *path) { g_po_p = c13w_path(path); return c13_base_prv_open(prv, nrows, path); }
int pcf_open(struct pcf *pcf, char *path) { g_co_p = c13w_path(path); return c13_base_pcf_open(pcf, path); }
int prf_open(struct prf *prf, const char *path, long nrows) { g_fo_p = c13w_path(path); return c13_base_prf_open(prf, path, nrows); }
#include "pv/pvt.c"          /* the real /repo/src/emu/pv/pvt.c */
#include "model_pvt.c"       /* the real /repo/src/emu/model_pvt.c */

#ifndef MAXCH
#define MAXCH 1000000        /* channels of one model: any count up to 10^6 (the largest real spec has 11) */
#endif

/* =====================================================================================
 * pvt_open / pvt_advance / pvt_close
 * ===================================================================================== */
int c_pvt_open(struct pvt *pvt, long nrows, const char *dir, const char *name)
__CPROVER_requires(__CPROVER_is_fresh(pvt, sizeof(struct pvt)) && DIAG_PRE && LOW_PRE && PVT_ZERO && g_snp_n == 0)
__CPROVER_assigns(*pvt, DIAG_FRAME, g_lowfail, g_snp_ret, g_snp_n, PVT_FRAME, SF_FRAME, PATH_FRAME)
__CPROVER_ensures((RV == 0) == (g_lowfail == OLD(g_lowfail)))
__CPROVER_ensures(RV == 0 || (RV == -1 && g_err > OLD(g_err)))
/* one .prv, one .pcf, one .row, all three inside this pvt; the .prv and the .row get the same declared row count */
__CPROVER_ensures(RV != 0 || (g_po_n == 1 && g_co_n == 1 && g_fo_n == 1 &&
	g_po_prv == &pvt->prv && g_co_pcf == &pvt->pcf && g_fo_prf == &pvt->prf &&
	g_po_nrows == nrows && g_fo_nrows == nrows))
/* WHICH file: each writer is opened under the path formatted for IT from the two parameters -- <dir>/<name>.prv for
 * the trace, <dir>/<name>.pcf for the configuration, <dir>/<name>.row for the row names (pvt.c); this holds for
 * every open that is attempted, also when a later step refuses */
__CPROVER_ensures(g_po_n == 0 || (g_po_p.kind == F_PRV && g_po_p.a0 == (const void *) dir && g_po_p.a1 == (const void *) name))
__CPROVER_ensures(g_co_n == 0 || (g_co_p.kind == F_PCF && g_co_p.a0 == (const void *) dir && g_co_p.a1 == (const void *) name))
__CPROVER_ensures(g_fo_n == 0 || (g_fo_p.kind == F_ROW && g_fo_p.a0 == (const void *) dir && g_fo_p.a1 == (const void *) name))
/* accepted: five formattings; the pvt remembers its directory and its name ("%s" of the parameter into its field) */
__CPROVER_ensures(RV != 0 || (g_snp_n == 5 &&
	g_sf0.dst == pvt->dir && g_sf0.kind == F_S && g_sf0.a0 == (const void *) dir &&
	g_sf1.dst == pvt->name && g_sf1.kind == F_S && g_sf1.a0 == (const void *) name))
;
void h_pvt_open(void)
{
	struct pvt *pvt; long nrows; const char *dir, *name;
	int r = pvt_open(pvt, nrows, dir, name);
	if (r == 0) REACH("pvt_open accepted");
	if (r != 0) REACH("pvt_open refused");
	if (r != 0 && g_fo_n == 1) REACH("refused by the row file, opened last");
}

int c_pvt_advance(struct pvt *pvt, int64_t time)
__CPROVER_requires(__CPROVER_is_fresh(pvt, sizeof(struct pvt)) && PVT_ZERO)
__CPROVER_assigns(g_pa_n, g_pa_prv, g_pa_time, g_pa_ret)
__CPROVER_ensures(g_pa_n == 1 && g_pa_prv == &pvt->prv && g_pa_time == time && RV == g_pa_ret)
;
void h_pvt_advance(void)
{
	struct pvt *pvt; int64_t time;
	int r = pvt_advance(pvt, time);
	if (r == 0) REACH("advance accepted");
	if (r != 0) REACH("advance refused");
}

int c_pvt_close(struct pvt *pvt)
__CPROVER_requires(__CPROVER_is_fresh(pvt, sizeof(struct pvt)) && DIAG_PRE && LOW_PRE && PVT_ZERO)
__CPROVER_assigns(DIAG_FRAME, g_lowfail, PVT_FRAME)
__CPROVER_ensures((RV == 0) == (g_lowfail == OLD(g_lowfail)))
__CPROVER_ensures(RV == 0 || (RV == -1 && g_err > OLD(g_err)))
/* accepted: each of the three files of this pvt is closed exactly once */
__CPROVER_ensures(RV != 0 || (g_pc_n == 1 && g_cc_n == 1 && g_fc_n == 1 &&
	g_pc_prv == &pvt->prv && g_cc_pcf == &pvt->pcf && g_fc_prf == &pvt->prf))
;
void h_pvt_close(void)
{
	struct pvt *pvt;
	int r = pvt_close(pvt);
	if (r == 0) REACH("pvt_close accepted");
	if (r != 0) REACH("pvt_close refused");
}

/* =====================================================================================
 * connect_thread_prv / connect_cpu_prv (unbounded in the number of channels, loop contracts):
 * call number k of prv_register carries type[k], the gindex row, flags[k] (0 without a table),
 * the bay of the emulator and the output of track k.
 * ===================================================================================== */
#define SPEC_OBJ(M) ( \
	__CPROVER_is_fresh((M)->spec, sizeof(*(M)->spec)) && \
	__CPROVER_is_fresh((M)->spec->chan, sizeof(struct model_chan_spec)) && \
	(M)->spec->chan->nch >= 0 && (M)->spec->chan->nch <= MAXCH && \
	__CPROVER_is_fresh((M)->spec->chan->pvt, sizeof(struct model_pvt_spec)) && \
	__CPROVER_is_fresh((M)->spec->chan->pvt->type, (size_t) (M)->spec->chan->nch * sizeof(int)) && \
	((M)->spec->chan->pvt->flags == NULL || __CPROVER_is_fresh((M)->spec->chan->pvt->flags, (size_t) (M)->spec->chan->nch * sizeof(long))))
#define NCH(M) ((M)->spec->chan->nch)
#define OBS_K(M) (NCH(M) == 0 || (g_k >= 0 && g_k < NCH(M)))
#define CONNECT_ENS(M, S, emu, prv, id) ( \
	((RV == 0) == (g_lowfail == OLD(g_lowfail))) && (RV == 0 || (RV == -1 && g_err > OLD(g_err))) && \
	g_ext_n == OLD(g_ext_n) + 1 && g_ext_arg == &(S)->ext && g_ext_id == (id) && \
	(RV != 0 || g_reg_n == NCH(M)) && \
	(RV != 0 || NCH(M) == 0 || ( \
		g_o_type == (M)->spec->chan->pvt->type[g_k] && g_o_row == (long) (S)->gindex && g_o_prv == (void *) (prv) && \
		g_o_bay == (void *) &(emu)->bay && g_o_chan == (void *) &(M)->track[g_k] && \
		g_o_flags == ((M)->spec->chan->pvt->flags == NULL ? 0 : (M)->spec->chan->pvt->flags[g_k]))))

#define MTH ((struct model_thread *) g_ext_ret)
int c_connect_thread_prv(struct emu *emu, struct thread *sth, struct prv *prv, int id)
__CPROVER_requires(__CPROVER_is_fresh(sth, sizeof(struct thread)) && __CPROVER_is_fresh(g_ext_ret, sizeof(struct model_thread)))
__CPROVER_requires(SPEC_OBJ(MTH) && __CPROVER_is_fresh(MTH->track, (size_t) NCH(MTH) * sizeof(struct track)) && OBS_K(MTH) && g_reg_n == 0 && DIAG_PRE && LOW_PRE && g_ext_n < 1000000u)
__CPROVER_assigns(REG_FRAME, DIAG_FRAME, g_lowfail, g_ext_n, g_ext_arg, g_ext_id)
__CPROVER_ensures(CONNECT_ENS(MTH, sth, emu, prv, id))
;
void h_connect_thread_prv(void)
{
	struct emu *emu; struct thread *sth; struct prv *prv; int id;
	int r = connect_thread_prv(emu, sth, prv, id);
	if (r == 0 && g_reg_n == 0) REACH("model without channels");
	if (r == 0 && g_reg_n == 11 && g_k == 10) REACH("11 channels connected, last one observed");
	if (r == 0 && g_reg_n > 1 && g_o_flags != 0) REACH("channel with flags");
	if (r != 0) REACH("prv_register failure propagated");
}

#define MCPU ((struct model_cpu *) g_ext_ret)
int c_connect_cpu_prv(struct emu *emu, struct cpu *scpu, struct prv *prv, int id)
__CPROVER_requires(__CPROVER_is_fresh(scpu, sizeof(struct cpu)) && __CPROVER_is_fresh(g_ext_ret, sizeof(struct model_cpu)))
__CPROVER_requires(SPEC_OBJ(MCPU) && __CPROVER_is_fresh(MCPU->track, (size_t) NCH(MCPU) * sizeof(struct track)) && OBS_K(MCPU) && g_reg_n == 0 && DIAG_PRE && LOW_PRE && g_ext_n < 1000000u)
__CPROVER_assigns(REG_FRAME, DIAG_FRAME, g_lowfail, g_ext_n, g_ext_arg, g_ext_id)
__CPROVER_ensures(CONNECT_ENS(MCPU, scpu, emu, prv, id))
;
void h_connect_cpu_prv(void)
{
	struct emu *emu; struct cpu *scpu; struct prv *prv; int id;
	int r = connect_cpu_prv(emu, scpu, prv, id);
	if (r == 0 && g_reg_n == 0) REACH("model without channels");
	if (r == 0 && g_reg_n == 11 && g_k == 10) REACH("11 channels connected, last one observed");
	if (r != 0) REACH("prv_register failure propagated");
}

/* =====================================================================================
 * init_pcf (create_type inline): every type[k] != -1 is declared in pcf.
 * Bounded: nch <= NB channels (the largest model spec of the emulator has 11); the bound comes from
 * "every track mode of the table is a valid enum track_th", which needs a quantifier otherwise.
 * ===================================================================================== */
#define NB 12
#define TRK1(C, k) ((C)->nch <= (k) || ((C)->track[k] >= 0 && (C)->track[k] < TRACK_TH_MAX))
#define TRK_OK(C) (TRK1(C, 0) && TRK1(C, 1) && TRK1(C, 2) && TRK1(C, 3) && TRK1(C, 4) && TRK1(C, 5) && \
	TRK1(C, 6) && TRK1(C, 7) && TRK1(C, 8) && TRK1(C, 9) && TRK1(C, 10) && TRK1(C, 11))
/* create_values is proved separately (group create_values); here: called with the type object
 * that pcf_add_type returned, may fail */
int g_cv_n;
int g_cv_k_n;                 /* value-table passes made for the OBSERVED channel index g_k */
const void *g_cv_pvt;         /* the per-channel tables of the spec under proof */
int cr_create_values(const struct model_pvt_spec *pvt, struct pcf_type *t, int i)
__CPROVER_requires(t == &g_type_obj && i >= 0)
/* asserted at the call site: the label tables are looked up in the tables of THIS spec */
__CPROVER_requires((const void *) pvt == g_cv_pvt && g_cv_k_n >= 0 && g_cv_k_n < 1000000)
__CPROVER_assigns(g_cv_n, g_cv_k_n, g_lowfail, DIAG_FRAME)
__CPROVER_ensures(g_cv_n == OLD(g_cv_n) + 1)
__CPROVER_ensures(g_cv_k_n == OLD(g_cv_k_n) + (i == g_k))
__CPROVER_ensures(RV == 0 || (RV == -1 && g_lowfail == OLD(g_lowfail) + 1))
__CPROVER_ensures(RV != 0 || g_lowfail == OLD(g_lowfail))
__CPROVER_ensures(g_err == OLD(g_err) && g_diag == OLD(g_diag) && g_warn == OLD(g_warn))
;
#define CHAN_OBJ(C) ( \
	__CPROVER_is_fresh(C, sizeof(struct model_chan_spec)) && (C)->nch >= 0 && (C)->nch <= MAXCH && \
	__CPROVER_is_fresh((C)->pvt, sizeof(struct model_pvt_spec)) && \
	__CPROVER_is_fresh((C)->pvt->type, (size_t) (C)->nch * sizeof(int)) && \
	__CPROVER_is_fresh((C)->pvt->prefix, (size_t) (C)->nch * sizeof(char *)) && \
	__CPROVER_is_fresh((C)->track, (size_t) (C)->nch * sizeof(int)))
int c_init_pcf(const struct model_chan_spec *chan, struct pcf *pcf)
__CPROVER_requires(CHAN_OBJ(chan) && chan->nch <= NB && TRK_OK(chan) && (chan->nch == 0 || (g_k >= 0 && g_k < chan->nch)))
__CPROVER_requires(DIAG_PRE && LOW_PRE && g_snp_n < 1000000u)
__CPROVER_requires(g_seen == 0 && g_cv_n == 0 && g_addtype_n == 0 && g_want_pcf == (void *) pcf && (chan->nch == 0 || g_want_id == chan->pvt->type[g_k]))
__CPROVER_requires(g_l.n == 0 && g_cv_k_n == 0 && g_cv_pvt == (const void *) chan->pvt)
__CPROVER_assigns(DIAG_FRAME, g_lowfail, g_snp_ret, g_snp_n, g_seen, g_addtype_n, g_cv_n, g_cv_k_n, SF_FRAME, LAB_FRAME)
__CPROVER_ensures((RV == 0) == (g_lowfail == OLD(g_lowfail)))
__CPROVER_ensures(RV == 0 || (RV == -1 && g_err > OLD(g_err)))
/* accepted: the observed channel's type is declared in this pcf, unless it is the "no type" marker -1 */
__CPROVER_ensures(RV != 0 || chan->nch == 0 || chan->pvt->type[g_k] == -1 || g_seen == 1)
/* never more declarations than channels; values are created once per declared type */
__CPROVER_ensures(RV != 0 || (g_addtype_n <= chan->nch && g_cv_n == g_addtype_n))
/* accepted: the type of an ARBITRARY channel k uses the k-th entry of EVERY per-channel table: it is declared
 * under the label formatted "%s %s" from prefix[k] and the suffix of track mode track[k] (the buffer handed to
 * pcf_add_type is the one just formatted), and its values come from label table k (create_values with index k, once);
 * a channel without type gets neither.  (g_l.n counts the declarations carrying type[k]: when the id occurs once in
 * the table -- type ids are unique in every real spec, pcf_add_type refuses a second declaration -- that single
 * declaration is channel k's, see the g_seen clause; with a duplicated id "the declaration of k" is not observable) */
__CPROVER_ensures(RV != 0 || chan->nch == 0 || chan->pvt->type[g_k] == -1 || g_l.n != 1 ||
	(g_l.isbuf && g_l.kind == F_LABEL && g_l.a0 == (const void *) chan->pvt->prefix[g_k] &&
	 g_l.a1 == (const void *) pcf_suffix[chan->track[g_k]]))
__CPROVER_ensures(RV != 0 || chan->nch == 0 || g_cv_k_n == (chan->pvt->type[g_k] != -1))
;
void h_init_pcf(void)
{
	const struct model_chan_spec *chan; struct pcf *pcf;
	int r = init_pcf(chan, pcf);
	/* (one REACH for both: each failing REACH is a solver call) */
	if (r == 0 && g_seen && g_l.n == 1 && g_k == 2 && g_addtype_n == 3) REACH("observed type declared: third of three declared types, its id occurs once");
	if (r == 0 && !g_seen && g_addtype_n > 0) REACH("observed channel has no type (-1), others do");
	if (r == 0 && g_addtype_n == 0 && g_cv_n == 0) REACH("nothing to declare");
	if (r != 0) REACH("failure propagated");
}

/* =====================================================================================
 * create_values (bounded: label tables of at most 3 entries + terminator)
 * ===================================================================================== */
#define MAXLAB 3
int g_len;    /* entries before the terminator */
int g_has_tab;
#define TAB (pvt->label[i])
int c_create_values(const struct model_pvt_spec *pvt, struct pcf_type *t, int i)
__CPROVER_requires(__CPROVER_is_fresh(pvt, sizeof(*pvt)) && i >= 0 && i < 64 && __CPROVER_is_fresh(pvt->label, 64 * sizeof(void *)))
__CPROVER_requires(TAB == NULL || __CPROVER_is_fresh(TAB, (MAXLAB + 1) * sizeof(struct pcf_value_label)))
__CPROVER_requires(g_has_tab == (TAB != NULL) && g_len >= 0 && g_len <= MAXLAB)
/* g_len is the position of the terminator */
__CPROVER_requires(TAB == NULL || (TAB[g_len].label == NULL &&
	(g_len < 1 || TAB[0].label != NULL) && (g_len < 2 || TAB[1].label != NULL) && (g_len < 3 || TAB[2].label != NULL)))
__CPROVER_requires((TAB == NULL || g_len == 0 || (g_j >= 0 && g_j < g_len)) && g_addval_n == 0 && DIAG_PRE && LOW_PRE)
__CPROVER_assigns(g_addval_n, g_v_value, g_v_type, g_v_label, g_lowfail, DIAG_FRAME)
__CPROVER_ensures((RV == 0) == (g_lowfail == OLD(g_lowfail)))
__CPROVER_ensures(RV == 0 || (RV == -1 && g_err > OLD(g_err)))
/* accepted: one pcf_add_value per table entry, in order, on the given type; entry j passes its value and label */
__CPROVER_ensures(RV != 0 || g_addval_n == (TAB == NULL ? 0 : g_len))
__CPROVER_ensures(RV != 0 || TAB == NULL || g_len == 0 || (g_v_type == (void *) t && g_v_value == (int) TAB[g_j].value && g_v_label == (void *) TAB[g_j].label))
;
void h_create_values(void)
{
	const struct model_pvt_spec *pvt; struct pcf_type *t; int i;
	int r = create_values(pvt, t, i);
	if (r == 0 && !g_has_tab) REACH("channel without label table");
	if (r == 0 && g_has_tab && g_len == 0) REACH("empty label table");
	if (r == 0 && g_has_tab && g_len == 3 && g_j == 2) REACH("three labels, last observed");
	if (r != 0) REACH("pcf_add_value failure propagated");
}

/* =====================================================================================
 * model_pvt_connect_thread / _cpu (bounded: at most 2 threads / CPUs in the global list):
 * all rows go to the prv of the pvt named "thread" / "cpu", and the types are declared in the pcf
 * of that same pvt.
 * ===================================================================================== */
void *g_c_emu, *g_c_prv, *g_c_pcf, *g_c_chan, *g_s1, *g_s2; int g_c_id; int g_conn_n, g_initpcf_n;
int cr_connect_thread_prv(struct emu *emu, struct thread *sth, struct prv *prv, int id)
__CPROVER_requires((void *) emu == g_c_emu && (void *) prv == g_c_prv && id == g_c_id)
__CPROVER_requires((g_conn_n == 0 && (void *) sth == g_s1) || (g_conn_n == 1 && (void *) sth == g_s2))
__CPROVER_assigns(g_conn_n, g_lowfail)
__CPROVER_ensures(g_conn_n == OLD(g_conn_n) + 1)
__CPROVER_ensures((RV == 0 && g_lowfail == OLD(g_lowfail)) || (RV == -1 && g_lowfail == OLD(g_lowfail) + 1))
;
int cr_connect_cpu_prv(struct emu *emu, struct cpu *scpu, struct prv *prv, int id)
__CPROVER_requires((void *) emu == g_c_emu && (void *) prv == g_c_prv && id == g_c_id)
__CPROVER_requires((g_conn_n == 0 && (void *) scpu == g_s1) || (g_conn_n == 1 && (void *) scpu == g_s2))
__CPROVER_assigns(g_conn_n, g_lowfail)
__CPROVER_ensures(g_conn_n == OLD(g_conn_n) + 1)
__CPROVER_ensures((RV == 0 && g_lowfail == OLD(g_lowfail)) || (RV == -1 && g_lowfail == OLD(g_lowfail) + 1))
;
int cr_init_pcf(const struct model_chan_spec *chan, struct pcf *pcf)
__CPROVER_requires((void *) chan == g_c_chan && (void *) pcf == g_c_pcf)
__CPROVER_assigns(g_initpcf_n, g_lowfail)
__CPROVER_ensures(g_initpcf_n == OLD(g_initpcf_n) + 1)
__CPROVER_ensures((RV == 0 && g_lowfail == OLD(g_lowfail)) || (RV == -1 && g_lowfail == OLD(g_lowfail) + 1))
;
int g_nthr;   /* length of the global list */
#define EMU_OBJ(emu) (__CPROVER_is_fresh(emu, sizeof(struct emu)))
#define MSPEC_OBJ(spec) (__CPROVER_is_fresh(spec, sizeof(*(spec))) && __CPROVER_is_fresh((spec)->model, sizeof(struct model_spec)))
#define CONN_BIND(emu, spec) (g_c_emu == (void *) (emu) && g_c_id == (spec)->model->model && g_c_chan == (void *) (spec)->chan && \
	(g_pvt == NULL || (g_c_prv == (void *) &g_pvt->prv && g_c_pcf == (void *) &g_pvt->pcf)) && \
	g_conn_n == 0 && g_initpcf_n == 0 && g_find_n == 0 && DIAG_PRE && LOW_PRE)
#define CONN_ENS(emu, c) ( \
	((RV == 0) == (g_pvt != NULL && g_lowfail == OLD(g_lowfail))) && (RV == 0 || (RV == -1 && g_err > OLD(g_err))) && \
	/* the pvt is looked up once, in the recorder of this emulator, under the expected name */ \
	g_find_n == 1 && g_find_rec == (void *) &(emu)->recorder && g_find_c == (c) && \
	/* accepted: every element of the global list was connected, then the types were declared once */ \
	(RV != 0 || (g_conn_n == g_nthr && g_initpcf_n == 1)))
#define CONN_FRAME g_conn_n, g_initpcf_n, g_lowfail, g_find_n, g_find_rec, g_find_c, DIAG_FRAME

int c_model_pvt_connect_thread(struct emu *emu, const struct model_thread_spec *spec)
__CPROVER_requires(EMU_OBJ(emu) && MSPEC_OBJ(spec) && (g_pvt == NULL || __CPROVER_is_fresh(g_pvt, sizeof(struct pvt))))
__CPROVER_requires(emu->system.threads == NULL || (__CPROVER_is_fresh(emu->system.threads, sizeof(struct thread)) &&
	(emu->system.threads->gnext == NULL || (__CPROVER_is_fresh(emu->system.threads->gnext, sizeof(struct thread)) && emu->system.threads->gnext->gnext == NULL))))
__CPROVER_requires(g_nthr == (emu->system.threads == NULL ? 0 : (emu->system.threads->gnext == NULL ? 1 : 2)))
__CPROVER_requires(g_s1 == (void *) emu->system.threads && (g_nthr < 2 || g_s2 == (void *) emu->system.threads->gnext))
__CPROVER_requires(CONN_BIND(emu, spec))
__CPROVER_assigns(CONN_FRAME)
__CPROVER_ensures(CONN_ENS(emu, 't'))
;
void h_model_pvt_connect_thread(void)
{
	struct emu *emu; const struct model_thread_spec *spec;
	int r = model_pvt_connect_thread(emu, spec);
	if (r == 0 && g_nthr == 2) REACH("two threads connected");
	if (r == 0 && g_nthr == 0) REACH("no threads");
	if (r != 0 && g_pvt == NULL) REACH("no thread pvt: refused");
	if (r != 0 && g_pvt != NULL) REACH("lower failure propagated");
}

int c_model_pvt_connect_cpu(struct emu *emu, const struct model_cpu_spec *spec)
__CPROVER_requires(EMU_OBJ(emu) && MSPEC_OBJ(spec) && (g_pvt == NULL || __CPROVER_is_fresh(g_pvt, sizeof(struct pvt))))
__CPROVER_requires(emu->system.cpus == NULL || (__CPROVER_is_fresh(emu->system.cpus, sizeof(struct cpu)) &&
	(emu->system.cpus->next == NULL || (__CPROVER_is_fresh(emu->system.cpus->next, sizeof(struct cpu)) && emu->system.cpus->next->next == NULL))))
__CPROVER_requires(g_nthr == (emu->system.cpus == NULL ? 0 : (emu->system.cpus->next == NULL ? 1 : 2)))
__CPROVER_requires(g_s1 == (void *) emu->system.cpus && (g_nthr < 2 || g_s2 == (void *) emu->system.cpus->next))
__CPROVER_requires(CONN_BIND(emu, spec))
__CPROVER_assigns(CONN_FRAME)
__CPROVER_ensures(CONN_ENS(emu, 'c'))
;
void h_model_pvt_connect_cpu(void)
{
	struct emu *emu; const struct model_cpu_spec *spec;
	int r = model_pvt_connect_cpu(emu, spec);
	if (r == 0 && g_nthr == 2) REACH("two CPUs connected");
	if (r == 0 && g_nthr == 0) REACH("no CPUs");
	if (r != 0 && g_pvt == NULL) REACH("no cpu pvt: refused");
	if (r != 0 && g_pvt != NULL) REACH("lower failure propagated");
}
