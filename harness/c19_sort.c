/* C19 -- ovnisort.c: the functions that walk a region of the stream buffer event by event
 * (find_min_clock, count_events, index_events, write_events).  BOUNDED stand-in: the region
 * holds 1..3 whole non-jumbo events (12..28 bytes each), i.e. events that stream_step
 * accepted.  The region is the LAST g_total bytes of an 84-byte object (a symbolic-size object
 * of <= 84 bytes exhausts the solver's memory: measured), so that any read past the end of
 * the region is outside the object; content arbitrary otherwise.  (Jumbo events are outside the bound: CBMC checks the 4-byte read of
 * payload.jumbo.size as a 16-byte access, see c19_stream.c.) */
#include "prelude.h"
#include "ovnisort.c"      /* the real /repo/src/emu/ovnisort.c */
#include "ovni.c"          /* ovni_ev_size on the region bytes */
#define RET __CPROVER_return_value

#define NORMAL_PSIZE(fl) ((((fl) & 0x0f) == 0) ? 0 : (((fl) & 0x0f) + 1))
#define EVSZ(fl) (12L + NORMAL_PSIZE(fl))
int g_n; long g_s1, g_s2, g_s3, g_total;
/* REGION_WF: n in 1..3, event i starts where event i-1 ends, no jumbo flag, sizes sum to total */
uint8_t *g_base;
#define REGION_SHAPE(buf) (g_n >= 1 && g_n <= 3 && g_total >= 12 && g_total <= 84 && __CPROVER_is_fresh(g_base, 84) && \
	__CPROVER_pointer_equals(buf, g_base + (84 - g_total)))
#define REGION_VALS(buf) ( \
	!((buf)[0] & OVNI_EV_JUMBO) && g_s1 == EVSZ((buf)[0]) && \
	(g_n < 2 ? g_s2 == 0 : (g_total >= g_s1 + 12 && !((buf)[g_s1] & OVNI_EV_JUMBO) && g_s2 == EVSZ((buf)[g_s1]))) && \
	(g_n < 3 ? g_s3 == 0 : (g_total >= g_s1 + g_s2 + 12 && !((buf)[g_s1 + g_s2] & OVNI_EV_JUMBO) && g_s3 == EVSZ((buf)[g_s1 + g_s2]))) && \
	g_total == g_s1 + g_s2 + g_s3)

int w_n; long w_total;
WITNESS(count_events);
long c_count_events(uint8_t *src, uint8_t *end)
__CPROVER_requires(REGION_SHAPE(src) && __CPROVER_pointer_equals(end, src + g_total))
__CPROVER_requires(REGION_VALS(src) && WBIND(count_events, w_n == g_n && w_total == g_total))
__CPROVER_assigns()
__CPROVER_ensures(RET == g_n)
;
void h_count_events(void)
{
	uint8_t *src, *end;
	WITNESS_ON(count_events);
	long n = count_events(src, end);
	if (n == 3 && w_total == 84) REACH("three 28-byte events counted");
	if (n == 1 && w_total == 12) REACH("one 12-byte event counted");
}

WITNESS(find_min_clock);
uint64_t c_find_min_clock(uint8_t *src, uint8_t *end)
__CPROVER_requires(REGION_SHAPE(src) && __CPROVER_pointer_equals(end, src + g_total))
__CPROVER_requires(REGION_VALS(src) && WBIND(find_min_clock, w_n == g_n && w_total == g_total))
__CPROVER_assigns()
__CPROVER_ensures(RET <= *(uint64_t *) (src + 4))
__CPROVER_ensures(g_n < 2 || RET <= *(uint64_t *) (src + g_s1 + 4))
__CPROVER_ensures(g_n < 3 || RET <= *(uint64_t *) (src + g_s1 + g_s2 + 4))
;
void h_find_min_clock(void)
{
	uint8_t *src, *end;
	WITNESS_ON(find_min_clock);
	uint64_t c = find_min_clock(src, end);
	if (w_n == 3) REACH("minimum over three events");
	if (w_n == 1 && c == 0xffffffffffffffffUL) REACH("largest clock value");
}

WITNESS(index_events);
void c_index_events(struct ovni_ev **table, long n, uint8_t *buf)
__CPROVER_requires(REGION_SHAPE(buf) && n == g_n && __CPROVER_is_fresh(table, (size_t) n * sizeof(struct ovni_ev *)))
__CPROVER_requires(REGION_VALS(buf) && WBIND(index_events, w_n == g_n && w_total == g_total))
__CPROVER_assigns(__CPROVER_object_whole(table))
__CPROVER_ensures(table[0] == (struct ovni_ev *) buf)
__CPROVER_ensures(g_n < 2 || table[1] == (struct ovni_ev *) (buf + g_s1))
__CPROVER_ensures(g_n < 3 || table[2] == (struct ovni_ev *) (buf + g_s1 + g_s2))
;
void h_index_events(void)
{
	struct ovni_ev **table; long n; uint8_t *buf;
	WITNESS_ON(index_events);
	index_events(table, n, buf);
	if (w_n == 3) REACH("three events indexed");
}

/* write_events: table is any permutation-free selection of events of the region copy (what
 * qsort leaves: each entry points to the start of some event of `src`); the output buffer has
 * exactly the region size.  Bounded to n == number of events, each entry a distinct event. */
int g_p0, g_p1, g_p2;   /* which event each table entry points to */
#define OFF_OF(k) ((k) == 0 ? 0L : (k) == 1 ? g_s1 : g_s1 + g_s2)
#define IS_PERM (g_p0 >= 0 && g_p0 < g_n && (g_n < 2 || (g_p1 >= 0 && g_p1 < g_n && g_p1 != g_p0)) && \
	(g_n < 3 || (g_p2 >= 0 && g_p2 < g_n && g_p2 != g_p0 && g_p2 != g_p1)))
uint8_t *g_src;
WITNESS(write_events);
void c_write_events(struct ovni_ev **table, long n, uint8_t *buf)
__CPROVER_requires(REGION_SHAPE(g_src) && n == g_n && __CPROVER_is_fresh(table, (size_t) n * sizeof(struct ovni_ev *)) &&
	__CPROVER_is_fresh(buf, (size_t) g_total))
__CPROVER_requires(REGION_VALS(g_src) && IS_PERM && WBIND(write_events, w_n == g_n && w_total == g_total))
__CPROVER_requires(__CPROVER_pointer_equals(table[0], (struct ovni_ev *) (g_src + OFF_OF(g_p0))))
__CPROVER_requires(g_n < 2 || __CPROVER_pointer_equals(table[1], (struct ovni_ev *) (g_src + OFF_OF(g_p1))))
__CPROVER_requires(g_n < 3 || __CPROVER_pointer_equals(table[2], (struct ovni_ev *) (g_src + OFF_OF(g_p2))))
__CPROVER_assigns(__CPROVER_object_whole(buf))
/* the first event written is the one table[0] points to */
__CPROVER_ensures(buf[0] == g_src[OFF_OF(g_p0)] && buf[1] == g_src[OFF_OF(g_p0) + 1])
;
void h_write_events(void)
{
	struct ovni_ev **table; long n; uint8_t *buf;
	WITNESS_ON(write_events);
	write_events(table, n, buf);
	if (w_n == 3 && g_p0 == 2) REACH("three events written in another order");
	if (w_n == 3 && w_total == 84) REACH("84 bytes written");
}
