/* C20 -- sort_init (src/emu/sort.c): the row channels of the breakdown are created so that the
 * sort module can keep "rows == sorted multiset" at every instant:
 *  - single-value channels, registered in the bay;
 *  - DIRTY_WRITE: several inputs may change in one propagation, so a row may be written twice;
 *  - ALLOW_DUP and NOT IGNORE_DUP: a write that puts back the value the row showed at the last
 *    flush (row goes A -> B -> A inside one propagation, e.g. two CPUs swapping values) must be
 *    performed, not refused and not silently dropped.
 * Bounded: n <= 2 rows.  Assume/assert harness on the real code; chan.c and bay.c are other
 * units: chan_init / chan_prop_set / bay_register are logging stubs. */
#include "prelude.h"
#include "chan.h"
#include "bay.h"

#define NLOG 8
struct chan *g_init_ch[NLOG]; int g_init_type[NLOG]; int g_ninit;
struct chan *g_prop_ch[NLOG]; int g_prop[NLOG]; int g_propval[NLOG]; int g_nprop;
struct chan *g_reg_ch[NLOG]; int g_nreg; int g_reg_failed;

void verif_chan_init(struct chan *ch, enum chan_type type)
{
	if (g_ninit < NLOG) { g_init_ch[g_ninit] = ch; g_init_type[g_ninit] = (int) type; }
	g_ninit++;
}
#define chan_init(ch, type, ...) verif_chan_init((ch), (type))
void chan_prop_set(struct chan *ch, enum chan_prop prop, int value)
{
	if (g_nprop < NLOG) { g_prop_ch[g_nprop] = ch; g_prop[g_nprop] = (int) prop; g_propval[g_nprop] = value; }
	g_nprop++;
}
int bay_register(struct bay *bay, struct chan *ch)
{
	(void) bay;
	if (g_nreg < NLOG) g_reg_ch[g_nreg] = ch;
	g_nreg++;
	int r = nondet_int();
	if (r != 0) g_reg_failed = 1;
	return r;
}

#include "sort.c"

#ifdef H_SORT_INIT
static int prop_of(struct chan *ch, int prop)
{
	/* last value set for (ch, prop), or 0 (chan_init clears the properties) */
	int v = 0;
	for (int k = 0; k < NLOG; k++)
		if (k < g_nprop && g_prop_ch[k] == ch && g_prop[k] == prop) v = g_propval[k];
	return v;
}
void h_sort_init(void)
{
	struct sort *sort = malloc(sizeof(*sort));
	struct bay *bay = malloc(sizeof(*bay));
	__CPROVER_assume(sort && bay);
	int64_t n = nondet_long();
	__CPROVER_assume(n >= 1 && n <= 2);
	g_ninit = g_nprop = g_nreg = 0; g_reg_failed = 0; g_err = 0;
	int r = sort_init(sort, bay, n, "x");
	if (r == 0) {
		VASSERT(!g_reg_failed, "accepted only if every row was registered");
		VASSERT(sort->n == n && sort->bay == bay && sort->outputs != NULL && sort->values != NULL && sort->sorted != NULL && sort->inputs != NULL, "tables allocated for n rows");
		VASSERT(g_ninit == n && g_nreg == n, "each row channel is initialised and registered exactly once");
		for (int i = 0; i < 2; i++) {
			if (i >= n) continue;
			struct chan *out = &sort->outputs[i];
			VASSERT(g_init_ch[i] == out && g_init_type[i] == CHAN_SINGLE, "row i is a single-value channel");
			VASSERT(g_reg_ch[i] == out, "row i is registered in the bay");
			VASSERT(prop_of(out, CHAN_DIRTY_WRITE) == 1, "row channels accept several writes per propagation (DIRTY_WRITE)");
			VASSERT(prop_of(out, CHAN_ALLOW_DUP) == 1, "a write restoring the value shown at the last flush is allowed (ALLOW_DUP)");
			VASSERT(prop_of(out, CHAN_IGNORE_DUP) == 0, "... and is performed, not silently dropped (no IGNORE_DUP)");
		}
		REACH("sort_init accepted");
		if (n == 2) REACH("two rows");
	} else {
		VASSERT(g_err > 0, "a refusal is diagnosed");
		REACH("sort_init refused");
	}
}
#endif
