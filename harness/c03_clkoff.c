/* C03 -- corrected time: the clock offset of a host reaches EVERY loom of that host and, through
 * init_offsets, every stream of those looms (src/emu/system.c parse_clkoff_entry, init_offsets).
 * Bounded: 3 looms, hostnames of <= 2 characters (real strcmp semantics through CBMC's model).
 * Assume/assert harness on the real code. */
#include "prelude.h"
#include "system.c"               /* the real /repo/src/emu/system.c */

#ifdef H_PARSE_CLKOFF_ENTRY
/* replay witnesses: number of looms, host name bytes of the looms and of the table line, old offsets, offset of the line */
int w_pc_nl, w_pc_h00, w_pc_h01, w_pc_h10, w_pc_h11, w_pc_h20, w_pc_h21, w_pc_e0, w_pc_e1;
long w_pc_old0, w_pc_old1, w_pc_old2, w_pc_want;
void h_parse_clkoff_entry(void)
{
	struct loom *l0 = malloc(sizeof(struct loom)), *l1 = malloc(sizeof(struct loom)), *l2 = malloc(sizeof(struct loom));
	struct clkoff_entry *e = malloc(sizeof(struct clkoff_entry));
	__CPROVER_assume(l0 && l1 && l2 && e);
	struct loom *L[3] = { l0, l1, l2 };
	int nl = nondet_int(); __CPROVER_assume(nl >= 1 && nl <= 3);
	for (int i = 0; i < 3; i++) {
		L[i]->hostname[0] = nondet_char(); L[i]->hostname[1] = nondet_char(); L[i]->hostname[2] = 0;
		__CPROVER_assume(L[i]->hostname[0] != 0);
		L[i]->next = (i + 1 < nl) ? L[i + 1] : NULL;
	}
	e->name[0] = nondet_char(); e->name[1] = nondet_char(); e->name[2] = 0;
	__CPROVER_assume(e->name[0] != 0);
	/* offsets come from the table as doubles; keep them convertible (observation O2 otherwise) */
	__CPROVER_assume(e->median > -1e15 && e->median < 1e15);
	int64_t want = (int64_t) e->median;
	int64_t old[3]; int match[3]; int nmatch = 0, taken = 0;
	for (int i = 0; i < 3; i++) {
		old[i] = L[i]->clock_offset;
		match[i] = i < nl && L[i]->hostname[0] == e->name[0] && L[i]->hostname[1] == e->name[1];
		if (match[i]) { nmatch++; if (old[i] != 0) taken = 1; }
	}
	w_pc_nl = nl; w_pc_h00 = L[0]->hostname[0]; w_pc_h01 = L[0]->hostname[1]; w_pc_h10 = L[1]->hostname[0]; w_pc_h11 = L[1]->hostname[1];
	w_pc_h20 = L[2]->hostname[0]; w_pc_h21 = L[2]->hostname[1]; w_pc_e0 = e->name[0]; w_pc_e1 = e->name[1];
	w_pc_old0 = old[0]; w_pc_old1 = old[1]; w_pc_old2 = old[2]; w_pc_want = want;
	g_err = 0;
	int r = parse_clkoff_entry(l0, e);
	VASSERT((r == 0) == (nmatch > 0 && !taken), "accepted iff some loom is on that host and none of them already has an offset");
	VASSERT(r == 0 || g_err > 0, "a refusal is diagnosed");
	if (r == 0) {
		for (int i = 0; i < 3; i++) {
			if (i >= nl) continue;
			if (match[i]) VASSERT(L[i]->clock_offset == want, "EVERY loom of the host gets the host's offset");
			else VASSERT(L[i]->clock_offset == old[i], "looms of other hosts keep theirs");
		}
		REACH("entry applied");
		if (nmatch == 3) REACH("three looms on one host");
		if (nmatch == 2 && match[0] && match[2]) REACH("first and last loom share the host");
	} else {
		REACH("entry refused");
	}
}
#endif
