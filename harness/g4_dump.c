/* G4 (C12/C03) -- main of the real src/emu/ovnidump.c (-DG4_DUMP) and src/emu/ovnitop.c (-DG4_TOP),
 * `main` renamed by macro.  The tools replay the trace with player_step until it answers +1;
 * every event the player delivers is handed to emit()/accum() exactly once; a failed stage or a
 * failed step (truncated event, backwards clock in a stream: stream_step) ends in a failure exit
 * status.  Stages are stubs with any result; parse_args (getopt loop) and the per-event function
 * are replaced by cut contracts that count; the replay loop has a loop contract. */
#include "prelude.h"
#include "model.h"
#include "models.h"
#include "player.h"
#include "trace.h"
#include "emu_stat.h"

#define NC (-1000)
static inline int g4_any(void) { int r = nondet_int(); __CPROVER_assume(r != NC); return r; }
unsigned g_seq;

void progname_set(char *name) { (void) name; }
unsigned g_o_minit; void *g_a_minit;
void model_init(struct model *model) { g_o_minit = ++g_seq; g_a_minit = model; }
unsigned g_o_reg; int g_r_reg; void *g_a_reg;
int models_register(struct model *model) { g_o_reg = ++g_seq; g_a_reg = model; return g_r_reg = g4_any(); }
unsigned g_o_load; int g_r_load; void *g_a_load; const void *g_a_load_dir;
int trace_load(struct trace *trace, const char *dir) { g_o_load = ++g_seq; g_a_load = trace; g_a_load_dir = dir; return g_r_load = g4_any(); }
unsigned g_o_pinit; int g_r_pinit; void *g_a_pinit, *g_a_pinit_trace; int g_a_pinit_unsorted;
int player_init(struct player *player, struct trace *trace, int unsorted)
{ g_o_pinit = ++g_seq; g_a_pinit = player; g_a_pinit_trace = trace; g_a_pinit_unsorted = unsorted; return g_r_pinit = g4_any(); }
unsigned g_steps, g_steps_ok; int g_last_step; int g_step_badarg;
int g_stepped;                            /* player_step was called (the counters are modulo 2^32) */
int player_step(struct player *player)
{
	if ((void *) player != g_a_pinit) g_step_badarg = 1;
	g_stepped = 1;
	g_steps++; g_last_step = g4_any();
	if (g_last_step == 0) g_steps_ok++;
	return g_last_step;
}
void emu_stat_init(struct emu_stat *stat) { (void) stat; }
unsigned g_stat_updates;
void emu_stat_update(struct emu_stat *stat, struct player *player) { (void) stat; (void) player; g_stat_updates++; }
unsigned g_stat_reports;
void emu_stat_report(struct emu_stat *stat, struct player *player, int last) { (void) stat; (void) player; (void) last; g_stat_reports++; }

/* calloc may fail; which allocation failed is recorded */
unsigned g_calloc_n; int g_calloc_null[2];
static inline void *g4_calloc(size_t n, size_t size)
{
	void *p = nondet_bool() ? NULL : calloc(n, size);
	if (g_calloc_n < 2) g_calloc_null[g_calloc_n] = (p == NULL);
	g_calloc_n++;
	return p;
}
#define calloc(n, size) g4_calloc((n), (size))
#define main g4_tool_main
#ifdef G4_DUMP
#include "ovnidump.c"                     /* real /repo/src/emu/ovnidump.c */
#define PER_EVENT emit
#else
#include "ovnitop.c"                      /* real /repo/src/emu/ovnitop.c */
#define PER_EVENT accum
#endif
#undef main
#undef calloc

/* ---- cut contracts ---- */
void cc_parse_args(int argc, char *argv[])
__CPROVER_assigns(tracedir
#ifdef G4_DUMP
	, hex_mode
#endif
	)
;
unsigned g_events;                        /* events handed to emit() / accum() */
unsigned long g_ev_player;
#ifdef G4_DUMP
unsigned long g_ev_model;
void cc_emit(struct model *model, struct player *player)
__CPROVER_assigns(g_events, g_ev_player, g_ev_model, g_fprintf_calls, DIAG_FRAME)
__CPROVER_ensures(g_events == __CPROVER_old(g_events) + 1 && g_ev_player == (unsigned long) player && g_ev_model == (unsigned long) model)
__CPROVER_ensures(g_err >= __CPROVER_old(g_err) && g_err - __CPROVER_old(g_err) <= 8)
;
#else
void cc_accum(struct player *player)
__CPROVER_assigns(g_events, g_ev_player, table)
__CPROVER_ensures(g_events == __CPROVER_old(g_events) + 1 && g_ev_player == (unsigned long) player)
;
unsigned g_reports, g_report_saw_events;
void cc_report(void)
__CPROVER_assigns(g_reports, g_report_saw_events, table, g_fprintf_calls)
__CPROVER_ensures(g_reports == __CPROVER_old(g_reports) + 1 && g_report_saw_events == g_events)
;
#endif

#define OK(x) (g_r_##x == 0)
#define STEP_END (g_last_step > 0 && g_last_step != NC)
int c_tool_main(int argc, char *argv[])
__CPROVER_requires(DIAG_PRE && g_seq == 0 && g_o_minit == 0 && g_o_reg == 0 && g_o_load == 0 && g_o_pinit == 0 && g_r_reg == NC && g_r_load == NC &&
	g_r_pinit == NC && g_steps == 0 && g_stepped == 0 && g_steps_ok == 0 && g_last_step == NC && g_step_badarg == 0 && g_calloc_n == 0 &&
	g_calloc_null[0] == 0 && g_calloc_null[1] == 0 && g_events == 0 && g_stat_updates == 0)
#ifndef G4_DUMP
__CPROVER_requires(g_reports == 0)
#endif
__CPROVER_assigns(DIAG_FRAME, g_seq, g_o_minit, g_a_minit, g_o_reg, g_r_reg, g_a_reg, g_o_load, g_r_load, g_a_load, g_a_load_dir,
	g_o_pinit, g_r_pinit, g_a_pinit, g_a_pinit_trace, g_a_pinit_unsorted, g_steps, g_stepped, g_steps_ok, g_last_step, g_step_badarg,
	g_calloc_n, __CPROVER_object_whole(g_calloc_null), g_events, g_ev_player, g_fprintf_calls, g_stat_updates, g_stat_reports, tracedir
#ifdef G4_DUMP
	, hex_mode, g_ev_model
#else
	, g_reports, g_report_saw_events, table
#endif
	)
#ifdef G4_DUMP
/* the dump tool registers the models first (it needs their event tables to decode) */
#define PRE_OK OK(reg)
__CPROVER_ensures(g_o_minit == 1 && g_o_reg == 2 && g_a_reg == g_a_minit)
__CPROVER_ensures(g_calloc_n == (OK(reg) ? (g_calloc_null[0] || !OK(load) ? 1u : 2u) : 0u))
#else
#define PRE_OK 1
__CPROVER_ensures(g_calloc_n == ((g_calloc_null[0] || !OK(load)) ? 1u : 2u))
#endif
/* exit status 0 exactly when every stage succeeded and the replay reached the end of the trace */
__CPROVER_ensures((__CPROVER_return_value == 0) == (PRE_OK && g_calloc_n == 2 && !g_calloc_null[0] && OK(load) && !g_calloc_null[1] && OK(pinit) && STEP_END))
/* stages in order, each only if the previous succeeded; the trace is the one the arguments name;
 * the dump tools accept unsorted streams (unsorted == 1) */
__CPROVER_ensures((g_o_load != 0) == (PRE_OK && g_calloc_n >= 1 && !g_calloc_null[0]))
__CPROVER_ensures(g_o_load == 0 || (g_a_load != NULL && g_a_load_dir == tracedir))
__CPROVER_ensures((g_o_pinit != 0) == (g_o_load != 0 && OK(load) && g_calloc_n == 2 && !g_calloc_null[1]))
__CPROVER_ensures(g_o_pinit == 0 || (g_o_pinit > g_o_load && g_a_pinit != NULL && g_a_pinit_trace == g_a_load && g_a_pinit_unsorted == 1))
/* replay: only after a successful player_init, always on this player, until the first non-zero answer */
__CPROVER_ensures((g_stepped != 0) == (g_o_pinit != 0 && OK(pinit)))
__CPROVER_ensures(!g_step_badarg && (!g_stepped || (g_last_step != 0 && g_steps_ok == g_steps - 1)))
/* every delivered event is handed to the per-event function exactly once */
__CPROVER_ensures(g_events == g_steps_ok && (g_events == 0 || g_ev_player == (unsigned long) g_a_pinit))
#ifdef G4_DUMP
__CPROVER_ensures(g_events == 0 || g_ev_model == (unsigned long) g_a_minit)
#else
/* ovnitop reports once, after the replay, whatever the last step said */
__CPROVER_ensures(g_reports == (g_stepped ? 1u : 0u) && (g_reports == 0 || g_report_saw_events == g_events))
__CPROVER_ensures(g_stat_updates == g_steps_ok)
#endif
/* a failed step is a failure exit; a stage failure comes with a diagnostic (once events were
 * printed the diagnostics counter, modulo 2^32 and also advanced by emit, says nothing) */
__CPROVER_ensures(!(g_stepped && g_last_step < 0) || __CPROVER_return_value == 1)
__CPROVER_ensures(__CPROVER_return_value == 0 || g_stepped || g_err > __CPROVER_old(g_err))
;
void h_tool_main(void)
{
	int argc; char **argv;
	int r = g4_tool_main(argc, argv);
	if (r == 0 && g_events == 0) REACH("empty trace replayed");
	if (r == 0 && g_events > 1) REACH("several events replayed");
	if (r == 1 && g_stepped && g_steps > 1 && g_last_step < 0) REACH("failed step after some events: exit 1");
	if (r != 0 && g_o_pinit && g_r_pinit != 0) REACH("player_init failed");
	if (r != 0 && g_o_load && g_r_load != 0) REACH("trace_load failed");
	if (r != 0 && g_calloc_n == 2 && g_calloc_null[1]) REACH("out of memory for the player");
#ifdef G4_DUMP
	if (r != 0 && g_r_reg != 0) REACH("models_register failed");
#endif
}
