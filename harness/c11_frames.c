/* C11 (1/2) -- WRITE FRAMES of the per-thread API of the real src/rt/ovni.c.
 *
 * Contracts are sequential: NO thread interleaving is explored here.  What is decided,
 * for every per-thread API function f and every pre-state (unbounded unless a group says
 * otherwise):
 *   FRAME  every write f performs hits (a) a field of the thread-local `rthread`, (b) a
 *          heap object owned through it (the event buffer, CPU list nodes) or freshly
 *          allocated, (c) a caller-provided object (the event of a jumbo emit), or (d) the
 *          state of a ghost model that stands for per-thread external state (the stream
 *          file behind rthread.streamfd, the parson object behind rthread.meta, the clock,
 *          diagnostics).  NOTHING of the shared `rproc` and no other file-scope object is
 *          in any frame: DFCC turns each write into an `[f.assigns.N]` obligation, so a
 *          write to rproc or to a new shared static fails.
 *   GATE   f returns only if the thread was initialised (rthread.ready) and, where the
 *          code checks it, the process is READY -- stated as "returns ==> old(...)".
 * Functional behaviour (what lands in the stream / metadata) is proved in C01/C02/C17. */
#include "c11_stubs.h"
#include "ovni.c"

_Static_assert(ST_UNINIT == 0 && ST_INIT == 1 && ST_READY == 2 && ST_GONE == 3, "process states");

/* ---- frame vocabulary: the ghost models' state, by model ---- */
#define F_DIAG   DIAG_FRAME, g_died                 /* err/warn/die counters (prelude) */
#define F_STREAM g_file_len, g_byte                 /* bytes handed to write(2) on the thread's fd */
#define F_CLOCK  g_now                              /* clock_gettime model */
#define F_PARSON g_keys, g_v_version, g_v_tid, g_v_pid, g_v_appid, g_v_finished, g_v_rank, g_v_nranks, \
	g_part_is_thread, g_v_loom, g_parson_failed  /* the JSON object behind rthread.meta */
#define F_STORE  g_store_calls, g_keys_at_store, g_finished_at_store, g_store_failed   /* stream.json on disk */

#define OLD(x) __CPROVER_old(x)
#define RV __CPROVER_return_value
#define NOW_OK (g_now < (1UL << 62))
/* the thread's buffer: only meaningful (and only touched) once the thread is ready */
#define BUF_PRE (!rthread.ready || (__CPROVER_is_fresh(rthread.evbuf, g_cap) && rthread.evlen < g_cap))
#define EV_PRE(ev) (__CPROVER_is_fresh(ev, sizeof(struct ovni_ev)) && !((ev)->header.flags & OVNI_EV_JUMBO))
/* a C string of exactly n+1 bytes, NUL at n (n arbitrary) */
#define STR_PRE(s, n) ((n) < (1UL << 32) && __CPROVER_is_fresh((s), (n) + 1) && (s)[(n)] == 0)
#define GATE_THREAD (OLD(rthread.ready) != 0)
#define GATE_PROC   (rproc.st == ST_READY)           /* rproc is in no frame: post-state == pre-state */
unsigned long g_l1, g_l2;    /* arbitrary string lengths */

/* ============================================================ trusted libc contracts */
/* strlen / strpbrk: pure, any result (over-approximates the real functions) */
size_t ct_strlen_any(const char *s)
__CPROVER_requires(1) __CPROVER_assigns() __CPROVER_ensures(1);
char *ct_strpbrk_any(const char *s, const char *accept)
__CPROVER_requires(1) __CPROVER_assigns() __CPROVER_ensures(1);
int ct_strcmp_any(const char *a, const char *b)
__CPROVER_requires(1) __CPROVER_assigns() __CPROVER_ensures(1);
int ct_strncmp_any(const char *a, const char *b, size_t n)
__CPROVER_requires(1) __CPROVER_assigns() __CPROVER_ensures(1);
/* version_parse (src/include/version.h, outside the unit, see C14): writes only the
 * caller's tuple and diagnostics */
int ct_version_parse(const char *version, int tuple[3])
__CPROVER_requires(__CPROVER_w_ok(tuple, 3 * sizeof(int)))
__CPROVER_assigns(__CPROVER_object_upto(tuple, 3 * sizeof(int)), DIAG_FRAME)
__CPROVER_ensures(RV == 0 || RV == -1);

/* ==================================================================== event stream */
/* write_evbuf: hands bytes to write(2); touches nothing but the ghost file */
void cr11_write_evbuf(uint8_t *buf, size_t size)
__CPROVER_requires(CAP_OK && size <= g_cap && __CPROVER_is_fresh(buf, size))
__CPROVER_assigns(F_STREAM, g_died)
__CPROVER_ensures(1);
void h_write_evbuf(void)
{
	uint8_t *buf; size_t size;
	write_evbuf(buf, size);
	REACH("write_evbuf returns");
}

#define EVADD_FRAME \
__CPROVER_assigns(rthread.evlen, F_STREAM, F_CLOCK, g_died) \
__CPROVER_assigns(rthread.ready != 0: __CPROVER_object_whole(rthread.evbuf))
#define EVADD_POST \
__CPROVER_ensures(GATE_THREAD) \
__CPROVER_ensures(rthread.evlen < g_cap && NOW_OK)

void cr11_ovni_ev_add(struct ovni_ev *ev)
__CPROVER_requires(CAP_OK && NOW_OK)
__CPROVER_requires(BUF_PRE)
__CPROVER_requires(EV_PRE(ev))
EVADD_FRAME
EVADD_POST;
void h_ovni_ev_add(void)
{
	struct ovni_ev *ev;
	ovni_ev_add(ev);
	REACH("ovni_ev_add returns");
	if (rproc.st == ST_READY) REACH("ovni_ev_add returns in the normal protocol state");
}

void cr11_add_flush_events(uint64_t t0, uint64_t t1)
__CPROVER_requires(CAP_OK && NOW_OK)
__CPROVER_requires(BUF_PRE)
EVADD_FRAME
EVADD_POST;
void h_add_flush_events(void)
{
	uint64_t t0, t1;
	add_flush_events(t0, t1);
	REACH("add_flush_events returns");
}

void cr11_ovni_ev_add_jumbo(struct ovni_ev *ev, const uint8_t *buf, uint32_t bufsize)
__CPROVER_requires(CAP_OK && NOW_OK)
__CPROVER_requires(BUF_PRE)
__CPROVER_requires(EV_PRE(ev) && __CPROVER_is_fresh(buf, bufsize))
EVADD_FRAME
__CPROVER_assigns(ev->header.flags, ev->payload)      /* the caller's own event object */
EVADD_POST;
void h_ovni_ev_add_jumbo(void)
{
	struct ovni_ev *ev; const uint8_t *buf; uint32_t bufsize;
	ovni_ev_add_jumbo(ev, buf, bufsize);
	REACH("ovni_ev_add_jumbo returns");
}

/* ---- public entry points ---- */
void c11_ovni_ev_emit(struct ovni_ev *ev)
__CPROVER_requires(CAP_OK && NOW_OK)
__CPROVER_requires(BUF_PRE)
__CPROVER_requires(EV_PRE(ev))
EVADD_FRAME
EVADD_POST;
void h_ovni_ev_emit(void)
{
	struct ovni_ev *ev;
	ovni_ev_emit(ev);
	REACH("ovni_ev_emit returns");
	if (rproc.st == ST_READY) REACH("ovni_ev_emit returns in the normal protocol state (thread ready, process READY)");
	if (rproc.st == ST_GONE) REACH("observation: ovni_ev_emit does not check the process state (returns after ovni_proc_fini)");
}

void c11_ovni_ev_jumbo_emit(struct ovni_ev *ev, const uint8_t *buf, uint32_t bufsize)
__CPROVER_requires(CAP_OK && NOW_OK)
__CPROVER_requires(BUF_PRE)
__CPROVER_requires(EV_PRE(ev) && __CPROVER_is_fresh(buf, bufsize))
EVADD_FRAME
__CPROVER_assigns(ev->header.flags, ev->payload)
EVADD_POST;
void h_ovni_ev_jumbo_emit(void)
{
	struct ovni_ev *ev; const uint8_t *buf; uint32_t bufsize;
	ovni_ev_jumbo_emit(ev, buf, bufsize);
	REACH("ovni_ev_jumbo_emit returns");
	if (rproc.st == ST_READY) REACH("ovni_ev_jumbo_emit returns in the normal protocol state");
}

void c11_ovni_flush(void)
__CPROVER_requires(CAP_OK && NOW_OK)
__CPROVER_requires(BUF_PRE)
EVADD_FRAME
EVADD_POST
__CPROVER_ensures(GATE_PROC);
void h_ovni_flush(void)
{
	ovni_flush();
	REACH("ovni_flush returns (thread ready, process READY)");
}

#define MARK_CONTRACT \
__CPROVER_requires(CAP_OK && NOW_OK) \
__CPROVER_requires(BUF_PRE) \
EVADD_FRAME \
EVADD_POST \
__CPROVER_ensures(value != 0)
void c11_ovni_mark_push(int32_t type, int64_t value) MARK_CONTRACT;
void c11_ovni_mark_pop(int32_t type, int64_t value) MARK_CONTRACT;
void c11_ovni_mark_set(int32_t type, int64_t value) MARK_CONTRACT;
void h_ovni_mark_push(void)
{
	int32_t type; int64_t value;
	ovni_mark_push(type, value);
	REACH("ovni_mark_push returns");
	if (rproc.st == ST_READY) REACH("ovni_mark_push returns in the normal protocol state");
}
void h_ovni_mark_pop(void)
{
	int32_t type; int64_t value;
	ovni_mark_pop(type, value);
	REACH("ovni_mark_pop returns");
}
void h_ovni_mark_set(void)
{
	int32_t type; int64_t value;
	ovni_mark_set(type, value);
	REACH("ovni_mark_set returns");
}

/* ovni_clock_now: public, reads the shared rproc.clockid and checks NOTHING (observation,
 * item 4 of the report): it returns in every process / thread state */
uint64_t c11_ovni_clock_now(void)
__CPROVER_requires(NOW_OK)
__CPROVER_assigns(F_CLOCK, g_died)
__CPROVER_ensures(NOW_OK);
void h_ovni_clock_now(void)
{
	ovni_clock_now();
	REACH("ovni_clock_now returns");
	if (rproc.st == ST_UNINIT && !rthread.ready) REACH("observation: ovni_clock_now reads rproc.clockid with the process UNINIT and the thread not ready");
	if (rproc.st == ST_INIT) REACH("observation: ovni_clock_now reads rproc.clockid while ovni_proc_init is in progress (ST_INIT)");
}

/* ================================================================ thread life cycle */
int w_ready0;
void c11_ovni_thread_init(pid_t tid)
__CPROVER_requires(CAP_OK && NOW_OK)
__CPROVER_requires(w_ready0 == rthread.ready)
__CPROVER_assigns(rthread, F_STREAM, F_PARSON, F_STORE, F_DIAG)
/* returns ==> it was a repeated call (ignored), or the process was READY, the thread had
 * not finished, and tid is usable; then the thread is ready */
__CPROVER_ensures(OLD(rthread.ready) != 0 || (GATE_PROC && !OLD(rthread.finished) && tid != 0))
__CPROVER_ensures(rthread.ready != 0)
__CPROVER_ensures(OLD(rthread.ready) != 0 || (rthread.tid == tid && rthread.evlen == 0 && rthread.cpus == NULL && !rthread.finished));
void h_ovni_thread_init(void)
{
	pid_t tid;
	ovni_thread_init(tid);
	if (!w_ready0) REACH("ovni_thread_init: fresh initialisation returns (process READY)");
	if (w_ready0) REACH("ovni_thread_init: repeated call is ignored");
}

void c11_ovni_thread_require(const char *model, const char *version)
__CPROVER_requires(model == NULL || STR_PRE(model, g_l1))
__CPROVER_requires(version == NULL || STR_PRE(version, g_l2))
__CPROVER_assigns(F_PARSON, F_DIAG)
__CPROVER_ensures(GATE_THREAD && model != NULL && version != NULL);
void h_ovni_thread_require(void)
{
	const char *model, *version;
	ovni_thread_require(model, version);
	REACH("ovni_thread_require returns");
	if (rproc.st == ST_READY && g_l1 > 8 && g_l2 > 8) REACH("ovni_thread_require returns in the normal protocol state, long strings");
}

int c11_ovni_thread_isready(void)
__CPROVER_requires(1)
__CPROVER_assigns()
__CPROVER_ensures(RV == rthread.ready);
void h_ovni_thread_isready(void)
{
	int r = ovni_thread_isready();
	if (r) REACH("ovni_thread_isready: ready");
	if (!r) REACH("ovni_thread_isready: not ready");
}

/* CPU list: utlist DL_APPEND is O(1) (head->prev is the tail), so the frame is exact for
 * lists of ANY length: the head pointer, the head's prev and the old tail's next */
#define RCPU_SZ sizeof(struct ovni_rcpu)
#define CPUS_PRE (!rthread.ready || rthread.cpus == NULL || (__CPROVER_is_fresh(rthread.cpus, RCPU_SZ) && \
	(__CPROVER_pointer_equals(rthread.cpus->prev, rthread.cpus) || __CPROVER_is_fresh(rthread.cpus->prev, RCPU_SZ))))
int w_cpus_null, w_single;
void c11_ovni_add_cpu(int index, int phyid)
__CPROVER_requires(CPUS_PRE)
__CPROVER_requires(w_cpus_null == (rthread.cpus == NULL))
__CPROVER_assigns(rthread.cpus, g_died)
__CPROVER_assigns(rthread.ready != 0 && rthread.cpus != NULL: rthread.cpus->prev, rthread.cpus->prev->next)
__CPROVER_ensures(GATE_THREAD && GATE_PROC && index >= 0 && phyid >= 0)
__CPROVER_ensures(rthread.cpus != NULL);
void h_ovni_add_cpu(void)
{
	int index, phyid;
	ovni_add_cpu(index, phyid);
	REACH("ovni_add_cpu returns (thread ready, process READY)");
	if (w_cpus_null) REACH("ovni_add_cpu: first CPU");
	if (!w_cpus_null) REACH("ovni_add_cpu: appended to a non-empty list");
}

void c11_ovni_proc_set_rank(int rank, int nranks)
__CPROVER_requires(1)
__CPROVER_assigns(rthread.rank_set, rthread.rank, rthread.nranks, g_died)
__CPROVER_ensures(GATE_THREAD && GATE_PROC)
__CPROVER_ensures(rthread.rank_set == 1 && rthread.rank == rank && rthread.nranks == nranks);
void h_ovni_proc_set_rank(void)
{
	int rank, nranks;
	ovni_proc_set_rank(rank, nranks);
	REACH("ovni_proc_set_rank returns (thread ready, process READY)");
}

/* relocation to the final directory: file-system calls only (content: C09/C10) */
void cr11_move_thdir_to_final(const char *thdir, const char *thdir_final)
__CPROVER_requires(1)
__CPROVER_assigns(DIAG_FRAME, verif_errno)
__CPROVER_ensures(1);
void h_move_thdir_to_final(void)
{
	const char *a, *b;
	move_thdir_to_final(a, b);
	REACH("move_thdir_to_final returns");
	if (g_err > 0) REACH("move_thdir_to_final returns after a diagnostic");
}

/* ovni_thread_free.  C11_NCPUS: shape of the CPU list in the pre-state (the only loop,
 * set_thread_cpus, walks it): 0 = empty (unbounded group), 2 = at most two nodes (bounded) */
#ifndef C11_NCPUS
#define C11_NCPUS 0
#endif
#if C11_NCPUS == 0
#define FREE_CPUS_PRE (rthread.cpus == NULL)
#else
#define FREE_CPUS_PRE (rthread.cpus == NULL || (__CPROVER_is_fresh(rthread.cpus, RCPU_SZ) && \
	(rthread.cpus->next == NULL || (__CPROVER_is_fresh(rthread.cpus->next, RCPU_SZ) && rthread.cpus->next->next == NULL))))
#endif
/* used by the empty-list group only: a false precondition is asserted at the call site,
 * i.e. set_thread_cpus is proved unreachable there (so its loop needs no bound) */
void cr11_set_thread_cpus_unreachable(JSON_Object *meta)
__CPROVER_requires(0)
__CPROVER_assigns()
__CPROVER_ensures(1);
int w_rank_set, w_mtf;
void c11_ovni_thread_free(void)
__CPROVER_requires(!rthread.ready || FREE_CPUS_PRE)
__CPROVER_requires(!rthread.ready || rthread.evbuf == NULL || __CPROVER_is_fresh(rthread.evbuf, g_cap))
__CPROVER_requires(w_rank_set == rthread.rank_set && w_mtf == rproc.move_to_final)
__CPROVER_assigns(verif_errno, rthread.evbuf, rthread.streamfd, rthread.finished, rthread.ready, F_PARSON, F_STORE, F_DIAG)
__CPROVER_frees(rthread.evbuf)
__CPROVER_ensures(GATE_THREAD && !OLD(rthread.finished))
__CPROVER_ensures(rthread.finished == 1 && rthread.ready == 0 && rthread.evbuf == NULL && rthread.streamfd == -1);
void h_ovni_thread_free(void)
{
	ovni_thread_free();
	REACH("ovni_thread_free returns");
	if (rproc.st == ST_READY && w_rank_set && w_mtf) REACH("ovni_thread_free returns in the normal protocol state, rank set, relocation to the final directory");
#if C11_NCPUS != 0
	if (g_keys & K_CPUS) REACH("ovni_thread_free stored a CPU list");
#endif
	if (rproc.st == ST_GONE) REACH("observation: ovni_thread_free does not check the process state (reads rproc.procdir / move_to_final after ovni_proc_fini)");
}

/* ======================================================================= attributes */
#define ATTR_GATE __CPROVER_ensures(GATE_THREAD && !OLD(rthread.finished))
/* a setter returns only if the store succeeded (a failed parson call is fatal, never silent) */
/* a typed getter returns only a value of its own type (any other type is fatal, never reinterpreted) */
#ifdef VERIF_TRACK_JSON_TYPE
#define ATTR_TYPED(t) __CPROVER_assigns(g_json_type) __CPROVER_ensures(g_json_type == (t))
#else
#define ATTR_TYPED(t)
#endif
#define ATTR_SET_OK __CPROVER_requires(g_parson_failed == 0) __CPROVER_ensures(g_parson_failed == 0)
int c11_ovni_attr_has(const char *key)
__CPROVER_requires(STR_PRE(key, g_l1))
__CPROVER_assigns(g_parson_failed, g_died)
ATTR_GATE
__CPROVER_ensures(RV == 0 || RV == 1);
void c11_ovni_attr_set_double(const char *key, double num)
__CPROVER_requires(STR_PRE(key, g_l1))
__CPROVER_assigns(F_PARSON, g_died)
ATTR_SET_OK
ATTR_GATE;
void c11_ovni_attr_set_boolean(const char *key, int value)
__CPROVER_requires(STR_PRE(key, g_l1))
__CPROVER_assigns(F_PARSON, g_died)
ATTR_SET_OK
ATTR_GATE;
void c11_ovni_attr_set_str(const char *key, const char *value)
__CPROVER_requires(STR_PRE(key, g_l1) && STR_PRE(value, g_l2))
__CPROVER_assigns(F_PARSON, g_died)
ATTR_SET_OK
ATTR_GATE;
void c11_ovni_attr_set_json(const char *key, const char *json)
__CPROVER_requires(STR_PRE(key, g_l1) && STR_PRE(json, g_l2))
__CPROVER_assigns(F_PARSON, g_died)
ATTR_SET_OK
ATTR_GATE;
double c11_ovni_attr_get_double(const char *key)
__CPROVER_requires(STR_PRE(key, g_l1))
__CPROVER_assigns(g_parson_failed, g_died)
ATTR_TYPED(JSONNumber)
ATTR_GATE;
int c11_ovni_attr_get_boolean(const char *key)
__CPROVER_requires(STR_PRE(key, g_l1))
__CPROVER_assigns(g_parson_failed, g_died)
ATTR_TYPED(JSONBoolean)
ATTR_GATE;
const char *c11_ovni_attr_get_str(const char *key)
__CPROVER_requires(STR_PRE(key, g_l1))
__CPROVER_assigns(g_parson_failed, g_died)
ATTR_TYPED(JSONString)
ATTR_GATE;
char *c11_ovni_attr_get_json(const char *key)
__CPROVER_requires(STR_PRE(key, g_l1))
__CPROVER_assigns(g_parson_failed, g_died)
ATTR_GATE
__CPROVER_ensures(RV != NULL);
void c11_ovni_attr_flush(void)
__CPROVER_requires(1)
__CPROVER_assigns(F_STORE, g_died)
ATTR_GATE;

#define NORMAL_STATE_REACH(fn) if (rproc.st == ST_READY) REACH(fn " returns in the normal protocol state (thread ready, process READY)")
void h_ovni_attr_has(void) { const char *key; int r = ovni_attr_has(key); if (r) REACH("ovni_attr_has: present"); if (!r) REACH("ovni_attr_has: absent"); NORMAL_STATE_REACH("ovni_attr_has"); }
void h_ovni_attr_set_double(void) { const char *key; double v; ovni_attr_set_double(key, v); REACH("ovni_attr_set_double returns"); NORMAL_STATE_REACH("ovni_attr_set_double"); }
void h_ovni_attr_set_boolean(void) { const char *key; int v; ovni_attr_set_boolean(key, v); REACH("ovni_attr_set_boolean returns"); }
void h_ovni_attr_set_str(void) { const char *key, *v; ovni_attr_set_str(key, v); REACH("ovni_attr_set_str returns"); if (g_l1 > 20 && g_l2 > 20) REACH("ovni_attr_set_str: long key and value"); }
void h_ovni_attr_set_json(void) { const char *key, *v; ovni_attr_set_json(key, v); REACH("ovni_attr_set_json returns"); }
void h_ovni_attr_get_double(void) { const char *key; ovni_attr_get_double(key); REACH("ovni_attr_get_double returns"); }
void h_ovni_attr_get_boolean(void) { const char *key; ovni_attr_get_boolean(key); REACH("ovni_attr_get_boolean returns"); }
void h_ovni_attr_get_str(void) { const char *key; ovni_attr_get_str(key); REACH("ovni_attr_get_str returns"); }
void h_ovni_attr_get_json(void) { const char *key; ovni_attr_get_json(key); REACH("ovni_attr_get_json returns"); }
void h_ovni_attr_flush(void) { ovni_attr_flush(); REACH("ovni_attr_flush returns"); NORMAL_STATE_REACH("ovni_attr_flush"); }

/* ===================================================================== mark metadata */
void c11_ovni_mark_type(int32_t type, long flags, const char *title)
__CPROVER_requires(title == NULL || STR_PRE(title, g_l1))
__CPROVER_assigns(F_PARSON, g_died)
ATTR_GATE
__CPROVER_ensures(type >= 0 && type < 100 && title != NULL);
void h_ovni_mark_type(void)
{
	int32_t type; long flags; const char *title;
	ovni_mark_type(type, flags, title);
	REACH("ovni_mark_type returns");
	NORMAL_STATE_REACH("ovni_mark_type");
}
void c11_ovni_mark_label(int32_t type, int64_t value, const char *label)
__CPROVER_requires(label == NULL || STR_PRE(label, g_l1))
__CPROVER_assigns(F_PARSON, g_died)
ATTR_GATE
__CPROVER_ensures(type >= 0 && type < 100 && value > 0 && label != NULL);
void h_ovni_mark_label(void)
{
	int32_t type; int64_t value; const char *label;
	ovni_mark_label(type, value, label);
	REACH("ovni_mark_label returns");
}
