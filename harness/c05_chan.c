/* C05 -- chan_set (real chan.c) against the self-contained contract cr_chan_set
 * that replaces it in the cpu / thread / affinity groups. */
#include "prelude.h"
#include "value.h"
/* pitfall 9: memcmp over struct value spuriously differs in CBMC */
_Static_assert(sizeof(struct value) == 16, "struct value has no padding");
#undef value_is_equal
#define value_is_equal(a, b) ((a)->type == (b)->type && (a)->i == (b)->i)
#include "chan.h"
#define C05_NO_REBIND      /* this unit DEFINES chan_set: no call-site rebinding */
#include "harness/c05_chanlog.h"
#include "chan.c"          /* the real /repo/src/emu/chan.c */

void h_chan_set(void)
{
	struct chan *chan;
	struct value v;
	chan_cb_t keep = stub_dirty_cb;   /* candidate target for remove_fp */
	(void) keep;
	WITNESS_ON(chan_set);
	int r = chan_set(chan, v);
	if (r == 0) REACH("chan_set accepted");
	if (r == 0 && w_cs_dirty) REACH("chan_set accepted on a dirty channel (dirty write)");
	if (r == 0 && w_cs_ltype == w_cs_vtype && w_cs_li == w_cs_vi && !w_cs_ad) REACH("duplicate ignored");
	if (r != 0 && w_cs_type == CHAN_SINGLE && !w_cs_dirty && !(w_cs_ltype == w_cs_vtype && w_cs_li == w_cs_vi)) REACH("dirty callback failed");
	if (r != 0 && w_cs_dirty) REACH("write to a dirty channel refused");
	if (r != 0 && w_cs_type != CHAN_SINGLE) REACH("non-single channel refused");
	if (r == 0 && w_cs_hascb && !w_cs_dirty && w_cs_vtype == VALUE_INT64) REACH("int value stored, callback ok");
}
