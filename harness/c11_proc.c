/* C11 (2/2) -- process initialisation / finalisation take effect exactly once
 * (real src/rt/ovni.c: ovni_proc_init, create_proc_dir, ovni_proc_fini).
 *
 * SEQUENTIAL contracts.  goto-cc compiles atomic_compare_exchange_strong / atomic_load /
 * atomic_store on rproc.st to calls of __atomic_compare_exchange_S32 / __atomic_load_S32 /
 * __atomic_store_S32, whose CBMC bodies are the plain sequential operation inside
 * ATOMIC_BEGIN/END.  They are TRUSTED to be linearizable; no interleaving is explored.
 *
 * What is decided (all pre-states, all arguments):
 *  - ovni_proc_init returns  ==>  the state was UNINIT and is now READY (every other
 *    state dies, leaving the state untouched); its writes are confined to rproc; the
 *    identity fields are written BEFORE create_proc_dir is called, create_proc_dir is
 *    called with state INIT and does not touch the state; READY is stored afterwards.
 *  - ovni_proc_fini returns  ==>  the state was READY and is now GONE (else dies).
 *  - The state word is written ONLY through one compare-and-swap (plus, in init, one
 *    atomic store): groups *_atomics replace the built-ins by their (assumed) contracts
 *    and count the calls; a shadow copy of the state detects any direct write. */
#ifdef C11_REFUSAL
static void c11_die_hook(void);
#define VERIF_DIE_HOOK c11_die_hook()
#endif
#include "c11_stubs.h"
#include "ovni.c"

_Static_assert(ST_UNINIT == 0 && ST_INIT == 1 && ST_READY == 2 && ST_GONE == 3, "process states");
#define OLD(x) __CPROVER_old(x)
#define RV __CPROVER_return_value
#define ST_WF (rproc.st >= ST_UNINIT && rproc.st <= ST_GONE)
#define STR_PRE(s, n) ((n) < (1UL << 32) && __CPROVER_is_fresh((s), (n) + 1) && (s)[(n)] == 0)

/* ---- trusted libc contracts: the string passed to ovni_proc_init has length g_slen ----
 * (g_slen is arbitrary; for every string the pair (string, its real length) is among the
 * cases, so the real strlen/strcpy behaviour is covered) */
unsigned long g_slen;
unsigned long g_k;           /* arbitrary observer index into the loom name */
size_t ct_strlen_g(const char *s)
__CPROVER_requires(__CPROVER_r_ok(s, g_slen + 1) && s[g_slen] == 0)
__CPROVER_assigns()
__CPROVER_ensures(RV == g_slen);
char *ct_strcpy_g(char *dst, const char *src)
__CPROVER_requires(__CPROVER_r_ok(src, g_slen + 1) && src[g_slen] == 0)
__CPROVER_requires(__CPROVER_w_ok(dst, g_slen + 1))
__CPROVER_assigns(__CPROVER_object_upto(dst, g_slen + 1))
__CPROVER_ensures(RV == dst && (g_k > g_slen || dst[g_k] == src[g_k]));

/* ------------------------------------------------------------------ create_proc_dir */
/* The REQUIRES is asserted at the call site inside ovni_proc_init: directory creation
 * happens strictly between the winning CAS (state INIT) and the store of READY, after
 * pid/app/clockid/loom have been written.  Its own frame excludes the state word. */
#define PROCDIR_FRAME rproc.loomdir, rproc.tmpdir, rproc.move_to_final, rproc.procdir, rproc.procdir_final
int w_app;
void cr11_create_proc_dir(const char *loom, int pid)
__CPROVER_requires(rproc.st == ST_INIT)
__CPROVER_requires(rproc.pid == pid && rproc.app == w_app && rproc.clockid == CLOCK_MONOTONIC)
__CPROVER_requires(STR_PRE(loom, g_slen))
__CPROVER_requires(g_k > g_slen || g_k >= OVNI_MAX_HOSTNAME || rproc.loom[g_k] == loom[g_k])
__CPROVER_assigns(PROCDIR_FRAME, g_died)
__CPROVER_ensures(rproc.move_to_final == 0 || rproc.move_to_final == 1);
void h_create_proc_dir(void)
{
	const char *loom; int pid;
	create_proc_dir(loom, pid);
	if (rproc.move_to_final == 1) REACH("create_proc_dir returns: OVNI_TMPDIR set");
	if (rproc.move_to_final == 0) REACH("create_proc_dir returns: direct mode");
}

/* ------------------------------------------------------------------- ovni_proc_init */
int w_st0;
#define INIT_CONTRACT \
__CPROVER_requires(ST_WF) \
__CPROVER_requires(STR_PRE(loom, g_slen)) \
__CPROVER_requires(w_app == app && w_st0 == rproc.st) \
__CPROVER_assigns(PROCDIR_FRAME, rproc.app, rproc.pid, rproc.loom, rproc.clockid, rproc.st, g_died) \
/* exactly once: only the UNINIT -> READY transition returns */ \
__CPROVER_ensures(OLD(rproc.st) == ST_UNINIT && rproc.st == ST_READY) \
__CPROVER_ensures(g_slen < OVNI_MAX_HOSTNAME) \
__CPROVER_ensures(rproc.pid == pid && rproc.app == app && rproc.clockid == CLOCK_MONOTONIC) \
__CPROVER_ensures(g_k > g_slen || rproc.loom[g_k] == loom[g_k])
void c11_ovni_proc_init(int app, const char *loom, int pid)
INIT_CONTRACT;
void h_ovni_proc_init(void)
{
	int app, pid; const char *loom;
	ovni_proc_init(app, loom, pid);
	REACH("ovni_proc_init returns (from UNINIT)");
	if (g_slen == OVNI_MAX_HOSTNAME - 1) REACH("ovni_proc_init: longest admitted loom name");
}

/* ------------------------------------------------------------------- ovni_proc_fini */
#define FINI_CONTRACT \
__CPROVER_requires(ST_WF) \
__CPROVER_assigns(rproc.st, DIAG_FRAME, g_died) \
__CPROVER_ensures(OLD(rproc.st) == ST_READY && rproc.st == ST_GONE)
void c11_ovni_proc_fini(void)
FINI_CONTRACT;
void h_ovni_proc_fini(void)
{
	ovni_proc_fini();
	REACH("ovni_proc_fini returns (from READY)");
	if (rproc.move_to_final) REACH("ovni_proc_fini cleaned the temporary directories");
}

/* ---------------------------------------- the state word is written only atomically */
/* ASSUMED contracts of the C11 atomic built-ins as goto-cc emits them (sequential
 * meaning of a linearizable operation), instrumented with call counters and a shadow
 * copy g_shadow of the state word that only they update. */
unsigned g_cas_calls, g_store_st_calls;
int g_shadow;
_Bool ct_atomic_cas(atomic_int *p, atomic_int *expected, atomic_int *desired, _Bool weak, int succ, int fail)
__CPROVER_requires(__CPROVER_pointer_equals(p, &rproc.st))
__CPROVER_requires(__CPROVER_is_fresh(expected, sizeof(int)) && __CPROVER_is_fresh(desired, sizeof(int)))
__CPROVER_requires(g_shadow == rproc.st && g_cas_calls < 1000u)
__CPROVER_assigns(rproc.st, *expected, g_cas_calls, g_shadow)
__CPROVER_ensures(RV == (OLD(rproc.st) == OLD(*expected)))
__CPROVER_ensures(!RV || (rproc.st == *desired && *expected == OLD(*expected)))
__CPROVER_ensures(RV || (rproc.st == OLD(rproc.st) && *expected == OLD(rproc.st)))
__CPROVER_ensures(g_cas_calls == OLD(g_cas_calls) + 1 && g_shadow == rproc.st);
void ct_atomic_store(atomic_int *p, atomic_int *val, int order)
__CPROVER_requires(__CPROVER_pointer_equals(p, &rproc.st) && __CPROVER_is_fresh(val, sizeof(int)))
__CPROVER_requires(g_shadow == rproc.st && g_store_st_calls < 1000u)
__CPROVER_assigns(rproc.st, g_store_st_calls, g_shadow)
__CPROVER_ensures(rproc.st == *val && g_shadow == rproc.st && g_store_st_calls == OLD(g_store_st_calls) + 1);

void c11_ovni_proc_init_atomics(int app, const char *loom, int pid)
INIT_CONTRACT
__CPROVER_requires(g_shadow == rproc.st && g_cas_calls < 1000u && g_store_st_calls < 1000u)
__CPROVER_assigns(g_cas_calls, g_store_st_calls, g_shadow)
__CPROVER_ensures(g_cas_calls == OLD(g_cas_calls) + 1 && g_store_st_calls == OLD(g_store_st_calls) + 1)
__CPROVER_ensures(g_shadow == rproc.st);
void c11_ovni_proc_fini_atomics(void)
FINI_CONTRACT
__CPROVER_requires(g_shadow == rproc.st && g_cas_calls < 1000u && g_store_st_calls < 1000u)
__CPROVER_assigns(g_cas_calls, g_shadow)
__CPROVER_ensures(g_cas_calls == OLD(g_cas_calls) + 1)
__CPROVER_ensures(g_shadow == rproc.st);

/* --------------------------------------------- refusals, without contracts (no DFCC) */
/* A call in any state other than the expected one NEVER returns and leaves the state
 * word untouched (asserted at the moment of die()). */
#ifdef C11_REFUSAL
int g_refusal_check, g_st_entry;
static void c11_die_hook(void)
{
	VASSERT(!g_refusal_check || rproc.st == g_st_entry, "a refused ovni_proc_init/ovni_proc_fini leaves the process state untouched");
}
void h_proc_init_refused(void)
{
	int st0 = nondet_int(), app = nondet_int(), pid = nondet_int();
	__CPROVER_assume(st0 == ST_INIT || st0 == ST_READY || st0 == ST_GONE);
	rproc.st = st0;
	g_st_entry = st0; g_refusal_check = 1;
	if (st0 == ST_INIT) REACH("ovni_proc_init attempted while another initialisation is in progress");
	if (st0 == ST_READY) REACH("ovni_proc_init attempted on an initialised process");
	if (st0 == ST_GONE) REACH("ovni_proc_init attempted after ovni_proc_fini");
	ovni_proc_init(app, "loom", pid);
	VASSERT(0, "ovni_proc_init must never return unless the state was UNINIT");
}
void h_proc_fini_refused(void)
{
	int st0 = nondet_int();
	__CPROVER_assume(st0 == ST_UNINIT || st0 == ST_INIT || st0 == ST_GONE);
	rproc.st = st0;
	g_st_entry = st0; g_refusal_check = 1;
	if (st0 == ST_UNINIT) REACH("ovni_proc_fini attempted before ovni_proc_init");
	if (st0 == ST_INIT) REACH("ovni_proc_fini attempted while initialisation is in progress");
	if (st0 == ST_GONE) REACH("ovni_proc_fini attempted twice");
	ovni_proc_fini();
	VASSERT(0, "ovni_proc_fini must never return unless the state was READY");
}
/* one process life, sequentially: init, [losing second init], fini, [losing second fini |
 * init after fini]: each loser is refused, the winner's effect stays */
void h_once_sequential(void)
{
	int app = nondet_int(), pid = nondet_int(), which = nondet_int();
	VASSERT(rproc.st == ST_UNINIT, "a process starts UNINIT (static initialiser)");
	ovni_proc_init(app, "loom", pid);
	REACH("first ovni_proc_init returns");
	VASSERT(rproc.st == ST_READY && rproc.pid == pid && rproc.app == app, "first ovni_proc_init took effect");
	g_refusal_check = 1; g_st_entry = ST_READY;
	if (which == 0) {
		int app2 = nondet_int(), pid2 = nondet_int();
		ovni_proc_init(app2, "other", pid2);
		VASSERT(0, "second ovni_proc_init must be refused");
	}
	g_refusal_check = 0;
	ovni_proc_fini();
	REACH("first ovni_proc_fini returns");
	VASSERT(rproc.st == ST_GONE, "ovni_proc_fini took effect");
	g_refusal_check = 1; g_st_entry = ST_GONE;
	if (which == 1) {
		ovni_proc_fini();
		VASSERT(0, "second ovni_proc_fini must be refused");
	}
	if (which == 2) {
		ovni_proc_init(app, "loom", pid);
		VASSERT(0, "ovni_proc_init after ovni_proc_fini must be refused");
	}
}
#endif
