/* C14 -- emulator side: should_enable, model_version_probe on the real src/emu/model.c
 * (model_probe, model_event: harness/c14_probe.c -- a separate unit because DFCC makes
 * every static object of the unit nondeterministic in every group, and that harness
 * owns 40 KB of them).  version_parse / version_is_compatible are replaced by the
 * contracts proved in harness/c14_version.c. */
#include "prelude.h"
#include "harness/c14_vspec.c"
#include "parson.h"

/* ---- trusted: ghost JSON view and the assumed contracts of the two parson getters ----
 * A stream's metadata object (thread->meta) is viewed as: its "ovni.require" member (an
 * object, or absent), and in that object the ONE member whose key is `key` (the model
 * under consideration) with its string value (or absent).  A getter asked for anything
 * else answers arbitrarily (NULL or the tracked member), so code asking for the wrong
 * key cannot satisfy the contracts below. */
struct json_object_t {
	struct json_object_t *require;   /* root: value of "ovni.require", NULL if absent */
	const char *key;                 /* require object: the tracked key ...            */
	const char *value;               /* ... and its string value, NULL if absent       */
};

JSON_Object *json_object_dotget_object(const JSON_Object *object, const char *name)
{
	if (name[0] == 'o' && name[1] == 'v' && name[2] == 'n' && name[3] == 'i' && name[4] == '.' &&
			name[5] == 'r' && name[6] == 'e' && name[7] == 'q' && name[8] == 'u' && name[9] == 'i' &&
			name[10] == 'r' && name[11] == 'e' && name[12] == '\0')
		return object->require;
	return nondet_bool() ? NULL : object->require;
}

const char *json_object_get_string(const JSON_Object *object, const char *name)
{
	if (name == object->key)
		return object->value;
	return nondet_bool() ? NULL : object->value;
}

#include "model.c"                     /* the real /repo/src/emu/model.c */
#include "harness/c14_vcontract.c"

/* =====================================================================================
 * should_enable: does stream t require this model, in a version the emulator can process?
 * Statement: "... the emulator decides whether it can process the model versions a trace
 * requires; malformed version strings are refused."
 *    0  the stream does not require the model
 *    1  it requires a well-formed version with the same major and a minor not greater
 *   -1  no metadata / no "ovni.require" / malformed version / incompatible version
 * ===================================================================================== */
/* heap shape of one stream's metadata view; the required version string (if any) is in
 * the domain of version_parse's contract */
#define META_SHAPE(t, spec) ( \
	(t)->meta == NULL || (__CPROVER_is_fresh((t)->meta, sizeof(struct json_object_t)) && ( \
	(t)->meta->require == NULL || (__CPROVER_is_fresh((t)->meta->require, sizeof(struct json_object_t)) && \
	(t)->meta->require->key == (spec)->name && ( \
	(t)->meta->require->value == NULL || (__CPROVER_is_fresh((t)->meta->require->value, VP_N) && \
	vp_pre((t)->meta->require->value)))))))

/* the specification, one evaluation of the scanner */
static int se_expected(int have_major, int have_minor, const struct thread *t)
{
	if (t->meta == NULL || t->meta->require == NULL)
		return -1;
	if (t->meta->require->value == NULL)
		return 0;
	struct vp_str v = vp_load(t->meta->require->value);
	const char *req = v.c;
	if (!spec_wellformed(req))
		return -1;
	struct vp_shape sh = vp_shape_strict(req);
	long want_major = (long) (vp_dec_mag(req, sh.a[0], sh.b[0]) & 0x7fffffffUL);
	long want_minor = (long) (vp_dec_mag(req, sh.a[1], sh.b[1]) & 0x7fffffffUL);
	return VP_COMPAT(want_major, want_minor, (long) have_major, (long) have_minor) ? 1 : -1;
}

int w_meta, w_require, w_value, w_have0, w_have1, w_have2s;
char w_req[VP_N];
WITNESS(should_enable);
#define SE_BIND(have, t) ( \
	w_have0 == (have)[0] && w_have1 == (have)[1] && w_have2s == (have)[2] && \
	w_meta == ((t)->meta != NULL) && w_require == ((t)->meta != NULL && (t)->meta->require != NULL) && \
	w_value == ((t)->meta != NULL && (t)->meta->require != NULL && (t)->meta->require->value != NULL) && \
	(!w_value || ( \
	w_req[0] == (t)->meta->require->value[0] && w_req[1] == (t)->meta->require->value[1] && \
	w_req[2] == (t)->meta->require->value[2] && w_req[3] == (t)->meta->require->value[3] && \
	w_req[4] == (t)->meta->require->value[4] && w_req[5] == (t)->meta->require->value[5] && \
	w_req[6] == (t)->meta->require->value[6] && w_req[7] == (t)->meta->require->value[7] && \
	w_req[8] == (t)->meta->require->value[8] && w_req[9] == (t)->meta->require->value[9] && \
	w_req[10] == (t)->meta->require->value[10] && w_req[11] == (t)->meta->require->value[11] && \
	VP_BIND_INT(w_req))))

/* Verdict oracle, for the group of the CALLER (model_version_probe).  There the call is
 * replaced by this contract with the witness flag OFF: the clause "ret == se_expected"
 * is then not evaluated (no string is scanned again) and the result is the arbitrary
 * but fixed verdict g_se_v[i] of the stream g_se_t[i] -- every combination of verdicts
 * is explored, so the caller is proved for whatever should_enable answers; that the
 * answer IS se_expected(have, t) is what THIS group proves (flag ON: slot 0 is bound to
 * the stream at hand and to se_expected, so "ret == SE_ORACLE(t)" says the same thing). */
const struct thread *g_se_t[3];    /* the streams of the system, in list order (NULL: absent) */
int g_se_v[3];                     /* should_enable's verdict for each of them */
int g_se_have0, g_se_have1;        /* the model version the verdicts refer to */
#define SE_ORACLE(t) ((t) == g_se_t[0] ? g_se_v[0] : (t) == g_se_t[1] ? g_se_v[1] : g_se_v[2])

int c_should_enable(int have[3], struct model_spec *spec, struct thread *t)
__CPROVER_requires(__CPROVER_is_fresh(have, 3 * sizeof(int)))
__CPROVER_requires(__CPROVER_is_fresh(spec, sizeof(*spec)))
__CPROVER_requires(__CPROVER_is_fresh(t, sizeof(*t)))
/* proof of should_enable (flag ON): the stream's metadata view, witnesses, oracle slot 0 */
__CPROVER_requires(WBIND(should_enable, META_SHAPE(t, spec) && SE_BIND(have, t) &&
	g_se_t[0] == t && g_se_v[0] == se_expected(have[0], have[1], t)))
/* use in a caller (flag OFF): the call is one the oracle speaks about */
__CPROVER_requires(g_w_should_enable || (have[0] == g_se_have0 && have[1] == g_se_have1 &&
	t != NULL && (t == g_se_t[0] || t == g_se_t[1] || t == g_se_t[2])))
__CPROVER_requires(DIAG_PRE_MID)
__CPROVER_assigns(__CPROVER_errno, DIAG_FRAME, MODEL_FRAME)
/* everything read lies outside the frame: the post-state evaluation is the pre-state one */
__CPROVER_ensures(!g_w_should_enable || __CPROVER_return_value == se_expected(have[0], have[1], t))
__CPROVER_ensures(__CPROVER_return_value == SE_ORACLE(t))
/* a refusal comes with a diagnostic; at most two per call */
__CPROVER_ensures(__CPROVER_return_value >= 0 || g_err > __CPROVER_old(g_err))
__CPROVER_ensures(g_err >= __CPROVER_old(g_err) && g_err - __CPROVER_old(g_err) <= 2u &&
	g_diag >= __CPROVER_old(g_diag) && g_diag - __CPROVER_old(g_diag) <= 2u && g_warn == __CPROVER_old(g_warn))
;

void h_should_enable(void)
{
	int *have;
	struct model_spec *spec;
	struct thread *t;
	WITNESS_ON(should_enable);
	WITNESS_OFF(version_parse);
	WITNESS_OFF(version_is_compatible);
	int r = should_enable(have, spec, t);
	if (r == 0) REACH("model not required by this stream");
	if (r == 1) REACH("required in a compatible version");
	if (r == 1 && w_req[5] == '-') REACH("required in a compatible version with a suffix");
	if (r == -1 && !w_meta) REACH("no metadata");
	if (r == -1 && w_meta && !w_require) REACH("no ovni.require");
	if (r == -1 && w_value && w_req[0] == '1' && w_req[1] == '.' && w_req[2] == '2' && w_req[3] == '\0') REACH("malformed required version refused");
	if (r == -1 && w_value && w_req[0] == '1' && w_req[1] == '.' && w_req[2] == '2' && w_req[3] == '.' && w_req[4] == '3' && w_req[5] == '\0') REACH("well-formed but incompatible version refused");
}

/* =====================================================================================
 * model_version_probe: "A model is enabled in emulation exactly when some stream requires
 * it": 1 iff some stream requires it (all verdicts >= 0), 0 iff none does, -1 iff the
 * model's own version string is malformed or should_enable refuses some stream (its
 * requirement is unreadable / malformed / incompatible).  should_enable is replaced by
 * its contract in oracle mode (see above): verdict i is what it answers for stream i,
 * called with the model's parsed version.  Bounded: at most 3 streams.
 * ===================================================================================== */
#define T1(emu) ((emu)->system.threads)
#define THREADS_SHAPE(emu) ( \
	T1(emu) == NULL || (__CPROVER_is_fresh(T1(emu), sizeof(struct thread)) && ( \
	T1(emu)->gnext == NULL || (__CPROVER_is_fresh(T1(emu)->gnext, sizeof(struct thread)) && ( \
	T1(emu)->gnext->gnext == NULL || (__CPROVER_is_fresh(T1(emu)->gnext->gnext, sizeof(struct thread)) && \
	T1(emu)->gnext->gnext->gnext == NULL))))))
#define T2(emu) (T1(emu) == NULL ? NULL : T1(emu)->gnext)
#define T3(emu) (T2(emu) == NULL ? NULL : T2(emu)->gnext)
#define VERDICT_OK(v) ((v) == -1 || (v) == 0 || (v) == 1)

/* the model's own version, one evaluation of the scanner: 0 if malformed, else 1 and
 * the major/minor numbers in *major, *minor */
static int mvp_version_wf(const struct model_spec *spec)
{
	if (spec->version == NULL)
		return 0;
	struct vp_str v = vp_load(spec->version);
	return spec_wellformed(v.c);
}
static int mvp_version_num(const struct model_spec *spec, int k)
{
	struct vp_str v = vp_load(spec->version);
	return spec_value(v.c, k);
}
static int mvp_expected(int version_wf, int n, int v1, int v2, int v3)
{
	if (!version_wf)
		return -1;
	int r1 = n >= 1 ? v1 : 0, r2 = n >= 2 ? v2 : 0, r3 = n >= 3 ? v3 : 0;
	if (r1 < 0 || r2 < 0 || r3 < 0)
		return -1;
	return (r1 > 0 || r2 > 0 || r3 > 0) ? 1 : 0;
}

int w_nthreads, w_version_wf;
int w_v0, w_v1, w_v2;              /* the oracle's verdict per stream, for the native replay driver */
WITNESS(model_version_probe);

int c_model_version_probe(struct model_spec *spec, struct emu *emu)
__CPROVER_requires(__CPROVER_is_fresh(spec, sizeof(*spec)))
__CPROVER_requires(__CPROVER_is_fresh(emu, sizeof(*emu)))
__CPROVER_requires(spec->version == NULL || (__CPROVER_is_fresh(spec->version, VP_N) && vp_pre(spec->version)))
__CPROVER_requires(THREADS_SHAPE(emu))
__CPROVER_requires(DIAG_PRE)
/* pre-state facts: number of streams, the model version; oracle: the streams and an
 * arbitrary verdict for each */
__CPROVER_requires(w_nthreads == (T1(emu) == NULL ? 0 : T2(emu) == NULL ? 1 : T3(emu) == NULL ? 2 : 3))
__CPROVER_requires(w_version_wf == mvp_version_wf(spec))
__CPROVER_requires(!w_version_wf || (g_se_have0 == mvp_version_num(spec, 0) && g_se_have1 == mvp_version_num(spec, 1)))
__CPROVER_requires(g_se_t[0] == T1(emu) && g_se_t[1] == T2(emu) && g_se_t[2] == T3(emu))
__CPROVER_requires(VERDICT_OK(g_se_v[0]) && VERDICT_OK(g_se_v[1]) && VERDICT_OK(g_se_v[2]))
__CPROVER_requires(w_v0 == g_se_v[0] && w_v1 == g_se_v[1] && w_v2 == g_se_v[2])
__CPROVER_assigns(__CPROVER_errno, DIAG_FRAME, MODEL_FRAME, g_died)
__CPROVER_ensures(__CPROVER_return_value == mvp_expected(w_version_wf, w_nthreads, g_se_v[0], g_se_v[1], g_se_v[2]))
__CPROVER_ensures(__CPROVER_return_value >= 0 || g_err > __CPROVER_old(g_err))
;

void h_model_version_probe(void)
{
	struct model_spec *spec;
	struct emu *emu;
	WITNESS_OFF(should_enable);                /* oracle mode */
	WITNESS_OFF(version_parse);
	WITNESS_OFF(version_is_compatible);
	int r = model_version_probe(spec, emu);
	if (r == 1) REACH("model enabled: some stream requires it");
	if (r == 1 && w_nthreads == 3 && g_se_v[0] == 0 && g_se_v[1] == 0) REACH("model enabled by the third stream only");
	if (r == 1 && w_nthreads == 3 && g_se_v[0] == 1 && g_se_v[2] == 0) REACH("model enabled by the first stream only");
	if (r == 0 && w_nthreads == 0) REACH("model disabled: no streams");
	if (r == 0 && w_nthreads == 3) REACH("model disabled: three streams, none requires it");
	if (r == -1 && !w_version_wf) REACH("malformed model version");
	if (r == -1 && w_version_wf && w_nthreads == 3 && g_se_v[0] == 1 && g_se_v[1] == 1) REACH("refused by the third stream although two require it compatibly");
	if (r == -1 && w_version_wf && w_nthreads == 2 && g_se_v[0] == -1) REACH("refused by the first of two streams");
}
