/* C14 -- emulator side: should_enable, model_version_probe on the real src/emu/model.c
 * (model_probe, model_event: harness/c14_probe.c -- a separate unit because DFCC makes
 * every static object of the unit nondeterministic in every group, and that harness
 * owns 40 KB of them).  version_parse / version_is_compatible are replaced by the
 * contracts proved in harness/c14_version.c. */
#include "prelude.h"
#include "harness/c14_vspec.c"
#include "parson.h"

/* ---- trusted: ghost JSON view and the assumed contracts of the two parson getters ----
 * A stream's metadata object (thread->meta) is viewed as: its "ovni.require" member (an
 * object, or absent), and in that object the ONE member whose key is `key` (the model
 * under consideration) with its string value (or absent).  A getter asked for anything
 * else answers arbitrarily (NULL or the tracked member), so code asking for the wrong
 * key cannot satisfy the contracts below. */
struct json_object_t {
	struct json_object_t *require;   /* root: value of "ovni.require", NULL if absent */
	const char *key;                 /* require object: the tracked key ...            */
	const char *value;               /* ... and its string value, NULL if absent       */
};

JSON_Object *json_object_dotget_object(const JSON_Object *object, const char *name)
{
	if (name[0] == 'o' && name[1] == 'v' && name[2] == 'n' && name[3] == 'i' && name[4] == '.' &&
			name[5] == 'r' && name[6] == 'e' && name[7] == 'q' && name[8] == 'u' && name[9] == 'i' &&
			name[10] == 'r' && name[11] == 'e' && name[12] == '\0')
		return object->require;
	return nondet_bool() ? NULL : object->require;
}

const char *json_object_get_string(const JSON_Object *object, const char *name)
{
	if (name == object->key)
		return object->value;
	return nondet_bool() ? NULL : object->value;
}

#include "model.c"                     /* the real /repo/src/emu/model.c */
#include "harness/c14_vcontract.c"

/* =====================================================================================
 * should_enable: does stream t require this model, in a version the emulator can process?
 * Statement: "... the emulator decides whether it can process the model versions a trace
 * requires; malformed version strings are refused."
 *    0  the stream does not require the model
 *    1  it requires a well-formed version with the same major and a minor not greater
 *   -1  no metadata / no "ovni.require" / malformed version / incompatible version
 * ===================================================================================== */
/* heap shape of one stream's metadata view; the required version string (if any) is in
 * the domain of version_parse's contract */
#define META_SHAPE(t, spec) ( \
	(t)->meta == NULL || (__CPROVER_is_fresh((t)->meta, sizeof(struct json_object_t)) && ( \
	(t)->meta->require == NULL || (__CPROVER_is_fresh((t)->meta->require, sizeof(struct json_object_t)) && \
	(t)->meta->require->key == (spec)->name && ( \
	(t)->meta->require->value == NULL || (__CPROVER_is_fresh((t)->meta->require->value, VP_N) && \
	vp_pre((t)->meta->require->value)))))))

/* the specification, one evaluation of the scanner */
static int se_expected(int have_major, int have_minor, const struct thread *t)
{
	if (t->meta == NULL || t->meta->require == NULL)
		return -1;
	if (t->meta->require->value == NULL)
		return 0;
	struct vp_str v = vp_load(t->meta->require->value);
	const char *req = v.c;
	if (!spec_wellformed(req))
		return -1;
	struct vp_shape sh = vp_shape_strict(req);
	long want_major = (long) (vp_dec_mag(req, sh.a[0], sh.b[0]) & 0x7fffffffUL);
	long want_minor = (long) (vp_dec_mag(req, sh.a[1], sh.b[1]) & 0x7fffffffUL);
	return VP_COMPAT(want_major, want_minor, (long) have_major, (long) have_minor) ? 1 : -1;
}

int w_meta, w_require, w_value, w_have0, w_have1, w_have2s;
char w_req[VP_N];
WITNESS(should_enable);
#define SE_BIND(have, t) ( \
	w_have0 == (have)[0] && w_have1 == (have)[1] && w_have2s == (have)[2] && \
	w_meta == ((t)->meta != NULL) && w_require == ((t)->meta != NULL && (t)->meta->require != NULL) && \
	w_value == ((t)->meta != NULL && (t)->meta->require != NULL && (t)->meta->require->value != NULL) && \
	(!w_value || ( \
	w_req[0] == (t)->meta->require->value[0] && w_req[1] == (t)->meta->require->value[1] && \
	w_req[2] == (t)->meta->require->value[2] && w_req[3] == (t)->meta->require->value[3] && \
	w_req[4] == (t)->meta->require->value[4] && w_req[5] == (t)->meta->require->value[5] && \
	w_req[6] == (t)->meta->require->value[6] && w_req[7] == (t)->meta->require->value[7] && \
	w_req[8] == (t)->meta->require->value[8] && w_req[9] == (t)->meta->require->value[9] && \
	w_req[10] == (t)->meta->require->value[10] && w_req[11] == (t)->meta->require->value[11])))

int c_should_enable(int have[3], struct model_spec *spec, struct thread *t)
__CPROVER_requires(__CPROVER_is_fresh(have, 3 * sizeof(int)))
__CPROVER_requires(__CPROVER_is_fresh(spec, sizeof(*spec)))
__CPROVER_requires(__CPROVER_is_fresh(t, sizeof(*t)))
__CPROVER_requires(META_SHAPE(t, spec))
__CPROVER_requires(DIAG_PRE_MID)
__CPROVER_requires(WBIND(should_enable, SE_BIND(have, t)))
__CPROVER_assigns(__CPROVER_errno, DIAG_FRAME, MODEL_FRAME)
/* everything read lies outside the frame: the post-state evaluation is the pre-state one */
__CPROVER_ensures(__CPROVER_return_value == se_expected(have[0], have[1], t))
/* a refusal comes with a diagnostic; at most two per call */
__CPROVER_ensures(__CPROVER_return_value >= 0 || g_err > __CPROVER_old(g_err))
__CPROVER_ensures(g_err >= __CPROVER_old(g_err) && g_err - __CPROVER_old(g_err) <= 2u &&
	g_diag >= __CPROVER_old(g_diag) && g_diag - __CPROVER_old(g_diag) <= 2u && g_warn == __CPROVER_old(g_warn))
;

void h_should_enable(void)
{
	int *have;
	struct model_spec *spec;
	struct thread *t;
	WITNESS_ON(should_enable);
	WITNESS_OFF(version_parse);
	WITNESS_OFF(version_is_compatible);
	int r = should_enable(have, spec, t);
	if (r == 0) REACH("model not required by this stream");
	if (r == 1) REACH("required in a compatible version");
	if (r == 1 && w_req[5] == '-') REACH("required in a compatible version with a suffix");
	if (r == -1 && !w_meta) REACH("no metadata");
	if (r == -1 && w_meta && !w_require) REACH("no ovni.require");
	if (r == -1 && w_value && w_req[0] == '1' && w_req[1] == '.' && w_req[2] == '2' && w_req[3] == '\0') REACH("malformed required version refused");
	if (r == -1 && w_value && w_req[0] == '1' && w_req[1] == '.' && w_req[2] == '2' && w_req[3] == '.' && w_req[4] == '3' && w_req[5] == '\0') REACH("well-formed but incompatible version refused");
}

/* =====================================================================================
 * model_version_probe: "A model is enabled in emulation exactly when some stream requires
 * it": 1 iff some stream requires it (all in processable versions), 0 iff none does,
 * -1 iff the model's own version is malformed or some stream's requirement is
 * unreadable / malformed / incompatible.  Bounded: at most 3 streams.
 * ===================================================================================== */
#define T1(emu) ((emu)->system.threads)
#define THREADS_SHAPE(emu, spec) ( \
	T1(emu) == NULL || (__CPROVER_is_fresh(T1(emu), sizeof(struct thread)) && META_SHAPE(T1(emu), spec) && ( \
	T1(emu)->gnext == NULL || (__CPROVER_is_fresh(T1(emu)->gnext, sizeof(struct thread)) && META_SHAPE(T1(emu)->gnext, spec) && ( \
	T1(emu)->gnext->gnext == NULL || (__CPROVER_is_fresh(T1(emu)->gnext->gnext, sizeof(struct thread)) && \
	META_SHAPE(T1(emu)->gnext->gnext, spec) && T1(emu)->gnext->gnext->gnext == NULL))))))

static int mvp_expected(const struct model_spec *spec, const struct emu *emu)
{
	if (spec->version == NULL)
		return -1;
	struct vp_str v = vp_load(spec->version);
	if (!spec_wellformed(v.c))
		return -1;
	struct vp_shape sh = vp_shape_strict(v.c);
	int have_major = (int) (vp_dec_mag(v.c, sh.a[0], sh.b[0]) & 0x7fffffffUL);
	int have_minor = (int) (vp_dec_mag(v.c, sh.a[1], sh.b[1]) & 0x7fffffffUL);
	const struct thread *t1 = emu->system.threads;
	const struct thread *t2 = t1 ? t1->gnext : NULL;
	const struct thread *t3 = t2 ? t2->gnext : NULL;
	int r1 = t1 ? se_expected(have_major, have_minor, t1) : 0;
	int r2 = t2 ? se_expected(have_major, have_minor, t2) : 0;
	int r3 = t3 ? se_expected(have_major, have_minor, t3) : 0;
	if (r1 < 0 || r2 < 0 || r3 < 0)
		return -1;
	return (r1 > 0 || r2 > 0 || r3 > 0) ? 1 : 0;
}

int w_nthreads, w_r1, w_r2, w_r3, w_version_wf;
WITNESS(model_version_probe);

int c_model_version_probe(struct model_spec *spec, struct emu *emu)
__CPROVER_requires(__CPROVER_is_fresh(spec, sizeof(*spec)))
__CPROVER_requires(__CPROVER_is_fresh(emu, sizeof(*emu)))
__CPROVER_requires(spec->version == NULL || (__CPROVER_is_fresh(spec->version, VP_N) && vp_pre(spec->version)))
__CPROVER_requires(THREADS_SHAPE(emu, spec))
__CPROVER_requires(DIAG_PRE)
__CPROVER_requires(WBIND(model_version_probe,
	w_nthreads == (T1(emu) == NULL ? 0 : T1(emu)->gnext == NULL ? 1 : T1(emu)->gnext->gnext == NULL ? 2 : 3) &&
	w_version_wf == (spec->version != NULL && spec_wellformed(spec->version))))
__CPROVER_assigns(__CPROVER_errno, DIAG_FRAME, MODEL_FRAME, g_died)
__CPROVER_ensures(__CPROVER_return_value == mvp_expected(spec, emu))
__CPROVER_ensures(__CPROVER_return_value >= 0 || g_err > __CPROVER_old(g_err))
;

void h_model_version_probe(void)
{
	struct model_spec *spec;
	struct emu *emu;
	WITNESS_ON(model_version_probe);
	WITNESS_OFF(should_enable);
	WITNESS_OFF(version_parse);
	WITNESS_OFF(version_is_compatible);
	int r = model_version_probe(spec, emu);
	if (r == 1) REACH("model enabled: some stream requires it");
	if (r == 1 && w_nthreads == 3) REACH("model enabled with three streams");
	if (r == 0 && w_nthreads == 0) REACH("model disabled: no streams");
	if (r == 0 && w_nthreads == 3) REACH("model disabled: three streams, none requires it");
	if (r == -1 && !w_version_wf) REACH("malformed model version");
	if (r == -1 && w_version_wf && w_nthreads == 2) REACH("a stream's requirement cannot be processed");
}

