/* C05 -- thread_migrate_cpu of the real thread.c: the thread's CPU pointer and
 * its CPU channel follow an affinity change.  The contract is self-contained
 * (cr_): it replaces thread_migrate_cpu in the affinity handlers. */
#include "prelude.h"
#include "chan.h"
#include "harness/c05_chanlog.h"   /* cr_chan_set, ghost log, chan_set call sites -> logged_chan_set */
#include "thread.c"                 /* the real /repo/src/emu/thread.c */
#include "harness/c05_thread.h"

void h_thread_migrate_cpu(void)
{
	struct thread *th;
	struct cpu *cpu;
	chan_cb_t keep = stub_dirty_cb; (void) keep;
	WITNESS_ON(thread_migrate_cpu);
	WITNESS_OFF(chan_set);
	int r = thread_migrate_cpu(th, cpu);
	if (r == 0) REACH("thread follows the affinity change");
	if (r != 0 && !w_tm_hascpu) REACH("thread without a CPU refused");
	if (r != 0 && w_tm_hascpu) REACH("CPU channel write failed");
}
