/* C12 -- stream header and loading: check_stream_header and load_obs
 * (+ load_stream_fd) on the real stream.c.  open/fstat/mmap/close are outside the
 * unit: most general models over ghost flags (trusted, listed in the plan). */
#include "prelude.h"
#include "ovni.h"

/* ---- POSIX models (every call may fail) ---- */
int g_io_failed;     /* some system call reported failure */
int g_mapped;        /* mmap succeeded */
long g_st_size;      /* size fstat reported */
unsigned g_io_calls; /* number of system calls made */
long nondet_off(void);
static inline int verif_open(const char *path, int flags)
{
	(void) path; (void) flags;
	g_io_calls++;
	int fd = nondet_int();
	__CPROVER_assume(fd >= -1);
	if (fd == -1) g_io_failed = 1;
	return fd;
}
#define open(path, flags) verif_open(path, flags)   /* variadic in libc: DFCC cannot instrument it */
int fstat(int fd, struct stat *st)
{
	(void) fd;
	g_io_calls++;
	if (nondet_int()) { g_io_failed = 1; return -1; }
	long sz = nondet_off();
	__CPROVER_assume(sz >= 0 && sz <= (1L << 40));   /* a regular file of at most 1 TiB */
	st->st_size = sz;
	g_st_size = sz;
	return 0;
}
void *mmap(void *addr, size_t len, int prot, int flags, int fd, off_t off)
{
	(void) addr; (void) prot; (void) flags; (void) fd; (void) off;
	g_io_calls++;
	if (nondet_int()) { g_io_failed = 1; return MAP_FAILED; }
	void *p = malloc(len);          /* exactly len bytes, arbitrary content */
	__CPROVER_assume(p != NULL);
	g_mapped = 1;
	return p;
}
int close(int fd)
{
	(void) fd;
	g_io_calls++;
	if (nondet_int()) { g_io_failed = 1; return -1; }
	return 0;
}

#include "stream.c"        /* real /repo/src/emu/stream.c */

_Static_assert(sizeof(struct ovni_stream_header) == 8, "stream header is 8 bytes");
/* format (doc/user/runtime/trace_spec.md): 4 bytes "ovni", then u32 version = 1, little endian */
#define SP_LE32(b, o) ((unsigned long) (b)[(o)] | ((unsigned long) (b)[(o) + 1] << 8) | \
		((unsigned long) (b)[(o) + 2] << 16) | ((unsigned long) (b)[(o) + 3] << 24))

/* ======================= check_stream_header ======================= */
long w_size;
unsigned w_version;
unsigned char w_magic0, w_magic1, w_magic2, w_magic3;
WITNESS(check_stream_header);

#define SP_HEADER_OK(s) ((s)->size >= 8 && \
	(s)->buf[0] == 'o' && (s)->buf[1] == 'v' && (s)->buf[2] == 'n' && (s)->buf[3] == 'i' && \
	SP_LE32((s)->buf, 4) == 1UL)

int c_check_stream_header(struct stream *stream)
__CPROVER_requires(__CPROVER_is_fresh(stream, sizeof(*stream)))
__CPROVER_requires(stream->size >= 0 && stream->size <= (1L << 40))
__CPROVER_requires(stream->size == 0 || __CPROVER_is_fresh(stream->buf, stream->size))
__CPROVER_requires(DIAG_PRE)
__CPROVER_requires(WBIND(check_stream_header, w_size == stream->size && (stream->size < 8 || (
	w_magic0 == stream->buf[0] && w_magic1 == stream->buf[1] &&
	w_magic2 == stream->buf[2] && w_magic3 == stream->buf[3] &&
	w_version == (unsigned) SP_LE32(stream->buf, 4)))))
__CPROVER_assigns(DIAG_FRAME)
/* accepted exactly when the header is complete, has the magic and version 1 */
__CPROVER_ensures((__CPROVER_return_value == 0) == SP_HEADER_OK(stream))
__CPROVER_ensures(__CPROVER_return_value == 0 || __CPROVER_return_value == -1)
__CPROVER_ensures(__CPROVER_return_value == 0 || g_err > __CPROVER_old(g_err))
;

void h_check_stream_header(void)
{
	struct stream *s;
	WITNESS_ON(check_stream_header);
	int r = check_stream_header(s);
	if (r == 0) REACH("header accepted");
	if (r == 0 && w_size == 8) REACH("header-only stream accepted");
	if (r != 0 && w_size < 8) REACH("incomplete header refused");
	if (r != 0 && w_size >= 8 && w_version == 1) REACH("wrong magic refused");
	if (r != 0 && w_size >= 8 && w_version != 1 && w_magic0 == 'o' && w_magic1 == 'v' && w_magic2 == 'n' && w_magic3 == 'i')
		REACH("wrong version refused");
}


/* =============================== load_obs =============================== */
/* Accepted exactly when every system call succeeded and the mapped file starts
 * with a valid header; then the cursor sits behind the header and the stream is
 * active iff there is at least one byte of events. */
struct ovni_ev *g_cur0;
WITNESS(load_obs);
int c_load_obs(struct stream *stream, const char *path)
__CPROVER_requires(__CPROVER_is_fresh(stream, sizeof(*stream)))
__CPROVER_requires(DIAG_PRE && g_io_failed == 0 && g_mapped == 0 && g_io_calls == 0)
__CPROVER_requires(g_cur0 == stream->cur_ev)
__CPROVER_assigns(stream->buf, stream->size, stream->offset, stream->usize, stream->active, DIAG_FRAME,
	g_io_failed, g_mapped, g_st_size, g_io_calls)
__CPROVER_ensures(__CPROVER_return_value == 0 || __CPROVER_return_value == -1)
__CPROVER_ensures((__CPROVER_return_value == 0) == (!g_io_failed && g_mapped && g_st_size > 0 && SP_HEADER_OK(stream)))
__CPROVER_ensures(!g_mapped || (stream->size == g_st_size && g_st_size > 0))
__CPROVER_ensures(__CPROVER_return_value != 0 || (
	stream->offset == 8 && stream->usize == stream->size - 8 &&
	stream->active == (stream->size > 8) && stream->cur_ev == g_cur0))
__CPROVER_ensures(__CPROVER_return_value == 0 || g_err > __CPROVER_old(g_err))
;

void h_load_obs(void)
{
	struct stream *s; const char *path;
	int r = load_obs(s, path);
	if (r == 0 && g_st_size == 8) REACH("header-only file loaded, inactive");
	if (r == 0 && g_st_size > 8) REACH("file with events loaded, active");
	if (r != 0 && !g_io_failed && g_st_size == 0) REACH("empty file refused");
	if (r != 0 && !g_io_failed && g_st_size > 0 && g_st_size < 8) REACH("incomplete header refused");
	if (r != 0 && !g_io_failed && g_st_size >= 8) REACH("bad header refused");
	if (r != 0 && g_io_failed && g_mapped) REACH("close failure refused");
}
