/* G4 (C12) -- stream_load, stream_progress, stream_data_set/get on the real src/emu/stream.c.
 *
 * C12: "... wrong magic or version, ... unparsable or version-mismatched metadata ..." are refused
 * by load_obs and load_json (groups load_obs, load_json of this plan); stream_load is where their
 * verdicts must reach trace_load: a stream is loaded exactly when BOTH stream.json and stream.obs
 * of the stream's own directory were accepted (and every path fitted).  load_json / load_obs are
 * replaced by cut contracts (result arbitrary, frame as proved in groups load_json / load_obs,
 * arguments and order recorded); path.c and snprintf are recording stubs with any result. */
#include "prelude.h"
#include "ovni.h"
#include "path.h"

unsigned g_seq;                           /* order of the stages */

/* ---- snprintf: any length; destination, size and the first two arguments recorded ---- */
unsigned g_sn_n, g_sn_o[2]; void *g_sn_dst[2]; size_t g_sn_size[2]; const void *g_sn_a0[2], *g_sn_a1[2]; int g_sn_ret[2];
static inline int g4_snprintf(char *s, size_t n, const void *a0, const void *a1)
{
	int r = verif_snprintf(s, n);
	if (g_sn_n < 2) {
		g_sn_o[g_sn_n] = ++g_seq; g_sn_dst[g_sn_n] = s; g_sn_size[g_sn_n] = n; g_sn_a0[g_sn_n] = a0; g_sn_a1[g_sn_n] = a1; g_sn_ret[g_sn_n] = r;
	}
	g_sn_n++;
	return r;
}
#define G4_FIRST(a, ...) a
#define G4_SECOND(a, b, ...) b
#undef snprintf
#define snprintf(s, n, fmt, ...) g4_snprintf((s), (n), (const void *) G4_FIRST(__VA_ARGS__, 0, 0), (const void *) G4_SECOND(__VA_ARGS__, 0, 0))

/* ---- path.c ---- */
unsigned g_rt_n, g_rt_o; void *g_rt_arg;
void path_remove_trailing(char *path) { g_rt_o = ++g_seq; g_rt_n++; g_rt_arg = path; }
#define IS_LIT_JSON(e) ((e)[0] == 's' && (e)[1] == 't' && (e)[2] == 'r' && (e)[3] == 'e' && (e)[4] == 'a' && (e)[5] == 'm' && (e)[6] == '.' && \
	(e)[7] == 'j' && (e)[8] == 's' && (e)[9] == 'o' && (e)[10] == 'n' && (e)[11] == '\0')
#define IS_LIT_OBS(e) ((e)[0] == 's' && (e)[1] == 't' && (e)[2] == 'r' && (e)[3] == 'e' && (e)[4] == 'a' && (e)[5] == 'm' && (e)[6] == '.' && \
	(e)[7] == 'o' && (e)[8] == 'b' && (e)[9] == 's' && (e)[10] == '\0')
unsigned g_pa_n, g_pa_o[2]; void *g_pa_dst[2]; const void *g_pa_src[2]; int g_pa_kind[2], g_pa_ret[2];   /* kind 1: "stream.json", 2: "stream.obs" */
int path_append(char dst[PATH_MAX], const char *src, const char *extra)
{
	int r = nondet_int();
	if (g_pa_n < 2) {
		g_pa_o[g_pa_n] = ++g_seq; g_pa_dst[g_pa_n] = dst; g_pa_src[g_pa_n] = src; g_pa_ret[g_pa_n] = r;
		g_pa_kind[g_pa_n] = IS_LIT_JSON(extra) ? 1 : IS_LIT_OBS(extra) ? 2 : 0;
	}
	g_pa_n++;
	return r;
}

/* open() is variadic in libc: DFCC cannot instrument the call (not reached here: load_obs is replaced) */
static inline int g4_open(const char *path, int flags) { (void) path; (void) flags; return nondet_int(); }
#define open(path, flags) g4_open(path, flags)

#include "stream.c"                       /* real /repo/src/emu/stream.c */

/* ---- cut contracts of the two loaders ---- */
JSON_Object *g_meta_obj;                  /* what load_json answers: NULL = refused */
unsigned g_lj_n, g_lj_o; unsigned long g_lj_path;
JSON_Object *cc_load_json(const char *path)
__CPROVER_assigns(DIAG_FRAME, g_seq, g_lj_n, g_lj_o, g_lj_path)
__CPROVER_ensures(__CPROVER_return_value == g_meta_obj)
__CPROVER_ensures(g_seq == __CPROVER_old(g_seq) + 1 && g_lj_o == g_seq && g_lj_n == __CPROVER_old(g_lj_n) + 1 && g_lj_path == (unsigned long) path)
__CPROVER_ensures(g_err >= __CPROVER_old(g_err) && g_err - __CPROVER_old(g_err) <= 8 && g_diag >= __CPROVER_old(g_diag) && g_diag - __CPROVER_old(g_diag) <= 8 &&
	g_warn == __CPROVER_old(g_warn))
;
unsigned g_lo_n, g_lo_o; unsigned long g_lo_path, g_lo_stream; int g_lo_ret;
int cc_load_obs(struct stream *stream, const char *path)
__CPROVER_assigns(stream->buf, stream->size, stream->offset, stream->usize, stream->active, DIAG_FRAME, g_seq, g_lo_n, g_lo_o, g_lo_path, g_lo_stream, g_lo_ret)
__CPROVER_ensures((__CPROVER_return_value == 0 || __CPROVER_return_value == -1) && g_lo_ret == __CPROVER_return_value)
__CPROVER_ensures(g_seq == __CPROVER_old(g_seq) + 1 && g_lo_o == g_seq && g_lo_n == __CPROVER_old(g_lo_n) + 1 &&
	g_lo_path == (unsigned long) path && g_lo_stream == (unsigned long) stream)
__CPROVER_ensures(g_err >= __CPROVER_old(g_err) && g_err - __CPROVER_old(g_err) <= 8 && g_diag >= __CPROVER_old(g_diag) && g_diag - __CPROVER_old(g_diag) <= 16 &&
	g_warn >= __CPROVER_old(g_warn) && g_warn - __CPROVER_old(g_warn) <= 8)
;

/* =====================================================================================
 * stream_load
 * ===================================================================================== */
#define SN_OK(k) (g_sn_n > (k) && g_sn_ret[k] < PATH_MAX)
#define PA_OK(k) (g_pa_n > (k) && g_pa_ret[k] == 0)
#define LJ_OK (g_lj_n == 1 && g_meta_obj != NULL)
#define LO_OK (g_lo_n == 1 && g_lo_ret == 0)
int c_stream_load(struct stream *stream, const char *tracedir, const char *relpath)
__CPROVER_requires(__CPROVER_is_fresh(stream, sizeof(*stream)))
__CPROVER_requires(DIAG_PRE && g_seq == 0 && g_sn_n == 0 && g_rt_n == 0 && g_pa_n == 0 && g_lj_n == 0 && g_lo_n == 0)
__CPROVER_assigns(__CPROVER_object_whole(stream), DIAG_FRAME, g_seq, g_sn_n, __CPROVER_object_whole(g_sn_o), __CPROVER_object_whole(g_sn_dst),
	__CPROVER_object_whole(g_sn_size), __CPROVER_object_whole(g_sn_a0), __CPROVER_object_whole(g_sn_a1), __CPROVER_object_whole(g_sn_ret),
	g_rt_n, g_rt_o, g_rt_arg, g_pa_n, __CPROVER_object_whole(g_pa_o), __CPROVER_object_whole(g_pa_dst), __CPROVER_object_whole(g_pa_src),
	__CPROVER_object_whole(g_pa_kind), __CPROVER_object_whole(g_pa_ret), g_lj_n, g_lj_o, g_lj_path, g_lo_n, g_lo_o, g_lo_path, g_lo_stream, g_lo_ret)
__CPROVER_ensures(__CPROVER_return_value == 0 || __CPROVER_return_value == -1)
/* loaded exactly when every path fitted and BOTH files were accepted */
__CPROVER_ensures((__CPROVER_return_value == 0) == (SN_OK(0) && SN_OK(1) && PA_OK(0) && LJ_OK && PA_OK(1) && LO_OK))
__CPROVER_ensures(__CPROVER_return_value == 0 || g_err > __CPROVER_old(g_err))
/* stage 1: the stream directory is tracedir/relpath, without trailing slashes */
__CPROVER_ensures(g_sn_n >= 1 && g_sn_o[0] == 1 && g_sn_dst[0] == stream->path && g_sn_size[0] == PATH_MAX && g_sn_a0[0] == tracedir && g_sn_a1[0] == relpath)
__CPROVER_ensures(g_rt_n == (SN_OK(0) ? 1u : 0u) && (g_rt_n == 0 || (g_rt_o == 2 && g_rt_arg == stream->path)))
/* stage 2: the relative path is stored as given */
__CPROVER_ensures(g_sn_n == (SN_OK(0) ? 2u : 1u))
__CPROVER_ensures(g_sn_n < 2 || (g_sn_o[1] == 3 && g_sn_dst[1] == stream->relpath && g_sn_size[1] == PATH_MAX && g_sn_a0[1] == relpath))
/* stage 3: metadata from <stream dir>/stream.json */
__CPROVER_ensures(g_pa_n == ((SN_OK(0) && SN_OK(1)) ? (LJ_OK && PA_OK(0) ? 2u : 1u) : 0u))
__CPROVER_ensures(g_pa_n < 1 || (g_pa_o[0] == 4 && g_pa_dst[0] == stream->jsonpath && g_pa_src[0] == stream->path && g_pa_kind[0] == 1))
__CPROVER_ensures(g_lj_n == (PA_OK(0) ? 1u : 0u) && (g_lj_n == 0 || (g_lj_o == 5 && g_lj_path == (unsigned long) stream->jsonpath)))
__CPROVER_ensures(g_lj_n == 0 || stream->meta == g_meta_obj)
/* stage 4: events from <stream dir>/stream.obs, only once the metadata was accepted */
__CPROVER_ensures(g_pa_n < 2 || (g_pa_o[1] == 6 && g_pa_dst[1] == stream->obspath && g_pa_src[1] == stream->path && g_pa_kind[1] == 2))
__CPROVER_ensures(g_lo_n == (PA_OK(1) ? 1u : 0u) && (g_lo_n == 0 || (g_lo_o == 7 && g_lo_path == (unsigned long) stream->obspath && g_lo_stream == (unsigned long) stream)))
/* everything else starts from zero: no event loaded, clocks at 0, sorted mode, no offset */
__CPROVER_ensures(stream->cur_ev == NULL && stream->lastclock == 0 && stream->deltaclock == 0 && stream->clock_offset == 0 &&
	stream->unsorted == 0 && stream->data == NULL && stream->next == NULL && stream->prev == NULL)
__CPROVER_ensures(g_lj_n == 1 || stream->meta == NULL)
__CPROVER_ensures(g_lo_n == 1 || (stream->buf == NULL && stream->size == 0 && stream->offset == 0 && stream->usize == 0 && stream->active == 0))
;
void h_stream_load(void)
{
	struct stream *s; const char *tracedir, *relpath;
	int r = stream_load(s, tracedir, relpath);
	if (r == 0) REACH("stream loaded");
	if (r == -1 && g_sn_n == 1) REACH("stream directory path too long");
	if (r == -1 && g_sn_n == 2 && g_pa_n == 0) REACH("relative path too long");
	if (r == -1 && g_pa_n == 1 && g_lj_n == 0) REACH("metadata path too long");
	if (r == -1 && g_lj_n == 1 && g_meta_obj == NULL) REACH("metadata refused");
	if (r == -1 && g_pa_n == 2 && g_lo_n == 0) REACH("event file path too long");
	if (r == -1 && g_lo_n == 1) REACH("event file refused");
}

/* =====================================================================================
 * stream_progress: bytes consumed behind the 8-byte header / useful bytes
 * ===================================================================================== */
_Static_assert(sizeof(struct ovni_stream_header) == 8, "stream header is 8 bytes");
long w_offset, w_usize;
void c_stream_progress(struct stream *stream, int64_t *done, int64_t *total)
__CPROVER_requires(__CPROVER_is_fresh(stream, sizeof(*stream)))
__CPROVER_requires(__CPROVER_is_fresh(done, sizeof(*done)))
__CPROVER_requires(__CPROVER_is_fresh(total, sizeof(*total)))
/* the cursor is 0 (not loaded) or behind the header; it never goes negative */
__CPROVER_requires(stream->offset >= 0)
__CPROVER_requires(w_offset == stream->offset && w_usize == stream->usize)
__CPROVER_assigns(*done, *total)
__CPROVER_ensures(*done == stream->offset - 8 && *total == stream->usize)
__CPROVER_ensures(*done == w_offset - 8 && *total == w_usize)
;
void h_stream_progress(void)
{
	struct stream *s; int64_t *done, *total;
	stream_progress(s, done, total);
	if (w_offset == 8) REACH("nothing consumed yet");
	if (w_offset - 8 == w_usize && w_usize > 0) REACH("everything consumed");
}

/* =====================================================================================
 * stream_data_set / stream_data_get
 * ===================================================================================== */
void c_stream_data_set(struct stream *stream, void *data)
__CPROVER_requires(__CPROVER_is_fresh(stream, sizeof(*stream)))
__CPROVER_assigns(stream->data)
__CPROVER_ensures(stream->data == data)
;
void h_stream_data_set(void)
{
	struct stream *s; void *data;
	stream_data_set(s, data);
	REACH("set");
}
void *g_data0;
void *c_stream_data_get(struct stream *stream)
__CPROVER_requires(__CPROVER_is_fresh(stream, sizeof(*stream)))
__CPROVER_requires(g_data0 == stream->data)
__CPROVER_assigns()
__CPROVER_ensures(__CPROVER_return_value == g_data0 && stream->data == g_data0)
;
void h_stream_data_get(void)
{
	struct stream *s;
	void *d = stream_data_get(s);
	if (d == NULL) REACH("no data");
	if (d != NULL) REACH("data");
}
