/* G4 (C12) -- emu_init, emu_connect, emu_finish on the real src/emu/emu.c.
 *
 * "The emulator exits with failure, and never prints that emulation finished ok, whenever ..."
 * rests on every stage's verdict reaching main: a stage that fails makes emu_init / emu_connect
 * return -1 and NO later stage runs; emu_finish runs both finishing stages whatever the first one
 * says and returns -1 if either failed.  The stages live in other files (their own groups): here
 * they are stubs that return any value and record order, result and arguments in ghosts.
 * The order of the stages is pinned as the code has it. */
#include "prelude.h"
#include "emu.h"
#include "stream.h"
#include "system.h"
#include "emu_ev.h"

#define NC (-1000)                 /* result of a stage that was not called */
unsigned g_seq;                    /* number of stage calls so far */
static inline int g4_any(void) { int r = nondet_int(); __CPROVER_assume(r != NC); return r; }

/* ---- stages of emu_init ---- */
char *g_tracedir;                  /* what the argument parser found (arbitrary) */
unsigned g_o_args; void *g_a_args; int g_a_argc; void *g_a_argv;
void emu_args_init(struct emu_args *args, int argc, char *argv[])
{ g_o_args = ++g_seq; g_a_args = args; g_a_argc = argc; g_a_argv = argv; args->tracedir = g_tracedir; }

unsigned g_o_trace; int g_r_trace; void *g_a_trace; const void *g_a_trace_dir;
int trace_load(struct trace *trace, const char *tracedir)
{ g_o_trace = ++g_seq; g_a_trace = trace; g_a_trace_dir = tracedir; return g_r_trace = g4_any(); }

unsigned g_o_system; int g_r_system; void *g_a_system, *g_a_system_args, *g_a_system_trace;
int system_init(struct system *sys, struct emu_args *args, struct trace *trace)
{ g_o_system = ++g_seq; g_a_system = sys; g_a_system_args = args; g_a_system_trace = trace; return g_r_system = g4_any(); }

unsigned g_o_rec; int g_r_rec; void *g_a_rec; const void *g_a_rec_dir;
int recorder_init(struct recorder *rec, const char *dir)
{ g_o_rec = ++g_seq; g_a_rec = rec; g_a_rec_dir = dir; return g_r_rec = g4_any(); }

unsigned g_o_bay; void *g_a_bay;
void bay_init(struct bay *bay) { g_o_bay = ++g_seq; g_a_bay = bay; }

unsigned g_o_sysconn; int g_r_sysconn; void *g_a_sysconn, *g_a_sysconn_bay, *g_a_sysconn_rec;
int system_connect(struct system *sys, struct bay *bay, struct recorder *rec)
{ g_o_sysconn = ++g_seq; g_a_sysconn = sys; g_a_sysconn_bay = bay; g_a_sysconn_rec = rec; return g_r_sysconn = g4_any(); }

unsigned g_o_player; int g_r_player; void *g_a_player, *g_a_player_trace; int g_a_player_unsorted;
int player_init(struct player *player, struct trace *trace, int unsorted)
{ g_o_player = ++g_seq; g_a_player = player; g_a_player_trace = trace; g_a_player_unsorted = unsorted; return g_r_player = g4_any(); }

unsigned g_o_minit; void *g_a_minit;
void model_init(struct model *model) { g_o_minit = ++g_seq; g_a_minit = model; }

unsigned g_o_reg; int g_r_reg; void *g_a_reg;
int models_register(struct model *model) { g_o_reg = ++g_seq; g_a_reg = model; return g_r_reg = g4_any(); }

unsigned g_o_probe; int g_r_probe; void *g_a_probe, *g_a_probe_emu;
int model_probe(struct model *model, struct emu *emu)
{ g_o_probe = ++g_seq; g_a_probe = model; g_a_probe_emu = emu; return g_r_probe = g4_any(); }

unsigned g_o_create; int g_r_create; void *g_a_create, *g_a_create_emu;
int model_create(struct model *model, struct emu *emu)
{ g_o_create = ++g_seq; g_a_create = model; g_a_create_emu = emu; return g_r_create = g4_any(); }

unsigned g_o_stat; void *g_a_stat;
void emu_stat_init(struct emu_stat *stat) { g_o_stat = ++g_seq; g_a_stat = stat; }

/* ---- stages of emu_connect ---- */
unsigned g_o_mconn; int g_r_mconn; void *g_a_mconn, *g_a_mconn_emu;
int model_connect(struct model *model, struct emu *emu)
{ g_o_mconn = ++g_seq; g_a_mconn = model; g_a_mconn_emu = emu; return g_r_mconn = g4_any(); }

unsigned g_o_prop; int g_r_prop; void *g_a_prop;
int bay_propagate(struct bay *bay) { g_o_prop = ++g_seq; g_a_prop = bay; return g_r_prop = g4_any(); }

/* ---- stages of emu_finish ---- */
unsigned g_o_report; void *g_a_report, *g_a_report_player; int g_a_report_last;
void emu_stat_report(struct emu_stat *stat, struct player *player, int last)
{ g_o_report = ++g_seq; g_a_report = stat; g_a_report_player = player; g_a_report_last = last; }

unsigned g_o_mfin; int g_r_mfin; void *g_a_mfin, *g_a_mfin_emu;
int model_finish(struct model *model, struct emu *emu)
{ g_o_mfin = ++g_seq; g_a_mfin = model; g_a_mfin_emu = emu; return g_r_mfin = g4_any(); }

unsigned g_o_rfin; int g_r_rfin; void *g_a_rfin;
int recorder_finish(struct recorder *rec) { g_o_rfin = ++g_seq; g_a_rfin = rec; return g_r_rfin = g4_any(); }

#include "emu.c"                   /* real /repo/src/emu/emu.c */

#define OK(x) (g_r_##x == 0)
#define ORD(x, cond, n) (g_o_##x == ((cond) ? (unsigned) (n) : 0u))

/* =====================================================================================
 * emu_init
 * ===================================================================================== */
int g_k;                           /* observed slot of emu->ext: arbitrary */
#define INIT_ZERO (g_seq == 0 && g_o_args == 0 && g_o_trace == 0 && g_o_system == 0 && g_o_rec == 0 && g_o_bay == 0 && \
	g_o_sysconn == 0 && g_o_player == 0 && g_o_minit == 0 && g_o_reg == 0 && g_o_probe == 0 && g_o_create == 0 && g_o_stat == 0 && \
	g_r_trace == NC && g_r_system == NC && g_r_rec == NC && g_r_sysconn == NC && g_r_player == NC && g_r_reg == NC && \
	g_r_probe == NC && g_r_create == NC)
#define INIT_FRAME g_seq, g_o_args, g_a_args, g_a_argc, g_a_argv, g_o_trace, g_r_trace, g_a_trace, g_a_trace_dir, \
	g_o_system, g_r_system, g_a_system, g_a_system_args, g_a_system_trace, g_o_rec, g_r_rec, g_a_rec, g_a_rec_dir, \
	g_o_bay, g_a_bay, g_o_sysconn, g_r_sysconn, g_a_sysconn, g_a_sysconn_bay, g_a_sysconn_rec, \
	g_o_player, g_r_player, g_a_player, g_a_player_trace, g_a_player_unsorted, g_o_minit, g_a_minit, \
	g_o_reg, g_r_reg, g_a_reg, g_o_probe, g_r_probe, g_a_probe, g_a_probe_emu, g_o_create, g_r_create, g_a_create, g_a_create_emu, \
	g_o_stat, g_a_stat

int c_emu_init(struct emu *emu, int argc, char *argv[])
__CPROVER_requires(__CPROVER_is_fresh(emu, sizeof(*emu)))
__CPROVER_requires(DIAG_PRE && INIT_ZERO && g_k >= 0 && g_k < MAX_EXTEND)
__CPROVER_assigns(__CPROVER_object_whole(emu), DIAG_FRAME, INIT_FRAME)
__CPROVER_ensures(__CPROVER_return_value == 0 || __CPROVER_return_value == -1)
/* success exactly when every stage succeeded */
__CPROVER_ensures((__CPROVER_return_value == 0) == (OK(trace) && OK(system) && OK(rec) && OK(sysconn) && OK(player) &&
	OK(reg) && OK(probe) && OK(create)))
/* the stages run in this order, each one only if the previous one succeeded */
__CPROVER_ensures(ORD(args, 1, 1) && ORD(trace, 1, 2) && ORD(system, OK(trace), 3) && ORD(rec, OK(system), 4) &&
	ORD(bay, OK(rec), 5) && ORD(sysconn, OK(rec), 6) && ORD(player, OK(sysconn), 7) && ORD(minit, OK(player), 8) &&
	ORD(reg, OK(player), 9) && ORD(probe, OK(reg), 10) && ORD(create, OK(probe), 11) && ORD(stat, OK(create), 12))
/* each stage works on this emulator's parts; the trace directory is the one the arguments name */
__CPROVER_ensures(g_a_args == &emu->args && g_a_argc == argc && g_a_argv == argv && emu->args.tracedir == g_tracedir)
__CPROVER_ensures(g_a_trace == &emu->trace && g_a_trace_dir == g_tracedir)
__CPROVER_ensures(!g_o_system || (g_a_system == &emu->system && g_a_system_args == &emu->args && g_a_system_trace == &emu->trace))
__CPROVER_ensures(!g_o_rec || (g_a_rec == &emu->recorder && g_a_rec_dir == g_tracedir))
__CPROVER_ensures(!g_o_bay || g_a_bay == &emu->bay)
__CPROVER_ensures(!g_o_sysconn || (g_a_sysconn == &emu->system && g_a_sysconn_bay == &emu->bay && g_a_sysconn_rec == &emu->recorder))
/* the emulator replays SORTED streams: backwards clocks are errors (unsorted == 0) */
__CPROVER_ensures(!g_o_player || (g_a_player == &emu->player && g_a_player_trace == &emu->trace && g_a_player_unsorted == 0))
__CPROVER_ensures(!g_o_minit || g_a_minit == &emu->model)
__CPROVER_ensures(!g_o_reg || g_a_reg == &emu->model)
__CPROVER_ensures(!g_o_probe || (g_a_probe == &emu->model && g_a_probe_emu == emu))
__CPROVER_ensures(!g_o_create || (g_a_create == &emu->model && g_a_create_emu == emu))
__CPROVER_ensures(!g_o_stat || g_a_stat == &emu->stat)
/* everything the stages do not set starts from zero */
__CPROVER_ensures(emu->finished == 0 && emu->ev == NULL && emu->stream == NULL && emu->thread == NULL &&
	emu->proc == NULL && emu->loom == NULL && emu->ext.ctx[g_k] == NULL && emu->args.enable_all_models == 0 &&
	emu->args.linter_mode == 0 && emu->args.breakdown == 0 && emu->args.clock_offset_file == NULL)
__CPROVER_ensures(__CPROVER_return_value == 0 || g_err > __CPROVER_old(g_err))
;
void h_emu_init(void)
{
	struct emu *emu; int argc; char **argv;
	int r = emu_init(emu, argc, argv);
	if (r == 0) REACH("initialised");
	if (r == -1 && g_r_trace != 0) REACH("trace_load failed");
	if (r == -1 && g_o_system && g_r_system != 0) REACH("system_init failed");
	if (r == -1 && g_o_rec && g_r_rec != 0) REACH("recorder_init failed");
	if (r == -1 && g_o_sysconn && g_r_sysconn != 0) REACH("system_connect failed");
	if (r == -1 && g_o_player && g_r_player != 0) REACH("player_init failed");
	if (r == -1 && g_o_reg && g_r_reg != 0) REACH("models_register failed");
	if (r == -1 && g_o_probe && g_r_probe != 0) REACH("model_probe failed");
	if (r == -1 && g_o_create && g_r_create != 0) REACH("model_create failed");
}

/* =====================================================================================
 * emu_connect
 * ===================================================================================== */
int c_emu_connect(struct emu *emu)
__CPROVER_requires(__CPROVER_is_fresh(emu, sizeof(*emu)))
__CPROVER_requires(DIAG_PRE && g_seq == 0 && g_o_mconn == 0 && g_o_prop == 0 && g_r_mconn == NC && g_r_prop == NC)
__CPROVER_assigns(DIAG_FRAME, g_seq, g_o_mconn, g_r_mconn, g_a_mconn, g_a_mconn_emu, g_o_prop, g_r_prop, g_a_prop)
__CPROVER_ensures(__CPROVER_return_value == 0 || __CPROVER_return_value == -1)
__CPROVER_ensures((__CPROVER_return_value == 0) == (OK(mconn) && OK(prop)))
__CPROVER_ensures(ORD(mconn, 1, 1) && ORD(prop, OK(mconn), 2))
__CPROVER_ensures(g_a_mconn == &emu->model && g_a_mconn_emu == emu && (!g_o_prop || g_a_prop == &emu->bay))
__CPROVER_ensures(__CPROVER_return_value == 0 || g_err > __CPROVER_old(g_err))
;
void h_emu_connect(void)
{
	struct emu *emu;
	int r = emu_connect(emu);
	if (r == 0) REACH("connected");
	if (r == -1 && g_r_mconn != 0) REACH("model_connect failed");
	if (r == -1 && g_o_prop && g_r_prop != 0) REACH("first propagation failed");
}

/* =====================================================================================
 * emu_finish: both finishing stages always run (the traces are written even if a model's
 * finish hook failed); -1 if either failed
 * ===================================================================================== */
int c_emu_finish(struct emu *emu)
__CPROVER_requires(__CPROVER_is_fresh(emu, sizeof(*emu)))
__CPROVER_requires(DIAG_PRE && g_seq == 0 && g_o_report == 0 && g_o_mfin == 0 && g_o_rfin == 0 && g_r_mfin == NC && g_r_rfin == NC)
__CPROVER_assigns(DIAG_FRAME, g_seq, g_o_report, g_a_report, g_a_report_player, g_a_report_last, g_o_mfin, g_r_mfin, g_a_mfin, g_a_mfin_emu,
	g_o_rfin, g_r_rfin, g_a_rfin)
__CPROVER_ensures(__CPROVER_return_value == 0 || __CPROVER_return_value == -1)
__CPROVER_ensures((__CPROVER_return_value == 0) == (OK(mfin) && OK(rfin)))
__CPROVER_ensures(ORD(report, 1, 1) && ORD(mfin, 1, 2) && ORD(rfin, 1, 3))
__CPROVER_ensures(g_a_report == &emu->stat && g_a_report_player == &emu->player && g_a_report_last == 1)
__CPROVER_ensures(g_a_mfin == &emu->model && g_a_mfin_emu == emu && g_a_rfin == &emu->recorder)
__CPROVER_ensures(__CPROVER_return_value == 0 || g_err > __CPROVER_old(g_err))
;
void h_emu_finish(void)
{
	struct emu *emu;
	int r = emu_finish(emu);
	if (r == 0) REACH("finished");
	if (r == -1 && g_r_mfin != 0 && g_r_rfin == 0) REACH("model_finish failed, traces still written");
	if (r == -1 && g_r_mfin == 0 && g_r_rfin != 0) REACH("recorder_finish failed");
}
