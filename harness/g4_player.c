/* G4 (C12/C03) -- the getters of the real src/emu/player.c: player_ev, player_stream,
 * player_nprocessed (loop-free, unbounded) and player_progress (seven concrete cases, <= 2 streams).
 *
 * emu_step (group emu_step) hands the model the event and the stream these getters return: the
 * event decoded by the LAST player_step (player->ev) and the stream it came from
 * (player->stream); anything else would attribute an event to the wrong thread. */
#include "prelude.h"
#include "stream.h"
#include "trace.h"

/* stream.c is another unit: stream_progress answers with ghost values, per call */
int g_sp_n; void *g_sp_obj[2]; int64_t g_sp_done[2], g_sp_total[2];
void stream_progress(struct stream *stream, int64_t *done, int64_t *total)
{
	int k = g_sp_n < 2 ? g_sp_n : 1;
	g_sp_obj[k] = stream;
	*done = g_sp_done[k];
	*total = g_sp_total[k];
	g_sp_n++;
}

#include "player.c"                      /* real /repo/src/emu/player.c */

struct emu_ev *c_player_ev(struct player *player)
__CPROVER_requires(__CPROVER_is_fresh(player, sizeof(*player)))
__CPROVER_assigns()
__CPROVER_ensures(__CPROVER_return_value == &player->ev)
;
void h_player_ev(void)
{
	struct player *p;
	struct emu_ev *ev = player_ev(p);
	if (ev != NULL) REACH("event of the last step");
}

struct stream *g_cur;
struct stream *c_player_stream(struct player *player)
__CPROVER_requires(__CPROVER_is_fresh(player, sizeof(*player)))
__CPROVER_requires(g_cur == player->stream)
__CPROVER_assigns()
__CPROVER_ensures(__CPROVER_return_value == player->stream && __CPROVER_return_value == g_cur)
;
void h_player_stream(void)
{
	struct player *p;
	struct stream *s = player_stream(p);
	if (s == NULL) REACH("no event loaded yet");
	if (s != NULL) REACH("stream of the last step");
}

long g_np;
int64_t c_player_nprocessed(struct player *player)
__CPROVER_requires(__CPROVER_is_fresh(player, sizeof(*player)))
__CPROVER_requires(g_np == player->nprocessed)
__CPROVER_assigns()
__CPROVER_ensures(__CPROVER_return_value == player->nprocessed && __CPROVER_return_value == g_np)
;
void h_player_nprocessed(void)
{
	struct player *p;
	int64_t n = player_nprocessed(p);
	if (n == 0) REACH("nothing processed");
	if (n == 0x7fffffffffffffffL) REACH("any count");
}

/* player_progress: bytes consumed / useful bytes over ALL streams of the trace (1.0 for a trace
 * without event bytes); each stream is asked exactly once, in list order.
 * Plain harness on CONCRETE cases (a test, not a proof): the symbolic double division does not
 * finish on either back end (cadical, z3: > 300 s); with concrete stream_progress answers the
 * quotient is folded during symbolic execution. */
static double g4_progress_case(int len, long d0, long t0, long d1, long t1)
{
	static struct player player; static struct trace trace; static struct stream s0, s1;
	player.trace = &trace;
	trace.streams = len > 0 ? &s0 : NULL;
	s0.next = len > 1 ? &s1 : NULL; s1.next = NULL;
	g_sp_n = 0; g_sp_obj[0] = g_sp_obj[1] = NULL;
	g_sp_done[0] = d0; g_sp_total[0] = t0; g_sp_done[1] = d1; g_sp_total[1] = t1;
	double r = player_progress(&player);
	VASSERT(g_sp_n == len, "every stream is asked exactly once");
	VASSERT(len < 1 || g_sp_obj[0] == &s0, "first stream first");
	VASSERT(len < 2 || g_sp_obj[1] == &s1, "second stream second");
	return r;
}
void h_player_progress(void)
{
	VASSERT(g4_progress_case(0, 0, 0, 0, 0) == 1.0, "no streams: done");
	VASSERT(g4_progress_case(1, 0, 0, 0, 0) == 1.0, "one stream without events: done");
	VASSERT(g4_progress_case(1, 24, 96, 0, 0) == 0.25, "one stream, a quarter consumed");
	VASSERT(g4_progress_case(1, 96, 96, 0, 0) == 1.0, "one stream, all consumed");
	VASSERT(g4_progress_case(2, 100, 400, 300, 400) == 0.5, "two streams: (100+300)/(400+400)");
	VASSERT(g4_progress_case(2, 0, 0, 50, 200) == 0.25, "two streams, the first without events");
	VASSERT(g4_progress_case(2, 8, 8, 0, 8) == 0.5, "two streams, the second untouched");
	REACH("all cases evaluated");
}
