/* C06 -- cpu_get_th_chan (cpu.c): the channel model_cpu.c selects CPU muxes with is the
 * CPU's RUNNING-thread channel */
#include "prelude.h"
#include "cpu.c"
struct chan *c_cpu_get_th_chan(struct cpu *cpu)
__CPROVER_requires(__CPROVER_is_fresh(cpu, sizeof(*cpu)))
__CPROVER_assigns()
__CPROVER_ensures(__CPROVER_return_value == &cpu->chan[CPU_CHAN_THRUN])
;
void h_cpu_get_th_chan(void) { struct cpu *c; struct chan *r = cpu_get_th_chan(c); REACH("returns"); }
