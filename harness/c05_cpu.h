/* c05_cpu.h -- C05: the self-contained contracts of cpu_update and
 * cpu_migrate_thread (cpu.c) and the frame / log macros they share with the
 * enforce-only contracts of harness/c05_cpu.c.  cr_cpu_update and
 * cr_cpu_migrate_thread are proved (bounded lists) in harness/c05_cpu.c;
 * cr_cpu_migrate_thread replaces the call in the affinity handlers
 * (harness/c05_affinity.c).  Needs harness/c05_chanlog.h, cpu.h, thread.h. */
#ifndef C05_CPU_H
#define C05_CPU_H

#define CPU_CHANS_CB_OK(cpu) (CB_OK(&(cpu)->chan[0]) && CB_OK(&(cpu)->chan[1]) && CB_OK(&(cpu)->chan[2]) && \
		CB_OK(&(cpu)->chan[3]) && CB_OK(&(cpu)->chan[4]))
#define LOG5(a, n) a[n], a[n + 1], a[n + 2], a[n + 3], a[n + 4]
#define UPD_LOG_FRAME g_cs_n, LOG5(g_cs_chan, g_cs_n), LOG5(g_cs_type, g_cs_n), LOG5(g_cs_i, g_cs_n), LOG5(g_cs_ret, g_cs_n)
#define CHAN_W(cpu, k) (cpu)->chan[k].data.value, (cpu)->chan[k].is_dirty
#define UPD_FRAME(cpu) (cpu)->nth_running, (cpu)->nth_active, (cpu)->th_running, (cpu)->th_active, \
		CHAN_W(cpu, 0), CHAN_W(cpu, 1), CHAN_W(cpu, 2), CHAN_W(cpu, 3), CHAN_W(cpu, 4)

/* path-expressed frames of DL_APPEND2 / DL_DELETE2 (pre-state paths) */
#define APPEND_FRAME(cpu, thread) (cpu)->threads, (cpu)->nthreads, (thread)->cpu_prev, (thread)->cpu_next
#define DELETE_FRAME(cpu) (cpu)->threads, (cpu)->nthreads

/* Frames at the level of cpu_migrate_thread and above are kept small (DFCC's
 * frame-inclusion checks cost callee targets x caller targets): the log arrays
 * as whole objects, and the six consecutive words nthreads, nth_running,
 * nth_active, threads, th_running, th_active of a CPU -- exactly the union of
 * DELETE_FRAME/APPEND_FRAME's CPU part and the counter part of UPD_FRAME -- as
 * one block. */
#define MIG_LOG_FRAME CS_LOG_FRAME
_Static_assert(offsetof(struct cpu, nth_running) == offsetof(struct cpu, nthreads) + 8 &&
	offsetof(struct cpu, nth_active) == offsetof(struct cpu, nthreads) + 16 &&
	offsetof(struct cpu, threads) == offsetof(struct cpu, nthreads) + 24 &&
	offsetof(struct cpu, th_running) == offsetof(struct cpu, nthreads) + 32 &&
	offsetof(struct cpu, th_active) == offsetof(struct cpu, nthreads) + 40, "struct cpu list/counter block");
#define CPU_BLOCK(cpu) __CPROVER_object_upto(&(cpu)->nthreads, 48)
#define CPU_CHANS_W(cpu) CHAN_W(cpu, 0), CHAN_W(cpu, 1), CHAN_W(cpu, 2), CHAN_W(cpu, 3), CHAN_W(cpu, 4)

/* ================= cpu_update: the self-contained contract =================
 * Used where cpu_update is REPLACED (add / remove / migrate).  "The update
 * succeeded" is observable in the post-state: the counter does not show an
 * oversubscribed physical CPU and five successful channel writes were logged. */
#define UPD_OK(cpu, b) (!((cpu)->nth_running > 1 && !(cpu)->is_virtual) && g_cs_n == (b) + 5 && \
	g_cs_ret[(b)] == 0 && g_cs_ret[(b) + 1] == 0 && g_cs_ret[(b) + 2] == 0 && \
	g_cs_ret[(b) + 3] == 0 && g_cs_ret[(b) + 4] == 0)
#define UPD_PRE(cpu, room, cbmax) (CPU_CHANS_CB_OK(cpu) && g_cs_n <= CS_LOGN - (room) && g_cb_calls < (cbmax) && DIAG_PRE)

int cr_cpu_update(struct cpu *cpu)
__CPROVER_requires(__CPROVER_rw_ok(cpu, sizeof(*cpu)) && UPD_PRE(cpu, 5, 100000u))
__CPROVER_assigns(UPD_FRAME(cpu), UPD_LOG_FRAME, CS_FRAME)
__CPROVER_ensures(__CPROVER_return_value == 0 || __CPROVER_return_value == -1)
__CPROVER_ensures(g_cs_n >= __CPROVER_old(g_cs_n) && g_cs_n <= __CPROVER_old(g_cs_n) + 5)
__CPROVER_ensures((__CPROVER_return_value == 0) == UPD_OK(cpu, __CPROVER_old(g_cs_n)))
/* an oversubscribed physical CPU writes no channel */
__CPROVER_ensures(!(cpu->nth_running > 1 && !cpu->is_virtual) || g_cs_n == __CPROVER_old(g_cs_n))
__CPROVER_ensures(__CPROVER_return_value == 0 ? g_err == __CPROVER_old(g_err) :
	(g_err > __CPROVER_old(g_err) && g_err <= __CPROVER_old(g_err) + 3u))
__CPROVER_ensures(g_warn == __CPROVER_old(g_warn) && g_diag - __CPROVER_old(g_diag) == g_err - __CPROVER_old(g_err))
__CPROVER_ensures(g_cb_calls >= __CPROVER_old(g_cb_calls) && g_cb_calls <= __CPROVER_old(g_cb_calls) + 5u)
;

/* ================= cpu_migrate_thread: the self-contained contract ========= */
/* self-contained: replaces cpu_migrate_thread in the affinity handlers.  The
 * frame is written as pre-state paths from the three arguments (links of the
 * neighbours in both lists). */
int cr_cpu_migrate_thread(struct cpu *cpu, struct thread *thread, struct cpu *newcpu)
__CPROVER_requires(__CPROVER_rw_ok(cpu, sizeof(*cpu)) && __CPROVER_rw_ok(newcpu, sizeof(*newcpu)) &&
	__CPROVER_rw_ok(thread, sizeof(*thread)) && cpu != newcpu)
__CPROVER_requires(UPD_PRE(cpu, 10, 1000u) && CPU_CHANS_CB_OK(newcpu))
__CPROVER_assigns(DIAG_FRAME, CPU_BLOCK(cpu), CPU_CHANS_W(cpu), CPU_BLOCK(newcpu), CPU_CHANS_W(newcpu),
	thread->cpu_prev, thread->cpu_next, MIG_LOG_FRAME, g_cb_calls, g_cb_ret)
__CPROVER_assigns(thread->cpu_next != NULL: thread->cpu_next->cpu_prev)
__CPROVER_assigns(thread->cpu_prev != NULL: thread->cpu_prev->cpu_next)
__CPROVER_assigns(cpu->threads != NULL: cpu->threads->cpu_prev)
__CPROVER_assigns(newcpu->threads != NULL: newcpu->threads->cpu_prev, newcpu->threads->cpu_prev->cpu_next)
__CPROVER_ensures(__CPROVER_return_value == 0 || __CPROVER_return_value == -1)
__CPROVER_ensures(g_cs_n >= __CPROVER_old(g_cs_n) && g_cs_n <= __CPROVER_old(g_cs_n) + 10)
/* accepted: both CPUs were updated successfully (neither is an oversubscribed
 * physical CPU) and the thread is the tail of a list */
__CPROVER_ensures(__CPROVER_return_value != 0 || (thread->cpu_next == NULL &&
	!(cpu->nth_running > 1 && !cpu->is_virtual) && !(newcpu->nth_running > 1 && !newcpu->is_virtual) &&
	g_cs_n == __CPROVER_old(g_cs_n) + 10))
__CPROVER_ensures(__CPROVER_return_value == 0 ? g_err == __CPROVER_old(g_err) :
	(g_err > __CPROVER_old(g_err) && g_err <= __CPROVER_old(g_err) + 5u))
__CPROVER_ensures(g_warn == __CPROVER_old(g_warn) && g_diag - __CPROVER_old(g_diag) == g_err - __CPROVER_old(g_err))
__CPROVER_ensures(g_cb_calls >= __CPROVER_old(g_cb_calls) && g_cb_calls <= __CPROVER_old(g_cb_calls) + 10u)
;

#endif
