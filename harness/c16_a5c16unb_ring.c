/* C16 -- ovnisort.c find_destination / ring_check: ring of SYMBOLIC size (1 .. 2^40 cells), any head / tail
 * allowed by the ring invariant, loop contracts (loops/c16_a5c16unb_ring.json).
 *
 * Why this is not the plain "is_fresh ring + observer" scheme (what blocks it, measured):
 *   both loops read  r->ev[i]->header.clock  themselves, at the loop-chosen cell i.  "Every live cell holds a
 *   valid event pointer" is a universally quantified PRECONDITION that the inductive step needs at the havocked
 *   i; a single-cell observer only serves postconditions; the loop bodies contain no call (no stub / monitor
 *   where the instance for i could be supplied, as is done for the region walkers in c16_a5c16unb_walk.c);
 *   quantifiers are ignored by the SAT back end and z3 times out (300 s) even on a5_count_events (6 s on SAT).
 * What is done instead -- SUMMARY-EVENT ABSTRACTION of the ring content (an input model, stated here and in the
 * plan's "trusted" list; the proof that it over-approximates every real ring is the argument below, it is
 * NOT machine-checked):
 *   - the harness OWNS the ring array (malloc of size * 8 bytes, symbolic size);
 *   - stale cells (outside head .. tail-1) hold NULL: a dereference of a stale cell fails the pointer check;
 *   - ONE (find_destination) / TWO (ring_check) arbitrary live cells are OBSERVED: they point to event objects
 *     of their own (g_eb, g_ec), which are outside every write frame;
 *   - every other live cell points to the summary event g_ea, and g_ea is HAVOCKED at each loop head (it is in
 *     the loop's and in the function's assigns clause): the clock read at an unobserved cell is an arbitrary
 *     value, chosen anew at every iteration.
 *   Soundness argument: each iteration of either loop reads exactly one event field, r->ev[i]->header.clock,
 *   once, and the functions write no event; so for any real ring (all live cells valid, arbitrary clocks) the
 *   model has a run that reads the same value at every iteration (choose the havoc value = the real clock of
 *   cell i) and therefore takes the same branches and returns the same result; the contracts below speak
 *   only about the result, the ring indices and the OBSERVED cells, which the model represents exactly.
 *   What the abstraction cannot carry: a hypothesis about ALL clocks (e.g. "the window is sorted, so
 *   ring_check does not die") -- that direction stays with the bounded groups ring_check_n3/n4. */
int g_no_die;
#ifdef A5_DIE_REACH
#define VERIF_DIE_HOOK do { __CPROVER_assert(!g_no_die, "die() reached although the contract excludes it"); __CPROVER_assert(0, "REACH: die() reached where the contract allows it"); } while (0)
#else
#define VERIF_DIE_HOOK __CPROVER_assert(!g_no_die, "die() reached although the contract excludes it")
#endif
#include "prelude.h"
int g_said;
#undef err
#define err(...) (verif_err(), (void) (g_said = 1))
#include "ovni.h"

int ovni_ev_size(const struct ovni_ev *ev) { (void) ev; return nondet_int(); }
ssize_t pwrite(int fd, const void *buf, size_t count, off_t offset) { (void) fd; (void) buf; (void) offset; (void) count; return nondet_long(); }
struct stream;
int stream_step(struct stream *stream) { (void) stream; return nondet_int(); }
struct ovni_ev g_cur_ev;
struct ovni_ev *stream_ev(struct stream *stream) { (void) stream; return &g_cur_ev; }
uint64_t ovni_ev_get_clock(const struct ovni_ev *ev) { return ev->header.clock; }

#define main ovnisort_main
#include "ovnisort.c"          /* the real /repo/src/emu/ovnisort.c */
#undef main

#define RV __CPROVER_return_value
#define RING_MAXSIZE (1L << 40)
#define RING_COUNT(h, t, sz) ((t) >= (h) ? (t) - (h) : (t) - (h) + (sz))
#define RING_RANGE(r) (0 <= (r)->head && (r)->head < (r)->size && 0 <= (r)->tail && (r)->tail < (r)->size)
#define RING_INV(r) (RING_RANGE(r) && ((r)->head == 0 || RING_COUNT((r)->head, (r)->tail, (r)->size) == (r)->size - 1))
#define DIST(r, k) RING_COUNT((r)->head, (k), (r)->size)          /* position of cell k counted from the head */
#define COUNT_R(r) RING_COUNT((r)->head, (r)->tail, (r)->size)    /* live cells */
#define LIVE(r, k) (DIST(r, k) < COUNT_R(r))

struct ovni_ev g_ea;            /* summary event: every unobserved live cell; havocked at each loop head */
struct ovni_ev g_eb, g_ec;      /* the observed events (never written) */
long g_a, g_b;                  /* the observed cells */
struct ring g_ring;             /* the ring header (harness-owned) */
long w_head, w_tail, w_size; uint64_t w_clock;

/* builds the ring model described above; returns 0 if malloc failed */
static int
a5_build_ring(long head, long tail, long size, int two)
{
	struct ovni_ev **arr = malloc((size_t) size * sizeof(struct ovni_ev *));
	if (arr == NULL)
		return 0;
	__CPROVER_array_set(arr, &g_ea);
	if (head == 0)
		__CPROVER_array_set(arr + tail, (struct ovni_ev *) NULL);    /* never wrapped (or full with head 0): cells tail .. size-1 are stale */
	else
		arr[tail] = NULL;                                           /* full: the only stale cell is tail == head - 1 */
	g_ring.head = head; g_ring.tail = tail; g_ring.size = size; g_ring.ev = arr;
	if (LIVE(&g_ring, g_a)) arr[g_a] = &g_eb;
	if (two && LIVE(&g_ring, g_b) && g_b != g_a) arr[g_b] = &g_ec;
	return 1;
}

/* ================================================================= find_destination */
/* Result: the position of the LAST (most recent) live cell whose clock is STRICTLY below the target -- every
 * later live cell has clock >= target; if there is none: the head (== 0) when the ring never wrapped (the
 * window reaches back to the first event of the stream), else -1 with a diagnostic.  Never dies under RING_INV.
 * Stated with the observed cell g_a (clock CA): */
#define CA (g_eb.header.clock)
ssize_t c_find_destination(struct ring *r, uint64_t clock)
__CPROVER_requires(r == &g_ring && 1 <= r->size && r->size <= RING_MAXSIZE && RING_INV(r))
__CPROVER_requires(0 <= g_a && g_a < r->size)
__CPROVER_requires(g_said == 0 && DIAG_PRE)
__CPROVER_assigns(g_ea, g_said, DIAG_FRAME, g_died)
__CPROVER_ensures(-1 <= RV && RV < r->size)
/* (1) refused: no live cell is earlier than the target, and the window is full; it says so */
__CPROVER_ensures(RV != -1 || ((!LIVE(r, g_a) || CA >= clock) && COUNT_R(r) >= r->size - 1))
__CPROVER_ensures((RV == -1) == (g_said != 0))
/* (2) a position: live (or the head of an empty ring); every later live cell has clock >= target */
__CPROVER_ensures(RV < 0 || LIVE(r, RV) || (COUNT_R(r) == 0 && RV == 0))
__CPROVER_ensures(RV < 0 || !(LIVE(r, g_a) && DIST(r, g_a) > DIST(r, RV)) || CA >= clock)
/* (3) the position itself is strictly earlier than the target -- or nothing is, and it is the first event of a
 *     ring that never wrapped */
__CPROVER_ensures(RV < 0 || g_a != RV || !LIVE(r, g_a) || CA < clock || (RV == 0 && r->head == 0 && COUNT_R(r) < r->size - 1))
/* (4) so: some live cell earlier than the target => a position at or after it is returned */
__CPROVER_ensures(!(LIVE(r, g_a) && CA < clock) || (RV >= 0 && DIST(r, RV) >= DIST(r, g_a)))
;
void h_find_destination(void)
{
	long head = nondet_long(), tail = nondet_long(), size = nondet_long();
	uint64_t clock;
	__CPROVER_assume(1 <= size && size <= RING_MAXSIZE && 0 <= head && head < size && 0 <= tail && tail < size);
	__CPROVER_assume(head == 0 || RING_COUNT(head, tail, size) == size - 1);
	__CPROVER_assume(0 <= g_a && g_a < size);
	if (!a5_build_ring(head, tail, size, 0))
		return;
	w_head = head; w_tail = tail; w_size = size; w_clock = clock;
	g_no_die = 1;
	ssize_t i = find_destination(&g_ring, clock);
	if (i == -1 && w_size >= 1000) REACH("not found in a full window of a thousand cells or more");
	if (i == 0 && w_head == 0 && w_tail >= 100 && g_a == 0 && CA >= w_clock) REACH("not found, ring never wrapped: first event");
	if (i >= 0 && i == g_a && CA < w_clock && w_tail < w_head && RING_COUNT(i, w_tail, w_size) >= 50 && i > w_head) REACH("found 50 or more cells back in a wrapped ring, across the wrap");
	if (i >= 0 && g_a == (i + 1 < w_size ? i + 1 : 0) && g_a != w_tail && CA == w_clock) REACH("a cell with the same clock as the target stays after the destination");
}

/* ================================================================= ring_check */
/* returns only if the clocks of the cells start .. tail-1 are non-decreasing AS UNSIGNED 64-bit values: for the
 * two observed cells g_a before g_b inside that window: clock(g_a) <= clock(g_b).  (The converse -- a sorted
 * window is never fatal -- needs a hypothesis about all cells: bounded groups ring_check_n3/n4.) */
#define CB (g_ec.header.clock)
long g_start;
#define FROM(r, k) RING_COUNT(g_start, (k), (r)->size)
#define NCHK(r) RING_COUNT(g_start, (r)->tail, (r)->size)
void c_ring_check(struct ring *r, long long start)
__CPROVER_requires(r == &g_ring && 1 <= r->size && r->size <= RING_MAXSIZE && RING_INV(r))
__CPROVER_requires(0 <= start && start < r->size && DIST(r, start) <= COUNT_R(r) && g_start == start)
__CPROVER_requires(0 <= g_a && g_a < r->size && 0 <= g_b && g_b < r->size)
__CPROVER_assigns(g_ea, g_died)
__CPROVER_ensures(!(FROM(r, g_a) < FROM(r, g_b) && FROM(r, g_b) < NCHK(r)) || CA <= CB)
;
void h_ring_check(void)
{
	long head = nondet_long(), tail = nondet_long(), size = nondet_long(), start = nondet_long();
	__CPROVER_assume(1 <= size && size <= RING_MAXSIZE && 0 <= head && head < size && 0 <= tail && tail < size);
	__CPROVER_assume(head == 0 || RING_COUNT(head, tail, size) == size - 1);
	__CPROVER_assume(0 <= g_a && g_a < size && 0 <= g_b && g_b < size);
	__CPROVER_assume(0 <= start && start < size && RING_COUNT(head, start, size) <= RING_COUNT(head, tail, size));
	if (!a5_build_ring(head, tail, size, 1))
		return;
	g_start = start; w_head = head; w_tail = tail; w_size = size;
	g_no_die = 0;
	ring_check(&g_ring, start);
	REACH("ring_check returns");
	if (w_tail < g_start && RING_COUNT(g_start, w_tail, w_size) >= 100 && g_a > g_start && g_b < w_tail && CA < CB) REACH("window of a hundred cells or more across the wrap, observed cells on both sides");
	if (g_start == w_tail) REACH("empty window");
}
