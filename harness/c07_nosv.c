/* C07 -- nOS-V task events (real nosv/event.c) over the proved task layer.
 * TU: c07_task.c (prelude, real body.c + task.c, their contracts), the channel
 * stubs / call logs of c07_model.h, the real extend.c and the real nosv/event.c. */
#include "c07_task.c"
#include "c07_model.h"
#include "extend.c"           /* the real /repo/src/emu/extend.c (EXT() lookups) */
#include "nosv/event.c"       /* the real /repo/src/emu/nosv/event.c */

#define TH ((struct nosv_thread *) emu->thread->ext.ctx['V'])
#define PR ((struct nosv_proc *) emu->proc->ext.ctx['V'])
#define CH(i) (&g_ch[i])           /* for comparisons with logged channel pointers */
#define CHR(i) (&TH->m.ch[i])      /* for reading a channel (same address; see HOWTO pitfall 1) */
struct chan *g_ch;              /* the thread's nOS-V channel array (pre-state value of th->m.ch) */

/* emu, current thread / process / event and their nOS-V extensions are separate
 * valid objects; the channel array holds CH_MAX channels */
#define EMU_SHAPE_BASE ( \
	__CPROVER_is_fresh(emu, sizeof(*emu)) && \
	__CPROVER_is_fresh(emu->thread, sizeof(struct thread)) && \
	__CPROVER_is_fresh(emu->proc, sizeof(struct proc)) && \
	__CPROVER_is_fresh(emu->ev, sizeof(struct emu_ev)) && \
	__CPROVER_is_fresh(emu->thread->ext.ctx['V'], sizeof(struct nosv_thread)) && \
	__CPROVER_is_fresh(emu->proc->ext.ctx['V'], sizeof(struct nosv_proc)) )
/* ... plus the channel array, for the functions that form channel addresses */
#define EMU_SHAPE ( EMU_SHAPE_BASE && \
	__CPROVER_is_fresh(TH->m.ch, CH_MAX * sizeof(struct chan)) && g_ch == TH->m.ch )
/* proc invariant (proc.c load_rank): rank < nranks, so rank + 1 cannot overflow */
#define PROC_INV (emu->proc->rank < 0x7fffffff)
/* a body with its task and task type */
#define BODY_SHAPE(b) (__CPROVER_is_fresh(b, sizeof(struct body)) && \
	__CPROVER_is_fresh((b)->task, sizeof(struct task)) && \
	__CPROVER_is_fresh((b)->task->type, sizeof(struct task_type)))
#define HAS_RANK (emu->proc->rank >= 0)

/* The thread shows body b: body id, task id, type gid, app id, rank + 1 */
#define SHOWS_BODY(b) ( \
	OP_IS(0, OP_SET, CH(CH_BODYID), (b)->id) && \
	OP_IS(1, OP_SET, CH(CH_TASKID), (b)->task->id) && \
	OP_IS(2, OP_SET, CH(CH_TYPE), (b)->task->type->gid) && \
	OP_IS(3, OP_SET, CH(CH_APPID), emu->proc->appid) && \
	(HAS_RANK ? (g_op_n == 5 && OP_IS(4, OP_SET, CH(CH_RANK), (int64_t) emu->proc->rank + 1)) : g_op_n == 4) )
/* The thread shows nothing: all five channels are set to null */
#define SHOWS_NOTHING ( \
	OP_IS_NULL(0, OP_SET, CH(CH_BODYID)) && \
	OP_IS_NULL(1, OP_SET, CH(CH_TASKID)) && \
	OP_IS_NULL(2, OP_SET, CH(CH_TYPE)) && \
	OP_IS_NULL(3, OP_SET, CH(CH_APPID)) && \
	(HAS_RANK ? (g_op_n == 5 && OP_IS_NULL(4, OP_SET, CH(CH_RANK))) : g_op_n == 4) )

int w_rank, w_appid; unsigned w_taskid, w_gid, w_bodyid;
WITNESS(chanb);
#define BODY_WIT(b) WBIND(chanb, w_rank == emu->proc->rank && w_appid == emu->proc->appid && \
	w_taskid == (b)->task->id && w_gid == (b)->task->type->gid && w_bodyid == (b)->id)

/* ---------------- chan_body_running ---------------- */
#define RUN_LEGAL(b) ((b)->task->id != 0 && (b)->task->type->gid != 0 && emu->proc->appid > 0)
int c_chan_body_running(struct emu *emu, struct body *body)
__CPROVER_requires(EMU_SHAPE && PROC_INV && BODY_SHAPE(body))
__CPROVER_requires(BODY_WIT(body) && DIAG_PRE && OPLOG_PRE)
__CPROVER_assigns(DIAG_FRAME, OPLOG_FRAME)
/* accepted exactly when ids are valid and no channel operation failed */
__CPROVER_ensures((RV == 0) == (RUN_LEGAL(body) && NO_CHAN_FAILED))
__CPROVER_ensures(RV == 0 || RV == -1)
__CPROVER_ensures(RV != 0 || SHOWS_BODY(body))
__CPROVER_ensures(RUN_LEGAL(body) || g_op_n == 0)
__CPROVER_ensures(RV == 0 || g_err > OLD(g_err))
;
void h_chan_body_running(void)
{
	struct emu *emu; struct body *body;
	WITNESS_ON(chanb);
	int r = chan_body_running(emu, body);
	if (r == 0 && w_rank >= 0) REACH("body shown with rank");
	if (r == 0 && w_rank < 0) REACH("body shown without rank");
	if (r != 0 && w_taskid == 0) REACH("task id 0 refused");
	if (r != 0 && w_taskid != 0 && w_gid != 0 && w_appid > 0) REACH("refused by the channel layer only");
}

/* ---------------- chan_body_stopped ---------------- */
int c_chan_body_stopped(struct emu *emu)
__CPROVER_requires(EMU_SHAPE)
__CPROVER_requires(WBIND(chanb, w_rank == emu->proc->rank) && DIAG_PRE && OPLOG_PRE)
__CPROVER_assigns(DIAG_FRAME, OPLOG_FRAME)
__CPROVER_ensures((RV == 0) == NO_CHAN_FAILED)
__CPROVER_ensures(RV == 0 || RV == -1)
__CPROVER_ensures(RV != 0 || SHOWS_NOTHING)
__CPROVER_ensures(RV == 0 || g_err > OLD(g_err))
;
void h_chan_body_stopped(void)
{
	struct emu *emu;
	WITNESS_ON(chanb);
	int r = chan_body_stopped(emu);
	if (r == 0 && w_rank >= 0) REACH("nothing shown, with rank");
	if (r == 0 && w_rank < 0) REACH("nothing shown, without rank");
	if (r != 0) REACH("refused by the channel layer");
}

/* ---------------- chan_body_switch ---------------- */
#define SWITCH_LEGAL(p, n) ((p) != NULL && (n) != NULL && (p) != (n) && (n)->task->id != 0 && (n)->task->type->gid != 0)
int w_sw_pnull, w_sw_nnull, w_sw_same;
int c_chan_body_switch(struct emu *emu, struct body *bprev, struct body *bnext)
__CPROVER_requires(EMU_SHAPE && PROC_INV)
__CPROVER_requires(bnext == NULL || BODY_SHAPE(bnext))
__CPROVER_requires(bprev == NULL || (bnext != NULL && __CPROVER_pointer_equals(bprev, bnext)) || __CPROVER_is_fresh(bprev, sizeof(struct body)))
__CPROVER_requires(WBIND(chanb, w_sw_pnull == (bprev == NULL) && w_sw_nnull == (bnext == NULL) && w_sw_same == (bprev == bnext) &&
	w_rank == emu->proc->rank && (bnext == NULL || (w_taskid == bnext->task->id && w_gid == bnext->task->type->gid))))
__CPROVER_requires(DIAG_PRE && OPLOG_PRE)
__CPROVER_assigns(DIAG_FRAME, OPLOG_FRAME)
__CPROVER_ensures((RV == 0) == (SWITCH_LEGAL(bprev, bnext) && NO_CHAN_FAILED))
__CPROVER_ensures(RV == 0 || RV == -1)
__CPROVER_ensures(RV != 0 || SHOWS_BODY(bnext))
__CPROVER_ensures(SWITCH_LEGAL(bprev, bnext) || g_op_n == 0)
__CPROVER_ensures(RV == 0 || g_err > OLD(g_err))
;
void h_chan_body_switch(void)
{
	struct emu *emu; struct body *bprev, *bnext;
	WITNESS_ON(chanb);
	int r = chan_body_switch(emu, bprev, bnext);
	if (r == 0) REACH("switched to the next body");
	if (r != 0 && w_sw_pnull) REACH("switch from NULL refused");
	if (r != 0 && !w_sw_pnull && !w_sw_nnull && w_sw_same) REACH("switch to the same body refused");
	if (r != 0 && !w_sw_pnull && !w_sw_nnull && !w_sw_same && w_taskid != 0 && w_gid != 0) REACH("refused by the channel layer only");
}

/* ---------------- update_task_channels (helpers verified inline) ----------------
 * x, r: the thread shows the body that runs now; e, p: it shows nothing;
 * X, E (nested begin / end over a running body): it shows the body that runs now;
 * any other value is refused without touching a channel.
 * For x and r the caller passes the body that now runs (never NULL: an accepted
 * execute/resume leaves that body Running on top -- c_task_execute/c_task_resume). */
char w_tr;
int c_update_task_channels(struct emu *emu, char tr, struct body *bprev, struct body *bnext)
__CPROVER_requires(EMU_SHAPE && PROC_INV)
__CPROVER_requires(bnext == NULL || BODY_SHAPE(bnext))
__CPROVER_requires(bprev == NULL || (bnext != NULL && __CPROVER_pointer_equals(bprev, bnext)) || __CPROVER_is_fresh(bprev, sizeof(struct body)))
__CPROVER_requires((tr != 'x' && tr != 'r') || bnext != NULL)
__CPROVER_requires(WBIND(chanb, w_tr == tr && w_sw_pnull == (bprev == NULL) && w_sw_nnull == (bnext == NULL) && w_rank == emu->proc->rank))
__CPROVER_requires(DIAG_PRE && OPLOG_PRE)
__CPROVER_assigns(DIAG_FRAME, OPLOG_FRAME)
__CPROVER_ensures((RV == 0) == (NO_CHAN_FAILED && (
	((tr == 'x' || tr == 'r') && RUN_LEGAL(bnext)) ||
	(tr == 'e' || tr == 'p') ||
	((tr == 'X' || tr == 'E') && SWITCH_LEGAL(bprev, bnext)))))
__CPROVER_ensures(RV == 0 || RV == -1)
__CPROVER_ensures(RV != 0 || !(tr == 'x' || tr == 'r' || tr == 'X' || tr == 'E') || SHOWS_BODY(bnext))
__CPROVER_ensures(RV != 0 || !(tr == 'e' || tr == 'p') || SHOWS_NOTHING)
__CPROVER_ensures((tr == 'x' || tr == 'r' || tr == 'e' || tr == 'p' || tr == 'X' || tr == 'E') || g_op_n == 0)
__CPROVER_ensures(RV == 0 || g_err > OLD(g_err))
;
void h_update_task_channels(void)
{
	struct emu *emu; struct body *bprev, *bnext; char tr;
	WITNESS_ON(chanb);
	int r = update_task_channels(emu, tr, bprev, bnext);
	if (r == 0 && w_tr == 'x') REACH("x: body shown");
	if (r == 0 && w_tr == 'e') REACH("e: nothing shown");
	if (r == 0 && w_tr == 'X') REACH("X: next body shown");
	if (r != 0 && w_tr == 'q') REACH("unknown transition refused");
}

/* ---------------- update_task_ss_channel ----------------
 * x pushes, e pops the "task body" subsystem state; p, r and anything else leave it */
int c_update_task_ss_channel(struct emu *emu, char tr)
__CPROVER_requires(EMU_SHAPE)
__CPROVER_requires(WBIND(chanb, w_tr == tr) && DIAG_PRE && OPLOG_PRE)
__CPROVER_assigns(DIAG_FRAME, OPLOG_FRAME)
__CPROVER_ensures((RV == 0) == NO_CHAN_FAILED)
__CPROVER_ensures(RV == 0 || RV == -1)
__CPROVER_ensures(tr != 'x' || (g_op_n == 1 && OP_IS(0, OP_PUSH, CH(CH_SUBSYSTEM), ST_TASK_BODY)))
__CPROVER_ensures(tr != 'e' || (g_op_n == 1 && OP_IS(0, OP_POP, CH(CH_SUBSYSTEM), ST_TASK_BODY)))
__CPROVER_ensures(tr == 'x' || tr == 'e' || g_op_n == 0)
__CPROVER_ensures(RV == 0 || g_err > OLD(g_err))
;
void h_update_task_ss_channel(void)
{
	struct emu *emu; char tr;
	WITNESS_ON(chanb);
	int r = update_task_ss_channel(emu, tr);
	if (r == 0 && w_tr == 'x') REACH("x pushes");
	if (r == 0 && w_tr == 'e') REACH("e pops");
	if (r == 0 && w_tr == 'p') REACH("p leaves the subsystem channel");
	if (r != 0) REACH("channel layer refused");
}

/* ---------------- enforce_task_rules ----------------
 * only after a (nested) begin: the body must be Running and the subsystem channel,
 * if it holds an integer, must hold "task body" */
int64_t g_ss_type, g_ss_i; int g_next_state;
int c_enforce_task_rules(struct emu *emu, char tr, struct body *next)
__CPROVER_requires(EMU_SHAPE)
__CPROVER_requires((tr != 'x' && tr != 'X') || __CPROVER_is_fresh(next, sizeof(struct body)))
__CPROVER_requires(CHR(CH_SUBSYSTEM)->type == CHAN_SINGLE || (CHR(CH_SUBSYSTEM)->data.stack.n >= 0 && CHR(CH_SUBSYSTEM)->data.stack.n <= MAX_CHAN_STACK))
__CPROVER_requires(g_ss_type == spec_chan_read(CHR(CH_SUBSYSTEM)).type && g_ss_i == spec_chan_read(CHR(CH_SUBSYSTEM)).i)
__CPROVER_requires((tr != 'x' && tr != 'X') || g_next_state == (int) next->state)
__CPROVER_requires(WBIND(chanb, w_tr == tr) && DIAG_PRE)
__CPROVER_assigns(DIAG_FRAME)
__CPROVER_ensures((RV == 0) == ((tr != 'x' && tr != 'X') ||
	(g_next_state == BODY_ST_RUNNING && (g_ss_type != VALUE_INT64 || g_ss_i == ST_TASK_BODY))))
__CPROVER_ensures(RV == 0 || RV == -1)
__CPROVER_ensures(RV == 0 || g_err > OLD(g_err))
;
void h_enforce_task_rules(void)
{
	struct emu *emu; char tr; struct body *next;
	WITNESS_ON(chanb);
	int r = enforce_task_rules(emu, tr, next);
	if (r == 0 && w_tr == 'x') REACH("rules hold after x");
	if (r != 0 && g_next_state == BODY_ST_RUNNING) REACH("wrong subsystem state refused");
	if (r != 0 && g_next_state != BODY_ST_RUNNING) REACH("body not running refused");
}

/* ---------------- update_task_state ----------------
 * accepted exactly when the payload holds task id and body id (>= 8 bytes), the
 * task exists, the body id is 0 for a non-parallel task (body 1 is used) and
 * non-zero for a parallel one, the event is x/e/p/r, and the task layer accepts
 * the corresponding operation on this thread's stack. */
size_t w_psize; unsigned char w_v; uint32_t w_bid; int w_found, w_par;
WITNESS(uts);
/* The payload pointer is typed `union ovni_ev_payload *`; CBMC checks a dereference
 * against the whole union, so a non-empty payload is a union-sized object (in the
 * emulator it points into the mapped stream).  Reads past payload_size are thus
 * not detected here; the size checks themselves are part of the contract. */
#define PAYLOAD_SHAPE ( emu->ev->payload_size <= 0x100000 && \
	((emu->ev->payload_size == 0 && emu->ev->payload == NULL) || \
	 (emu->ev->payload_size > 0 && __CPROVER_is_fresh(emu->ev->payload, sizeof(union ovni_ev_payload)))) )
#define EV_BID (emu->ev->payload->u32[1])
#define UTS_CHECKS_OK (emu->ev->payload_size >= 8 && g_tf_task != NULL && \
	((g_tf_task->flags & TASK_FLAG_PARALLEL) ? EV_BID != 0 : EV_BID == 0) && \
	(emu->ev->v == 'x' || emu->ev->v == 'e' || emu->ev->v == 'p' || emu->ev->v == 'r'))
int c_update_task_state(struct emu *emu)
__CPROVER_requires(EMU_SHAPE_BASE && PAYLOAD_SHAPE)
__CPROVER_requires(g_tf_head == PR->task_info.tasks && (emu->ev->payload_size < 4 || g_tf_id == emu->ev->payload->u32[0]))
__CPROVER_requires(g_tf_task == NULL || __CPROVER_is_fresh(g_tf_task, sizeof(struct task)))
__CPROVER_requires(WBIND(uts, w_psize == emu->ev->payload_size && w_v == emu->ev->v && w_found == (g_tf_task != NULL) &&
	(emu->ev->payload_size < 8 || w_bid == EV_BID) && (g_tf_task == NULL || w_par == ((g_tf_task->flags & TASK_FLAG_PARALLEL) != 0))))
__CPROVER_requires(DIAG_PRE && TL_PRE)
__CPROVER_assigns(DIAG_FRAME, TL_OP_FRAME)
/* the checks of this layer: refused without calling the task layer */
__CPROVER_ensures(UTS_CHECKS_OK || (RV == -1 && g_tl_n == OLD(g_tl_n)))
/* otherwise exactly one task operation, chosen by the event, on this thread's
 * stack, the found task and the internal body id; accepted iff it accepts */
__CPROVER_ensures(!UTS_CHECKS_OK || (g_tl_n == OLD(g_tl_n) + 1 && g_tl_kind == emu->ev->v &&
	g_tl_stack == &TH->task_stack && g_tl_task == g_tf_task &&
	g_tl_bid == ((g_tf_task->flags & TASK_FLAG_PARALLEL) ? EV_BID : 1) &&
	(RV == 0) == (g_tl_ret == 0)))
__CPROVER_ensures(RV == 0 || RV == -1)
__CPROVER_ensures(RV == 0 || g_err > OLD(g_err))
;
void h_update_task_state(void)
{
	struct emu *emu;
	WITNESS_ON(uts);
	int r = update_task_state(emu);
	if (r == 0 && w_v == 'x' && !w_par) REACH("execute of a non-parallel task (body id 0)");
	if (r == 0 && w_v == 'x' && w_par) REACH("execute of a parallel task body");
	if (r == 0 && w_v == 'p') REACH("pause");
	if (r != 0 && w_psize == 7) REACH("7-byte payload refused");
	if (r != 0 && w_psize >= 8 && w_found && w_par && w_bid == 0) REACH("body id 0 of a parallel task refused");
	if (r != 0 && w_psize >= 8 && w_found && !w_par && w_bid != 0) REACH("non-zero body id of a non-parallel task refused");
	if (r != 0 && w_psize == 8 && w_found && !w_par && w_bid == 0 && w_v == 'x') REACH("refused by the task layer only");
}

/* ---------------- create_task + pre_task ----------------
 * VTc creates a task that can pause and run again (RESURRECT|PAUSE, not parallel);
 * VTC creates a parallel task (PARALLEL only: it can neither pause nor resurrect);
 * x/e/r/p go to update_task; anything else is refused.
 * update_task is replaced by a call log here (proved in its own group). */
struct c07_utlog { unsigned n; int ret; struct emu *emu; } g_ut;
#define g_ut_n (g_ut.n)
#define g_ut_ret (g_ut.ret)
#define g_ut_emu (g_ut.emu)
#define IS_CREATE (emu->ev->v == 'c' || emu->ev->v == 'C')
#define IS_UPDATE (emu->ev->v == 'x' || emu->ev->v == 'e' || emu->ev->v == 'r' || emu->ev->v == 'p')
/* update_task is only ever entered with v in {x,e,r,p}: asserted at the call in pre_task */
int cl_update_task(struct emu *emu)
__CPROVER_requires(g_ut_n < 1000000u && IS_UPDATE)
__CPROVER_assigns(g_ut)
__CPROVER_ensures(g_ut_n == OLD(g_ut_n) + 1 && g_ut_ret == RV && g_ut_emu == emu)
;
int c_pre_task(struct emu *emu)
__CPROVER_requires(EMU_SHAPE_BASE && PAYLOAD_SHAPE)
__CPROVER_requires(WBIND(uts, w_psize == emu->ev->payload_size && w_v == emu->ev->v))
__CPROVER_requires(DIAG_PRE && TL_PRE && g_ut_n < 1000000u)
__CPROVER_assigns(DIAG_FRAME, TL_FRAME, g_ut)
/* create: payload >= 8; exactly one task_create(info of this process, type, id, flags per event) */
__CPROVER_ensures(!IS_CREATE || emu->ev->payload_size >= 8 || (RV == -1 && g_tl_n == OLD(g_tl_n)))
__CPROVER_ensures(!IS_CREATE || emu->ev->payload_size < 8 || (
	g_tl_n == OLD(g_tl_n) + 1 && g_tl_kind == 'c' && g_tl_info == &PR->task_info &&
	g_tl_task_id == emu->ev->payload->u32[0] && g_tl_type_id == emu->ev->payload->u32[1] &&
	g_tl_flags == (emu->ev->v == 'C' ? (uint32_t) TASK_FLAG_PARALLEL : (uint32_t) (TASK_FLAG_RESURRECT | TASK_FLAG_PAUSE)) &&
	(RV == 0) == (g_tl_ret == 0)))
__CPROVER_ensures(!IS_CREATE || g_ut_n == OLD(g_ut_n))
/* state change: exactly one update_task on this emu */
__CPROVER_ensures(!IS_UPDATE || (g_ut_n == OLD(g_ut_n) + 1 && g_ut_emu == emu && (RV == 0) == (g_ut_ret == 0) && g_tl_n == OLD(g_tl_n)))
__CPROVER_ensures(IS_CREATE || IS_UPDATE || (RV == -1 && g_ut_n == OLD(g_ut_n) && g_tl_n == OLD(g_tl_n)))
__CPROVER_ensures(RV == 0 || RV == -1)
__CPROVER_ensures(RV == 0 || g_err > OLD(g_err))
;
void h_pre_task(void)
{
	struct emu *emu;
	WITNESS_ON(uts);
	int r = pre_task(emu);
	if (r == 0 && w_v == 'c') REACH("VTc creates a task");
	if (r == 0 && w_v == 'C') REACH("VTC creates a parallel task");
	if (r == 0 && w_v == 'x') REACH("VTx handled");
	if (r != 0 && w_v == 'c' && w_psize == 7) REACH("short create payload refused");
	if (r != 0 && w_v == 'z') REACH("unknown task event refused");
}

/* ---------------- update_task: state, then subsystem, then channels, then rules ----------------
 * The four helpers are replaced by sequence-log abstractions (each proved exactly
 * in its own group above).  cl_update_task_state additionally havocs the top of
 * this thread's stack (NULL or the body g_nb in any state) and carries the two
 * consequences of the task-layer contracts update_task relies on: after an
 * accepted x or r the top body is Running (c_task_execute, c_task_resume). */
#define TOP (TH->task_stack.body_stack.top)
int cl_update_task_state(struct emu *emu)
__CPROVER_requires(SEQ_PRE)
__CPROVER_assigns(g_seq, g_sq_state, TOP)
__CPROVER_ensures(g_seq == OLD(g_seq) + 1 && g_at_state == OLD(g_seq) && g_ret_state == RV)
__CPROVER_ensures(TOP == NULL || __CPROVER_pointer_equals(TOP, g_nb))
__CPROVER_ensures(RV != 0 || (emu->ev->v != 'x' && emu->ev->v != 'r') || (TOP != NULL && TOP->state == BODY_ST_RUNNING))
;
int cl_update_task_ss_channel(struct emu *emu, char tr)
__CPROVER_requires(SEQ_PRE)
__CPROVER_assigns(g_seq, g_sq_ss)
__CPROVER_ensures(g_seq == OLD(g_seq) + 1 && g_at_ss == OLD(g_seq) && g_ret_ss == RV && g_ss_tr == tr)
;
int cl_update_task_channels(struct emu *emu, char tr, struct body *bprev, struct body *bnext)
__CPROVER_requires(SEQ_PRE)
__CPROVER_requires((tr != 'x' && tr != 'r') || bnext != NULL)
__CPROVER_assigns(g_seq, g_sq_chan)
__CPROVER_ensures(g_seq == OLD(g_seq) + 1 && g_at_chan == OLD(g_seq) && g_ret_chan == RV && g_chan_tr == tr &&
	g_chan_prev == (void *) bprev && g_chan_next == (void *) bnext)
;
int cl_enforce_task_rules(struct emu *emu, char tr, struct body *next)
__CPROVER_requires(SEQ_PRE)
__CPROVER_requires((tr != 'x' && tr != 'X') || next != NULL)
__CPROVER_assigns(g_seq, g_sq_rules)
__CPROVER_ensures(g_seq == OLD(g_seq) + 1 && g_at_rules == OLD(g_seq) && g_ret_rules == RV && g_rules_tr == tr &&
	g_rules_next == (void *) next)
;

struct body *g_prev_run;       /* body running on this thread before the event (or NULL) */
#define RUNNING_TOP(t) (((t) != NULL && (t)->state == BODY_ST_RUNNING) ? (t) : NULL)
#define NEXT_RUN RUNNING_TOP(TOP)     /* evaluated in the post-state */
#define TR_EXP ((char) ((emu->ev->v == 'x' && g_prev_run != NULL) ? 'X' : \
	(emu->ev->v == 'e' && NEXT_RUN != NULL) ? 'E' : (char) emu->ev->v))
int c_update_task(struct emu *emu)
__CPROVER_requires(EMU_SHAPE_BASE && IS_UPDATE)
__CPROVER_requires(TOP == NULL || __CPROVER_is_fresh(TOP, sizeof(struct body)))
__CPROVER_requires(g_nb == NULL || __CPROVER_pointer_equals(g_nb, TOP) || __CPROVER_is_fresh(g_nb, sizeof(struct body)))
__CPROVER_requires(g_prev_run == RUNNING_TOP(TOP))
__CPROVER_requires(WBIND(uts, w_v == emu->ev->v) && DIAG_PRE && g_seq == 0)
__CPROVER_assigns(DIAG_FRAME, TOP, SEQ_FRAME)
/* 1. the state update comes first; if it refuses nothing else happens */
__CPROVER_ensures(g_seq >= 1 && g_at_state == 0)
__CPROVER_ensures(g_ret_state == 0 || (RV == -1 && g_seq == 1))
/* 2. then the subsystem channel with the event value */
__CPROVER_ensures(g_ret_state != 0 || (g_seq >= 2 && g_at_ss == 1 && g_ss_tr == (char) emu->ev->v))
__CPROVER_ensures(g_ret_state != 0 || g_ret_ss == 0 || (RV == -1 && g_seq == 2))
/* 3. then the task channels, with the expanded transition and the bodies that
 *    ran before / run now on this thread */
__CPROVER_ensures(g_ret_state != 0 || g_ret_ss != 0 || (
	g_seq >= 3 && g_at_chan == 2 && g_chan_tr == TR_EXP && g_chan_prev == (void *) g_prev_run && g_chan_next == (void *) NEXT_RUN))
__CPROVER_ensures(g_ret_state != 0 || g_ret_ss != 0 || g_ret_chan == 0 || (RV == -1 && g_seq == 3))
/* 4. then the rules, on the same transition and the body that runs now */
__CPROVER_ensures(g_ret_state != 0 || g_ret_ss != 0 || g_ret_chan != 0 || (
	g_seq == 4 && g_at_rules == 3 && g_rules_tr == TR_EXP && g_rules_next == (void *) NEXT_RUN &&
	(RV == 0) == (g_ret_rules == 0)))
__CPROVER_ensures(RV == 0 || RV == -1)
__CPROVER_ensures(RV == 0 || g_err > OLD(g_err))
;
void h_update_task(void)
{
	struct emu *emu;
	WITNESS_ON(uts);
	int r = update_task(emu);
	if (r == 0 && w_v == 'x' && g_prev_run == NULL) REACH("x accepted");
	if (r == 0 && w_v == 'x' && g_prev_run != NULL) REACH("nested x (X) accepted");
	if (r == 0 && w_v == 'e' && g_chan_tr == 'E') REACH("nested end (E) accepted");
	if (r != 0 && g_seq == 1) REACH("refused by the state update");
}
