/* C16 -- ovnisort: the region state machine of stream_winsort on the real src/emu/ovnisort.c (UNBOUNDED:
 * loop contract in loops/c16_winsort.json, any number of events).
 *
 * SPEC (written independently in the iterator stub): scanning the events in stream order, a region opens at
 * an OU[ seen outside a region and closes at the next OU]; a region with no event in between is only
 * counted ("empty"); for every other region the sort plan is executed exactly once, at the moment its OU]
 * is reached and BEFORE that OU] enters the look-back ring, with bad0 = the first event after the OU[,
 * next = the OU] event, base = the stream buffer, fd = the descriptor opened for writing.  Every event is
 * appended to the ring after it has been processed.  The function fails (-1, with a diagnostic) exactly
 * when the iterator or a sort plan fails; on success the file is synced iff a plan ran, and closed once.
 * execute_sort_plan is REPLACED by a call-logging contract (its body is not verified here). */
int g_no_die;
#define VERIF_DIE_HOOK __CPROVER_assert(!g_no_die, "die() reached although the contract excludes it")
#include "prelude.h"
int g_said;
#undef err
#define err(...) (verif_err(), (void) (g_said = 1))
#include "ovni.h"

#define EVSZ 12
uint8_t *g_buf;              /* the mapped stream: g_nev events of 12 bytes (only headers are read here) */
long g_nev;                  /* arbitrary number of events */
long g_seq;                  /* index of the event delivered last (-1: none) */
#define EV(k) ((struct ovni_ev *) (g_buf + EVSZ * (k)))

/* spec automaton */
int g_st;                    /* 0 outside a region, 1 just after OU[, 2 inside a non-empty region */
long g_bad0_seq;             /* first event of the current non-empty region */
int g_expect_exec;           /* the event just delivered closes a non-empty region: a plan must run now */
long g_regions, g_empty;       /* non-empty regions closed so far; empty regions */
int g_step_failed;
unsigned g_late;             /* a plan that was due did not run before the next step */

struct stream;
int
stream_step(struct stream *stream)
{
	(void) stream;
	if (g_expect_exec) g_late++;
	if (nondet_bool()) { g_step_failed = 1; return -1; }
	if (g_seq + 1 >= g_nev) return 1;
	g_seq++;
	unsigned char m = g_buf[EVSZ * g_seq + 1], c = g_buf[EVSZ * g_seq + 2], v = g_buf[EVSZ * g_seq + 3];
	int opens = (m == 'O' && c == 'U' && v == '['), closes = (m == 'O' && c == 'U' && v == ']');
	if (g_st == 0) { if (opens) g_st = 1; }
	else if (g_st == 1) { if (closes) { g_empty++; g_st = 0; } else { g_st = 2; g_bad0_seq = g_seq; } }
	else if (closes) { g_expect_exec = 1; g_regions++; g_st = 0; }
	return 0;
}
struct ovni_ev *stream_ev(struct stream *stream) { (void) stream; return EV(g_seq); }

/* POSIX: most general results, calls logged */
int g_fd; unsigned g_open_calls, g_sync_calls, g_close_calls; int g_close_fd, g_sync_fd;
static int verif_open(const char *path, int flags) { (void) path; g_open_calls++; VASSERT(flags == O_WRONLY, "opened for writing only"); g_fd = nondet_int(); return g_fd; }
#define open(path, flags) verif_open((path), (flags))
int fdatasync(int fd) { g_sync_calls++; g_sync_fd = fd; return nondet_int(); }
int close(int fd) { g_close_calls++; g_close_fd = fd; return nondet_int(); }
/* not reached in these groups (execute_sort_plan is replaced) */
ssize_t pwrite(int fd, const void *buf, size_t count, off_t offset) { (void) fd; (void) buf; (void) count; (void) offset; return -1; }
int ovni_ev_size(const struct ovni_ev *ev) { (void) ev; return EVSZ; }
uint64_t ovni_ev_get_clock(const struct ovni_ev *ev) { return ev->header.clock; }
void qsort(void *b, size_t n, size_t s, int (*c)(const void *, const void *)) { (void) b; (void) n; (void) s; (void) c; }

#define main ovnisort_main
#include "ovnisort.c"          /* the real /repo/src/emu/ovnisort.c */
#undef main

#define RV __CPROVER_return_value
#define OLD(e) __CPROVER_old(e)
#define RING_MAXSIZE (1L << 40)
#define RING_OBJ(r) (__CPROVER_is_fresh(r, sizeof(struct ring)) && 1 <= (r)->size && (r)->size <= RING_MAXSIZE && \
	__CPROVER_is_fresh((r)->ev, (size_t) (r)->size * sizeof(struct ovni_ev *)))
#define RING_RANGE(r) (0 <= (r)->head && (r)->head < (r)->size && 0 <= (r)->tail && (r)->tail < (r)->size)
#define RING_COUNT(h, t, sz) ((t) >= (h) ? (t) - (h) : (t) - (h) + (sz))
#define RING_INV(r) (RING_RANGE(r) && ((r)->head == 0 || RING_COUNT((r)->head, (r)->tail, (r)->size) == (r)->size - 1))
#define PREV(x, sz) ((x) - 1 >= 0 ? (x) - 1 : (sz) - 1)

/* execute_sort_plan: call-logging contract (REPLACES the call).  Its requires are asserted at the call
 * site: a plan runs only when the spec says one is due, and with exactly the region the spec names. */
struct ring *g_ring;
long g_exec_calls; int g_exec_failed;
int cr_execute_sort_plan(struct sortplan *sp)
__CPROVER_requires(g_expect_exec == 1)
__CPROVER_requires(sp->bad0 == EV(g_bad0_seq) && sp->next == EV(g_seq))
__CPROVER_requires(sp->base == g_buf && sp->fd == g_fd && sp->r == g_ring)
__CPROVER_assigns(g_expect_exec, g_exec_calls, g_exec_failed)
__CPROVER_ensures(g_expect_exec == 0 && g_exec_calls == OLD(g_exec_calls) + 1)
__CPROVER_ensures((RV == 0 || RV == -1) && g_exec_failed == ((RV == -1) ? 1 : OLD(g_exec_failed)))
;

int c_stream_winsort(struct stream *stream, struct ring *r)
__CPROVER_requires(__CPROVER_is_fresh(stream, sizeof(struct stream)) && RING_OBJ(r))
__CPROVER_requires(0 <= g_nev && g_nev <= (1L << 40) && __CPROVER_is_fresh(g_buf, (size_t) g_nev * EVSZ + EVSZ) && stream->buf == g_buf)
__CPROVER_requires(g_seq == -1 && g_st == 0 && g_expect_exec == 0 && g_regions == 0 && g_empty == 0 && g_step_failed == 0 && g_late == 0)
__CPROVER_requires(g_ring == r && g_exec_calls == 0 && g_exec_failed == 0 && g_said == 0 && DIAG_PRE)
__CPROVER_requires(g_open_calls == 0 && g_sync_calls == 0 && g_close_calls == 0)
__CPROVER_assigns(r->head, r->tail, __CPROVER_object_whole(r->ev))
__CPROVER_assigns(g_seq, g_st, g_bad0_seq, g_expect_exec, g_regions, g_empty, g_step_failed, g_late, g_exec_calls, g_exec_failed)
__CPROVER_assigns(g_fd, g_open_calls, g_sync_calls, g_close_calls, g_close_fd, g_sync_fd, g_said, DIAG_FRAME, g_died)
__CPROVER_ensures(RV == 0 || RV == -1)
/* fails exactly when the iterator or a sort plan failed, and says so */
__CPROVER_ensures((RV == -1) == (g_step_failed || g_exec_failed))
__CPROVER_ensures(RV == 0 || g_said != 0)
/* every plan that was due ran in time, none ran that was not due (asserted at the call site) */
__CPROVER_ensures(g_late == 0 && g_exec_calls == g_regions && (RV != 0 || g_expect_exec == 0))
/* success: every event was consumed and is the newest ring entry; sync iff something was rewritten; closed once */
__CPROVER_ensures(RV != 0 || (g_seq == g_nev - 1 && RING_INV(r) && (g_nev == 0 || r->ev[PREV(r->tail, r->size)] == EV(g_nev - 1))))
__CPROVER_ensures(RV != 0 || (g_open_calls == 1 && g_sync_calls == (g_exec_calls > 0 ? 1u : 0u) && (g_sync_calls == 0 || g_sync_fd == g_fd) &&
	g_close_calls == 1 && g_close_fd == g_fd))
;
void h_stream_winsort(void)
{
	struct stream *stream; struct ring *r;
	g_no_die = 0;       /* open/fdatasync/close failures are fatal */
	int ret = stream_winsort(stream, r);
	if (ret == 0 && g_exec_calls == 0 && g_nev >= 2) REACH("nothing to sort");
	if (ret == 0 && g_exec_calls >= 2) REACH("two or more regions sorted");
	if (ret == 0 && g_empty >= 1) REACH("empty region only counted");
	if (ret != 0 && g_exec_failed) REACH("a sort plan failed");
	if (ret != 0 && g_step_failed) REACH("the iterator failed");
}
