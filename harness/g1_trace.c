/* G1 (gap closure, property C03) -- src/emu/trace.c: is_stream, add_stream, load_stream,
 * cb_nftw, trace_load (cmp_streams is in harness/c03_trace.c).
 *
 * C03: "the result does not depend on the order in which the file system enumerates the
 * stream directories".  trace_load must therefore (i) add every directory that contains a
 * regular file named stream.json exactly once, whatever the visiting order, under its path
 * relative to the trace directory, (ii) fail when any of them fails to load, and (iii) sort
 * the COMPLETE list once by cmp_streams (DL_SORT itself is trusted).
 *
 * Trusted (most general, listed in the plan):
 *  - nftw: visits a ghost directory of at most three entries, each exactly once, in ANY
 *    order, with any type flag; stops at the first non-zero callback result and returns it;
 *    may fail on its own (-1) before or after visiting;
 *  - opendir / closedir: may fail;  calloc: may fail;
 *  - stream_load (stream.c): logging stub, may fail; records the relpath text it is given;
 *  - utlist DL_SORT: rebound to a log (list head, comparator, list length at the call);
 *    the list is left as it is;  DL_APPEND is verified as written;
 *  - snprintf(dst,n,"%s",src): string copy with the ISO result (or "too long");
 *  - path.c (path_filename, path_copy, path_dirname, path_remove_trailing): the REAL code is
 *    included (strings are concrete or short, CBMC's strlen/strrchr/strcmp models); only the
 *    trace_load group (-DG1_PATH_MODEL) replaces path_dirname / path_remove_trailing by
 *    constant-index models, which group g1_path_models compares with the real functions.
 * Measured: path_dirname on a PATH_MAX buffer with symbolic-index writes costs 8 M variables
 * per call; the groups with the real path.c run with --max-field-sensitivity-array-size 4100
 * on concrete path texts, so every index is a constant. */
#include "prelude.h"
#include <ftw.h>
#include "utlist.h"
#include "stream.h"

#ifndef G1_STRMAX
#define G1_STRMAX 24
#endif

/* ---- snprintf("%s") ---- */
int g_snp_toolong;                    /* the source does not fit (as for a >= PATH_MAX string) */
static int g1_snprintf_s(char *dst, size_t n, const char *fmt, const char *src)
{
	__CPROVER_assert(fmt[0] == '%' && fmt[1] == 's' && fmt[2] == '\0', "G1: snprintf model covers the format \"%s\" only");
	size_t len = 0;
	while (len < G1_STRMAX && src[len] != '\0') len++;
	__CPROVER_assert(src[len] == '\0', "G1 bound: source string fits the snprintf model");
	if (n > 0) {
		size_t k;
		for (k = 0; k < len && k + 1 < n; k++) dst[k] = src[k];
		dst[k] = '\0';
	}
	if (g_snp_toolong) return PATH_MAX;
	return (int) len;
}
#define G1_FIRST(a, ...) a
#undef snprintf
#define snprintf(s, n, fmt, ...) g1_snprintf_s((s), (n), (fmt), G1_FIRST(__VA_ARGS__))

/* ---- utlist DL_SORT (trusted): log ---- */
enum { G1_CMP_cmp_streams = 1 };
unsigned g_dlsort_n; void *g_dlsort_head; int g_dlsort_cmp; long g_dlsort_len; unsigned g_dlsort_after_nftw;
unsigned g_nftw_done;
#undef DL_SORT
#define DL_SORT(list, cmp) { g_dlsort_n++; g_dlsort_head = (void *) &(list); g_dlsort_cmp = G1_CMP_##cmp; \
	g_dlsort_len = g1_list_len(list); g_dlsort_after_nftw = g_nftw_done; }
static long g1_list_len(struct stream *head)
{
	long n = 0;
	for (struct stream *s = head; s != NULL; s = s->next) n++;
	return n;
}

/* ---- calloc: may fail; stream objects come from a pool of separate typed static objects
 * (a malloc'ed 16 KB struct is re-encoded as a whole at every field write: 37 M variables,
 * out of memory); their contents are made arbitrary, not zero (over-approximation) ---- */
unsigned g_lowfail, g_calloc_n;
#ifndef G1_POOL
#define G1_POOL 3
#endif
static struct stream g1_pool0;
#if G1_POOL > 1
static struct stream g1_pool1, g1_pool2;
#endif
static void g1_arbitrary_links(struct stream *s)
{
	struct stream *a, *b; void *d;     /* arbitrary */
	s->next = a; s->prev = b; s->data = d; s->active = nondet_int(); s->clock_offset = nondet_long();
}
void *calloc(size_t n, size_t sz)
{
	__CPROVER_assert(n == 1 && sz == sizeof(struct stream), "G1: unexpected calloc request");
	if (nondet_bool()) { g_lowfail++; return NULL; }
	unsigned k = g_calloc_n++;
#if G1_POOL > 1
	struct stream *s = k == 0 ? &g1_pool0 : k == 1 ? &g1_pool1 : &g1_pool2;
#else
	struct stream *s = &g1_pool0;
#endif
	__CPROVER_assert(k < G1_POOL, "G1 bound: no more streams allocated than the ghost directory has entries");
	g1_arbitrary_links(s);
	return s;
}

/* ---- stream_load (stream.c): logging stub ---- */
#define G1_NSL 4
unsigned g_sl_n; struct stream *g_sl_stream[G1_NSL]; const char *g_sl_tracedir[G1_NSL];
char g_sl_rel[G1_NSL][4];             /* first characters of the relpath text */
int g_sl_ret[G1_NSL]; unsigned g_sl_failed;
int stream_load(struct stream *stream, const char *tracedir, const char *relpath)
{
	unsigned k = g_sl_n++;
	int r = nondet_bool() ? -1 : 0;
	if (r != 0) g_sl_failed++;
	if (k < G1_NSL) {
		g_sl_stream[k] = stream; g_sl_tracedir[k] = tracedir; g_sl_ret[k] = r;
		int j = 0;
		for (; j < 3 && relpath[j] != '\0'; j++) g_sl_rel[k][j] = relpath[j];
		for (; j < 4; j++) g_sl_rel[k][j] = '\0';
	}
	return r;
}

/* ---- opendir / closedir ---- */
unsigned g_od_n, g_cd_n; int g_od_fail, g_cd_fail; const char *g_od_path;
static char g1_dirobj;
DIR *opendir(const char *name) { g_od_n++; g_od_path = name; return g_od_fail ? NULL : (DIR *) &g1_dirobj; }
int closedir(DIR *d) { g_cd_n++; __CPROVER_assert(d == (DIR *) &g1_dirobj, "closedir of the opened directory"); return g_cd_fail ? -1 : 0; }

#include "path.h"
#ifdef G1_PATH_MODEL
/* trace_load group: the two path.c functions that scan a PATH_MAX buffer backwards
 * (symbolic-index writes into a 4096-byte array: 8-35 M variables per call) are replaced by
 * constant-index models for strings shorter than G1_STRMAX; group g1_path_models checks the
 * models against the real functions on every string the harness uses. */
#define path_dirname real_path_dirname
#define path_remove_trailing real_path_remove_trailing
#endif
#include "path.c"                 /* the real /repo/src/emu/path.c */
#ifdef G1_PATH_MODEL
#undef path_dirname
#undef path_remove_trailing
static int m_len(const char *s)
{
	int n = 0;
	for (int k = 0; k < G1_STRMAX; k++) if (n == k && s[k] != '\0') n = k + 1;
	__CPROVER_assert(n < G1_STRMAX, "G1 bound: string fits the path models");
	return n;
}
void path_remove_trailing(char *path)
{
	int n = m_len(path);
	for (int k = G1_STRMAX - 1; k >= 0; k--)
		if (k == n - 1 && path[k] == '/') { path[k] = '\0'; n--; }
}
void path_dirname(char path[PATH_MAX])
{
	path_remove_trailing(path);
	int i = m_len(path) - 1;
	for (int k = G1_STRMAX - 1; k >= 0; k--) if (i == k && path[k] != '/') i = k - 1;
	for (int k = G1_STRMAX - 1; k >= 0; k--) if (i == k && path[k] == '/') { path[k] = '\0'; i = k - 1; }
}
#endif
#include "trace.c"                /* the real /repo/src/emu/trace.c */

#define RV __CPROVER_return_value
#define OLD(e) __CPROVER_old(e)

/* ---- nftw (trusted): ghost directory of <= 3 entries, any order ---- */
#define G1_NENT 3
int g_nent; const char *g_ent_path[G1_NENT]; int g_ent_type[G1_NENT]; unsigned g_ent_visits[G1_NENT];
int g_nftw_fail_before, g_nftw_fail_after; unsigned g_nftw_n; const char *g_nftw_dir; int g_nftw_cb_ok; int g_nftw_stopped;
struct trace *g_nftw_cur;
static int g1_visit(__nftw_func_t fn, int i)   /* i is a constant at every call */
{
	static struct stat sb; static struct FTW ftwbuf;
	if (i >= g_nent) return 0;
	g_ent_visits[i]++;
	int r = fn(g_ent_path[i], &sb, g_ent_type[i], &ftwbuf);
	if (r != 0) g_nftw_stopped = 1;
	return r;
}
#define G1_VISIT3(a, b, c) { if ((r = g1_visit(fn, a)) == 0 && (r = g1_visit(fn, b)) == 0) r = g1_visit(fn, c); }
int g_perm;                           /* which of the 6 visiting orders */
int nftw(const char *dirpath, __nftw_func_t fn, int nopenfd, int flags)
{
	(void) nopenfd; (void) flags;
	g_nftw_n++; g_nftw_dir = dirpath; g_nftw_cb_ok = (fn == cb_nftw); g_nftw_cur = cur_trace;
	g_nftw_done = 0;
	if (g_nftw_fail_before) { g_nftw_done = 1; return -1; }
	int r = 0;
	switch (g_perm) {
	case 0: G1_VISIT3(0, 1, 2); break;
	case 1: G1_VISIT3(0, 2, 1); break;
	case 2: G1_VISIT3(1, 0, 2); break;
	case 3: G1_VISIT3(1, 2, 0); break;
	case 4: G1_VISIT3(2, 0, 1); break;
	default: G1_VISIT3(2, 1, 0); break;
	}
	g_nftw_done = 1;
	if (r != 0) return r;
	return g_nftw_fail_after ? -1 : 0;
}

/* =============================== add_stream (unbounded) =============================== */
#ifdef H_ADD_STREAM
/* the stream becomes the LAST element of the list (utlist: head->prev is the tail) and is
 * counted; no other link changes */
long w_n; int w_empty, w_single;
struct stream *g_tail;
WITNESS(add_stream);
void c_add_stream(struct trace *trace, struct stream *stream)
__CPROVER_requires(__CPROVER_is_fresh(trace, sizeof(*trace)))
__CPROVER_requires(__CPROVER_is_fresh(stream, sizeof(*stream)))
__CPROVER_requires(trace->streams == NULL || __CPROVER_is_fresh(trace->streams, sizeof(struct stream)))
__CPROVER_requires(trace->streams == NULL || __CPROVER_pointer_equals(trace->streams->prev, trace->streams) || __CPROVER_is_fresh(trace->streams->prev, sizeof(struct stream)))
__CPROVER_requires(trace->streams == NULL || trace->streams->prev->next == NULL)
__CPROVER_requires(trace->nstreams >= 0 && trace->nstreams < LONG_MAX)
__CPROVER_requires(trace->streams == NULL || __CPROVER_pointer_equals(g_tail, trace->streams->prev))
__CPROVER_requires(WBIND(add_stream, w_n == trace->nstreams && w_empty == (trace->streams == NULL) && w_single == (trace->streams != NULL && trace->streams->prev == trace->streams)))
__CPROVER_assigns(trace->streams, trace->nstreams, stream->prev, stream->next)
__CPROVER_assigns(trace->streams != NULL: trace->streams->prev, trace->streams->prev->next)
__CPROVER_ensures(trace->nstreams == OLD(trace->nstreams) + 1)
__CPROVER_ensures(stream->next == NULL && trace->streams->prev == stream)
__CPROVER_ensures(OLD(trace->streams) != NULL || (trace->streams == stream))
__CPROVER_ensures(OLD(trace->streams) == NULL || (trace->streams == OLD(trace->streams) && stream->prev == g_tail && g_tail->next == stream))
;
void h_add_stream(void)
{
	struct trace *t; struct stream *s;
	WITNESS_ON(add_stream);
	add_stream(t, s);
	if (w_empty) REACH("first stream");
	if (w_single) REACH("second stream");
	if (!w_empty && !w_single && w_n == 7) REACH("appended to a longer list");
}
#endif

/* =============================== is_stream (bounded strings) =============================== */
#ifdef H_IS_STREAM
/* a path names a stream exactly when its last component is "stream.json" */
#define G1_PLEN 15
void h_is_stream(void)
{
	char p[G1_PLEN + 1];
	p[G1_PLEN] = '\0';
	int len = 0, last = -1;
	for (int j = 0; j < G1_PLEN; j++) { if (p[j] == '\0') break; if (p[j] == '/') last = j; len++; }
	static const char want[] = "stream.json";
	int eq = 1;
	for (int j = 0; j < 12; j++) if (last + 1 + j > len || p[last + 1 + j] != want[j]) eq = 0;
	int r = is_stream(p);
	VASSERT(r == (eq ? 1 : 0), "a path is a stream exactly when its last component is stream.json");
	if (r && last == 3) REACH("abc/stream.json");
	if (r && last == -1) REACH("stream.json without directory");
	if (!r && len == 15 && last == 3 && p[4] == 's' && p[14] == 'm') REACH("other file name of the same length");
	if (!r && len == 14 && last == 3 && p[4] == 's' && p[13] == 'o') REACH("stream.jso");
	if (!r && last == 2 && p[3] == 'x' && p[4] == 's' && p[14] == 'n') REACH("xstream.json");
}
#endif

/* =============================== cb_nftw / load_stream (bounded) =============================== */
/* concrete candidate paths; the spec columns say whether the file is a stream and which
 * relative directory it lives in (trace directory "t") */
struct g1_cand { const char *path; int is_json; const char *rel; };
static const struct g1_cand g1_cands[] = {
	{ "t/a/stream.json",     1, "a"   },
	{ "t/a/stream.obs",      0, ""    },
	{ "t/b/c/stream.json",   1, "b/c" },
	{ "t/b/c/stream.jso",    0, ""    },
	{ "t/b/c/xstream.json",  0, ""    },
	{ "t/stream.json",       1, ""    },
	{ "t//d/stream.json",    1, "d"   },
	{ "t/stream.json/x",     0, ""    },
};
#define G1_NCAND 8
static int rel_is(unsigned k, const char *rel)
{
	for (int j = 0; j < 4; j++) {
		if (g_sl_rel[k][j] != rel[j]) return 0;
		if (rel[j] == '\0') return 1;
	}
	return 1;
}
static void g1_reset(void)
{
	g_err = 0; g_lowfail = 0; g_sl_n = 0; g_sl_failed = 0; g_dlsort_n = 0; g_nftw_n = 0; g_od_n = 0; g_cd_n = 0;
	g_nftw_stopped = 0; g_nftw_done = 0;
	g_snp_toolong = 0;
}

#ifdef H_CB_NFTW
static void g1_cb_case(int c, int n0)   /* c and n0 are constants at every call: the path text and the list shape are concrete */
{
	static struct trace g1_t; static struct stream g1_s0;
	struct trace *t = &g1_t; struct stream *s0 = &g1_s0;
	g_calloc_n = 0;
	/* a trace that already holds zero or one stream */
	t->tracedir[0] = 't'; t->tracedir[1] = '\0';
	t->nstreams = n0; t->streams = n0 ? s0 : NULL; s0->prev = s0; s0->next = NULL;
	cur_trace = t;
	int typeflag = nondet_int();
	g1_reset();
	struct stat sb; struct FTW fb;
	int r = cb_nftw(g1_cands[c].path, &sb, typeflag, &fb);
	int wanted = (typeflag == FTW_F) && g1_cands[c].is_json;
	if (!wanted) {
		VASSERT(r == 0 && g_sl_n == 0 && g_lowfail == 0 && t->nstreams == n0 && t->streams == (n0 ? s0 : NULL) && g_err == 0, "anything that is not a regular file named stream.json is skipped silently");
		if (typeflag == FTW_D && c == 0) REACH("directory named stream.json skipped");
		if (typeflag == FTW_F && c == 3) REACH("stream.jso skipped");
	} else {
		VASSERT((r == 0) == (g_lowfail == 0 && g_sl_failed == 0), "a stream is added exactly when it could be allocated and loaded");
		VASSERT(r == 0 || g_err > 0, "a load failure is diagnosed and reported to nftw");
		VASSERT(g_lowfail > 0 || (g_sl_n == 1 && g_sl_tracedir[0] == t->tracedir && rel_is(0, g1_cands[c].rel)), "the stream is loaded once, relative to the trace directory, under the directory of its stream.json");
		if (r == 0) {
			VASSERT(t->nstreams == n0 + 1, "counted once");
			struct stream *ns = g_sl_stream[0];
			VASSERT(n0 ? (t->streams == s0 && s0->next == ns && ns->prev == s0 && s0->prev == ns && ns->next == NULL)
			           : (t->streams == ns && ns->prev == ns && ns->next == NULL), "appended at the end of the stream list");
			if (c == 2) REACH("nested directory loaded as b/c");
			if (c == 5) REACH("stream.json in the trace directory itself");
			if (c == 6 && n0 == 1) REACH("doubled slash skipped");
		} else {
			VASSERT(t->nstreams == n0 && t->streams == (n0 ? s0 : NULL) && (!n0 || (s0->next == NULL && s0->prev == s0)), "a failed stream is not added");
			if (g_sl_failed && c == 0) REACH("stream_load failure reported");
			if (g_lowfail && c == 0) REACH("allocation failure reported");
		}
	}
}
void h_cb_nftw(void)
{
	g1_cb_case(0, 0); g1_cb_case(1, 0); g1_cb_case(2, 1); g1_cb_case(3, 1);
	g1_cb_case(4, 0); g1_cb_case(5, 0); g1_cb_case(6, 1); g1_cb_case(7, 1);
	g1_cb_case(0, 1); g1_cb_case(5, 1);
}
#endif

/* =============================== trace_load (bounded: <= 3 directory entries) =============================== */
#ifdef H_TRACE_LOAD
/* entry i of the ghost directory lives in its own directory (a directory holds one
 * stream.json); whether it is a regular file is arbitrary */
static const int g1_ent_cand[G1_NENT] = { 0, 2, 6 };     /* t/a, t/b/c, t//d */
static void g1_trace_case(const char *dir, int max_ent)
{
	static struct trace g1_t;
	struct trace *t = &g1_t;
	g1_reset(); g_calloc_n = 0;
	g_nent = nondet_int(); __CPROVER_assume(g_nent >= 0 && g_nent <= max_ent);
	int want[G1_NENT], nwant = 0;
	for (int i = 0; i < G1_NENT; i++) {
		g_ent_path[i] = g1_cands[g1_ent_cand[i]].path;
		g_ent_type[i] = nondet_int();
		g_ent_visits[i] = 0;
		want[i] = i < g_nent && g_ent_type[i] == FTW_F;
		nwant += want[i];
	}
	g_perm = nondet_int(); __CPROVER_assume(g_perm >= 0 && g_perm < 6);     /* any visiting order */
	g_od_fail = nondet_bool(); g_cd_fail = nondet_bool(); g_nftw_fail_before = nondet_bool(); g_nftw_fail_after = nondet_bool();
	g_snp_toolong = nondet_bool();

	int r = trace_load(t, dir);

	int env_ok = !g_snp_toolong && !g_od_fail && !g_cd_fail && !g_nftw_fail_before && !g_nftw_fail_after;
	VASSERT((r == 0) == (env_ok && g_lowfail == 0 && g_sl_failed == 0), "the trace is loaded exactly when the directory can be walked and EVERY stream in it loads");
	VASSERT(r == 0 || (r == -1 && g_err > 0), "a failure is diagnosed");
	VASSERT(g_sl_failed == 0 || r != 0, "a stream that fails to load makes trace_load fail");
	if (r == 0) {
		VASSERT(t->tracedir[0] == 't' && t->tracedir[1] == '\0', "trailing slashes of the trace directory are removed");
		VASSERT(g_od_n == 1 && g_cd_n == 1 && g_od_path == t->tracedir, "the directory is opened (and closed) once to catch permission errors");
		VASSERT(g_nftw_n == 1 && g_nftw_dir == t->tracedir && g_nftw_cb_ok && g_nftw_cur == t, "one recursive walk of the trace directory, with cb_nftw working on this trace");
		VASSERT(cur_trace == NULL, "the walk context is cleared");
		VASSERT(t->nstreams == nwant && g_sl_n == (unsigned) nwant, "exactly the regular files named stream.json are loaded");
		VASSERT(g1_list_len(t->streams) == nwant, "... and are all in the list");
		for (int i = 0; i < G1_NENT; i++) {
			int hits = 0; struct stream *obj = NULL;
			for (unsigned k = 0; k < G1_NENT; k++)
				if (k < g_sl_n && want[i] && rel_is(k, g1_cands[g1_ent_cand[i]].rel)) { hits++; obj = g_sl_stream[k]; }
			VASSERT(hits == (want[i] ? 1 : 0), "every directory with a stream.json is loaded exactly once, under its relative path, whatever the visiting order");
			if (want[i]) {
				int inlist = 0;
				for (struct stream *s = t->streams; s != NULL; s = s->next) if (s == obj) inlist++;
				VASSERT(inlist == 1, "... and its stream is in the list exactly once");
			}
			VASSERT(i >= g_nent || g_ent_visits[i] == 1, "every entry visited once");
		}
		VASSERT(g_dlsort_n == 1 && g_dlsort_head == (void *) &t->streams && g_dlsort_cmp == G1_CMP_cmp_streams, "the stream list is sorted once, by cmp_streams (relpath)");
		VASSERT(g_dlsort_after_nftw == 1 && g_dlsort_len == nwant, "... after the walk, on the complete list");
		if (max_ent == 0) REACH("empty trace directory given with trailing slashes");
		if (nwant == 3 && g_perm == 4) REACH("three streams, visited in the order 2,0,1");
		if (nwant == 3 && g_perm == 0) REACH("three streams, visited in the order 0,1,2");
		if (nwant == 0 && g_nent == 3) REACH("no stream among three entries");
		if (nwant == 1 && g_nent == 3 && want[1]) REACH("one stream among three entries");
	} else if (max_ent > 0) {
		if (env_ok && g_sl_failed && nwant == 3 && g_sl_n == 2) REACH("second of three streams fails to load");
		if (g_od_fail) REACH("cannot open the trace directory");
		if (g_snp_toolong) REACH("trace directory path too long");
		if (!g_od_fail && !g_snp_toolong && !g_cd_fail && g_nftw_fail_after && g_sl_failed == 0 && g_lowfail == 0) REACH("walk fails after visiting");
	}
}
void h_trace_load(void)
{
	g1_trace_case("t", G1_NENT);     /* the directory with up to three entries */
	g1_trace_case("t//", 0);         /* trailing slashes (empty directory) */
}
#endif

/* =============================== path models vs the real path.c =============================== */
#ifdef H_PATH_MODELS
static void g1_model_case(const char *text)   /* concrete text */
{
	char a[PATH_MAX], b[PATH_MAX];
	int n = 0;
	for (; n < G1_STRMAX - 1 && text[n] != '\0'; n++) { a[n] = text[n]; b[n] = text[n]; }
	for (int k = n; k < G1_STRMAX; k++) { a[k] = '\0'; b[k] = '\0'; }
	real_path_dirname(a); path_dirname(b);
	for (int k = 0; k < G1_STRMAX; k++) VASSERT(a[k] == b[k], "path_dirname model = real path_dirname on this string");
	for (n = 0; n < G1_STRMAX - 1 && text[n] != '\0'; n++) { a[n] = text[n]; b[n] = text[n]; }
	for (int k = n; k < G1_STRMAX; k++) { a[k] = '\0'; b[k] = '\0'; }
	real_path_remove_trailing(a); path_remove_trailing(b);
	for (int k = 0; k < G1_STRMAX; k++) VASSERT(a[k] == b[k], "path_remove_trailing model = real path_remove_trailing on this string");
}
void h_path_models(void)
{
	g1_model_case("t/a/stream.json"); g1_model_case("t/b/c/stream.json"); g1_model_case("t//d/stream.json");
	g1_model_case("t/stream.json"); g1_model_case("t"); g1_model_case("t/"); g1_model_case("t//"); g1_model_case("");
	g1_model_case("/"); g1_model_case("a//b//");
	REACH("models agree with path.c on the strings used");
}
#endif
