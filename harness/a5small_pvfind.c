/* A5 (function coverage, plan C13) -- the three uthash look-up wrappers of the Paraver writers
 * that no group named yet: pcf_find_type, pcf_find_value (src/emu/pv/pcf.c), find_prv_chan
 * (src/emu/pv/prv.c, static).  harness/c13_pcf.c / c13_prv.c REPLACE them by assumed one-cell
 * map contracts in the callers' groups; here the wrappers themselves run:
 *   - exactly one lookup, in exactly the table of the object given (pcf->types, type->values,
 *     prv->channels), under exactly the key given, with the key WIDTH of the declared key
 *     field (int for PCF ids/values, long for PRV channel ids: a narrower width would alias
 *     channel ids that differ in the high half);
 *   - the result of the lookup is returned (NULL = absent);
 *   - nothing is written (the tables, the PCF/PRV objects are outside the frame).
 * Trusted: uthash HASH_FIND (not verified; CBMC cannot carry the real macros): rebound to a
 * one-cell map model that logs (head, key, key width) and returns the observed cell g_hf_res,
 * as in harness/g3_task.c.  The REAL macros are run natively through these same three
 * wrappers in group a5_uthash_native (native/a5small_uthash_native.c, finite). */
#include "prelude.h"
#include "value.h"
_Static_assert(sizeof(struct value) == 16, "struct value has no padding");
#undef value_is_equal
#define value_is_equal(a, b) ((a)->type == (b)->type && (a)->i == (b)->i)
#include "c13_io.h"        /* fprintf recorder hook, calloc/snprintf stubs, HASH_ADD log (none reached here) */
static int c13_print(int nargs, FILE *f, const char *fmt, long a, long b, long c, long d)
{ (void) nargs; (void) f; (void) fmt; (void) a; (void) b; (void) c; (void) d; return nondet_int(); }

struct a5_hfind { unsigned n; const void *head; long key; unsigned width; } g_hfind;
void *g_hf_res;            /* value of the observed cell (NULL: key absent) */
#undef HASH_FIND_INT
#undef HASH_FIND_LONG
#define HASH_FIND_INT(head_, find_, out_) { g_hfind.n++; g_hfind.head = (const void *) (head_); \
	g_hfind.key = (long) *(find_); g_hfind.width = sizeof(*(find_)) == sizeof(int) ? 4 : 0; (out_) = g_hf_res; }
#define HASH_FIND_LONG(head_, find_, out_) { g_hfind.n++; g_hfind.head = (const void *) (head_); \
	g_hfind.key = (long) *(find_); g_hfind.width = sizeof(*(find_)) == sizeof(long) ? 8 : 0; (out_) = g_hf_res; }

#if defined(A5_PCF)
#include "pv/pcf.c"        /* the real /repo/src/emu/pv/pcf.c */

WITNESS(pcf_find_type);
int w_ft_id, w_ft_found;
struct pcf_type *c_pcf_find_type(struct pcf *pcf, int type_id)
__CPROVER_requires(__CPROVER_is_fresh(pcf, sizeof(*pcf)))
__CPROVER_requires(g_hf_res == NULL || __CPROVER_is_fresh(g_hf_res, sizeof(struct pcf_type)))
__CPROVER_requires(g_hfind.n < 1000000u)
__CPROVER_requires(WBIND(pcf_find_type, w_ft_id == type_id && w_ft_found == (g_hf_res != NULL)))
__CPROVER_assigns(g_hfind)
__CPROVER_ensures(g_hfind.n == OLD(g_hfind.n) + 1 && g_hfind.head == (const void *) pcf->types && g_hfind.key == (long) type_id && g_hfind.width == 4)
__CPROVER_ensures(__CPROVER_pointer_equals(RV, (struct pcf_type *) g_hf_res))
__CPROVER_ensures(pcf->types == OLD(pcf->types))
;
void h_pcf_find_type(void)
{
	struct pcf *pcf; int id;
	WITNESS_ON(pcf_find_type);
	struct pcf_type *t = pcf_find_type(pcf, id);
	if (t != NULL && w_ft_id == 90) REACH("type 90 found");
	if (t == NULL && w_ft_id == -1) REACH("negative id not found");
	if (t == NULL && w_ft_id == 0x7fffffff) REACH("largest id not found");
}

WITNESS(pcf_find_value);
int w_fv_val, w_fv_found, w_fv_typeid;
struct pcf_value *c_pcf_find_value(struct pcf_type *type, int value)
__CPROVER_requires(__CPROVER_is_fresh(type, sizeof(*type)))
__CPROVER_requires(g_hf_res == NULL || __CPROVER_is_fresh(g_hf_res, sizeof(struct pcf_value)))
__CPROVER_requires(g_hfind.n < 1000000u)
__CPROVER_requires(WBIND(pcf_find_value, w_fv_val == value && w_fv_found == (g_hf_res != NULL) && w_fv_typeid == type->id))
__CPROVER_assigns(g_hfind)
/* the VALUES of this type are searched (not the type table it hangs in), under the value */
__CPROVER_ensures(g_hfind.n == OLD(g_hfind.n) + 1 && g_hfind.head == (const void *) type->values && g_hfind.key == (long) value && g_hfind.width == 4)
__CPROVER_ensures(__CPROVER_pointer_equals(RV, (struct pcf_value *) g_hf_res))
__CPROVER_ensures(type->values == OLD(type->values) && type->nvalues == OLD(type->nvalues))
;
void h_pcf_find_value(void)
{
	struct pcf_type *type; int value;
	WITNESS_ON(pcf_find_value);
	struct pcf_value *v = pcf_find_value(type, value);
	if (v != NULL && w_fv_val == 3 && w_fv_typeid == 7) REACH("value 3 of type 7 found");
	if (v == NULL && w_fv_val == 0) REACH("value 0 not labelled");
	if (v == NULL && w_fv_val == (-0x7fffffff - 1)) REACH("smallest value not labelled");
}
#endif

#if defined(A5_PRV)
#include "pv/prv.c"        /* the real /repo/src/emu/pv/prv.c */

WITNESS(find_prv_chan);
long w_fc_id; int w_fc_found;
struct prv_chan *c_find_prv_chan(struct prv *prv, long id)
__CPROVER_requires(__CPROVER_is_fresh(prv, sizeof(*prv)))
__CPROVER_requires(g_hf_res == NULL || __CPROVER_is_fresh(g_hf_res, sizeof(struct prv_chan)))
__CPROVER_requires(g_hfind.n < 1000000u)
__CPROVER_requires(WBIND(find_prv_chan, w_fc_id == id && w_fc_found == (g_hf_res != NULL)))
__CPROVER_assigns(g_hfind)
/* all 64 bits of the channel id are the key */
__CPROVER_ensures(g_hfind.n == OLD(g_hfind.n) + 1 && g_hfind.head == (const void *) prv->channels && g_hfind.key == id && g_hfind.width == 8)
__CPROVER_ensures(__CPROVER_pointer_equals(RV, (struct prv_chan *) g_hf_res))
__CPROVER_ensures(prv->channels == OLD(prv->channels))
;
void h_find_prv_chan(void)
{
	struct prv *prv; long id;
	WITNESS_ON(find_prv_chan);
	struct prv_chan *c = find_prv_chan(prv, id);
	if (c != NULL && w_fc_id == 0x100000005L) REACH("channel with an id above 2^32 found");
	if (c == NULL && w_fc_id == 5) REACH("channel 5 not registered");
	if (c == NULL && w_fc_id < 0) REACH("negative id not registered");
}
#endif
