/* C06/C08 (gap G2) -- the small functions of src/emu/chan.c that the registry and the models rely on:
 *   chan_init (variadic; assume/assert harness, plain CBMC): every field cleared -- not dirty, all
 *     properties off (no DIRTY_WRITE / ALLOW_DUP / IGNORE_DUP unless set afterwards), no dirty callback,
 *     last value null, empty stack / null value -- the type set as asked, the name formatted into
 *     chan->name (512 bytes) AFTER the clearing; dies iff the name does not fit / cannot be formatted.
 *   chan_set_dirty_cb, chan_prop_set, chan_prop_get, chan_dirty: exact DFCC contracts.
 * harness/c06_chan.c is included textually for its spec readers and its dirty-callback stub. */
#ifdef H_CHAN_INIT
void g2_die_hook(void);
#define VERIF_DIE_HOOK g2_die_hook()
#endif
#include "prelude.h"
#include <stdarg.h>

/* vsnprintf(s, n, fmt, ap): formatting dropped, any result; on a fitting result the buffer holds a
 * string (marker byte 'N' first, so that a later clearing of the name is seen) */
char *g_vs_dst; size_t g_vs_n; const char *g_vs_fmt; int g_vs_ret, g_nvs;
static int verif_vsnprintf(char *s, size_t n, const char *fmt)
{
	g_vs_dst = s; g_vs_n = n; g_vs_fmt = fmt; g_nvs++;
	g_vs_ret = nondet_int();
	if (n > 1 && s != NULL) { size_t k = nondet_size_t(); __CPROVER_assume(k >= 1 && k < n); s[0] = 'N'; s[k] = '\0'; }
	return g_vs_ret;
}
#define vsnprintf(s, n, fmt, ap) verif_vsnprintf((s), (n), (fmt))

#include "c06_chan.c"      /* prelude, value_is_equal rebinding, the real chan.c, spec readers, stub_dirty_cb */

/* ---------------- chan_init ---------------- */
#ifdef H_CHAN_INIT
int g_in_init;
void g2_die_hook(void)
{
	VASSERT(!g_in_init || g_vs_ret < 0 || g_vs_ret >= MAX_CHAN_NAME, "chan_init dies only when the name cannot be formatted or does not fit");
	if (g_in_init && g_vs_ret >= MAX_CHAN_NAME) REACH("chan_init dies: name too long");
}
void h_chan_init(void)
{
	static struct chan C;
	static int junk;
	static const char fmt[] = "%s";
	int k = nondet_int(); __CPROVER_assume(k >= 0 && k < MAX_CHAN_STACK);   /* observer: an arbitrary stack cell */
	chan_cb_t keep = stub_dirty_cb; (void) keep;
	/* garbage everywhere */
	C.is_dirty = nondet_int(); C.prop[CHAN_DIRTY_WRITE] = nondet_int(); C.prop[CHAN_ALLOW_DUP] = nondet_int(); C.prop[CHAN_IGNORE_DUP] = nondet_int();
	C.dirty_cb = stub_dirty_cb; C.dirty_arg = &junk;
	C.last_value.type = nondet_long(); C.last_value.i = nondet_long();
	C.data.stack.n = nondet_int();
	C.data.stack.values[k].type = nondet_long(); C.data.stack.values[k].i = nondet_long();
	C.name[0] = 'z';
	enum chan_type type = nondet_bool() ? CHAN_STACK : CHAN_SINGLE;
	g_nvs = 0; g_in_init = 1;

	chan_init(&C, type, fmt, "x");

	g_in_init = 0;
	VASSERT(g_nvs == 1 && g_vs_dst == C.name && g_vs_n == MAX_CHAN_NAME && g_vs_fmt == fmt, "the name is formatted once into chan->name (512 bytes) from the given format");
	VASSERT(g_vs_ret >= 0 && g_vs_ret < MAX_CHAN_NAME, "chan_init returns only when the name fits");
	VASSERT(C.name[0] == 'N', "the formatted name is still there (cleared before, not after)");
	VASSERT(C.type == type, "type exactly as asked (stack / single)");
	VASSERT(C.is_dirty == 0, "not dirty");
	VASSERT(C.prop[CHAN_DIRTY_WRITE] == 0 && C.prop[CHAN_ALLOW_DUP] == 0 && C.prop[CHAN_IGNORE_DUP] == 0, "all properties off: duplicates refused, no write while dirty");
	VASSERT(C.dirty_cb == NULL && C.dirty_arg == NULL, "no dirty callback");
	struct value lv = C.last_value, cur = C.data.value, cell = C.data.stack.values[k];
	VASSERT(lv.type == VALUE_NULL && lv.i == 0, "last value null");
	VASSERT(C.data.stack.n == 0, "empty stack");
	VASSERT(cur.type == VALUE_NULL && cur.i == 0, "single value null");
	VASSERT(cell.type == VALUE_NULL && cell.i == 0, "every stack cell cleared");
	VASSERT(spec_cur_t(&C) == VALUE_NULL, "a fresh channel shows nothing");
	if (type == CHAN_STACK) REACH("stack channel initialised");
	if (type == CHAN_SINGLE) REACH("single channel initialised");
}
#endif

/* ---------------- chan_set_dirty_cb ---------------- */
void c_chan_set_dirty_cb(struct chan *chan, chan_cb_t func, void *arg)
__CPROVER_requires(__CPROVER_is_fresh(chan, sizeof(*chan)))
__CPROVER_assigns(chan->dirty_cb, chan->dirty_arg)
__CPROVER_ensures(chan->dirty_cb == func && chan->dirty_arg == arg)
;
void h_chan_set_dirty_cb(void)
{
	struct chan *chan; void *arg;
	chan_cb_t func = nondet_bool() ? stub_dirty_cb : (chan_cb_t) NULL;
	chan_set_dirty_cb(chan, func, arg);
	if (func != NULL) REACH("callback set");
	if (func == NULL) REACH("callback removed");
}

/* ---------------- chan_prop_set / chan_prop_get ---------------- */
int w_prop, w_pv;
WITNESS(chan_prop_get);
WITNESS(chan_prop_set);
void c_chan_prop_set(struct chan *chan, enum chan_prop prop, int value)
__CPROVER_requires(__CPROVER_is_fresh(chan, sizeof(*chan)))
__CPROVER_requires((int) prop >= 0 && (int) prop < CHAN_MAXPROP && WBIND(chan_prop_set, w_prop == (int) prop && w_pv == value))
__CPROVER_assigns(chan->prop[prop])
__CPROVER_ensures(chan->prop[prop] == value)
;
void h_chan_prop_set(void)
{
	struct chan *chan; enum chan_prop prop; int value;
	WITNESS_ON(chan_prop_set);
	chan_prop_set(chan, prop, value);
	if (w_prop == CHAN_ALLOW_DUP && w_pv == 1) REACH("ALLOW_DUP switched on");
	if (w_prop == CHAN_IGNORE_DUP && w_pv == 0) REACH("IGNORE_DUP switched off");
}
int c_chan_prop_get(struct chan *chan, enum chan_prop prop)
__CPROVER_requires(__CPROVER_is_fresh(chan, sizeof(*chan)))
__CPROVER_requires((int) prop >= 0 && (int) prop < CHAN_MAXPROP && WBIND(chan_prop_get, w_prop == (int) prop && w_pv == chan->prop[prop]))
__CPROVER_assigns()
__CPROVER_ensures(__CPROVER_return_value == chan->prop[prop])
;
void h_chan_prop_get(void)
{
	struct chan *chan; enum chan_prop prop;
	WITNESS_ON(chan_prop_get);
	int r = chan_prop_get(chan, prop);
	if (w_prop == CHAN_ALLOW_DUP && r == 1) REACH("ALLOW_DUP read as set");
	if (w_prop == CHAN_DIRTY_WRITE && r == 0) REACH("DIRTY_WRITE read as clear");
}

/* ---------------- chan_dirty ---------------- */
WITNESS(chan_dirty);
int c_chan_dirty(struct chan *chan)
__CPROVER_requires(__CPROVER_is_fresh(chan, sizeof(*chan)))
__CPROVER_requires(chan->dirty_cb == NULL || chan->dirty_cb == stub_dirty_cb)
/* data-structure invariant (the observing callback stub reads the value shown) */
__CPROVER_requires(CHAN_WF(chan))
__CPROVER_requires(WBIND(chan_dirty, BIND_CHAN(chan)) && DIAG_PRE)
__CPROVER_requires(g_cb_calls == 0 && g_pre_arg == chan->dirty_arg && g_pre_dirty == chan->is_dirty)
__CPROVER_assigns(chan->is_dirty, CB_FRAME, DIAG_FRAME)
__CPROVER_ensures(__CPROVER_return_value == 0 || __CPROVER_return_value == -1)
/* the dirty callback (the bay's cb_chan_is_dirty) runs exactly once when the channel BECOMES dirty */
__CPROVER_ensures(g_cb_calls == ((!g_pre_dirty && chan->dirty_cb != NULL) ? 1u : 0u))
__CPROVER_ensures(g_cb_calls == 0 || (g_cb_chan == chan && g_cb_arg == g_pre_arg && g_cb_saw_dirty == 1))
/* fails exactly when that callback fails */
__CPROVER_ensures((__CPROVER_return_value != 0) == (g_cb_calls == 1 && g_cb_ret != 0))
__CPROVER_ensures(__CPROVER_return_value == 0 || g_err > __CPROVER_old(g_err))
/* afterwards the channel is dirty; an already dirty channel is left exactly as it was; the values are
 * outside the write frame */
__CPROVER_ensures(g_pre_dirty != 0 || chan->is_dirty == 1)
__CPROVER_ensures(g_pre_dirty == 0 || chan->is_dirty == g_pre_dirty)
;
void h_chan_dirty(void)
{
	struct chan *chan;
	chan_cb_t keep = stub_dirty_cb; (void) keep;
	WITNESS_ON(chan_dirty);
	int r = chan_dirty(chan);
	if (r == 0 && g_cb_calls == 1) REACH("became dirty, callback ran");
	if (r == 0 && g_pre_dirty) REACH("already dirty: nothing to do");
	if (r == 0 && !g_pre_dirty && g_cb_calls == 0) REACH("became dirty, no callback");
	if (r != 0) REACH("callback failed");
}
