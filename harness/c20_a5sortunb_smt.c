/* C20 -- EXPERIMENT (observation tier): sort_replace of the real src/emu/sort.c for a symbolic row count,
 * quantified hypothesis ("arr is sorted", pairwise) and quantified loop invariants ("cells the hole has
 * not reached are unchanged"), SMT back end.  See harness/c20_a5sortunb_sr.c for the route that closes. */
#include "prelude.h"
#include "sort.c"          /* the real /repo/src/emu/sort.c */

#ifndef SRU_NMAX
#define SRU_NMAX (1L << 20)
#endif

long g_p, g_q;                          /* first position of old; landing position of new */
long g_k; int64_t g_vk, g_vk1, g_vkm1;  /* positional observer */
int64_t *g_orig;                        /* ghost copy of the input array (never written) */

#define Q_UP   (g_p <= g_q && g_q < n && g_orig[g_q] <= new && (g_q == n - 1 || g_orig[g_q + 1] > new))
#define Q_DOWN (0 <= g_q && g_q <= g_p && g_orig[g_q] > new && (g_q == 0 || g_orig[g_q - 1] <= new))

void c_sort_replace(int64_t *arr, int64_t n, int64_t old, int64_t new)
__CPROVER_requires(1 <= n && n <= SRU_NMAX)
__CPROVER_requires(__CPROVER_is_fresh(arr, n * sizeof(int64_t)))
__CPROVER_requires(__CPROVER_is_fresh(g_orig, n * sizeof(int64_t)))
__CPROVER_requires(__CPROVER_forall { long j; (0 <= j && j < n) ==> arr[j] == g_orig[j] })
__CPROVER_requires(__CPROVER_forall { long a; __CPROVER_forall { long b; (0 <= a && a < b && b < n) ==> g_orig[a] <= g_orig[b] } })
__CPROVER_requires(0 <= g_p && g_p < n && g_orig[g_p] == old && (g_p == 0 || g_orig[g_p - 1] < old))
__CPROVER_requires(old == new || (old < new && Q_UP) || (new < old && Q_DOWN))
__CPROVER_requires(0 <= g_k && g_k < n && g_vk == g_orig[g_k] && (g_k + 1 >= n || g_vk1 == g_orig[g_k + 1]) && (g_k == 0 || g_vkm1 == g_orig[g_k - 1]))
__CPROVER_assigns(__CPROVER_object_whole(arr), g_died)
__CPROVER_ensures(old != new)
__CPROVER_ensures(!(old < new) || arr[g_k] == ((g_k < g_p || g_k > g_q) ? g_vk : (g_k < g_q) ? g_vk1 : new))
__CPROVER_ensures(!(new < old) || arr[g_k] == ((g_k < g_q || g_k > g_p) ? g_vk : (g_k > g_q) ? g_vkm1 : new))
;

void h_sort_replace(void)
{
	int64_t *arr; int64_t n, old, new;
	sort_replace(arr, n, old, new);
#ifndef SRU_NOREACH
	REACH("sort_replace returns");
#endif
}
